(* C12 - hashmap.nelua, part 2: the abstraction to association lists, relink_free, the rehash loop. *)
From Coq Require Import ZArith List Bool Lia Arith.
From C12 Require Import Gen Model ProofsBase ProofsVec ProofsHM1.
Import ListNotations.

Lemma hm_maxlf_pos : 0 < HM_MAXLF_n.
Proof. vm_compute. lia. Qed.
Lemma hm_init_pos : 0 < HM_INIT_n.
Proof. vm_compute. lia. Qed.

Lemma ceilidiv_ge : forall x y, 0 < y -> x <= ceilidiv x y * y.
Proof.
  intros. unfold ceilidiv. pose proof (Nat.div_mod (x + y - 1) y ltac:(lia)).
  pose proof (Nat.mod_upper_bound (x + y - 1) y ltac:(lia)). nia.
Qed.
Lemma ceilidiv_lt : forall x y, 0 < y -> 0 < x -> (ceilidiv x y - 1) * y < x.
Proof.
  intros. unfold ceilidiv. pose proof (Nat.div_mod (x + y - 1) y ltac:(lia)).
  pose proof (Nat.mod_upper_bound (x + y - 1) y ltac:(lia)). nia.
Qed.
Lemma ceilidiv_0 : forall y, 0 < y -> ceilidiv 0 y = 0.
Proof. intros. unfold ceilidiv. apply Nat.div_small. lia. Qed.
Lemma ceilidiv_mono : forall x x' y, 0 < y -> x <= x' -> ceilidiv x y <= ceilidiv x' y.
Proof. intros. unfold ceilidiv. apply Nat.div_le_mono; lia. Qed.

(* roundpow2 never wraps below 2^62 *)
Local Open Scope Z_scope.
Lemma lor_ge_l : forall a b, 0 <= a -> 0 <= b -> a <= Z.lor a b.
Proof.
  intros a b Ha Hb. assert (0 <= Z.lor a b) by (apply Z.lor_nonneg; split; assumption).
  apply (Z.ldiff_le a (Z.lor a b)); [assumption|].
  apply Z.bits_inj'. intros n Hn. rewrite Z.ldiff_spec, Z.lor_spec, Z.bits_0.
  destruct (Z.testbit a n), (Z.testbit b n); reflexivity.
Qed.

Lemma lor_shiftr_log2 : forall a k, 0 < a -> 0 <= k ->
  0 < Z.lor a (Z.shiftr a k) /\ a <= Z.lor a (Z.shiftr a k) /\ Z.log2 (Z.lor a (Z.shiftr a k)) = Z.log2 a.
Proof.
  intros a k Ha Hk. assert (0 <= Z.shiftr a k) by (apply Z.shiftr_nonneg; lia).
  pose proof (lor_ge_l a (Z.shiftr a k) ltac:(lia) H).
  split; [lia|]. split; [assumption|].
  rewrite Z.log2_lor by lia. rewrite Z.log2_shiftr by assumption.
  pose proof (Z.log2_nonneg a). lia.
Qed.

Lemma roundpow2_ge : forall n, 0 <= n <= 2 ^ 62 -> n <= roundpow2 n.
Proof.
  intros n Hn. unfold roundpow2.
  destruct (Z.land n ((n - 1) mod M64) =? 0); [lia|].
  destruct (Z.eq_dec n 0) as [->|Hz]; [vm_compute; discriminate|].
  assert (0 < n) as Hp by lia.
  destruct (lor_shiftr_log2 n 1 Hp ltac:(lia)) as (P1 & G1 & L1).
  destruct (lor_shiftr_log2 _ 2 P1 ltac:(lia)) as (P2 & G2 & L2).
  destruct (lor_shiftr_log2 _ 4 P2 ltac:(lia)) as (P3 & G3 & L3).
  destruct (lor_shiftr_log2 _ 8 P3 ltac:(lia)) as (P4 & G4 & L4).
  destruct (lor_shiftr_log2 _ 16 P4 ltac:(lia)) as (P5 & G5 & L5).
  destruct (lor_shiftr_log2 _ 32 P5 ltac:(lia)) as (P6 & G6 & L6).
  set (n6 := Z.lor _ (Z.shiftr _ 32)) in *.
  assert (Z.log2 n6 = Z.log2 n) as LL by congruence.
  assert (Z.log2 n <= 62) as L62.
  { assert (Z.log2 n < 63); [|lia]. apply Z.log2_lt_pow2; [assumption|].
    assert (2 ^ 62 < 2 ^ 63) by (apply Z.pow_lt_mono_r; lia). lia. }
  assert (n6 < 2 ^ 63).
  { apply Z.log2_lt_pow2; [assumption|]. lia. }
  assert (M64 = 2 ^ 64) as EM by reflexivity.
  rewrite Z.mod_small; [lia|]. rewrite EM. split; [lia|].
  assert (2 ^ 63 < 2 ^ 64) by (apply Z.pow_lt_mono_r; lia). lia.
Qed.
Local Close Scope Z_scope.

Lemma NoDup_app_snoc : forall (l : list nat) x, NoDup l -> ~ In x l -> NoDup (l ++ [x]).
Proof.
  induction l; intros x ND NI; cbn; [constructor; [intros []|constructor]|].
  inversion ND; subst. constructor.
  - intros H. apply in_app_or in H. destruct H as [H|[H|[]]]; [contradiction|subst; apply NI; left; reflexivity].
  - apply IHl; [assumption|]. intros H; apply NI; right; assumption.
Qed.

Section HM2.
  Variables K V : Type.
  Variable kdflt : K.
  Variable vdflt : V.
  Variable keqb : K -> K -> bool.
  Variable khash : K -> Z.

  Notation node := (hnode K V).
  Notation hmap := (hmap K V).
  Notation nkey := (nkey K V).
  Notation nval := (nval K V).
  Notation nfilled := (nfilled K V).
  Notation nnext := (nnext K V).
  Notation Seg := (Seg K V).

  (* ---- abstraction: the bindings in node order (= iteration order) *)
  Notation abs_of := (abs_of K V).
  Notation hm_abs := (hm_abs K V).

  Definition same_kvf (a b : node) : Prop := nkey a = nkey b /\ nval a = nval b /\ nfilled a = nfilled b.
  Definition kvf_eq (ns ns' : list node) : Prop :=
    length ns = length ns' /\
    forall i nd, nth_error ns i = Some nd -> exists nd', nth_error ns' i = Some nd' /\ same_kvf nd nd'.

  Lemma same_kvf_refl : forall a, same_kvf a a.
  Proof. intros; repeat split. Qed.
  Lemma kvf_eq_refl : forall ns, kvf_eq ns ns.
  Proof. intros; split; [reflexivity|]. intros; eexists; split; [eassumption|apply same_kvf_refl]. Qed.
  Lemma kvf_eq_trans : forall a b c, kvf_eq a b -> kvf_eq b c -> kvf_eq a c.
  Proof.
    intros a b c [L1 P1] [L2 P2]. split; [congruence|]. intros i nd H.
    destruct (P1 i nd H) as (nd1 & H1 & S1 & S2 & S3). destruct (P2 i nd1 H1) as (nd2 & H2 & T1 & T2 & T3).
    exists nd2. split; [assumption|]. repeat split; congruence.
  Qed.

  Lemma kvf_eq_abs : forall ns ns', kvf_eq ns ns' -> abs_of ns = abs_of ns'.
  Proof.
    induction ns as [|a ns IH]; intros [|b ns'] [L P]; try discriminate; [reflexivity|].
    destruct (P 0 a eq_refl) as (b' & Hb & S1 & S2 & S3). cbn in Hb. inversion Hb; subst b'.
    assert (abs_of ns = abs_of ns') as E.
    { apply IH. split; [cbn in L; lia|]. intros i nd H. exact (P (S i) nd H). }
    unfold Model.abs_of in *. cbn [filter]. rewrite <- S3. destruct (nfilled a); cbn [map]; [rewrite S1, S2|]; congruence.
  Qed.

  Lemma kvf_eq_filled_len : forall ns ns', kvf_eq ns ns' -> length (filter nfilled ns) = length (filter nfilled ns').
  Proof.
    intros. pose proof (kvf_eq_abs _ _ H) as E. unfold Model.abs_of in E.
    rewrite <- (map_length (fun nd => (nkey nd, nval nd))), E, map_length. reflexivity.
  Qed.

  Lemma kvf_eq_upd : forall ns i nd nd', nth_error ns i = Some nd -> same_kvf nd nd' ->
    kvf_eq ns (overwrite i [nd'] ns).
  Proof.
    intros ns i nd nd' H S. pose proof (nth_error_Some_lt _ _ _ _ H) as L.
    split; [rewrite length_upd by assumption; reflexivity|].
    intros j ndj Hj. rewrite nthe_upd by assumption. destruct (Nat.eqb_spec j i).
    - subst. rewrite H in Hj. inversion Hj; subst. eauto.
    - eexists; split; [eassumption|apply same_kvf_refl].
  Qed.

  Lemma set_next_kvf : forall e nd, same_kvf nd (set_next K V e nd).
  Proof. intros; repeat split. Qed.

  Lemma abs_of_app : forall a b, abs_of (a ++ b) = abs_of a ++ abs_of b.
  Proof. intros. unfold Model.abs_of. rewrite filter_app, map_app. reflexivity. Qed.

  Lemma abs_of_unfilled : forall ns, (forall nd, In nd ns -> nfilled nd = false) -> abs_of ns = [].
  Proof.
    induction ns; intros H; [reflexivity|]. unfold Model.abs_of in *. cbn [filter].
    rewrite (H a (or_introl eq_refl)). apply IHns. intros; apply H; right; assumption.
  Qed.

  Lemma filter_filter_id : forall (ns : list node), filter nfilled (filter nfilled ns) = filter nfilled ns.
  Proof.
    induction ns; [reflexivity|]. cbn [filter]. destruct (nfilled a) eqn:E; cbn [filter]; [rewrite E, IHns|]; auto.
  Qed.

  (* ---- relink_free *)
  Fixpoint unfilled_idx (ns : list node) (base : nat) : list nat :=
    match ns with
    | [] => []
    | nd :: tl => if nfilled nd then unfilled_idx tl (S base) else base :: unfilled_idx tl (S base)
    end.

  Lemma unfilled_idx_spec : forall ns base i,
    In i (unfilled_idx ns base) <-> exists nd, base <= i /\ nth_error ns (i - base) = Some nd /\ nfilled nd = false.
  Proof.
    induction ns as [|a ns IH]; intros base i; cbn [unfilled_idx].
    - split; [intros []|]. intros (nd & _ & H & _). rewrite nthe_nil in H. discriminate.
    - destruct (nfilled a) eqn:E.
      + rewrite IH. split.
        * intros (nd & H1 & H2 & H3). exists nd. split; [lia|]. split; [|assumption].
          replace (i - base) with (S (i - S base)) by lia. exact H2.
        * intros (nd & H1 & H2 & H3). destruct (Nat.eq_dec i base).
          { subst. rewrite Nat.sub_diag in H2. cbn in H2. inversion H2; subst. congruence. }
          exists nd. split; [lia|]. split; [|assumption].
          replace (i - base) with (S (i - S base)) in H2 by lia. exact H2.
      + cbn [In]. rewrite IH. split.
        * intros [<-|(nd & H1 & H2 & H3)].
          { exists a. rewrite Nat.sub_diag. auto. }
          { exists nd. split; [lia|]. split; [|assumption]. replace (i - base) with (S (i - S base)) by lia. exact H2. }
        * intros (nd & H1 & H2 & H3). destruct (Nat.eq_dec i base); [left; auto|right].
          exists nd. split; [lia|]. split; [|assumption].
          replace (i - base) with (S (i - S base)) in H2 by lia. exact H2.
  Qed.

  Lemma unfilled_idx_nodup : forall ns base, NoDup (unfilled_idx ns base).
  Proof.
    induction ns; intros; cbn [unfilled_idx]; [constructor|].
    destruct (nfilled a); [apply IHns|]. constructor; [|apply IHns].
    rewrite unfilled_idx_spec. intros (nd & H & _). lia.
  Qed.

  Lemma relink_free_spec : forall ns base,
    let r := relink_free K V ns base in
    length (fst r) = length ns /\
    (forall i nd, nth_error ns i = Some nd ->
       exists nd', nth_error (fst r) i = Some nd' /\ same_kvf nd nd' /\ (nfilled nd = true -> nnext nd' = None)) /\
    (forall pre, length pre = base -> Seg (pre ++ fst r) (snd r) (unfilled_idx ns base) None).
  Proof.
    induction ns as [|a ns IH]; intros base; cbn [relink_free].
    - cbn. split; [reflexivity|]. split; [intros i nd H; rewrite nthe_nil in H; discriminate|]. intros; constructor.
    - specialize (IH (S base)). destruct (relink_free K V ns (S base)) as [rest fr]. cbn [fst snd] in IH.
      destruct IH as (L & P & SG). cbn [unfilled_idx].
      destruct (nfilled a) eqn:E; cbn [fst snd].
      + split; [cbn; lia|]. split.
        * intros [|i] nd H; cbn in H |- *.
          { inversion H; subst. eexists; split; [reflexivity|]. split; [apply set_next_kvf|reflexivity]. }
          { apply P; assumption. }
        * intros pre Hp. specialize (SG (pre ++ [set_next K V None a]) ltac:(rewrite app_length; cbn; lia)).
          rewrite <- app_assoc in SG. exact SG.
      + split; [cbn; lia|]. split.
        * intros [|i] nd H; cbn in H |- *.
          { inversion H; subst. eexists; split; [reflexivity|]. split; [apply set_next_kvf|congruence]. }
          { apply P; assumption. }
        * intros pre Hp. specialize (SG (pre ++ [set_next K V fr a]) ltac:(rewrite app_length; cbn; lia)).
          rewrite <- app_assoc in SG. cbn [app] in SG.
          apply Seg_cons with (nd := set_next K V fr a); [|exact SG].
          rewrite nth_error_app2 by lia. rewrite Hp, Nat.sub_diag. reflexivity.
  Qed.

  (* ---- the bucket-filling loop of rehash *)
  Definition bucket_of (B : nat) (nd : node) : nat := hashmod (khash (nkey nd)) B.

  (* state of the loop after the nodes with index < i have been linked *)
  Record fill_inv (i : nat) (m : hmap) (ch : nat -> list nat) : Prop := {
    fi_ch : forall b, b < length (hbuckets K V m) ->
              exists s, nth_error (hbuckets K V m) b = Some s /\ Seg (hnodes K V m) s (ch b) None;
    fi_nd : forall b, b < length (hbuckets K V m) -> NoDup (ch b);
    fi_in : forall b j, b < length (hbuckets K V m) -> In j (ch b) ->
              j < i /\ exists nd, nth_error (hnodes K V m) j = Some nd /\ nfilled nd = true /\
                                  bucket_of (length (hbuckets K V m)) nd = b;
    fi_cov : forall j nd, j < i -> nth_error (hnodes K V m) j = Some nd -> nfilled nd = true ->
               In j (ch (bucket_of (length (hbuckets K V m)) nd));
    fi_rest : forall j nd, i <= j -> nth_error (hnodes K V m) j = Some nd -> nfilled nd = true -> nnext nd = None
  }.

  Hypothesis keqb_sym : forall a b, keqb a b = keqb b a.

  Lemma hm_link_ok : forall i m ch,
    0 < length (hbuckets K V m) ->
    fill_inv i m ch ->
    (forall a b na nb, nth_error (hnodes K V m) a = Some na -> nth_error (hnodes K V m) b = Some nb ->
       nfilled na = true -> nfilled nb = true -> keqb (nkey na) (nkey nb) = true -> a = b) ->
    i < length (hnodes K V m) ->
    exists m' ch', hm_link K V keqb khash i m = Ok m' /\ fill_inv (S i) m' ch' /\
      length (hbuckets K V m') = length (hbuckets K V m) /\ hsize K V m' = hsize K V m /\ hfree K V m' = hfree K V m /\
      kvf_eq (hnodes K V m) (hnodes K V m') /\
      (forall j nd, nth_error (hnodes K V m) j = Some nd -> nfilled nd = false -> nth_error (hnodes K V m') j = Some nd).
  Proof.
    intros i m ch HB FI KU Hi. unfold hm_link.
    destruct (sget_ok _ i (hnodes K V m) Hi) as (nd & Hg & Hn). rewrite Hg. cbn [rbind].
    destruct (nfilled nd) eqn:Ef; cbn [negb].
    2:{ exists m, ch. split; [reflexivity|]. split.
        - destruct FI as [F1 F2 F3 F4 F5]. constructor.
          + exact F1.
          + exact F2.
          + intros b j Hb Hj. destruct (F3 b j Hb Hj) as (A & B). split; [lia|assumption].
          + intros j ndj Hj Hnj Hfj. destruct (Nat.eq_dec j i); [subst; congruence|]. apply F4; auto; lia.
          + intros j ndj Hj. apply F5. lia.
        - split; [reflexivity|]. split; [reflexivity|]. split; [reflexivity|]. split; [apply kvf_eq_refl|]. auto. }
    set (B := length (hbuckets K V m)) in *.
    set (b := hashmod (khash (nkey nd)) B).
    assert (b < B) as Hb by (apply hashmod_lt; assumption).
    (* _find on the partially linked table *)
    assert (hm_find K V keqb khash (nkey nd) m = Ok (find_in K V keqb (hnodes K V m) (nkey nd) (ch b) None, b)) as HF.
    { unfold hm_find. fold B. destruct (Nat.eqb_spec B 0); [lia|]. fold b.
      destruct (fi_ch _ _ _ FI b Hb) as (s & Hs & HS).
      rewrite (sget_Some _ _ _ _ Hs). cbn [rbind].
      rewrite (walk_chain K V keqb _ (nkey nd) _ _ HS).
      - cbn [rbind]. destruct (find_in K V keqb (hnodes K V m) (nkey nd) (ch b) None). reflexivity.
      - pose proof (chain_len K V _ _ _ _ HS (fi_nd _ _ _ FI b Hb)). lia. }
    rewrite HF. cbn [rbind].
    (* no node of the chain has an equal key *)
    pose proof (find_in_spec K V keqb (hnodes K V m) (nkey nd) (ch b) None) as FS.
    assert (forall j, In j (ch b) -> exists x, nth_error (hnodes K V m) j = Some x) as R.
    { intros j Hj. destruct (fi_in _ _ _ FI b j Hb Hj) as (_ & x & Hx & _). eauto. }
    specialize (FS R).
    destruct (find_in K V keqb (hnodes K V m) (nkey nd) (ch b) None) as [[r|] prev].
    { exfalso. destruct FS as (l1 & l2 & E & _ & _ & M).
      assert (In r (ch b)) as Hr by (rewrite E; apply in_or_app; right; left; reflexivity).
      destruct (fi_in _ _ _ FI b r Hb Hr) as (Hlt & x & Hx & Hfx & _).
      unfold kmatch in M. rewrite Hx in M.
      assert (i = r) by (eapply KU; eauto). lia. }
    destruct FS as (Hprev & _).
    destruct (fi_ch _ _ _ FI b Hb) as (s & Hs & HS).
    pose proof (nth_error_Some_lt _ _ _ _ Hs) as HbL.
    assert (~ In i (ch b)) as Hnotin.
    { intros Hin. destruct (fi_in _ _ _ FI b i Hb Hin). lia. }
    destruct (ch b) as [|c0 crest] eqn:Ech.
    - (* empty chain: the bucket points to i *)
      cbn in Hprev. subst prev.
      rewrite sset_ok by assumption. cbn [rbind hnodes hbuckets hsize hfree].
      rewrite Hg. cbn [rbind]. rewrite sset_ok by assumption. cbn [rbind].
      eexists. exists (fun b' => if b' =? b then [i] else ch b'). split; [reflexivity|].
      assert (nnext nd = None) as Hnx by (eapply (fi_rest _ _ _ FI i); eauto).
      assert (set_next K V None nd = nd) as Hsame by (destruct nd; cbn in *; subst; reflexivity).
      rewrite Hsame.
      assert (overwrite i [nd] (hnodes K V m) = hnodes K V m) as Hid.
      { apply nth_error_ext; intro j. rewrite nthe_upd by assumption. destruct (Nat.eqb_spec j i); subst; auto. }
      rewrite Hid.
      split; [|cbn [hbuckets hsize hfree hnodes]; rewrite length_upd by assumption;
               split; [reflexivity|]; split; [reflexivity|]; split; [reflexivity|]; split; [apply kvf_eq_refl|auto]].
      constructor; cbn [hbuckets hnodes]; rewrite ?length_upd by assumption; fold B.
      + intros b' Hb'. rewrite nthe_upd by assumption. destruct (Nat.eqb_spec b' b).
        * subst b'. eexists; split; [reflexivity|]. econstructor; [exact Hn|]. rewrite Hnx. constructor.
        * apply (fi_ch _ _ _ FI b' Hb').
      + intros b' Hb'. destruct (Nat.eqb_spec b' b); [repeat constructor; intros []|apply (fi_nd _ _ _ FI b' Hb')].
      + intros b' j Hb' Hj. destruct (Nat.eqb_spec b' b).
        * destruct Hj as [<-|[]]. split; [lia|]. exists nd. subst b'. auto.
        * destruct (fi_in _ _ _ FI b' j Hb' Hj) as (A & Bx). split; [lia|assumption].
      + intros j ndj Hj Hnj Hfj. destruct (Nat.eq_dec j i).
        * subst j. rewrite Hn in Hnj. inversion Hnj; subst ndj. unfold bucket_of. fold b. rewrite Nat.eqb_refl. left; reflexivity.
        * pose proof (fi_cov _ _ _ FI j ndj ltac:(lia) Hnj Hfj) as Hc. fold B in Hc.
          destruct (Nat.eqb_spec (bucket_of B ndj) b) as [Eb|Eb]; [|assumption].
          rewrite Eb, Ech in Hc. destruct Hc.
      + intros j ndj Hj. apply (fi_rest _ _ _ FI j ndj). lia.
    - (* non-empty chain: the last node points to i *)
      assert (prev = Some (last (c0 :: crest) 0)) as Hp by (rewrite Hprev; reflexivity). clear Hprev. subst prev.
      set (p := last (c0 :: crest) 0) in *.
      assert (In p (c0 :: crest)) as Hpin by (apply last_in; discriminate).
      rewrite <- Ech in Hpin.
      destruct (fi_in _ _ _ FI b p Hb Hpin) as (Hplt & pn & Hpn & Hpf & Hpb).
      pose proof (nth_error_Some_lt _ _ _ _ Hpn) as HpL.
      rewrite (sget_Some _ _ _ _ Hpn). cbn [rbind].
      rewrite sset_ok by assumption. cbn [rbind hnodes hbuckets hsize hfree].
      assert (p <> i) as Hpi by lia.
      rewrite (sget_Some _ i _ nd) by (rewrite nthe_upd by assumption; destruct (Nat.eqb_spec i p); [lia|assumption]).
      cbn [rbind]. rewrite sset_ok by (rewrite length_upd; assumption). cbn [rbind].
      assert (nnext nd = None) as Hnx by (eapply (fi_rest _ _ _ FI i); eauto).
      assert (set_next K V None nd = nd) as Hsame by (destruct nd; cbn in *; subst; reflexivity).
      rewrite Hsame.
      set (ns1 := overwrite p [set_next K V (Some i) pn] (hnodes K V m)).
      assert (overwrite i [nd] ns1 = ns1) as Hid.
      { apply nth_error_ext; intro j. rewrite nthe_upd by (unfold ns1; rewrite length_upd; assumption).
        destruct (Nat.eqb_spec j i); [|reflexivity]. subst j. unfold ns1. rewrite nthe_upd by assumption.
        destruct (Nat.eqb_spec i p); [lia|]. symmetry; assumption. }
      rewrite Hid.
      assert (forall j, j <> p -> nth_error ns1 j = nth_error (hnodes K V m) j) as Hother.
      { intros j Hj. unfold ns1. rewrite nthe_upd by assumption. destruct (Nat.eqb_spec j p); [contradiction|reflexivity]. }
      assert (nth_error ns1 p = Some (set_next K V (Some i) pn)) as Hpp.
      { unfold ns1. rewrite nthe_upd by assumption. rewrite Nat.eqb_refl. reflexivity. }
      assert (kvf_eq (hnodes K V m) ns1) as Hkvf by (apply (kvf_eq_upd _ p pn); [assumption|apply set_next_kvf]).
      eexists. exists (fun b' => if b' =? b then ch b ++ [i] else ch b'). split; [reflexivity|].
      split; [|cbn [hbuckets hsize hfree hnodes];
               split; [reflexivity|]; split; [reflexivity|]; split; [reflexivity|]; split; [exact Hkvf|];
               intros j ndj Hj Hfj; rewrite Hother; [assumption|]; intros ->; congruence].
      constructor; cbn [hbuckets hnodes]; fold B.
      + intros b' Hb'. destruct (Nat.eqb_spec b' b).
        * subst b'. exists s. split; [assumption|].
          eapply Seg_app.
          { rewrite Ech. unfold ns1, p.
            eapply Seg_set_last; [exact HS|discriminate|rewrite <- Ech; apply (fi_nd _ _ _ FI b Hb)|exact Hpn]. }
          { econstructor; [rewrite Hother by lia; exact Hn|]. rewrite Hnx. constructor. }
        * destruct (fi_ch _ _ _ FI b' Hb') as (s' & Hs' & HS'). exists s'. split; [assumption|].
          eapply Seg_frame; [exact HS'|]. intros j ndj Hj Hnj.
          assert (j <> p).
          { intros ->. destruct (fi_in _ _ _ FI b' p Hb' Hj) as (_ & x & Hx & _ & Hbx).
            rewrite Hpn in Hx. inversion Hx; subst x. congruence. }
          exists ndj. split; [rewrite Hother by assumption; assumption|reflexivity].
      + intros b' Hb'. destruct (Nat.eqb_spec b' b); [|apply (fi_nd _ _ _ FI b' Hb')].
        rewrite Ech. apply NoDup_app_snoc; [rewrite <- Ech; apply (fi_nd _ _ _ FI b Hb)|assumption].
      + intros b' j Hb' Hj. destruct (Nat.eqb_spec b' b).
        * subst b'. apply in_app_or in Hj. destruct Hj as [Hj|[<-|[]]].
          { destruct (fi_in _ _ _ FI b j Hb Hj) as (A & x & Hx & Hfx & Hbx). split; [lia|].
            destruct (proj2 Hkvf j x Hx) as (x' & Hx' & S1 & S2 & S3). exists x'. split; [assumption|].
            split; [congruence|]. unfold bucket_of in *. rewrite <- S1. assumption. }
          { split; [lia|]. exists nd. rewrite Hother by lia. auto. }
        * destruct (fi_in _ _ _ FI b' j Hb' Hj) as (A & x & Hx & Hfx & Hbx). split; [lia|].
          destruct (proj2 Hkvf j x Hx) as (x' & Hx' & S1 & S2 & S3). exists x'. split; [assumption|].
          split; [congruence|]. unfold bucket_of in *. rewrite <- S1. assumption.
      + intros j ndj Hj Hnj Hfj.
        assert (exists x, nth_error (hnodes K V m) j = Some x /\ same_kvf x ndj) as (x & Hx & S1 & S2 & S3).
        { destruct (Nat.eq_dec j p).
          - subst j. rewrite Hpp in Hnj. inversion Hnj; subst ndj. exists pn. split; [assumption|apply set_next_kvf].
          - rewrite Hother in Hnj by assumption. exists ndj. split; [assumption|apply same_kvf_refl]. }
        unfold bucket_of. rewrite <- S1.
        destruct (Nat.eq_dec j i).
        * subst j. rewrite Hn in Hx. inversion Hx; subst x. fold b. rewrite Nat.eqb_refl. apply in_or_app. right; left; reflexivity.
        * pose proof (fi_cov _ _ _ FI j x ltac:(lia) Hx ltac:(congruence)) as Hc. unfold bucket_of in Hc. fold B in Hc.
          destruct (Nat.eqb_spec (hashmod (khash (nkey x)) B) b) as [Eb|Eb]; [|assumption].
          rewrite Eb in Hc. apply in_or_app. left; assumption.
      + intros j ndj Hj Hnj Hfj. rewrite Hother in Hnj by lia. apply (fi_rest _ _ _ FI j ndj); auto; lia.
  Qed.
End HM2.
