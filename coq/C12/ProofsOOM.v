(* C12 - refusing allocators for vector, sequence, hashmap and list.  These containers only use the raising
   allocation entry points (xspanrealloc, xspanrealloc0, xspanalloc, new): a refused request panics with
   'out of memory'.  Every operation under an arbitrary allocator therefore either behaves exactly as with an
   allocator that grants everything - so all refinement theorems apply - or stops with the out-of-memory panic;
   no path continues with a half-updated container. *)
From Coq Require Import ZArith List Bool Lia Arith.
From C12 Require Import Gen Model ProofsBase ProofsVec ProofsSeq ProofsAL ProofsHM1 ProofsHM2 ProofsHM3.
Import ListNotations.

Ltac oom_case b := destruct b; [|try (right; reflexivity)].

Section VecOOM.
  Variable T : Type.
  Variable dflt : T.
  Variable teqb : T -> T -> bool.
  Variable ok : nat -> bool.

  Lemma vec_grow_a_dich : forall v, vec_grow_a T dflt ok v = vec_grow T dflt v \/ vec_grow_a T dflt ok v = Trap TrapOOM.
  Proof. intros. unfold vec_grow_a. destruct (ok _); auto. Qed.

  Lemma vec_reserve_a_dich : forall n v,
    vec_reserve_a T dflt ok n v = Ok (vec_reserve T dflt n v) \/ vec_reserve_a T dflt ok n v = Trap TrapOOM.
  Proof. intros. unfold vec_reserve_a, vec_reserve. destruct (n <=? vec_cap T v); [auto|]. destruct (ok n); auto. Qed.

  Theorem vec_step_a_dich : forall o v,
    vec_step_a T dflt teqb ok o v = vec_step T dflt teqb o v \/ vec_step_a T dflt teqb ok o v = Trap TrapOOM.
  Proof.
    intros o v. destruct o; cbn [vec_step_a vec_step]; auto.
    - unfold vec_push_a, vec_push. destruct (vec_cap T v <? S (vsize T v)); [|auto].
      destruct (vec_grow_a_dich v) as [-> | ->]; auto.
    - unfold vec_insert_a, vec_insert. destruct (vsize T v <? pos); [auto|].
      destruct (vec_cap T v <=? vsize T v + 1); [|auto]. destruct (vec_grow_a_dich v) as [-> | ->]; auto.
    - unfold vec_resize_a, vec_resize. destruct (vec_reserve_a_dich n v) as [-> | ->]; auto.
    - destruct (vec_reserve_a_dich n v) as [-> | ->]; auto.
    - unfold vec_copy_a, vec_copy. destruct (0 <? vsize T v); [|auto]. destruct (ok _); auto.
    - unfold vec_convert_a, vec_convert. destruct (vec_reserve_a_dich (length xs) (vec_empty T)) as [-> | ->]; auto.
  Qed.
End VecOOM.

Section SeqOOM.
  Variable T : Type.
  Variable dflt : T.
  Variable teqb : T -> T -> bool.
  Variable oki : bool.
  Variable ok : nat -> bool.

  Lemma seq_init_a_dich : forall s, seq_init_a T oki s = Ok (seq_init T s) \/ seq_init_a T oki s = Trap TrapOOM.
  Proof. intros. unfold seq_init_a, seq_init. destruct (sinit T s); [auto|]. destruct oki; auto. Qed.

  Lemma seq_grow_a_dich : forall s, seq_grow_a T dflt ok s = seq_grow T dflt s \/ seq_grow_a T dflt ok s = Trap TrapOOM.
  Proof. intros. unfold seq_grow_a. destruct (ok _); auto. Qed.

  Lemma seq_init_idem : forall s, seq_init T (seq_init T s) = seq_init T s.
  Proof. intros [b d n]. unfold seq_init; cbn. destruct b; reflexivity. Qed.

  Lemma seq_reserve_a_dich : forall n s,
    seq_reserve_a T dflt oki ok n s = seq_reserve T dflt n s \/ seq_reserve_a T dflt oki ok n s = Trap TrapOOM.
  Proof.
    intros n s. unfold seq_reserve_a. destruct (seq_init_a_dich s) as [-> | ->]; [|auto]. cbn [rbind].
    unfold seq_reserve at 2. destruct (n + 1 <=? seq_capn T (seq_init T s)) eqn:E.
    - left. reflexivity.
    - destruct (ok (n + 1)); [|auto]. left. unfold seq_reserve. rewrite seq_init_idem, E. reflexivity.
  Qed.

  Lemma seq_atindex_a_dich : forall pos s,
    seq_atindex_a T dflt oki ok pos s = seq_atindex T dflt pos s \/ seq_atindex_a T dflt oki ok pos s = Trap TrapOOM.
  Proof.
    intros pos s. unfold seq_atindex_a, seq_atindex. destruct (seq_init_a_dich s) as [-> | ->]; [|auto]. cbn [rbind].
    destruct (ssize T (seq_init T s) <? pos).
    - destruct (negb (pos =? ssize T (seq_init T s) + 1)); [auto|].
      destruct (seq_capn T (seq_init T s) <? ssize T (seq_init T s) + 1 + 1); [|auto].
      destruct (seq_grow_a_dich (mkseq T true (sdata T (seq_init T s)) (ssize T (seq_init T s) + 1))) as [-> | ->]; auto.
    - destruct ((seq_capn T (seq_init T s) =? 0) && (pos =? 0)); [|auto]. apply seq_grow_a_dich.
  Qed.

  Theorem seq_step_a_dich : forall o s,
    seq_step_a T dflt teqb oki ok o s = seq_step T dflt teqb o s \/ seq_step_a T dflt teqb oki ok o s = Trap TrapOOM.
  Proof.
    intros o s. destruct o; cbn [seq_step_a seq_step]; auto.
    - unfold seq_push_a, seq_push. destruct (seq_init_a_dich s) as [-> | ->]; [|auto]. cbn [rbind].
      destruct (seq_capn T (seq_init T s) <=? ssize T (seq_init T s) + 1 + 1); [|auto].
      destruct (seq_grow_a_dich (mkseq T true (sdata T (seq_init T s)) (ssize T (seq_init T s) + 1))) as [-> | ->]; auto.
    - unfold seq_insert_a, seq_insert. destruct (seq_init_a_dich s) as [-> | ->]; [|auto]. cbn [rbind].
      destruct ((pos =? 0) || (ssize T (seq_init T s) + 1 <? pos)); [auto|].
      destruct (seq_capn T (seq_init T s) <=? ssize T (seq_init T s) + 2); [|auto].
      destruct (seq_grow_a_dich (seq_init T s)) as [-> | ->]; auto.
    - unfold seq_resize_a, seq_resize. destruct (seq_reserve_a_dich n s) as [-> | ->]; auto.
    - destruct (seq_reserve_a_dich n s) as [-> | ->]; auto.
    - unfold seq_copy_a, seq_copy. destruct (sinit T s); [|auto]. destruct oki; [|auto].
      destruct ((seq_capn T s =? 0) || ok (seq_capn T s)); auto.
    - unfold seq_get_a, seq_get. destruct (seq_atindex_a_dich pos s) as [-> | ->]; auto.
    - unfold seq_set_a, seq_set. destruct (seq_atindex_a_dich pos s) as [-> | ->]; auto.
    - unfold seq_convert_a, seq_convert. destruct (seq_reserve_a_dich (length xs) (seq_empty T)) as [-> | ->]; auto.
  Qed.
End SeqOOM.

Section HmOOM.
  Variables K V : Type.
  Variable kdflt : K.
  Variable vdflt : V.
  Variable keqb : K -> K -> bool.
  Variable khash : K -> Z.
  Variables okn okb : nat -> bool.

  Lemma hm_rehash_a_dich : forall n m,
    hm_rehash_a K V kdflt vdflt keqb khash okn okb n m = hm_rehash K V kdflt vdflt keqb khash n m \/
    hm_rehash_a K V kdflt vdflt keqb khash okn okb n m = Trap TrapOOM.
  Proof. intros. unfold hm_rehash_a. destruct (hm_rehash_sizes K V n m) as [[bc nc]|]; [|auto]. destruct (okn nc && okb bc); auto. Qed.

  Lemma hm_at_a_dich : forall k m,
    hm_at_a K V kdflt vdflt keqb khash okn okb k m = hm_at K V kdflt vdflt keqb khash k m \/
    hm_at_a K V kdflt vdflt keqb khash okn okb k m = Trap TrapOOM.
  Proof.
    intros k m. unfold hm_at_a, hm_at.
    assert ((if length (hbuckets K V m) =? 0 then hm_rehash_a K V kdflt vdflt keqb khash okn okb HM_INIT_n m else Ok m) =
            (if length (hbuckets K V m) =? 0 then hm_rehash K V kdflt vdflt keqb khash HM_INIT_n m else Ok m) \/
            (if length (hbuckets K V m) =? 0 then hm_rehash_a K V kdflt vdflt keqb khash okn okb HM_INIT_n m else Ok m) = Trap TrapOOM) as [-> | ->].
    { destruct (length (hbuckets K V m) =? 0); [apply hm_rehash_a_dich|auto]. }
    2:{ auto. }
    destruct (if length (hbuckets K V m) =? 0 then hm_rehash K V kdflt vdflt keqb khash HM_INIT_n m else Ok m) as [m0|t]; cbn [rbind]; [|auto].
    destruct (hm_find K V keqb khash k m0) as [[[ni prev] bi]|t]; cbn [rbind]; [|auto].
    destruct ni; [auto|]. destruct (hfree K V m0) as [fi|]; [|auto].
    destruct (length (hnodes K V m0) <=? fi); [auto|].
    destruct (sget fi (hnodes K V m0)) as [nd|t]; cbn [rbind]; [|auto].
    destruct (sset fi _ (hnodes K V m0)) as [ns|t]; cbn [rbind]; [|auto].
    match goal with |- context [rbind ?X _] => destruct X as [m1|t] end; cbn [rbind]; [|auto].
    destruct (_ <=? _); [|auto].
    match goal with |- context [hm_rehash_a K V kdflt vdflt keqb khash okn okb ?n ?mm] =>
      destruct (hm_rehash_a_dich n mm) as [-> | ->] end; auto.
  Qed.

  Theorem hm_step_a_dich : forall o m,
    hm_step_a K V kdflt vdflt keqb khash okn okb o m = hm_step K V kdflt vdflt keqb khash o m \/
    hm_step_a K V kdflt vdflt keqb khash okn okb o m = Trap TrapOOM.
  Proof.
    intros o m. destruct o; cbn [hm_step_a hm_step]; auto.
    - unfold hm_set_a, hm_set. destruct (hm_at_a_dich k m) as [-> | ->]; auto.
    - unfold hm_get_a, hm_get. destruct (hm_at_a_dich k m) as [-> | ->]; auto.
    - unfold hm_reserve_a, hm_reserve. destruct (_ <? _); [|auto].
      match goal with |- context [hm_rehash_a K V kdflt vdflt keqb khash okn okb ?n ?mm] =>
        destruct (hm_rehash_a_dich n mm) as [-> | ->] end; auto.
    - destruct (hm_rehash_a_dich n m) as [-> | ->]; auto.
  Qed.

  (* the two sizes consulted are the sizes the successful rehash allocates *)
  Theorem hm_rehash_sizes_exact : (forall a b, keqb a b = keqb b a) -> forall n m m', hm_inv K V keqb khash m ->
    hm_rehash K V kdflt vdflt keqb khash n m = Ok m' ->
    hm_rehash_sizes K V n m = Some (length (hbuckets K V m'), length (hnodes K V m')).
  Proof.
    intros Hs n m m' (ch & fl & I) E.
    destruct (hm_rehash_ok K V kdflt vdflt keqb khash Hs n m (inv_keys _ _ _ _ _ _ _ I) (inv_size _ _ _ _ _ _ _ I))
      as [(E' & _)|(m'' & E' & _ & _ & _ & _ & _ & _ & SZ & _)]; rewrite E in E'; [discriminate|].
    inversion E'; subst. exact SZ.
  Qed.
End HmOOM.

Section DlOOM.
  Variable T : Type.
  Variable teqb : T -> T -> bool.
  Theorem dl_step_a_dich : forall okn o l,
    dl_step_a T teqb okn o l = dl_step T teqb o l \/ dl_step_a T teqb okn o l = Trap TrapOOM.
  Proof. intros okn o l. destruct o; cbn [dl_step_a]; auto; destruct okn; auto. Qed.
End DlOOM.
