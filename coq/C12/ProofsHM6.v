(* C12 - hashmap.nelua: the observable behaviour does not depend on the hash function.  Two runs of the same
   history with two hash functions that both respect == return the same lookup results, lengths and values and
   hold the same bindings; what the theorem leaves free is the ORDER in which iteration results are listed
   (HList: related by Permutation) and the allocation figures capacity()/bucketcount()/loadfactor(). *)
From Coq Require Import ZArith List Bool Lia Arith Permutation.
From C12 Require Import Gen Model ProofsBase ProofsVec ProofsAL ProofsHM1 ProofsHM2 ProofsHM3 ProofsHM4 ProofsHM5.
Import ListNotations.

Section HM6.
  Variables K V : Type.
  Variable kdflt : K.
  Variable vdflt : V.
  Variable keqb : K -> K -> bool.
  Variables h1 h2 : K -> Z.
  Hypothesis keqb_sym : forall a b, keqb a b = keqb b a.
  Hypothesis keqb_trans : forall a b c, keqb a b = true -> keqb b c = true -> keqb a c = true.
  Hypothesis h1_coh : forall a b, keqb a b = true -> h1 a = h1 b.
  Hypothesis h2_coh : forall a b, keqb a b = true -> h2 a = h2 b.

  Notation ret_rel := (ret_rel K V).

  Lemma ret_rel_join : forall r1 r2 r, ret_rel r1 r -> ret_rel r2 r -> ret_rel r1 r2.
  Proof.
    intros r1 r2 r A B. destruct r1, r2, r; cbn in *; try congruence; try discriminate.
    eapply Permutation_trans; [exact A|apply Permutation_sym; exact B].
  Qed.

  Lemma rets_join : forall rs1 rs rs2, Forall2 ret_rel rs1 rs -> Forall2 ret_rel rs2 rs -> Forall2 ret_rel rs1 rs2.
  Proof.
    intros rs1 rs. revert rs1. induction rs as [|r rs IH]; intros rs1 rs2 A B; inversion A; inversion B; subst; constructor.
    - eapply ret_rel_join; eauto.
    - apply IH; assumption.
  Qed.

  Theorem hm_hash_independent : forall ops m1 m2 al,
    hm_R K V keqb h1 m1 al -> hm_R K V keqb h2 m2 al ->
    hm_run K V kdflt vdflt keqb h1 ops m1 = Trap TrapOverflow \/
    hm_run K V kdflt vdflt keqb h2 ops m2 = Trap TrapOverflow \/
    exists m1' rs1 m2' rs2,
      hm_run K V kdflt vdflt keqb h1 ops m1 = Ok (m1', rs1) /\
      hm_run K V kdflt vdflt keqb h2 ops m2 = Ok (m2', rs2) /\
      Forall2 ret_rel rs1 rs2 /\
      Permutation (hm_abs K V m1') (hm_abs K V m2') /\
      hm_len K V m1' = hm_len K V m2' /\
      (forall k, hm_peek K V keqb h1 k m1' = hm_peek K V keqb h2 k m2').
  Proof.
    intros ops m1 m2 al R1 R2.
    destruct (hm_run_refines K V kdflt vdflt keqb h1 keqb_sym keqb_trans h1_coh ops m1 al R1)
      as [(-> & _)|(m1' & rs1 & al1 & rs1' & E1 & A1 & (I1 & P1) & F1)]; [left; reflexivity|].
    destruct (hm_run_refines K V kdflt vdflt keqb h2 keqb_sym keqb_trans h2_coh ops m2 al R2)
      as [(-> & _)|(m2' & rs2 & al2 & rs2' & E2 & A2 & (I2 & P2) & F2)]; [right; left; reflexivity|].
    right; right. rewrite A1 in A2. inversion A2; subst al2 rs2'.
    exists m1', rs1, m2', rs2. split; [assumption|]. split; [assumption|]. split; [eapply rets_join; eauto|].
    assert (Permutation (hm_abs K V m1') (hm_abs K V m2')) as PP by (eapply Permutation_trans; [exact P1|apply Permutation_sym; exact P2]).
    split; [exact PP|]. split.
    - rewrite (hm_len_abs K V keqb h1 _ I1), (hm_len_abs K V keqb h2 _ I2). apply Permutation_length. assumption.
    - intros k. rewrite (hm_peek_ok K V keqb h1 keqb_sym keqb_trans h1_coh _ k I1), (hm_peek_ok K V keqb h2 keqb_sym keqb_trans h2_coh _ k I2).
      f_equal. apply (al_get_perm K V keqb keqb_sym keqb_trans); [|assumption].
      destruct I1 as (ch & fl & I1). eapply abs_nodup; eauto.
  Qed.
End HM6.
