(* C12 - hashmap.nelua: the canonical form [canon] (chains forgotten) and how the pure pieces of rehash, clear
   and the node updates commute with it.  Used by ProofsHM3..HM7 to show that the hashmap is exactly the hash-free
   flat map [fm_step] of Model.v. *)
From Coq Require Import ZArith List Bool Lia Arith Permutation.
From C12 Require Import Gen Model ProofsBase ProofsVec ProofsAL ProofsHM1 ProofsHM2.
Import ListNotations.

Lemma map_nth_error_opt : forall A B (f : A -> B) l i, nth_error (map f l) i = option_map f (nth_error l i).
Proof. induction l as [|a l IH]; intros [|i]; cbn; auto. Qed.

Lemma map_repeat : forall A B (f : A -> B) x n, map f (repeat x n) = repeat (f x) n.
Proof. induction n as [|n IH]; cbn; congruence. Qed.

Lemma srealloc_map : forall A (f : A -> A) d n l, f d = d -> srealloc d n (map f l) = map f (srealloc d n l).
Proof.
  intros A f d n l Hd. unfold srealloc. rewrite map_app, firstn_map, map_length. f_equal.
  rewrite map_repeat, Hd. reflexivity.
Qed.

Section FM.
  Variables K V : Type.
  Variable kdflt : K.
  Variable vdflt : V.
  Variable keqb : K -> K -> bool.

  Notation node := (hnode K V).
  Notation hmap := (hmap K V).
  Notation nkey := (nkey K V).
  Notation nval := (nval K V).
  Notation nfilled := (nfilled K V).
  Notation nnext := (nnext K V).
  Notation canon_node := (canon_node K V).
  Notation canon := (canon K V).
  Notation zero_node := (zero_node K V kdflt vdflt).
  Notation kvf_eq := (kvf_eq K V).
  Notation same_kvf := (same_kvf K V).

  Lemma canon_filled : forall nd, nfilled (canon_node nd) = nfilled nd.
  Proof. intros [k v [|] n]; reflexivity. Qed.
  Lemma canon_key : forall nd, nkey (canon_node nd) = nkey nd.
  Proof. intros [k v [|] n]; reflexivity. Qed.
  Lemma canon_val : forall nd, nval (canon_node nd) = nval nd.
  Proof. intros [k v [|] n]; reflexivity. Qed.
  Lemma canon_idem : forall nd, canon_node (canon_node nd) = canon_node nd.
  Proof. intros [k v [|] n]; reflexivity. Qed.
  Lemma canon_unfilled : forall nd, nfilled nd = false -> canon_node nd = nd.
  Proof. intros [k v [|] n] H; [discriminate|reflexivity]. Qed.
  Lemma canon_zero : canon_node zero_node = zero_node.
  Proof. reflexivity. Qed.
  Lemma canon_set_next : forall e nd, nfilled nd = true -> canon_node (set_next K V e nd) = canon_node nd.
  Proof. intros e [k v [|] n] H; [reflexivity|discriminate]. Qed.
  Lemma canon_set_val : forall v nd, canon_node (set_val K V v nd) = set_val K V v (canon_node nd).
  Proof. intros v [k v0 [|] n]; reflexivity. Qed.
  (* two nodes with the same key, value and flag, and (when unfilled) the same next *)
  Lemma canon_node_eq : forall a b, same_kvf a b -> (nfilled a = false -> a = b) -> canon_node a = canon_node b.
  Proof.
    intros [k v f n] [k' v' f' n'] (A & B & C) U. cbn in *. subst. destruct f'.
    - reflexivity.
    - rewrite (U eq_refl). reflexivity.
  Qed.

  Lemma filter_canon : forall l, filter nfilled (map canon_node l) = map canon_node (filter nfilled l).
  Proof.
    induction l as [|a l IH]; [reflexivity|]. cbn [map filter]. rewrite canon_filled.
    destruct (nfilled a); cbn [map]; congruence.
  Qed.
  Lemma compact_canon : forall l,
    hm_compact K V kdflt vdflt (map canon_node l) = map canon_node (hm_compact K V kdflt vdflt l).
  Proof.
    intros l. unfold hm_compact. rewrite filter_canon, !map_length, map_app, map_repeat, canon_zero. reflexivity.
  Qed.
  (* relink_free overwrites every next field: what it was before is irrelevant, and its result is canonical *)
  Lemma relink_canon_in : forall l b, relink_free K V (map canon_node l) b = relink_free K V l b.
  Proof.
    induction l as [|a l IH]; intros b; [reflexivity|]. cbn [map relink_free]. rewrite IH, canon_filled.
    destruct (relink_free K V l (S b)) as [r fr]. destruct a as [k v [|] n]; reflexivity.
  Qed.
  Lemma relink_canon_out : forall l b, map canon_node (fst (relink_free K V l b)) = fst (relink_free K V l b).
  Proof.
    induction l as [|a l IH]; intros b; [reflexivity|]. cbn [relink_free]. specialize (IH (S b)).
    destruct (relink_free K V l (S b)) as [r fr]. cbn [fst] in IH.
    destruct a as [k v [|] n]; cbn [Model.nfilled fst map]; rewrite IH; reflexivity.
  Qed.

  (* the canonical form of a node array is determined by keys, values, flags and the unfilled nodes *)
  Lemma canon_nodes_eq : forall A B, kvf_eq A B ->
    (forall j nd, nth_error A j = Some nd -> nfilled nd = false -> nth_error B j = Some nd) ->
    map canon_node A = map canon_node B.
  Proof.
    intros A B (L & P) U. apply nth_error_ext; intro i. rewrite !map_nth_error_opt.
    destruct (nth_error A i) as [a|] eqn:Ea.
    - destruct (P i a Ea) as (b & Eb & S). rewrite Eb. cbn [option_map]. f_equal. apply canon_node_eq; [assumption|].
      intros F. specialize (U i a Ea F). congruence.
    - apply nth_error_None in Ea. assert (nth_error B i = None) as -> by (apply nth_error_None; lia). reflexivity.
  Qed.

  Lemma canon_upd : forall i x ns, map canon_node (overwrite i [x] ns) = overwrite i [canon_node x] (map canon_node ns).
  Proof.
    intros. unfold overwrite. rewrite !map_app, firstn_map, skipn_map. reflexivity.
  Qed.

  Lemma fm_find_from_canon : forall k l b, fm_find_from K V keqb k (map canon_node l) b = fm_find_from K V keqb k l b.
  Proof.
    induction l as [|a l IH]; intros b; [reflexivity|]. cbn [map fm_find_from]. rewrite canon_filled, canon_key, IH. reflexivity.
  Qed.

  Lemma canon_idem_m : forall m, canon (canon m) = canon m.
  Proof.
    intros [bs ns sz fr]. unfold Model.canon. cbn [Model.hbuckets Model.hnodes Model.hsize Model.hfree].
    rewrite repeat_length, map_map. f_equal. apply map_ext. apply canon_idem.
  Qed.
End FM.
