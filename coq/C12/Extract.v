From C12 Require Import Model.
Require Extraction.
Require Import ExtrOcamlBasic.
Extraction "model.ml"
  vec_step lst_step vec_empty vec_contents vec_cap vec_len
  seq_step sq_step seq_empty seq_contents seq_len seq_capacity seq_slot0
  hm_step al_step hm_next hm_empty hm_pairs hm_len hm_capacity hm_bucketcount
  dl_step ll_step dl_empty dl_contents
  sb_step by_step sb_empty sb_view sb_len sb_nul_slot sb_prepare sb_step_a sb_prepare_a vec_step_a seq_step_a hm_step_a dl_step_a
  span_at span_sub spw_at spw_sub sp_view
  vec_ipairs seq_pairs dl_pairs hm_for_pairs vec_mipairs_map dl_mpairs_map span_ipairs select_from select_count hash_float32 g_eqb hash_string str_eqb
  hash_int hash_bool hash_float hash_long hash_short hash_rec hash_combine hash_array hash_ptr hash_span_int hash_union8 f_eqb rec_eqb roundpow2
  tok_eqb tok_hash tok_hash_weak tok_pred tok_canon NZ_OFF.
