(* C12 - vector.nelua refines the mathematical list (0-based), across every growth. *)
From Coq Require Import ZArith List Bool Lia Arith.
From C12 Require Import Gen Model ProofsBase.
Import ListNotations.

(* facts about the scraped growth policy: all the proofs need *)
Lemma vec_init_cap_pos : 1 <= VEC_INIT_CAP_n.
Proof. vm_compute. lia. Qed.
Lemma vec_grow_mul_ge2 : 2 <= VEC_GROW_MUL_n.
Proof. vm_compute. lia. Qed.

Lemma srealloc_grow : forall A (j : A) n l, length l <= n -> srealloc j n l = l ++ repeat j (n - length l).
Proof. intros. unfold srealloc. rewrite firstn_all2 by assumption. reflexivity. Qed.

Lemma filter_len_le : forall A (f : A -> bool) l, length (filter f l) <= length l.
Proof. induction l; cbn; [lia|]. destruct (f a); cbn; lia. Qed.

Ltac list_eq :=
  apply nth_error_ext; intro;
  repeat (autorewrite with nthe || rewrite nthe_overwrite_in by (autorewrite with nthe; cbn [length]; lia));
  cbn [length]; ltb_cases; nth_close.

Section VecProofs.
  Variable T : Type.
  Variable dflt : T.
  Variable teqb : T -> T -> bool.

  Notation vec_wf := (vec_wf T).

  Lemma contents_mk : forall d s, vec_contents T (mkvec T d s) = firstn s d.
  Proof. reflexivity. Qed.

  Lemma contents_length : forall v, vec_wf v -> length (vec_contents T v) = vsize T v.
  Proof. intros v H. unfold vec_contents. rewrite firstn_length. unfold Model.vec_wf in H. lia. Qed.

  Lemma vec_grow_ok : forall v,
    exists k, 0 < k /\ vec_grow T dflt v = Ok (mkvec T (vdata T v ++ repeat dflt k) (vsize T v)).
  Proof.
    intros v. unfold vec_grow, vec_cap.
    pose proof vec_init_cap_pos. pose proof vec_grow_mul_ge2.
    destruct (Nat.eqb_spec (length (vdata T v)) 0) as [E|E]; cbn [negb andb].
    - exists VEC_INIT_CAP_n. split; [lia|].
      rewrite srealloc_grow by lia. rewrite E, Nat.sub_0_r. reflexivity.
    - destruct (Nat.leb_spec (length (vdata T v) * VEC_GROW_MUL_n) (length (vdata T v))); [nia|].
      exists (length (vdata T v) * VEC_GROW_MUL_n - length (vdata T v)). split; [lia|].
      rewrite srealloc_grow by lia. reflexivity.
  Qed.

  (* ---------------- push *)
  Lemma vec_push_ok : forall x v, vec_wf v ->
    exists v', vec_push T dflt x v = Ok v' /\ vec_wf v' /\ vec_contents T v' = vec_contents T v ++ [x].
  Proof.
    intros x [d s] W. unfold Model.vec_wf in W; cbn in W. unfold vec_push, vec_cap; cbn [vdata vsize].
    destruct (Nat.ltb_spec (length d) (S s)).
    - destruct (vec_grow_ok (mkvec T d s)) as (k & Hk & ->). cbn [rbind vdata vsize].
      rewrite sset_ok by (rewrite app_length, repeat_length; lia). cbn [rbind].
      eexists; split; [reflexivity|]. split.
      + unfold Model.vec_wf; cbn. rewrite length_overwrite; rewrite app_length, repeat_length; cbn; lia.
      + rewrite !contents_mk. list_eq.
    - cbn [rbind vdata vsize]. rewrite sset_ok by lia. cbn [rbind].
      eexists; split; [reflexivity|]. split.
      + unfold Model.vec_wf; cbn. rewrite length_overwrite; cbn; lia.
      + rewrite !contents_mk. list_eq.
  Qed.

  (* ---------------- pop *)
  Lemma vec_pop_ok : forall v, vec_wf v ->
    match nth_error (vec_contents T v) (vsize T v - 1) with
    | Some x => exists v', vec_pop T v = Ok (v', x) /\ vec_wf v' /\
                           vec_contents T v' = firstn (vsize T v - 1) (vec_contents T v)
    | None => vec_pop T v = Trap TrapPopEmpty
    end.
  Proof.
    intros [d s] W. unfold Model.vec_wf in W; cbn in W. unfold vec_pop; cbn [vdata vsize].
    rewrite contents_mk, nthe_firstn.
    destruct (Nat.eqb_spec s 0) as [->|E].
    - cbn. reflexivity.
    - destruct (Nat.ltb_spec (s - 1) s); [|lia].
      destruct (sget_ok T (s - 1) d ltac:(lia)) as (x & Hg & Hn). rewrite Hn, Hg. cbn [rbind].
      eexists; split; [reflexivity|]. split.
      + unfold Model.vec_wf; cbn; lia.
      + rewrite contents_mk. list_eq.
  Qed.

  (* ---------------- insert *)
  Lemma vec_insert_ok : forall pos x v, vec_wf v ->
    if vsize T v <? pos then vec_insert T dflt pos x v = Trap TrapPos
    else exists v', vec_insert T dflt pos x v = Ok v' /\ vec_wf v' /\
                    vec_contents T v' = l_insert T pos x (vec_contents T v).
  Proof.
    intros pos x [d s] W. unfold Model.vec_wf in W; cbn in W. unfold vec_insert, vec_cap; cbn [vdata vsize].
    destruct (Nat.ltb_spec s pos); [reflexivity|].
    assert (exists d1, (if length d <=? s + 1 then vec_grow T dflt (mkvec T d s) else Ok (mkvec T d s)) = Ok (mkvec T d1 s)
                       /\ s + 1 < length d1 + 0 + (if length d <=? s + 1 then 1 else 0) /\ s + 1 <= length d1
                       /\ firstn s d1 = firstn s d) as (d1 & -> & _ & Hl & Hf).
    { destruct (Nat.leb_spec (length d) (s + 1)).
      - destruct (vec_grow_ok (mkvec T d s)) as (k & Hk & ->). cbn [vdata vsize].
        eexists; split; [reflexivity|]. rewrite app_length, repeat_length. repeat split; try lia.
        rewrite firstn_app. replace (s - length d) with 0 by lia. cbn. rewrite app_nil_r. reflexivity.
      - eexists; split; [reflexivity|]. repeat split; lia. }
    cbn [rbind vdata vsize].
    assert (forall i, i < s -> nth_error d1 i = nth_error d i) as Hp.
    { intros i Hi. assert (nth_error (firstn s d1) i = nth_error (firstn s d) i) by (rewrite Hf; reflexivity).
      rewrite !nthe_firstn in H0. destruct (Nat.ltb_spec i s); [assumption|lia]. }
    destruct (Nat.ltb_spec pos s).
    - rewrite smove_ok by lia. cbn [rbind].
      rewrite sset_ok by (rewrite length_overwrite; rewrite ?length_move_block; lia). cbn [rbind].
      eexists; split; [reflexivity|]. split.
      + unfold Model.vec_wf; cbn. rewrite !length_overwrite; rewrite ?length_move_block; cbn; try lia.
        rewrite length_overwrite; rewrite ?length_move_block; lia.
      + rewrite !contents_mk. unfold l_insert.
        apply nth_error_ext; intro i.
        rewrite nthe_firstn, nthe_overwrite_in by (rewrite length_overwrite; rewrite ?length_move_block; cbn; lia).
        rewrite nthe_overwrite_in by (rewrite ?length_move_block; lia).
        rewrite length_move_block by lia.
        autorewrite with nthe. cbn [length].
        ltb_cases; nth_close; try (rewrite Hp by lia; nth_close).
    - assert (pos = s) by lia. subst pos. cbn [rbind].
      rewrite sset_ok by lia. cbn [rbind].
      eexists; split; [reflexivity|]. split.
      + unfold Model.vec_wf; cbn. rewrite length_overwrite; cbn; lia.
      + rewrite !contents_mk. unfold l_insert.
        apply nth_error_ext; intro i.
        rewrite nthe_firstn, nthe_overwrite_in by (cbn; lia).
        autorewrite with nthe. cbn [length].
        ltb_cases; nth_close; try (rewrite Hp by lia; nth_close).
  Qed.

  (* ---------------- remove *)
  Lemma vec_remove_ok : forall pos v, vec_wf v ->
    match nth_error (vec_contents T v) pos with
    | Some x => exists v', vec_remove T pos v = Ok (v', x) /\ vec_wf v' /\
                           vec_contents T v' = l_remove T pos (vec_contents T v)
    | None => vec_remove T pos v = Trap TrapPos
    end.
  Proof.
    intros pos [d s] W. unfold Model.vec_wf in W; cbn in W. unfold vec_remove; cbn [vdata vsize].
    rewrite contents_mk, nthe_firstn.
    destruct (Nat.ltb_spec pos s); destruct (Nat.leb_spec s pos); try lia.
    - destruct (sget_ok T pos d ltac:(lia)) as (x & Hg & Hn). rewrite Hn, Hg. cbn [rbind].
      destruct (Nat.ltb_spec pos (s - 1)).
      + rewrite smove_ok by lia. cbn [rbind].
        eexists; split; [reflexivity|]. split.
        * unfold Model.vec_wf; cbn. rewrite length_overwrite; rewrite ?length_move_block; lia.
        * rewrite !contents_mk. unfold l_remove.
          apply nth_error_ext; intro i.
          rewrite nthe_firstn, nthe_overwrite_in by (rewrite ?length_move_block; lia).
          rewrite length_move_block by lia.
          autorewrite with nthe. ltb_cases; nth_close.
      + cbn [rbind]. eexists; split; [reflexivity|]. split.
        * unfold Model.vec_wf; cbn; lia.
        * rewrite !contents_mk. unfold l_remove.
          apply nth_error_ext; intro i. autorewrite with nthe. ltb_cases; nth_close.
    - reflexivity.
  Qed.

  (* ---------------- removevalue *)
  Lemma vec_scan_ok : forall x d n i, i + n <= length d ->
    vec_scan T teqb n i x d = Ok (option_map (fun k => i + k) (l_index T teqb x (firstn n (skipn i d)))).
  Proof.
    induction n; intros i H; cbn [vec_scan firstn].
    - reflexivity.
    - destruct (sget_ok T i d ltac:(lia)) as (e & Hg & Hn). rewrite Hg. cbn [rbind].
      assert (skipn i d = e :: skipn (S i) d) as ->.
      { apply nth_error_ext; intro j. rewrite nthe_cons, !nthe_skipn.
        destruct (Nat.eqb_spec j 0); [subst; rewrite Nat.add_0_r; assumption|f_equal; lia]. }
      cbn [l_index]. destruct (teqb e x).
      + cbn. f_equal. f_equal. lia.
      + rewrite IHn by lia. destruct (l_index T teqb x (firstn n (skipn (S i) d))); cbn; [f_equal; f_equal; lia|reflexivity].
  Qed.

  Lemma l_index_lt : forall x l i, l_index T teqb x l = Some i -> i < length l.
  Proof.
    induction l; cbn; intros i H; [discriminate|].
    destruct (teqb a x); [inversion H; lia|].
    destruct (l_index T teqb x l); [|discriminate]. inversion H. specialize (IHl n eq_refl). lia.
  Qed.

  Lemma vec_removevalue_ok : forall x v, vec_wf v ->
    match l_index T teqb x (vec_contents T v) with
    | Some i => exists v', vec_removevalue T teqb x v = Ok (v', true) /\ vec_wf v' /\
                           vec_contents T v' = l_remove T i (vec_contents T v)
    | None => vec_removevalue T teqb x v = Ok (v, false)
    end.
  Proof.
    intros x v W. unfold vec_removevalue. rewrite vec_scan_ok by (unfold Model.vec_wf in W; lia).
    cbn [skipn]. change (firstn (vsize T v) (vdata T v)) with (vec_contents T v).
    destruct (l_index T teqb x (vec_contents T v)) as [i|] eqn:E; cbn [option_map rbind Nat.add]; [|reflexivity].
    pose proof (l_index_lt _ _ _ E) as Hi.
    pose proof (vec_remove_ok i v W) as R.
    destruct (nth_error (vec_contents T v) i) eqn:En.
    - destruct R as (v' & -> & W' & C'). cbn [rbind fst]. eauto.
    - apply nth_error_None in En. lia.
  Qed.

  (* ---------------- removeif *)
  Lemma vec_rif_ok : forall pred n i j d, j <= i -> i + n <= length d ->
    exists d', vec_rif_loop T pred n i j d = Ok (d', j + length (filter (fun e => negb (pred e)) (firstn n (skipn i d)))) /\
      length d' = length d /\
      firstn (j + length (filter (fun e => negb (pred e)) (firstn n (skipn i d)))) d' =
        firstn j d ++ filter (fun e => negb (pred e)) (firstn n (skipn i d)).
  Proof.
    induction n; intros i j d Hj Hi; cbn [vec_rif_loop firstn].
    - exists d. cbn [filter length]. rewrite Nat.add_0_r, app_nil_r. auto.
    - destruct (sget_ok T i d ltac:(lia)) as (e & Hg & Hn). rewrite Hg. cbn [rbind].
      assert (skipn i d = e :: skipn (S i) d) as ->.
      { apply nth_error_ext; intro k. rewrite nthe_cons, !nthe_skipn.
        destruct (Nat.eqb_spec k 0); [subst; rewrite Nat.add_0_r; assumption|f_equal; lia]. }
      cbn [filter]. destruct (pred e); cbn [negb].
      + destruct (IHn (S i) j d ltac:(lia) ltac:(lia)) as (d' & -> & L & F). eauto.
      + rewrite sset_ok by lia. cbn [rbind].
        destruct (IHn (S i) (S j) (overwrite j [e] d) ltac:(lia) ltac:(rewrite length_overwrite; cbn; lia)) as (d' & Hr & L & F).
        assert (skipn (S i) (overwrite j [e] d) = skipn (S i) d) as Hs.
        { apply nth_error_ext; intro k. rewrite !nthe_skipn, nthe_overwrite_in by (cbn; lia). cbn [length].
          ltb_cases; nth_close. }
        rewrite Hs in *. exists d'. cbn [length]. rewrite <- plus_n_Sm. split; [exact Hr|]. split.
        * rewrite L. apply length_overwrite. cbn; lia.
        * cbn [plus] in F. rewrite F.
          replace (firstn (S j) (overwrite j [e] d)) with (firstn j d ++ [e]).
          { rewrite <- app_assoc. reflexivity. }
          apply nth_error_ext; intro k. rewrite nthe_firstn, nthe_overwrite_in by (cbn; lia).
          autorewrite with nthe. cbn [length]. ltb_cases; nth_close.
  Qed.

  Lemma vec_removeif_ok : forall pred v, vec_wf v ->
    exists v', vec_removeif T pred v = Ok v' /\ vec_wf v' /\
               vec_contents T v' = filter (fun e => negb (pred e)) (vec_contents T v).
  Proof.
    intros pred [d s] W. unfold Model.vec_wf in W; cbn in W. unfold vec_removeif; cbn [vdata vsize].
    destruct (vec_rif_ok pred s 0 0 d ltac:(lia) ltac:(lia)) as (d' & -> & L & F). cbn [rbind fst snd skipn plus] in *.
    eexists; split; [reflexivity|]. split.
    - unfold Model.vec_wf; cbn. rewrite L.
      pose proof (filter_len_le T (fun e => negb (pred e)) (firstn s d)). rewrite firstn_length in H. lia.
    - rewrite !contents_mk. exact F.
  Qed.

  (* ---------------- reserve / resize / clear / copy / at / assign *)
  Lemma vec_reserve_ok : forall n v, vec_wf v ->
    vec_wf (vec_reserve T dflt n v) /\ vec_contents T (vec_reserve T dflt n v) = vec_contents T v /\
    n <= length (vdata T (vec_reserve T dflt n v)) /\ vsize T (vec_reserve T dflt n v) = vsize T v.
  Proof.
    intros n [d s] W. unfold Model.vec_wf in *; cbn in W. unfold vec_reserve, vec_cap; cbn [vdata vsize].
    destruct (Nat.leb_spec n (length d)); cbn [vdata vsize].
    - auto.
    - rewrite length_srealloc. repeat split; try lia.
      rewrite !contents_mk. apply nth_error_ext; intro i. autorewrite with nthe. ltb_cases; nth_close.
  Qed.

  Lemma vec_resize_ok : forall n v, vec_wf v ->
    exists v', vec_resize T dflt n v = Ok v' /\ vec_wf v' /\ vec_contents T v' = l_resize T dflt n (vec_contents T v).
  Proof.
    intros n v W. unfold vec_resize.
    destruct (vec_reserve_ok n v W) as (W1 & C1 & L1 & S1).
    destruct (vec_reserve T dflt n v) as [d1 s1]; cbn [vdata vsize] in *. unfold Model.vec_wf in W1; cbn in W1.
    rewrite contents_mk in C1. unfold l_resize. rewrite <- C1, firstn_length.
    destruct (Nat.ltb_spec s1 n).
    - rewrite sfill_ok by lia. cbn [rbind]. eexists; split; [reflexivity|]. split.
      + unfold Model.vec_wf; cbn. rewrite length_overwrite; rewrite ?repeat_length; lia.
      + rewrite contents_mk. apply nth_error_ext; intro i.
        rewrite nthe_firstn, nthe_overwrite_in by (rewrite repeat_length; lia).
        autorewrite with nthe. ltb_cases; nth_close.
    - cbn [rbind]. eexists; split; [reflexivity|]. split.
      + unfold Model.vec_wf; cbn; lia.
      + rewrite contents_mk. apply nth_error_ext; intro i. autorewrite with nthe. ltb_cases; nth_close.
  Qed.

  Lemma vec_clear_ok : forall v, vec_wf (vec_clear T v) /\ vec_contents T (vec_clear T v) = [].
  Proof. intros [d s]. unfold Model.vec_wf, vec_clear; cbn. split; [lia|reflexivity]. Qed.

  Lemma vec_copy_ok : forall v, vec_wf v ->
    vec_wf (vec_copy T v) /\ vec_contents T (vec_copy T v) = vec_contents T v.
  Proof.
    intros [d s] W. unfold vec_copy; cbn [vsize vdata]. destruct (Nat.ltb_spec 0 s).
    - auto.
    - assert (s = 0) by lia; subst. unfold Model.vec_wf, vec_empty; cbn. split; [lia|reflexivity].
  Qed.

  Lemma vec_at_ok : forall pos v, vec_wf v ->
    match nth_error (vec_contents T v) pos with
    | Some x => vec_at T pos v = Ok x
    | None => vec_at T pos v = Trap TrapPos
    end.
  Proof.
    intros pos [d s] W. unfold Model.vec_wf in W; cbn in W. unfold vec_at; cbn [vdata vsize].
    rewrite contents_mk, nthe_firstn.
    destruct (Nat.ltb_spec pos s); destruct (Nat.leb_spec s pos); try lia; [|reflexivity].
    destruct (sget_ok T pos d ltac:(lia)) as (x & Hg & Hn). rewrite Hn, Hg. reflexivity.
  Qed.

  Lemma vec_assign_ok : forall pos x v, vec_wf v ->
    if pos <? length (vec_contents T v)
    then exists v', vec_assign T pos x v = Ok v' /\ vec_wf v' /\ vec_contents T v' = l_assign T pos x (vec_contents T v)
    else vec_assign T pos x v = Trap TrapPos.
  Proof.
    intros pos x v W. rewrite contents_length by assumption.
    destruct v as [d s]. unfold Model.vec_wf in W; cbn in W. unfold vec_assign; cbn [vdata vsize].
    destruct (Nat.ltb_spec pos s); destruct (Nat.leb_spec s pos); try lia; [|reflexivity].
    rewrite sset_ok by lia. cbn [rbind]. eexists; split; [reflexivity|]. split.
    - unfold Model.vec_wf; cbn. rewrite length_overwrite; cbn; lia.
    - rewrite !contents_mk. unfold l_assign. apply nth_error_ext; intro i.
      rewrite nthe_firstn, nthe_overwrite_in by (cbn; lia).
      autorewrite with nthe. cbn [length]. ltb_cases; nth_close.
  Qed.

  Lemma vec_empty_wf' : vec_wf (vec_empty T) /\ vec_contents T (vec_empty T) = [].
  Proof. unfold Model.vec_wf, vec_empty; cbn. split; [lia|reflexivity]. Qed.

  (* ---------------- __convert / destroy *)
  Lemma fill_from_ok : forall xs i d, i + length xs <= length d ->
    fill_from T i xs d = Ok (overwrite i xs d).
  Proof.
    induction xs as [|x tl IH]; intros i d H; cbn [fill_from].
    - f_equal. unfold overwrite. cbn [app length]. rewrite Nat.add_0_r, firstn_skipn. reflexivity.
    - cbn [length] in H. rewrite sset_ok by lia. cbn [rbind].
      rewrite IH by (rewrite length_overwrite; cbn [length]; lia). f_equal.
      apply nth_error_ext; intro j.
      rewrite nthe_overwrite_in by (rewrite length_overwrite; cbn [length]; lia).
      rewrite nthe_overwrite_in by (cbn [length]; lia).
      rewrite nthe_overwrite_in by (cbn [length]; lia). cbn [length]. rewrite !nthe_cons, nthe_nil.
      ltb_cases; nth_close.
  Qed.

  Lemma vec_convert_ok : forall xs,
    exists v', vec_convert T dflt xs = Ok v' /\ vec_wf v' /\ vec_contents T v' = xs.
  Proof.
    intros xs. unfold vec_convert, vec_reserve, vec_cap, vec_empty; cbn [vdata vsize length].
    destruct (Nat.leb_spec (length xs) 0).
    - assert (xs = []) as -> by (apply length_zero_iff_nil; lia). cbn. eexists; split; [reflexivity|].
      split; [unfold Model.vec_wf; cbn; lia|reflexivity].
    - cbn [vdata]. rewrite fill_from_ok by (rewrite length_srealloc; lia). cbn [rbind].
      eexists; split; [reflexivity|]. split.
      + unfold Model.vec_wf; cbn [vdata vsize]. rewrite length_overwrite by (rewrite length_srealloc; lia). rewrite length_srealloc. lia.
      + rewrite contents_mk. apply nth_error_ext; intro j.
        rewrite nthe_firstn, nthe_overwrite_in by (rewrite length_srealloc; lia).
        ltb_cases; nth_close; try (symmetry; apply nthe_beyond; lia).
  Qed.

  (* ---------------- one step, and whole histories *)
  Definition vec_refines (o : cop T) (v : vec T) : Prop :=
    match lst_step T dflt teqb o (vec_contents T v) with
    | Ok (l', r) => exists v', vec_step T dflt teqb o v = Ok (v', r) /\ vec_wf v' /\ vec_contents T v' = l'
    | Trap t => vec_step T dflt teqb o v = Trap t
    end.

  Theorem vec_step_refines : forall o v, vec_wf v -> vec_refines o v.
  Proof.
    intros o v W. unfold vec_refines. destruct o; cbn [lst_step vec_step].
    - destruct (vec_push_ok x v W) as (v' & -> & W' & C). cbn [rbind]. eauto.
    - pose proof (vec_pop_ok v W) as P. rewrite contents_length by assumption.
      destruct (nth_error (vec_contents T v) (vsize T v - 1)).
      + destruct P as (v' & -> & W' & C). cbn [rbind fst snd]. eauto.
      + rewrite P. reflexivity.
    - pose proof (vec_insert_ok pos x v W) as P. rewrite contents_length by assumption.
      destruct (vsize T v <? pos).
      + rewrite P. reflexivity.
      + destruct P as (v' & -> & W' & C). cbn [rbind]. eauto.
    - pose proof (vec_remove_ok pos v W) as P. destruct (nth_error (vec_contents T v) pos).
      + destruct P as (v' & -> & W' & C). cbn [rbind fst snd]. eauto.
      + rewrite P. reflexivity.
    - pose proof (vec_removevalue_ok x v W) as P. destruct (l_index T teqb x (vec_contents T v)).
      + destruct P as (v' & -> & W' & C). cbn [rbind fst snd]. eauto.
      + rewrite P. cbn [rbind fst snd]. eauto.
    - destruct (vec_removeif_ok p v W) as (v' & -> & W' & C). cbn [rbind]. eauto.
    - destruct (vec_resize_ok n v W) as (v' & -> & W' & C). cbn [rbind]. eauto.
    - destruct (vec_reserve_ok n v W) as (W' & C & _). eauto.
    - destruct (vec_clear_ok v) as (W' & C). eauto.
    - destruct (vec_copy_ok v W) as (W' & C). eauto.
    - pose proof (vec_at_ok pos v W) as P. destruct (nth_error (vec_contents T v) pos).
      + rewrite P. cbn [rbind]. eauto.
      + rewrite P. reflexivity.
    - pose proof (vec_assign_ok pos x v W) as P. destruct (pos <? length (vec_contents T v)).
      + destruct P as (v' & -> & W' & C). cbn [rbind]. eauto.
      + rewrite P. reflexivity.
    - exists (vec_empty T). split; [reflexivity|]. apply vec_empty_wf'.
    - destruct (vec_convert_ok xs) as (v' & -> & W' & C). cbn [rbind]. eauto.
    - eauto.
  Qed.

  (* a history: run until the first trap; collects the return values *)
  Notation vec_run := (vec_run T dflt teqb).
  Notation lst_run := (lst_run T dflt teqb).

  Theorem vec_run_refines : forall ops v, vec_wf v ->
    match lst_run ops (vec_contents T v) with
    | Ok (l', rs) => exists v', vec_run ops v = Ok (v', rs) /\ vec_wf v' /\ vec_contents T v' = l'
    | Trap t => vec_run ops v = Trap t
    end.
  Proof.
    induction ops as [|o tl IH]; intros v W; cbn [Model.lst_run Model.vec_run].
    - eauto.
    - pose proof (vec_step_refines o v W) as S. unfold vec_refines in S.
      destruct (lst_step T dflt teqb o (vec_contents T v)) as [[l1 r1]|t]; cbn [rbind fst snd].
      + destruct S as (v1 & -> & W1 & C1). cbn [rbind fst snd]. subst l1.
        specialize (IH v1 W1). destruct (lst_run tl (vec_contents T v1)) as [[l2 rs]|t]; cbn [rbind fst snd].
        * destruct IH as (v2 & -> & W2 & C2). cbn [rbind fst snd]. eauto.
        * rewrite IH. reflexivity.
      + rewrite S. reflexivity.
  Qed.

  Lemma vec_empty_wf : vec_wf (vec_empty T) /\ vec_contents T (vec_empty T) = [].
  Proof. unfold Model.vec_wf, vec_empty; cbn. split; [lia|reflexivity]. Qed.
End VecProofs.
