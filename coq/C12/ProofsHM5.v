(* C12 - hashmap.nelua, part 5: clear, value update, iteration (pairs), removal while iterating,
   one step of the driver against the association-list specification, whole histories. *)
From Coq Require Import ZArith List Bool Lia Arith Permutation.
From C12 Require Import Gen Model ProofsBase ProofsVec ProofsAL ProofsHM1 ProofsHM2 ProofsFM ProofsHM3 ProofsHM4.
Import ListNotations.

Lemma skipn_skipn : forall A x y (l : list A), skipn x (skipn y l) = skipn (x + y) l.
Proof. intros. apply nth_error_ext; intro i. rewrite !nthe_skipn. f_equal. lia. Qed.

(* ---- how large a request must be before the bucket-count rounding can wrap (the only source of TrapOverflow) *)
Lemma ceilidiv_le : forall x y c, 0 < y -> x <= c * y -> ceilidiv x y <= c.
Proof.
  intros x y c Hy H. unfold ceilidiv. apply Nat.lt_succ_r. apply Nat.div_lt_upper_bound; [lia|]. nia.
Qed.

(* the only facts about the scraped tuning constants the bound below needs (generous: any growth rate up to 4096 times
   the load factor); a retune beyond them stops this proof *)
Lemma hm_rate_facts : HM_GROW_n <= 4096 * HM_MAXLF_n /\ 100 <= 4096 * HM_MAXLF_n /\ HM_INIT_n <= 1024.
Proof.
  assert (forall a b : Z, (0 <= a)%Z -> (0 <= b)%Z -> (a <= 4096 * b)%Z -> Z.to_nat a <= 4096 * Z.to_nat b) as H by (intros; lia).
  split; [|split].
  - apply H; vm_compute; discriminate.
  - change 100 with (Z.to_nat 100). apply H; vm_compute; discriminate.
  - change 1024 with (Z.to_nat 1024). apply Z2Nat.inj_le; vm_compute; discriminate.
Qed.

Lemma at_request_small : forall s, (Z.of_nat s < 2 ^ 50)%Z -> (Z.of_nat (at_request s) <= 2 ^ 62)%Z.
Proof.
  intros s H. destruct hm_rate_facts as (G & L & I). pose proof hm_maxlf_pos as P.
  assert (ceilidiv (s * 100) HM_MAXLF_n <= 4096 * s) by (apply ceilidiv_le; [assumption|nia]).
  assert (ceilidiv ((s + 1) * 100) HM_MAXLF_n <= 4096 * (s + 1)) by (apply ceilidiv_le; [assumption|nia]).
  assert (ceilidiv ((s + 1) * HM_GROW_n) HM_MAXLF_n <= 4096 * (s + 1)) by (apply ceilidiv_le; [assumption|nia]).
  unfold at_request. lia.
Qed.

Section HM5.
  Variables K V : Type.
  Variable kdflt : K.
  Variable vdflt : V.
  Variable keqb : K -> K -> bool.
  Variable khash : K -> Z.
  Hypothesis keqb_sym : forall a b, keqb a b = keqb b a.
  Hypothesis keqb_trans : forall a b c, keqb a b = true -> keqb b c = true -> keqb a c = true.
  Hypothesis hash_coh : forall a b, keqb a b = true -> khash a = khash b.

  Notation node := (hnode K V).
  Notation hmap := (hmap K V).
  Notation nkey := (nkey K V).
  Notation nval := (nval K V).
  Notation nfilled := (nfilled K V).
  Notation nnext := (nnext K V).
  Notation hbuckets := (hbuckets K V).
  Notation hnodes := (hnodes K V).
  Notation hsize := (hsize K V).
  Notation hfree := (hfree K V).
  Notation Seg := (Seg K V).
  Notation abs_of := (abs_of K V).
  Notation hm_abs := (hm_abs K V).
  Notation kvf_eq := (kvf_eq K V).
  Notation same_kvf := (same_kvf K V).
  Notation keys_nodup := (keys_nodup K V keqb).
  Notation al_find := (al_find K V keqb).
  Notation al_same := (al_same K V keqb).
  Notation KU := (KU K V keqb).
  Notation hm_inv_w := (hm_inv_w K V keqb khash).
  Notation hm_inv := (hm_inv K V keqb khash).
  Notation zero_node := (zero_node K V kdflt vdflt).
  Notation mapvals := (mapvals K V).

  Lemma hm_len_abs : forall m, hm_inv m -> hm_len K V m = length (hm_abs m).
  Proof. intros m (ch & fl & I). unfold hm_len. rewrite (inv_size _ _ _ _ _ _ _ I). apply filled_len_abs. Qed.

  Lemma hm_empty_inv : hm_inv (hm_empty K V) /\ hm_abs (hm_empty K V) = [].
  Proof.
    split; [|reflexivity]. exists (fun _ => []), [].
    constructor; unfold hm_empty; cbn [Model.hbuckets Model.hnodes Model.hsize Model.hfree length].
    - intros b Hb. lia.
    - constructor.
    - intros b Hb. lia.
    - constructor.
    - intros i nd H. rewrite nthe_nil in H. discriminate.
    - intros b i nd Hb. lia.
    - intros i nd [].
    - intros i j ni nj H. rewrite nthe_nil in H. discriminate.
    - reflexivity.
    - reflexivity.
    - lia.
    - lia.
    - intros; lia.
  Qed.

  (* ---- clear *)
  Lemma hm_clear_ok : forall m, hm_inv m -> hm_inv (hm_clear K V kdflt vdflt m) /\ hm_abs (hm_clear K V kdflt vdflt m) = [].
  Proof.
    intros m (ch & fl & I). unfold hm_clear.
    pose proof (relink_free_spec K V (repeat zero_node (length (hnodes m))) 0) as RL. cbn zeta in RL.
    destruct (relink_free K V (repeat zero_node (length (hnodes m))) 0) as [ns' fr]. cbn [fst snd] in RL.
    destruct RL as (L & P & S). specialize (S [] eq_refl). cbn [app] in S. rewrite repeat_length in L.
    assert (forall i x, nth_error ns' i = Some x -> nfilled x = false /\ i < length (hnodes m)) as Z.
    { intros i x Hx. pose proof (nth_error_Some_lt _ _ _ _ Hx) as Li. rewrite L in Li. split; [|assumption].
      destruct (P i zero_node) as (x' & A & (_ & _ & F) & _).
      { rewrite nthe_repeat. destruct (Nat.ltb_spec i (length (hnodes m))); [reflexivity|lia]. }
      rewrite Hx in A. inversion A; subst. rewrite <- F. reflexivity. }
    assert (abs_of ns' = []) as HA.
    { apply abs_of_unfilled. intros nd Hin. apply In_nth_error in Hin. destruct Hin as (i & Hi). apply (Z i nd Hi). }
    split; [|exact HA].
    exists (fun _ => []), (unfilled_idx K V (repeat zero_node (length (hnodes m))) 0).
    constructor; cbn [Model.hbuckets Model.hnodes Model.hsize Model.hfree]; rewrite ?repeat_length, ?L.
    - intros b Hb. exists None. split; [apply nth_repeat_none; assumption|constructor].
    - exact S.
    - intros; constructor.
    - apply unfilled_idx_nodup.
    - intros i x Hx. destruct (Z i x Hx) as (F & Li). rewrite F. apply unfilled_idx_spec. exists zero_node.
      rewrite Nat.sub_0_r. split; [lia|]. split; [|reflexivity]. rewrite nthe_repeat.
      destruct (Nat.ltb_spec i (length (hnodes m))); [reflexivity|lia].
    - intros b i x _ [].
    - intros i x _ Hx. apply (Z i x Hx).
    - intros i j xi xj Hi _ Fi. destruct (Z i xi Hi). congruence.
    - rewrite filled_len_abs, HA. reflexivity.
    - intros Hz. apply length_zero_iff_nil. rewrite L. rewrite (inv_emp _ _ _ _ _ _ _ I Hz). reflexivity.
    - exact (inv_cap _ _ _ _ _ _ _ I).
    - exact (inv_cap2 _ _ _ _ _ _ _ I).
    - intros Hb. pose proof (inv_room _ _ _ _ _ _ _ I Hb). lia.
  Qed.

  (* ---- mpairs value update *)
  Lemma hm_mapvals_ok : forall f m, hm_inv m ->
    hm_inv (hm_mapvals K V f m) /\ hm_abs (hm_mapvals K V f m) = mapvals f (hm_abs m).
  Proof.
    intros f m (ch & fl & I). unfold hm_mapvals. split.
    - exists ch, fl. apply (inv_kfn K V keqb khash m ch fl _ I). split; [rewrite map_length; reflexivity|].
      intros i nd H. rewrite nth_error_map, H. cbn [option_map]. eexists; split; [reflexivity|].
      destruct (nfilled nd) eqn:E; cbn; rewrite ?E; auto.
    - unfold Model.hm_abs. cbn [Model.hnodes]. induction (hnodes m) as [|a ns IH]; [reflexivity|].
      cbn [map]. unfold Model.abs_of in *. cbn [filter]. destruct (nfilled a) eqn:E; cbn [Model.nfilled Model.set_val]; rewrite E.
      + cbn [map ProofsAL.mapvals]. unfold ProofsAL.mapvals in IH. rewrite IH. reflexivity.
      + exact IH.
  Qed.

  (* ---- rehash / reserve as operations *)
  Lemma hm_rehash_op : forall n m, hm_inv m ->
    (hm_rehash K V kdflt vdflt keqb khash n m = Trap TrapOverflow /\
     (2 ^ 62 < Z.of_nat (Nat.max n (ceilidiv (hsize m * 100) HM_MAXLF_n)))%Z /\
     fm_rehash K V kdflt vdflt n (canon K V m) = Trap TrapOverflow) \/
    exists m', hm_rehash K V kdflt vdflt keqb khash n m = Ok m' /\ hm_inv m' /\ hm_abs m' = hm_abs m /\
      fm_rehash K V kdflt vdflt n (canon K V m) = Ok (canon K V m').
  Proof.
    intros n m (ch & fl & I).
    destruct (hm_rehash_ok K V kdflt vdflt keqb khash keqb_sym n m (KU_of_inv K V keqb khash _ _ _ I) (inv_size _ _ _ _ _ _ _ I))
      as [(-> & B & FM)|(m' & -> & I' & A & _ & _ & _ & _ & _ & FM)]; [left; split; [reflexivity|split; assumption]|right]. eauto.
  Qed.

  (* the distinguished overflow outcome needs more than 2^62 buckets *)
  Lemma hm_rehash_overflow_only_huge : forall n m, hm_inv m ->
    hm_rehash K V kdflt vdflt keqb khash n m = Trap TrapOverflow ->
    (2 ^ 62 < Z.of_nat (Nat.max n (ceilidiv (hsize m * 100) HM_MAXLF_n)))%Z.
  Proof.
    intros n m (ch & fl & I) H.
    destruct (hm_rehash_ok K V kdflt vdflt keqb khash keqb_sym n m (KU_of_inv K V keqb khash _ _ _ I) (inv_size _ _ _ _ _ _ _ I))
      as [(_ & B & _)|(m' & E & _)]; [assumption|]. rewrite E in H. discriminate.
  Qed.

  Lemma hm_reserve_op : forall n m, hm_inv m ->
    (hm_reserve K V kdflt vdflt keqb khash n m = Trap TrapOverflow /\
     (2 ^ 62 < Z.of_nat (Nat.max (ceilidiv (n * 100) HM_MAXLF_n) (ceilidiv (hsize m * 100) HM_MAXLF_n)))%Z /\
     fm_reserve K V kdflt vdflt n (canon K V m) = Trap TrapOverflow) \/
    exists m', hm_reserve K V kdflt vdflt keqb khash n m = Ok m' /\ hm_inv m' /\ hm_abs m' = hm_abs m /\
      fm_reserve K V kdflt vdflt n (canon K V m) = Ok (canon K V m').
  Proof.
    intros n m I. unfold hm_reserve, fm_reserve. rewrite (canon_len_b K V).
    destruct (_ <? _); [apply hm_rehash_op; assumption|right; eauto].
  Qed.

  (* ---- iteration in node order *)
  Lemma scan_spec : forall rest c,
    match hm_scan K V rest c with
    | None => abs_of rest = []
    | Some (i, nd) => c <= i /\ nth_error rest (i - c) = Some nd /\ nfilled nd = true /\
                      abs_of (firstn (i - c) rest) = [] /\
                      abs_of rest = (nkey nd, nval nd) :: abs_of (skipn (S (i - c)) rest)
    end.
  Proof.
    induction rest as [|a rest IH]; intros c; cbn [hm_scan]; [reflexivity|].
    destruct (nfilled a) eqn:E.
    - rewrite Nat.sub_diag. cbn [nth_error firstn skipn]. repeat split; try lia; try assumption.
      unfold Model.abs_of. cbn [filter]. rewrite E. reflexivity.
    - specialize (IH (S c)). destruct (hm_scan K V rest (S c)) as [[i nd]|].
      + destruct IH as (A & B & C & D & F). replace (i - c) with (S (i - S c)) by lia.
        cbn [nth_error firstn skipn]. repeat split; try lia; try assumption.
        * unfold Model.abs_of in *. cbn [filter]. rewrite E. assumption.
        * unfold Model.abs_of in *. cbn [filter]. rewrite E. assumption.
      + unfold Model.abs_of in *. cbn [filter]. rewrite E. assumption.
  Qed.

  Definition it_of (c : nat) : option nat := match c with 0 => None | S i => Some i end.

  Lemma iter_next_start : forall c m, hm_iter_next K V (it_of c) m = hm_scan K V (skipn c (hnodes m)) c.
  Proof. intros [|c] m; reflexivity. Qed.

  Lemma hm_pairs_loop_ok : forall fuel c m, length (hnodes m) - c < fuel ->
    hm_pairs_loop K V fuel (it_of c) m = Ok (abs_of (skipn c (hnodes m))).
  Proof.
    induction fuel; intros c m Hf; [lia|]. cbn [hm_pairs_loop]. rewrite iter_next_start.
    pose proof (scan_spec (skipn c (hnodes m)) c) as SS.
    destruct (hm_scan K V (skipn c (hnodes m)) c) as [[i nd]|].
    - destruct SS as (A & B & C & _ & F).
      assert (i < length (hnodes m)) as Li.
      { apply nth_error_Some_lt in B. rewrite skipn_length in B. lia. }
      change (Some i) with (it_of (S i)). rewrite IHfuel by lia. cbn [rbind].
      rewrite F, skipn_skipn. replace (S (i - c) + c) with (S i) by lia. reflexivity.
    - rewrite SS. reflexivity.
  Qed.

  Lemma hm_pairs_ok : forall m, hm_pairs K V m = Ok (hm_abs m).
  Proof. intros. unfold hm_pairs. change None with (it_of 0). rewrite hm_pairs_loop_ok by lia. reflexivity. Qed.

  (* ---- removing visited keys while iterating *)
  Lemma firstn_split_at : forall A (l : list A) c i, c <= i -> firstn i l = firstn c l ++ firstn (i - c) (skipn c l).
  Proof.
    intros. rewrite <- (firstn_skipn c (firstn i l)) at 1. rewrite firstn_firstn.
    replace (Nat.min c i) with c by lia. f_equal.
    rewrite firstn_skipn_comm. replace (c + (i - c)) with i by lia. reflexivity.
  Qed.

  (* a binding survives unless the predicate selects it and its key can be found (a key that is not == to itself
     - NaN - is never found by remove) *)
  Notation keep := (keep K V keqb).

  Lemma pairs_erase_loop_ok : forall pred fuel m c, hm_inv m -> length (hnodes m) - c < fuel ->
    exists m', hm_pairs_erase_loop K V kdflt vdflt keqb khash pred fuel (it_of c) m = Ok (abs_of (skipn c (hnodes m)), m') /\
      hm_inv m' /\ length (hnodes m') = length (hnodes m) /\
      hm_abs m' = abs_of (firstn c (hnodes m)) ++ filter (keep pred) (abs_of (skipn c (hnodes m))).
  Proof.
    intros pred. induction fuel; intros m c Hinv Hf; [lia|]. cbn [hm_pairs_erase_loop]. rewrite iter_next_start.
    pose proof (scan_spec (skipn c (hnodes m)) c) as SS.
    destruct (hm_scan K V (skipn c (hnodes m)) c) as [[i nd]|].
    2:{ exists m. rewrite SS. cbn [filter]. rewrite app_nil_r. split; [reflexivity|]. split; [assumption|]. split; [reflexivity|].
        unfold Model.hm_abs. rewrite <- (firstn_skipn c (hnodes m)) at 1. rewrite abs_of_app, SS, app_nil_r. reflexivity. }
    destruct SS as (A & B & C & D & F).
    rewrite nthe_skipn in B. replace (c + (i - c)) with i in B by lia.
    pose proof (nth_error_Some_lt _ _ _ _ B) as Li.
    assert (abs_of (firstn i (hnodes m)) = abs_of (firstn c (hnodes m))) as HFi.
    { rewrite (firstn_split_at _ (hnodes m) c i A), abs_of_app, D, app_nil_r. reflexivity. }
    rewrite skipn_skipn in F. replace (S (i - c) + c) with (S i) in F by lia.
    change (Some i) with (it_of (S i)).
    assert (forall m1, hm_inv m1 -> hnodes m1 = hnodes m ->
              exists m', (r <- hm_pairs_erase_loop K V kdflt vdflt keqb khash pred fuel (it_of (S i)) m1 ;; Ok ((nkey nd, nval nd) :: fst r, snd r)) =
                           Ok (abs_of (skipn c (hnodes m)), m') /\ hm_inv m' /\ length (hnodes m') = length (hnodes m) /\
                         hm_abs m' = abs_of (firstn c (hnodes m)) ++ (nkey nd, nval nd) :: filter (keep pred) (abs_of (skipn (S i) (hnodes m)))) as KEEP.
    { intros m1 I1 E1. destruct (IHfuel m1 (S i) I1 ltac:(rewrite E1; lia)) as (m' & -> & I' & L' & A'). rewrite E1 in *.
      cbn [rbind fst snd]. exists m'. split; [rewrite F; reflexivity|]. split; [assumption|]. split; [assumption|].
      rewrite A'. rewrite (firstn_split_at _ (hnodes m) i (S i) ltac:(lia)), abs_of_app, HFi.
      replace (S i - i) with 1 by lia.
      assert (firstn 1 (skipn i (hnodes m)) = [nd]) as ->.
      { apply nth_error_ext; intro j. rewrite nthe_firstn, nthe_skipn, nthe_cons, nthe_nil.
        destruct (Nat.ltb_spec j 1); destruct (Nat.eqb_spec j 0); try lia; [|reflexivity].
        subst j. rewrite Nat.add_0_r. assumption. }
      unfold Model.abs_of at 2. cbn [filter]. rewrite C. cbn [map]. rewrite <- app_assoc. reflexivity. }
    destruct (pred (nkey nd) (nval nd)) eqn:Pq; [destruct (keqb (nkey nd) (nkey nd)) eqn:Rk|].
    - (* the visited key is removed *)
      destruct (hm_remove_ok K V kdflt vdflt keqb khash keqb_sym keqb_trans hash_coh m (nkey nd) Hinv)
        as (m1 & -> & I1 & HF1 & ST & _). cbn [rbind fst].
      assert (al_find (nkey nd) (hm_abs m) = Some (nkey nd, nval nd)) as AF.
      { destruct Hinv as (ch & fl & I). apply al_find_in; auto.
        - eapply abs_nodup; eauto.
        - apply in_abs_of. eauto. }
      rewrite AF in ST. destruct ST as (i' & nd' & Hn' & F' & Q' & RA).
      assert (i' = i).
      { destruct Hinv as (ch & fl & I). eapply (inv_keys _ _ _ _ _ _ _ I i' i nd' nd); eauto; try (rewrite keqb_sym; assumption). }
      subst i'. destruct RA as (L1 & KV1 & (z & Hz & Fz)).
      destruct (IHfuel m1 (S i) I1 ltac:(lia)) as (m' & -> & I' & L' & A').
      cbn [rbind fst snd].
      assert (abs_of (skipn (S i) (hnodes m1)) = abs_of (skipn (S i) (hnodes m))) as HS1.
      { symmetry. apply kvf_eq_abs. split; [rewrite !skipn_length; lia|]. intros j x Hx. rewrite nthe_skipn in Hx |- *.
        apply KV1; [lia|assumption]. }
      assert (abs_of (firstn (S i) (hnodes m1)) = abs_of (firstn c (hnodes m))) as HF1'.
      { rewrite (firstn_split_at _ (hnodes m1) i (S i) ltac:(lia)), abs_of_app.
        replace (S i - i) with 1 by lia.
        assert (firstn 1 (skipn i (hnodes m1)) = [z]) as ->.
        { apply nth_error_ext; intro j. rewrite nthe_firstn, nthe_skipn, nthe_cons, nthe_nil.
          destruct (Nat.ltb_spec j 1); destruct (Nat.eqb_spec j 0); try lia; [|reflexivity].
          subst j. rewrite Nat.add_0_r. assumption. }
        unfold Model.abs_of at 2. cbn [filter]. rewrite Fz. cbn [map]. rewrite app_nil_r.
        rewrite <- HFi. symmetry. apply kvf_eq_abs. split; [rewrite !firstn_length; lia|].
        intros j x Hx. rewrite nthe_firstn in Hx |- *. destruct (Nat.ltb_spec j i); [|discriminate].
        apply KV1; [lia|assumption]. }
      exists m'. rewrite HS1. split; [rewrite F; reflexivity|]. split; [assumption|]. split; [lia|].
      rewrite A', HF1', HS1, F. cbn [filter]. unfold Model.keep at 2. cbn [fst snd]. rewrite Pq, Rk. reflexivity.
    - (* the predicate selects the binding but its key is not == to itself: remove finds nothing *)
      destruct (hm_remove_ok K V kdflt vdflt keqb khash keqb_sym keqb_trans hash_coh m (nkey nd) Hinv)
        as (m1 & -> & I1 & HF1 & ST & _). cbn [rbind fst].
      assert (al_find (nkey nd) (hm_abs m) = None) as AF.
      { apply al_find_none. intros kv _. apply (irrefl_matches_nothing K keqb keqb_sym keqb_trans). assumption. }
      rewrite AF in ST. subst m1.
      destruct (KEEP m Hinv eq_refl) as (m' & -> & I' & L' & A'). exists m'.
      split; [reflexivity|]. split; [assumption|]. split; [assumption|].
      rewrite A', F. cbn [filter]. unfold Model.keep at 2. cbn [fst snd]. rewrite Pq, Rk. reflexivity.
    - cbn [rbind].
      destruct (KEEP m Hinv eq_refl) as (m' & -> & I' & L' & A'). exists m'.
      split; [reflexivity|]. split; [assumption|]. split; [assumption|].
      rewrite A', F. cbn [filter]. unfold Model.keep at 2. cbn [fst snd]. rewrite Pq. reflexivity.
  Qed.

  Lemma hm_pairs_erase_ok : forall pred m, hm_inv m ->
    exists m', hm_pairs_erase K V kdflt vdflt keqb khash pred m = Ok (hm_abs m, m') /\ hm_inv m' /\
               hm_abs m' = filter (keep pred) (hm_abs m).
  Proof.
    intros pred m I. unfold hm_pairs_erase. change None with (it_of 0).
    destruct (pairs_erase_loop_ok pred (S (length (hnodes m))) m 0 I ltac:(lia)) as (m' & -> & I' & _ & A).
    exists m'. split; [reflexivity|]. split; [assumption|]. exact A.
  Qed.


  (* ---- next(m) / next(m, k): the binding that follows k's binding in iteration order *)
  Lemma scan_head : forall rest c,
    match hm_scan K V rest c with
    | Some (_, nd) => Some (nkey nd, nval nd)
    | None => None
    end = nth_error (abs_of rest) 0.
  Proof.
    intros rest c. pose proof (scan_spec rest c) as SS. destruct (hm_scan K V rest c) as [[i nd]|].
    - destruct SS as (_ & _ & _ & _ & ->). reflexivity.
    - rewrite SS. reflexivity.
  Qed.

  Theorem hm_next_ok : forall m, hm_inv m ->
    hm_next K V keqb khash None m = Ok (nth_error (hm_abs m) 0) /\
    forall k, match al_find k (hm_abs m) with
              | None => hm_next K V keqb khash (Some k) m = Trap TrapInvalidKey
              | Some kv => exists p, nth_error (hm_abs m) p = Some kv /\
                                     hm_next K V keqb khash (Some k) m = Ok (nth_error (hm_abs m) (S p))
              end.
  Proof.
    intros m (ch & fl & I). split.
    - unfold hm_next. cbn [rbind skipn]. rewrite scan_head. reflexivity.
    - intros k. unfold hm_next.
      destruct (Nat.eq_dec (length (hbuckets m)) 0) as [E|E].
      + rewrite hm_find_empty by assumption. cbn [rbind fst]. rewrite (abs_empty K V keqb khash _ _ _ I E). reflexivity.
      + destruct (hm_find_spec K V keqb khash m ch fl k I ltac:(lia)) as (Hb & ->). cbn [rbind fst].
        pose proof (find_abs K V keqb khash keqb_sym keqb_trans hash_coh m ch fl k I ltac:(lia)) as FA. cbn zeta in FA.
        destruct (find_in K V keqb (hnodes m) k (ch (hashmod (khash k) (length (hbuckets m)))) None) as [[i|] p]; cbn [fst].
        * destruct FA as (nd & l1 & l2 & Hn & F & Q & -> & _). cbn [rbind].
          exists (length (abs_of (firstn i (hnodes m)))).
          pose proof (abs_split K V (hnodes m) i nd Hn) as SP. unfold abs1 in SP. rewrite F in SP.
          unfold Model.hm_abs. rewrite SP. split.
          { rewrite nthe_app, Nat.ltb_irrefl, Nat.sub_diag. reflexivity. }
          { rewrite scan_head. f_equal. rewrite nthe_app.
            destruct (Nat.ltb_spec (S (length (abs_of (firstn i (hnodes m))))) (length (abs_of (firstn i (hnodes m))))); [lia|].
            replace (S (length (abs_of (firstn i (hnodes m)))) - length (abs_of (firstn i (hnodes m)))) with 1 by lia.
            reflexivity. }
        * destruct FA as (-> & _). reflexivity.
  Qed.

  (* ---- one step against the association-list specification *)
  (* the map satisfies its invariant and its bindings are, as a multiset, those of the association list *)
  Notation hm_R := (hm_R K V keqb khash).

  Notation ret_rel := (ret_rel K V).

  Lemma R_nodup : forall m al, hm_R m al -> keys_nodup (hm_abs m) /\ keys_nodup al.
  Proof.
    intros m al ((ch & fl & I) & P). pose proof (abs_nodup K V keqb khash _ _ _ I) as N. split; [assumption|].
    eapply keys_nodup_perm; eauto.
  Qed.

  (* the largest bucket count operation o can request of a map holding s bindings (0: it requests nothing) *)
  Notation hop_request := (hop_request K V).

  Lemma R_size : forall m al, hm_R m al -> hsize m = length al.
  Proof.
    intros m al (I & P). rewrite <- (Permutation_length P), <- (hm_len_abs m I). reflexivity.
  Qed.

  (* The distinguished outcome Trap TrapOverflow (the power-of-two rounding of a bucket count wrapped, where the
     implementation would go on with a zero-sized table) is only possible when the request exceeds 2^62 buckets. *)
  Theorem hm_step_refines : forall o m al, hm_R m al ->
    (hm_step K V kdflt vdflt keqb khash o m = Trap TrapOverflow /\
     (2 ^ 62 < Z.of_nat (hop_request o (length al)))%Z) \/
    exists m' r al' r', hm_step K V kdflt vdflt keqb khash o m = Ok (m', r) /\
      al_step K V vdflt keqb o al = Ok (al', r') /\ hm_R m' al' /\ ret_rel r r'.
  Proof.
    intros o m al R. destruct (R_nodup _ _ R) as (NDm & NDa). pose proof (R_size _ _ R) as HSZ. destruct R as (I & P).
    pose proof (fun k => al_find_perm K V keqb keqb_sym keqb_trans _ _ k NDm P) as FP.
    pose proof (fun k => al_get_perm K V keqb keqb_sym keqb_trans _ _ k NDm P) as GP.
    destruct o; cbn [hm_step al_step].
    - (* set *)
      destruct (hm_set_ok K V kdflt vdflt keqb khash keqb_sym keqb_trans hash_coh m k v I) as [(-> & Hbig & _)|(m' & -> & I' & HP & _)]; [left; split; [reflexivity|cbn [Model.hop_request]; rewrite <- HSZ; assumption]|right].
      cbn [rbind]. do 4 eexists. split; [reflexivity|]. split; [reflexivity|]. split; [|cbn; reflexivity].
      split; [assumption|]. eapply Permutation_trans; [exact HP|]. apply (al_set_perm K V keqb keqb_sym keqb_trans); assumption.
    - (* get *)
      destruct (hm_get_ok K V kdflt vdflt keqb khash keqb_sym keqb_trans hash_coh m k I) as [(-> & Hbig & _)|(m' & -> & I' & HP & _)]; [left; split; [reflexivity|cbn [Model.hop_request]; rewrite <- HSZ; assumption]|right].
      cbn [rbind fst snd]. rewrite al_get_find, <- (FP k).
      destruct (al_find k (hm_abs m)) as [kv|] eqn:AF; cbn [option_map].
      + do 4 eexists. split; [reflexivity|]. split; [reflexivity|]. split; [|cbn; reflexivity].
        split; [assumption|]. eapply Permutation_trans; eauto.
      + do 4 eexists. split; [reflexivity|]. split; [reflexivity|]. split; [|cbn; reflexivity].
        split; [assumption|]. eapply Permutation_trans; [exact HP|]. apply (al_set_perm K V keqb keqb_sym keqb_trans); assumption.
    - (* peek *)
      rewrite (hm_peek_ok K V keqb khash keqb_sym keqb_trans hash_coh m k I). right. cbn [rbind].
      do 4 eexists. split; [reflexivity|]. split; [reflexivity|]. split; [split; assumption|].
      cbn. rewrite (GP k). reflexivity.
    - (* has *)
      unfold hm_has. rewrite (hm_peek_ok K V keqb khash keqb_sym keqb_trans hash_coh m k I). right. cbn [rbind].
      do 4 eexists. split; [reflexivity|]. split; [reflexivity|]. split; [split; assumption|].
      cbn. rewrite (GP k). reflexivity.
    - (* has_and_get *)
      rewrite (hm_peek_ok K V keqb khash keqb_sym keqb_trans hash_coh m k I). right. cbn [rbind].
      do 4 eexists. split; [reflexivity|]. split; [reflexivity|]. split; [split; assumption|].
      rewrite (GP k). destruct (al_get K V keqb k al); cbn; reflexivity.
    - (* remove *)
      destruct (hm_remove_ok K V kdflt vdflt keqb khash keqb_sym keqb_trans hash_coh m k I) as (m' & -> & I' & HA & _). right.
      cbn [rbind fst snd]. do 4 eexists. split; [reflexivity|]. split; [reflexivity|].
      split; [|cbn; rewrite (GP k); reflexivity].
      split; [assumption|]. rewrite HA. apply (al_remove_perm K V keqb keqb_sym keqb_trans); assumption.
    - (* erase *)
      destruct (hm_remove_ok K V kdflt vdflt keqb khash keqb_sym keqb_trans hash_coh m k I) as (m' & -> & I' & HA & _). right.
      cbn [rbind fst snd]. do 4 eexists. split; [reflexivity|]. split; [reflexivity|].
      split; [|cbn; rewrite (GP k); reflexivity].
      split; [assumption|]. rewrite HA. apply (al_remove_perm K V keqb keqb_sym keqb_trans); assumption.
    - (* clear *)
      right. destruct (hm_clear_ok m I) as (I' & A). do 4 eexists. split; [reflexivity|]. split; [reflexivity|].
      split; [|cbn; reflexivity]. split; [assumption|]. rewrite A. constructor.
    - (* reserve *)
      destruct (hm_reserve_op n m I) as [(-> & Hbig & _)|(m' & -> & I' & A & _)]; [left; split; [reflexivity|cbn [Model.hop_request]; rewrite <- HSZ; assumption]|right]. cbn [rbind].
      do 4 eexists. split; [reflexivity|]. split; [reflexivity|]. split; [|cbn; reflexivity].
      split; [assumption|]. rewrite A. assumption.
    - (* rehash *)
      destruct (hm_rehash_op n m I) as [(-> & Hbig & _)|(m' & -> & I' & A & _)]; [left; split; [reflexivity|cbn [Model.hop_request]; rewrite <- HSZ; assumption]|right]. cbn [rbind].
      do 4 eexists. split; [reflexivity|]. split; [reflexivity|]. split; [|cbn; reflexivity].
      split; [assumption|]. rewrite A. assumption.
    - (* removal while iterating *)
      destruct (hm_pairs_erase_ok p m I) as (m' & -> & I' & A). right. cbn [rbind fst snd].
      do 4 eexists. split; [reflexivity|]. split; [reflexivity|]. split; [|cbn; assumption].
      split; [assumption|]. rewrite A. apply filter_perm. assumption.
    - (* pairs *)
      rewrite hm_pairs_ok. right. cbn [rbind]. do 4 eexists. split; [reflexivity|]. split; [reflexivity|].
      split; [split; assumption|]. cbn. assumption.
    - (* mpairs update *)
      right. destruct (hm_mapvals_ok f m I) as (I' & A). do 4 eexists. split; [reflexivity|]. split; [reflexivity|].
      split; [|cbn; reflexivity]. split; [assumption|]. rewrite A. apply Permutation_map. assumption.
    - (* destroy *)
      right. destruct hm_empty_inv as (I' & A). do 4 eexists. split; [reflexivity|]. split; [reflexivity|].
      split; [|cbn; reflexivity]. split; [assumption|]. rewrite A. constructor.
  Qed.


  (* ---- keys that are not == to themselves (NaN floats): never found, every assignment adds a binding *)
  Theorem hm_irrefl_key : forall m k v, hm_inv m -> keqb k k = false ->
    hm_peek K V keqb khash k m = Ok None /\
    (exists m', hm_remove K V kdflt vdflt keqb khash k m = Ok (m', None) /\ hm_abs m' = hm_abs m) /\
    ((hm_set K V kdflt vdflt keqb khash k v m = Trap TrapOverflow /\ (2 ^ 62 < Z.of_nat (at_request (hsize m)))%Z) \/
     exists m', hm_set K V kdflt vdflt keqb khash k v m = Ok m' /\ hm_inv m' /\ Permutation (hm_abs m') ((k, v) :: hm_abs m)).
  Proof.
    intros m k v I Hk.
    assert (al_find k (hm_abs m) = None) as AF.
    { apply al_find_none. intros kv _. apply (irrefl_matches_nothing K keqb keqb_sym keqb_trans). assumption. }
    split; [|split].
    - rewrite (hm_peek_ok K V keqb khash keqb_sym keqb_trans hash_coh m k I), al_get_find, AF. reflexivity.
    - destruct (hm_remove_ok K V kdflt vdflt keqb khash keqb_sym keqb_trans hash_coh m k I) as (m' & E & _ & HA & _).
      rewrite al_get_find, AF in E. exists m'. split; [exact E|]. rewrite HA. apply al_remove_none. assumption.
    - destruct (hm_set_ok K V kdflt vdflt keqb khash keqb_sym keqb_trans hash_coh m k v I) as [(-> & Hbig & _)|(m' & -> & I' & HP & _)]; [left; split; [reflexivity|assumption]|right].
      exists m'. split; [reflexivity|]. split; [assumption|].
      rewrite (al_set_none K V keqb k v _ AF) in HP. eapply Permutation_trans; [exact HP|].
      apply Permutation_sym. apply Permutation_cons_append.
  Qed.

  (* ---- whole histories *)
  Notation hm_run := (hm_run K V kdflt vdflt keqb khash).
  Notation al_run := (al_run K V vdflt keqb).

  (* a history either runs to the end in step with the specification, or stops at the first operation whose
     request (evaluated on the specification's own state) exceeds 2^62 buckets *)
  Theorem hm_run_refines : forall ops m al, hm_R m al ->
    (hm_run ops m = Trap TrapOverflow /\
     exists pre o post al0 rs0, ops = pre ++ o :: post /\ al_run pre al = Ok (al0, rs0) /\
       (2 ^ 62 < Z.of_nat (hop_request o (length al0)))%Z) \/
    exists m' rs al' rs', hm_run ops m = Ok (m', rs) /\ al_run ops al = Ok (al', rs') /\
      hm_R m' al' /\ Forall2 ret_rel rs rs'.
  Proof.
    induction ops as [|o tl IH]; intros m al R; cbn [Model.hm_run Model.al_run].
    - right. do 4 eexists. split; [reflexivity|]. split; [reflexivity|]. split; [assumption|constructor].
    - destruct (hm_step_refines o m al R) as [(-> & Hbig)|(m1 & r & al1 & r' & -> & Eal & R1 & RR)].
      { left. split; [reflexivity|]. exists [], o, tl, al, []. split; [reflexivity|]. split; [reflexivity|assumption]. }
      rewrite Eal. cbn [rbind fst snd].
      destruct (IH m1 al1 R1) as [(-> & pre & o' & post & al0 & rs0 & -> & Hpre & Hbig)|(m2 & rs & al2 & rs' & -> & -> & R2 & RRs)]; [left|right].
      + split; [reflexivity|]. exists (o :: pre), o', post, al0, (r' :: rs0). split; [reflexivity|].
        split; [|assumption]. cbn [Model.al_run]. rewrite Eal. cbn [rbind fst snd]. rewrite Hpre. reflexivity.
      + cbn [rbind fst snd]. do 4 eexists. split; [reflexivity|]. split; [reflexivity|]. split; [assumption|].
        constructor; assumption.
  Qed.

  (* ---- no overflow for histories of any realistic size *)
  Lemma al_set_len : forall k v al, length (al_set K V keqb k v al) <= length al + 1.
  Proof.
    induction al as [|[k' v'] tl IH]; cbn [al_set length]; [lia|]. destruct (keqb k k'); cbn [length]; lia.
  Qed.
  Lemma al_remove_len : forall k al, length (al_remove K V keqb k al) <= length al.
  Proof.
    induction al as [|[k' v'] tl IH]; cbn [al_remove length]; [lia|]. destruct (keqb k k'); cbn [length]; lia.
  Qed.
  Lemma al_step_len : forall o al al' r, al_step K V vdflt keqb o al = Ok (al', r) -> length al' <= length al + 1.
  Proof.
    intros o al al' r H. destruct o; cbn [al_step] in H;
      try (destruct (al_get K V keqb k al)); inversion H; subst; clear H;
      try (pose proof (al_set_len k v al)); try (pose proof (al_set_len k vdflt al)); try (pose proof (al_remove_len k al));
      try rewrite map_length; cbn [length]; try lia.
    pose proof (filter_len_le _ (fun kv : K * V => negb (p (fst kv) (snd kv) && keqb (fst kv) (fst kv))) al). lia.
  Qed.
  Lemma al_run_len : forall ops al al' rs, al_run ops al = Ok (al', rs) -> length al' <= length al + length ops.
  Proof.
    induction ops as [|o tl IH]; intros al al' rs H; cbn [Model.al_run] in H.
    - inversion H; subst. cbn. lia.
    - destruct (al_step K V vdflt keqb o al) as [[al1 r]|t] eqn:E; [|discriminate]. cbn [rbind fst snd] in H.
      destruct (al_run tl al1) as [[al2 rs2]|t] eqn:E2; [|discriminate]. cbn [rbind fst snd] in H. inversion H; subst.
      pose proof (al_step_len _ _ _ _ E). pose proof (IH _ _ _ E2). cbn [length]. lia.
  Qed.

  Notation hop_count := (hop_count K V).

  Lemma hop_request_small : forall o s, (Z.of_nat s < 2 ^ 50)%Z -> (Z.of_nat (hop_count o) < 2 ^ 50)%Z ->
    (Z.of_nat (hop_request o s) <= 2 ^ 62)%Z.
  Proof.
    intros o s Hs Hc. destruct hm_rate_facts as (G & L & _). pose proof hm_maxlf_pos as P.
    assert (ceilidiv (s * 100) HM_MAXLF_n <= 4096 * s) by (apply ceilidiv_le; [assumption|nia]).
    destruct o; cbn [Model.hop_request Model.hop_count] in *; try (apply at_request_small; assumption); try lia.
    assert (ceilidiv (n * 100) HM_MAXLF_n <= 4096 * n) by (apply ceilidiv_le; [assumption|nia]). lia.
  Qed.

  Theorem hm_step_no_overflow : forall o m al, hm_R m al ->
    (Z.of_nat (length al) < 2 ^ 50)%Z -> (Z.of_nat (hop_count o) < 2 ^ 50)%Z ->
    hm_step K V kdflt vdflt keqb khash o m <> Trap TrapOverflow.
  Proof.
    intros o m al R Hs Hc E. destruct (hm_step_refines o m al R) as [(_ & Hbig)|(m' & r & al' & r' & E' & _)].
    - pose proof (hop_request_small o _ Hs Hc). lia.
    - rewrite E in E'. discriminate.
  Qed.

  Theorem hm_run_no_overflow : forall ops m al, hm_R m al ->
    (Z.of_nat (length al + length ops) < 2 ^ 50)%Z ->
    (forall o, In o ops -> (Z.of_nat (hop_count o) < 2 ^ 50)%Z) ->
    hm_run ops m <> Trap TrapOverflow.
  Proof.
    intros ops m al R Hs Hc E.
    destruct (hm_run_refines ops m al R) as [(_ & pre & o & post & al0 & rs0 & -> & Hpre & Hbig)|(m' & rs & al' & rs' & E' & _)].
    - pose proof (al_run_len _ _ _ _ Hpre) as L. rewrite app_length in Hs. cbn [length] in Hs.
      assert (Z.of_nat (hop_request o (length al0)) <= 2 ^ 62)%Z; [|lia].
      apply hop_request_small; [lia|]. apply Hc. apply in_or_app. right; left; reflexivity.
    - rewrite E in E'. discriminate.
  Qed.

  (* pairs() yields every binding exactly once *)
  Lemma hm_iteration_once : forall m, hm_inv m ->
    exists l, hm_pairs K V m = Ok l /\ keys_nodup l /\ length l = hm_len K V m /\
              forall k, hm_peek K V keqb khash k m = Ok (al_get K V keqb k l).
  Proof.
    intros m I. exists (hm_abs m).
    split; [apply hm_pairs_ok|]. split; [destruct I as (ch & fl & I); eapply abs_nodup; eauto|].
    split; [symmetry; apply hm_len_abs; assumption|]. intros k. apply hm_peek_ok; assumption.
  Qed.

  Lemma hm_rehash_bindings : forall n m, hm_inv m ->
    (hm_rehash K V kdflt vdflt keqb khash n m = Trap TrapOverflow /\
     (2 ^ 62 < Z.of_nat (Nat.max n (ceilidiv (hsize m * 100) HM_MAXLF_n)))%Z) \/
    exists m', hm_rehash K V kdflt vdflt keqb khash n m = Ok m' /\ hm_inv m' /\ hm_abs m' = hm_abs m.
  Proof.
    intros n m I. destruct (hm_rehash_op n m I) as [(A & B & _)|(m' & A & B & C & _)]; [left; auto|right; eauto].
  Qed.

  Lemma hm_R_empty : hm_R (hm_empty K V) [].
  Proof. destruct hm_empty_inv as (I & A). split; [assumption|]. rewrite A. constructor. Qed.
End HM5.
