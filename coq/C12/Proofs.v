(* C12 - non-vacuity examples (tests, not obligations) and small corollaries. *)
From Coq Require Import ZArith List Bool Lia Arith Permutation.
From C12 Require Import Gen Model ProofsBase ProofsVec ProofsSeq ProofsAL ProofsHM1 ProofsHM2 ProofsHM3 ProofsHM4 ProofsHM5 ProofsHash ProofsSB ProofsDL.
Import ListNotations.

(* the hypotheses of the refinement theorems are met by the empty containers, and histories crossing
   several growths really run to completion on the model *)
Example vec_nonvacuous :
  vec_wf Z (vec_empty Z) /\
  exists v rs, vec_run Z 0%Z Z.eqb [OPush Z 1%Z; OPush Z 2%Z; OPush Z 3%Z; OInsert Z 1 9%Z; ORemove Z 0; OPop Z; OResize Z 5] (vec_empty Z) = Ok (v, rs)
               /\ vec_contents Z v = [9%Z; 2%Z; 0%Z; 0%Z; 0%Z].
Proof. split; [apply vec_empty_wf|]. eexists; eexists; split; vm_compute; reflexivity. Qed.

Example seq_nonvacuous :
  seq_wf Z (seq_empty Z) /\
  exists s rs, seq_run Z 0%Z Z.eqb [OAssign Z 1 5%Z; OAt Z 2; OPush Z 7%Z; OInsert Z 1 9%Z; ORemove Z 2; OAssign Z 0 4%Z] (seq_empty Z) = Ok (s, rs)
               /\ seq_abs Z 0%Z s = (4%Z, [9%Z; 0%Z; 7%Z]).
Proof. split; [apply (seq_empty_wf Z 0%Z)|]. eexists; eexists; split; vm_compute; reflexivity. Qed.

(* position 0 of a non-empty sequence: stopped *)
Example seq_remove0_stopped :
  exists s, seq_run Z 0%Z Z.eqb [OPush Z 10%Z; OPush Z 20%Z; OPush Z 30%Z] (seq_empty Z) = Ok (s, [RUnit Z; RUnit Z; RUnit Z])
            /\ seq_remove Z 0 s = Trap TrapPos.
Proof. eexists; split; vm_compute; reflexivity. Qed.

(* the hashmap theorems' hypotheses are satisfiable: the token instance used by the correspondence driver
   has an equivalence as == and a coherent hash; the empty map is related to the empty association list; a
   history crossing the first allocation, the load-factor growth at 6 of 8, removals, rehash(0) compaction
   and removal during iteration runs to completion on the model *)
Example hm_nonvacuous :
  hm_R Z Z tok_eqb tok_hash (hm_empty Z Z) [] /\
  exists m rs, hm_run Z Z 0%Z 0%Z tok_eqb tok_hash
      [HSet Z Z 0%Z 1%Z; HSet Z Z 64%Z 2%Z; HSet Z Z 128%Z 3%Z; HSet Z Z 192%Z 4%Z; HSet Z Z 1%Z 5%Z; HSet Z Z 256%Z 6%Z;
       HErase Z Z 64%Z; HRehash Z Z 0; HIterErase Z Z (fun k v => Z.odd v); HPeek Z Z 256%Z; HPeek Z Z 64%Z]
      (hm_empty Z Z) = Ok (m, rs) /\
    hm_abs Z Z m = [(192%Z, 4%Z); (256%Z, 6%Z)] /\ nth 9 rs (HUnit Z Z) = HOpt Z Z (Some 6%Z) /\ nth 10 rs (HUnit Z Z) = HOpt Z Z None.
Proof. split; [apply hm_R_empty|]. eexists; eexists. split; [vm_compute; reflexivity|]. split; [vm_compute; reflexivity|]. split; vm_compute; reflexivity. Qed.

Example sb_nonvacuous :
  sb_wf sb_empty /\
  exists b rs, sb_run [BWrite [65%Z; 66%Z]; BWriteByte 67%Z 3; BPwc 20 [1%Z; 2%Z]; BRollback 1; BResize 9; BPrepare 40] sb_empty = Ok (b, rs) /\
    sb_view b = [65%Z; 66%Z; 67%Z; 67%Z; 67%Z; 1%Z; 0%Z; 0%Z; 0%Z] /\ sb_nul_slot b = Some 0%Z.
Proof. split; [apply sb_empty_wf|]. eexists; eexists. split; [vm_compute; reflexivity|]. split; vm_compute; reflexivity. Qed.

Example dl_nonvacuous :
  dl_wf Z (dl_empty Z) [] /\
  exists d rs, dl_run Z Z.eqb [LPushBack Z 1%Z; LPushFront Z 2%Z; LPushBack Z 3%Z; LInsertBefore Z 1%Z 9%Z; LEraseValue Z 2%Z; LPopBack Z; LFind Z 1%Z] (dl_empty Z) = Ok (d, rs) /\
    dl_contents Z d = Ok [9%Z; 1%Z].
Proof. split; [apply (dl_empty_wf Z 0%Z)|]. eexists; eexists. split; vm_compute; reflexivity. Qed.

(* the witness of the former commit defect is now stopped (corpus/C12/sb_commit_over.txt) *)
Example sb_commit_over_stopped : sb_step (BCommitOver 0 0) sb_empty = Trap TrapNoSpace.
Proof. vm_compute. reflexivity. Qed.

(* NaN keys: the token instance has keys that are not == to themselves, and they behave as the theorems say *)
Example hm_nan_keys :
  tok_eqb NAN_OFF NAN_OFF = false /\
  exists m rs, hm_run Z Z 0%Z 0%Z tok_eqb tok_hash
      [HSet Z Z NAN_OFF 1%Z; HSet Z Z NAN_OFF 2%Z; HSet Z Z 3%Z 4%Z; HPeek Z Z NAN_OFF; HErase Z Z NAN_OFF; HIterErase Z Z (fun k v => true)]
      (hm_empty Z Z) = Ok (m, rs) /\ hm_abs Z Z m = [(NAN_OFF, 1%Z); (NAN_OFF, 2%Z)] /\ nth 3 rs (HUnit Z Z) = HOpt Z Z None.
Proof. split; [vm_compute; reflexivity|]. eexists; eexists. split; [vm_compute; reflexivity|]. split; vm_compute; reflexivity. Qed.
