(* C12 - list.nelua (doubly linked list over an arena of nodes) refines the mathematical list. *)
From Coq Require Import ZArith List Bool Lia Arith.
From C12 Require Import Gen Model ProofsBase ProofsVec ProofsHM1.
Import ListNotations.

Lemma NoDup_nth_inj : forall (l : list nat) k1 k2 i, NoDup l ->
  nth_error l k1 = Some i -> nth_error l k2 = Some i -> k1 = k2.
Proof.
  intros l k1 k2 i ND H1 H2. rewrite NoDup_nth_error in ND. apply ND.
  - eapply nth_error_Some_lt; eauto.
  - congruence.
Qed.

Lemma NoDup_app_insert : forall (l1 l2 : list nat) x, NoDup (l1 ++ l2) -> ~ In x (l1 ++ l2) -> NoDup (l1 ++ x :: l2).
Proof.
  induction l1; intros l2 x ND NI; cbn [app] in *.
  - constructor; assumption.
  - inversion ND; subst. constructor.
    + intros H. apply in_app_or in H. destruct H as [H|[H|H]].
      * apply H1. apply in_or_app. auto.
      * subst. apply NI. left; reflexivity.
      * apply H1. apply in_or_app. auto.
    + apply IHl1; [assumption|]. intros H; apply NI; right; assumption.
Qed.

Section DL.
  Variable T : Type.
  Variable dflt : T.
  Variable teqb : T -> T -> bool.

  Notation lnode := (lnode T).
  Notation dlist := (dlist T).
  Notation larena := (larena T).
  Notation lfront := (lfront T).
  Notation lback := (lback T).
  Notation lprev := (lprev T).
  Notation lnext := (lnext T).
  Notation lval := (lval T).
  Notation lalive := (lalive T).

  (* [l] lists the node indices front to back; every node is alive and its prev/next point to its neighbours *)
  Notation node_ok := (node_ok T).

  Notation dl_wf := (dl_wf T).

  Notation val_at := (val_at T dflt).
  Notation vals := (vals T dflt).

  Lemma vals_length : forall a l, length (vals a l) = length l.
  Proof. intros. apply map_length. Qed.

  Lemma nthe_vals : forall a l k, nth_error (vals a l) k = option_map (val_at a) (nth_error l k).
  Proof. intros. unfold Model.vals. apply nth_error_map. Qed.

  Lemma lget_alive : forall a i nd, nth_error a i = Some nd -> lalive nd = true -> lget T i a = Ok nd.
  Proof. intros. unfold lget. rewrite (sget_Some _ _ _ _ H). cbn [rbind]. rewrite H0. reflexivity. Qed.

  Lemma lupd_alive : forall a i nd f, nth_error a i = Some nd -> lalive nd = true ->
    lupd T i f a = Ok (overwrite i [f nd] a).
  Proof.
    intros. unfold lupd. rewrite (lget_alive _ _ _ H H0). cbn [rbind]. apply sset_ok. eapply nth_error_Some_lt; eauto.
  Qed.

  Lemma wf_node : forall d l k i, dl_wf d l -> nth_error l k = Some i -> node_ok (larena d) l k i.
  Proof. intros d l k i (_ & _ & _ & H). apply H. Qed.

  Lemma wf_lt : forall d l k i, dl_wf d l -> nth_error l k = Some i -> i < length (larena d).
  Proof. intros. destruct (wf_node _ _ _ _ H H0) as (nd & A & _). eapply nth_error_Some_lt; eauto. Qed.

  Lemma vals_ext : forall a a' l, (forall i, In i l -> val_at a' i = val_at a i) -> vals a' l = vals a l.
  Proof. intros. unfold Model.vals. apply map_ext_in. assumption. Qed.

  (* ---- walking front to back yields exactly the abstract list *)
  Lemma dl_walk_ok : forall d l, dl_wf d l -> forall n k fuel, length l - k = n -> n < fuel ->
    dl_walk T fuel (larena d) (nth_error l k) = Ok (vals (larena d) (skipn k l)).
  Proof.
    intros d l W. induction n; intros k fuel Hk Hf; (destruct fuel; [lia|]); cbn [dl_walk].
    - rewrite (nthe_beyond _ l k) by lia. rewrite skipn_all2 by lia. reflexivity.
    - destruct (nth_error l k) as [i|] eqn:E; [|apply nth_error_None in E; lia].
      destruct (wf_node _ _ _ _ W E) as (nd & A & B & _ & D).
      rewrite (lget_alive _ _ _ A B). cbn [rbind]. rewrite D.
      rewrite (IHn (S k) fuel) by lia. cbn [rbind].
      assert (skipn k l = i :: skipn (S k) l) as ->.
      { apply nth_error_ext; intro j. rewrite nthe_cons, !nthe_skipn.
        destruct (Nat.eqb_spec j 0); [subst; rewrite Nat.add_0_r; assumption|f_equal; lia]. }
      cbn [Model.vals map]. unfold Model.val_at at 1. rewrite A. reflexivity.
  Qed.

  Lemma wf_len : forall d l, dl_wf d l -> length l <= length (larena d).
  Proof.
    intros d l W. apply nodup_bound; [destruct W; assumption|].
    intros i Hi. apply In_nth_error in Hi. destruct Hi as (k & Hk). eapply wf_lt; eauto.
  Qed.

  Lemma dl_contents_ok : forall d l, dl_wf d l -> dl_contents T d = Ok (vals (larena d) l).
  Proof.
    intros d l W. unfold dl_contents. pose proof (wf_len _ _ W). destruct W as (ND & F & W'). rewrite F.
    assert (dl_wf d l) as W by (split; [assumption|split; assumption]).
    rewrite (dl_walk_ok d l W (length l) 0) by lia. reflexivity.
  Qed.

  (* ---- helpers about arenas *)
  Lemma nthe_snoc : forall (a : list lnode) x j,
    nth_error (a ++ [x]) j = if j <? length a then nth_error a j else if j =? length a then Some x else None.
  Proof.
    intros. rewrite nthe_app. destruct (Nat.ltb_spec j (length a)); [reflexivity|].
    destruct (Nat.eqb_spec j (length a)).
    - subst. rewrite Nat.sub_diag. reflexivity.
    - rewrite nthe_cons. destruct (Nat.eqb_spec (j - length a) 0); [lia|]. apply nthe_nil.
  Qed.

  Lemma wf_intro : forall a l fr bk, NoDup l -> fr = nth_error l 0 ->
    bk = (if length l =? 0 then None else nth_error l (length l - 1)) ->
    (forall k i, nth_error l k = Some i -> node_ok a l k i) -> dl_wf (mkdl T a fr bk) l.
  Proof. intros. split; [assumption|]. split; [assumption|]. split; assumption. Qed.

  Lemma val_at_upd : forall a i nd f j, nth_error a i = Some nd -> lval (f nd) = lval nd ->
    val_at (overwrite i [f nd] a) j = val_at a j.
  Proof.
    intros. unfold Model.val_at. rewrite nthe_upd by (eapply nth_error_Some_lt; eauto).
    destruct (Nat.eqb_spec j i); [subst; rewrite H; assumption|reflexivity].
  Qed.

  Lemma val_at_snoc : forall a x j, j < length a -> val_at (a ++ [x]) j = val_at a j.
  Proof. intros. unfold Model.val_at. rewrite nthe_snoc. destruct (Nat.ltb_spec j (length a)); [reflexivity|lia]. Qed.

  (* ---- pushfront *)
  Lemma dl_pushfront_ok : forall x d l, dl_wf d l ->
    exists d', dl_pushfront T x d = Ok d' /\ dl_wf d' (length (larena d) :: l) /\
               vals (larena d') (length (larena d) :: l) = x :: vals (larena d) l /\
               val_at (larena d') (length (larena d)) = x /\ lfront d' = Some (length (larena d)).
  Proof.
    intros x [a fr bk] l W. pose proof W as (ND & F & B & P). cbn [Model.larena Model.lfront Model.lback] in *.
    unfold dl_pushfront; cbn [Model.larena Model.lfront Model.lback].
    set (i := length a). set (new := mklnode T None fr x true). set (a' := a ++ [new]).
    assert (forall k j, nth_error l k = Some j -> j < i) as LT by (intros; eapply (wf_lt _ _ _ _ W); eauto).
    assert (~ In i l) as Hi by (intros H; apply In_nth_error in H; destruct H as (k & Hk); specialize (LT _ _ Hk); lia).
    destruct l as [|f tl].
    - cbn in F, B. subst fr bk. cbn [rbind]. eexists; split; [reflexivity|]. split; [|split; [|split]].
      + apply wf_intro; [repeat constructor; auto|reflexivity|reflexivity|].
        intros k j Hk. destruct k; [|destruct k; discriminate]. cbn in Hk. inversion Hk; subst j.
        exists new. split; [unfold a'; rewrite nthe_snoc; fold i; rewrite Nat.ltb_irrefl, Nat.eqb_refl; reflexivity|]. auto.
      + cbn. unfold Model.val_at, a'. rewrite nthe_snoc. fold i. rewrite Nat.ltb_irrefl, Nat.eqb_refl. reflexivity.
      + cbn [Model.larena]. unfold Model.val_at, a'. rewrite nthe_snoc. fold i. rewrite Nat.ltb_irrefl, Nat.eqb_refl. reflexivity.
      + reflexivity.
    - cbn in F. subst fr. destruct (P 0 f eq_refl) as (ndf & Hf & Af & Pf & Nf).
      assert (f < i) as Lf by (apply (LT 0 f eq_refl)).
      assert (nth_error a' f = Some ndf) as Hf' by (unfold a'; rewrite nthe_snoc; fold i; destruct (Nat.ltb_spec f i); [assumption|lia]).
      rewrite (lupd_alive a' f ndf _ Hf' Af). cbn [rbind].
      set (a1 := overwrite f [set_lprev T (Some i) ndf] a').
      assert (length a' = S i) as La' by (unfold a'; rewrite app_length; cbn; lia).
      assert (forall j, nth_error a1 j = if j =? f then Some (set_lprev T (Some i) ndf) else if j <? i then nth_error a j else if j =? i then Some new else None) as N1.
      { intros j. unfold a1. rewrite nthe_upd by lia. destruct (Nat.eqb_spec j f); [reflexivity|]. unfold a'. apply nthe_snoc. }
      eexists; split; [reflexivity|]. split; [|split; [|split]].
      + apply wf_intro.
        * constructor; assumption.
        * reflexivity.
        * rewrite B. cbn [length Nat.eqb].
          replace (S (length tl) - 1) with (length tl) by lia. replace (S (S (length tl)) - 1) with (S (length tl)) by lia.
          change (nth_error (i :: f :: tl) (S (length tl))) with (nth_error (f :: tl) (length tl)).
          destruct (nth_error (f :: tl) (length tl)) eqn:E; [reflexivity|]. apply nth_error_None in E. cbn in E. lia.
        * intros k j Hk. destruct k as [|k'].
          { cbn in Hk. inversion Hk; subst j. exists new. split.
            - rewrite N1. destruct (Nat.eqb_spec i f); [lia|]. rewrite Nat.ltb_irrefl, Nat.eqb_refl. reflexivity.
            - split; [reflexivity|]. split; reflexivity. }
          { cbn in Hk. destruct (P k' j Hk) as (nd & Hn & An & Pn & Nn).
            pose proof (LT _ _ Hk) as Lj. destruct (Nat.eq_dec j f) as [->|Hne].
            - assert (k' = 0) by (eapply (NoDup_nth_inj (f :: tl)); eauto). subst k'.
              rewrite Hf in Hn. inversion Hn; subst nd.
              exists (set_lprev T (Some i) ndf). split; [rewrite N1, Nat.eqb_refl; reflexivity|].
              split; [assumption|]. split; [reflexivity|exact Nn].
            - exists nd. split; [rewrite N1; destruct (Nat.eqb_spec j f); [contradiction|]; destruct (Nat.ltb_spec j i); [assumption|lia]|].
              split; [assumption|]. split; [|exact Nn].
              rewrite Pn. destruct k' as [|k'']; [cbn in Hk; inversion Hk; congruence|]. cbn [Nat.eqb].
              replace (S k'' - 1) with k'' by lia. replace (S (S k'') - 1) with (S k'') by lia. reflexivity. }
      + cbn [Model.larena]. change (vals a1 (i :: f :: tl)) with (val_at a1 i :: vals a1 (f :: tl)). f_equal.
        * unfold Model.val_at. rewrite N1. destruct (Nat.eqb_spec i f); [lia|]. rewrite Nat.ltb_irrefl, Nat.eqb_refl. reflexivity.
        * apply vals_ext. intros j Hj. unfold a1.
          rewrite (val_at_upd a' f ndf (set_lprev T (Some i)) j Hf' eq_refl).
          apply val_at_snoc. apply In_nth_error in Hj. destruct Hj as (k & Hk). apply (LT _ _ Hk).
      + cbn [Model.larena]. unfold Model.val_at. rewrite N1. destruct (Nat.eqb_spec i f); [lia|]. rewrite Nat.ltb_irrefl, Nat.eqb_refl. reflexivity.
      + reflexivity.
  Qed.

  (* ---- splicing a new node in at position p, as one arena transformation *)
  Definition upd_opt (o : option nat) (f : lnode -> lnode) (a : list lnode) : list lnode :=
    match o with
    | Some j => match nth_error a j with Some nd => overwrite j [f nd] a | None => a end
    | None => a
    end.

  Lemma upd_opt_spec : forall o f a j,
    nth_error (upd_opt o f a) j =
      match o with
      | Some q => if j =? q then option_map f (nth_error a q) else nth_error a j
      | None => nth_error a j
      end.
  Proof.
    intros [q|] f a j; cbn [upd_opt]; [|reflexivity].
    destruct (nth_error a q) eqn:E.
    - rewrite nthe_upd by (eapply nth_error_Some_lt; eauto). destruct (j =? q); reflexivity.
    - destruct (Nat.eqb_spec j q); [subst; rewrite E; reflexivity|reflexivity].
  Qed.

  Lemma upd_opt_length : forall o f a, length (upd_opt o f a) = length a.
  Proof.
    intros [q|] f a; cbn [upd_opt]; [|reflexivity]. destruct (nth_error a q) eqn:E; [|reflexivity].
    apply length_upd. eapply nth_error_Some_lt; eauto.
  Qed.

  Lemma lupd_upd_opt : forall a j nd f, nth_error a j = Some nd -> lalive nd = true ->
    lupd T j f a = Ok (upd_opt (Some j) f a).
  Proof. intros. rewrite (lupd_alive a j nd f H H0). cbn [upd_opt]. rewrite H. reflexivity. Qed.

  Definition prev_of (l : list nat) (p : nat) : option nat := if p =? 0 then None else nth_error l (p - 1).

  Definition ins_arena (a : list lnode) (l : list nat) (p : nat) (x : T) : list lnode :=
    let i := length a in
    upd_opt (nth_error l p) (set_lprev T (Some i))
      (upd_opt (prev_of l p) (set_lnext T (Some i)) (a ++ [mklnode T (prev_of l p) (nth_error l p) x true])).

  Definition ins_list (l : list nat) (p i : nat) : list nat := firstn p l ++ i :: skipn p l.

  Lemma nthe_ins_list : forall l p i k, p <= length l ->
    nth_error (ins_list l p i) k = if k <? p then nth_error l k else if k =? p then Some i else nth_error l (k - 1).
  Proof.
    intros. unfold ins_list. rewrite nthe_app, nthe_firstn, firstn_length, nthe_cons, nthe_skipn.
    replace (Nat.min p (length l)) with p by lia.
    destruct (Nat.ltb_spec k p); [reflexivity|]. destruct (Nat.eqb_spec (k - p) 0); destruct (Nat.eqb_spec k p); try lia; try reflexivity.
    f_equal. lia.
  Qed.

  Lemma ins_list_length : forall l p i, p <= length l -> length (ins_list l p i) = S (length l).
  Proof. intros. unfold ins_list. rewrite app_length, firstn_length. cbn [length]. rewrite skipn_length. lia. Qed.

  Lemma set_fields : forall (nd : lnode) o,
    lval (set_lprev T o nd) = lval nd /\ lval (set_lnext T o nd) = lval nd /\
    lalive (set_lprev T o nd) = lalive nd /\ lalive (set_lnext T o nd) = lalive nd /\
    lprev (set_lprev T o nd) = o /\ lnext (set_lprev T o nd) = lnext nd /\
    lprev (set_lnext T o nd) = lprev nd /\ lnext (set_lnext T o nd) = o.
  Proof. intros. repeat split. Qed.

  Lemma ins_wf : forall a fr bk l p x, dl_wf (mkdl T a fr bk) l -> p <= length l ->
    let i := length a in
    dl_wf (mkdl T (ins_arena a l p x) (if p =? 0 then Some i else fr) (if p =? length l then Some i else bk)) (ins_list l p i) /\
    vals (ins_arena a l p x) (ins_list l p i) = l_insert T p x (vals a l) /\
    val_at (ins_arena a l p x) i = x.
  Proof.
    intros a fr bk l p x W Hp i. pose proof W as (ND & F & B & P). cbn [Model.larena Model.lfront Model.lback] in *.
    assert (forall k j, nth_error l k = Some j -> j < i) as LT by (intros; eapply (wf_lt _ _ _ _ W); eauto).
    assert (~ In i l) as Hi by (intros H; apply In_nth_error in H; destruct H as (k & Hk); specialize (LT _ _ Hk); lia).
    set (new := mklnode T (prev_of l p) (nth_error l p) x true).
    (* the arena, pointwise *)
    assert (forall j, nth_error (ins_arena a l p x) j =
              if j =? i then Some new else
              match nth_error a j with
              | Some nd => Some (if (match nth_error l p with Some q => j =? q | None => false end) then set_lprev T (Some i) nd
                                 else if (match prev_of l p with Some q => j =? q | None => false end) then set_lnext T (Some i) nd else nd)
              | None => None
              end) as NA.
    { intros j. unfold ins_arena. fold i. fold new. repeat (rewrite upd_opt_spec || rewrite nthe_snoc). fold i.
      assert (forall q, nth_error l p = Some q -> prev_of l p = Some q -> False) as DIS.
      { intros q H1 H2. unfold prev_of in H2. destruct (Nat.eqb_spec p 0); [discriminate|].
        assert (p = p - 1) by (eapply NoDup_nth_inj; eauto). lia. }
      destruct (Nat.eqb_spec j i) as [->|Hji].
      - destruct (nth_error l p) as [q|] eqn:E1.
        + destruct (Nat.eqb_spec i q); [specialize (LT _ _ E1); lia|].
          destruct (prev_of l p) as [r|] eqn:E2.
          * destruct (Nat.eqb_spec i r); [unfold prev_of in E2; destruct (p =? 0); [discriminate|]; specialize (LT _ _ E2); lia|].
            rewrite Nat.ltb_irrefl; rewrite ?Nat.eqb_refl; reflexivity.
          * rewrite Nat.ltb_irrefl; rewrite ?Nat.eqb_refl; reflexivity.
        + destruct (prev_of l p) as [r|] eqn:E2.
          * destruct (Nat.eqb_spec i r); [unfold prev_of in E2; destruct (p =? 0); [discriminate|]; specialize (LT _ _ E2); lia|].
            rewrite Nat.ltb_irrefl; rewrite ?Nat.eqb_refl; reflexivity.
          * rewrite Nat.ltb_irrefl; rewrite ?Nat.eqb_refl; reflexivity.
      - assert (forall q, q < i -> (if q <? i then nth_error a q else if q =? i then Some new else None) = nth_error a q) as SN.
        { intros q Hq. destruct (Nat.ltb_spec q i); [reflexivity|lia]. }
        assert ((if j <? i then nth_error a j else None) = nth_error a j) as SJ.
        { destruct (Nat.ltb_spec j i); [reflexivity|]. symmetry. apply nthe_beyond. lia. }
        destruct (nth_error l p) as [q|] eqn:E1; destruct (prev_of l p) as [r|] eqn:E2;
          repeat (rewrite upd_opt_spec || rewrite nthe_snoc); fold i.
        + assert (q < i) by (apply (LT _ _ E1)).
          assert (r < i) by (unfold prev_of in E2; destruct (p =? 0); [discriminate|]; apply (LT _ _ E2)).
          assert (q <> r) by (intros ->; eapply DIS; eauto).
          destruct (Nat.eqb_spec j q) as [->|Hq].
          * destruct (Nat.eqb_spec q r); [contradiction|]. rewrite SN by assumption. destruct (nth_error a q); reflexivity.
          * destruct (Nat.eqb_spec j r) as [->|Hr].
            { rewrite SN by assumption. destruct (nth_error a r); reflexivity. }
            { rewrite SJ. destruct (nth_error a j); reflexivity. }
        + assert (q < i) by (apply (LT _ _ E1)).
          destruct (Nat.eqb_spec j q) as [->|Hq].
          * rewrite SN by assumption. destruct (nth_error a q); reflexivity.
          * rewrite SJ. destruct (nth_error a j); reflexivity.
        + assert (r < i) by (unfold prev_of in E2; destruct (p =? 0); [discriminate|]; apply (LT _ _ E2)).
          destruct (Nat.eqb_spec j r) as [->|Hr].
          * rewrite SN by assumption. destruct (nth_error a r); reflexivity.
          * rewrite SJ. destruct (nth_error a j); reflexivity.
        + rewrite SJ. destruct (nth_error a j); reflexivity. }
    assert (forall j, j <> i -> val_at (ins_arena a l p x) j = val_at a j) as VA.
    { intros j Hj. unfold Model.val_at. rewrite NA. destruct (Nat.eqb_spec j i); [contradiction|].
      destruct (nth_error a j); [|reflexivity].
      destruct (match nth_error l p with Some q => j =? q | None => false end); [reflexivity|].
      destruct (match prev_of l p with Some q => j =? q | None => false end); reflexivity. }
    assert (val_at (ins_arena a l p x) i = x) as VI by (unfold Model.val_at; rewrite NA, Nat.eqb_refl; reflexivity).
    split; [|split; [|exact VI]].
    - apply wf_intro.
      + unfold ins_list. apply NoDup_app_insert.
        * rewrite firstn_skipn. assumption.
        * rewrite firstn_skipn. assumption.
      + rewrite nthe_ins_list by assumption. destruct (Nat.eqb_spec p 0).
        * subst p. reflexivity.
        * destruct (Nat.ltb_spec 0 p); [assumption|lia].
      + rewrite ins_list_length by assumption. cbn [Nat.eqb].
        replace (S (length l) - 1) with (length l) by lia. rewrite nthe_ins_list by assumption.
        destruct (Nat.eqb_spec p (length l)).
        * subst p. rewrite Nat.ltb_irrefl; rewrite ?Nat.eqb_refl; reflexivity.
        * destruct (Nat.ltb_spec (length l) p); [lia|]. destruct (Nat.eqb_spec (length l) p); [lia|].
          rewrite B. destruct (Nat.eqb_spec (length l) 0); [lia|reflexivity].
      + intros k j Hk. rewrite nthe_ins_list in Hk by assumption. unfold Model.node_ok.
        rewrite NA. rewrite !nthe_ins_list by assumption.
        destruct (Nat.ltb_spec k p).
        * (* before the new node *)
          destruct (P k j Hk) as (nd & Hn & An & Pn & Nn). pose proof (LT _ _ Hk).
          destruct (Nat.eqb_spec j i); [lia|]. rewrite Hn.
          assert ((match nth_error l p with Some q => j =? q | None => false end) = false) as ->.
          { destruct (nth_error l p) as [q|] eqn:E; [|reflexivity]. destruct (Nat.eqb_spec j q); [|reflexivity].
            subst q. assert (k = p) by (eapply NoDup_nth_inj; eauto). lia. }
          assert ((match prev_of l p with Some q => j =? q | None => false end) = (S k =? p)) as ->.
          { unfold prev_of. destruct (Nat.eqb_spec p 0); [lia|].
            destruct (nth_error l (p - 1)) as [q|] eqn:E; [|apply nth_error_None in E; lia].
            destruct (Nat.eqb_spec j q).
            - subst q. assert (k = p - 1) by (eapply NoDup_nth_inj; eauto). destruct (Nat.eqb_spec (S k) p); [reflexivity|lia].
            - destruct (Nat.eqb_spec (S k) p); [|reflexivity]. assert (k = p - 1) by lia. subst k. congruence. }
          eexists; split; [reflexivity|].
          destruct (Nat.eqb_spec (S k) p).
          { split; [assumption|]. split.
            - cbn [Model.lprev Model.lnext Model.set_lnext Model.set_lprev Model.lalive Model.lval]. rewrite Pn. destruct (Nat.eqb_spec k 0); [reflexivity|]. destruct (Nat.ltb_spec (k - 1) p); [reflexivity|lia].
            - cbn [Model.lprev Model.lnext Model.set_lnext Model.set_lprev Model.lalive Model.lval]. destruct (Nat.ltb_spec (S k) p); [lia|]. destruct (Nat.eqb_spec (S k) p); [reflexivity|lia]. }
          { split; [assumption|]. split.
            - rewrite Pn. destruct (Nat.eqb_spec k 0); [reflexivity|]. destruct (Nat.ltb_spec (k - 1) p); [reflexivity|lia].
            - rewrite Nn. destruct (Nat.ltb_spec (S k) p); [reflexivity|lia]. }
        * destruct (Nat.eqb_spec k p).
          { (* the new node *)
            inversion Hk; subst j. rewrite Nat.eqb_refl. eexists; split; [reflexivity|]. split; [reflexivity|]. subst k. unfold new. split.
            - cbn [Model.lprev Model.lnext Model.set_lnext Model.set_lprev Model.lalive Model.lval]. unfold prev_of. destruct (Nat.eqb_spec p 0); [reflexivity|]. destruct (Nat.ltb_spec (p - 1) p); [reflexivity|lia].
            - cbn [Model.lprev Model.lnext Model.set_lnext Model.set_lprev Model.lalive Model.lval]. destruct (Nat.ltb_spec (S p) p); [lia|]. destruct (Nat.eqb_spec (S p) p); [lia|]. first [reflexivity | f_equal; lia]. }
          { (* after the new node *)
            destruct (P (k - 1) j Hk) as (nd & Hn & An & Pn & Nn). pose proof (LT _ _ Hk).
            destruct (Nat.eqb_spec j i); [lia|]. rewrite Hn.
            assert ((match nth_error l p with Some q => j =? q | None => false end) = (k - 1 =? p)) as ->.
            { destruct (nth_error l p) as [q|] eqn:E.
              - destruct (Nat.eqb_spec j q).
                + subst q. assert (k - 1 = p) by (eapply NoDup_nth_inj; eauto). destruct (Nat.eqb_spec (k - 1) p); [reflexivity|lia].
                + destruct (Nat.eqb_spec (k - 1) p); [|reflexivity]. rewrite e in Hk. congruence.
              - apply nth_error_None in E. apply nth_error_Some_lt in Hk. destruct (Nat.eqb_spec (k - 1) p); [lia|reflexivity]. }
            assert ((match prev_of l p with Some q => j =? q | None => false end) = false) as E2.
            { unfold prev_of. destruct (Nat.eqb_spec p 0); [reflexivity|].
              destruct (nth_error l (p - 1)) as [q|] eqn:E; [|reflexivity]. destruct (Nat.eqb_spec j q); [|reflexivity].
              subst q. assert (k - 1 = p - 1) by (eapply NoDup_nth_inj; eauto). lia. }
            eexists; split; [reflexivity|].
            destruct (Nat.eqb_spec (k - 1) p).
            - split; [assumption|]. split.
              + cbn [Model.lprev Model.lnext Model.set_lnext Model.set_lprev Model.lalive Model.lval]. destruct (Nat.eqb_spec k 0); [lia|]. destruct (Nat.ltb_spec (k - 1) p); [lia|]. destruct (Nat.eqb_spec (k - 1) p); [reflexivity|lia].
              + cbn [Model.lprev Model.lnext Model.set_lnext Model.set_lprev Model.lalive Model.lval]. rewrite Nn. destruct (Nat.ltb_spec (S k) p); [lia|]. destruct (Nat.eqb_spec (S k) p); [lia|]. first [reflexivity | f_equal; lia].
            - rewrite E2. split; [assumption|]. split.
              + rewrite Pn. destruct (Nat.eqb_spec (k - 1) 0); [lia|]. destruct (Nat.eqb_spec k 0); [lia|].
                destruct (Nat.ltb_spec (k - 1) p); [lia|]. destruct (Nat.eqb_spec (k - 1) p); [lia|]. first [reflexivity | f_equal; lia].
              + rewrite Nn. destruct (Nat.ltb_spec (S k) p); [lia|]. destruct (Nat.eqb_spec (S k) p); [lia|]. first [reflexivity | f_equal; lia]. }
    - apply nth_error_ext; intro k. unfold l_insert.
      rewrite nthe_vals, nthe_ins_list, nthe_app, nthe_firstn, firstn_length, vals_length, nthe_cons, nthe_skipn, !nthe_vals by assumption.
      replace (Nat.min p (length l)) with p by lia.
      destruct (Nat.ltb_spec k p).
      + destruct (nth_error l k) as [j|] eqn:E; [|reflexivity]. cbn [option_map]. rewrite VA; [reflexivity|]. specialize (LT _ _ E). lia.
      + destruct (Nat.eqb_spec k p).
        * subst k. rewrite Nat.sub_diag. cbn. rewrite VI. reflexivity.
        * destruct (Nat.eqb_spec (k - p) 0); [lia|]. replace (p + (k - p - 1)) with (k - 1) by lia.
          destruct (nth_error l (k - 1)) as [j|] eqn:E; [|reflexivity]. cbn [option_map]. rewrite VA; [reflexivity|]. specialize (LT _ _ E). lia.
  Qed.

  (* ---- unlinking the node at position p, as one arena transformation *)
  Definition rem_arena (a : list lnode) (l : list nat) (p : nat) : list lnode :=
    upd_opt (nth_error l p) (kill T)
      (upd_opt (nth_error l (S p)) (set_lprev T (prev_of l p))
         (upd_opt (prev_of l p) (set_lnext T (nth_error l (S p))) a)).

  Definition rem_list (l : list nat) (p : nat) : list nat := firstn p l ++ skipn (S p) l.

  Lemma nthe_rem_list : forall l p k, p < length l ->
    nth_error (rem_list l p) k = if k <? p then nth_error l k else nth_error l (S k).
  Proof.
    intros. unfold rem_list. rewrite nthe_app, nthe_firstn, firstn_length, nthe_skipn.
    replace (Nat.min p (length l)) with p by lia.
    destruct (Nat.ltb_spec k p); [reflexivity|]. f_equal. lia.
  Qed.

  Lemma rem_list_length : forall l p, p < length l -> S (length (rem_list l p)) = length l.
  Proof. intros. unfold rem_list. rewrite app_length, firstn_length, skipn_length. lia. Qed.

  Lemma rem_wf : forall a fr bk l p q, dl_wf (mkdl T a fr bk) l -> nth_error l p = Some q ->
    dl_wf (mkdl T (rem_arena a l p) (if p =? 0 then nth_error l 1 else fr) (if S p =? length l then prev_of l p else bk)) (rem_list l p) /\
    vals (rem_arena a l p) (rem_list l p) = l_remove T p (vals a l) /\
    (forall j, j <> q -> val_at (rem_arena a l p) j = val_at a j).
  Proof.
    intros a fr bk l p q W Hq. pose proof W as (ND & F & B & P). cbn [Model.larena Model.lfront Model.lback] in *.
    pose proof (nth_error_Some_lt _ _ _ _ Hq) as Hp.
    destruct (P p q Hq) as (ndq & Hnq & Aq & Pq & Nq).
    (* the arena, pointwise *)
    assert (forall j, nth_error (rem_arena a l p) j =
              match nth_error a j with
              | Some nd => Some (if j =? q then kill T nd
                                 else if (match nth_error l (S p) with Some r => j =? r | None => false end) then set_lprev T (prev_of l p) nd
                                 else if (match prev_of l p with Some r => j =? r | None => false end) then set_lnext T (nth_error l (S p)) nd
                                 else nd)
              | None => None
              end) as NA.
    { intros j. unfold rem_arena. rewrite Hq. rewrite upd_opt_spec.
      assert (forall r, nth_error l (S p) = Some r -> r <> q) as D1.
      { intros r Hr ->. assert (S p = p) by (eapply NoDup_nth_inj; eauto). lia. }
      assert (forall r, prev_of l p = Some r -> r <> q) as D2.
      { intros r Hr ->. unfold prev_of in Hr. destruct (Nat.eqb_spec p 0); [discriminate|].
        assert (p - 1 = p) by (eapply NoDup_nth_inj; eauto). lia. }
      assert (forall r, nth_error l (S p) = Some r -> prev_of l p = Some r -> False) as D3.
      { intros r H1 H2. unfold prev_of in H2. destruct (Nat.eqb_spec p 0); [discriminate|].
        assert (S p = p - 1) by (eapply NoDup_nth_inj; eauto). lia. }
      destruct (nth_error l (S p)) as [r1|] eqn:E1; destruct (prev_of l p) as [r2|] eqn:E2;
        repeat rewrite upd_opt_spec.
      - specialize (D1 r1 eq_refl). specialize (D2 r2 eq_refl). assert (r1 <> r2) by (intros ->; eapply D3; eauto).
        destruct (Nat.eqb_spec j q) as [->|Hjq].
        + destruct (Nat.eqb_spec q r1); [congruence|]. destruct (Nat.eqb_spec q r2); [congruence|]. rewrite Hnq. reflexivity.
        + destruct (Nat.eqb_spec j r1) as [->|H1].
          * destruct (Nat.eqb_spec r1 r2); [contradiction|]. destruct (nth_error a r1); reflexivity.
          * destruct (Nat.eqb_spec j r2) as [->|H2]; [destruct (nth_error a r2); reflexivity|destruct (nth_error a j); reflexivity].
      - specialize (D1 r1 eq_refl).
        destruct (Nat.eqb_spec j q) as [->|Hjq].
        + destruct (Nat.eqb_spec q r1); [congruence|]. rewrite Hnq. reflexivity.
        + destruct (Nat.eqb_spec j r1) as [->|H1]; [destruct (nth_error a r1); reflexivity|destruct (nth_error a j); reflexivity].
      - specialize (D2 r2 eq_refl).
        destruct (Nat.eqb_spec j q) as [->|Hjq].
        + destruct (Nat.eqb_spec q r2); [congruence|]. rewrite Hnq. reflexivity.
        + destruct (Nat.eqb_spec j r2) as [->|H2]; [destruct (nth_error a r2); reflexivity|destruct (nth_error a j); reflexivity].
      - destruct (Nat.eqb_spec j q) as [->|Hjq]; [rewrite Hnq; reflexivity|]. destruct (nth_error a j); reflexivity. }
    assert (forall j, j <> q -> val_at (rem_arena a l p) j = val_at a j) as VA.
    { intros j Hj. unfold Model.val_at. rewrite NA. destruct (nth_error a j); [|reflexivity].
      destruct (Nat.eqb_spec j q); [contradiction|].
      destruct (match nth_error l (S p) with Some r => j =? r | None => false end); [reflexivity|].
      destruct (match prev_of l p with Some r => j =? r | None => false end); reflexivity. }
    split; [|split; [|exact VA]].
    - apply wf_intro.
      + unfold rem_list. rewrite <- (firstn_skipn p l) in ND.
        assert (skipn p l = q :: skipn (S p) l) as E.
        { apply nth_error_ext; intro j. rewrite nthe_cons, !nthe_skipn.
          destruct (Nat.eqb_spec j 0); [subst; rewrite Nat.add_0_r; assumption|f_equal; lia]. }
        rewrite E in ND. eapply NoDup_remove_1; eauto.
      + rewrite nthe_rem_list by assumption. destruct (Nat.eqb_spec p 0).
        * subst p. reflexivity.
        * destruct (Nat.ltb_spec 0 p); [assumption|lia].
      + pose proof (rem_list_length l p Hp) as LL.
        destruct (Nat.eqb_spec (length (rem_list l p)) 0) as [Ez|Ez].
        * assert (length l = 1) by lia. assert (p = 0) by lia. subst p. rewrite H. cbn [Nat.eqb]. reflexivity.
        * rewrite nthe_rem_list by assumption.
          destruct (Nat.eqb_spec (S p) (length l)).
          { destruct (Nat.ltb_spec (length (rem_list l p) - 1) p); [|lia].
            unfold prev_of. destruct (Nat.eqb_spec p 0); [lia|]. f_equal. lia. }
          { destruct (Nat.ltb_spec (length (rem_list l p) - 1) p); [lia|].
            rewrite B. destruct (Nat.eqb_spec (length l) 0); [lia|]. f_equal. lia. }
      + intros k j Hk. rewrite nthe_rem_list in Hk by assumption. unfold Model.node_ok.
        rewrite NA. rewrite !nthe_rem_list by assumption.
        destruct (Nat.ltb_spec k p).
        * destruct (P k j Hk) as (nd & Hn & An & Pn & Nn). rewrite Hn.
          destruct (Nat.eqb_spec j q); [subst j; assert (k = p) by (eapply NoDup_nth_inj; eauto); lia|].
          assert ((match nth_error l (S p) with Some r => j =? r | None => false end) = false) as ->.
          { destruct (nth_error l (S p)) as [r|] eqn:E; [|reflexivity]. destruct (Nat.eqb_spec j r); [|reflexivity].
            subst r. assert (k = S p) by (eapply NoDup_nth_inj; eauto). lia. }
          assert ((match prev_of l p with Some r => j =? r | None => false end) = (S k =? p)) as ->.
          { unfold prev_of. destruct (Nat.eqb_spec p 0); [lia|].
            destruct (nth_error l (p - 1)) as [r|] eqn:E; [|apply nth_error_None in E; lia].
            destruct (Nat.eqb_spec j r).
            - subst r. assert (k = p - 1) by (eapply NoDup_nth_inj; eauto). destruct (Nat.eqb_spec (S k) p); [reflexivity|lia].
            - destruct (Nat.eqb_spec (S k) p); [|reflexivity]. assert (k = p - 1) by lia. subst k. congruence. }
          eexists; split; [reflexivity|].
          destruct (Nat.eqb_spec (S k) p).
          { split; [assumption|]. split.
            - cbn [Model.lprev Model.set_lnext]. rewrite Pn. destruct (Nat.eqb_spec k 0); [reflexivity|]. destruct (Nat.ltb_spec (k - 1) p); [reflexivity|lia].
            - cbn [Model.lnext Model.set_lnext]. destruct (Nat.ltb_spec (S k) p); [lia|]. f_equal. lia. }
          { split; [assumption|]. split.
            - rewrite Pn. destruct (Nat.eqb_spec k 0); [reflexivity|]. destruct (Nat.ltb_spec (k - 1) p); [reflexivity|lia].
            - rewrite Nn. destruct (Nat.ltb_spec (S k) p); [reflexivity|lia]. }
        * destruct (P (S k) j Hk) as (nd & Hn & An & Pn & Nn). rewrite Hn.
          destruct (Nat.eqb_spec j q); [subst j; assert (S k = p) by (eapply NoDup_nth_inj; eauto); lia|].
          assert ((match nth_error l (S p) with Some r => j =? r | None => false end) = (k =? p)) as ->.
          { destruct (nth_error l (S p)) as [r|] eqn:E.
            - destruct (Nat.eqb_spec j r).
              + subst r. assert (S k = S p) by (eapply NoDup_nth_inj; eauto). destruct (Nat.eqb_spec k p); [reflexivity|lia].
              + destruct (Nat.eqb_spec k p); [|reflexivity]. subst k. congruence.
            - apply nth_error_None in E. apply nth_error_Some_lt in Hk. destruct (Nat.eqb_spec k p); [lia|reflexivity]. }
          assert ((match prev_of l p with Some r => j =? r | None => false end) = false) as E2.
          { unfold prev_of. destruct (Nat.eqb_spec p 0); [reflexivity|].
            destruct (nth_error l (p - 1)) as [r|] eqn:E; [|reflexivity]. destruct (Nat.eqb_spec j r); [|reflexivity].
            subst r. assert (S k = p - 1) by (eapply NoDup_nth_inj; eauto). lia. }
          eexists; split; [reflexivity|].
          destruct (Nat.eqb_spec k p).
          { split; [assumption|]. split.
            - cbn [Model.lprev Model.set_lprev]. subst k. unfold prev_of. destruct (Nat.eqb_spec p 0); [reflexivity|].
              destruct (Nat.ltb_spec (p - 1) p); [reflexivity|lia].
            - cbn [Model.lnext Model.set_lprev]. rewrite Nn. destruct (Nat.ltb_spec (S k) p); [lia|reflexivity]. }
          { rewrite E2. split; [assumption|]. split.
            - rewrite Pn. cbn [Nat.eqb]. destruct (Nat.eqb_spec k 0); [lia|]. destruct (Nat.ltb_spec (k - 1) p); [lia|].
              f_equal. lia.
            - rewrite Nn. destruct (Nat.ltb_spec (S k) p); [lia|reflexivity]. }
    - apply nth_error_ext; intro k. unfold l_remove.
      rewrite nthe_vals, nthe_rem_list, nthe_app, nthe_firstn, firstn_length, vals_length, nthe_skipn, !nthe_vals by assumption.
      replace (Nat.min p (length l)) with p by lia.
      destruct (Nat.ltb_spec k p).
      + destruct (nth_error l k) as [j|] eqn:E; [|reflexivity]. cbn [option_map]. rewrite VA; [reflexivity|].
        intros ->. assert (k = p) by (eapply NoDup_nth_inj; eauto). lia.
      + replace (S p + (k - p)) with (S k) by lia.
        destruct (nth_error l (S k)) as [j|] eqn:E; [|reflexivity]. cbn [option_map]. rewrite VA; [reflexivity|].
        intros ->. assert (S k = p) by (eapply NoDup_nth_inj; eauto). lia.
  Qed.

  (* ---- glue between the code's optional pointer updates and [upd_opt] *)
  Lemma lupd_opt : forall (o : option nat) f a,
    (forall j, o = Some j -> exists nd, nth_error a j = Some nd /\ lalive nd = true) ->
    (match o with Some j => lupd T j f a | None => Ok a end) = Ok (upd_opt o f a).
  Proof.
    intros [j|] f a H; [|reflexivity]. destruct (H j eq_refl) as (nd & A & B). apply (lupd_upd_opt a j nd f A B).
  Qed.

  Lemma alive_after : forall o f a j nd, nth_error a j = Some nd -> lalive nd = true ->
    (forall x, lalive (f x) = lalive x) ->
    exists nd', nth_error (upd_opt o f a) j = Some nd' /\ lalive nd' = true.
  Proof.
    intros o f a j nd H A F. rewrite upd_opt_spec. destruct o as [q|]; [|eauto].
    destruct (Nat.eqb_spec j q); [subst; rewrite H; cbn; eexists; split; [reflexivity|rewrite F; assumption]|eauto].
  Qed.

  Lemma opt_eqb_spec : forall a b, opt_eqb a b = true <-> a = b.
  Proof.
    intros [x|] [y|]; cbn; split; intros H; try discriminate; try reflexivity.
    - apply Nat.eqb_eq in H. subst. reflexivity.
    - inversion H. apply Nat.eqb_refl.
  Qed.

  (* ---- find *)
  Lemma dl_find_loop_ok : forall d l v, dl_wf d l -> forall n k fuel, length l - k = n -> n < fuel ->
    dl_find_loop T teqb fuel (larena d) (nth_error l k) v =
      Ok (match l_index T teqb v (vals (larena d) (skipn k l)) with Some m => nth_error l (k + m) | None => None end).
  Proof.
    intros d l v W. induction n; intros k fuel Hk Hf; (destruct fuel; [lia|]); cbn [dl_find_loop].
    - rewrite (nthe_beyond _ l k) by lia. rewrite skipn_all2 by lia. reflexivity.
    - destruct (nth_error l k) as [i|] eqn:E; [|apply nth_error_None in E; lia].
      destruct (wf_node _ _ _ _ W E) as (nd & A & B & _ & D).
      rewrite (lget_alive _ _ _ A B). cbn [rbind].
      assert (skipn k l = i :: skipn (S k) l) as ->.
      { apply nth_error_ext; intro j. rewrite nthe_cons, !nthe_skipn.
        destruct (Nat.eqb_spec j 0); [subst; rewrite Nat.add_0_r; assumption|f_equal; lia]. }
      cbn [Model.vals map l_index]. unfold Model.val_at at 1. rewrite A.
      destruct (teqb (lval nd) v).
      + rewrite Nat.add_0_r, E. reflexivity.
      + rewrite D. rewrite (IHn (S k) fuel) by lia. fold (vals (larena d) (skipn (S k) l)).
        destruct (l_index T teqb v (vals (larena d) (skipn (S k) l))); cbn [option_map]; [|reflexivity].
        do 2 f_equal. lia.
  Qed.

  Lemma dl_find_ok : forall d l v, dl_wf d l ->
    dl_find T teqb v d = Ok (match l_index T teqb v (vals (larena d) l) with Some m => nth_error l m | None => None end).
  Proof.
    intros d l v W. unfold dl_find. pose proof (wf_len _ _ W). pose proof W as (_ & F & _). rewrite F.
    rewrite (dl_find_loop_ok d l v W (length l) 0) by lia. reflexivity.
  Qed.

  Lemma l_index_some : forall v (xs : list T) m, l_index T teqb v xs = Some m -> m < length xs.
  Proof. intros. eapply l_index_lt; eauto. Qed.

  (* ---- pushback / insert in the middle / popfront / popback / erase through the generic lemmas *)
  Lemma dl_pushback_ok : forall x d l, dl_wf d l ->
    exists d', dl_pushback T x d = Ok d' /\ dl_wf d' (l ++ [length (larena d)]) /\
               vals (larena d') (l ++ [length (larena d)]) = vals (larena d) l ++ [x] /\
               lback d' = Some (length (larena d)) /\ val_at (larena d') (length (larena d)) = x.
  Proof.
    intros x [a fr bk] l W. pose proof W as (ND & F & B & P). cbn [Model.larena Model.lfront Model.lback] in *.
    destruct (ins_wf a fr bk l (length l) x W (le_n _)) as (W' & V' & VI). cbn zeta in *.
    unfold dl_pushback; cbn [Model.larena Model.lfront Model.lback].
    assert (nth_error l (length l) = None) as EN by (apply nthe_beyond; lia).
    assert (prev_of l (length l) = bk) as EP by (unfold prev_of; rewrite B; reflexivity).
    assert (ins_arena a l (length l) x = upd_opt bk (set_lnext T (Some (length a))) (a ++ [mklnode T bk None x true])) as EA.
    { unfold ins_arena. rewrite EN, EP. reflexivity. }
    rewrite (lupd_opt bk (set_lnext T (Some (length a))) (a ++ [mklnode T bk None x true])).
    2:{ intros j Hj. rewrite B in Hj. destruct (Nat.eqb_spec (length l) 0); [discriminate|].
        destruct (P _ _ Hj) as (nd & A1 & A2 & _). exists nd. split; [|assumption].
        rewrite nthe_snoc. destruct (Nat.ltb_spec j (length a)); [assumption|]. apply nth_error_Some_lt in A1. lia. }
    cbn [rbind]. rewrite <- EA.
    assert (ins_list l (length l) (length a) = l ++ [length a]) as EL.
    { unfold ins_list. rewrite firstn_all, skipn_all. reflexivity. }
    rewrite EL in *. rewrite Nat.eqb_refl in W'.
    assert ((match fr with Some n => Some n | None => Some (length a) end) = (if length l =? 0 then Some (length a) else fr)) as EF.
    { rewrite F. destruct l; [reflexivity|]. reflexivity. }
    rewrite EF. eexists; split; [reflexivity|]. split; [exact W'|]. split; [|split; [reflexivity|exact VI]].
    cbn [Model.larena]. rewrite V'. unfold l_insert. rewrite <- (vals_length a l), firstn_all, skipn_all. reflexivity.
  Qed.

  Lemma dl_insert_mid_ok : forall x d l pos q, dl_wf d l -> nth_error l pos = Some q -> 0 < pos ->
    exists d', dl_insert T (Some q) x d = Ok (d', Some (length (larena d))) /\
               dl_wf d' (ins_list l pos (length (larena d))) /\
               vals (larena d') (ins_list l pos (length (larena d))) = l_insert T pos x (vals (larena d) l) /\
               val_at (larena d') (length (larena d)) = x /\
               (exists nd, nth_error (larena d') (length (larena d)) = Some nd /\ lalive nd = true).
  Proof.
    intros x [a fr bk] l pos q W Hq Hpos. pose proof W as (ND & F & B & P). cbn [Model.larena Model.lfront Model.lback] in *.
    pose proof (nth_error_Some_lt _ _ _ _ Hq) as Lp.
    destruct (ins_wf a fr bk l pos x W ltac:(lia)) as (W' & V' & VI). cbn zeta in *.
    unfold dl_insert; cbn [Model.larena Model.lfront Model.lback].
    assert (opt_eqb (Some q) fr = false) as ->.
    { destruct (opt_eqb (Some q) fr) eqn:E; [|reflexivity]. apply opt_eqb_spec in E. rewrite F in E.
      assert (pos = 0) by (eapply NoDup_nth_inj; eauto). lia. }
    destruct (P pos q Hq) as (pn & Hpn & Apn & Ppn & Npn).
    rewrite (lget_alive _ _ _ Hpn Apn). cbn [rbind].
    destruct (Nat.eqb_spec pos 0); [lia|].
    destruct (nth_error l (pos - 1)) as [r|] eqn:Er; [|apply nth_error_None in Er; lia].
    rewrite Ppn.
    assert (prev_of l pos = Some r) as EP by (unfold prev_of; destruct (Nat.eqb_spec pos 0); [lia|assumption]).
    set (a0 := a ++ [mklnode T (Some r) (Some q) x true]).
    destruct (P (pos - 1) r Er) as (rn & Hrn & Arn & _).
    assert (nth_error a0 r = Some rn) as Hrn0.
    { unfold a0. rewrite nthe_snoc. destruct (Nat.ltb_spec r (length a)); [assumption|]. apply nth_error_Some_lt in Hrn. lia. }
    rewrite (lupd_upd_opt a0 r rn _ Hrn0 Arn). cbn [rbind].
    assert (nth_error a0 q = Some pn) as Hpn0.
    { unfold a0. rewrite nthe_snoc. destruct (Nat.ltb_spec q (length a)); [assumption|]. apply nth_error_Some_lt in Hpn. lia. }
    destruct (alive_after (Some r) (set_lnext T (Some (length a))) a0 q pn Hpn0 Apn ltac:(reflexivity)) as (pn' & Hpn' & Apn').
    rewrite (lupd_upd_opt _ q pn' _ Hpn' Apn'). cbn [rbind].
    assert (ins_arena a l pos x = upd_opt (Some q) (set_lprev T (Some (length a))) (upd_opt (Some r) (set_lnext T (Some (length a))) a0)) as EA.
    { unfold ins_arena. rewrite Hq, EP. reflexivity. }
    rewrite <- EA.
    destruct (Nat.eqb_spec pos (length l)); [lia|].
    eexists; split; [reflexivity|]. split; [exact W'|]. split; [exact V'|]. split; [exact VI|].
    destruct W' as (_ & _ & _ & P'). cbn [Model.larena] in P'.
    assert (nth_error (ins_list l pos (length a)) pos = Some (length a)) as Hi.
    { rewrite nthe_ins_list by lia. rewrite Nat.ltb_irrefl, Nat.eqb_refl. reflexivity. }
    destruct (P' _ _ Hi) as (nd & A1 & A2 & _). eauto.
  Qed.

  Lemma dl_remove_at_ok : forall d l pos q, dl_wf d l -> nth_error l pos = Some q ->
    exists d' nd, nth_error (larena d) q = Some nd /\
      dl_erase T (Some q) d = Ok (d', nth_error l (S pos)) /\
      dl_wf d' (rem_list l pos) /\
      vals (larena d') (rem_list l pos) = l_remove T pos (vals (larena d) l) /\
      (forall j, j <> q -> val_at (larena d') j = val_at (larena d) j) /\
      larena d' = rem_arena (larena d) l pos /\
      lfront d' = (if pos =? 0 then nth_error l 1 else lfront d) /\
      lback d' = (if S pos =? length l then prev_of l pos else lback d).
  Proof.
    intros [a fr bk] l pos q W Hq. pose proof W as (ND & F & B & P). cbn [Model.larena Model.lfront Model.lback] in *.
    pose proof (nth_error_Some_lt _ _ _ _ Hq) as Lp.
    destruct (rem_wf a fr bk l pos q W Hq) as (W' & V' & VA).
    destruct (P pos q Hq) as (nd & Hn & An & Pn & Nn).
    unfold dl_erase; cbn [Model.larena Model.lfront Model.lback].
    rewrite (lget_alive _ _ _ Hn An). cbn [rbind].
    assert (lprev nd = prev_of l pos) as EP by (rewrite Pn; reflexivity).
    rewrite (lupd_opt (lprev nd) (set_lnext T (lnext nd)) a).
    2:{ intros j Hj. rewrite EP in Hj. unfold prev_of in Hj. destruct (Nat.eqb_spec pos 0); [discriminate|].
        destruct (P _ _ Hj) as (x & A1 & A2 & _). eauto. }
    cbn [rbind].
    rewrite (lupd_opt (lnext nd) (set_lprev T (lprev nd)) (upd_opt (lprev nd) (set_lnext T (lnext nd)) a)).
    2:{ intros j Hj. rewrite Nn in Hj. destruct (P _ _ Hj) as (x & A1 & A2 & _).
        apply (alive_after (lprev nd) _ a j x A1 A2). reflexivity. }
    cbn [rbind].
    destruct (alive_after (lprev nd) (set_lnext T (lnext nd)) a q nd Hn An ltac:(reflexivity)) as (n1 & H1 & A1).
    destruct (alive_after (lnext nd) (set_lprev T (lprev nd)) _ q n1 H1 A1 ltac:(reflexivity)) as (n2 & H2 & A2).
    rewrite (lupd_upd_opt _ q n2 _ H2 A2). cbn [rbind].
    assert (rem_arena a l pos = upd_opt (Some q) (kill T) (upd_opt (lnext nd) (set_lprev T (lprev nd)) (upd_opt (lprev nd) (set_lnext T (lnext nd)) a))) as EA.
    { unfold rem_arena. rewrite Hq, EP, Nn. reflexivity. }
    rewrite <- EA.
    assert ((if opt_eqb (Some q) fr then lnext nd else fr) = (if pos =? 0 then nth_error l 1 else fr)) as EF.
    { destruct (Nat.eqb_spec pos 0).
      - subst pos. rewrite F, Hq. cbn [opt_eqb]. rewrite Nat.eqb_refl. exact Nn.
      - destruct (opt_eqb (Some q) fr) eqn:E; [|reflexivity]. apply opt_eqb_spec in E. rewrite F in E.
        assert (pos = 0) by (eapply NoDup_nth_inj; eauto). lia. }
    assert ((if opt_eqb (Some q) bk then lprev nd else bk) = (if S pos =? length l then prev_of l pos else bk)) as EB.
    { rewrite B. destruct (Nat.eqb_spec (length l) 0); [lia|]. destruct (Nat.eqb_spec (S pos) (length l)).
      - replace (length l - 1) with pos by lia. rewrite Hq. cbn [opt_eqb]. rewrite Nat.eqb_refl. exact EP.
      - destruct (opt_eqb (Some q) (nth_error l (length l - 1))) eqn:E; [|reflexivity]. apply opt_eqb_spec in E.
        assert (pos = length l - 1) by (eapply NoDup_nth_inj; eauto). lia. }
    rewrite EF, EB, Nn. exists (mkdl T (rem_arena a l pos) (if pos =? 0 then nth_error l 1 else fr) (if S pos =? length l then prev_of l pos else bk)), nd.
    cbn [Model.larena Model.lfront Model.lback]. repeat split; try assumption; try reflexivity; apply W'.
  Qed.

  (* ---- popfront / popback *)
  Lemma dl_popfront_ok : forall d l f, dl_wf d l -> nth_error l 0 = Some f ->
    exists d', dl_popfront T d = Ok (d', val_at (larena d) f) /\ dl_wf d' (rem_list l 0) /\
               vals (larena d') (rem_list l 0) = l_remove T 0 (vals (larena d) l).
  Proof.
    intros [a fr bk] l f W Hf. pose proof W as (ND & F & B & P). cbn [Model.larena Model.lfront Model.lback] in *.
    pose proof (nth_error_Some_lt _ _ _ _ Hf) as Lp.
    destruct (rem_wf a fr bk l 0 f W Hf) as (W' & V' & VA).
    destruct (P 0 f Hf) as (nd & Hn & An & Pn & Nn).
    unfold dl_popfront; cbn [Model.larena Model.lfront Model.lback]. rewrite F, Hf.
    rewrite (lget_alive _ _ _ Hn An). cbn [rbind].
    rewrite (lupd_opt (lnext nd) (set_lprev T None) a).
    2:{ intros j Hj. rewrite Nn in Hj. destruct (P _ _ Hj) as (x & A1 & A2 & _). eauto. }
    cbn [rbind].
    destruct (alive_after (lnext nd) (set_lprev T None) a f nd Hn An ltac:(reflexivity)) as (n1 & H1 & A1).
    rewrite (lupd_upd_opt _ f n1 _ H1 A1). cbn [rbind].
    assert (rem_arena a l 0 = upd_opt (Some f) (kill T) (upd_opt (lnext nd) (set_lprev T None) a)) as EA.
    { unfold rem_arena. rewrite Hf, Nn. reflexivity. }
    rewrite <- EA. cbn [Nat.eqb] in W'.
    assert ((if opt_eqb bk (Some f) then None else bk) = (if 1 =? length l then prev_of l 0 else bk)) as EB.
    { rewrite B. destruct (Nat.eqb_spec (length l) 0); [lia|]. destruct (Nat.eqb_spec 1 (length l)).
      - rewrite <- e. cbn [Nat.sub]. rewrite Hf. cbn [opt_eqb]. rewrite Nat.eqb_refl. reflexivity.
      - destruct (opt_eqb (nth_error l (length l - 1)) (Some f)) eqn:E; [|reflexivity]. apply opt_eqb_spec in E.
        assert (length l - 1 = 0) by (eapply NoDup_nth_inj; eauto). lia. }
    rewrite EB, Nn. unfold Model.val_at. rewrite Hn.
    eexists; split; [reflexivity|]. split; [exact W'|exact V'].
  Qed.

  Lemma dl_popback_ok : forall d l b, dl_wf d l -> nth_error l (length l - 1) = Some b ->
    exists d', dl_popback T d = Ok (d', val_at (larena d) b) /\ dl_wf d' (rem_list l (length l - 1)) /\
               vals (larena d') (rem_list l (length l - 1)) = l_remove T (length l - 1) (vals (larena d) l).
  Proof.
    intros [a fr bk] l b W Hb. pose proof W as (ND & F & B & P). cbn [Model.larena Model.lfront Model.lback] in *.
    pose proof (nth_error_Some_lt _ _ _ _ Hb) as Lp.
    destruct (rem_wf a fr bk l (length l - 1) b W Hb) as (W' & V' & VA).
    destruct (P _ b Hb) as (nd & Hn & An & Pn & Nn).
    unfold dl_popback; cbn [Model.larena Model.lfront Model.lback]. rewrite B.
    destruct (Nat.eqb_spec (length l) 0); [lia|]. rewrite Hb.
    rewrite (lget_alive _ _ _ Hn An). cbn [rbind].
    assert (lprev nd = prev_of l (length l - 1)) as EP by (rewrite Pn; reflexivity).
    rewrite (lupd_opt (lprev nd) (set_lnext T None) a).
    2:{ intros j Hj. rewrite EP in Hj. unfold prev_of in Hj. destruct (Nat.eqb_spec (length l - 1) 0); [discriminate|].
        destruct (P _ _ Hj) as (x & A1 & A2 & _). eauto. }
    cbn [rbind].
    destruct (alive_after (lprev nd) (set_lnext T None) a b nd Hn An ltac:(reflexivity)) as (n1 & H1 & A1).
    rewrite (lupd_upd_opt _ b n1 _ H1 A1). cbn [rbind].
    assert (nth_error l (S (length l - 1)) = None) as EN by (apply nthe_beyond; lia).
    assert (rem_arena a l (length l - 1) = upd_opt (Some b) (kill T) (upd_opt (lprev nd) (set_lnext T None) a)) as EA.
    { unfold rem_arena. rewrite Hb, EN, EP. reflexivity. }
    rewrite <- EA.
    replace (S (length l - 1) =? length l) with true in W' by (symmetry; apply Nat.eqb_eq; lia).
    assert ((if opt_eqb fr (Some b) then None else fr) = (if length l - 1 =? 0 then nth_error l 1 else fr)) as EF.
    { rewrite F. destruct (Nat.eqb_spec (length l - 1) 0).
      - rewrite e in Hb. rewrite Hb. cbn [opt_eqb]. rewrite Nat.eqb_refl. symmetry. apply nthe_beyond. lia.
      - destruct (opt_eqb (nth_error l 0) (Some b)) eqn:E; [|reflexivity]. apply opt_eqb_spec in E.
        assert (0 = length l - 1) by (eapply NoDup_nth_inj; eauto). lia. }
    rewrite EF, EP. unfold Model.val_at. rewrite Hn.
    eexists; split; [reflexivity|]. split; [exact W'|exact V'].
  Qed.

  (* ---- clear *)
  Lemma dl_clear_loop_ok : forall d l, dl_wf d l -> forall n k fuel a',
    length l - k = n -> n < fuel ->
    (forall m j, k <= m -> nth_error l m = Some j -> nth_error a' j = nth_error (larena d) j) ->
    exists a'', dl_clear_loop T fuel a' (nth_error l k) = Ok a''.
  Proof.
    intros d l W. induction n; intros k fuel a' Hk Hf AG; (destruct fuel; [lia|]); cbn [dl_clear_loop].
    - rewrite (nthe_beyond _ l k) by lia. eauto.
    - destruct (nth_error l k) as [i|] eqn:E; [|apply nth_error_None in E; lia].
      destruct (wf_node _ _ _ _ W E) as (nd & A & B & _ & D).
      assert (nth_error a' i = Some nd) as A' by (rewrite (AG k i (le_n _) E); assumption).
      rewrite (lget_alive _ _ _ A' B). cbn [rbind]. rewrite (lupd_alive _ _ _ _ A' B). cbn [rbind]. rewrite D.
      apply (IHn (S k) fuel); try lia.
      intros m j Hm Hj. rewrite nthe_upd by (eapply nth_error_Some_lt; eauto).
      destruct (Nat.eqb_spec j i).
      + subst j. destruct W as (ND & _). assert (m = k) by (eapply NoDup_nth_inj; eauto). lia.
      + apply (AG m j); [lia|assumption].
  Qed.

  (* ---- node positions (LFind) *)
  Lemma dl_walk_idx_ok : forall d l, dl_wf d l -> forall n k fuel, length l - k = n -> n < fuel ->
    dl_walk_idx T fuel (larena d) (nth_error l k) = Ok (skipn k l).
  Proof.
    intros d l W. induction n; intros k fuel Hk Hf; (destruct fuel; [lia|]); cbn [dl_walk_idx].
    - rewrite (nthe_beyond _ l k) by lia. rewrite skipn_all2 by lia. reflexivity.
    - destruct (nth_error l k) as [i|] eqn:E; [|apply nth_error_None in E; lia].
      destruct (wf_node _ _ _ _ W E) as (nd & A & B & _ & D).
      rewrite (lget_alive _ _ _ A B). cbn [rbind]. rewrite D. rewrite (IHn (S k) fuel) by lia. cbn [rbind].
      f_equal. apply nth_error_ext; intro j. rewrite nthe_cons, !nthe_skipn.
      destruct (Nat.eqb_spec j 0); [subst; rewrite Nat.add_0_r; symmetry; assumption|f_equal; lia].
  Qed.

  Lemma pos_of_nth : forall (l : list nat) k q, NoDup l -> nth_error l k = Some q -> pos_of q l = Some k.
  Proof.
    induction l as [|a l IH]; intros k q ND H; [rewrite nthe_nil in H; discriminate|].
    inversion ND; subst. cbn [pos_of]. destruct k as [|k]; cbn in H.
    - inversion H; subst. rewrite Nat.eqb_refl. reflexivity.
    - destruct (Nat.eqb_spec q a); [subst; exfalso; apply H2; eapply nth_error_In; eauto|].
      rewrite (IH k q H3 H). reflexivity.
  Qed.

  (* ---- one step, and whole histories *)
  Theorem dl_step_refines : forall o d l, dl_wf d l ->
    match ll_step T teqb o (vals (larena d) l) with
    | Ok (l', r) => exists d' idx', dl_step T teqb o d = Ok (d', r) /\ dl_wf d' idx' /\ vals (larena d') idx' = l'
    | Trap t => dl_step T teqb o d = Trap t
    end.
  Proof.
    intros o d l W. destruct o; cbn [ll_step dl_step].
    - (* pushfront *)
      destruct (dl_pushfront_ok x d l W) as (d' & -> & W' & V' & _). cbn [rbind]. eauto.
    - (* pushback *)
      destruct (dl_pushback_ok x d l W) as (d' & -> & W' & V' & _). cbn [rbind]. eauto.
    - (* popfront *)
      destruct l as [|f tl].
      + cbn [Model.vals map]. unfold dl_popfront. destruct W as (_ & F & _). rewrite F. reflexivity.
      + destruct (dl_popfront_ok d (f :: tl) f W eq_refl) as (d' & -> & W' & V'). cbn [rbind fst snd Model.vals map].
        exists d', (rem_list (f :: tl) 0). split; [reflexivity|]. split; [assumption|]. rewrite V'. reflexivity.
    - (* popback *)
      rewrite vals_length, nthe_vals.
      destruct (nth_error l (length l - 1)) as [b|] eqn:E; cbn [option_map].
      + destruct (dl_popback_ok d l b W E) as (d' & -> & W' & V'). cbn [rbind fst snd].
        exists d', (rem_list l (length l - 1)). split; [reflexivity|]. split; [assumption|]. rewrite V'.
        unfold l_remove.
        assert (length l <> 0) by (intros Z; rewrite Z in E; cbn in E; destruct l; discriminate).
        replace (S (length l - 1)) with (length (vals (larena d) l)) by (rewrite vals_length; lia).
        rewrite skipn_all, app_nil_r. reflexivity.
      + unfold dl_popback. destruct W as (_ & _ & B & _). rewrite B.
        destruct (Nat.eqb_spec (length l) 0); [reflexivity|]. rewrite E. reflexivity.
    - (* insert before the first node holding v *)
      rewrite (dl_find_ok d l v W). cbn [rbind].
      destruct (l_index T teqb v (vals (larena d) l)) as [m|] eqn:EI.
      + pose proof (l_index_some _ _ _ EI) as Lm. rewrite vals_length in Lm.
        destruct (nth_error l m) as [q|] eqn:Eq; [|apply nth_error_None in Eq; lia].
        destruct m as [|m'].
        * (* at the front *)
          unfold dl_insert. destruct W as (ND & F & B & P). rewrite F, Eq. cbn [opt_eqb]. rewrite Nat.eqb_refl.
          assert (dl_wf d l) as W by (split; [assumption|split; [assumption|split; assumption]]).
          destruct (dl_pushfront_ok x d l W) as (d' & -> & W' & V' & VI & FR). cbn [rbind fst snd]. rewrite FR.
          destruct W' as (ND' & F' & B' & P'). destruct (P' 0 _ eq_refl) as (nd & A1 & A2 & _).
          rewrite (lget_alive _ _ _ A1 A2). cbn [rbind].
          assert (lval nd = x) as -> by (unfold Model.val_at in VI; rewrite A1 in VI; exact VI).
          exists d', (length (larena d) :: l). split; [reflexivity|].
          split; [split; [assumption|split; [assumption|split; assumption]]|]. rewrite V'. reflexivity.
        * destruct (dl_insert_mid_ok x d l (S m') q W Eq ltac:(lia)) as (d' & -> & W' & V' & VI & (nd & A1 & A2)).
          cbn [rbind fst snd]. rewrite (lget_alive _ _ _ A1 A2). cbn [rbind].
          assert (lval nd = x) as -> by (unfold Model.val_at in VI; rewrite A1 in VI; exact VI).
          eauto.
      + unfold dl_insert. destruct (dl_pushback_ok x d l W) as (d' & -> & W' & V' & BK & VI). cbn [rbind fst snd]. rewrite BK.
        pose proof W' as (ND' & F' & B' & P').
        assert (nth_error (l ++ [length (larena d)]) (length l) = Some (length (larena d))) as Hi.
        { rewrite nthe_app. destruct (Nat.ltb_spec (length l) (length l)); [lia|]. rewrite Nat.sub_diag. reflexivity. }
        destruct (P' _ _ Hi) as (nd & A1 & A2 & _).
        rewrite (lget_alive _ _ _ A1 A2). cbn [rbind].
        assert (lval nd = x) as -> by (unfold Model.val_at in VI; rewrite A1 in VI; exact VI).
        eauto.
    - (* erase the first node holding v *)
      rewrite (dl_find_ok d l v W). cbn [rbind].
      destruct (l_index T teqb v (vals (larena d) l)) as [m|] eqn:EI.
      + pose proof (l_index_some _ _ _ EI) as Lm. rewrite vals_length in Lm.
        destruct (nth_error l m) as [q|] eqn:Eq; [|apply nth_error_None in Eq; lia].
        destruct (dl_remove_at_ok d l m q W Eq) as (d' & nd & Hn & -> & W' & V' & VA & _). cbn [rbind fst snd].
        rewrite nthe_vals.
        destruct (nth_error l (S m)) as [n|] eqn:En; cbn [option_map].
        * pose proof W' as (ND' & F' & B' & P').
          assert (nth_error (rem_list l m) m = Some n) as Hi.
          { rewrite nthe_rem_list by lia. rewrite Nat.ltb_irrefl. assumption. }
          destruct (P' _ _ Hi) as (x & A1 & A2 & _). rewrite (lget_alive _ _ _ A1 A2). cbn [rbind].
          assert (lval x = val_at (larena d) n) as ->.
          { rewrite <- (VA n). - unfold Model.val_at. rewrite A1. reflexivity.
            - intros Hnq. subst n. destruct W as (ND & _). pose proof (NoDup_nth_inj l (S m) m q ND En Eq). lia. }
          exists d', (rem_list l m). split; [reflexivity|]. split; [assumption|]. exact V'.
        * exists d', (rem_list l m). split; [reflexivity|]. split; [assumption|]. exact V'.
      + eauto.
    - (* find *)
      rewrite (dl_find_ok d l v W). cbn [rbind].
      pose proof (wf_len _ _ W) as LL. pose proof W as (ND & F & _). rewrite F.
      rewrite (dl_walk_idx_ok d l W (length l) 0) by lia. cbn [rbind skipn].
      exists d, l. split; [|split; [assumption|reflexivity]]. do 3 f_equal.
      destruct (l_index T teqb v (vals (larena d) l)) as [m|] eqn:EI; [|reflexivity].
      pose proof (l_index_some _ _ _ EI) as Lm. rewrite vals_length in Lm.
      destruct (nth_error l m) as [q|] eqn:Eq; [|apply nth_error_None in Eq; lia].
      apply (pos_of_nth l m q ND Eq).
    - (* clear *)
      unfold dl_clear. pose proof (wf_len _ _ W) as LL. pose proof W as (ND & F & _). rewrite F.
      destruct (dl_clear_loop_ok d l W (length l) 0 (S (length (larena d))) (larena d) ltac:(lia) ltac:(lia) ltac:(reflexivity)) as (a'' & ->).
      cbn [rbind]. exists (mkdl T a'' None None), []. split; [reflexivity|]. split; [|reflexivity].
      apply wf_intro; [constructor|reflexivity|reflexivity|]. intros k i H. rewrite nthe_nil in H. discriminate.
    - (* empty *)
      exists d, l. split; [|split; [assumption|reflexivity]]. do 3 f_equal.
      unfold dl_isempty. destruct W as (_ & F & _). rewrite F. destruct l; reflexivity.
    - (* erase(nilptr) *)
      reflexivity.
    - (* destroy = clear *)
      unfold dl_clear. pose proof (wf_len _ _ W) as LL. pose proof W as (ND & F & _). rewrite F.
      destruct (dl_clear_loop_ok d l W (length l) 0 (S (length (larena d))) (larena d) ltac:(lia) ltac:(lia) ltac:(reflexivity)) as (a'' & ->).
      cbn [rbind]. exists (mkdl T a'' None None), []. split; [reflexivity|]. split; [|reflexivity].
      apply wf_intro; [constructor|reflexivity|reflexivity|]. intros k i H. rewrite nthe_nil in H. discriminate.
  Qed.

  Notation dl_run := (dl_run T teqb).
  Notation ll_run := (ll_run T teqb).

  Theorem dl_run_refines : forall ops d l, dl_wf d l ->
    match ll_run ops (vals (larena d) l) with
    | Ok (l', rs) => exists d' idx', dl_run ops d = Ok (d', rs) /\ dl_wf d' idx' /\ vals (larena d') idx' = l'
    | Trap t => dl_run ops d = Trap t
    end.
  Proof.
    induction ops as [|o tl IH]; intros d l W; cbn [Model.ll_run Model.dl_run].
    - eauto.
    - pose proof (dl_step_refines o d l W) as S.
      destruct (ll_step T teqb o (vals (larena d) l)) as [[l1 r1]|t]; cbn [rbind fst snd].
      + destruct S as (d1 & i1 & -> & W1 & C1). cbn [rbind fst snd]. subst l1.
        specialize (IH d1 i1 W1). destruct (ll_run tl (vals (larena d1) i1)) as [[l2 rs]|t]; cbn [rbind fst snd].
        * destruct IH as (d2 & i2 & -> & W2 & C2). cbn [rbind fst snd]. eauto.
        * rewrite IH. reflexivity.
      + rewrite S. reflexivity.
  Qed.

  (* destroy: every node is released and the list is, observably, a fresh one *)
  Lemma dl_destroy_fresh : forall d l, dl_wf d l ->
    exists d', dl_step T teqb (LDestroy T) d = Ok (d', LUnit T) /\ dl_wf d' [] /\ dl_contents T d' = Ok [].
  Proof.
    intros d l W. pose proof (dl_step_refines (LDestroy T) d l W) as S. cbn [ll_step] in S.
    destruct S as (d' & idx & E & W' & V). exists d'. split; [exact E|].
    assert (idx = []) as -> by (destruct idx; [reflexivity|discriminate]).
    split; [assumption|]. rewrite (dl_contents_ok d' [] W'). reflexivity.
  Qed.

  Lemma dl_empty_wf : dl_wf (dl_empty T) [] /\ vals (larena (dl_empty T)) [] = [].
  Proof.
    split; [|reflexivity]. apply wf_intro; [constructor|reflexivity|reflexivity|].
    intros k i H. rewrite nthe_nil in H. discriminate.
  Qed.

  (* what the public observer (pairs / #) shows is the abstract list *)
  Theorem dl_observed : forall d l, dl_wf d l -> dl_contents T d = Ok (vals (larena d) l).
  Proof. exact dl_contents_ok. Qed.
End DL.
