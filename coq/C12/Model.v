(* Property C12 - executable Gallina models of /repo/lib/{vector,sequence,hashmap,list,span,
   stringbuilder,hash}.nelua, one function per source function.  No proofs here.

   Conventions
   * containers' storage (span) is a [list]; capacity = its length; every element access goes
     through [sget]/[sset]/[smove]/[sfill], which return [Trap TrapMem] where the real code would
     hit span's bound check or touch memory outside the allocation - theorems prove that outcome
     unreachable on well-formed states;
   * documented precondition checks return their own [Trap] constructor;
   * loops are structural recursion on a counter, or use explicit fuel with [Trap TrapFuel]
     (proved unreachable);
   * sizes/indices are [nat] (exact arithmetic: a container whose size would wrap a usize cannot be
     allocated; see ASSUMPTIONS in checks/C12.py), except roundpow2 and the hash functions, which are
     usize arithmetic mod 2^64 on [Z]; rehash returns [Trap TrapOverflow] if roundpow2 wrapped;
   * growth constants come from Gen.v (scraped from /repo on every run). *)
From Coq Require Import ZArith List Bool Lia.
From C12 Require Import Gen.
Import ListNotations.

Inductive trap :=
| TrapPopEmpty      (* 'attempt to pop an empty vector/sequence' *)
| TrapPos           (* 'position out of bounds' *)
| TrapIndex         (* span 'index out of range' on a user supplied index *)
| TrapNoSpace       (* 'not enough space ...' (hashmap _at / stringbuilder commit, rollback) *)
| TrapInvalidKey    (* 'attempt to use next for an invalid key in hashmap' *)
| TrapListEmpty     (* 'list is empty' *)
| TrapNilNode       (* 'attempt to erase a nilptr node' *)
| TrapCapOverflow   (* 'capacity overflow' check in grow *)
| TrapOverflow      (* usize wrap in hashmap roundpow2 (model-level detection) *)
| TrapCompact       (* rehash's internal check(j == self.size) *)
| TrapMem           (* internal access outside the allocated storage: memory corruption *)
| TrapUnpack        (* 'unpack out of range' *)
| TrapOOM           (* panic 'out of memory': a refused (re)allocation in xspanrealloc / xspanalloc / new *)
| TrapFuel.         (* fuel exhausted: the real loop would not terminate *)

Inductive res (A : Type) :=
| Ok (a : A)
| Trap (t : trap).
Arguments Ok {A} a.
Arguments Trap {A} t.

Definition rbind {A B} (r : res A) (f : A -> res B) : res B :=
  match r with Ok a => f a | Trap t => Trap t end.
Notation "x <- r ;; k" := (rbind r (fun x => k)) (at level 61, r at next level, right associativity).

(* ------------------------------------------------------------------ storage primitives *)
Section Storage.
  Context {A : Type}.
  (* write the block xs at offset [at] (caller guarantees it fits) *)
  Definition overwrite (at_ : nat) (xs l : list A) : list A :=
    firstn at_ l ++ xs ++ skipn (at_ + length xs) l.
  (* span[i] read *)
  Definition sget (i : nat) (l : list A) : res A :=
    match nth_error l i with Some x => Ok x | None => Trap TrapMem end.
  (* span[i] = x *)
  Definition sset (i : nat) (x : A) (l : list A) : res (list A) :=
    if i <? length l then Ok (overwrite i [x] l) else Trap TrapMem.
  (* memory.move(&l[dst], &l[src], n): memmove, element by element - ascending when the destination is not above
     the source, descending otherwise, so that overlapping ranges are copied correctly *)
  Fixpoint mv_up (n dst src : nat) (l : list A) : res (list A) :=
    match n with
    | 0 => Ok l
    | S n' => e <- sget src l ;; l' <- sset dst e l ;; mv_up n' (S dst) (S src) l'
    end.
  Fixpoint mv_down (n dst src : nat) (l : list A) : res (list A) :=
    match n with
    | 0 => Ok l
    | S n' => e <- sget (src + n') l ;; l' <- sset (dst + n') e l ;; mv_down n' dst src l'
    end.
  Definition smove (dst src n : nat) (l : list A) : res (list A) :=
    if (dst + n <=? length l) && (src + n <=? length l)
    then (if dst <=? src then mv_up n dst src l else mv_down n dst src l) else Trap TrapMem.
  (* memory.set/zero(&l[at], n) *)
  Definition sfill (at_ n : nat) (x : A) (l : list A) : res (list A) :=
    if at_ + n <=? length l then Ok (overwrite at_ (repeat x n) l) else Trap TrapMem.
  (* xspanrealloc: keep the common prefix, new cells hold [junk] (unspecified in C; zero in realloc0) *)
  Definition srealloc (junk : A) (n : nat) (l : list A) : list A :=
    firstn n l ++ repeat junk (n - length l).
End Storage.

Definition VEC_INIT_CAP_n := Z.to_nat VEC_INIT_CAP.
Definition VEC_GROW_MUL_n := Z.to_nat VEC_GROW_MUL.
Definition SEQ_INIT_CAP_n := Z.to_nat SEQ_INIT_CAP.
Definition SEQ_GROW_MUL_n := Z.to_nat SEQ_GROW_MUL.
Definition SB_INIT_CAP_n := Z.to_nat SB_INIT_CAPACITY.
Definition SB_GROW_MUL_n := Z.to_nat SB_GROW_MUL.

(* ------------------------------------------------------------------ vector.nelua *)
Section Vector.
  Variable T : Type.
  Variable dflt : T.                 (* T(): the zero value *)
  Variable teqb : T -> T -> bool.    (* a == b *)

  Record vec := mkvec { vdata : list T; vsize : nat }.
  Definition vec_empty := mkvec [] 0.
  Definition vec_cap (v : vec) := length (vdata v).

  (* vectorT_grow *)
  Definition vec_grow (v : vec) : res vec :=
    let c := vec_cap v in
    let cap := if c =? 0 then VEC_INIT_CAP_n else c * VEC_GROW_MUL_n in
    if (negb (c =? 0)) && (cap <=? c) then Trap TrapCapOverflow
    else Ok (mkvec (srealloc dflt cap (vdata v)) (vsize v)).

  Definition vec_clear (v : vec) : vec := mkvec (vdata v) 0.

  Definition vec_reserve (n : nat) (v : vec) : vec :=
    if n <=? vec_cap v then v else mkvec (srealloc dflt n (vdata v)) (vsize v).

  Definition vec_resize (n : nat) (v : vec) : res vec :=
    let v1 := vec_reserve n v in
    d <- (if vsize v1 <? n then sfill (vsize v1) (n - vsize v1) dflt (vdata v1) else Ok (vdata v1)) ;;
    Ok (mkvec d n).

  Definition vec_copy (v : vec) : vec :=
    if 0 <? vsize v then mkvec (vdata v) (vsize v) else vec_empty.

  Definition vec_push (x : T) (v : vec) : res vec :=
    let newsize := S (vsize v) in
    v1 <- (if vec_cap v <? newsize then vec_grow v else Ok v) ;;
    d <- sset (vsize v) x (vdata v1) ;;
    Ok (mkvec d newsize).

  Definition vec_pop (v : vec) : res (vec * T) :=
    if vsize v =? 0 then Trap TrapPopEmpty else
    let s := vsize v - 1 in
    x <- sget s (vdata v) ;;
    Ok (mkvec (vdata v) s, x).

  Definition vec_insert (pos : nat) (x : T) (v : vec) : res vec :=
    if vsize v <? pos then Trap TrapPos else
    v1 <- (if vec_cap v <=? vsize v + 1 then vec_grow v else Ok v) ;;
    d1 <- (if pos <? vsize v then smove (pos + 1) pos (vsize v - pos) (vdata v1) else Ok (vdata v1)) ;;
    d2 <- sset pos x d1 ;;
    Ok (mkvec d2 (vsize v + 1)).

  Definition vec_remove (pos : nat) (v : vec) : res (vec * T) :=
    if vsize v <=? pos then Trap TrapPos else
    let s := vsize v - 1 in
    ret <- sget pos (vdata v) ;;
    d <- (if pos <? s then smove pos (pos + 1) (s - pos) (vdata v) else Ok (vdata v)) ;;
    Ok (mkvec d s, ret).

  (* the `for i=0,<size do if data[i] == v` scan; n = remaining iterations *)
  Fixpoint vec_scan (n i : nat) (x : T) (d : list T) : res (option nat) :=
    match n with
    | 0 => Ok None
    | S n' => e <- sget i d ;; if teqb e x then Ok (Some i) else vec_scan n' (S i) x d
    end.

  Definition vec_removevalue (x : T) (v : vec) : res (vec * bool) :=
    r <- vec_scan (vsize v) 0 x (vdata v) ;;
    match r with
    | None => Ok (v, false)
    | Some i => p <- vec_remove i v ;; Ok (fst p, true)
    end.

  Fixpoint vec_rif_loop (pred : T -> bool) (n i j : nat) (d : list T) : res (list T * nat) :=
    match n with
    | 0 => Ok (d, j)
    | S n' =>
        e <- sget i d ;;
        if pred e then vec_rif_loop pred n' (S i) j d
        else d' <- sset j e d ;; vec_rif_loop pred n' (S i) (S j) d'
    end.

  Definition vec_removeif (pred : T -> bool) (v : vec) : res vec :=
    r <- vec_rif_loop pred (vsize v) 0 0 (vdata v) ;;
    Ok (mkvec (fst r) (snd r)).

  (* v[pos] read / v[pos] = x  (both through __atindex) *)
  Definition vec_at (pos : nat) (v : vec) : res T :=
    if vsize v <=? pos then Trap TrapPos else sget pos (vdata v).
  Definition vec_assign (pos : nat) (x : T) (v : vec) : res vec :=
    if vsize v <=? pos then Trap TrapPos else d <- sset pos x (vdata v) ;; Ok (mkvec d (vsize v)).

  (* the `for i ... self.data[i] = values[i]` loops of __convert *)
  Fixpoint fill_from (i : nat) (xs : list T) (d : list T) : res (list T) :=
    match xs with
    | [] => Ok d
    | x :: tl => d' <- sset i x d ;; fill_from (S i) tl d'
    end.

  (* vectorT.__convert(values): a fresh vector holding the values (`local v: vector(T) = values`) *)
  Definition vec_convert (xs : list T) : res vec :=
    let v1 := vec_reserve (length xs) vec_empty in
    d <- fill_from 0 xs (vdata v1) ;;
    Ok (mkvec d (length xs)).

  (* destroy: storage freed, zeroed state *)
  Definition vec_destroy (v : vec) : vec := vec_empty.

  Definition vec_len (v : vec) := vsize v.
  (* what the public observers show: #v and v[0..#v-1] *)
  Definition vec_contents (v : vec) : list T := firstn (vsize v) (vdata v).
  (* ---- operations as data: one step of the driver, and the abstract specification on [list T] *)
  Inductive cop :=
  | OPush (x : T) | OPop | OInsert (pos : nat) (x : T) | ORemove (pos : nat) | ORemoveValue (x : T)
  | ORemoveIf (p : T -> bool) | OResize (n : nat) | OReserve (n : nat) | OClear | OCopy
  | OAt (pos : nat) | OAssign (pos : nat) (x : T)
  | ODestroy | OConvert (xs : list T)       (* v:destroy() ; v = (fresh container converted from xs) *)
  | OUnpack (i j : nat).                    (* sequence only: s:unpack(i, j); the identity on vectors *)
  Inductive cret := RUnit | RVal (x : T) | RBool (b : bool) | RVals (l : list T).

  Definition vec_step (o : cop) (v : vec) : res (vec * cret) :=
    match o with
    | OPush x => v' <- vec_push x v ;; Ok (v', RUnit)
    | OPop => p <- vec_pop v ;; Ok (fst p, RVal (snd p))
    | OInsert pos x => v' <- vec_insert pos x v ;; Ok (v', RUnit)
    | ORemove pos => p <- vec_remove pos v ;; Ok (fst p, RVal (snd p))
    | ORemoveValue x => p <- vec_removevalue x v ;; Ok (fst p, RBool (snd p))
    | ORemoveIf pr => v' <- vec_removeif pr v ;; Ok (v', RUnit)
    | OResize n => v' <- vec_resize n v ;; Ok (v', RUnit)
    | OReserve n => Ok (vec_reserve n v, RUnit)
    | OClear => Ok (vec_clear v, RUnit)
    | OCopy => Ok (vec_copy v, RUnit)
    | OAt pos => x <- vec_at pos v ;; Ok (v, RVal x)
    | OAssign pos x => v' <- vec_assign pos x v ;; Ok (v', RUnit)
    | ODestroy => Ok (vec_destroy v, RUnit)
    | OConvert xs => v' <- vec_convert xs ;; Ok (v', RUnit)
    | OUnpack _ _ => Ok (v, RUnit)
    end.

  (* index of the first element e with e == x *)
  Fixpoint l_index (x : T) (l : list T) : option nat :=
    match l with
    | [] => None
    | e :: tl => if teqb e x then Some 0 else option_map S (l_index x tl)
    end.
  Definition l_insert (pos : nat) (x : T) (l : list T) := firstn pos l ++ x :: skipn pos l.
  Definition l_remove (pos : nat) (l : list T) := firstn pos l ++ skipn (S pos) l.
  Definition l_assign (pos : nat) (x : T) (l : list T) := firstn pos l ++ x :: skipn (S pos) l.
  Definition l_resize (n : nat) (l : list T) := firstn n l ++ repeat dflt (n - length l).

  (* the mathematical list the vector implements (0-based positions) *)
  Definition lst_step (o : cop) (l : list T) : res (list T * cret) :=
    match o with
    | OPush x => Ok (l ++ [x], RUnit)
    | OPop => match nth_error l (length l - 1) with
              | Some x => Ok (firstn (length l - 1) l, RVal x)
              | None => Trap TrapPopEmpty end
    | OInsert pos x => if length l <? pos then Trap TrapPos else Ok (l_insert pos x l, RUnit)
    | ORemove pos => match nth_error l pos with
                     | Some x => Ok (l_remove pos l, RVal x)
                     | None => Trap TrapPos end
    | ORemoveValue x => match l_index x l with
                        | Some i => Ok (l_remove i l, RBool true)
                        | None => Ok (l, RBool false) end
    | ORemoveIf pr => Ok (filter (fun e => negb (pr e)) l, RUnit)
    | OResize n => Ok (l_resize n l, RUnit)
    | OReserve n => Ok (l, RUnit)
    | OClear => Ok ([], RUnit)
    | OCopy => Ok (l, RUnit)
    | OAt pos => match nth_error l pos with Some x => Ok (l, RVal x) | None => Trap TrapPos end
    | OAssign pos x => if pos <? length l then Ok (l_assign pos x l, RUnit) else Trap TrapPos
    | ODestroy => Ok ([], RUnit)
    | OConvert xs => Ok (xs, RUnit)
    | OUnpack _ _ => Ok (l, RUnit)
    end.
  (* ---- a refusing allocator.  [ok n] tells whether a request for n elements is granted.  vector only uses
     xspanrealloc / xspanalloc, which panic ('out of memory') on a refused request, before anything is changed. *)
  Definition vec_newcap (c : nat) : nat := if c =? 0 then VEC_INIT_CAP_n else c * VEC_GROW_MUL_n.
  Definition vec_grow_a (ok : nat -> bool) (v : vec) : res vec :=
    if ok (vec_newcap (vec_cap v)) then vec_grow v else Trap TrapOOM.
  Definition vec_reserve_a (ok : nat -> bool) (n : nat) (v : vec) : res vec :=
    if n <=? vec_cap v then Ok v else if ok n then Ok (vec_reserve n v) else Trap TrapOOM.
  Definition vec_resize_a (ok : nat -> bool) (n : nat) (v : vec) : res vec :=
    v1 <- vec_reserve_a ok n v ;;
    d <- (if vsize v1 <? n then sfill (vsize v1) (n - vsize v1) dflt (vdata v1) else Ok (vdata v1)) ;;
    Ok (mkvec d n).
  Definition vec_copy_a (ok : nat -> bool) (v : vec) : res vec :=
    if 0 <? vsize v then (if ok (vec_cap v) then Ok (vec_copy v) else Trap TrapOOM) else Ok vec_empty.
  Definition vec_push_a (ok : nat -> bool) (x : T) (v : vec) : res vec :=
    let newsize := S (vsize v) in
    v1 <- (if vec_cap v <? newsize then vec_grow_a ok v else Ok v) ;;
    d <- sset (vsize v) x (vdata v1) ;;
    Ok (mkvec d newsize).
  Definition vec_insert_a (ok : nat -> bool) (pos : nat) (x : T) (v : vec) : res vec :=
    if vsize v <? pos then Trap TrapPos else
    v1 <- (if vec_cap v <=? vsize v + 1 then vec_grow_a ok v else Ok v) ;;
    d1 <- (if pos <? vsize v then smove (pos + 1) pos (vsize v - pos) (vdata v1) else Ok (vdata v1)) ;;
    d2 <- sset pos x d1 ;;
    Ok (mkvec d2 (vsize v + 1)).
  Definition vec_convert_a (ok : nat -> bool) (xs : list T) : res vec :=
    v1 <- vec_reserve_a ok (length xs) vec_empty ;;
    d <- fill_from 0 xs (vdata v1) ;;
    Ok (mkvec d (length xs)).
  Definition vec_step_a (ok : nat -> bool) (o : cop) (v : vec) : res (vec * cret) :=
    match o with
    | OPush x => v' <- vec_push_a ok x v ;; Ok (v', RUnit)
    | OInsert pos x => v' <- vec_insert_a ok pos x v ;; Ok (v', RUnit)
    | OResize n => v' <- vec_resize_a ok n v ;; Ok (v', RUnit)
    | OReserve n => v' <- vec_reserve_a ok n v ;; Ok (v', RUnit)
    | OCopy => v' <- vec_copy_a ok v ;; Ok (v', RUnit)
    | OConvert xs => v' <- vec_convert_a ok xs ;; Ok (v', RUnit)
    | _ => vec_step o v
    end.
End Vector.

(* ------------------------------------------------------------------ sequence.nelua *)
Section Sequence.
  Variable T : Type.
  Variable dflt : T.
  Variable teqb : T -> T -> bool.

  (* impl == nilptr  <->  sinit = false *)
  Record seq := mkseq { sinit : bool; sdata : list T; ssize : nat }.
  Definition seq_empty := mkseq false [] 0.
  Definition seq_init (s : seq) : seq := if sinit s then s else mkseq true [] 0.
  Definition seq_capn (s : seq) := length (sdata s).

  (* sequenceT_grow *)
  Definition seq_grow (s : seq) : res seq :=
    let c := seq_capn s in
    let cap := if c =? 0 then SEQ_INIT_CAP_n else c * SEQ_GROW_MUL_n in
    if (negb (c =? 0)) && (cap <=? c) then Trap TrapCapOverflow else
    let d := srealloc dflt cap (sdata s) in
    d' <- (if c =? 0 then sset 0 dflt d else Ok d) ;;
    Ok (mkseq (sinit s) d' (ssize s)).

  Definition seq_clear (s : seq) : seq :=
    if sinit s then mkseq true (sdata s) 0 else s.

  Definition seq_reserve (n : nat) (s0 : seq) : res seq :=
    let s := seq_init s0 in
    let cap := n + 1 in
    let c := seq_capn s in
    if cap <=? c then Ok s else
    let d := srealloc dflt cap (sdata s) in
    d' <- (if c =? 0 then sset 0 dflt d else Ok d) ;;
    Ok (mkseq true d' (ssize s)).

  Definition seq_resize (n : nat) (s0 : seq) : res seq :=
    s <- seq_reserve n s0 ;;
    d <- (if ssize s <? n then sfill (ssize s + 1) (n - ssize s) dflt (sdata s) else Ok (sdata s)) ;;
    Ok (mkseq true d n).

  Definition seq_copy (s : seq) : seq :=
    if sinit s then mkseq true (sdata s) (ssize s) else seq_empty.

  Definition seq_push (x : T) (s0 : seq) : res seq :=
    let s := seq_init s0 in
    let sz := ssize s + 1 in
    s1 <- (if seq_capn s <=? sz + 1 then seq_grow (mkseq true (sdata s) sz) else Ok (mkseq true (sdata s) sz)) ;;
    d <- sset sz x (sdata s1) ;;
    Ok (mkseq true d sz).

  Definition seq_pop (s : seq) : res (seq * T) :=
    if negb (sinit s) || (ssize s =? 0) then Trap TrapPopEmpty else
    ret <- sget (ssize s) (sdata s) ;;
    Ok (mkseq true (sdata s) (ssize s - 1), ret).

  Definition seq_insert (pos : nat) (x : T) (s0 : seq) : res seq :=
    let s := seq_init s0 in
    if (pos =? 0) || (ssize s + 1 <? pos) then Trap TrapPos else
    s1 <- (if seq_capn s <=? ssize s + 2 then seq_grow s else Ok s) ;;
    let sz := ssize s + 1 in
    d1 <- (if pos <? sz then smove (pos + 1) pos (sz - pos) (sdata s1) else Ok (sdata s1)) ;;
    d2 <- sset pos x d1 ;;
    Ok (mkseq true d2 sz).

  (* repaired code: assert(impl ~= nilptr and pos > 0 and pos <= size) *)
  Definition seq_remove (pos : nat) (s : seq) : res (seq * T) :=
    if negb (sinit s) || (pos =? 0) || (ssize s <? pos) then Trap TrapPos else
    ret <- sget pos (sdata s) ;;
    d <- (if pos <? ssize s then smove pos (pos + 1) (ssize s - pos) (sdata s) else Ok (sdata s)) ;;
    Ok (mkseq true d (ssize s - 1), ret).

  Fixpoint seq_scan (n i : nat) (x : T) (d : list T) : res (option nat) :=
    match n with
    | 0 => Ok None
    | S n' => e <- sget i d ;; if teqb e x then Ok (Some i) else seq_scan n' (S i) x d
    end.

  Definition seq_removevalue (x : T) (s : seq) : res (seq * bool) :=
    if negb (sinit s) then Ok (s, false) else
    r <- seq_scan (ssize s) 1 x (sdata s) ;;
    match r with
    | None => Ok (s, false)
    | Some i => p <- seq_remove i s ;; Ok (fst p, true)
    end.

  Fixpoint seq_rif_loop (pred : T -> bool) (n i j : nat) (d : list T) : res (list T * nat) :=
    match n with
    | 0 => Ok (d, j)
    | S n' =>
        e <- sget i d ;;
        if pred e then seq_rif_loop pred n' (S i) j d
        else d' <- sset j e d ;; seq_rif_loop pred n' (S i) (S j) d'
    end.

  Definition seq_removeif (pred : T -> bool) (s : seq) : res seq :=
    if negb (sinit s) then Ok s else
    r <- seq_rif_loop pred (ssize s) 1 1 (sdata s) ;;
    Ok (mkseq true (fst r) (snd r - 1)).

  (* __atindex: returns the (possibly grown) sequence; the caller then reads or writes data[pos] *)
  Definition seq_atindex (pos : nat) (s0 : seq) : res seq :=
    let s := seq_init s0 in
    if ssize s <? pos then
      if negb (pos =? ssize s + 1) then Trap TrapPos else
      let sz := ssize s + 1 in
      s1 <- (if seq_capn s <? sz + 1 then seq_grow (mkseq true (sdata s) sz) else Ok (mkseq true (sdata s) sz)) ;;
      d <- sset pos dflt (sdata s1) ;;
      Ok (mkseq true d sz)
    else if (seq_capn s =? 0) && (pos =? 0) then seq_grow s
    else Ok s.

  Definition seq_get (pos : nat) (s0 : seq) : res (seq * T) :=
    s <- seq_atindex pos s0 ;; x <- sget pos (sdata s) ;; Ok (s, x).
  Definition seq_set (pos : nat) (x : T) (s0 : seq) : res seq :=
    s <- seq_atindex pos s0 ;; d <- sset pos x (sdata s) ;; Ok (mkseq (sinit s) d (ssize s)).

  (* sequenceT.__convert(values) *)
  Definition seq_convert (xs : list T) : res seq :=
    s1 <- seq_reserve (length xs) seq_empty ;;
    d <- fill_from T 1 xs (sdata s1) ;;
    Ok (mkseq true d (length xs)).

  Definition seq_destroy (s : seq) : seq := seq_empty.

  Definition seq_len (s : seq) := if sinit s then ssize s else 0.
  Definition seq_capacity (s : seq) := if negb (sinit s) || (seq_capn s =? 0) then 0 else seq_capn s - 1.
  (* observers: #s and s[1..#s] *)
  Definition seq_contents (s : seq) : list T := firstn (seq_len s) (skipn 1 (sdata s)).
  (* unpack(i, j): assert(i >= 1 and j <= #self and i <= j); then self[i], ..., self[j] through __atindex *)
  Fixpoint seq_unpack_loop (n k : nat) (s : seq) : res (seq * list T) :=
    match n with
    | 0 => Ok (s, [])
    | S n' => p <- seq_get k s ;; q <- seq_unpack_loop n' (S k) (fst p) ;; Ok (fst q, snd p :: snd q)
    end.
  Definition seq_unpack (i j : nat) (s : seq) : res (seq * list T) :=
    if (1 <=? i) && (j <=? seq_len s) && (i <=? j) then seq_unpack_loop (j - i + 1) i s else Trap TrapUnpack.

  Definition seq_step (o : cop T) (s : seq) : res (seq * cret T) :=
    match o with
    | OPush _ x => s' <- seq_push x s ;; Ok (s', RUnit _)
    | OPop _ => p <- seq_pop s ;; Ok (fst p, RVal _ (snd p))
    | OInsert _ pos x => s' <- seq_insert pos x s ;; Ok (s', RUnit _)
    | ORemove _ pos => p <- seq_remove pos s ;; Ok (fst p, RVal _ (snd p))
    | ORemoveValue _ x => p <- seq_removevalue x s ;; Ok (fst p, RBool _ (snd p))
    | ORemoveIf _ pr => s' <- seq_removeif pr s ;; Ok (s', RUnit _)
    | OResize _ n => s' <- seq_resize n s ;; Ok (s', RUnit _)
    | OReserve _ n => s' <- seq_reserve n s ;; Ok (s', RUnit _)
    | OClear _ => Ok (seq_clear s, RUnit _)
    | OCopy _ => Ok (seq_copy s, RUnit _)
    | OAt _ pos => p <- seq_get pos s ;; Ok (fst p, RVal _ (snd p))
    | OAssign _ pos x => s' <- seq_set pos x s ;; Ok (s', RUnit _)
    | ODestroy _ => Ok (seq_destroy s, RUnit _)
    | OConvert _ xs => s' <- seq_convert xs ;; Ok (s', RUnit _)
    | OUnpack _ i j => p <- seq_unpack i j s ;; Ok (fst p, RVals _ (snd p))
    end.

  (* the abstract sequence: the reserved slot 0 and the list of elements 1..n.
     Reading or writing position n+1 appends a zero element first (auto-append). *)
  Definition sq_step (o : cop T) (st : T * list T) : res ((T * list T) * cret T) :=
    let (z, l) := st in
    match o with
    | OPush _ x => Ok ((z, l ++ [x]), RUnit _)
    | OPop _ => match nth_error l (length l - 1) with
                | Some x => Ok ((z, firstn (length l - 1) l), RVal _ x)
                | None => Trap TrapPopEmpty end
    | OInsert _ pos x => if (pos =? 0) || (length l + 1 <? pos) then Trap TrapPos
                         else Ok ((z, l_insert T (pos - 1) x l), RUnit _)
    | ORemove _ pos => if pos =? 0 then Trap TrapPos else
                       match nth_error l (pos - 1) with
                       | Some x => Ok ((z, l_remove T (pos - 1) l), RVal _ x)
                       | None => Trap TrapPos end
    | ORemoveValue _ x => match l_index T teqb x l with
                          | Some i => Ok ((z, l_remove T i l), RBool _ true)
                          | None => Ok ((z, l), RBool _ false) end
    | ORemoveIf _ pr => Ok ((z, filter (fun e => negb (pr e)) l), RUnit _)
    | OResize _ n => Ok ((z, l_resize T dflt n l), RUnit _)
    | OReserve _ n => Ok ((z, l), RUnit _)
    | OClear _ => Ok ((z, []), RUnit _)
    | OCopy _ => Ok ((z, l), RUnit _)
    | OAt _ pos => if pos =? 0 then Ok ((z, l), RVal _ z) else
                   if pos =? length l + 1 then Ok ((z, l ++ [dflt]), RVal _ dflt) else
                   match nth_error l (pos - 1) with
                   | Some x => Ok ((z, l), RVal _ x)
                   | None => Trap TrapPos end
    | OAssign _ pos x => if pos =? 0 then Ok ((x, l), RUnit _) else
                         if pos =? length l + 1 then Ok ((z, l ++ [x]), RUnit _) else
                         if pos <=? length l then Ok ((z, l_assign T (pos - 1) x l), RUnit _)
                         else Trap TrapPos
    | ODestroy _ => Ok ((dflt, []), RUnit _)
    | OConvert _ xs => Ok ((dflt, xs), RUnit _)
    | OUnpack _ i j => if (1 <=? i) && (j <=? length l) && (i <=? j)
                       then Ok ((z, l), RVals _ (firstn (j - i + 1) (skipn (i - 1) l))) else Trap TrapUnpack
    end.
  Definition seq_slot0 (s : seq) : T := match sdata s with x :: _ => x | [] => dflt end.
  (* ---- a refusing allocator: [oki] = the request for the implementation record (allocator:new, raises an error
     when refused), [ok n] = a request for n elements (xspanrealloc / xspanalloc, panic when refused) *)
  Definition seq_newcap (c : nat) : nat := if c =? 0 then SEQ_INIT_CAP_n else c * SEQ_GROW_MUL_n.
  Definition seq_init_a (oki : bool) (s : seq) : res seq :=
    if sinit s then Ok s else if oki then Ok (seq_init s) else Trap TrapOOM.
  Definition seq_grow_a (ok : nat -> bool) (s : seq) : res seq :=
    if ok (seq_newcap (seq_capn s)) then seq_grow s else Trap TrapOOM.
  Definition seq_reserve_a (oki : bool) (ok : nat -> bool) (n : nat) (s0 : seq) : res seq :=
    s <- seq_init_a oki s0 ;;
    if n + 1 <=? seq_capn s then Ok s else if ok (n + 1) then seq_reserve n s else Trap TrapOOM.
  Definition seq_resize_a (oki : bool) (ok : nat -> bool) (n : nat) (s0 : seq) : res seq :=
    s <- seq_reserve_a oki ok n s0 ;;
    d <- (if ssize s <? n then sfill (ssize s + 1) (n - ssize s) dflt (sdata s) else Ok (sdata s)) ;;
    Ok (mkseq true d n).
  Definition seq_copy_a (oki : bool) (ok : nat -> bool) (s : seq) : res seq :=
    if sinit s then
      if oki then (if (seq_capn s =? 0) || ok (seq_capn s) then Ok (seq_copy s) else Trap TrapOOM) else Trap TrapOOM
    else Ok seq_empty.
  Definition seq_push_a (oki : bool) (ok : nat -> bool) (x : T) (s0 : seq) : res seq :=
    s <- seq_init_a oki s0 ;;
    let sz := ssize s + 1 in
    s1 <- (if seq_capn s <=? sz + 1 then seq_grow_a ok (mkseq true (sdata s) sz) else Ok (mkseq true (sdata s) sz)) ;;
    d <- sset sz x (sdata s1) ;;
    Ok (mkseq true d sz).
  Definition seq_insert_a (oki : bool) (ok : nat -> bool) (pos : nat) (x : T) (s0 : seq) : res seq :=
    s <- seq_init_a oki s0 ;;
    if (pos =? 0) || (ssize s + 1 <? pos) then Trap TrapPos else
    s1 <- (if seq_capn s <=? ssize s + 2 then seq_grow_a ok s else Ok s) ;;
    let sz := ssize s + 1 in
    d1 <- (if pos <? sz then smove (pos + 1) pos (sz - pos) (sdata s1) else Ok (sdata s1)) ;;
    d2 <- sset pos x d1 ;;
    Ok (mkseq true d2 sz).
  Definition seq_atindex_a (oki : bool) (ok : nat -> bool) (pos : nat) (s0 : seq) : res seq :=
    s <- seq_init_a oki s0 ;;
    if ssize s <? pos then
      if negb (pos =? ssize s + 1) then Trap TrapPos else
      let sz := ssize s + 1 in
      s1 <- (if seq_capn s <? sz + 1 then seq_grow_a ok (mkseq true (sdata s) sz) else Ok (mkseq true (sdata s) sz)) ;;
      d <- sset pos dflt (sdata s1) ;;
      Ok (mkseq true d sz)
    else if (seq_capn s =? 0) && (pos =? 0) then seq_grow_a ok s
    else Ok s.
  Definition seq_get_a (oki : bool) (ok : nat -> bool) (pos : nat) (s0 : seq) : res (seq * T) :=
    s <- seq_atindex_a oki ok pos s0 ;; x <- sget pos (sdata s) ;; Ok (s, x).
  Definition seq_set_a (oki : bool) (ok : nat -> bool) (pos : nat) (x : T) (s0 : seq) : res seq :=
    s <- seq_atindex_a oki ok pos s0 ;; d <- sset pos x (sdata s) ;; Ok (mkseq (sinit s) d (ssize s)).
  Definition seq_convert_a (oki : bool) (ok : nat -> bool) (xs : list T) : res seq :=
    s1 <- seq_reserve_a oki ok (length xs) seq_empty ;;
    d <- fill_from T 1 xs (sdata s1) ;;
    Ok (mkseq true d (length xs)).
  Definition seq_step_a (oki : bool) (ok : nat -> bool) (o : cop T) (s : seq) : res (seq * cret T) :=
    match o with
    | OPush _ x => s' <- seq_push_a oki ok x s ;; Ok (s', RUnit _)
    | OInsert _ pos x => s' <- seq_insert_a oki ok pos x s ;; Ok (s', RUnit _)
    | OResize _ n => s' <- seq_resize_a oki ok n s ;; Ok (s', RUnit _)
    | OReserve _ n => s' <- seq_reserve_a oki ok n s ;; Ok (s', RUnit _)
    | OCopy _ => s' <- seq_copy_a oki ok s ;; Ok (s', RUnit _)
    | OAt _ pos => p <- seq_get_a oki ok pos s ;; Ok (fst p, RVal _ (snd p))
    | OAssign _ pos x => s' <- seq_set_a oki ok pos x s ;; Ok (s', RUnit _)
    | OConvert _ xs => s' <- seq_convert_a oki ok xs ;; Ok (s', RUnit _)
    | _ => seq_step o s
    end.
End Sequence.

(* ------------------------------------------------------------------ hashmap.nelua *)
Definition M64 : Z := 18446744073709551616%Z.

Definition ceilidiv (x y : nat) : nat := (x + y - 1) / y.

(* roundpow2 on usize *)
Definition roundpow2 (n0 : Z) : Z :=
  if (Z.land n0 ((n0 - 1) mod M64) =? 0)%Z then n0 else
  let n := Z.lor n0 (Z.shiftr n0 1) in
  let n := Z.lor n (Z.shiftr n 2) in
  let n := Z.lor n (Z.shiftr n 4) in
  let n := Z.lor n (Z.shiftr n 8) in
  let n := Z.lor n (Z.shiftr n 16) in
  let n := Z.lor n (Z.shiftr n 32) in
  ((n + 1) mod M64)%Z.

Definition HM_MAXLF_n := Z.to_nat HM_MAX_LOAD_FACTOR.
Definition HM_GROW_n := Z.to_nat HM_GROW_RATE.
Definition HM_INIT_n := Z.to_nat HM_INIT_CAPACITY.

Section HashMap.
  Variables K V : Type.
  Variable kdflt : K.
  Variable vdflt : V.
  Variable keqb : K -> K -> bool.   (* key == node.key *)
  Variable khash : K -> Z.          (* hash.hash(key) as usize, 0 <= . < 2^64 *)

  (* next = None  <->  INVALID_INDEX *)
  Record hnode := mknode { nkey : K; nval : V; nfilled : bool; nnext : option nat }.
  Record hmap := mkhm { hbuckets : list (option nat); hnodes : list hnode; hsize : nat; hfree : option nat }.
  Definition hm_empty := mkhm [] [] 0 None.
  Definition zero_node := mknode kdflt vdflt false (Some 0).     (* all-zero bytes *)

  (* h & (n - 1) *)
  Definition hashmod (h : Z) (n : nat) : nat :=
    Z.to_nat (Z.land h ((Z.of_nat n - 1) mod M64)).

  Definition set_next (nx : option nat) (nd : hnode) := mknode (nkey nd) (nval nd) (nfilled nd) nx.
  Definition set_val (v : V) (nd : hnode) := mknode (nkey nd) v (nfilled nd) (nnext nd).

  Fixpoint hm_walk (fuel : nat) (nodes : list hnode) (key : K) (cur prev : option nat)
    : res (option nat * option nat) :=
    match fuel with
    | 0 => Trap TrapFuel
    | S f =>
        match cur with
        | None => Ok (None, prev)
        | Some i =>
            nd <- sget i nodes ;;
            if keqb key (nkey nd) then Ok (Some i, prev) else hm_walk f nodes key (nnext nd) (Some i)
        end
    end.

  (* _find: (node_index, prev_node_index, bucket_index) *)
  Definition hm_find (key : K) (m : hmap) : res (option nat * option nat * nat) :=
    let n := length (hbuckets m) in
    if n =? 0 then Ok (None, None, 0) else      (* bucket_index is unused by every caller when empty *)
    let bi := hashmod (khash key) n in
    start <- sget bi (hbuckets m) ;;
    r <- hm_walk (S (length (hnodes m))) (hnodes m) key start None ;;
    Ok (fst r, snd r, bi).

  (* the descending loop of rehash/clear: unlink used nodes while linking free nodes *)
  Fixpoint relink_free (nodes : list hnode) (base : nat) : list hnode * option nat :=
    match nodes with
    | [] => ([], None)
    | nd :: rest =>
        let (rest', fr) := relink_free rest (S base) in
        if nfilled nd then (set_next None nd :: rest', fr)
        else (set_next fr nd :: rest', Some base)
    end.

  (* link node i at the end of its bucket's chain (through _find) *)
  Definition hm_link (i : nat) (m : hmap) : res hmap :=
    nd <- sget i (hnodes m) ;;
    if negb (nfilled nd) then Ok m else
    r <- hm_find (nkey nd) m ;;
    let '(ni, prev, bi) := r in
    m1 <- (match prev with
           | None => b <- sset bi (Some i) (hbuckets m) ;; Ok (mkhm b (hnodes m) (hsize m) (hfree m))
           | Some p => pn <- sget p (hnodes m) ;;
                       ns <- sset p (set_next (Some i) pn) (hnodes m) ;;
                       Ok (mkhm (hbuckets m) ns (hsize m) (hfree m))
           end) ;;
    nd1 <- sget i (hnodes m1) ;;
    ns <- sset i (set_next ni nd1) (hnodes m1) ;;
    Ok (mkhm (hbuckets m1) ns (hsize m1) (hfree m1)).

  Fixpoint hm_fill_loop (n i : nat) (m : hmap) : res hmap :=
    match n with
    | 0 => Ok m
    | S n' => m1 <- hm_link i m ;; hm_fill_loop n' (S i) m1
    end.

  (* the shift of filled nodes when shrinking, as written in rehash: skip the filled prefix, move every later
     filled node down to the next free position j, zero everything from j on; returns the nodes and j *)
  Fixpoint cmp_skip (rest : list hnode) (j : nat) : nat :=
    match rest with
    | nd :: tl => if nfilled nd then cmp_skip tl (S j) else j
    | [] => j
    end.
  Fixpoint cmp_move (n i j : nat) (ns : list hnode) : res (list hnode * nat) :=
    match n with
    | 0 => Ok (ns, j)
    | S n' => e <- sget i ns ;;
              if nfilled e then ns' <- sset j e ns ;; cmp_move n' (S i) (S j) ns' else cmp_move n' (S i) j ns
    end.
  Definition hm_compact_loop (ns : list hnode) : res (list hnode * nat) :=
    let j0 := cmp_skip ns 0 in
    r <- cmp_move (length ns - j0) j0 j0 ns ;;
    d <- sfill (snd r) (length ns - snd r) zero_node (fst r) ;;
    Ok (d, snd r).

  (* what the loop computes (proved in ProofsHM3): stable compaction, freed cells zeroed *)
  Definition hm_compact (nodes : list hnode) : list hnode :=
    let f := filter nfilled nodes in
    f ++ repeat zero_node (length nodes - length f).

  Definition hm_rehash (bucket_count : nat) (m : hmap) : res hmap :=
    let minb := ceilidiv (hsize m * 100) HM_MAXLF_n in
    let bc0 := if bucket_count <? minb then minb else bucket_count in
    let bcz := roundpow2 (Z.of_nat bc0) in
    if (bcz <? Z.of_nat bc0)%Z then Trap TrapOverflow else
    let bc := Z.to_nat bcz in
    let nc0 := ceilidiv (bc * HM_MAXLF_n) 100 in
    let nc := if (0 <? bc) && (nc0 <=? hsize m) then hsize m + 1 else nc0 in
    let n0 := length (hnodes m) in
    nodes1 <- (if (nc <? n0) && (0 <? n0) && (0 <? nc) then
                 r <- hm_compact_loop (hnodes m) ;;
                 if snd r =? hsize m then Ok (fst r) else Trap TrapCompact     (* check(j == self.size) *)
               else Ok (hnodes m)) ;;
    let nodes2 := srealloc zero_node nc nodes1 in
    let buckets2 := repeat (@None nat) bc in
    let (nodes3, fr) := relink_free nodes2 0 in
    hm_fill_loop (length nodes3) 0 (mkhm buckets2 nodes3 (hsize m) fr).

  Definition hm_reserve (count : nat) (m : hmap) : res hmap :=
    let bc := ceilidiv (count * 100) HM_MAXLF_n in
    if length (hbuckets m) <? bc then hm_rehash bc m else Ok m.

  Definition hm_clear (m : hmap) : hmap :=
    let (ns, fr) := relink_free (repeat zero_node (length (hnodes m))) 0 in
    mkhm (repeat None (length (hbuckets m))) ns 0 fr.

  (* _at: find or make; returns the node index *)
  Definition hm_at (key : K) (m0 : hmap) : res (hmap * nat) :=
    m <- (if length (hbuckets m0) =? 0 then hm_rehash HM_INIT_n m0 else Ok m0) ;;
    r <- hm_find key m ;;
    let '(ni, prev, bi) := r in
    match ni with
    | Some i => Ok (m, i)
    | None =>
        match hfree m with
        | None => Trap TrapNoSpace
        | Some fi =>
            if length (hnodes m) <=? fi then Trap TrapNoSpace else
            nd <- sget fi (hnodes m) ;;
            let fr := nnext nd in
            ns <- sset fi (mknode key vdflt true None) (hnodes m) ;;
            m1 <- (match prev with
                   | None => b <- sset bi (Some fi) (hbuckets m) ;; Ok (mkhm b ns (hsize m) fr)
                   | Some p => pn <- sget p ns ;;
                               ns' <- sset p (set_next (Some fi) pn) ns ;;
                               Ok (mkhm (hbuckets m) ns' (hsize m) fr)
                   end) ;;
            let sz := hsize m + 1 in
            let m2 := mkhm (hbuckets m1) (hnodes m1) sz (hfree m1) in
            m3 <- (if length (hbuckets m2) * HM_MAXLF_n <=? sz * 100
                   then hm_rehash (ceilidiv (sz * HM_GROW_n) HM_MAXLF_n) m2 else Ok m2) ;;
            Ok (m3, fi)
        end
    end.

  (* m[key] = v *)
  Definition hm_set (key : K) (v : V) (m : hmap) : res hmap :=
    p <- hm_at key m ;;
    let (m1, i) := p in
    nd <- sget i (hnodes m1) ;;
    ns <- sset i (set_val v nd) (hnodes m1) ;;
    Ok (mkhm (hbuckets m1) ns (hsize m1) (hfree m1)).

  (* m[key] read (inserts a zero value when absent) *)
  Definition hm_get (key : K) (m : hmap) : res (hmap * V) :=
    p <- hm_at key m ;;
    let (m1, i) := p in
    nd <- sget i (hnodes m1) ;;
    Ok (m1, nval nd).

  Definition hm_peek (key : K) (m : hmap) : res (option V) :=
    r <- hm_find key m ;;
    match fst (fst r) with
    | Some i => nd <- sget i (hnodes m) ;; Ok (Some (nval nd))
    | None => Ok None
    end.

  Definition hm_has (key : K) (m : hmap) : res bool :=
    r <- hm_peek key m ;; Ok (match r with Some _ => true | None => false end).

  (* remove: returns the removed value (zero value when absent); erase returns whether it removed *)
  Definition hm_remove (key : K) (m : hmap) : res (hmap * option V) :=
    r <- hm_find key m ;;
    let '(ni, prev, bi) := r in
    match ni with
    | None => Ok (m, None)
    | Some i =>
        nd <- sget i (hnodes m) ;;
        m1 <- (match prev with
               | None => b <- sset bi (nnext nd) (hbuckets m) ;; Ok (mkhm b (hnodes m) (hsize m) (hfree m))
               | Some p => pn <- sget p (hnodes m) ;;
                           ns <- sset p (set_next (nnext nd) pn) (hnodes m) ;;
                           Ok (mkhm (hbuckets m) ns (hsize m) (hfree m))
               end) ;;
        ns <- sset i (mknode kdflt vdflt false (hfree m1)) (hnodes m1) ;;
        Ok (mkhm (hbuckets m1) ns (hsize m1 - 1) (Some i), Some (nval nd))
    end.

  Definition hm_len (m : hmap) := hsize m.
  Definition hm_capacity (m : hmap) := length (hnodes m).
  Definition hm_bucketcount (m : hmap) := length (hbuckets m).

  (* iterator _next_node: scan for the next filled node at index >= i *)
  Fixpoint hm_scan (rest : list hnode) (i : nat) : option (nat * hnode) :=
    match rest with
    | [] => None
    | nd :: tl => if nfilled nd then Some (i, nd) else hm_scan tl (S i)
    end.
  Definition hm_iter_next (it : option nat) (m : hmap) : option (nat * hnode) :=
    let start := match it with None => 0 | Some i => S i end in
    hm_scan (skipn start (hnodes m)) start.

  (* for k,v in pairs(m): the visited bindings, in order *)
  Fixpoint hm_pairs_loop (fuel : nat) (it : option nat) (m : hmap) : res (list (K * V)) :=
    match fuel with
    | 0 => Trap TrapFuel
    | S f =>
        match hm_iter_next it m with
        | None => Ok []
        | Some (i, nd) => r <- hm_pairs_loop f (Some i) m ;; Ok ((nkey nd, nval nd) :: r)
        end
    end.
  Definition hm_pairs (m : hmap) : res (list (K * V)) := hm_pairs_loop (S (length (hnodes m))) None m.

  (* for k,v in pairs(m) do if pred(k,v) then m:remove(k) end end : visited bindings + final map *)
  Fixpoint hm_pairs_erase_loop (pred : K -> V -> bool) (fuel : nat) (it : option nat) (m : hmap)
    : res (list (K * V) * hmap) :=
    match fuel with
    | 0 => Trap TrapFuel
    | S f =>
        match hm_iter_next it m with
        | None => Ok ([], m)
        | Some (i, nd) =>
            m1 <- (if pred (nkey nd) (nval nd) then p <- hm_remove (nkey nd) m ;; Ok (fst p) else Ok m) ;;
            r <- hm_pairs_erase_loop pred f (Some i) m1 ;;
            Ok ((nkey nd, nval nd) :: fst r, snd r)
        end
    end.
  Definition hm_pairs_erase (pred : K -> V -> bool) (m : hmap) :=
    hm_pairs_erase_loop pred (S (length (hnodes m))) None m.

  (* next(m, key) / next(m): __next through _next_node *)
  Definition hm_next (key : option K) (m : hmap) : res (option (K * V)) :=
    start <- (match key with
              | None => Ok 0
              | Some k => r <- hm_find k m ;;
                          match fst (fst r) with None => Trap TrapInvalidKey | Some i => Ok (S i) end
              end) ;;
    Ok (match hm_scan (skipn start (hnodes m)) start with
        | None => None
        | Some (_, nd) => Some (nkey nd, nval nd)
        end).
  (* for k,v in mpairs(m) do $v = f($v) end *)
  Definition hm_mapvals (f : V -> V) (m : hmap) : hmap :=
    mkhm (hbuckets m) (map (fun nd => if nfilled nd then set_val (f (nval nd)) nd else nd) (hnodes m))
         (hsize m) (hfree m).

  (* ---- operations as data, and the abstract specification on association lists *)
  Inductive hop :=
  | HSet (k : K) (v : V) | HGet (k : K) | HPeek (k : K) | HHas (k : K) | HHasGet (k : K)
  | HRemove (k : K) | HErase (k : K) | HClear | HReserve (n : nat) | HRehash (n : nat)
  | HIterErase (p : K -> V -> bool) | HPairs | HMapVals (f : V -> V) | HDestroy.
  Inductive hret :=
  | HUnit | HVal (v : V) | HOpt (o : option V) | HBool (b : bool) | HBoolVal (b : bool) (v : V)
  | HList (l : list (K * V)).

  Definition hm_step (o : hop) (m : hmap) : res (hmap * hret) :=
    match o with
    | HSet k v => m' <- hm_set k v m ;; Ok (m', HUnit)
    | HGet k => p <- hm_get k m ;; Ok (fst p, HVal (snd p))
    | HPeek k => r <- hm_peek k m ;; Ok (m, HOpt r)
    | HHas k => r <- hm_has k m ;; Ok (m, HBool r)
    | HHasGet k => r <- hm_peek k m ;;
                   Ok (m, match r with Some v => HBoolVal true v | None => HBoolVal false vdflt end)
    | HRemove k => p <- hm_remove k m ;;
                   Ok (fst p, HVal (match snd p with Some v => v | None => vdflt end))
    | HErase k => p <- hm_remove k m ;;
                  Ok (fst p, HBool (match snd p with Some _ => true | None => false end))
    | HClear => Ok (hm_clear m, HUnit)
    | HReserve n => m' <- hm_reserve n m ;; Ok (m', HUnit)
    | HRehash n => m' <- hm_rehash n m ;; Ok (m', HUnit)
    | HIterErase p => r <- hm_pairs_erase p m ;; Ok (snd r, HList (fst r))
    | HPairs => r <- hm_pairs m ;; Ok (m, HList r)
    | HMapVals f => Ok (hm_mapvals f m, HUnit)
    | HDestroy => Ok (hm_empty, HUnit)
    end.

  Fixpoint al_get (k : K) (al : list (K * V)) : option V :=
    match al with
    | [] => None
    | (k', v) :: tl => if keqb k k' then Some v else al_get k tl
    end.
  (* an existing binding keeps its stored key; a new one is added *)
  Fixpoint al_set (k : K) (v : V) (al : list (K * V)) : list (K * V) :=
    match al with
    | [] => [(k, v)]
    | (k', v') :: tl => if keqb k k' then (k', v) :: tl else (k', v') :: al_set k v tl
    end.
  Fixpoint al_remove (k : K) (al : list (K * V)) : list (K * V) :=
    match al with
    | [] => []
    | (k', v') :: tl => if keqb k k' then tl else (k', v') :: al_remove k tl
    end.

  Definition al_step (o : hop) (al : list (K * V)) : res (list (K * V) * hret) :=
    match o with
    | HSet k v => Ok (al_set k v al, HUnit)
    | HGet k => match al_get k al with
                | Some v => Ok (al, HVal v)
                | None => Ok (al_set k vdflt al, HVal vdflt) end
    | HPeek k => Ok (al, HOpt (al_get k al))
    | HHas k => Ok (al, HBool (match al_get k al with Some _ => true | None => false end))
    | HHasGet k => Ok (al, match al_get k al with Some v => HBoolVal true v | None => HBoolVal false vdflt end)
    | HRemove k => Ok (al_remove k al, HVal (match al_get k al with Some v => v | None => vdflt end))
    | HErase k => Ok (al_remove k al, HBool (match al_get k al with Some _ => true | None => false end))
    | HClear => Ok ([], HUnit)
    | HReserve n => Ok (al, HUnit)
    | HRehash n => Ok (al, HUnit)
    (* `m:remove(k)` for every visited binding satisfying p; a key that is not == to itself (NaN) is not found *)
    | HIterErase p => Ok (filter (fun kv => negb (p (fst kv) (snd kv) && keqb (fst kv) (fst kv))) al, HList al)
    | HPairs => Ok (al, HList al)
    | HMapVals f => Ok (map (fun kv => (fst kv, f (snd kv))) al, HUnit)
    | HDestroy => Ok ([], HUnit)
    end.
  (* ---- a hash-free reference ("flat map").  The same record with the chains forgotten: every bucket empty and
     the next field of every filled node INVALID; the next fields of unfilled nodes (the free list), the node
     order, the sizes and the free head are kept.  The operations below never call [khash]: a key is looked up by
     scanning the node array.  ProofsHM7 shows that hashmap.nelua, with any hash function that respects ==, is this
     flat map exactly - equal results (iteration order included), equal node arrays up to [canon], equal
     capacity and bucket count. *)
  Definition canon_node (nd : hnode) : hnode := if nfilled nd then set_next None nd else nd.
  Definition canon (m : hmap) : hmap :=
    mkhm (repeat None (length (hbuckets m))) (map canon_node (hnodes m)) (hsize m) (hfree m).

  Fixpoint fm_find_from (key : K) (ns : list hnode) (base : nat) : option nat :=
    match ns with
    | [] => None
    | nd :: tl => if nfilled nd && keqb key (nkey nd) then Some base else fm_find_from key tl (S base)
    end.
  Definition fm_find (key : K) (m : hmap) : option nat := fm_find_from key (hnodes m) 0.

  Definition fm_rehash (bucket_count : nat) (m : hmap) : res hmap :=
    let minb := ceilidiv (hsize m * 100) HM_MAXLF_n in
    let bc0 := if bucket_count <? minb then minb else bucket_count in
    let bcz := roundpow2 (Z.of_nat bc0) in
    if (bcz <? Z.of_nat bc0)%Z then Trap TrapOverflow else
    let bc := Z.to_nat bcz in
    let nc0 := ceilidiv (bc * HM_MAXLF_n) 100 in
    let nc := if (0 <? bc) && (nc0 <=? hsize m) then hsize m + 1 else nc0 in
    let n0 := length (hnodes m) in
    let nodes1 := if (nc <? n0) && (0 <? n0) && (0 <? nc) then hm_compact (hnodes m) else hnodes m in
    let nodes2 := srealloc zero_node nc nodes1 in
    let (nodes3, fr) := relink_free nodes2 0 in
    Ok (mkhm (repeat None bc) nodes3 (hsize m) fr).
  Definition fm_reserve (count : nat) (m : hmap) : res hmap :=
    let bc := ceilidiv (count * 100) HM_MAXLF_n in
    if length (hbuckets m) <? bc then fm_rehash bc m else Ok m.
  Definition fm_insert (key : K) (m : hmap) : res (hmap * nat) :=
    match hfree m with
    | None => Trap TrapNoSpace
    | Some fi =>
        if length (hnodes m) <=? fi then Trap TrapNoSpace else
        nd <- sget fi (hnodes m) ;;
        ns <- sset fi (mknode key vdflt true None) (hnodes m) ;;
        let sz := hsize m + 1 in
        let m2 := mkhm (hbuckets m) ns sz (nnext nd) in
        m3 <- (if length (hbuckets m2) * HM_MAXLF_n <=? sz * 100
               then fm_rehash (ceilidiv (sz * HM_GROW_n) HM_MAXLF_n) m2 else Ok m2) ;;
        Ok (m3, fi)
    end.
  Definition fm_at (key : K) (m0 : hmap) : res (hmap * nat) :=
    m <- (if length (hbuckets m0) =? 0 then fm_rehash HM_INIT_n m0 else Ok m0) ;;
    match fm_find key m with
    | Some i => Ok (m, i)
    | None => fm_insert key m
    end.
  Definition fm_set (key : K) (v : V) (m : hmap) : res hmap :=
    p <- fm_at key m ;;
    let (m1, i) := p in
    nd <- sget i (hnodes m1) ;;
    ns <- sset i (set_val v nd) (hnodes m1) ;;
    Ok (mkhm (hbuckets m1) ns (hsize m1) (hfree m1)).
  Definition fm_get (key : K) (m : hmap) : res (hmap * V) :=
    p <- fm_at key m ;;
    let (m1, i) := p in
    nd <- sget i (hnodes m1) ;;
    Ok (m1, nval nd).
  Definition fm_peek (key : K) (m : hmap) : res (option V) :=
    match fm_find key m with
    | Some i => nd <- sget i (hnodes m) ;; Ok (Some (nval nd))
    | None => Ok None
    end.
  Definition fm_remove (key : K) (m : hmap) : res (hmap * option V) :=
    match fm_find key m with
    | None => Ok (m, None)
    | Some i =>
        nd <- sget i (hnodes m) ;;
        ns <- sset i (mknode kdflt vdflt false (hfree m)) (hnodes m) ;;
        Ok (mkhm (hbuckets m) ns (hsize m - 1) (Some i), Some (nval nd))
    end.
  (* next(m) / next(m, key) of the flat map: the key's node by scanning, then the next filled node *)
  Definition fm_next (key : option K) (m : hmap) : res (option (K * V)) :=
    start <- (match key with
              | None => Ok 0
              | Some k => match fm_find k m with None => Trap TrapInvalidKey | Some i => Ok (S i) end
              end) ;;
    Ok (match hm_scan (skipn start (hnodes m)) start with
        | None => None
        | Some (_, nd) => Some (nkey nd, nval nd)
        end).
  Fixpoint fm_pairs_erase_loop (pred : K -> V -> bool) (fuel : nat) (it : option nat) (m : hmap)
    : res (list (K * V) * hmap) :=
    match fuel with
    | 0 => Trap TrapFuel
    | S f =>
        match hm_iter_next it m with
        | None => Ok ([], m)
        | Some (i, nd) =>
            m1 <- (if pred (nkey nd) (nval nd) then p <- fm_remove (nkey nd) m ;; Ok (fst p) else Ok m) ;;
            r <- fm_pairs_erase_loop pred f (Some i) m1 ;;
            Ok ((nkey nd, nval nd) :: fst r, snd r)
        end
    end.
  Definition fm_step (o : hop) (m : hmap) : res (hmap * hret) :=
    match o with
    | HSet k v => m' <- fm_set k v m ;; Ok (m', HUnit)
    | HGet k => p <- fm_get k m ;; Ok (fst p, HVal (snd p))
    | HPeek k => r <- fm_peek k m ;; Ok (m, HOpt r)
    | HHas k => r <- fm_peek k m ;; Ok (m, HBool (match r with Some _ => true | None => false end))
    | HHasGet k => r <- fm_peek k m ;;
                   Ok (m, match r with Some v => HBoolVal true v | None => HBoolVal false vdflt end)
    | HRemove k => p <- fm_remove k m ;;
                   Ok (fst p, HVal (match snd p with Some v => v | None => vdflt end))
    | HErase k => p <- fm_remove k m ;;
                  Ok (fst p, HBool (match snd p with Some _ => true | None => false end))
    | HClear => Ok (hm_clear m, HUnit)
    | HReserve n => m' <- fm_reserve n m ;; Ok (m', HUnit)
    | HRehash n => m' <- fm_rehash n m ;; Ok (m', HUnit)
    | HIterErase p => r <- fm_pairs_erase_loop p (S (length (hnodes m))) None m ;; Ok (snd r, HList (fst r))
    | HPairs => r <- hm_pairs m ;; Ok (m, HList r)
    | HMapVals f => Ok (hm_mapvals f m, HUnit)
    | HDestroy => Ok (hm_empty, HUnit)
    end.

  (* ---- a refusing allocator.  rehash reallocates the node array (xspanrealloc0) and then the bucket array
     (xspanrealloc); a refused request panics ('out of memory').  [hm_rehash_sizes] are the two requested sizes;
     [okn]/[okb] tell whether a request for that many nodes / buckets is granted. *)
  Definition hm_rehash_sizes (bucket_count : nat) (m : hmap) : option (nat * nat) :=
    let minb := ceilidiv (hsize m * 100) HM_MAXLF_n in
    let bc0 := if bucket_count <? minb then minb else bucket_count in
    let bcz := roundpow2 (Z.of_nat bc0) in
    if (bcz <? Z.of_nat bc0)%Z then None else
    let bc := Z.to_nat bcz in
    let nc0 := ceilidiv (bc * HM_MAXLF_n) 100 in
    Some (bc, if (0 <? bc) && (nc0 <=? hsize m) then hsize m + 1 else nc0).
  Definition hm_rehash_a (okn okb : nat -> bool) (bucket_count : nat) (m : hmap) : res hmap :=
    match hm_rehash_sizes bucket_count m with
    | None => hm_rehash bucket_count m
    | Some (bc, nc) => if okn nc && okb bc then hm_rehash bucket_count m else Trap TrapOOM
    end.
  Definition hm_reserve_a (okn okb : nat -> bool) (count : nat) (m : hmap) : res hmap :=
    let bc := ceilidiv (count * 100) HM_MAXLF_n in
    if length (hbuckets m) <? bc then hm_rehash_a okn okb bc m else Ok m.
  Definition hm_at_a (okn okb : nat -> bool) (key : K) (m0 : hmap) : res (hmap * nat) :=
    m <- (if length (hbuckets m0) =? 0 then hm_rehash_a okn okb HM_INIT_n m0 else Ok m0) ;;
    r <- hm_find key m ;;
    let '(ni, prev, bi) := r in
    match ni with
    | Some i => Ok (m, i)
    | None =>
        match hfree m with
        | None => Trap TrapNoSpace
        | Some fi =>
            if length (hnodes m) <=? fi then Trap TrapNoSpace else
            nd <- sget fi (hnodes m) ;;
            let fr := nnext nd in
            ns <- sset fi (mknode key vdflt true None) (hnodes m) ;;
            m1 <- (match prev with
                   | None => b <- sset bi (Some fi) (hbuckets m) ;; Ok (mkhm b ns (hsize m) fr)
                   | Some p => pn <- sget p ns ;;
                               ns' <- sset p (set_next (Some fi) pn) ns ;;
                               Ok (mkhm (hbuckets m) ns' (hsize m) fr)
                   end) ;;
            let sz := hsize m + 1 in
            let m2 := mkhm (hbuckets m1) (hnodes m1) sz (hfree m1) in
            m3 <- (if length (hbuckets m2) * HM_MAXLF_n <=? sz * 100
                   then hm_rehash_a okn okb (ceilidiv (sz * HM_GROW_n) HM_MAXLF_n) m2 else Ok m2) ;;
            Ok (m3, fi)
        end
    end.
  Definition hm_set_a (okn okb : nat -> bool) (key : K) (v : V) (m : hmap) : res hmap :=
    p <- hm_at_a okn okb key m ;;
    let (m1, i) := p in
    nd <- sget i (hnodes m1) ;;
    ns <- sset i (set_val v nd) (hnodes m1) ;;
    Ok (mkhm (hbuckets m1) ns (hsize m1) (hfree m1)).
  Definition hm_get_a (okn okb : nat -> bool) (key : K) (m : hmap) : res (hmap * V) :=
    p <- hm_at_a okn okb key m ;;
    let (m1, i) := p in
    nd <- sget i (hnodes m1) ;;
    Ok (m1, nval nd).
  Definition hm_step_a (okn okb : nat -> bool) (o : hop) (m : hmap) : res (hmap * hret) :=
    match o with
    | HSet k v => m' <- hm_set_a okn okb k v m ;; Ok (m', HUnit)
    | HGet k => p <- hm_get_a okn okb k m ;; Ok (fst p, HVal (snd p))
    | HReserve n => m' <- hm_reserve_a okn okb n m ;; Ok (m', HUnit)
    | HRehash n => m' <- hm_rehash_a okn okb n m ;; Ok (m', HUnit)
    | _ => hm_step o m
    end.
End HashMap.

(* ------------------------------------------------------------------ list.nelua *)
Section DList.
  Variable T : Type.
  Variable dflt : T.
  Variable teqb : T -> T -> bool.

  (* nodes live in an arena indexed by allocation order; delete marks the cell dead *)
  Record lnode := mklnode { lprev : option nat; lnext : option nat; lval : T; lalive : bool }.
  Record dlist := mkdl { larena : list lnode; lfront : option nat; lback : option nat }.
  Definition dl_empty := mkdl [] None None.

  Definition lget (i : nat) (a : list lnode) : res lnode :=
    nd <- sget i a ;; if lalive nd then Ok nd else Trap TrapMem.
  Definition lupd (i : nat) (f : lnode -> lnode) (a : list lnode) : res (list lnode) :=
    nd <- lget i a ;; sset i (f nd) a.
  Definition set_lprev p nd := mklnode p (lnext nd) (lval nd) (lalive nd).
  Definition set_lnext n nd := mklnode (lprev nd) n (lval nd) (lalive nd).
  Definition kill nd := mklnode (lprev nd) (lnext nd) (lval nd) false.

  Definition dl_pushfront (x : T) (l : dlist) : res dlist :=
    let i := length (larena l) in
    let a := larena l ++ [mklnode None (lfront l) x true] in
    a1 <- (match lfront l with Some f => lupd f (set_lprev (Some i)) a | None => Ok a end) ;;
    Ok (mkdl a1 (Some i) (match lback l with None => Some i | b => b end)).

  Definition dl_pushback (x : T) (l : dlist) : res dlist :=
    let i := length (larena l) in
    let a := larena l ++ [mklnode (lback l) None x true] in
    a1 <- (match lback l with Some b => lupd b (set_lnext (Some i)) a | None => Ok a end) ;;
    Ok (mkdl a1 (match lfront l with None => Some i | f => f end) (Some i)).

  Definition opt_eqb (a b : option nat) : bool :=
    match a, b with Some x, Some y => x =? y | None, None => true | _, _ => false end.

  (* insert before node pos (None = nilptr: append); returns the new node *)
  Definition dl_insert (pos : option nat) (x : T) (l : dlist) : res (dlist * option nat) :=
    match pos with
    | None => l1 <- dl_pushback x l ;; Ok (l1, lback l1)
    | Some p =>
        if opt_eqb pos (lfront l) then l1 <- dl_pushfront x l ;; Ok (l1, lfront l1) else
        pn <- lget p (larena l) ;;
        let i := length (larena l) in
        let a := larena l ++ [mklnode (lprev pn) (Some p) x true] in
        match lprev pn with
        | None => Trap TrapMem          (* node.prev.next with prev == nilptr *)
        | Some q =>
            a1 <- lupd q (set_lnext (Some i)) a ;;
            a2 <- lupd p (set_lprev (Some i)) a1 ;;
            Ok (mkdl a2 (lfront l) (lback l), Some i)
        end
    end.

  Definition dl_popfront (l : dlist) : res (dlist * T) :=
    match lfront l with
    | None => Trap TrapListEmpty
    | Some f =>
        nd <- lget f (larena l) ;;
        a1 <- (match lnext nd with Some n => lupd n (set_lprev None) (larena l) | None => Ok (larena l) end) ;;
        let bk := if opt_eqb (lback l) (Some f) then None else lback l in
        a2 <- lupd f kill a1 ;;
        Ok (mkdl a2 (lnext nd) bk, lval nd)
    end.

  Definition dl_popback (l : dlist) : res (dlist * T) :=
    match lback l with
    | None => Trap TrapListEmpty
    | Some b =>
        nd <- lget b (larena l) ;;
        a1 <- (match lprev nd with Some p => lupd p (set_lnext None) (larena l) | None => Ok (larena l) end) ;;
        let fr := if opt_eqb (lfront l) (Some b) then None else lfront l in
        a2 <- lupd b kill a1 ;;
        Ok (mkdl a2 fr (lprev nd), lval nd)
    end.

  Fixpoint dl_find_loop (fuel : nat) (a : list lnode) (it : option nat) (x : T) : res (option nat) :=
    match fuel with
    | 0 => Trap TrapFuel
    | S f =>
        match it with
        | None => Ok None
        | Some i => nd <- lget i a ;; if teqb (lval nd) x then Ok (Some i) else dl_find_loop f a (lnext nd) x
        end
    end.
  Definition dl_find (x : T) (l : dlist) : res (option nat) :=
    dl_find_loop (S (length (larena l))) (larena l) (lfront l) x.

  (* erase(node): returns the next node *)
  Definition dl_erase (node : option nat) (l : dlist) : res (dlist * option nat) :=
    match node with
    | None => Trap TrapNilNode
    | Some i =>
        nd <- lget i (larena l) ;;
        let fr := if opt_eqb node (lfront l) then lnext nd else lfront l in
        let bk := if opt_eqb node (lback l) then lprev nd else lback l in
        a1 <- (match lprev nd with Some p => lupd p (set_lnext (lnext nd)) (larena l) | None => Ok (larena l) end) ;;
        a2 <- (match lnext nd with Some n => lupd n (set_lprev (lprev nd)) a1 | None => Ok a1 end) ;;
        a3 <- lupd i kill a2 ;;
        Ok (mkdl a3 fr bk, lnext nd)
    end.

  Fixpoint dl_clear_loop (fuel : nat) (a : list lnode) (it : option nat) : res (list lnode) :=
    match fuel with
    | 0 => Trap TrapFuel
    | S f =>
        match it with
        | None => Ok a
        | Some i => nd <- lget i a ;; a1 <- lupd i kill a ;; dl_clear_loop f a1 (lnext nd)
        end
    end.
  Definition dl_clear (l : dlist) : res dlist :=
    a <- dl_clear_loop (S (length (larena l))) (larena l) (lfront l) ;; Ok (mkdl a None None).

  Definition dl_isempty (l : dlist) : bool := match lfront l with None => true | _ => false end.

  (* the walk of __len / pairs(): values front to back *)
  Fixpoint dl_walk (fuel : nat) (a : list lnode) (it : option nat) : res (list T) :=
    match fuel with
    | 0 => Trap TrapFuel
    | S f =>
        match it with
        | None => Ok []
        | Some i => nd <- lget i a ;; r <- dl_walk f a (lnext nd) ;; Ok (lval nd :: r)
        end
    end.
  Definition dl_contents (l : dlist) : res (list T) := dl_walk (S (length (larena l))) (larena l) (lfront l).
  (* walking prev pointers from the back (used by the harness through repeated popback on a copy? no:
     there is no public backward iterator; kept for the invariant) *)
  Fixpoint dl_walk_back (fuel : nat) (a : list lnode) (it : option nat) : res (list T) :=
    match fuel with
    | 0 => Trap TrapFuel
    | S f =>
        match it with
        | None => Ok []
        | Some i => nd <- lget i a ;; r <- dl_walk_back f a (lprev nd) ;; Ok (lval nd :: r)
        end
    end.
  (* indices of the nodes front to back *)
  Fixpoint dl_walk_idx (fuel : nat) (a : list lnode) (it : option nat) : res (list nat) :=
    match fuel with
    | 0 => Trap TrapFuel
    | S f =>
        match it with
        | None => Ok []
        | Some i => nd <- lget i a ;; r <- dl_walk_idx f a (lnext nd) ;; Ok (i :: r)
        end
    end.
  Fixpoint pos_of (x : nat) (l : list nat) : option nat :=
    match l with [] => None | y :: tl => if x =? y then Some 0 else option_map S (pos_of x tl) end.

  Inductive lop :=
  | LPushFront (x : T) | LPushBack (x : T) | LPopFront | LPopBack
  | LInsertBefore (v x : T)     (* insert(find(v), x) *)
  | LEraseValue (v : T)         (* p = find(v); if p then erase(p) *)
  | LFind (v : T) | LClear | LEmpty | LEraseNil | LDestroy.
  Inductive lret :=
  | LUnit | LVal (x : T) | LNext (o : option T) | LNotFound | LIdx (o : option nat) | LBool (b : bool).

  Definition dl_step (o : lop) (l : dlist) : res (dlist * lret) :=
    match o with
    | LPushFront x => l' <- dl_pushfront x l ;; Ok (l', LUnit)
    | LPushBack x => l' <- dl_pushback x l ;; Ok (l', LUnit)
    | LPopFront => p <- dl_popfront l ;; Ok (fst p, LVal (snd p))
    | LPopBack => p <- dl_popback l ;; Ok (fst p, LVal (snd p))
    | LInsertBefore v x =>
        p <- dl_find v l ;;
        r <- dl_insert p x l ;;
        match snd r with
        | None => Trap TrapMem
        | Some n => nd <- lget n (larena (fst r)) ;; Ok (fst r, LVal (lval nd))
        end
    | LEraseValue v =>
        p <- dl_find v l ;;
        match p with
        | None => Ok (l, LNotFound)
        | Some _ =>
            r <- dl_erase p l ;;
            match snd r with
            | None => Ok (fst r, LNext None)
            | Some n => nd <- lget n (larena (fst r)) ;; Ok (fst r, LNext (Some (lval nd)))
            end
        end
    | LFind v =>
        p <- dl_find v l ;;
        ix <- dl_walk_idx (S (length (larena l))) (larena l) (lfront l) ;;
        Ok (l, LIdx (match p with None => None | Some i => pos_of i ix end))
    | LClear => l' <- dl_clear l ;; Ok (l', LUnit)
    | LEmpty => Ok (l, LBool (dl_isempty l))
    | LEraseNil => r <- dl_erase None l ;; Ok (fst r, LUnit)
    | LDestroy => l' <- dl_clear l ;; Ok (l', LUnit)
    end.

  Definition ll_step (o : lop) (l : list T) : res (list T * lret) :=
    match o with
    | LPushFront x => Ok (x :: l, LUnit)
    | LPushBack x => Ok (l ++ [x], LUnit)
    | LPopFront => match l with x :: tl => Ok (tl, LVal x) | [] => Trap TrapListEmpty end
    | LPopBack => match nth_error l (length l - 1) with
                  | Some x => Ok (firstn (length l - 1) l, LVal x)
                  | None => Trap TrapListEmpty end
    | LInsertBefore v x => match l_index T teqb v l with
                           | Some i => Ok (l_insert T i x l, LVal x)
                           | None => Ok (l ++ [x], LVal x) end
    | LEraseValue v => match l_index T teqb v l with
                       | Some i => Ok (l_remove T i l, LNext (nth_error l (S i)))
                       | None => Ok (l, LNotFound) end
    | LFind v => Ok (l, LIdx (l_index T teqb v l))
    | LClear => Ok ([], LUnit)
    | LEmpty => Ok (l, LBool (match l with [] => true | _ => false end))
    | LEraseNil => Trap TrapNilNode
    | LDestroy => Ok ([], LUnit)
    end.
  (* ---- a refusing allocator: every push / insert allocates one node with allocator:new, which raises an error
     when the request is refused ([okn]) *)
  Definition dl_step_a (okn : bool) (o : lop) (l : dlist) : res (dlist * lret) :=
    match o with
    | LPushFront _ | LPushBack _ | LInsertBefore _ _ => if okn then dl_step o l else Trap TrapOOM
    | _ => dl_step o l
    end.
End DList.

(* ------------------------------------------------------------------ span.nelua *)
Section Span.
  Variable T : Type.
  (* a span is a window (off, size) of some storage *)
  Definition span_at (i : nat) (s : list T) : res T :=
    match nth_error s i with Some x => Ok x | None => Trap TrapIndex end.
  Definition span_sub (i j : nat) (s : list T) : res (list T) :=
    if (i <=? length s) && (j <=? length s) && (i <=? j) then Ok (firstn (j - i) (skipn i s)) else Trap TrapIndex.
  (* the two functions above are the SPECIFICATION (a span seen as the list of its elements).  The implementation
     is a fat pointer into some storage [mem]: (offset of data, size); s[i] is check(i < size) followed by the raw
     access &data[i] (TrapMem when outside the storage), sub is the check followed by pointer arithmetic. *)
  Record spanw := mkspan { sp_off : nat; sp_size : nat }.
  Definition sp_view (mem : list T) (s : spanw) : list T := firstn (sp_size s) (skipn (sp_off s) mem).
  Definition spw_at (i : nat) (mem : list T) (s : spanw) : res T :=
    if i <? sp_size s then sget (sp_off s + i) mem else Trap TrapIndex.
  Definition spw_sub (i j : nat) (s : spanw) : res spanw :=
    if (i <=? sp_size s) && (j <=? sp_size s) && (i <=? j) then
      if sp_size s =? 0 then Ok (mkspan 0 0)            (* return (@spanT){} *)
      else Ok (mkspan (sp_off s + i) (j - i))           (* {data=&self.data[i], size=j-i} *)
    else Trap TrapIndex.
End Span.

(* ------------------------------------------------------------------ stringbuilder.nelua *)
Section StringBuilder.
  Record sb := mksb { sbdata : list Z; sbsize : nat }.
  Definition sb_empty := mksb [] 0.

  Fixpoint sb_cap_loop (fuel cap needed : nat) : res nat :=
    match fuel with
    | 0 => Trap TrapFuel
    | S f => if cap <? needed then
               let cap' := cap * SB_GROW_MUL_n in
               if cap' <=? SB_INIT_CAP_n then Trap TrapCapOverflow else sb_cap_loop f cap' needed
             else Ok cap
    end.

  (* stringbuilderT_grow: Ok None = returned false *)
  Definition sb_grow (newsize : nat) (b : sb) : res sb :=
    let needed := newsize + 1 in
    let cap := length (sbdata b) in
    if needed <=? cap then Ok b else
    c <- sb_cap_loop (S needed) (if cap =? 0 then SB_INIT_CAP_n else cap) needed ;;
    Ok (mksb (srealloc 0%Z c (sbdata b)) (sbsize b)).

  (* prepare(n): the builder and the length of the returned span (which starts at offset size) *)
  Definition sb_prepare (n : nat) (b : sb) : res (sb * nat) :=
    b1 <- sb_grow (sbsize b + n) b ;;
    Ok (b1, length (sbdata b1) - sbsize b1 - 1).

  (* repaired code (8abaeda): check(newsize == self.size or newsize < self.data.size) *)
  Definition sb_commit (n : nat) (b : sb) : res sb :=
    let newsize := sbsize b + n in
    if (newsize =? sbsize b) || (newsize <? length (sbdata b)) then Ok (mksb (sbdata b) newsize) else Trap TrapNoSpace.

  Definition sb_rollback (n : nat) (b : sb) : res sb :=
    if n =? 0 then Ok b else
    if sbsize b <? n then Trap TrapNoSpace else
    let newsize := sbsize b - n in
    d <- sfill newsize n 0%Z (sbdata b) ;;
    Ok (mksb d newsize).

  Definition sb_resize (n : nat) (b : sb) : res sb :=
    b1 <- sb_grow n b ;;
    d <- (if n <? sbsize b1 then sfill n (sbsize b1 - n) 0%Z (sbdata b1) else Ok (sbdata b1)) ;;
    Ok (mksb d n).

  Definition sb_clear (b : sb) : res sb :=
    d <- (if 0 <? sbsize b then sfill 0 (sbsize b) 0%Z (sbdata b) else Ok (sbdata b)) ;;
    Ok (mksb d 0).

  (* the user writes the bytes xs into the span returned by prepare (raw memory write) *)
  Definition sb_poke (xs : list Z) (b : sb) : res sb :=
    if sbsize b + length xs <=? length (sbdata b)
    then Ok (mksb (overwrite (sbsize b) xs (sbdata b)) (sbsize b)) else Trap TrapMem.

  (* write(s) for a string/span argument *)
  Definition sb_write (xs : list Z) (b : sb) : res sb :=
    if length xs =? 0 then Ok b else
    p <- sb_prepare (length xs) b ;;
    b1 <- sb_poke xs (fst p) ;;
    Ok (mksb (sbdata b1) (sbsize b1 + length xs)).

  (* writebyte(c, n) *)
  Definition sb_writebyte (c : Z) (n : nat) (b : sb) : res sb :=
    if n =? 0 then Ok b else
    p <- sb_prepare n b ;;
    b1 <- sb_poke (repeat c n) (fst p) ;;
    Ok (mksb (sbdata b1) (sbsize b1 + n)).

  (* prepare(n); write xs into the span; commit(#xs) *)
  Definition sb_prepare_write_commit (n : nat) (xs : list Z) (b : sb) : res sb :=
    p <- sb_prepare n b ;;
    if snd p <? length xs then Trap TrapMem else
    b1 <- sb_poke xs (fst p) ;;
    sb_commit (length xs) b1.

  Definition sb_view (b : sb) : list Z := firstn (sbsize b) (sbdata b).
  Definition sb_len (b : sb) := sbsize b.
  (* the byte after the written part (what a cstring cast reads as terminator); None = outside the buffer *)
  Definition sb_nul_slot (b : sb) : option Z := nth_error (sbdata b) (sbsize b).
  Inductive bop :=
  | BWrite (xs : list Z) | BWriteByte (c : Z) (n : nat)
  | BPwc (n : nat) (xs : list Z)     (* prepare(n); write xs into the span; commit(#xs) *)
  | BRollback (n : nat) | BResize (n : nat) | BClear | BPromote
  | BCommitOver (n d : nat)          (* prepare(n); commit(span.size + 1 + d): more than was prepared *)
  | BPrepare (n : nat)
  | BDestroy
  | BWriteParts (parts : list (list Z)).   (* write(a1, a2, ...): every argument rendered to its bytes (integers in
                                             decimal by strconv.int2str, booleans as true/false, strings/spans as is) *)
  Inductive bret := BUnit | BBool (b : bool) | BOkN (b : bool) (n : nat) | BBytes (l : list Z).

  (* the varargs loop of write: each non-empty argument is prepared, copied and accounted *)
  Fixpoint sb_write_parts (parts : list (list Z)) (written : nat) (b : sb) : res (sb * bret) :=
    match parts with
    | [] => Ok (b, BOkN true written)
    | xs :: tl => b1 <- sb_write xs b ;; sb_write_parts tl (written + length xs) b1
    end.

  Definition sb_step (o : bop) (b : sb) : res (sb * bret) :=
    match o with
    | BWrite xs => b' <- sb_write xs b ;; Ok (b', BOkN true (length xs))
    | BWriteByte c n => b' <- sb_writebyte c n b ;; Ok (b', BBool true)
    | BPwc n xs => b' <- sb_prepare_write_commit n xs b ;; Ok (b', BUnit)
    | BRollback n => b' <- sb_rollback n b ;; Ok (b', BUnit)
    | BResize n => b' <- sb_resize n b ;; Ok (b', BBool true)
    | BClear => b' <- sb_clear b ;; Ok (b', BUnit)
    | BPromote => Ok (sb_empty, BBytes (sb_view b))
    | BCommitOver n d => p <- sb_prepare n b ;; b' <- sb_commit (snd p + 1 + d) (fst p) ;; Ok (b', BUnit)
    | BPrepare n => p <- sb_prepare n b ;; Ok (fst p, BUnit)
    | BDestroy => Ok (sb_empty, BUnit)
    | BWriteParts parts => sb_write_parts parts 0 b
    end.

  (* the byte string the builder implements *)
  Definition by_step (o : bop) (l : list Z) : res (list Z * bret) :=
    match o with
    | BWrite xs => Ok (l ++ xs, BOkN true (length xs))
    | BWriteByte c n => Ok (l ++ repeat c n, BBool true)
    | BPwc n xs => Ok (l ++ xs, BUnit)
    | BRollback n => if length l <? n then Trap TrapNoSpace else Ok (firstn (length l - n) l, BUnit)
    | BResize n => Ok (firstn n l ++ repeat 0%Z (n - length l), BBool true)
    | BClear => Ok ([], BUnit)
    | BPromote => Ok ([], BBytes l)
    | BCommitOver n d => Trap TrapNoSpace
    | BPrepare n => Ok (l, BUnit)
    | BDestroy => Ok ([], BUnit)
    | BWriteParts parts => Ok (l ++ concat parts, BOkN true (length (concat parts)))
    end.
  (* ---- allocation failure.  [ok n] tells whether the allocator grants a block of n bytes; a refused
     (re)allocation leaves the span as it was (allocator.nelua spanrealloc0).  stringbuilderT_grow then returns
     false and the operations report failure (false / empty span) without touching the builder. *)
  Definition sb_grow_a (ok : nat -> bool) (newsize : nat) (b : sb) : res (sb * bool) :=
    let needed := newsize + 1 in
    let cap := length (sbdata b) in
    if needed <=? cap then Ok (b, true) else
    match sb_cap_loop (S needed) (if cap =? 0 then SB_INIT_CAP_n else cap) needed with
    | Trap TrapCapOverflow => Ok (b, false)
    | Trap t => Trap t
    | Ok c =>
        let d1 := if ok c then srealloc 0%Z c (sbdata b) else sbdata b in
        let d2 := if length d1 =? c then d1 else if ok needed then srealloc 0%Z needed d1 else d1 in
        Ok (mksb d2 (sbsize b), needed <=? length d2)
    end.

  (* prepare: Ok (b', None) = the empty span was returned *)
  Definition sb_prepare_a (ok : nat -> bool) (n : nat) (b : sb) : res (sb * option nat) :=
    g <- sb_grow_a ok (sbsize b + n) b ;;
    let (b1, r) := g in
    if r then Ok (b1, Some (length (sbdata b1) - sbsize b1 - 1)) else Ok (b1, None).

  (* one argument of write under a refusing allocator: (builder, whether it was written) *)
  Definition sb_write_a (ok : nat -> bool) (xs : list Z) (b : sb) : res (sb * bool) :=
    if length xs =? 0 then Ok (b, true) else
    p <- sb_prepare_a ok (length xs) b ;;
    match snd p with
    | None => Ok (fst p, false)
    | Some _ => b1 <- sb_poke xs (fst p) ;; Ok (mksb (sbdata b1) (sbsize b1 + length xs), true)
    end.
  (* write(a1, a2, ...) stops at the first argument that cannot be stored: `return false, written` *)
  Fixpoint sb_write_parts_a (ok : nat -> bool) (parts : list (list Z)) (written : nat) (b : sb) : res (sb * bret) :=
    match parts with
    | [] => Ok (b, BOkN true written)
    | xs :: tl => r <- sb_write_a ok xs b ;;
                  if snd r then sb_write_parts_a ok tl (written + length xs) (fst r) else Ok (fst r, BOkN false written)
    end.

  Definition sb_step_a (ok : nat -> bool) (o : bop) (b : sb) : res (sb * bret) :=
    match o with
    | BWrite xs => r <- sb_write_a ok xs b ;; Ok (fst r, if snd r then BOkN true (length xs) else BOkN false 0)
    | BWriteParts parts => sb_write_parts_a ok parts 0 b
    | BWriteByte c n =>
        if n =? 0 then Ok (b, BBool true) else
        p <- sb_prepare_a ok n b ;;
        match snd p with
        | None => Ok (fst p, BBool false)
        | Some _ => b1 <- sb_poke (repeat c n) (fst p) ;; Ok (mksb (sbdata b1) (sbsize b1 + n), BBool true)
        end
    | BPwc n xs =>
        p <- sb_prepare_a ok n b ;;
        match snd p with
        | None => b' <- sb_commit 0 (fst p) ;; Ok (b', BBool false)      (* empty span: nothing can be written *)
        | Some sp => if sp <? length xs then Trap TrapMem else
                     b1 <- sb_poke xs (fst p) ;; b' <- sb_commit (length xs) b1 ;; Ok (b', BUnit)
        end
    | BResize n =>
        g <- sb_grow_a ok n b ;;
        let (b1, r) := g in
        if negb r then Ok (b1, BBool false) else
        d <- (if n <? sbsize b1 then sfill n (sbsize b1 - n) 0%Z (sbdata b1) else Ok (sbdata b1)) ;;
        Ok (mksb d n, BBool true)
    | BPrepare n => p <- sb_prepare_a ok n b ;; Ok (fst p, match snd p with None => BBool false | Some _ => BUnit end)
    | BCommitOver n d =>
        p <- sb_prepare_a ok n b ;;
        b' <- sb_commit (match snd p with Some sp => sp | None => 0 end + 1 + d) (fst p) ;; Ok (b', BUnit)
    | _ => sb_step o b
    end.
End StringBuilder.

(* ------------------------------------------------------------------ hash.nelua *)
Section Hash.
  Local Open Scope Z_scope.
  Definition w64 (x : Z) : Z := x mod M64.

  (* lhash(data, len, seed, step) *)
  Fixpoint lhash_loop (fuel : nat) (data : list Z) (len seed step : Z) : Z :=
    match fuel with
    | O => seed
    | S f =>
        if len >=? step then
          let b := nth (Z.to_nat (len - 1)) data 0 in
          let seed' := Z.lxor seed (w64 (w64 (Z.shiftl seed 5) + Z.shiftr seed 2 + b)) in
          lhash_loop f data (len - step) seed' step
        else seed
    end.
  Definition lhash (data : list Z) (seed step : Z) : Z :=
    let len := Z.of_nat (length data) in
    lhash_loop (S (length data)) data len (Z.lxor seed len) step.
  (* the same loop with nothing defaulted: None when the fuel runs out or when data[len - 1] lies outside the
     data.  ProofsHash.lhash_total: for step >= 1 it always answers, and answers [lhash] - so neither the fuel
     bound nor the default of [nth] above is ever used. *)
  Fixpoint lhash_loop_o (fuel : nat) (data : list Z) (len seed step : Z) : option Z :=
    match fuel with
    | O => None
    | S f =>
        if len >=? step then
          match nth_error data (Z.to_nat (len - 1)) with
          | None => None
          | Some b =>
              let seed' := Z.lxor seed (w64 (w64 (Z.shiftl seed 5) + Z.shiftr seed 2 + b)) in
              lhash_loop_o f data (len - step) seed' step
          end
        else Some seed
    end.
  Definition lhash_o (data : list Z) (seed step : Z) : option Z :=
    let len := Z.of_nat (length data) in
    lhash_loop_o (S (length data)) data len (Z.lxor seed len) step.
  Definition hash_short (data : list Z) : Z := lhash data HASH_SEED 1.
  Definition hash_long (data : list Z) : Z :=
    lhash data HASH_SEED (Z.shiftr (Z.of_nat (length data)) 5 + 1).
  Definition hash_combine (seed value : Z) : Z :=
    Z.lxor seed (w64 (value + HASH_SEED + w64 (Z.shiftl seed 6) + Z.shiftr seed 2)).

  Definition hash_int (v : Z) : Z := w64 v.                 (* (@usize)(v) *)
  Definition hash_bool (b : bool) : Z := if b then 1 else 0.

  (* float64 given by its IEEE-754 bit pattern 0 <= bits < 2^64 *)
  Definition f_sign (bits : Z) : bool := Z.testbit bits 63.
  Definition f_exp (bits : Z) : Z := Z.land (Z.shiftr bits 52) 2047.
  Definition f_frac (bits : Z) : Z := Z.land bits (2 ^ 52 - 1).
  Definition f_iszero (bits : Z) : bool := (f_exp bits =? 0) && (f_frac bits =? 0).
  Definition f_isnan (bits : Z) : bool := (f_exp bits =? 2047) && negb (f_frac bits =? 0).
  Definition f_isinf (bits : Z) : bool := (f_exp bits =? 2047) && (f_frac bits =? 0).
  (* a == b on floats *)
  Definition f_eqb (a b : Z) : bool :=
    negb (f_isnan a) && negb (f_isnan b) && ((a =? b) || (f_iszero a && f_iszero b)).

  (* frexp(v) * 2^63 as an exact integer, and the exponent *)
  Definition f_frexp63 (bits : Z) : Z * Z :=
    let e := f_exp bits in
    let fr := f_frac bits in
    let '(m, ne) :=
      if e =? 0 then let k := Z.log2 fr + 1 in (Z.shiftl fr (63 - k), k - 1074)
      else (Z.shiftl (2 ^ 52 + fr) 10, e - 1022) in
    (if f_sign bits then - m else m, ne).

  Definition hash_float (bits : Z) : Z :=
    if f_iszero bits || f_isnan bits || f_isinf bits then 0 else
    let '(m, ne) := f_frexp63 bits in
    let u := w64 (w64 m + w64 ne) in
    if u <? 2 ^ 63 - 1 then u else M64 - 1 - u.

  (* strings: hash.long over the bytes; string.__eq: equal sizes and (same pointer, or empty, or memory.equals) -
     as a function of the contents: the same bytes *)
  Definition hash_string (s : list Z) : Z := hash_long s.
  Fixpoint bytes_eqb (a b : list Z) : bool :=
    match a, b with
    | [], [] => true
    | x :: a', y :: b' => (x =? y) && bytes_eqb a' b'
    | _, _ => false
    end.
  Definition str_eqb (a b : list Z) : bool := (length a =? length b)%nat && bytes_eqb a b.

  (* float32 given by its IEEE-754 bit pattern 0 <= bits < 2^32: the same code path with frexpf; the product
     frexpf(v) * 2^63 is exact in float32 (24 significant bits times a power of two) *)
  Definition g_sign (bits : Z) : bool := Z.testbit bits 31.
  Definition g_exp (bits : Z) : Z := Z.land (Z.shiftr bits 23) 255.
  Definition g_frac (bits : Z) : Z := Z.land bits (2 ^ 23 - 1).
  Definition g_iszero (bits : Z) : bool := (g_exp bits =? 0) && (g_frac bits =? 0).
  Definition g_isnan (bits : Z) : bool := (g_exp bits =? 255) && negb (g_frac bits =? 0).
  Definition g_isinf (bits : Z) : bool := (g_exp bits =? 255) && (g_frac bits =? 0).
  Definition g_eqb (a b : Z) : bool :=
    negb (g_isnan a) && negb (g_isnan b) && ((a =? b) || (g_iszero a && g_iszero b)).
  Definition g_frexp63 (bits : Z) : Z * Z :=
    let e := g_exp bits in
    let fr := g_frac bits in
    let '(m, ne) :=
      if e =? 0 then let k := Z.log2 fr + 1 in (Z.shiftl fr (63 - k), k - 149)
      else (Z.shiftl (2 ^ 23 + fr) 39, e - 126) in
    (if g_sign bits then - m else m, ne).
  Definition hash_float32 (bits : Z) : Z :=
    if g_iszero bits || g_isnan bits || g_isinf bits then 0 else
    let '(m, ne) := g_frexp63 bits in
    let u := w64 (w64 m + w64 ne) in
    if u <? 2 ^ 63 - 1 then u else M64 - 1 - u.

  (* records without __hash and arrays: the element/field hashes folded with hash.combine (0 when there is none) *)
  Definition hash_fold (hs : list Z) : Z :=
    match hs with
    | [] => 0
    | h :: tl => fold_left hash_combine tl h
    end.
  Definition hash_array {A : Type} (elem_hash : A -> Z) (xs : list A) : Z := hash_fold (map elem_hash xs).
  (* pointers: the address shifted by floor(log2(1 + size of the pointee)) (4 for untyped pointers) *)
  Definition hash_ptr (addr shift : Z) : Z := Z.shiftr (w64 addr) shift.
  (* spans and unions: hash.long over their bytes; 64-bit little-endian bytes of an integer element *)
  Definition le_bytes8 (v : Z) : list Z :=
    map (fun i => Z.land (Z.shiftr (w64 v) (8 * Z.of_nat i)) 255) [0; 1; 2; 3; 4; 5; 6; 7]%nat.
  Definition hash_span_int (xs : list Z) : Z := hash_long (concat (map le_bytes8 xs)).
  Definition hash_union8 (v : Z) : Z := hash_long (le_bytes8 v).
  (* a record with a __hash metamethod hashes to whatever the method returns *)
  Definition hash_custom {A : Type} (user_hash : A -> Z) (v : A) : Z := w64 (user_hash v).

  (* record{a: integer, b: number}: field-wise hash and equality *)
  Definition hash_rec (a : Z) (fbits : Z) : Z := hash_combine (hash_int a) (hash_float fbits).
  Definition rec_eqb (a1 f1 a2 f2 : Z) : bool := (a1 =? a2) && f_eqb f1 f2.
End Hash.

(* ------------------------------------------------------------------ instance used by the
   correspondence driver: elements/keys are integer tokens.  A token t >= NZ_OFF stands for the
   "negative zero" variant of the value t - NZ_OFF (float -0.0, record with b = -0.0): it is == to
   its base token, exactly as in Nelua.  Observable behaviour of the containers does not depend on
   the hash values, so the token hash only needs to be coherent with [tok_eqb]. *)
Section Tokens.
  Local Open Scope Z_scope.
  Definition NZ_OFF : Z := 2 ^ 40.
  (* a token t >= NAN_OFF stands for a value that is not == to anything, itself included (float NaN, record with
     a NaN field) *)
  Definition NAN_OFF : Z := 2 ^ 41.
  Definition tok_isnan (t : Z) : bool := t >=? NAN_OFF.
  Definition tok_canon (t : Z) : Z := if t >=? NZ_OFF then t - NZ_OFF else t.
  Definition tok_eqb (a b : Z) : bool := negb (tok_isnan a) && negb (tok_isnan b) && (tok_canon a =? tok_canon b).
  Definition tok_hash (t : Z) : Z := hash_int (tok_canon t).
  (* weak hash: many collisions, long chains *)
  Definition tok_hash_weak (t : Z) : Z := hash_int (tok_canon t) mod 4.
  (* predicate family for removeif / erase during iteration *)
  Definition tok_pred (m r t : Z) : bool := tok_canon t mod m =? r.
End Tokens.

(* ------------------------------------------------------------------ iterators.nelua
   `for c, e in f, s, c0 do body end` calls f(s, c) with the previous control value until it answers false.  The
   iterator functions are stateless: ipairs/mipairs/pairs/mpairs return (function, container, initial control), next
   and mnext are the function itself.  The container is threaded as a state because an element access may touch it
   (sequence.__atindex initialises) and because mipairs/mpairs hand out references through which the body writes. *)
Section ForLoop.
  Variables St C E : Type.
  (* the loop with a body that only records what it is given: the visited (control, element) pairs, in order *)
  Fixpoint for_in (fuel : nat) (nxt : St -> C -> res (St * option (C * E))) (s : St) (c : C) : res (St * list (C * E)) :=
    match fuel with
    | 0 => Trap TrapFuel
    | S f =>
        r <- nxt s c ;;
        match snd r with
        | None => Ok (fst r, [])
        | Some (c', e) => q <- for_in f nxt (fst r) c' ;; Ok (fst q, (c', e) :: snd q)
        end
    end.
  (* the loop with a body that acts on the container (through the references it is given) *)
  Fixpoint for_do (fuel : nat) (nxt : St -> C -> res (St * option (C * E))) (body : C -> E -> St -> res St)
                  (s : St) (c : C) : res St :=
    match fuel with
    | 0 => Trap TrapFuel
    | S f =>
        r <- nxt s c ;;
        match snd r with
        | None => Ok (fst r)
        | Some (c', e) => s' <- body c' e (fst r) ;; for_do f nxt body s' c'
        end
    end.
  (* impl_ipairs_next / impl_mipairs_next: k = k + 1; if k >= #a + (1 when one-indexed) then false else a[k] / &a[k].
     The step, the comparison, the one-indexing offsets and the initial controls are scraped from iterators.nelua
     (Gen.v: IP_STEP, IP_STOP_GE, IP_OFF_ONE / IP_OFF_ZERO, IP_INIT_ONE / IP_INIT_ZERO). *)
  Definition ip_stop (bound k' : Z) : bool := if (IP_STOP_GE =? 1)%Z then (bound <=? k')%Z else (bound <? k')%Z.
  Definition ip_next (one : nat) (len : St -> nat) (at_ : nat -> St -> res (St * E)) (s : St) (k : Z)
    : res (St * option (Z * E)) :=
    let k' := (k + IP_STEP)%Z in
    if ip_stop (Z.of_nat (len s + one)) k' then Ok (s, None)
    else p <- at_ (Z.to_nat k') s ;; Ok (fst p, Some (k', snd p)).
End ForLoop.

Section Iterators.
  Variable T : Type.
  Variable dflt : T.
  (* ---- vector: zero-indexed, initial control -1.  A reference &v[i] is the index of the cell in the storage. *)
  Definition vec_get (i : nat) (v : vec T) : res (vec T * T) := x <- vec_at T i v ;; Ok (v, x).
  Definition vec_ref (i : nat) (v : vec T) : res (vec T * nat) := if vsize T v <=? i then Trap TrapPos else Ok (v, i).
  Definition vec_ref_read (r : nat) (v : vec T) : res T := sget r (vdata T v).
  Definition vec_ref_write (r : nat) (x : T) (v : vec T) : res (vec T) :=
    d <- sset r x (vdata T v) ;; Ok (mkvec T d (vsize T v)).
  Definition vec_ipairs_next := ip_next (vec T) T (Z.to_nat IP_OFF_ZERO) (vec_len T) vec_get.          (* also next(v, k) and pairs(v) *)
  Definition vec_mipairs_next := ip_next (vec T) nat (Z.to_nat IP_OFF_ZERO) (vec_len T) vec_ref.       (* also mnext(v, k) and mpairs(v) *)
  Definition vec_ipairs (v : vec T) := for_in (vec T) Z T (S (vec_len T v)) vec_ipairs_next v IP_INIT_ZERO.
  (* for i, x in mipairs(v) do $x = f($x) end *)
  Definition vec_mipairs_map (f : T -> T) (v : vec T) : res (vec T) :=
    for_do (vec T) Z nat (S (vec_len T v)) vec_mipairs_next
           (fun _ r v => x <- vec_ref_read r v ;; vec_ref_write r (f x) v) v IP_INIT_ZERO.
  (* ---- sequence: one-indexed, initial control 0; the access is sequence.__atindex *)
  Definition seq_ipairs_next := ip_next (seq T) T (Z.to_nat IP_OFF_ONE) (seq_len T) (seq_get T dflt).
  Definition seq_pairs (s : seq T) := for_in (seq T) Z T (S (seq_len T s)) seq_ipairs_next s IP_INIT_ONE.
  (* ---- span: the storage is fixed, the container is the fat pointer *)
  Definition span_ipairs_next (mem : list T) :=
    ip_next spanw T (Z.to_nat IP_OFF_ZERO) sp_size (fun i w => x <- spw_at T i mem w ;; Ok (w, x)).
  Definition span_ipairs (mem : list T) (w : spanw) := for_in spanw Z T (S (sp_size w)) (span_ipairs_next mem) w IP_INIT_ZERO.
  (* ---- list: listT.__next / __mnext; the control is the node pointer (nilptr first); a reference is the node *)
  Definition dl_next_node (node : option nat) (d : dlist T) : res (option nat) :=
    match node with
    | None => Ok (lfront T d)
    | Some i => nd <- lget T i (larena T d) ;; Ok (lnext T nd)
    end.
  Definition dl_next (d : dlist T) (node : option nat) : res (dlist T * option (option nat * T)) :=
    nn <- dl_next_node node d ;;
    match nn with
    | None => Ok (d, None)
    | Some j => nd <- lget T j (larena T d) ;; Ok (d, Some (Some j, lval T nd))
    end.
  Definition dl_mnext (d : dlist T) (node : option nat) : res (dlist T * option (option nat * nat)) :=
    nn <- dl_next_node node d ;;
    match nn with
    | None => Ok (d, None)
    | Some j => nd <- lget T j (larena T d) ;; Ok (d, Some (Some j, j))
    end.
  Definition dl_pairs (d : dlist T) := for_in (dlist T) (option nat) T (S (length (larena T d))) dl_next d None.
  Definition set_lval (x : T) (nd : lnode T) := mklnode T (lprev T nd) (lnext T nd) x (lalive T nd).
  (* for node, x in mpairs(l) do $x = f($x) end *)
  Definition dl_mpairs_map (f : T -> T) (d : dlist T) : res (dlist T) :=
    for_do (dlist T) (option nat) nat (S (length (larena T d))) dl_mnext
           (fun _ r d => a <- lupd T r (fun nd => set_lval (f (lval T nd)) nd) (larena T d) ;;
                         Ok (mkdl T a (lfront T d) (lback T d))) d None.
End Iterators.

Section HashMapIterators.
  Variables K V : Type.
  (* hashmap_iteratorT {container, index}: next/mnext ignore the key; the control carried here is the index *)
  Definition hm_it_next (m : hmap K V) (it : option nat) : res (hmap K V * option (option nat * (K * V))) :=
    Ok (m, match hm_iter_next K V it m with
           | None => None
           | Some (i, nd) => Some (Some i, (nkey K V nd, nval K V nd))
           end).
  Definition hm_it_mnext (m : hmap K V) (it : option nat) : res (hmap K V * option (option nat * nat)) :=
    Ok (m, match hm_iter_next K V it m with
           | None => None
           | Some (i, nd) => Some (Some i, i)
           end).
  Definition hm_for_pairs (m : hmap K V) :=
    for_in (hmap K V) (option nat) (K * V) (S (length (hnodes K V m))) hm_it_next m None.
  (* for k, v in mpairs(m) do $v = f($v) end : the reference is the node whose value field is written *)
  Definition hm_for_mpairs (f : V -> V) (m : hmap K V) : res (hmap K V) :=
    for_do (hmap K V) (option nat) nat (S (length (hnodes K V m))) hm_it_mnext
           (fun _ r m => nd <- sget r (hnodes K V m) ;;
                         ns <- sset r (set_val K V (f (nval K V nd)) nd) (hnodes K V m) ;;
                         Ok (mkhm K V (hbuckets K V m) ns (hsize K V m) (hfree K V m))) m None.
End HashMapIterators.

(* select(i, ...) on the argument list: a positive i drops i-1 arguments, a negative one counts from the end;
   select('#', ...) is the number of arguments.  Out-of-range indices are compile-time errors. *)
Definition select_from {A} (i : Z) (args : list A) : option (list A) :=
  if ((1 <=? i) && (i <=? Z.of_nat (length args)))%Z then Some (skipn (Z.to_nat (i - 1)) args)
  else if ((i <=? -1) && (- Z.of_nat (length args) <=? i))%Z then Some (skipn (Z.to_nat (Z.of_nat (length args) + i)) args)
  else None.
Definition select_count {A} (args : list A) : nat := length args.

(* ====================================================================================================
   Part II - the vocabulary of the theorem statements (coq/C12/Properties.v): well-formedness predicates and
   representation invariants, abstraction functions, whole-history runners, the relations between concrete and
   abstract states and results, and the bounds that appear in the statements.  Definitions only; every lemma
   about them lives in the Proofs*.v files.  Nothing here is extracted.
   ==================================================================================================== *)
From Coq Require Import Permutation.

(* ---- vector: size within the allocation; histories *)
Section SpecVector.
  Variable T : Type.
  Variable dflt : T.
  Variable teqb : T -> T -> bool.
  Definition vec_wf (v : vec T) : Prop := vsize T v <= length (vdata T v).

  Fixpoint vec_run (ops : list (cop T)) (v : vec T) : res (vec T * list (cret T)) :=
    match ops with
    | [] => Ok (v, [])
    | o :: tl => p <- vec_step T dflt teqb o v ;; q <- vec_run tl (fst p) ;; Ok (fst q, snd p :: snd q)
    end.

  Fixpoint lst_run (ops : list (cop T)) (l : list T) : res (list T * list (cret T)) :=
    match ops with
    | [] => Ok (l, [])
    | o :: tl => p <- lst_step T dflt teqb o l ;; q <- lst_run tl (fst p) ;; Ok (fst q, snd p :: snd q)
    end.

End SpecVector.

(* ---- sequence: an uninitialised sequence is empty; an allocated one keeps slot 0 (never part of the contents) and
   size < capacity.  The abstract state is (slot 0, elements 1..size). *)
Section SpecSequence.
  Variable T : Type.
  Variable dflt : T.
  Variable teqb : T -> T -> bool.
  Definition seq_wf (s : seq T) : Prop :=
    (sinit T s = false -> sdata T s = [] /\ ssize T s = 0) /\
    ((sdata T s = [] /\ ssize T s = 0) \/ ssize T s < length (sdata T s)).

  Definition slot0 (d : list T) : T := match nth_error d 0 with Some x => x | None => dflt end.

  Definition seq_abs (s : seq T) : T * list T := (slot0 (sdata T s), firstn (ssize T s) (skipn 1 (sdata T s))).

  Fixpoint seq_run (ops : list (cop T)) (s : seq T) : res (seq T * list (cret T)) :=
    match ops with
    | [] => Ok (s, [])
    | o :: tl => p <- seq_step T dflt teqb o s ;; q <- seq_run tl (fst p) ;; Ok (fst q, snd p :: snd q)
    end.

  Fixpoint sq_run (ops : list (cop T)) (st : T * list T) : res ((T * list T) * list (cret T)) :=
    match ops with
    | [] => Ok (st, [])
    | o :: tl => p <- sq_step T dflt teqb o st ;; q <- sq_run tl (fst p) ;; Ok (fst q, snd p :: snd q)
    end.

End SpecSequence.

(* ---- association lists: lookup returning the stored binding; keys pairwise not == *)
Section SpecAL.
  Variables K V : Type.
  Variable keqb : K -> K -> bool.
  Fixpoint al_find (k : K) (al : list (K * V)) : option (K * V) :=
    match al with
    | [] => None
    | kv :: tl => if keqb k (fst kv) then Some kv else al_find k tl
    end.

  Definition keys_nodup (al : list (K * V)) : Prop :=
    ForallOrdPairs (fun a b => keqb (fst a) (fst b) = false) al.

End SpecAL.

(* ---- hashmap *)
Section SpecHashMap.
  Variables K V : Type.
  Variable kdflt : K.
  Variable vdflt : V.
  Variable keqb : K -> K -> bool.
  Variable khash : K -> Z.
  Notation node := (hnode K V).
  Notation hmap := (hmap K V).

  (* chain segments: following next from [s] visits exactly the node indices [l] and ends with pointer [e] *)
  Inductive Seg (ns : list node) : option nat -> list nat -> option nat -> Prop :=
  | Seg_nil : forall s, Seg ns s [] s
  | Seg_cons : forall i nd l e, nth_error ns i = Some nd -> Seg ns (nnext K V nd) l e -> Seg ns (Some i) (i :: l) e.

  (* the representation invariant, with its witnesses: [ch b] = the chain of bucket b, [fl] = the free list.
     Chains and free list are duplicate-free segments ending in INVALID; every node is on exactly the structure its
     flag says; a chained node is filled and hashes to its bucket; filled keys are pairwise not ==; size counts the
     filled nodes; the node array has the load-factor capacity and, once allocated, a free node. *)
  Definition MAXLF := HM_MAXLF_n.

  Record hm_inv_w (m : hmap) (ch : nat -> list nat) (fl : list nat) : Prop := {
    inv_ch : forall b, b < length (hbuckets K V m) ->
               exists s, nth_error (hbuckets K V m) b = Some s /\ Seg (hnodes K V m) s (ch b) None;
    inv_fl : Seg (hnodes K V m) (hfree K V m) fl None;
    inv_nd : forall b, b < length (hbuckets K V m) -> NoDup (ch b);
    inv_ndf : NoDup fl;
    inv_cov : forall i nd, nth_error (hnodes K V m) i = Some nd ->
                if nfilled K V nd then exists b, b < length (hbuckets K V m) /\ In i (ch b) else In i fl;
    inv_fill : forall b i nd, b < length (hbuckets K V m) -> In i (ch b) -> nth_error (hnodes K V m) i = Some nd ->
                 nfilled K V nd = true /\ hashmod (khash (nkey K V nd)) (length (hbuckets K V m)) = b;
    inv_unf : forall i nd, In i fl -> nth_error (hnodes K V m) i = Some nd -> nfilled K V nd = false;
    inv_keys : forall i j ni nj, nth_error (hnodes K V m) i = Some ni -> nth_error (hnodes K V m) j = Some nj ->
                 nfilled K V ni = true -> nfilled K V nj = true -> keqb (nkey K V ni) (nkey K V nj) = true -> i = j;
    inv_size : hsize K V m = length (filter (nfilled K V) (hnodes K V m));
    inv_emp : length (hbuckets K V m) = 0 -> hnodes K V m = [];
    inv_cap : length (hbuckets K V m) * MAXLF <= length (hnodes K V m) * 100;
    inv_cap2 : length (hnodes K V m) <= ceilidiv (length (hbuckets K V m) * MAXLF) 100 + 1;
    inv_room : 0 < length (hbuckets K V m) -> hsize K V m < length (hnodes K V m)
  }.

  Definition hm_inv (m : hmap) : Prop := exists ch fl, hm_inv_w m ch fl.

  (* the bindings in node order (= iteration order) *)
  Definition abs_of (ns : list node) : list (K * V) :=
    map (fun nd => (nkey K V nd, nval K V nd)) (filter (nfilled K V) ns).

  Definition hm_abs (m : hmap) : list (K * V) := abs_of (hnodes K V m).

  (* concrete map ~ association list: invariant + the same bindings as a multiset; results are equal except
     iteration results, which are permutations of each other *)
  Definition hm_R (m : hmap) (al : list (K * V)) : Prop := hm_inv m /\ Permutation (hm_abs m) al.

  Definition ret_rel (r1 r2 : hret K V) : Prop :=
    match r1, r2 with
    | HList _ _ l1, HList _ _ l2 => Permutation l1 l2
    | _, _ => r1 = r2
    end.

  (* what erase-while-iterating keeps: a selected binding stays only if its key is not == to itself (never found) *)
  Definition keep (pred : K -> V -> bool) (kv : K * V) : bool := negb (pred (fst kv) (snd kv) && keqb (fst kv) (fst kv)).

  (* the largest bucket count an inserting access can request from a map holding s bindings (the initial
     allocation, and the growth rehash after the insertion); the largest bucket count operation o can request
     of a map holding s bindings (0: it requests nothing); the count argument of reserve/rehash *)
  Definition at_request (s : nat) : nat :=
    Nat.max (Nat.max HM_INIT_n (ceilidiv (s * 100) HM_MAXLF_n))
            (Nat.max (ceilidiv ((s + 1) * HM_GROW_n) HM_MAXLF_n) (ceilidiv ((s + 1) * 100) HM_MAXLF_n)).

  Definition hop_request (o : hop K V) (s : nat) : nat :=
    match o with
    | HSet _ _ _ _ | HGet _ _ _ => at_request s
    | HReserve _ _ n => Nat.max (ceilidiv (n * 100) HM_MAXLF_n) (ceilidiv (s * 100) HM_MAXLF_n)
    | HRehash _ _ n => Nat.max n (ceilidiv (s * 100) HM_MAXLF_n)
    | _ => 0
    end.

  Definition hop_count (o : hop K V) : nat :=
    match o with HReserve _ _ n | HRehash _ _ n => n | _ => 0 end.

  (* whole histories: concrete map, association-list specification, hash-free flat map *)
  Fixpoint hm_run (ops : list (hop K V)) (m : hmap) : res (hmap * list (hret K V)) :=
    match ops with
    | [] => Ok (m, [])
    | o :: tl => p <- hm_step K V kdflt vdflt keqb khash o m ;; q <- hm_run tl (fst p) ;; Ok (fst q, snd p :: snd q)
    end.

  Fixpoint al_run (ops : list (hop K V)) (al : list (K * V)) : res (list (K * V) * list (hret K V)) :=
    match ops with
    | [] => Ok (al, [])
    | o :: tl => p <- al_step K V vdflt keqb o al ;; q <- al_run tl (fst p) ;; Ok (fst q, snd p :: snd q)
    end.

  Fixpoint fm_run (ops : list (hop K V)) (m : hmap) : res (hmap * list (hret K V)) :=
    match ops with
    | [] => Ok (m, [])
    | o :: tl => p <- fm_step K V kdflt vdflt keqb o m ;; q <- fm_run tl (fst p) ;; Ok (fst q, snd p :: snd q)
    end.
End SpecHashMap.

(* ---- stringbuilder: empty and unallocated, or size < capacity (the NUL slot exists), capacity at least the initial
   one, and every byte from [size] on is zero; [sb_wf_a]: the same without the capacity floor (fallback allocations);
   the protocol conditions on prepare/commit; what an operation returns when its allocation was refused; histories *)
Definition sb_wf (b : sb) : Prop :=
  (sbdata b = [] /\ sbsize b = 0) \/
  (sbsize b < length (sbdata b) /\ SB_INIT_CAP_n <= length (sbdata b) /\
   forall i, sbsize b <= i -> i < length (sbdata b) -> nth_error (sbdata b) i = Some 0%Z).

Definition sb_wf_a (b : sb) : Prop :=
  (sbdata b = [] /\ sbsize b = 0) \/
  (sbsize b < length (sbdata b) /\
   forall i, sbsize b <= i -> i < length (sbdata b) -> nth_error (sbdata b) i = Some 0%Z).

Definition sb_op_ok (o : bop) : Prop :=
  match o with
  | BPwc n xs => length xs <= n          (* at most the n bytes asked for are written into the span *)
  | _ => True
  end.

Definition sb_op_ok_at (b : sb) (o : bop) : Prop :=
  match o with
  | BPwc n xs => forall p, sb_prepare n b = Ok p -> length xs <= snd p
  | _ => True
  end.

Definition sb_op_ok_a (o : bop) : Prop :=
  match o with
  | BPwc n xs => length xs <= n
  | BCommitOver _ _ => False     (* with an empty span "span length + 1" may lie inside the buffer: not a violation *)
  | BWriteParts _ => False       (* may be written in part: see sb_write_parts_a_ok *)
  | _ => True
  end.

Definition sb_failure (o : bop) (r : bret) : Prop :=
  match o with
  | BWrite _ => r = BOkN false 0
  | BWriteByte _ _ | BResize _ | BPwc _ _ | BPrepare _ => r = BBool false
  | _ => False
  end.

Fixpoint sb_run (ops : list bop) (b : sb) : res (sb * list bret) :=
  match ops with
  | [] => Ok (b, [])
  | o :: tl => p <- sb_step o b ;; q <- sb_run tl (fst p) ;; Ok (fst q, snd p :: snd q)
  end.

Fixpoint by_run (ops : list bop) (l : list Z) : res (list Z * list bret) :=
  match ops with
  | [] => Ok (l, [])
  | o :: tl => p <- by_step o l ;; q <- by_run tl (fst p) ;; Ok (fst q, snd p :: snd q)
  end.


(* ---- span: the window lies inside the storage *)
Definition sp_wf {T} (mem : list T) (s : spanw) : Prop := sp_off s + sp_size s <= length mem.


(* ---- list (doubly linked): [l] lists the node indices front to back; every listed node is alive and its prev/next
   are exactly its neighbours in [l]; front/back are the ends; the contents are the values in that order *)
Section SpecDList.
  Variable T : Type.
  Variable dflt : T.
  Variable teqb : T -> T -> bool.
  Notation lnode := (lnode T).
  Notation dlist := (dlist T).
  Notation larena := (larena T).
  Notation lfront := (lfront T).
  Notation lback := (lback T).
  Notation lprev := (lprev T).
  Notation lnext := (lnext T).
  Notation lval := (lval T).
  Notation lalive := (lalive T).
  Definition node_ok (a : list lnode) (l : list nat) (k i : nat) : Prop :=
    exists nd, nth_error a i = Some nd /\ lalive nd = true /\
               lprev nd = (if k =? 0 then None else nth_error l (k - 1)) /\ lnext nd = nth_error l (S k).

  Definition dl_wf (d : dlist) (l : list nat) : Prop :=
    NoDup l /\ lfront d = nth_error l 0 /\
    lback d = (if length l =? 0 then None else nth_error l (length l - 1)) /\
    forall k i, nth_error l k = Some i -> node_ok (larena d) l k i.

  Definition val_at (a : list lnode) (i : nat) : T := match nth_error a i with Some nd => lval nd | None => dflt end.

  Definition vals (a : list lnode) (l : list nat) : list T := map (val_at a) l.

  Fixpoint dl_run (ops : list (lop T)) (d : dlist) : res (dlist * list (lret T)) :=
    match ops with
    | [] => Ok (d, [])
    | o :: tl => p <- dl_step T teqb o d ;; q <- dl_run tl (fst p) ;; Ok (fst q, snd p :: snd q)
    end.

  Fixpoint ll_run (ops : list (lop T)) (l : list T) : res (list T * list (lret T)) :=
    match ops with
    | [] => Ok (l, [])
    | o :: tl => p <- ll_step T teqb o l ;; q <- ll_run tl (fst p) ;; Ok (fst q, snd p :: snd q)
    end.

End SpecDList.
