(* C12 model-side driver: reads the same `op a b c` lines as harness/C12/driver.nelua, runs the
   extracted concrete model (vec_step, seq_step, hm_step, dl_step, sb_step ...) and the extracted
   abstract specification (lst_step, sq_step, al_step, ll_step, by_step) side by side and prints
   `<model line> || <spec line>` per operation, in the text format of the Nelua driver.
   A Trap outcome prints `TRAP <name>` and leaves the state unchanged. *)
open Model
open Zutil

let z_of_i64 (x : int64) : z =
  if Int64.compare x 0L >= 0 then z_of_hex (Printf.sprintf "%Lx" x)
  else if x = Int64.min_int then z_of_hex "-8000000000000000"
  else z_of_hex ("-" ^ Printf.sprintf "%Lx" (Int64.neg x))
(* the 64-bit pattern of x as an unsigned number *)
let zbits_of_i64 (x : int64) : z = z_of_hex (Printf.sprintf "%Lx" x)
let dec_of_z (x : z) : string =
  let h = hex_of_z x in
  if String.length h > 0 && h.[0] = '-' then
    "-" ^ Printf.sprintf "%Lu" (Int64.of_string ("0x" ^ String.sub h 1 (String.length h - 1)))
  else Printf.sprintf "%Lu" (Int64.of_string ("0x" ^ h))
let nat_of_i64 (x : int64) : nat = nat_of_int (Int64.to_int x)
let sn n = string_of_int (int_of_nat n)

let trap_name = function
  | TrapPopEmpty -> "PopEmpty" | TrapPos -> "Pos" | TrapIndex -> "Index" | TrapNoSpace -> "NoSpace"
  | TrapInvalidKey -> "InvalidKey" | TrapListEmpty -> "ListEmpty" | TrapNilNode -> "NilNode"
  | TrapCapOverflow -> "CapOverflow" | TrapOverflow -> "Overflow" | TrapCompact -> "Compact"
  | TrapMem -> "Mem" | TrapFuel -> "Fuel" | TrapUnpack -> "Unpack" | TrapOOM -> "OOM"

let dumpmode = ref 0
let hm_mod = 2147483647
let emodi a b = ((a mod b) + b) mod b
(* tokens fit in an OCaml int (|t| < 2^42) *)
let zi (x : z) : int = int_of_z x
let hmix h t = (h * 31 + emodi t hm_mod) mod hm_mod
let pmix k v = (emodi k hm_mod * 7 + emodi v hm_mod * 13 + 1) mod hm_mod
let toks l =
  if !dumpmode = 0 then String.concat "" (List.map (fun t -> " " ^ dec_of_z t) l)
  else Printf.sprintf " #%d" (List.fold_left (fun h t -> hmix h (zi t)) 0 l)
let z0 = z_of_int 0

(* ---------------------------------------------------------------- states *)
let kind = ref 0
let typ = ref 0
let vecs : z vec ref = ref vec_empty
let vspec : z list ref = ref []
let seqs : z seq ref = ref seq_empty
let sspec : (z * z list) ref = ref (z0, [])
let hms : (z, z) hmap ref = ref hm_empty
let hspec : (z * z) list ref = ref []
let dls : z dlist ref = ref dl_empty
let lspec : z list ref = ref []
let sbs : sb ref = ref sb_empty
let bspec : z list ref = ref []
let spans : z list ref = ref []

let khash () = if !kind = 5 then tok_hash_weak else tok_hash
let alloc_limit = ref 0
let alloc_ok (n : nat) : bool = !alloc_limit = 0 || int_of_nat n < !alloc_limit
(* a request for n elements of esize bytes; a reallocation to the current size or to 0 is never refused *)
let alloc_ok_e (esize : int) (cur : int) (n : nat) : bool =
  let k = int_of_nat n in !alloc_limit = 0 || k = 0 || k = cur || k * esize < !alloc_limit

let cop_of op a b c : z cop option =
  let za = z_of_i64 a and zb = z_of_i64 b in
  match op with
  | 1 -> Some (OPush za) | 2 -> Some OPop | 3 -> Some (OInsert (nat_of_i64 a, zb))
  | 4 -> Some (ORemove (nat_of_i64 a)) | 5 -> Some (ORemoveValue za)
  | 6 -> Some (ORemoveIf (tok_pred za zb)) | 7 -> Some (OResize (nat_of_i64 a))
  | 8 -> Some (OReserve (nat_of_i64 a)) | 9 -> Some OClear | 10 -> Some OCopy
  | 11 -> Some (OAt (nat_of_i64 a)) | 12 -> Some (OAssign (nat_of_i64 a, zb))
  | 13 -> Some ODestroy
  | 14 -> Some (OConvert (List.init (max 0 (Int64.to_int a)) (fun i -> z_of_i64 (Int64.add b (Int64.mul (Int64.of_int i) c)))))
  | 15 -> (match Int64.to_int a with
      | 0 -> Some (OUnpack (nat_of_int 1, nat_of_int 1))
      | 1 -> Some (OUnpack (nat_of_int 1, nat_of_int 3))
      | _ -> Some (OUnpack (nat_of_int 2, nat_of_int 3)))
  | _ -> None

let cret_s = function
  | RUnit -> "-" | RVal x -> dec_of_z x | RBool b -> if b then "1" else "0"
  | RVals l -> String.concat "," (List.map dec_of_z l)

let vec_line () = Printf.sprintf " %s %s :%s" (sn (vec_len !vecs)) (sn (vec_cap !vecs)) (toks (vec_contents !vecs))
let vspec_line () = Printf.sprintf " %d :%s" (List.length !vspec) (toks !vspec)
let seq_line () = Printf.sprintf " %s %s :%s" (sn (seq_len !seqs)) (sn (seq_capacity !seqs)) (toks (seq_contents !seqs))
let sspec_line () = Printf.sprintf " %d :%s" (List.length (snd !sspec)) (toks (snd !sspec))

let pairs_s l =
  if !dumpmode = 0 then String.concat "" (List.map (fun (k, v) -> Printf.sprintf " %s=%s" (dec_of_z k) (dec_of_z v)) l)
  else begin
    let h = ref 0 and u = ref 0 in
    List.iter (fun (k, v) -> let pm = pmix (zi k) (zi v) in h := hmix !h pm; u := (!u + pm) mod hm_mod) l;
    Printf.sprintf " #%d #%d" !h !u
  end
let hm_line () =
  let ps = match hm_pairs !hms with Ok l -> pairs_s l | Trap t -> " TRAP " ^ trap_name t in
  Printf.sprintf " %s %s %s :%s" (sn (hm_len !hms)) (sn (hm_capacity !hms)) (sn (hm_bucketcount !hms)) ps
let hspec_line () = Printf.sprintf " %d :%s" (List.length !hspec) (pairs_s !hspec)
let hret_s = function
  | HUnit -> "-" | HVal v -> dec_of_z v
  | HOpt None -> "nil" | HOpt (Some v) -> dec_of_z v
  | HBool b -> if b then "1" else "0"
  | HBoolVal (b, v) -> (if b then "1," else "0,") ^ dec_of_z v
  | HList l -> "v" ^ String.concat "" (List.map (fun (k, v) -> Printf.sprintf ",%s=%s" (dec_of_z k) (dec_of_z v)) l)

let dl_line () =
  match dl_contents !dls with
  | Ok l -> Printf.sprintf " %d :%s" (List.length l) (toks l)
  | Trap t -> " TRAP " ^ trap_name t
let lspec_line () = Printf.sprintf " %d :%s" (List.length !lspec) (toks !lspec)
let lret_s = function
  | LUnit -> "-" | LVal x -> dec_of_z x | LNext None -> "nil" | LNext (Some x) -> dec_of_z x
  | LNotFound -> "nf" | LIdx None -> "-1" | LIdx (Some n) -> sn n | LBool b -> if b then "1" else "0"

let hexs l = String.concat "" (List.map (fun x -> Printf.sprintf "%02x" (int_of_z x land 255)) l)
let sb_line () =
  let nul = match sb_nul_slot !sbs with Some x -> dec_of_z x | None -> "-1" in
  Printf.sprintf " %s %d %s :%s" (sn (sb_len !sbs)) (List.length (!sbs).sbdata) nul (hexs (sb_view !sbs))
let bspec_line () = Printf.sprintf " %d :%s" (List.length !bspec) (hexs !bspec)

let sbbytes (t : int) (n : int) : z list =
  List.init n (fun i ->
      let m = ((t * 31 + i * 7) mod 251 + 251) mod 251 in
      z_of_int (m + 1))

let emod a b = ((a mod b) + b) mod b
let bytes_of_string (t : string) : z list = List.init (String.length t) (fun i -> z_of_int (Char.code t.[i]))

let () =
  iter_lines (fun line ->
    match split_ws line with
    | [ sop; sa; sb_; sc ] ->
      let op = int_of_string sop in
      let a = Int64.of_string sa and b = Int64.of_string sb_ and c = Int64.of_string sc in
      let out =
        try
          if op = -1 then None
          else if op = -2 then (dumpmode := Int64.to_int a; None)
          else if op = 0 then begin
            kind := Int64.to_int a; typ := Int64.to_int b;
            vecs := vec_empty; vspec := []; seqs := seq_empty; sspec := (z0, []);
            hms := hm_empty; hspec := []; dls := dl_empty; lspec := []; sbs := sb_empty; bspec := [];
            spans := (if !kind = 7 then List.init (Int64.to_int c) (fun i -> z_of_int (i + 1)) else []);
            alloc_limit := (if !kind >= 9 && !kind <= 13 then Int64.to_int c else 0);
            Some (Printf.sprintf "H %d %d" !kind !typ)
          end else
          match !kind with
          (* the (index, element) pairs the iterator model yields: count and position-sensitive checksum *)
          | 1 | 10 when op = 18 ->
            let yl l = Printf.sprintf "y%d#%d" (List.length l) (List.fold_left (fun h (i, x) -> hmix (hmix h (zi i)) (zi x)) 0 l) in
            let m = (match vec_ipairs !vecs with Ok (_, l) -> yl l | Trap t -> "TRAP " ^ trap_name t) in
            Some (m ^ vec_line () ^ " || " ^ yl (List.mapi (fun i x -> (z_of_int i, x)) !vspec) ^ vspec_line ())
          | 2 | 11 when op = 18 ->
            let yl l = Printf.sprintf "y%d#%d" (List.length l) (List.fold_left (fun h (i, x) -> hmix (hmix h (zi i)) (zi x)) 0 l) in
            let m = (match seq_pairs z0 !seqs with Ok (_, l) -> yl l | Trap t -> "TRAP " ^ trap_name t) in
            Some (m ^ seq_line () ^ " || " ^ yl (List.mapi (fun i x -> (z_of_int (i + 1), x)) (snd !sspec)) ^ sspec_line ())
          | 3 | 13 when op = 14 ->
            let yl l = Printf.sprintf "y%d#%d" (List.length l) (List.fold_left (fun h (i, x) -> hmix (hmix h i) (zi x)) 0 l) in
            let m = (match dl_pairs !dls with Ok (_, l) -> yl (List.mapi (fun i (_, x) -> (i, x)) l) | Trap t -> "TRAP " ^ trap_name t) in
            Some (m ^ dl_line () ^ " || " ^ yl (List.mapi (fun i x -> (i, x)) !lspec) ^ lspec_line ())
          (* the update loops through mipairs / mpairs references, run by the iterator model *)
          | 1 | 10 when op = 19 ->
            let f x = if tok_pred (z_of_i64 b) (z_of_i64 c) x then z_of_i64 a else x in
            let m = (match vec_mipairs_map f !vecs with Ok v -> vecs := v; "-" ^ vec_line () | Trap t -> "TRAP " ^ trap_name t) in
            vspec := List.map f !vspec;
            Some (m ^ " || -" ^ vspec_line ())
          | 3 | 13 when op = 15 ->
            let f x = if tok_pred (z_of_i64 b) z0 x then z_of_i64 a else x in
            let m = (match dl_mpairs_map f !dls with Ok d -> dls := d; "-" ^ dl_line () | Trap t -> "TRAP " ^ trap_name t) in
            lspec := List.map f !lspec;
            Some (m ^ " || -" ^ lspec_line ())
          (* mnext walks: the number of elements the iterator model visits *)
          | 1 | 10 when op = 17 ->
            let n = (match vec_ipairs !vecs with Ok (_, l) -> string_of_int (List.length l) | Trap t -> "TRAP " ^ trap_name t) in
            Some ("m" ^ n ^ vec_line () ^ " || m" ^ n ^ vspec_line ())
          | 2 | 11 when op = 17 ->
            let n = (match seq_pairs (z_of_int 0) !seqs with Ok (_, l) -> string_of_int (List.length l) | Trap t -> "TRAP " ^ trap_name t) in
            Some ("m" ^ n ^ seq_line () ^ " || m" ^ n ^ sspec_line ())
          | 3 | 13 when op = 13 ->
            let n = (match dl_pairs !dls with Ok (_, l) -> string_of_int (List.length l) | Trap t -> "TRAP " ^ trap_name t) in
            Some ("m" ^ n ^ dl_line () ^ " || m" ^ n ^ lspec_line ())
          | 1 | 10 when op = 16 -> Some ("c2" ^ vec_line () ^ " || c2" ^ vspec_line ())
          | 2 | 11 when op = 16 -> Some ("c2" ^ seq_line () ^ " || c2" ^ sspec_line ())
          | 3 | 13 when op = 12 -> Some ("c2" ^ dl_line () ^ " || c2" ^ lspec_line ())
          | 1 | 10 ->
            (match cop_of op a b c with
             | None -> Some "?"
             | Some o ->
               let m = (match (if !kind = 10 then vec_step_a z0 tok_eqb (alloc_ok_e 8 (-1)) o !vecs else vec_step z0 tok_eqb o !vecs) with
                   | Ok (v, r) -> vecs := v; cret_s r ^ vec_line ()
                   | Trap t -> "TRAP " ^ trap_name t) in
               let s = (match lst_step z0 tok_eqb o !vspec with
                   | Ok (l, r) -> vspec := l; cret_s r ^ vspec_line ()
                   | Trap t -> "TRAP " ^ trap_name t) in
               Some (m ^ " || " ^ s))
          | 2 | 11 ->
            (match cop_of op a b c with
             | None -> Some "?"
             | Some o ->
               let m = (match (if !kind = 11 then seq_step_a z0 tok_eqb (!alloc_limit = 0 || 24 < !alloc_limit) (alloc_ok_e 8 (-1)) o !seqs
                               else seq_step z0 tok_eqb o !seqs) with
                   | Ok (v, r) -> seqs := v; cret_s r ^ seq_line ()
                   | Trap t -> "TRAP " ^ trap_name t) in
               let s = (match sq_step z0 tok_eqb o !sspec with
                   | Ok (l, r) -> sspec := l; cret_s r ^ sspec_line ()
                   | Trap t -> "TRAP " ^ trap_name t) in
               Some (m ^ " || " ^ s))
          | 3 | 13 ->
            let za = z_of_i64 a and zb = z_of_i64 b in
            let o = (match op with
                | 1 -> Some (LPushFront za) | 2 -> Some (LPushBack za) | 3 -> Some LPopFront | 4 -> Some LPopBack
                | 5 -> Some (LInsertBefore (za, zb)) | 6 -> Some (LEraseValue za) | 7 -> Some (LFind za)
                | 8 -> Some LClear | 9 -> Some LEmpty | 10 -> Some LEraseNil | 11 -> Some LDestroy | _ -> None) in
            (match o with
             | None -> Some "?"
             | Some o ->
               let m = (match (if !kind = 13 then dl_step_a tok_eqb (!alloc_limit = 0 || 24 < !alloc_limit) o !dls else dl_step tok_eqb o !dls) with
                   | Ok (v, r) -> dls := v; lret_s r ^ dl_line ()
                   | Trap t -> "TRAP " ^ trap_name t) in
               let s = (match ll_step tok_eqb o !lspec with
                   | Ok (l, r) -> lspec := l; lret_s r ^ lspec_line ()
                   | Trap t -> "TRAP " ^ trap_name t) in
               Some (m ^ " || " ^ s))
          | 4 | 5 | 12 ->
            let za = z_of_i64 a and zb = z_of_i64 b in
            let kh = khash () in
            if op = 12 || op = 13 then begin
              let key = if op = 12 then Some za else None in
              let m = (match hm_next tok_eqb kh key !hms with
                  | Ok None -> "end" ^ hm_line ()
                  | Ok (Some (k, v)) -> Printf.sprintf "%s=%s" (dec_of_z k) (dec_of_z v) ^ hm_line ()
                  | Trap t -> "TRAP " ^ trap_name t) in
              Some (m ^ " || *" ^ hspec_line ())
            end else if op = 16 then begin
              let buf = Buffer.create 64 in
              Buffer.add_string buf "v";
              let rec go key fuel =
                if fuel = 0 then Buffer.add_string buf ",FUEL" else
                match hm_next tok_eqb kh key !hms with
                | Ok None -> ()
                | Ok (Some (k, v)) ->
                  Buffer.add_string buf (Printf.sprintf ",%s=%s" (dec_of_z k) (dec_of_z v));
                  go (Some k) (fuel - 1)
                | Trap t -> Buffer.add_string buf (",TRAP " ^ trap_name t) in
              go None (int_of_nat (hm_capacity !hms) + 2);
              let sp = "v" ^ String.concat "" (List.map (fun (k, v) -> Printf.sprintf ",%s=%s" (dec_of_z k) (dec_of_z v)) !hspec) in
              Some (Buffer.contents buf ^ hm_line () ^ " || " ^ sp ^ hspec_line ())
            end else if op = 18 then begin
              (* mnext walk: the number of bindings the iterator model of pairs visits *)
              let n = (match hm_for_pairs !hms with Ok (_, l) -> string_of_int (List.length l) | Trap t -> "TRAP " ^ trap_name t) in
              Some ("m" ^ n ^ hm_line () ^ " || m" ^ string_of_int (List.length !hspec) ^ hspec_line ())
            end else if op = 19 then begin
              (* the bindings the iterator model of pairs yields, in node order; the spec side in its own order *)
              let yl l = Printf.sprintf "y%d#%d#%d" (List.length l)
                  (List.fold_left (fun h (k, v) -> hmix (hmix h (zi k)) (zi v)) 0 l)
                  (List.fold_left (fun u (k, v) -> (u + pmix (zi k) (zi v)) mod hm_mod) 0 l) in
              let m = (match hm_for_pairs !hms with Ok (_, l) -> yl (List.map snd l) | Trap t -> "TRAP " ^ trap_name t) in
              Some (m ^ hm_line () ^ " || " ^ yl !hspec ^ hspec_line ())
            end else if op = 14 then begin
              let lo = Int64.to_int a and hi = Int64.to_int b in
              let ks = List.init (max 0 (hi - lo + 1)) (fun i -> z_of_int (lo + i)) in
              let one f = String.concat "" (List.map (fun k -> "," ^ f k) ks) in
              let m = "p" ^ one (fun k -> match hm_step z0 z0 tok_eqb kh (HPeek k) !hms with
                  | Ok (_, r) -> hret_s r | Trap t -> "TRAP " ^ trap_name t) ^ hm_line () in
              let s = "p" ^ one (fun k -> match al_step z0 tok_eqb (HPeek k) !hspec with
                  | Ok (_, r) -> hret_s r | Trap t -> "TRAP " ^ trap_name t) ^ hspec_line () in
              Some (m ^ " || " ^ s)
            end else begin
              let o = (match op with
                  | 1 -> Some (HSet (za, zb)) | 2 -> Some (HGet za) | 3 -> Some (HPeek za) | 4 -> Some (HHas za)
                  | 5 -> Some (HHasGet za) | 6 -> Some (HRemove za) | 7 -> Some (HErase za) | 8 -> Some HClear
                  | 9 -> Some (HReserve (nat_of_i64 a)) | 10 -> Some (HRehash (nat_of_i64 a))
                  | 11 -> Some (HIterErase (fun _ v -> tok_pred za zb v))
                  | 15 -> Some (HMapVals (fun v -> z_of_i64 (Int64.add (Int64.of_string (dec_of_z v)) a)))
                  | 17 -> Some HDestroy
                  | _ -> None) in
              match o with
              | None -> Some "?"
              | Some o ->
                let hstep = (if !kind = 12 then
                                 hm_step_a z0 z0 tok_eqb kh (alloc_ok_e 32 (int_of_nat (hm_capacity !hms))) (alloc_ok_e 8 (int_of_nat (hm_bucketcount !hms)))
                             else hm_step z0 z0 tok_eqb kh) in
                let m = (match hstep o !hms with
                    | Ok (v, r) -> hms := v; hret_s r ^ hm_line ()
                    | Trap t -> "TRAP " ^ trap_name t) in
                let s = (match al_step z0 tok_eqb o !hspec with
                    | Ok (l, r) -> hspec := l; hret_s r ^ hspec_line ()
                    | Trap t -> "TRAP " ^ trap_name t) in
                Some (m ^ " || " ^ s)
            end
          | 6 ->
            let ia = Int64.to_int a and ib = Int64.to_int b and ic = Int64.to_int c in
            let pre = ref "" in
            let o = (match op with
                | 1 -> let n = emod ia 41 in pre := Printf.sprintf "1,%d" n; Some (BWrite (sbbytes ia n))
                | 2 -> pre := "1"; Some (BWriteByte (z_of_int (ia land 255), nat_of_int ib))
                | 3 ->
                  (match sb_prepare (nat_of_int ia) !sbs with
                   | Ok (_, sp) ->
                     let sp = int_of_nat sp in
                     let k = min ib sp in
                     pre := Printf.sprintf "%d,%d" sp k;
                     Some (BPwc (nat_of_int ia, sbbytes ic k))
                   | Trap _ -> Some (BPwc (nat_of_int ia, [])))
                | 4 -> pre := "-"; Some (BRollback (nat_of_int ia))
                | 5 -> pre := "1"; Some (BResize (nat_of_int ia))
                | 6 -> pre := "-"; Some BClear
                | 7 -> Some BPromote
                | 8 ->
                  (match sb_prepare (nat_of_int ia) !sbs with
                   | Ok (_, sp) -> pre := sn sp | Trap _ -> ());
                  if ib >= 1 then Some (BCommitOver (nat_of_int ia, nat_of_int (ib - 1))) else None
                | 9 ->
                  (match sb_prepare (nat_of_int ia) !sbs with
                   | Ok (_, sp) -> pre := sn sp | Trap _ -> ());
                  Some (BPrepare (nat_of_int ia))
                | 10 -> pre := "-"; Some BDestroy
                | 11 -> Some (BWriteParts [bytes_of_string (Int64.to_string a)])
                | 12 -> Some (BWriteParts [bytes_of_string (if a <> 0L then "true" else "false")])
                | 13 -> Some (BWriteParts [bytes_of_string (Int64.to_string a); sbbytes ib (emod ib 41);
                                           bytes_of_string (if c <> 0L then "true" else "false")])
                | _ -> None) in
            (match o with
             | None -> Some "?"
             | Some o ->
               let rs r = (match r with
                   | BBytes l -> Printf.sprintf "%d:%s%s" (List.length l) (hexs l) (if l <> [] then ":0" else "")
                   | BOkN (okb, n) when op >= 11 -> Printf.sprintf "%d,%d" (if okb then 1 else 0) (int_of_nat n)
                   | _ -> !pre) in
               let m = (match sb_step o !sbs with
                   | Ok (v, r) -> sbs := v; rs r ^ sb_line ()
                   | Trap t -> "TRAP " ^ trap_name t) in
               let s = (match by_step o !bspec with
                   | Ok (l, r) -> bspec := l; rs r ^ bspec_line ()
                   | Trap t -> "TRAP " ^ trap_name t) in
               Some (m ^ " || " ^ s))
          | 9 ->
            let ia = Int64.to_int a and ib = Int64.to_int b and ic = Int64.to_int c in
            let pre = ref "" in
            let o = (match op with
                | 1 -> let n = emod ia 41 in pre := Printf.sprintf "1,%d" n; Some (BWrite (sbbytes ia n))
                | 2 -> pre := "1"; Some (BWriteByte (z_of_int (ia land 255), nat_of_int ib))
                | 3 ->
                  (match sb_prepare_a alloc_ok (nat_of_int ia) !sbs with
                   | Ok (_, spo) ->
                     let sp = (match spo with Some n -> int_of_nat n | None -> 0) in
                     let k = min ib sp in
                     pre := Printf.sprintf "%d,%d" sp k;
                     Some (BPwc (nat_of_int ia, sbbytes ic k))
                   | Trap _ -> Some (BPwc (nat_of_int ia, [])))
                | 4 -> pre := "-"; Some (BRollback (nat_of_int ia))
                | 5 -> pre := "1"; Some (BResize (nat_of_int ia))
                | 6 -> pre := "-"; Some BClear
                | 7 -> Some BPromote
                | 8 ->
                  (match sb_prepare_a alloc_ok (nat_of_int ia) !sbs with
                   | Ok (_, spo) -> pre := (match spo with Some n -> sn n | None -> "0") | Trap _ -> ());
                  if ib >= 1 then Some (BCommitOver (nat_of_int ia, nat_of_int (ib - 1))) else None
                | 9 ->
                  (match sb_prepare_a alloc_ok (nat_of_int ia) !sbs with
                   | Ok (_, spo) -> pre := (match spo with Some n -> sn n | None -> "0") | Trap _ -> ());
                  Some (BPrepare (nat_of_int ia))
                | 10 -> pre := "-"; Some BDestroy
                | 11 -> Some (BWriteParts [bytes_of_string (Int64.to_string a)])
                | 12 -> Some (BWriteParts [bytes_of_string (if a <> 0L then "true" else "false")])
                | 13 -> Some (BWriteParts [bytes_of_string (Int64.to_string a); sbbytes ib (emod ib 41);
                                           bytes_of_string (if c <> 0L then "true" else "false")])
                | _ -> None) in
            (match o with
             | None -> Some "?"
             | Some o ->
               let rs r = (match r, o with
                   | BBytes l, _ -> Printf.sprintf "%d:%s%s" (List.length l) (hexs l) (if l <> [] then ":0" else "")
                   | BOkN (okb, n), BWriteParts _ -> Printf.sprintf "%d,%d" (if okb then 1 else 0) (int_of_nat n)
                   | BOkN (false, _), _ -> "0,0"
                   | BBool false, (BWriteByte _ | BResize _) -> "0"
                   | _ -> !pre) in
               let m = (match sb_step_a alloc_ok o !sbs with
                   | Ok (v, r) -> sbs := v; rs r ^ sb_line ()
                   | Trap t -> "TRAP " ^ trap_name t) in
               let s = (match by_step o !bspec with
                   | Ok (l, r) -> bspec := l; rs r ^ bspec_line ()
                   | Trap t -> "TRAP " ^ trap_name t) in
               ignore s; Some m)
          | 7 ->
            (* the fat-pointer model: the whole storage viewed as the span {0, n}; results printed from the window *)
            let whole = { sp_off = nat_of_int 0; sp_size = nat_of_int (List.length !spans) } in
            (match op with
             | 1 -> (match spw_at (nat_of_i64 a) !spans whole with
                 | Ok x -> Some (Printf.sprintf "%s %d :" (dec_of_z x) (List.length !spans))
                 | Trap t -> Some ("TRAP " ^ trap_name t))
             | 2 -> (match spw_sub (nat_of_i64 a) (nat_of_i64 b) whole with
                 | Ok w -> let l = sp_view !spans w in Some (Printf.sprintf "- %d :%s" (List.length l) (toks l))
                 | Trap t -> Some ("TRAP " ^ trap_name t))
             | 3 -> (match spw_sub (nat_of_i64 a) (nat_of_i64 b) whole with        (* s:sub(a,b)[c] *)
                 | Ok w -> (match spw_at (nat_of_i64 c) !spans w with
                     | Ok x -> Some (Printf.sprintf "%s %d :" (dec_of_z x) (List.length !spans))
                     | Trap t -> Some ("TRAP " ^ trap_name t))
                 | Trap t -> Some ("TRAP " ^ trap_name t))
             | 4 -> (match spw_sub (nat_of_i64 a) (nat_of_i64 b) whole with        (* s:sub(a,b):sub(c,c') with c' = size of the first sub *)
                 | Ok w -> (match spw_sub (nat_of_i64 c) w.sp_size w with
                     | Ok w2 -> let l = sp_view !spans w2 in Some (Printf.sprintf "- %d :%s" (List.length l) (toks l))
                     | Trap t -> Some ("TRAP " ^ trap_name t))
                 | Trap t -> Some ("TRAP " ^ trap_name t))
             | 5 -> (match spw_sub (nat_of_i64 a) (nat_of_i64 b) whole with        (* ipairs over s:sub(a,b): indices and elements *)
                 | Ok w -> (match span_ipairs !spans w with
                     | Ok (_, l) -> Some (Printf.sprintf "- %d :%s" (List.length l)
                                            (String.concat "" (List.map (fun (i, x) -> " " ^ dec_of_z i ^ " " ^ dec_of_z x) l)))
                     | Trap t -> Some ("TRAP " ^ trap_name t))
                 | Trap t -> Some ("TRAP " ^ trap_name t))
             | _ -> Some "?")
          | 8 ->
            (match op with
             | 1 -> Some (dec_of_z (hash_int (z_of_i64 a)))
             | 2 -> Some (dec_of_z (hash_float (zbits_of_i64 a)))
             | 3 -> Some (dec_of_z (hash_long (sbbytes (Int64.to_int a) (Int64.to_int b))))
             | 4 -> Some (dec_of_z (hash_rec (z_of_i64 a) (zbits_of_i64 b)))
             | 5 -> Some (dec_of_z (hash_bool (a <> 0L)))
             | 6 -> Some (if f_eqb (zbits_of_i64 a) (zbits_of_i64 b) then "1" else "0")
             | 7 -> Some (if rec_eqb (z_of_i64 a) (zbits_of_i64 b) (z_of_i64 a)
                               (zbits_of_i64 (Int64.logxor b Int64.min_int)) then "1" else "0")
             | 8 -> Some (dec_of_z (hash_array hash_int [z_of_i64 a; z_of_i64 b; z_of_i64 (Int64.add a b)]))
             | 9 -> Some (dec_of_z (hash_array hash_float [zbits_of_i64 a; zbits_of_i64 b]))
             | 10 -> Some (dec_of_z (hash_ptr (zbits_of_i64 a) (z_of_int 3)))
             | 11 -> Some (dec_of_z (hash_ptr (zbits_of_i64 a) (z_of_int 4)))
             | 12 -> Some (dec_of_z (hash_span_int [z_of_i64 a; z_of_i64 b; z_of_i64 (Int64.logxor a b)]))
             | 13 -> Some (dec_of_z (hash_union8 (z_of_i64 a)))
             | 14 -> Some (dec_of_z (hash_array hash_int []))
             | 15 -> Some (dec_of_z (hash_float32 (zbits_of_i64 (Int64.logand a 0xffffffffL))))
             | 16 -> Some (if g_eqb (zbits_of_i64 (Int64.logand a 0xffffffffL)) (zbits_of_i64 (Int64.logand b 0xffffffffL)) then "1" else "0")
             | 17 -> Some (sn (select_count [a; b; Int64.logxor a b]))
             | 18 -> (match select_from (z_of_int 2) [a; b; Int64.logxor a b] with
                 | Some l -> Some (String.concat " " (List.map Int64.to_string l)) | None -> Some "none")
             | 19 -> (match select_from (z_of_int (-1)) [a; b; Int64.logxor a b] with
                 | Some l -> Some (String.concat " " (List.map Int64.to_string l)) | None -> Some "none")
             | 21 -> (match select_from (z_of_int (-2)) [a; b; Int64.logxor a b] with
                 | Some l -> Some (String.concat " " (List.map Int64.to_string l)) | None -> Some "none")
             | 22 -> (match select_from (z_of_int 1) [a; b; Int64.logxor a b] with
                 | Some l -> Some (String.concat " " (List.map Int64.to_string l)) | None -> Some "none")
             | 20 -> let n = emod (Int64.to_int (Int64.logxor a b)) 5 in
                     let s1 = sbbytes (Int64.to_int a) n and s2 = sbbytes (Int64.to_int b) n in
                     let s3 = s2 @ [z_of_int 120] in
                     let b2s x = if x then "1" else "0" in
                     Some (Printf.sprintf "%s %s %s" (b2s (str_eqb s1 s2)) (b2s (hash_string s1 = hash_string s2)) (b2s (str_eqb s2 s3)))
             | _ -> Some "?")
          | _ -> Some "?"
        with e -> Some ("!exn " ^ Printexc.to_string e)
      in
      (match out with Some s -> print_string s; print_newline () | None -> ())
    | _ -> ())
