(* C12 - association lists with keys unique up to the key equality: the finite map the hashmap implements.
   Everything is stated through [al_find] (lookup returning the stored binding), so that specifications are
   functional equations. *)
From Coq Require Import ZArith List Bool Lia Arith Permutation.
From C12 Require Import Gen Model.
Import ListNotations.

Section AL.
  Variables K V : Type.
  Variable vdflt : V.
  Variable keqb : K -> K -> bool.
  Hypothesis keqb_refl : forall a, keqb a a = true.
  Hypothesis keqb_sym : forall a b, keqb a b = keqb b a.
  Hypothesis keqb_trans : forall a b c, keqb a b = true -> keqb b c = true -> keqb a c = true.

  Notation al_get := (al_get K V keqb).
  Notation al_set := (al_set K V keqb).
  Notation al_remove := (al_remove K V keqb).

  Lemma keqb_false_l : forall a b c, keqb a b = true -> keqb a c = false -> keqb b c = false.
  Proof.
    intros a b c H1 H2. destruct (keqb b c) eqn:E; [|reflexivity].
    rewrite (keqb_trans a b c H1 E) in H2. discriminate.
  Qed.
  Lemma keqb_congr_l : forall a b c, keqb a b = true -> keqb a c = keqb b c.
  Proof.
    intros a b c H. destruct (keqb a c) eqn:E.
    - symmetry. apply (keqb_trans b a c); [rewrite keqb_sym; assumption|assumption].
    - symmetry. eapply keqb_false_l; eauto.
  Qed.
  Lemma keqb_congr_r : forall a b c, keqb a b = true -> keqb c a = keqb c b.
  Proof. intros. rewrite (keqb_sym c a), (keqb_sym c b). apply keqb_congr_l. assumption. Qed.

  Notation al_find := (al_find K V keqb).

  Notation keys_nodup := (keys_nodup K V keqb).

  Lemma al_get_find : forall k al, al_get k al = option_map snd (al_find k al).
  Proof. induction al as [|[k' v] tl IH]; cbn; [reflexivity|]. destruct (keqb k k'); [reflexivity|assumption]. Qed.

  Lemma al_find_app : forall k a b,
    al_find k (a ++ b) = match al_find k a with Some kv => Some kv | None => al_find k b end.
  Proof. induction a; intros; cbn; [reflexivity|]. destruct (keqb k (fst a)); [reflexivity|apply IHa]. Qed.

  Lemma al_find_some : forall k al kv, al_find k al = Some kv -> In kv al /\ keqb k (fst kv) = true.
  Proof.
    induction al as [|a tl IH]; cbn; intros kv H; [discriminate|].
    destruct (keqb k (fst a)) eqn:E.
    - inversion H; subst. auto.
    - destruct (IH kv H). auto.
  Qed.

  Lemma al_find_none : forall k al, al_find k al = None <-> (forall kv, In kv al -> keqb k (fst kv) = false).
  Proof.
    induction al as [|a tl IH]; cbn.
    - split; [intros _ kv []|reflexivity].
    - destruct (keqb k (fst a)) eqn:E.
      + split; [discriminate|]. intros H. rewrite (H a (or_introl eq_refl)) in E. discriminate.
      + rewrite IH. split.
        * intros H kv [<-|Hin]; auto.
        * intros H kv Hin. apply H. right; assumption.
  Qed.

  Lemma al_find_congr : forall k k' al, keqb k k' = true -> al_find k al = al_find k' al.
  Proof.
    induction al as [|a tl IH]; cbn; intros H; [reflexivity|].
    rewrite (keqb_congr_l k k' (fst a) H). destruct (keqb k' (fst a)); auto.
  Qed.

  Lemma keys_nodup_cons : forall a al, keys_nodup (a :: al) <->
    (forall b, In b al -> keqb (fst a) (fst b) = false) /\ keys_nodup al.
  Proof.
    intros. unfold Model.keys_nodup. split.
    - intros H. inversion H; subst. split; [|assumption]. apply Forall_forall. assumption.
    - intros [H1 H2]. constructor; [apply Forall_forall; assumption|assumption].
  Qed.

  Lemma al_find_in : forall k al kv, keys_nodup al -> In kv al -> keqb k (fst kv) = true -> al_find k al = Some kv.
  Proof.
    induction al as [|a tl IH]; cbn; intros kv ND Hin E; [contradiction|].
    apply keys_nodup_cons in ND. destruct ND as [N1 N2].
    destruct Hin as [->|Hin].
    - rewrite E. reflexivity.
    - destruct (keqb k (fst a)) eqn:E2.
      + exfalso. specialize (N1 kv Hin).
        assert (keqb (fst a) (fst kv) = true) by (eapply keqb_trans; [rewrite keqb_sym; exact E2|exact E]).
        congruence.
      + apply IH; assumption.
  Qed.

  Lemma keys_nodup_NoDup : forall al, keys_nodup al -> NoDup al.
  Proof.
    induction al as [|a tl IH]; intros ND; [constructor|].
    apply keys_nodup_cons in ND. destruct ND as [N1 N2]. constructor; [|auto].
    intros Hin. specialize (N1 a Hin). rewrite keqb_refl in N1. discriminate.
  Qed.

  Lemma keys_nodup_app : forall a b, keys_nodup (a ++ b) <->
    keys_nodup a /\ keys_nodup b /\ (forall x y, In x a -> In y b -> keqb (fst x) (fst y) = false).
  Proof.
    induction a as [|x a IH]; intros b; cbn [app].
    - split; [intros H; split; [constructor|split; [assumption|intros ? ? []]]|intros (_ & H & _); assumption].
    - rewrite !keys_nodup_cons, IH. split.
      + intros (H1 & H2 & H3 & H4). split; [split; [intros; apply H1; apply in_or_app; auto|assumption]|].
        split; [assumption|]. intros x' y [<-|Hx] Hy; [apply H1; apply in_or_app; auto|auto].
      + intros ((H1 & H2) & H3 & H4). split.
        * intros y Hy. apply in_app_or in Hy. destruct Hy; [auto|apply H4; [left; reflexivity|assumption]].
        * split; [assumption|]. split; [assumption|]. intros; apply H4; [right|]; assumption.
  Qed.

  (* ---- two lists denote the same finite map *)
  Definition al_same (a b : list (K * V)) : Prop := forall k, al_find k a = al_find k b.

  Lemma al_same_in : forall a b, keys_nodup a -> al_same a b -> forall kv, In kv a -> In kv b.
  Proof.
    intros a b ND S kv Hin.
    pose proof (al_find_in (fst kv) a kv ND Hin (keqb_refl _)) as F. rewrite S in F.
    apply al_find_some in F. tauto.
  Qed.

  Lemma al_same_length : forall a b, keys_nodup a -> keys_nodup b -> al_same a b -> length a = length b.
  Proof.
    intros a b Na Nb S. apply Nat.le_antisymm.
    - apply NoDup_incl_length; [apply keys_nodup_NoDup; assumption|]. intros kv; apply al_same_in; assumption.
    - apply NoDup_incl_length; [apply keys_nodup_NoDup; assumption|]. intros kv; apply al_same_in; [assumption|].
      intros k. symmetry. apply S.
  Qed.

  (* ---- set *)
  Definition stored_key (k : K) (al : list (K * V)) : K := match al_find k al with Some kv => fst kv | None => k end.

  Lemma al_find_set : forall k v al k',
    al_find k' (al_set k v al) = if keqb k' k then Some (stored_key k al, v) else al_find k' al.
  Proof.
    intros k v. induction al as [|[k0 v0] tl IH]; intros k'; unfold stored_key; cbn.
    - destruct (keqb k' k); reflexivity.
    - destruct (keqb k k0) eqn:E; cbn.
      + rewrite <- (keqb_congr_r k k0 k' E). destruct (keqb k' k); reflexivity.
      + destruct (keqb k' k0) eqn:E2.
        * destruct (keqb k' k) eqn:E3; [|reflexivity].
          exfalso. assert (keqb k k0 = true) by (eapply keqb_trans; [rewrite keqb_sym; exact E3|exact E2]). congruence.
        * rewrite IH. unfold stored_key. reflexivity.
  Qed.

  Lemma al_set_keys : forall k v al x, In x (al_set k v al) -> (In (fst x) (map fst al)) \/ fst x = k.
  Proof.
    intros k v. induction al as [|[k0 v0] tl IH]; cbn; intros x H.
    - destruct H as [<-|[]]. right; reflexivity.
    - destruct (keqb k k0); cbn in H.
      + destruct H as [<-|H]; [left; left; reflexivity|left; right; apply in_map; assumption].
      + destruct H as [<-|H]; [left; left; reflexivity|]. destruct (IH x H); [left; right; assumption|right; assumption].
  Qed.

  Lemma keys_nodup_set : forall k v al, keys_nodup al -> keys_nodup (al_set k v al).
  Proof.
    intros k v. induction al as [|[k0 v0] tl IH]; cbn; intros ND.
    - constructor; constructor.
    - apply keys_nodup_cons in ND. destruct ND as [N1 N2].
      destruct (keqb k k0) eqn:E.
      + apply keys_nodup_cons. split; [exact N1|assumption].
      + apply keys_nodup_cons. split; [|auto].
        intros b Hb. cbn [fst]. destruct (al_set_keys k v tl b Hb) as [H|H].
        * apply in_map_iff in H. destruct H as (b' & Hb1 & Hb2). rewrite <- Hb1. apply (N1 b' Hb2).
        * rewrite H. rewrite keqb_sym. exact E.
  Qed.

  (* ---- remove *)
  Lemma al_remove_incl : forall k al x, In x (al_remove k al) -> In x al.
  Proof.
    intros k. induction al as [|[k0 v0] tl IH]; cbn; intros x H; [contradiction|].
    destruct (keqb k k0); [right; assumption|]. destruct H; [left; assumption|right; auto].
  Qed.

  Lemma keys_nodup_remove : forall k al, keys_nodup al -> keys_nodup (al_remove k al).
  Proof.
    intros k. induction al as [|[k0 v0] tl IH]; cbn; intros ND; [constructor|].
    apply keys_nodup_cons in ND. destruct ND as [N1 N2].
    destruct (keqb k k0); [assumption|]. apply keys_nodup_cons. split; [|auto].
    intros b Hb. apply N1. eapply al_remove_incl; eauto.
  Qed.

  Lemma al_find_remove : forall k al k', keys_nodup al ->
    al_find k' (al_remove k al) = if keqb k' k then None else al_find k' al.
  Proof.
    intros k. induction al as [|[k0 v0] tl IH]; intros k' ND; cbn.
    - destruct (keqb k' k); reflexivity.
    - apply keys_nodup_cons in ND. destruct ND as [N1 N2].
      destruct (keqb k k0) eqn:E; cbn.
      + rewrite <- (keqb_congr_r k k0 k' E). destruct (keqb k' k) eqn:E3; [|reflexivity].
        apply al_find_none. intros kv Hin. specialize (N1 kv Hin). cbn in N1.
        assert (keqb k' k0 = true) by (eapply keqb_trans; eauto).
        rewrite <- (keqb_congr_l k' k0 (fst kv) H) in N1. exact N1.
      + destruct (keqb k' k0) eqn:E2.
        * destruct (keqb k' k) eqn:E3; [|reflexivity].
          exfalso. assert (keqb k k0 = true) by (eapply keqb_trans; [rewrite keqb_sym; exact E3|exact E2]). congruence.
        * apply IH; assumption.
  Qed.

  (* ---- filter, map over values *)
  Lemma keys_nodup_filter : forall q al, keys_nodup al -> keys_nodup (filter q al).
  Proof.
    intros q. induction al as [|a tl IH]; cbn; intros ND; [constructor|].
    apply keys_nodup_cons in ND. destruct ND as [N1 N2].
    destruct (q a); [|auto]. apply keys_nodup_cons. split; [|auto].
    intros b Hb. apply filter_In in Hb. apply N1. tauto.
  Qed.

  Lemma al_find_filter : forall q al k, keys_nodup al ->
    al_find k (filter q al) = match al_find k al with Some kv => if q kv then Some kv else None | None => None end.
  Proof.
    intros q. induction al as [|a tl IH]; intros k ND; cbn; [reflexivity|].
    apply keys_nodup_cons in ND. destruct ND as [N1 N2].
    destruct (q a) eqn:Q; cbn.
    - destruct (keqb k (fst a)); [rewrite Q; reflexivity|auto].
    - destruct (keqb k (fst a)) eqn:E; [|auto]. rewrite Q.
      apply al_find_none. intros kv Hin. apply filter_In in Hin. destruct Hin as [Hin _].
      specialize (N1 kv Hin). rewrite <- (keqb_congr_l k (fst a) (fst kv) E) in N1. exact N1.
  Qed.

  Definition mapvals (f : V -> V) (al : list (K * V)) := map (fun kv => (fst kv, f (snd kv))) al.

  Lemma al_find_mapvals : forall f al k,
    al_find k (mapvals f al) = option_map (fun kv => (fst kv, f (snd kv))) (al_find k al).
  Proof. intros f. induction al as [|a tl IH]; intros k; cbn; [reflexivity|]. destruct (keqb k (fst a)); [reflexivity|auto]. Qed.

  Lemma keys_nodup_mapvals : forall f al, keys_nodup al -> keys_nodup (mapvals f al).
  Proof.
    intros f. induction al as [|a tl IH]; cbn; intros ND; [constructor|].
    apply keys_nodup_cons in ND. destruct ND as [N1 N2]. apply keys_nodup_cons. split; [|auto].
    intros b Hb. apply in_map_iff in Hb. destruct Hb as (b' & <- & Hb'). cbn. apply N1. assumption.
  Qed.

  (* ---- keys that are not == to themselves (NaN): they match nothing *)
  Lemma irrefl_matches_nothing : forall k x, keqb k k = false -> keqb k x = false.
  Proof.
    intros k x H. destruct (keqb k x) eqn:E; [|reflexivity].
    assert (keqb k k = true) by (apply (keqb_trans k x k); [assumption|rewrite keqb_sym; assumption]). congruence.
  Qed.

  (* ---- permutations: the finite map is the multiset of its bindings *)
  Lemma keys_nodup_perm : forall a b, Permutation a b -> keys_nodup a -> keys_nodup b.
  Proof.
    induction 1; intros ND; auto.
    - apply keys_nodup_cons in ND. destruct ND as [N1 N2]. apply keys_nodup_cons. split; [|auto].
      intros y Hy. apply N1. eapply Permutation_in; [apply Permutation_sym; eassumption|assumption].
    - apply keys_nodup_cons in ND. destruct ND as [N1 N2]. apply keys_nodup_cons in N2. destruct N2 as [N2 N3].
      apply keys_nodup_cons. split.
      + intros z [<-|Hz]; [rewrite keqb_sym; apply N1; left; reflexivity|apply N2; assumption].
      + apply keys_nodup_cons. split; [intros z Hz; apply N1; right; assumption|assumption].
  Qed.

  Lemma al_find_perm : forall a b k, keys_nodup a -> Permutation a b -> al_find k a = al_find k b.
  Proof.
    intros a b k ND P. pose proof (keys_nodup_perm a b P ND) as NDb.
    destruct (al_find k a) as [kv|] eqn:E.
    - apply al_find_some in E. destruct E as [Hin Q]. symmetry. apply al_find_in; [assumption| |assumption].
      eapply Permutation_in; eauto.
    - symmetry. apply al_find_none. intros kv Hin. pose proof (proj1 (al_find_none k a) E) as X. apply X.
      eapply Permutation_in; [apply Permutation_sym; eassumption|assumption].
  Qed.

  Lemma al_find_split : forall k al kv, al_find k al = Some kv ->
    exists a1 a2, al = a1 ++ kv :: a2 /\ (forall x, In x a1 -> keqb k (fst x) = false) /\ keqb k (fst kv) = true.
  Proof.
    induction al as [|a tl IH]; cbn; intros kv H; [discriminate|].
    destruct (keqb k (fst a)) eqn:E.
    - inversion H; subst. exists [], tl. split; [reflexivity|]. split; [intros x []|assumption].
    - destruct (IH kv H) as (a1 & a2 & -> & X & Q). exists (a :: a1), a2. split; [reflexivity|]. split; [|assumption].
      intros x [<-|Hx]; auto.
  Qed.

  Lemma al_set_none : forall k v al, al_find k al = None -> al_set k v al = al ++ [(k, v)].
  Proof.
    intros k v. induction al as [|[k0 v0] tl IH]; cbn; intros H; [reflexivity|].
    destruct (keqb k k0); [discriminate|]. rewrite IH by assumption. reflexivity.
  Qed.

  Lemma al_set_split : forall k v a1 kv a2, (forall x, In x a1 -> keqb k (fst x) = false) -> keqb k (fst kv) = true ->
    al_set k v (a1 ++ kv :: a2) = a1 ++ (fst kv, v) :: a2.
  Proof.
    intros k v. induction a1 as [|[k0 v0] a1 IH]; intros kv a2 X Q; cbn [app].
    - destruct kv as [k1 v1]. cbn in *. rewrite Q. reflexivity.
    - pose proof (X (k0, v0) (or_introl eq_refl)) as E0. cbn in E0. cbn. rewrite E0. f_equal. apply IH; [|assumption]. intros x Hx. apply X. right; assumption.
  Qed.

  Lemma al_remove_none : forall k al, al_find k al = None -> al_remove k al = al.
  Proof.
    intros k. induction al as [|[k0 v0] tl IH]; cbn; intros H; [reflexivity|].
    destruct (keqb k k0); [discriminate|]. rewrite IH by assumption. reflexivity.
  Qed.

  Lemma al_remove_split : forall k a1 kv a2, (forall x, In x a1 -> keqb k (fst x) = false) -> keqb k (fst kv) = true ->
    al_remove k (a1 ++ kv :: a2) = a1 ++ a2.
  Proof.
    intros k. induction a1 as [|[k0 v0] a1 IH]; intros kv a2 X Q; cbn [app].
    - destruct kv as [k1 v1]. cbn in *. rewrite Q. reflexivity.
    - pose proof (X (k0, v0) (or_introl eq_refl)) as E0. cbn in E0. cbn. rewrite E0. f_equal. apply IH; [|assumption]. intros x Hx. apply X. right; assumption.
  Qed.

  Lemma al_set_perm : forall k v a b, keys_nodup a -> Permutation a b -> Permutation (al_set k v a) (al_set k v b).
  Proof.
    intros k v a b ND P. pose proof (al_find_perm a b k ND P) as E.
    destruct (al_find k a) as [kv|] eqn:Ea.
    - destruct (al_find_split k a kv Ea) as (a1 & a2 & -> & Xa & Q).
      symmetry in E. destruct (al_find_split k b kv E) as (b1 & b2 & -> & Xb & _).
      rewrite !al_set_split by assumption. apply Permutation_elt. eapply Permutation_app_inv; eauto.
    - symmetry in E. rewrite !al_set_none by assumption. apply Permutation_app_tail. assumption.
  Qed.

  Lemma al_remove_perm : forall k a b, keys_nodup a -> Permutation a b -> Permutation (al_remove k a) (al_remove k b).
  Proof.
    intros k a b ND P. pose proof (al_find_perm a b k ND P) as E.
    destruct (al_find k a) as [kv|] eqn:Ea.
    - destruct (al_find_split k a kv Ea) as (a1 & a2 & -> & Xa & Q).
      symmetry in E. destruct (al_find_split k b kv E) as (b1 & b2 & -> & Xb & _).
      rewrite !al_remove_split by assumption. eapply Permutation_app_inv; eauto.
    - symmetry in E. rewrite !al_remove_none by assumption. assumption.
  Qed.

  Lemma filter_perm : forall (q : K * V -> bool) a b, Permutation a b -> Permutation (filter q a) (filter q b).
  Proof.
    induction 1; cbn; auto.
    - destruct (q x); auto.
    - destruct (q x), (q y); auto. apply perm_swap.
    - eapply Permutation_trans; eauto.
  Qed.

  Lemma mapvals_perm : forall f a b, Permutation a b -> Permutation (mapvals f a) (mapvals f b).
  Proof. intros. unfold mapvals. apply Permutation_map. assumption. Qed.

  Lemma al_get_perm : forall a b k, keys_nodup a -> Permutation a b -> al_get k a = al_get k b.
  Proof. intros. rewrite !al_get_find. rewrite (al_find_perm a b k); auto. Qed.
End AL.
