(* C12 - hashmap.nelua, part 4: lookup, insertion (_at), assignment, removal, clear, value update:
   each preserves the representation invariant and acts on the bindings as the finite-map operation. *)
From Coq Require Import ZArith List Bool Lia Arith Permutation.
From C12 Require Import Gen Model ProofsBase ProofsVec ProofsAL ProofsHM1 ProofsHM2 ProofsFM ProofsHM3.
Import ListNotations.

Lemma NoDup_app_iff' : forall (l1 l2 : list nat), NoDup (l1 ++ l2) <-> NoDup l1 /\ NoDup l2 /\ (forall x, In x l1 -> In x l2 -> False).
Proof.
  induction l1 as [|a l1 IH]; intros l2; cbn [app].
  - split; [intros H; split; [constructor|split; [assumption|intros x []]]|intros (_ & H & _); assumption].
  - split.
    + intros H. inversion H; subst. apply IH in H3. destruct H3 as (A & B & C).
      split; [constructor; [intros X; apply H2; apply in_or_app; auto|assumption]|].
      split; [assumption|]. intros x [<-|Hx] Hy; [apply H2; apply in_or_app; auto|eauto].
    + intros (A & B & C). inversion A; subst. constructor.
      * intros X. apply in_app_or in X. destruct X; [contradiction|]. eapply C; [left; reflexivity|assumption].
      * apply IH. split; [assumption|]. split; [assumption|]. intros x Hx Hy. eapply C; [right; exact Hx|assumption].
Qed.

Lemma NoDup_app_remove_mid : forall (l1 l2 : list nat) x, NoDup (l1 ++ x :: l2) -> NoDup (l1 ++ l2).
Proof. intros. eapply NoDup_remove_1; eauto. Qed.

Lemma NoDup_app_remove_r : forall (l1 l2 : list nat), NoDup (l1 ++ l2) -> NoDup l1.
Proof. intros. apply NoDup_app_iff' in H. tauto. Qed.

Section HM4.
  Variables K V : Type.
  Variable kdflt : K.
  Variable vdflt : V.
  Variable keqb : K -> K -> bool.
  Variable khash : K -> Z.
  Hypothesis keqb_sym : forall a b, keqb a b = keqb b a.
  Hypothesis keqb_trans : forall a b c, keqb a b = true -> keqb b c = true -> keqb a c = true.
  Hypothesis hash_coh : forall a b, keqb a b = true -> khash a = khash b.

  Notation node := (hnode K V).
  Notation hmap := (hmap K V).
  Notation nkey := (nkey K V).
  Notation nval := (nval K V).
  Notation nfilled := (nfilled K V).
  Notation nnext := (nnext K V).
  Notation hbuckets := (hbuckets K V).
  Notation hnodes := (hnodes K V).
  Notation hsize := (hsize K V).
  Notation hfree := (hfree K V).
  Notation Seg := (Seg K V).
  Notation abs_of := (abs_of K V).
  Notation hm_abs := (hm_abs K V).
  Notation kvf_eq := (kvf_eq K V).
  Notation same_kvf := (same_kvf K V).
  Notation keys_nodup := (keys_nodup K V keqb).
  Notation al_find := (al_find K V keqb).
  Notation KU := (KU K V keqb).
  Notation hm_inv_w := (hm_inv_w K V keqb khash).
  Notation hm_inv := (hm_inv K V keqb khash).
  Notation find_in := (find_in K V keqb).
  Notation kmatch := (kmatch K V keqb).

  (* ---- splitting the bindings around one node *)
  Lemma split_at : forall (ns : list node) i nd, nth_error ns i = Some nd ->
    ns = firstn i ns ++ nd :: skipn (S i) ns.
  Proof.
    intros. apply nth_error_ext; intro j. pose proof (nth_error_Some_lt _ _ _ _ H).
    rewrite nthe_app, nthe_firstn, firstn_length, nthe_cons, nthe_skipn.
    replace (Nat.min i (length ns)) with i by lia.
    destruct (Nat.ltb_spec j i); [reflexivity|]. destruct (Nat.eqb_spec (j - i) 0).
    - replace j with i by lia. assumption.
    - f_equal. lia.
  Qed.

  Lemma upd_split : forall (ns : list node) i x, i < length ns ->
    overwrite i [x] ns = firstn i ns ++ x :: skipn (S i) ns.
  Proof. intros. unfold overwrite. cbn [length app]. replace (i + 1) with (S i) by lia. reflexivity. Qed.

  Definition abs1 (nd : node) : list (K * V) := if nfilled nd then [(nkey nd, nval nd)] else [].

  Lemma abs_of_cons : forall nd ns, abs_of (nd :: ns) = abs1 nd ++ abs_of ns.
  Proof. intros. unfold Model.abs_of, abs1. cbn [filter]. destruct (nfilled nd); reflexivity. Qed.

  Lemma abs_split : forall ns i nd, nth_error ns i = Some nd ->
    abs_of ns = abs_of (firstn i ns) ++ abs1 nd ++ abs_of (skipn (S i) ns).
  Proof. intros. rewrite (split_at ns i nd H) at 1. rewrite abs_of_app, abs_of_cons. reflexivity. Qed.

  Lemma abs_upd : forall ns i x, i < length ns ->
    abs_of (overwrite i [x] ns) = abs_of (firstn i ns) ++ abs1 x ++ abs_of (skipn (S i) ns).
  Proof. intros. rewrite upd_split by assumption. rewrite abs_of_app, abs_of_cons. reflexivity. Qed.

  Lemma filled_len_upd : forall ns i old x, nth_error ns i = Some old ->
    length (filter nfilled (overwrite i [x] ns)) + length (abs1 old) = length (filter nfilled ns) + length (abs1 x).
  Proof.
    intros. pose proof (nth_error_Some_lt _ _ _ _ H).
    rewrite !filled_len_abs. rewrite (abs_split ns i old H), abs_upd by assumption.
    rewrite !app_length. lia.
  Qed.

  (* nodes related by an update that keeps key, filled flag and next pointer (only the value may change) *)
  Definition kfn_eq (ns ns' : list node) : Prop :=
    length ns = length ns' /\
    forall i nd, nth_error ns i = Some nd ->
      exists nd', nth_error ns' i = Some nd' /\ nkey nd' = nkey nd /\ nfilled nd' = nfilled nd /\ nnext nd' = nnext nd.

  Lemma kfn_rev : forall ns ns' i x, kfn_eq ns ns' -> nth_error ns' i = Some x ->
    exists nd, nth_error ns i = Some nd /\ nkey x = nkey nd /\ nfilled x = nfilled nd /\ nnext x = nnext nd.
  Proof.
    intros ns ns' i x [L P] H. pose proof (nth_error_Some_lt _ _ _ _ H).
    destruct (nth_error ns i) eqn:E.
    - destruct (P i h E) as (nd' & H' & S). rewrite H in H'. inversion H'; subst. eauto.
    - apply nth_error_None in E. lia.
  Qed.

  Lemma kfn_filled_len : forall ns ns', kfn_eq ns ns' -> length (filter nfilled ns) = length (filter nfilled ns').
  Proof.
    induction ns as [|a ns IH]; intros [|b ns'] [L P]; try discriminate; [reflexivity|].
    destruct (P 0 a eq_refl) as (b' & Hb & _ & F & _). cbn in Hb. inversion Hb; subst b'.
    assert (length (filter nfilled ns) = length (filter nfilled ns')) as E.
    { apply IH. split; [cbn in L; lia|]. intros i nd H. exact (P (S i) nd H). }
    cbn [filter]. rewrite F. destruct (nfilled a); cbn [length]; lia.
  Qed.

  Lemma inv_kfn : forall m ch fl ns', hm_inv_w m ch fl -> kfn_eq (hnodes m) ns' ->
    hm_inv_w (mkhm K V (hbuckets m) ns' (hsize m) (hfree m)) ch fl.
  Proof.
    intros m ch fl ns' I E. destruct E as [L P]. assert (kfn_eq (hnodes m) ns') as E by (split; assumption).
    assert (forall s l e, Seg (hnodes m) s l e -> Seg ns' s l e) as SF.
    { intros s l e H. eapply Seg_frame; [exact H|]. intros i nd _ Hn. destruct (P i nd Hn) as (nd' & A & _ & _ & B). eauto. }
    destruct I. constructor; cbn [Model.hbuckets Model.hnodes Model.hsize Model.hfree].
    - intros b Hb. destruct (inv_ch b Hb) as (s & A & B). eauto.
    - auto.
    - assumption.
    - assumption.
    - intros i x Hx. destruct (kfn_rev _ _ _ _ E Hx) as (nd & Hn & _ & F & _). rewrite F. apply inv_cov. assumption.
    - intros b i x Hb Hi Hx. destruct (kfn_rev _ _ _ _ E Hx) as (nd & Hn & Kx & F & _). rewrite Kx, F. eapply inv_fill; eauto.
    - intros i x Hi Hx. destruct (kfn_rev _ _ _ _ E Hx) as (nd & Hn & _ & F & _). rewrite F. eapply inv_unf; eauto.
    - intros i j xi xj Hi Hj Fi Fj Q.
      destruct (kfn_rev _ _ _ _ E Hi) as (ni & Hni & K1 & F1 & _). destruct (kfn_rev _ _ _ _ E Hj) as (nj & Hnj & K2 & F2 & _).
      apply (inv_keys i j ni nj); try assumption; congruence.
    - rewrite <- (kfn_filled_len _ _ E). assumption.
    - intros Hb. specialize (inv_emp Hb). rewrite inv_emp in L. cbn in L. symmetry in L. apply length_zero_iff_nil in L. assumption.
    - rewrite <- L. assumption.
    - rewrite <- L. assumption.
    - rewrite <- L. assumption.
  Qed.

  (* ---- lookup *)
  Lemma KU_of_inv : forall m ch fl, hm_inv_w m ch fl -> KU (hnodes m).
  Proof. intros m ch fl I. exact (inv_keys _ _ _ _ _ _ _ I). Qed.

  Lemma abs_nodup : forall m ch fl, hm_inv_w m ch fl -> keys_nodup (hm_abs m).
  Proof. intros. apply KU_abs; auto. eapply KU_of_inv; eauto. Qed.

  (* ---- the hash-free lookup of the flat map: a scan of the node array *)
  Notation canon_node := (canon_node K V).
  Notation canon := (canon K V).
  Notation fm_find_from := (fm_find_from K V keqb).

  Lemma fm_find_from_some : forall k ns b i, fm_find_from k ns b = Some i ->
    b <= i /\ exists nd, nth_error ns (i - b) = Some nd /\ nfilled nd = true /\ keqb k (nkey nd) = true.
  Proof.
    induction ns as [|a ns IH]; intros b i H; cbn [Model.fm_find_from] in H; [discriminate|].
    destruct (nfilled a && keqb k (nkey a)) eqn:E.
    - inversion H; subst. apply andb_true_iff in E. destruct E. split; [lia|]. exists a. rewrite Nat.sub_diag. auto.
    - destruct (IH _ _ H) as (L & nd & Hn & F & Q). split; [lia|]. exists nd. replace (i - b) with (S (i - S b)) by lia. auto.
  Qed.
  Lemma fm_find_from_none : forall k ns b, fm_find_from k ns b = None ->
    forall j nd, nth_error ns j = Some nd -> nfilled nd = true -> keqb k (nkey nd) = false.
  Proof.
    induction ns as [|a ns IH]; intros b H j nd Hn F; [destruct j; discriminate|]. cbn [Model.fm_find_from] in H.
    destruct (nfilled a && keqb k (nkey a)) eqn:E; [discriminate|].
    destruct j as [|j]; cbn in Hn.
    - inversion Hn; subst. rewrite F in E. exact E.
    - eapply IH; eauto.
  Qed.
  Lemma fm_find_hit : forall k ns i nd, KU ns -> nth_error ns i = Some nd -> nfilled nd = true -> keqb k (nkey nd) = true ->
    fm_find_from k ns 0 = Some i.
  Proof.
    intros k ns i nd U Hn F Q. destruct (fm_find_from k ns 0) as [j|] eqn:E.
    - destruct (fm_find_from_some _ _ _ _ E) as (_ & ndj & Hj & Fj & Qj). rewrite Nat.sub_0_r in Hj.
      f_equal. apply (U j i ndj nd); try assumption. eapply keqb_trans; [rewrite keqb_sym; exact Qj|exact Q].
    - pose proof (fm_find_from_none _ _ _ E i nd Hn F). congruence.
  Qed.
  Lemma fm_find_miss : forall k ns, al_find k (abs_of ns) = None -> fm_find_from k ns 0 = None.
  Proof.
    intros k ns H. destruct (fm_find_from k ns 0) as [j|] eqn:E; [|reflexivity]. exfalso.
    destruct (fm_find_from_some _ _ _ _ E) as (_ & nd & Hj & F & Q). rewrite Nat.sub_0_r in Hj.
    pose proof (proj1 (al_find_none K V keqb _ _) H (nkey nd, nval nd)) as X. cbn [fst] in X.
    rewrite X in Q; [discriminate|]. apply in_abs_of. eauto.
  Qed.
  Lemma fm_find_canon : forall k m, fm_find K V keqb k (canon m) = fm_find_from k (hnodes m) 0.
  Proof. intros. unfold fm_find. cbn [Model.canon Model.hnodes]. apply fm_find_from_canon. Qed.
  Lemma canon_len_b : forall m, length (hbuckets (canon m)) = length (hbuckets m).
  Proof. intros. cbn [Model.canon Model.hbuckets]. apply repeat_length. Qed.
  Lemma sget_canon : forall i ns nd, nth_error ns i = Some nd -> sget i (map canon_node ns) = Ok (canon_node nd).
  Proof. intros. apply sget_Some. rewrite map_nth_error_opt, H. reflexivity. Qed.

  Lemma fm_peek_ok : forall m k, hm_inv m -> fm_peek K V keqb k (canon m) = Ok (al_get K V keqb k (hm_abs m)).
  Proof.
    intros m k (ch & fl & I). unfold fm_peek. rewrite fm_find_canon, al_get_find.
    destruct (al_find k (hm_abs m)) as [kv|] eqn:AF.
    - destruct (al_find_some K V keqb _ _ _ AF) as (Hin & Q). apply in_abs_of in Hin. destruct Hin as (j & nd & Hn & F & ->).
      cbn [fst] in Q. rewrite (fm_find_hit k _ j nd (KU_of_inv _ _ _ I) Hn F Q).
      cbn [Model.canon Model.hnodes]. rewrite (sget_canon _ _ _ Hn). cbn [rbind option_map snd]. rewrite canon_val. reflexivity.
    - rewrite (fm_find_miss _ _ AF). reflexivity.
  Qed.

  Lemma find_abs : forall m ch fl k, hm_inv_w m ch fl -> 0 < length (hbuckets m) ->
    let b := hashmod (khash k) (length (hbuckets m)) in
    match find_in (hnodes m) k (ch b) None with
    | (Some i, p) => exists nd l1 l2, nth_error (hnodes m) i = Some nd /\ nfilled nd = true /\ keqb k (nkey nd) = true /\
                        al_find k (hm_abs m) = Some (nkey nd, nval nd) /\
                        ch b = l1 ++ i :: l2 /\ p = last_or None l1
    | (None, p) => al_find k (hm_abs m) = None /\ p = last_or None (ch b)
    end.
  Proof.
    intros m ch fl k I HB b.
    assert (b < length (hbuckets m)) as Hb by (apply hashmod_lt; assumption).
    assert (forall j, In j (ch b) -> exists x, nth_error (hnodes m) j = Some x) as R.
    { intros j Hj. destruct (inv_ch _ _ _ _ _ _ _ I b Hb) as (s & _ & HS). eapply Seg_in; eauto. }
    pose proof (find_in_spec K V keqb (hnodes m) k (ch b) None R) as FS.
    destruct (find_in (hnodes m) k (ch b) None) as [[i|] p].
    - destruct FS as (l1 & l2 & E & Hp & _ & M).
      assert (In i (ch b)) as Hi by (rewrite E; apply in_or_app; right; left; reflexivity).
      destruct (R i Hi) as (nd & Hn). unfold ProofsHM1.kmatch in M. rewrite Hn in M.
      destruct (inv_fill _ _ _ _ _ _ _ I b i nd Hb Hi Hn) as (F & _).
      exists nd, l1, l2. repeat split; try assumption.
      apply al_find_in; auto.
      + eapply abs_nodup; eauto.
      + apply in_abs_of. eauto.
    - destruct FS as (Hp & M). split; [|assumption].
      apply al_find_none. intros kv Hkv. apply in_abs_of in Hkv. destruct Hkv as (j & nd & Hn & F & ->). cbn [fst].
      destruct (keqb k (nkey nd)) eqn:Q; [|reflexivity]. exfalso.
      pose proof (inv_cov _ _ _ _ _ _ _ I j nd Hn) as C. rewrite F in C. destruct C as (b' & Hb' & Hj).
      destruct (inv_fill _ _ _ _ _ _ _ I b' j nd Hb' Hj Hn) as (_ & Bj).
      rewrite <- (hash_coh _ _ Q) in Bj. fold b in Bj. subst b'.
      specialize (M j Hj). unfold ProofsHM1.kmatch in M. rewrite Hn in M. congruence.
  Qed.

  Lemma abs_empty : forall m ch fl, hm_inv_w m ch fl -> length (hbuckets m) = 0 -> hm_abs m = [].
  Proof. intros m ch fl I H. unfold Model.hm_abs. rewrite (inv_emp _ _ _ _ _ _ _ I H). reflexivity. Qed.

  Lemma hm_peek_ok : forall m k, hm_inv m ->
    hm_peek K V keqb khash k m = Ok (al_get K V keqb k (hm_abs m)).
  Proof.
    intros m k (ch & fl & I). unfold hm_peek. rewrite al_get_find.
    destruct (Nat.eq_dec (length (hbuckets m)) 0) as [E|E].
    - rewrite hm_find_empty by assumption. cbn [rbind fst]. rewrite (abs_empty _ _ _ I E). reflexivity.
    - destruct (hm_find_spec K V keqb khash m ch fl k I ltac:(lia)) as (Hb & ->). cbn [rbind fst].
      pose proof (find_abs m ch fl k I ltac:(lia)) as FA. cbn zeta in FA.
      destruct (find_in (hnodes m) k (ch (hashmod (khash k) (length (hbuckets m)))) None) as [[i|] p]; cbn [fst].
      + destruct FA as (nd & l1 & l2 & Hn & _ & _ & -> & _). rewrite (sget_Some _ _ _ _ Hn). reflexivity.
      + destruct FA as (-> & _). reflexivity.
  Qed.

  (* ---- chains under linking / unlinking one node *)
  Definition chains_ok (bs : list (option nat)) (ns : list node) (ch : nat -> list nat) : Prop :=
    forall b, b < length bs -> exists s, nth_error bs b = Some s /\ Seg ns s (ch b) None.

  Lemma chains_frame : forall bs ns ns' ch, chains_ok bs ns ch ->
    (forall b j nd, b < length bs -> In j (ch b) -> nth_error ns j = Some nd ->
       exists nd', nth_error ns' j = Some nd' /\ nnext nd' = nnext nd) ->
    chains_ok bs ns' ch.
  Proof.
    intros bs ns ns' ch C F b Hb. destruct (C b Hb) as (s & A & B). exists s. split; [assumption|].
    eapply Seg_frame; [exact B|]. intros j nd Hj Hn. eapply F; eauto.
  Qed.

  Lemma inv_disj : forall m ch fl b1 b2 j, hm_inv_w m ch fl ->
    b1 < length (hbuckets m) -> b2 < length (hbuckets m) -> In j (ch b1) -> In j (ch b2) -> b1 = b2.
  Proof.
    intros m ch fl b1 b2 j I H1 H2 J1 J2.
    destruct (inv_ch _ _ _ _ _ _ _ I b1 H1) as (s & _ & HS). destruct (Seg_in _ _ _ _ _ _ _ HS J1) as (nd & Hn).
    destruct (inv_fill _ _ _ _ _ _ _ I b1 j nd H1 J1 Hn) as (_ & A).
    destruct (inv_fill _ _ _ _ _ _ _ I b2 j nd H2 J2 Hn) as (_ & B). congruence.
  Qed.

  Lemma link_chains : forall bs ns ch b i nd,
    chains_ok bs ns ch -> b < length bs -> NoDup (ch b) ->
    nth_error ns i = Some nd -> nnext nd = None -> ~ In i (ch b) ->
    (forall b' j, b' < length bs -> b' <> b -> In j (ch b) -> ~ In j (ch b')) ->
    let ch' := fun b' => if b' =? b then ch b ++ [i] else ch b' in
    match ch b with
    | [] => chains_ok (overwrite b [Some i] bs) ns ch'
    | _ :: _ => forall pn, nth_error ns (last (ch b) 0) = Some pn ->
                chains_ok bs (overwrite (last (ch b) 0) [set_next K V (Some i) pn] ns) ch'
    end.
  Proof.
    intros bs ns ch b i nd C Hb ND Hn Hnx Hni DJ ch'.
    destruct (C b Hb) as (s & Hs & HS).
    destruct (ch b) as [|c0 crest] eqn:Ech.
    - intros b' Hb'. rewrite length_upd in Hb' by assumption. rewrite nthe_upd by assumption. unfold ch'.
      destruct (Nat.eqb_spec b' b).
      + subst b'. try rewrite Ech. eexists; split; [reflexivity|]. cbn [app]. econstructor; [exact Hn|]. rewrite Hnx. constructor.
      + apply C. assumption.
    - intros pn Hpn. set (p := last (c0 :: crest) 0) in *.
      pose proof (nth_error_Some_lt _ _ _ _ Hpn) as HpL.
      assert (In p (c0 :: crest)) as Hpin by (apply last_in; discriminate).
      assert (p <> i) as Hpi by (intros ->; contradiction).
      intros b' Hb'. unfold ch'. destruct (Nat.eqb_spec b' b).
      + subst b'. exists s. split; [assumption|]. try rewrite Ech.
        eapply Seg_app.
        * unfold p. eapply Seg_set_last; [exact HS|discriminate|assumption|exact Hpn].
        * econstructor.
          { rewrite nthe_upd by assumption. destruct (Nat.eqb_spec i p); [congruence|exact Hn]. }
          { rewrite Hnx. constructor. }
      + destruct (C b' Hb') as (s' & Hs' & HS'). exists s'. split; [assumption|].
        eapply Seg_frame; [exact HS'|]. intros j ndj Hj Hnj.
        assert (j <> p) by (intros ->; eapply (DJ b' p); eauto; rewrite Ech; assumption).
        exists ndj. split; [|reflexivity]. rewrite nthe_upd by assumption. destruct (Nat.eqb_spec j p); [contradiction|assumption].
  Qed.

  Lemma unlink_chains : forall bs ns ch b i l1 l2 nd,
    chains_ok bs ns ch -> b < length bs -> NoDup (ch b) -> ch b = l1 ++ i :: l2 ->
    nth_error ns i = Some nd ->
    (forall b' j, b' < length bs -> b' <> b -> In j (ch b) -> ~ In j (ch b')) ->
    let ch' := fun b' => if b' =? b then l1 ++ l2 else ch b' in
    match l1 with
    | [] => chains_ok (overwrite b [nnext nd] bs) ns ch'
    | _ :: _ => forall pn, nth_error ns (last l1 0) = Some pn ->
                chains_ok bs (overwrite (last l1 0) [set_next K V (nnext nd) pn] ns) ch'
    end.
  Proof.
    intros bs ns ch b i l1 l2 nd C Hb ND Ech Hn DJ ch'.
    destruct (C b Hb) as (s & Hs & HS). rewrite Ech in HS, ND.
    destruct (Seg_split _ _ _ _ _ _ _ HS) as (e1 & S1 & S2).
    destruct (Seg_cons_inv _ _ _ _ _ _ _ S2) as (nd' & -> & Hn' & S3). rewrite Hn in Hn'. inversion Hn'; subst nd'.
    destruct l1 as [|c0 crest].
    - apply Seg_nil_inv in S1. subst s.
      intros b' Hb'. rewrite length_upd in Hb' by assumption. rewrite nthe_upd by assumption. unfold ch'.
      destruct (Nat.eqb_spec b' b).
      + subst b'. eexists; split; [reflexivity|]. exact S3.
      + apply C. assumption.
    - intros pn Hpn. set (p := last (c0 :: crest) 0) in *.
      pose proof (nth_error_Some_lt _ _ _ _ Hpn) as HpL.
      assert (In p (c0 :: crest)) as Hpin by (apply last_in; discriminate).
      apply NoDup_app_remove_mid in ND as ND'.
      assert (NoDup (c0 :: crest) /\ ~ In p l2) as [ND1 Hpl2].
      { split.
        - apply NoDup_app_remove_r in ND. assumption.
        - intros H. apply NoDup_app_remove_mid in ND. rewrite NoDup_app_iff' in ND. destruct ND as (_ & _ & X). eapply X; eauto. }
      intros b' Hb'. unfold ch'. destruct (Nat.eqb_spec b' b).
      + subst b'. exists s. split; [assumption|].
        eapply Seg_app.
        * unfold p. eapply Seg_set_last; [exact S1|discriminate|assumption|exact Hpn].
        * eapply Seg_frame; [exact S3|]. intros j ndj Hj Hnj.
          assert (j <> p) by (intros ->; contradiction).
          exists ndj. split; [|reflexivity]. rewrite nthe_upd by assumption. destruct (Nat.eqb_spec j p); [contradiction|assumption].
      + destruct (C b' Hb') as (s' & Hs' & HS'). exists s'. split; [assumption|].
        eapply Seg_frame; [exact HS'|]. intros j ndj Hj Hnj.
        assert (j <> p).
        { intros ->. eapply (DJ b' p); eauto. rewrite Ech. apply in_or_app. left; assumption. }
        exists ndj. split; [|reflexivity]. rewrite nthe_upd by assumption. destruct (Nat.eqb_spec j p); [contradiction|assumption].
  Qed.

  (* ---- insertion of a new key into a free node, linked at the end of its bucket's chain *)
  Lemma exists_unfilled : forall (ns : list node), length (filter nfilled ns) < length ns ->
    exists i nd, nth_error ns i = Some nd /\ nfilled nd = false.
  Proof.
    induction ns as [|a ns IH]; cbn [filter length]; intros H; [lia|].
    destruct (nfilled a) eqn:E.
    - cbn [length] in H. destruct (IH ltac:(lia)) as (i & nd & A & B). exists (S i), nd. auto.
    - exists 0, a. auto.
  Qed.

  Definition new_node (k : K) : node := mknode K V k vdflt true None.

  Lemma hm_insert_ok : forall m ch fl k, hm_inv_w m ch fl -> 0 < length (hbuckets m) ->
    al_find k (hm_abs m) = None ->
    let b := hashmod (khash k) (length (hbuckets m)) in
    exists fi ndf fl' bs2 ns2,
      hfree m = Some fi /\ fi < length (hnodes m) /\ nth_error (hnodes m) fi = Some ndf /\ fl = fi :: fl' /\
      (match last_or None (ch b) with
       | None => b0 <- sset b (Some fi) (hbuckets m) ;;
                 Ok (mkhm K V b0 (overwrite fi [new_node k] (hnodes m)) (hsize m) (nnext ndf))
       | Some p => pn <- sget p (overwrite fi [new_node k] (hnodes m)) ;;
                   ns' <- sset p (set_next K V (Some fi) pn) (overwrite fi [new_node k] (hnodes m)) ;;
                   Ok (mkhm K V (hbuckets m) ns' (hsize m) (nnext ndf))
       end) = Ok (mkhm K V bs2 ns2 (hsize m) (nnext ndf)) /\
      length bs2 = length (hbuckets m) /\ length ns2 = length (hnodes m) /\
      nth_error ns2 fi = Some (match last_or None (ch b) with Some p => if p =? fi then set_next K V (Some fi) (new_node k) else new_node k | None => new_node k end) /\
      KU ns2 /\ hsize m + 1 = length (filter nfilled ns2) /\
      (forall k', al_find k' (abs_of ns2) = if keqb k' k then Some (k, vdflt) else al_find k' (hm_abs m)) /\
      Permutation (abs_of ns2) ((k, vdflt) :: hm_abs m) /\
      (nfilled ndf = false /\ map canon_node ns2 = overwrite fi [new_node k] (map canon_node (hnodes m))) /\
      (hsize m + 1 < length (hnodes m) ->
       hm_inv_w (mkhm K V bs2 ns2 (hsize m + 1) (nnext ndf)) (fun b' => if b' =? b then ch b ++ [fi] else ch b') fl').
  Proof.
    intros m ch fl k I HB Hnone b.
    assert (b < length (hbuckets m)) as Hb by (apply hashmod_lt; assumption).
    (* a free node exists and heads the free list *)
    pose proof (inv_room _ _ _ _ _ _ _ I HB) as Hroom. rewrite (inv_size _ _ _ _ _ _ _ I) in Hroom.
    destruct (exists_unfilled _ Hroom) as (u & ndu & Hu & Fu).
    pose proof (inv_cov _ _ _ _ _ _ _ I u ndu Hu) as Cu. rewrite Fu in Cu.
    destruct fl as [|fi fl']; [destruct Cu|].
    pose proof (inv_fl _ _ _ _ _ _ _ I) as SF.
    destruct (Seg_cons_inv _ _ _ _ _ _ _ SF) as (ndf & Hfree & Hndf & SF').
    pose proof (nth_error_Some_lt _ _ _ _ Hndf) as HfiL.
    pose proof (inv_unf _ _ _ _ _ _ _ I fi ndf (or_introl eq_refl) Hndf) as Fndf.
    pose proof (inv_ndf _ _ _ _ _ _ _ I) as NDF. inversion NDF as [|? ? Hfinot NDF']; subst.
    set (ns1 := overwrite fi [new_node k] (hnodes m)).
    assert (length ns1 = length (hnodes m)) as L1 by (unfold ns1; apply length_upd; assumption).
    assert (forall j, j <> fi -> nth_error ns1 j = nth_error (hnodes m) j) as O1.
    { intros j Hj. unfold ns1. rewrite nthe_upd by assumption. destruct (Nat.eqb_spec j fi); [contradiction|reflexivity]. }
    assert (nth_error ns1 fi = Some (new_node k)) as N1.
    { unfold ns1. rewrite nthe_upd by assumption. rewrite Nat.eqb_refl. reflexivity. }
    (* fi is on no chain *)
    assert (forall b', b' < length (hbuckets m) -> ~ In fi (ch b')) as Hfich.
    { intros b' Hb' Hin. destruct (inv_fill _ _ _ _ _ _ _ I b' fi ndf Hb' Hin Hndf). congruence. }
    assert (chains_ok (hbuckets m) ns1 ch) as C1.
    { eapply chains_frame; [exact (inv_ch _ _ _ _ _ _ _ I)|].
      intros b' j nd Hb' Hj Hn. exists nd. split; [|reflexivity]. rewrite O1; [assumption|].
      intros ->. eapply Hfich; eauto. }
    pose proof (link_chains (hbuckets m) ns1 ch b fi (new_node k) C1 Hb (inv_nd _ _ _ _ _ _ _ I b Hb) N1 eq_refl (Hfich b Hb)) as LK.
    assert (forall b' j, b' < length (hbuckets m) -> b' <> b -> In j (ch b) -> ~ In j (ch b')) as DJ.
    { intros b' j Hb' Hne Hj Hj'. apply Hne. eapply inv_disj; eauto. }
    specialize (LK DJ). cbn zeta in LK.
    exists fi, ndf, fl'.
    (* the two linking cases *)
    assert (exists bs2 ns2,
      (match last_or None (ch b) with
       | None => b0 <- sset b (Some fi) (hbuckets m) ;; Ok (mkhm K V b0 ns1 (hsize m) (nnext ndf))
       | Some p => pn <- sget p ns1 ;; ns' <- sset p (set_next K V (Some fi) pn) ns1 ;;
                   Ok (mkhm K V (hbuckets m) ns' (hsize m) (nnext ndf))
       end) = Ok (mkhm K V bs2 ns2 (hsize m) (nnext ndf)) /\
      length bs2 = length (hbuckets m) /\ length ns2 = length (hnodes m) /\
      chains_ok bs2 ns2 (fun b' => if b' =? b then ch b ++ [fi] else ch b') /\
      (forall j x, nth_error ns1 j = Some x -> exists y, nth_error ns2 j = Some y /\ same_kvf x y /\ (nfilled x = false -> j <> fi -> y = x)) /\
      nth_error ns2 fi = Some (match last_or None (ch b) with Some p => if p =? fi then set_next K V (Some fi) (new_node k) else new_node k | None => new_node k end))
      as (bs2 & ns2 & Hcode & Lb2 & Ln2 & C2 & KV2 & Nfi).
    { destruct (ch b) as [|c0 crest] eqn:Ech.
      - cbn [last_or]. rewrite sset_ok by assumption. cbn [rbind].
        exists (overwrite b [Some fi] (hbuckets m)), ns1. split; [reflexivity|].
        split; [apply length_upd; assumption|]. split; [assumption|]. split; [exact LK|].
        split; [|assumption]. intros j x Hx. exists x. split; [assumption|]. split; [apply same_kvf_refl|auto].
      - cbn [last_or]. set (p := last (c0 :: crest) 0) in *.
        assert (In p (ch b)) as Hpin by (rewrite Ech; apply last_in; discriminate).
        assert (p <> fi) as Hpf by (intros ->; eapply Hfich; eauto).
        destruct (inv_ch _ _ _ _ _ _ _ I b Hb) as (s & _ & HS).
        destruct (Seg_in _ _ _ _ _ _ _ HS Hpin) as (pn & Hpn).
        pose proof (nth_error_Some_lt _ _ _ _ Hpn) as HpL.
        assert (nth_error ns1 p = Some pn) as Hpn1 by (rewrite O1; assumption).
        rewrite (sget_Some _ _ _ _ Hpn1). cbn [rbind]. rewrite sset_ok by lia. cbn [rbind].
        exists (hbuckets m), (overwrite p [set_next K V (Some fi) pn] ns1). split; [reflexivity|].
        split; [reflexivity|]. split; [rewrite length_upd by lia; assumption|]. split; [apply LK; assumption|].
        split.
        + intros j x Hx. rewrite nthe_upd by lia. destruct (Nat.eqb_spec j p).
          * subst j. rewrite Hpn1 in Hx. inversion Hx; subst x. eexists; split; [reflexivity|]. split; [apply set_next_kvf|].
            intros Hf. destruct (inv_fill _ _ _ _ _ _ _ I b p pn Hb Hpin Hpn). congruence.
          * exists x. split; [assumption|]. split; [apply same_kvf_refl|auto].
        + rewrite nthe_upd by lia. destruct (Nat.eqb_spec fi p); [congruence|].
          destruct (Nat.eqb_spec p fi); [congruence|]. assumption. }
    exists bs2, ns2. fold ns1. split; [assumption|]. split; [assumption|]. split; [assumption|]. split; [reflexivity|].
    split; [exact Hcode|]. split; [assumption|]. split; [assumption|]. split; [assumption|].
    (* content of ns2 relative to the old nodes *)
    assert (forall j x, j <> fi -> nth_error (hnodes m) j = Some x -> exists y, nth_error ns2 j = Some y /\ same_kvf x y /\ (nfilled x = false -> y = x)) as OLD.
    { intros j x Hj Hx. rewrite <- O1 in Hx by assumption. destruct (KV2 j x Hx) as (y & A & B & C). exists y. auto. }
    assert (exists y, nth_error ns2 fi = Some y /\ same_kvf (new_node k) y) as (yfi & Hyfi & Syfi).
    { destruct (KV2 fi _ N1) as (y & A & B & _). eauto. }
    assert (forall j y, nth_error ns2 j = Some y -> (j = fi /\ same_kvf (new_node k) y) \/
              (j <> fi /\ exists x, nth_error (hnodes m) j = Some x /\ same_kvf x y)) as REV.
    { intros j y Hy. destruct (Nat.eq_dec j fi).
      - left. subst. rewrite Hyfi in Hy. inversion Hy; subst. auto.
      - right. split; [assumption|]. pose proof (nth_error_Some_lt _ _ _ _ Hy). rewrite Ln2 in H.
        destruct (nth_error (hnodes m) j) eqn:E; [|apply nth_error_None in E; lia].
        destruct (OLD j h n E) as (y' & A & B & _). rewrite Hy in A. inversion A; subst. eauto. }
    assert (abs_of ns2 = abs_of (firstn fi (hnodes m)) ++ [(k, vdflt)] ++ abs_of (skipn (S fi) (hnodes m))) as HA2.
    { transitivity (abs_of ns1).
      - symmetry. apply kvf_eq_abs. split; [lia|]. intros j x Hx. destruct (KV2 j x Hx) as (y & A & B & _). eauto.
      - unfold ns1. rewrite abs_upd by assumption. reflexivity. }
    assert (hm_abs m = abs_of (firstn fi (hnodes m)) ++ abs_of (skipn (S fi) (hnodes m))) as HA0.
    { unfold Model.hm_abs. rewrite (abs_split _ _ _ Hndf). unfold abs1. rewrite Fndf. reflexivity. }
    assert (forall k', al_find k' (abs_of ns2) = if keqb k' k then Some (k, vdflt) else al_find k' (hm_abs m)) as HF2.
    { intros k'. rewrite HA2, HA0, !al_find_app. cbn [Model.al_find Model.al_find fst app].
      destruct (keqb k' k) eqn:Q.
      - rewrite (al_find_congr K V keqb keqb_sym keqb_trans k' k _ Q) in *.
        rewrite HA0, al_find_app in Hnone. destruct (al_find k (abs_of (firstn fi (hnodes m)))); [discriminate|reflexivity].
      - reflexivity. }
    assert (KU ns2) as U2.
    { apply abs_KU; auto. rewrite HA2. apply keys_nodup_app. pose proof (abs_nodup _ _ _ I) as ND. rewrite HA0 in ND.
      apply keys_nodup_app in ND. destruct ND as (NA & NB & NAB).
      rewrite HA0 in Hnone. rewrite al_find_app in Hnone.
      destruct (al_find k (abs_of (firstn fi (hnodes m)))) eqn:EA; [discriminate|].
      pose proof (proj1 (al_find_none K V keqb _ _) EA) as XA. pose proof (proj1 (al_find_none K V keqb _ _) Hnone) as XB.
      split; [assumption|]. split.
      - apply keys_nodup_cons. split; [intros y Hy; cbn [fst]; apply XB; assumption|assumption].
      - intros x y Hx [<-|Hy]; [cbn [fst]; rewrite keqb_sym; apply XA; assumption|apply NAB; assumption]. }
    split; [assumption|].
    assert (hsize m + 1 = length (filter nfilled ns2)) as HS2.
    { rewrite filled_len_abs, HA2, (inv_size _ _ _ _ _ _ _ I), filled_len_abs. fold (hm_abs m). rewrite HA0, !app_length. cbn. lia. }
    split; [assumption|]. split; [assumption|].
    split; [rewrite HA2, HA0; apply Permutation_sym; apply Permutation_middle|].
    split.
    { split; [assumption|]. apply nth_error_ext; intro j. rewrite map_nth_error_opt.
      rewrite nthe_upd by (rewrite map_length; assumption). rewrite map_nth_error_opt.
      destruct (Nat.eqb_spec j fi) as [->|Hj].
      - rewrite Nfi. cbn [option_map]. f_equal.
        destruct (last_or None (ch b)) as [p|]; [destruct (p =? fi)|]; reflexivity.
      - destruct (nth_error (hnodes m) j) as [x|] eqn:Ex.
        + destruct (OLD j x Hj Ex) as (y & Hy & Sy & Uy). rewrite Hy. cbn [option_map]. f_equal. symmetry.
          apply canon_node_eq; [assumption|]. intros Fx. symmetry. auto.
        + apply nth_error_None in Ex. assert (nth_error ns2 j = None) as -> by (apply nth_error_None; lia). reflexivity. }
    (* the invariant when there is still room *)
    intros Hrm.
    constructor; cbn [Model.hbuckets Model.hnodes Model.hsize Model.hfree]; rewrite ?Lb2, ?Ln2.
    - intros b' Hb'. apply C2. lia.
    - eapply Seg_frame; [exact SF'|]. intros j x Hj Hx.
      assert (j <> fi) by (intros ->; contradiction).
      pose proof (inv_unf _ _ _ _ _ _ _ I j x (or_intror Hj) Hx) as Fx.
      destruct (OLD j x H Hx) as (y & A & _ & Bx). rewrite (Bx Fx) in A. eauto.
    - intros b' Hb'. destruct (Nat.eqb_spec b' b); [|apply (inv_nd _ _ _ _ _ _ _ I b' Hb')].
      apply NoDup_app_snoc; [apply (inv_nd _ _ _ _ _ _ _ I b Hb)|apply Hfich; assumption].
    - assumption.
    - intros j y Hy. destruct (REV j y Hy) as [(-> & _ & _ & Fy)|(Hj & x & Hx & _ & _ & Fx)].
      + rewrite <- Fy. cbn. exists b. split; [assumption|]. rewrite Nat.eqb_refl. apply in_or_app. right; left; reflexivity.
      + rewrite <- Fx. pose proof (inv_cov _ _ _ _ _ _ _ I j x Hx) as C. destruct (nfilled x).
        * destruct C as (b' & Hb' & Hin). exists b'. split; [assumption|]. destruct (Nat.eqb_spec b' b); [subst; apply in_or_app; auto|assumption].
        * destruct C as [C|C]; [congruence|assumption].
    - intros b' j y Hb' Hj Hy. destruct (REV j y Hy) as [(-> & Ky & _ & Fy)|(Hne & x & Hx & Kx & _ & Fx)].
      + rewrite <- Fy, <- Ky. cbn. split; [reflexivity|]. fold b.
        destruct (Nat.eqb_spec b' b); [auto|]. exfalso. eapply Hfich; eauto.
      + rewrite <- Fx, <- Kx. apply (inv_fill _ _ _ _ _ _ _ I b' j x Hb'); [|assumption].
        destruct (Nat.eqb_spec b' b); [|assumption]. subst b'. apply in_app_or in Hj. destruct Hj as [Hj|[Hj|[]]]; [assumption|congruence].
    - intros j y Hj Hy. destruct (REV j y Hy) as [(-> & _)|(Hne & x & Hx & _ & _ & Fx)]; [contradiction|].
      rewrite <- Fx. apply (inv_unf _ _ _ _ _ _ _ I j x (or_intror Hj) Hx).
    - exact U2.
    - exact HS2.
    - intros Hz. lia.
    - exact (inv_cap _ _ _ _ _ _ _ I).
    - exact (inv_cap2 _ _ _ _ _ _ _ I).
    - intros _. exact Hrm.
  Qed.

  (* ---- _at: find or insert; the returned index survives the growth rehash *)
  Lemma hm_grow_rate_fact : 0 < HM_GROW_n.
  Proof. vm_compute. lia. Qed.

  (* the largest bucket count an inserting access can request from a map holding s bindings:
     the initial allocation, and the growth rehash after the insertion *)

  Lemma fm_insert_canon : forall m0 fi ndf bs2 ns2 k,
    hfree m0 = Some fi -> fi < length (hnodes m0) -> nth_error (hnodes m0) fi = Some ndf -> nfilled ndf = false ->
    length bs2 = length (hbuckets m0) ->
    map canon_node ns2 = overwrite fi [new_node k] (map canon_node (hnodes m0)) ->
    fm_insert K V kdflt vdflt k (canon m0) =
      (m3 <- (if length (hbuckets m0) * HM_MAXLF_n <=? (hsize m0 + 1) * 100
              then fm_rehash K V kdflt vdflt (ceilidiv ((hsize m0 + 1) * HM_GROW_n) HM_MAXLF_n)
                     (canon (mkhm K V bs2 ns2 (hsize m0 + 1) (nnext ndf)))
              else Ok (canon (mkhm K V bs2 ns2 (hsize m0 + 1) (nnext ndf)))) ;;
       Ok (m3, fi)).
  Proof.
    intros m0 fi ndf bs2 ns2 k Hfree HfiL Hndf Fndf Lb2 HC. unfold fm_insert.
    cbn [Model.canon Model.hfree Model.hnodes Model.hsize Model.hbuckets]. rewrite Hfree, map_length.
    destruct (Nat.leb_spec (length (hnodes m0)) fi); [lia|].
    rewrite (sget_canon _ _ _ Hndf). cbn [rbind]. rewrite sset_ok by (rewrite map_length; assumption). cbn [rbind].
    fold (new_node k). rewrite <- HC. rewrite (canon_unfilled K V _ Fndf).
    unfold Model.canon. cbn [Model.hfree Model.hnodes Model.hsize Model.hbuckets]. rewrite repeat_length, Lb2. reflexivity.
  Qed.

  Lemma hm_at_ok : forall m k, hm_inv m ->
    (hm_at K V kdflt vdflt keqb khash k m = Trap TrapOverflow /\ (2 ^ 62 < Z.of_nat (at_request (hsize m)))%Z /\
     fm_at K V kdflt vdflt keqb k (canon m) = Trap TrapOverflow) \/
    exists m1 i nd, hm_at K V kdflt vdflt keqb khash k m = Ok (m1, i) /\ hm_inv m1 /\
      nth_error (hnodes m1) i = Some nd /\ nfilled nd = true /\
      match al_find k (hm_abs m) with
      | Some kv => hm_abs m1 = hm_abs m /\ (nkey nd, nval nd) = kv /\ keqb k (nkey nd) = true
      | None => nkey nd = k /\ nval nd = vdflt /\ Permutation (hm_abs m1) ((k, vdflt) :: hm_abs m)
      end /\
      fm_at K V kdflt vdflt keqb k (canon m) = Ok (canon m1, i).
  Proof.
    intros m k Hinv. unfold hm_at.
    (* initial allocation *)
    unfold fm_at. rewrite canon_len_b.
    assert (((if length (hbuckets m) =? 0 then hm_rehash K V kdflt vdflt keqb khash HM_INIT_n m else Ok m) = Trap TrapOverflow /\
             (2 ^ 62 < Z.of_nat (at_request (hsize m)))%Z /\
             (if length (hbuckets m) =? 0 then fm_rehash K V kdflt vdflt HM_INIT_n (canon m) else Ok (canon m)) = Trap TrapOverflow) \/
            exists m0, (if length (hbuckets m) =? 0 then hm_rehash K V kdflt vdflt keqb khash HM_INIT_n m else Ok m) = Ok m0 /\
                       hm_inv m0 /\ hm_abs m0 = hm_abs m /\ 0 < length (hbuckets m0) /\ hsize m0 = hsize m /\
                       (if length (hbuckets m) =? 0 then fm_rehash K V kdflt vdflt HM_INIT_n (canon m) else Ok (canon m)) = Ok (canon m0))
      as [(-> & Hbig & ->)|(m0 & -> & (ch & fl & I) & HA0 & HB0 & HS0 & ->)];
      [|left; split; [reflexivity|split; [assumption|reflexivity]]|].
    { destruct (Nat.eqb_spec (length (hbuckets m)) 0).
      - destruct Hinv as (ch & fl & I).
        destruct (hm_rehash_ok K V kdflt vdflt keqb khash keqb_sym HM_INIT_n m (KU_of_inv _ _ _ I) (inv_size _ _ _ _ _ _ _ I))
          as [(-> & Hbig & FM)|(m' & -> & I' & A & S' & B & _ & _ & _ & FM)];
          [left; split; [reflexivity|split; [unfold at_request; lia|assumption]]|right].
        exists m'. pose proof hm_init_pos. split; [reflexivity|]. split; [assumption|]. split; [assumption|]. split; [lia|]. split; assumption.
      - right. exists m. split; [reflexivity|]. split; [assumption|]. split; [reflexivity|]. split; [lia|]. split; reflexivity. }
    cbn [rbind]. rewrite fm_find_canon.
    destruct (hm_find_spec K V keqb khash m0 ch fl k I HB0) as (Hb & ->). cbn [rbind].
    pose proof (find_abs m0 ch fl k I HB0) as FA. cbn zeta in FA.
    set (b := hashmod (khash k) (length (hbuckets m0))) in *.
    destruct (find_in (hnodes m0) k (ch b) None) as [[i|] prev].
    - (* found *)
      destruct FA as (nd & l1 & l2 & Hn & F & Q & AF & _). right. exists m0, i, nd.
      split; [reflexivity|]. split; [exists ch, fl; assumption|]. split; [assumption|]. split; [assumption|].
      rewrite (fm_find_hit k _ i nd (KU_of_inv _ _ _ I) Hn F Q).
      rewrite <- HA0, AF. auto.
    - (* insert *)
      destruct FA as (AF & Hprev). subst prev.
      destruct (hm_insert_ok m0 ch fl k I HB0 AF) as (fi & ndf & fl' & bs2 & ns2 & Hfree & HfiL & Hndf & -> & Hcode & Lb2 & Ln2 & Nfi & U2 & HS2 & HF2 & HP2 & (Fndf & HC2) & Hinv2).
      fold b in Hcode, Nfi, Hinv2.
      unfold Model.hm_abs in AF. rewrite (fm_find_miss _ _ AF). fold (hm_abs m0) in AF.
      rewrite (fm_insert_canon m0 fi ndf bs2 ns2 k Hfree HfiL Hndf Fndf Lb2 HC2).
      rewrite Hfree. destruct (Nat.leb_spec (length (hnodes m0)) fi); [lia|].
      rewrite (sget_Some _ _ _ _ Hndf). cbn [rbind]. rewrite sset_ok by assumption. cbn [rbind].
      fold (new_node k). rewrite Hcode. cbn [rbind Model.hbuckets Model.hnodes Model.hsize Model.hfree].
      assert (exists y, nth_error ns2 fi = Some y /\ nkey y = k /\ nval y = vdflt /\ nfilled y = true) as (y & Hy & Ky & Vy & Fy).
      { eexists; split; [exact Nfi|]. destruct (last_or None (ch b)) as [p|]; [destruct (p =? fi)|]; auto. }
      rewrite Lb2.
      destruct (Nat.leb_spec (length (hbuckets m0) * HM_MAXLF_n) ((hsize m0 + 1) * 100)) as [Htrig|Hno].
      + (* growth rehash *)
        set (m2 := mkhm K V bs2 ns2 (hsize m0 + 1) (nnext ndf)).
        destruct (hm_rehash_ok K V kdflt vdflt keqb khash keqb_sym
                    (ceilidiv ((hsize m0 + 1) * HM_GROW_n) HM_MAXLF_n) m2 U2 HS2)
          as [(-> & Hbig & FM)|(m3 & -> & I3 & A3 & S3 & _ & B3 & P3 & _ & FM)];
          [left; split; [reflexivity|split; [cbn [m2 Model.hsize] in Hbig; rewrite HS0 in Hbig; unfold at_request; lia|]];
           destruct (Nat.leb_spec (length (hbuckets m0) * HM_MAXLF_n) ((hsize m0 + 1) * 100)); [|lia];
           fold m2; rewrite FM; reflexivity|right].
        cbn [rbind].
        assert (length (hnodes m2) <= length (hnodes m3)) as Hle.
        { destruct I3 as (ch3 & fl3 & I3). specialize (B3 ltac:(cbn; lia)).
          pose proof (inv_room _ _ _ _ _ _ _ I3 B3) as R3. rewrite S3 in R3. cbn [m2 Model.hsize Model.hnodes] in *.
          pose proof (inv_cap2 _ _ _ _ _ _ _ I) as C2. unfold Model.MAXLF in C2.
          assert (ceilidiv (length (hbuckets m0) * HM_MAXLF_n) 100 < hsize m0 + 2).
          { unfold ceilidiv. apply Nat.div_lt_upper_bound; lia. }
          lia. }
        destruct (P3 Hle fi y Hy Fy) as (y3 & Hy3 & K3 & V3 & F3).
        exists m3, fi, y3. split; [reflexivity|]. split; [assumption|]. split; [assumption|]. split; [congruence|].
        rewrite <- HA0, AF. split; [split; [congruence|]; split; [congruence|];
          rewrite A3; unfold Model.hm_abs at 1; cbn [m2 Model.hnodes]; exact HP2|].
        destruct (Nat.leb_spec (length (hbuckets m0) * HM_MAXLF_n) ((hsize m0 + 1) * 100)); [|lia].
        fold m2. rewrite FM. reflexivity.
      + right. cbn [rbind].
        assert (hsize m0 + 1 < length (hnodes m0)) as Hrm.
        { pose proof (inv_cap _ _ _ _ _ _ _ I) as C1. unfold Model.MAXLF in C1. nia. }
        exists (mkhm K V bs2 ns2 (hsize m0 + 1) (nnext ndf)), fi, y.
        split; [reflexivity|]. split; [eexists; eexists; apply Hinv2; assumption|]. split; [assumption|]. split; [assumption|].
        rewrite <- HA0, AF. split; [split; [assumption|]; split; [assumption|]; exact HP2|].
        destruct (Nat.leb_spec (length (hbuckets m0) * HM_MAXLF_n) ((hsize m0 + 1) * 100)); [lia|]. reflexivity.
  Qed.

  (* ---- assignment m[k] = v and inserting read m[k] *)
  Notation stored_key := (stored_key K V keqb).

  Lemma kfn_upd : forall ns i nd x, nth_error ns i = Some nd ->
    nkey x = nkey nd -> nfilled x = nfilled nd -> nnext x = nnext nd -> kfn_eq ns (overwrite i [x] ns).
  Proof.
    intros ns i nd x H A B C. pose proof (nth_error_Some_lt _ _ _ _ H) as L.
    split; [rewrite length_upd by assumption; reflexivity|].
    intros j ndj Hj. rewrite nthe_upd by assumption. destruct (Nat.eqb_spec j i).
    - subst. rewrite H in Hj. inversion Hj; subst. eauto.
    - eauto.
  Qed.

  Lemma al_find_replace : forall A C kn old v k', keys_nodup (A ++ (kn, old) :: C) ->
    al_find k' (A ++ (kn, v) :: C) = if keqb k' kn then Some (kn, v) else al_find k' (A ++ (kn, old) :: C).
  Proof.
    intros A C kn old v k' ND. rewrite !al_find_app. cbn [Model.al_find fst].
    apply keys_nodup_app in ND. destruct ND as (_ & _ & X).
    destruct (keqb k' kn) eqn:Q; [|reflexivity].
    destruct (al_find k' A) eqn:E; [|reflexivity]. exfalso.
    apply al_find_some in E. destruct E as (Hin & Q2).
    specialize (X p (kn, old) Hin (or_introl eq_refl)). cbn [fst] in X.
    assert (keqb (fst p) kn = true) by (eapply keqb_trans; [rewrite keqb_sym; exact Q2|exact Q]). congruence.
  Qed.

  Lemma nomatch_before : forall A kn old C k, keys_nodup (A ++ (kn, old) :: C) -> keqb k kn = true ->
    forall x, In x A -> keqb k (fst x) = false.
  Proof.
    intros A kn old C k ND Q x Hx. apply keys_nodup_app in ND. destruct ND as (_ & _ & X).
    specialize (X x (kn, old) Hx (or_introl eq_refl)). cbn [fst] in X.
    destruct (keqb k (fst x)) eqn:E; [|reflexivity].
    assert (keqb (fst x) kn = true) by (eapply keqb_trans; [rewrite keqb_sym; exact E|exact Q]). congruence.
  Qed.

  Lemma hm_set_ok : forall m k v, hm_inv m ->
    (hm_set K V kdflt vdflt keqb khash k v m = Trap TrapOverflow /\ (2 ^ 62 < Z.of_nat (at_request (hsize m)))%Z /\
     fm_set K V kdflt vdflt keqb k v (canon m) = Trap TrapOverflow) \/
    exists m', hm_set K V kdflt vdflt keqb khash k v m = Ok m' /\ hm_inv m' /\
      Permutation (hm_abs m') (al_set K V keqb k v (hm_abs m)) /\
      fm_set K V kdflt vdflt keqb k v (canon m) = Ok (canon m').
  Proof.
    intros m k v Hinv. unfold hm_set, fm_set.
    destruct (hm_at_ok m k Hinv) as [(-> & Hbig & ->)|(m1 & i & nd & -> & (ch & fl & I1) & Hn & F & SP & ->)];
      [left; split; [reflexivity|split; [assumption|reflexivity]]|right].
    cbn [rbind]. rewrite (sget_Some _ _ _ _ Hn). cbn [rbind].
    pose proof (nth_error_Some_lt _ _ _ _ Hn) as Li. rewrite sset_ok by assumption. cbn [rbind].
    eexists. split; [reflexivity|]. split; [|split].
    3:{ cbn [Model.canon Model.hnodes]. rewrite (sget_canon _ _ _ Hn). cbn [rbind].
        rewrite sset_ok by (rewrite map_length; assumption). cbn [rbind].
        unfold Model.canon. cbn [Model.hfree Model.hnodes Model.hsize Model.hbuckets].
        rewrite canon_upd, canon_set_val. reflexivity. }
    - exists ch, fl. apply (inv_kfn m1 ch fl _ I1). eapply kfn_upd; eauto.
    - unfold Model.hm_abs at 1. cbn [Model.hnodes].
      rewrite abs_upd by assumption. unfold abs1 at 1. cbn [Model.nfilled Model.set_val Model.nkey Model.nval]. rewrite F.
      pose proof (abs_nodup _ _ _ I1) as ND1.
      assert (hm_abs m1 = abs_of (firstn i (hnodes m1)) ++ (nkey nd, nval nd) :: abs_of (skipn (S i) (hnodes m1))) as EA.
      { unfold Model.hm_abs. rewrite (abs_split _ _ _ Hn). unfold abs1. rewrite F. reflexivity. }
      set (A := abs_of (firstn i (hnodes m1))) in *. set (C := abs_of (skipn (S i) (hnodes m1))) in *. cbn [app].
      destruct (al_find k (hm_abs m)) as [kv|] eqn:AF.
      + destruct SP as (E1 & <- & Q). rewrite <- E1, EA. rewrite EA in ND1.
        rewrite (al_set_split K V keqb k v A (nkey nd, nval nd) C (nomatch_before _ _ _ _ _ ND1 Q) Q). apply Permutation_refl.
      + destruct SP as (Kk & Vk & P1). rewrite (al_set_none K V keqb k v _ AF). rewrite Kk, Vk in EA.
        rewrite EA in P1. rewrite Kk.
        eapply Permutation_trans; [apply Permutation_sym; apply Permutation_middle|].
        eapply Permutation_trans; [|apply Permutation_cons_append].
        apply perm_skip. apply Permutation_sym in P1. apply Permutation_cons_app_inv in P1. apply Permutation_sym. assumption.
  Qed.

  Lemma hm_get_ok : forall m k, hm_inv m ->
    (hm_get K V kdflt vdflt keqb khash k m = Trap TrapOverflow /\ (2 ^ 62 < Z.of_nat (at_request (hsize m)))%Z /\
     fm_get K V kdflt vdflt keqb k (canon m) = Trap TrapOverflow) \/
    exists m', hm_get K V kdflt vdflt keqb khash k m =
                 Ok (m', match al_find k (hm_abs m) with Some kv => snd kv | None => vdflt end) /\ hm_inv m' /\
      Permutation (hm_abs m') (match al_find k (hm_abs m) with Some _ => hm_abs m | None => al_set K V keqb k vdflt (hm_abs m) end) /\
      fm_get K V kdflt vdflt keqb k (canon m) =
        Ok (canon m', match al_find k (hm_abs m) with Some kv => snd kv | None => vdflt end).
  Proof.
    intros m k Hinv. unfold hm_get, fm_get.
    destruct (hm_at_ok m k Hinv) as [(-> & Hbig & ->)|(m1 & i & nd & -> & I1 & Hn & F & SP & ->)];
      [left; split; [reflexivity|split; [assumption|reflexivity]]|right].
    cbn [rbind]. rewrite (sget_Some _ _ _ _ Hn). cbn [rbind].
    cbn [Model.canon Model.hnodes]. rewrite (sget_canon _ _ _ Hn). cbn [rbind]. rewrite canon_val. fold (canon m1).
    exists m1. destruct (al_find k (hm_abs m)) as [kv|] eqn:AF.
    - destruct SP as (A & <- & _). cbn [snd]. rewrite A. auto.
    - destruct SP as (_ & -> & P1). split; [reflexivity|]. split; [assumption|]. split; [|reflexivity].
      rewrite (al_set_none K V keqb k vdflt _ AF). eapply Permutation_trans; [exact P1|apply Permutation_cons_append].
  Qed.

  (* ---- remove / erase *)
  Lemma fm_remove_miss : forall m k, al_find k (hm_abs m) = None ->
    fm_remove K V kdflt vdflt keqb k (canon m) = Ok (canon m, None).
  Proof. intros m k H. unfold fm_remove. rewrite fm_find_canon, (fm_find_miss _ _ H). reflexivity. Qed.

  Definition removed_at (ns ns' : list node) (i : nat) : Prop :=
    length ns' = length ns /\
    (forall j x, j <> i -> nth_error ns j = Some x -> exists y, nth_error ns' j = Some y /\ same_kvf x y) /\
    (exists z, nth_error ns' i = Some z /\ nfilled z = false).

  Lemma hm_remove_ok : forall m k, hm_inv m ->
    exists m', hm_remove K V kdflt vdflt keqb khash k m = Ok (m', al_get K V keqb k (hm_abs m)) /\ hm_inv m' /\
      hm_abs m' = al_remove K V keqb k (hm_abs m) /\
      match al_find k (hm_abs m) with
      | None => m' = m
      | Some _ => exists i nd, nth_error (hnodes m) i = Some nd /\ nfilled nd = true /\ keqb k (nkey nd) = true /\
                    removed_at (hnodes m) (hnodes m') i
      end /\
      fm_remove K V kdflt vdflt keqb k (canon m) = Ok (canon m', al_get K V keqb k (hm_abs m)).
  Proof.
    intros m k (ch & fl & I). unfold hm_remove. rewrite al_get_find.
    destruct (Nat.eq_dec (length (hbuckets m)) 0) as [E|E].
    { pose proof (fm_remove_miss m k) as FMR. rewrite (abs_empty _ _ _ I E) in FMR. specialize (FMR eq_refl).
      rewrite hm_find_empty by assumption. cbn [rbind]. rewrite (abs_empty _ _ _ I E). cbn.
      exists m. split; [reflexivity|]. split; [exists ch, fl; assumption|]. split; [|split; [reflexivity|exact FMR]].
      rewrite (abs_empty _ _ _ I E). reflexivity. }
    assert (0 < length (hbuckets m)) as HB by lia.
    destruct (hm_find_spec K V keqb khash m ch fl k I HB) as (Hb & ->). cbn [rbind].
    pose proof (find_abs m ch fl k I HB) as FA. cbn zeta in FA.
    set (b := hashmod (khash k) (length (hbuckets m))) in *.
    destruct (find_in (hnodes m) k (ch b) None) as [[i|] prev].
    2:{ destruct FA as (AF & _). rewrite AF. cbn. exists m. split; [reflexivity|]. split; [exists ch, fl; assumption|].
        split; [|split; [reflexivity|apply fm_remove_miss; assumption]]. symmetry. apply al_remove_none. assumption. }
    destruct FA as (nd & l1 & l2 & Hn & F & Q & AF & Ech & Hprev). subst prev. rewrite AF. cbn [option_map snd].
    rewrite (sget_Some _ _ _ _ Hn). cbn [rbind].
    pose proof (nth_error_Some_lt _ _ _ _ Hn) as Li.
    assert (In i (ch b)) as Hich by (rewrite Ech; apply in_or_app; right; left; reflexivity).
    assert (forall b' j, b' < length (hbuckets m) -> b' <> b -> In j (ch b) -> ~ In j (ch b')) as DJ.
    { intros b' j Hb' Hne Hj Hj'. apply Hne. eapply inv_disj; eauto. }
    pose proof (unlink_chains (hbuckets m) (hnodes m) ch b i l1 l2 nd (inv_ch _ _ _ _ _ _ _ I) Hb (inv_nd _ _ _ _ _ _ _ I b Hb) Ech Hn DJ) as UL.
    cbn zeta in UL.
    set (ch' := fun b' => if b' =? b then l1 ++ l2 else ch b') in *.
    pose proof (inv_nd _ _ _ _ _ _ _ I b Hb) as NDb. rewrite Ech in NDb.
    assert (~ In i (l1 ++ l2)) as Hinot by (apply NoDup_remove_2; assumption).
    (* unlink *)
    assert (exists bs1 ns1,
      (match last_or None l1 with
       | Some p => pn <- sget p (hnodes m) ;; ns <- sset p (set_next K V (nnext nd) pn) (hnodes m) ;;
                   Ok (mkhm K V (hbuckets m) ns (hsize m) (hfree m))
       | None => b0 <- sset b (nnext nd) (hbuckets m) ;; Ok (mkhm K V b0 (hnodes m) (hsize m) (hfree m))
       end) = Ok (mkhm K V bs1 ns1 (hsize m) (hfree m)) /\
      length bs1 = length (hbuckets m) /\ length ns1 = length (hnodes m) /\ chains_ok bs1 ns1 ch' /\
      nth_error ns1 i = Some nd /\
      (forall j x, nth_error (hnodes m) j = Some x -> exists y, nth_error ns1 j = Some y /\ same_kvf x y /\ (nfilled x = false -> y = x)))
      as (bs1 & ns1 & -> & Lb1 & Ln1 & C1 & Hn1 & KV1).
    { destruct l1 as [|c0 crest].
      - cbn [last_or]. rewrite sset_ok by assumption. cbn [rbind].
        exists (overwrite b [nnext nd] (hbuckets m)), (hnodes m). split; [reflexivity|].
        split; [apply length_upd; assumption|]. split; [reflexivity|]. split; [exact UL|]. split; [assumption|].
        intros j x Hx. exists x. split; [assumption|]. split; [apply same_kvf_refl|auto].
      - cbn [last_or]. set (p := last (c0 :: crest) 0) in *.
        assert (In p (ch b)) as Hpin by (rewrite Ech; apply in_or_app; left; apply last_in; discriminate).
        destruct (inv_ch _ _ _ _ _ _ _ I b Hb) as (s & _ & HS).
        destruct (Seg_in _ _ _ _ _ _ _ HS Hpin) as (pn & Hpn).
        pose proof (nth_error_Some_lt _ _ _ _ Hpn) as HpL.
        assert (p <> i) as Hpi.
        { intros Hpi. apply Hinot. apply in_or_app. left. rewrite <- Hpi. unfold p. apply last_in. discriminate. }
        rewrite (sget_Some _ _ _ _ Hpn). cbn [rbind]. rewrite sset_ok by assumption. cbn [rbind].
        exists (hbuckets m), (overwrite p [set_next K V (nnext nd) pn] (hnodes m)). split; [reflexivity|].
        split; [reflexivity|]. split; [apply length_upd; assumption|]. split; [apply UL; assumption|].
        split; [rewrite nthe_upd by assumption; destruct (Nat.eqb_spec i p); [congruence|assumption]|].
        intros j x Hx. rewrite nthe_upd by assumption. destruct (Nat.eqb_spec j p).
        + subst j. rewrite Hpn in Hx. inversion Hx; subst x. eexists; split; [reflexivity|]. split; [apply set_next_kvf|].
          intros Hf. destruct (inv_fill _ _ _ _ _ _ _ I b p pn Hb Hpin Hpn). congruence.
        + exists x. split; [assumption|]. split; [apply same_kvf_refl|auto]. }
    cbn [rbind Model.hbuckets Model.hnodes Model.hsize Model.hfree].
    rewrite sset_ok by lia. cbn [rbind].
    set (z := mknode K V kdflt vdflt false (hfree m)).
    set (ns2 := overwrite i [z] ns1).
    assert (length ns2 = length (hnodes m)) as Ln2 by (unfold ns2; rewrite length_upd by lia; assumption).
    assert (forall j, j <> i -> nth_error ns2 j = nth_error ns1 j) as O2.
    { intros j Hj. unfold ns2. rewrite nthe_upd by lia. destruct (Nat.eqb_spec j i); [contradiction|reflexivity]. }
    assert (nth_error ns2 i = Some z) as N2 by (unfold ns2; rewrite nthe_upd by lia; rewrite Nat.eqb_refl; reflexivity).
    assert (removed_at (hnodes m) ns2 i) as RA.
    { split; [assumption|]. split.
      - intros j x Hj Hx. destruct (KV1 j x Hx) as (y & A & B & _). exists y. rewrite O2 by assumption. auto.
      - exists z. auto. }
    assert (fm_remove K V kdflt vdflt keqb k (canon m) =
            Ok (canon (mkhm K V bs1 ns2 (hsize m - 1) (Some i)), Some (nval nd))) as FMR.
    { unfold fm_remove. rewrite fm_find_canon, (fm_find_hit k _ i nd (KU_of_inv _ _ _ I) Hn F Q).
      cbn [Model.canon Model.hnodes]. rewrite (sget_canon _ _ _ Hn). cbn [rbind].
      rewrite sset_ok by (rewrite map_length; lia). cbn [rbind]. rewrite canon_val.
      unfold Model.canon. cbn [Model.hfree Model.hnodes Model.hsize Model.hbuckets]. rewrite Lb1.
      do 3 f_equal. unfold ns2. rewrite canon_upd. fold z. f_equal. apply canon_nodes_eq.
      - split; [lia|]. intros j x Hx. destruct (KV1 j x Hx) as (y & A & B & _). eauto.
      - intros j x Hx Fx. destruct (KV1 j x Hx) as (y & A & _ & U). rewrite (U Fx) in A. exact A. }
    eexists. split; [reflexivity|].
    (* bindings *)
    assert (hm_abs m = abs_of (firstn i (hnodes m)) ++ (nkey nd, nval nd) :: abs_of (skipn (S i) (hnodes m))) as HA0.
    { unfold Model.hm_abs. rewrite (abs_split _ _ _ Hn). unfold abs1. rewrite F. reflexivity. }
    assert (abs_of ns2 = abs_of (firstn i (hnodes m)) ++ abs_of (skipn (S i) (hnodes m))) as HA2.
    { unfold ns2. rewrite abs_upd by lia. unfold abs1. cbn [Model.nfilled z app].
      f_equal; symmetry; apply kvf_eq_abs.
      - split; [rewrite !firstn_length; lia|]. intros j x Hx. rewrite nthe_firstn in Hx |- *.
        destruct (Nat.ltb_spec j i); [|discriminate]. destruct (KV1 j x Hx) as (y & A & B & _). eauto.
      - split; [rewrite !skipn_length; lia|]. intros j x Hx. rewrite nthe_skipn in Hx |- *.
        destruct (KV1 _ x Hx) as (y & A & B & _). eauto. }
    pose proof (abs_nodup _ _ _ I) as ND0. rewrite HA0 in ND0.
    assert (abs_of ns2 = al_remove K V keqb k (hm_abs m)) as HF2.
    { rewrite HA2, HA0. symmetry. apply al_remove_split; [|exact Q].
      apply (nomatch_before _ (nkey nd) (nval nd) (abs_of (skipn (S i) (hnodes m)))); assumption. }
    assert (forall j y, nth_error ns2 j = Some y -> (j = i /\ y = z) \/
              (j <> i /\ exists x, nth_error (hnodes m) j = Some x /\ same_kvf x y /\ (nfilled x = false -> y = x))) as REV.
    { intros j y Hy. destruct (Nat.eq_dec j i).
      - left. subst. rewrite N2 in Hy. inversion Hy; auto.
      - right. split; [assumption|]. pose proof (nth_error_Some_lt _ _ _ _ Hy). rewrite Ln2 in H.
        destruct (nth_error (hnodes m) j) eqn:Ej; [|apply nth_error_None in Ej; lia].
        destruct (KV1 j h Ej) as (y' & A & B & C). rewrite O2 in Hy by assumption. rewrite Hy in A. inversion A; subst. eauto. }
    split; [|split; [exact HF2|split; [exists i, nd; auto|exact FMR]]].
    exists ch', (i :: fl).
    constructor; cbn [Model.hbuckets Model.hnodes Model.hsize Model.hfree]; rewrite ?Lb1; fold ns2; rewrite ?Ln2.
    - intros b' Hb'. rewrite <- Lb1 in Hb'. eapply chains_frame; [exact C1| |exact Hb'].
      intros b'' j x Hb'' Hj Hx. exists x. split; [|reflexivity]. rewrite O2; [assumption|].
      intros ->. unfold ch' in Hj. destruct (Nat.eqb_spec b'' b); [contradiction|].
      eapply (DJ b'' i); eauto. lia.
    - apply Seg_cons with (nd := z); [exact N2|]. cbn [Model.nnext z].
      eapply Seg_frame; [exact (inv_fl _ _ _ _ _ _ _ I)|]. intros j x Hj Hx.
      pose proof (inv_unf _ _ _ _ _ _ _ I j x Hj Hx) as Fx.
      assert (j <> i) by (intros ->; congruence).
      destruct (KV1 j x Hx) as (y & A & _ & Bx). rewrite (Bx Fx) in A. exists x. rewrite O2 by assumption. auto.
    - intros b' Hb'. unfold ch'. destruct (Nat.eqb_spec b' b); [|apply (inv_nd _ _ _ _ _ _ _ I b' Hb')].
      eapply NoDup_remove_1; eauto.
    - constructor; [|exact (inv_ndf _ _ _ _ _ _ _ I)]. intros Hin.
      pose proof (inv_unf _ _ _ _ _ _ _ I i nd Hin Hn). congruence.
    - intros j y Hy. destruct (REV j y Hy) as [(-> & ->)|(Hj & x & Hx & (_ & _ & Fx) & _)].
      + cbn [Model.nfilled z]. left; reflexivity.
      + rewrite <- Fx. pose proof (inv_cov _ _ _ _ _ _ _ I j x Hx) as C. destruct (nfilled x).
        * destruct C as (b' & Hb' & Hin). exists b'. split; [assumption|]. unfold ch'.
          destruct (Nat.eqb_spec b' b); [|assumption]. subst b'. rewrite Ech in Hin.
          apply in_app_or in Hin. apply in_or_app. destruct Hin as [?|[?|?]]; [left; assumption|congruence|right; assumption].
        * right; assumption.
    - intros b' j y Hb' Hj Hy.
      assert (In j (ch b')) as Hj0.
      { unfold ch' in Hj. destruct (Nat.eqb_spec b' b); [|assumption]. subst b'. rewrite Ech.
        apply in_app_or in Hj. apply in_or_app. destruct Hj; [left|right; right]; assumption. }
      destruct (REV j y Hy) as [(-> & ->)|(Hne & x & Hx & (Kx & _ & Fx) & _)].
      + exfalso. unfold ch' in Hj. destruct (Nat.eqb_spec b' b); [contradiction|]. eapply (DJ b' i); eauto.
      + rewrite <- Fx, <- Kx. eapply inv_fill; eauto.
    - intros j y Hj Hy. destruct (REV j y Hy) as [(-> & ->)|(Hne & x & Hx & (_ & _ & Fx) & _)]; [reflexivity|].
      rewrite <- Fx. destruct Hj as [->|Hj]; [contradiction|]. eapply inv_unf; eauto.
    - apply abs_KU; auto. rewrite HA2. apply keys_nodup_app in ND0. destruct ND0 as (NA & NC & X).
      apply keys_nodup_cons in NC. destruct NC as (_ & NC). apply keys_nodup_app. split; [assumption|]. split; [assumption|].
      intros x y Hx Hy. apply X; [assumption|right; assumption].
    - pose proof (inv_size _ _ _ _ _ _ _ I) as HS. rewrite filled_len_abs in HS |- *. fold (hm_abs m) in HS.
      rewrite HA2. rewrite HA0 in HS. rewrite !app_length in *. cbn [length] in HS. lia.
    - intros Hz. lia.
    - exact (inv_cap _ _ _ _ _ _ _ I).
    - exact (inv_cap2 _ _ _ _ _ _ _ I).
    - intros _. pose proof (inv_room _ _ _ _ _ _ _ I HB). lia.
  Qed.
End HM4.
