(* C12 - hash.nelua: keys that are == hash alike (the coherence the hashmap theorems assume), for the
   derived hashes of integers, booleans, floats (+0.0 == -0.0) and records (field-wise); the integer-token
   instance used by the correspondence driver satisfies the hypotheses of the hashmap theorems. *)
From Coq Require Import ZArith List Bool Lia.
From C12 Require Import Gen Model.
Import ListNotations.
Local Open Scope Z_scope.

Lemma hash_int_coherent : forall a b, (a =? b) = true -> hash_int a = hash_int b.
Proof. intros a b H. apply Z.eqb_eq in H. subst. reflexivity. Qed.

Lemma hash_bool_coherent : forall a b, Bool.eqb a b = true -> hash_bool a = hash_bool b.
Proof. intros a b H. apply Bool.eqb_prop in H. subst. reflexivity. Qed.

(* strings/spans compare byte-wise: equal byte lists are the same value *)
Lemma hash_long_coherent : forall a b : list Z, a = b -> hash_long a = hash_long b.
Proof. intros; subst; reflexivity. Qed.

Lemma hash_float_zero : forall a, f_iszero a = true -> hash_float a = 0.
Proof. intros a H. unfold hash_float. rewrite H. reflexivity. Qed.

Lemma hash_float_coherent : forall a b, f_eqb a b = true -> hash_float a = hash_float b.
Proof.
  intros a b H. unfold f_eqb in H. apply andb_true_iff in H. destruct H as [_ H].
  apply orb_true_iff in H. destruct H as [H|H].
  - apply Z.eqb_eq in H. subst. reflexivity.
  - apply andb_true_iff in H. destruct H as [Ha Hb]. rewrite !hash_float_zero by assumption. reflexivity.
Qed.

Lemma hash_rec_coherent : forall a1 f1 a2 f2, rec_eqb a1 f1 a2 f2 = true -> hash_rec a1 f1 = hash_rec a2 f2.
Proof.
  intros a1 f1 a2 f2 H. unfold rec_eqb in H. apply andb_true_iff in H. destruct H as [Ha Hf].
  apply Z.eqb_eq in Ha. subst a2. unfold hash_rec. rewrite (hash_float_coherent _ _ Hf). reflexivity.
Qed.

(* arrays and field-wise records: if corresponding elements are related by a relation the element hash respects
   (e.g. float == with its +-0 identification), the folded hashes coincide *)
Lemma hash_fold_congr : forall hs1 hs2, hs1 = hs2 -> hash_fold hs1 = hash_fold hs2.
Proof. intros; subst; reflexivity. Qed.

Lemma hash_array_coherent : forall (A : Type) (R : A -> A -> Prop) (h : A -> Z),
  (forall x y, R x y -> h x = h y) ->
  forall xs ys, Forall2 R xs ys -> hash_array h xs = hash_array h ys.
Proof.
  intros A R h Hh xs ys F. unfold hash_array. f_equal.
  induction F; cbn; [reflexivity|]. rewrite (Hh _ _ H), IHF. reflexivity.
Qed.

Lemma hash_float_array_coherent : forall xs ys,
  Forall2 (fun a b => f_eqb a b = true) xs ys -> hash_array hash_float xs = hash_array hash_float ys.
Proof. apply hash_array_coherent. exact hash_float_coherent. Qed.

(* the generic record hash is the fold of its field hashes: record{a: integer, b: number} is an instance *)
Lemma hash_rec_is_fold : forall a f, hash_rec a f = hash_fold [hash_int a; hash_float f].
Proof. reflexivity. Qed.

(* pointers, spans, unions: the hash is a function of the compared value (address; address and length, hence the
   bytes read; the bytes), so == values hash alike *)
Lemma hash_ptr_coherent : forall a b s, (a =? b) = true -> hash_ptr a s = hash_ptr b s.
Proof. intros a b s H. apply Z.eqb_eq in H. subst. reflexivity. Qed.
Lemma hash_span_coherent : forall (mem : Z -> Z) p1 n1 p2 n2,
  (p1 =? p2) && (Nat.eqb n1 n2) = true ->
  hash_long (map (fun i => mem (p1 + Z.of_nat i)) (List.seq 0 n1)) = hash_long (map (fun i => mem (p2 + Z.of_nat i)) (List.seq 0 n2)).
Proof.
  intros mem p1 n1 p2 n2 H. apply andb_true_iff in H. destruct H as [H1 H2].
  apply Z.eqb_eq in H1. apply Nat.eqb_eq in H2. subst. reflexivity.
Qed.
(* a record with __hash: coherent exactly when the user's method respects the user's equality *)
Lemma hash_custom_coherent : forall (A : Type) (ueq : A -> A -> bool) (uh : A -> Z),
  (forall x y, ueq x y = true -> uh x = uh y) -> forall x y, ueq x y = true -> hash_custom uh x = hash_custom uh y.
Proof. intros A ueq uh H x y E. unfold hash_custom. rewrite (H x y E). reflexivity. Qed.

(* == on floats that are not NaN is an equivalence, so non-NaN float keys meet the hashmap theorems' hypotheses *)
Lemma f_eqb_refl : forall a, f_isnan a = false -> f_eqb a a = true.
Proof. intros a H. unfold f_eqb. rewrite H, Z.eqb_refl. reflexivity. Qed.
Lemma f_eqb_sym : forall a b, f_eqb a b = f_eqb b a.
Proof.
  intros. unfold f_eqb. rewrite (Z.eqb_sym a b), (andb_comm (f_iszero a)).
  destruct (f_isnan a), (f_isnan b); reflexivity.
Qed.
Lemma f_eqb_trans : forall a b c, f_eqb a b = true -> f_eqb b c = true -> f_eqb a c = true.
Proof.
  unfold f_eqb. intros a b c H1 H2.
  apply andb_true_iff in H1. destruct H1 as [N1 E1]. apply andb_true_iff in N1. destruct N1 as [Na Nb].
  apply andb_true_iff in H2. destruct H2 as [N2 E2]. apply andb_true_iff in N2. destruct N2 as [_ Nc].
  rewrite Na, Nc. cbn [andb].
  apply orb_true_iff in E1. apply orb_true_iff in E2. apply orb_true_iff.
  destruct E1 as [E1|E1]; [apply Z.eqb_eq in E1; subst b; assumption|].
  destruct E2 as [E2|E2]; [apply Z.eqb_eq in E2; subst c; right; assumption|].
  apply andb_true_iff in E1. apply andb_true_iff in E2. right. apply andb_true_iff. tauto.
Qed.

(* ---- the token instance: == on tokens is symmetric and transitive, reflexive except on NaN tokens, and the
   token hashes respect it *)
Lemma tok_eqb_refl : forall a, tok_isnan a = false -> tok_eqb a a = true.
Proof. intros a H. unfold tok_eqb. rewrite H, Z.eqb_refl. reflexivity. Qed.
Lemma tok_eqb_nan : forall a, tok_isnan a = true -> tok_eqb a a = false.
Proof. intros a H. unfold tok_eqb. rewrite H. reflexivity. Qed.
Lemma tok_eqb_sym : forall a b, tok_eqb a b = tok_eqb b a.
Proof. intros. unfold tok_eqb. rewrite (Z.eqb_sym (tok_canon a)). destruct (tok_isnan a), (tok_isnan b); reflexivity. Qed.
Lemma tok_eqb_trans : forall a b c, tok_eqb a b = true -> tok_eqb b c = true -> tok_eqb a c = true.
Proof.
  unfold tok_eqb. intros a b c H1 H2.
  apply andb_true_iff in H1. destruct H1 as [N1 E1]. apply andb_true_iff in N1. destruct N1 as [Na Nb].
  apply andb_true_iff in H2. destruct H2 as [N2 E2]. apply andb_true_iff in N2. destruct N2 as [_ Nc].
  rewrite Na, Nc. cbn [andb]. apply Z.eqb_eq in E1, E2. apply Z.eqb_eq. congruence.
Qed.
Lemma tok_hash_coherent : forall a b, tok_eqb a b = true -> tok_hash a = tok_hash b.
Proof.
  unfold tok_eqb, tok_hash. intros a b H. apply andb_true_iff in H. destruct H as [_ H]. apply Z.eqb_eq in H. rewrite H. reflexivity.
Qed.
Lemma tok_hash_weak_coherent : forall a b, tok_eqb a b = true -> tok_hash_weak a = tok_hash_weak b.
Proof.
  unfold tok_eqb, tok_hash_weak. intros a b H. apply andb_true_iff in H. destruct H as [_ H]. apply Z.eqb_eq in H. rewrite H. reflexivity.
Qed.

(* ---- the byte loop of lhash is total: with step >= 1 the fuel S(length data) suffices and every data[len - 1]
   it reads lies inside the data, so the fuel-exhaustion result and the default of [nth] in [lhash_loop] are dead *)
Lemma lhash_loop_total : forall fuel data len seed step,
  (1 <= step)%Z -> (0 <= len <= Z.of_nat (length data))%Z -> (len < Z.of_nat fuel)%Z ->
  lhash_loop_o fuel data len seed step = Some (lhash_loop fuel data len seed step).
Proof.
  induction fuel as [|f IH]; intros data len seed step Hs Hl Hf; [cbn in Hf; lia|].
  cbn [lhash_loop_o lhash_loop]. destruct (Z.geb_spec len step) as [G|G]; [|reflexivity].
  assert (Z.to_nat (len - 1) < length data)%nat as L by lia.
  rewrite (nth_error_nth' data 0%Z L). apply IH; lia.
Qed.

Theorem lhash_total : forall data seed step, (1 <= step)%Z -> lhash_o data seed step = Some (lhash data seed step).
Proof. intros. unfold lhash_o, lhash. apply lhash_loop_total; lia. Qed.

Theorem hash_bytes_total : forall data,
  lhash_o data HASH_SEED 1 = Some (hash_short data) /\
  lhash_o data HASH_SEED (Z.shiftr (Z.of_nat (length data)) 5 + 1) = Some (hash_long data).
Proof.
  intros. split; [apply lhash_total; lia|]. apply lhash_total.
  pose proof (Z.shiftr_nonneg (Z.of_nat (length data)) 5). lia.
Qed.

(* ---- strings: == is equality of the byte contents, so equal strings hash alike (the byte loop is a function of
   the bytes); float32 keys: the only distinct patterns that are == are the two zeros, which both hash to 0 *)
Lemma bytes_eqb_eq : forall a b, bytes_eqb a b = true -> a = b.
Proof.
  induction a as [|x a IH]; intros [|y b] H; cbn in H; try discriminate; [reflexivity|].
  apply andb_true_iff in H. destruct H as [E H]. apply Z.eqb_eq in E. subst. f_equal. apply IH. assumption.
Qed.
Lemma bytes_eqb_refl : forall a, bytes_eqb a a = true.
Proof. induction a; cbn; [reflexivity|]. rewrite Z.eqb_refl. assumption. Qed.

Theorem hash_string_coherent : forall a b, str_eqb a b = true -> hash_string a = hash_string b.
Proof.
  intros a b H. unfold str_eqb in H. apply andb_true_iff in H. destruct H as [_ H].
  rewrite (bytes_eqb_eq _ _ H). reflexivity.
Qed.
Lemma str_eqb_equiv : (forall a, str_eqb a a = true) /\ (forall a b, str_eqb a b = str_eqb b a) /\
  (forall a b c, str_eqb a b = true -> str_eqb b c = true -> str_eqb a c = true).
Proof.
  assert (forall a b, str_eqb a b = true -> a = b) as E.
  { intros a b H. unfold str_eqb in H. apply andb_true_iff in H. apply bytes_eqb_eq. tauto. }
  assert (forall a, str_eqb a a = true) as R by (intros; unfold str_eqb; rewrite Nat.eqb_refl, bytes_eqb_refl; reflexivity).
  split; [exact R|]. split.
  - intros a b. destruct (str_eqb a b) eqn:A.
    + rewrite (E _ _ A). symmetry. apply R.
    + destruct (str_eqb b a) eqn:B; [|reflexivity]. rewrite (E _ _ B), R in A. discriminate.
  - intros a b c A B. rewrite (E _ _ A). assumption.
Qed.

Lemma hash_float32_zero : forall a, g_iszero a = true -> hash_float32 a = 0.
Proof. intros a H. unfold hash_float32. rewrite H. reflexivity. Qed.
Theorem hash_float32_coherent : forall a b, g_eqb a b = true -> hash_float32 a = hash_float32 b.
Proof.
  intros a b H. unfold g_eqb in H. apply andb_true_iff in H. destruct H as [_ H].
  apply orb_true_iff in H. destruct H as [H|H].
  - apply Z.eqb_eq in H. subst. reflexivity.
  - apply andb_true_iff in H. destruct H as [Ha Hb]. rewrite !hash_float32_zero by assumption. reflexivity.
Qed.
Lemma g_eqb_sym : forall a b, g_eqb a b = g_eqb b a.
Proof.
  intros. unfold g_eqb. rewrite (Z.eqb_sym a b), (andb_comm (g_iszero a)).
  destruct (g_isnan a), (g_isnan b); reflexivity.
Qed.
Lemma g_eqb_trans : forall a b c, g_eqb a b = true -> g_eqb b c = true -> g_eqb a c = true.
Proof.
  unfold g_eqb. intros a b c H1 H2.
  apply andb_true_iff in H1. destruct H1 as [H1 E1]. apply andb_true_iff in H1. destruct H1 as [Na Nb].
  apply andb_true_iff in H2. destruct H2 as [H2 E2]. apply andb_true_iff in H2. destruct H2 as [_ Nc].
  rewrite Na, Nc. cbn [andb].
  apply orb_true_iff in E1. apply orb_true_iff in E2. apply orb_true_iff.
  destruct E1 as [E1|E1]; [apply Z.eqb_eq in E1; subst; destruct E2; auto|].
  destruct E2 as [E2|E2]; [apply Z.eqb_eq in E2; subst; auto|].
  apply andb_true_iff in E1. apply andb_true_iff in E2. right. apply andb_true_iff. tauto.
Qed.

