(* C12 - hashmap.nelua is a flat map.  With ANY hash function that respects ==, every operation of the hashmap
   behaves exactly as the hash-free reference [fm_step] of Model.v (lookup by scanning the node array, insertion
   at the head of the free list, removal pushing the node on the free list, rehash = compaction + reallocation +
   relinking of the free list): the same result - for iteration the same ORDER -, and the same node array, sizes,
   free list and bucket count ([canon] forgets only the chains).  Consequence: two hash functions that both respect
   == give identical results, identical iteration order, identical capacity() and bucketcount(); the only things
   the hash function decides are the bucket heads and the next links of filled nodes, which no operation reports. *)
From Coq Require Import ZArith List Bool Lia Arith Permutation.
From C12 Require Import Gen Model ProofsBase ProofsVec ProofsAL ProofsHM1 ProofsHM2 ProofsFM ProofsHM3 ProofsHM4 ProofsHM5.
Import ListNotations.

Section HM7.
  Variables K V : Type.
  Variable kdflt : K.
  Variable vdflt : V.
  Variable keqb : K -> K -> bool.
  Variable khash : K -> Z.
  Hypothesis keqb_sym : forall a b, keqb a b = keqb b a.
  Hypothesis keqb_trans : forall a b c, keqb a b = true -> keqb b c = true -> keqb a c = true.
  Hypothesis hash_coh : forall a b, keqb a b = true -> khash a = khash b.

  Notation node := (hnode K V).
  Notation hmap := (hmap K V).
  Notation nkey := (nkey K V).
  Notation nval := (nval K V).
  Notation nfilled := (nfilled K V).
  Notation hbuckets := (hbuckets K V).
  Notation hnodes := (hnodes K V).
  Notation hsize := (hsize K V).
  Notation hfree := (hfree K V).
  Notation abs_of := (abs_of K V).
  Notation hm_abs := (hm_abs K V).
  Notation hm_inv := (hm_inv K V keqb khash).
  Notation canon_node := (canon_node K V).
  Notation canon := (canon K V).
  Notation hm_step := (hm_step K V kdflt vdflt keqb khash).
  Notation fm_step := (fm_step K V kdflt vdflt keqb).
  Notation hm_run := (hm_run K V kdflt vdflt keqb khash).

  Lemma abs_of_canon : forall ns, abs_of (map canon_node ns) = abs_of ns.
  Proof.
    induction ns as [|a ns IH]; [reflexivity|]. unfold Model.abs_of in *. cbn [map filter].
    rewrite (canon_filled K V). destruct (nfilled a); cbn [map]; [rewrite (canon_key K V), (canon_val K V)|]; congruence.
  Qed.
  Lemma abs_canon : forall m, hm_abs (canon m) = hm_abs m.
  Proof. intros. unfold Model.hm_abs. cbn [Model.canon Model.hnodes]. apply abs_of_canon. Qed.

  Lemma clear_canon : forall m, canon (hm_clear K V kdflt vdflt m) = hm_clear K V kdflt vdflt (canon m).
  Proof.
    intros m. unfold hm_clear. cbn [Model.canon Model.hnodes Model.hbuckets]. rewrite map_length, repeat_length.
    pose proof (relink_canon_out K V (repeat (zero_node K V kdflt vdflt) (length (hnodes m))) 0) as R.
    destruct (relink_free K V (repeat (zero_node K V kdflt vdflt) (length (hnodes m))) 0) as [ns fr]. cbn [fst] in R.
    unfold Model.canon. cbn [Model.hfree Model.hnodes Model.hsize Model.hbuckets]. rewrite repeat_length, R. reflexivity.
  Qed.

  Lemma mapvals_canon : forall f m, canon (hm_mapvals K V f m) = hm_mapvals K V f (canon m).
  Proof.
    intros f m. unfold hm_mapvals, Model.canon. cbn [Model.hfree Model.hnodes Model.hsize Model.hbuckets].
    rewrite !map_map. f_equal. apply map_ext. intros [k v [|] n]; reflexivity.
  Qed.

  Lemma scan_canon : forall rest c,
    hm_scan K V (map canon_node rest) c = option_map (fun p => (fst p, canon_node (snd p))) (hm_scan K V rest c).
  Proof.
    induction rest as [|a rest IH]; intros c; [reflexivity|]. cbn [map hm_scan]. rewrite (canon_filled K V).
    destruct (nfilled a); [reflexivity|apply IH].
  Qed.
  Lemma iter_next_canon : forall it m,
    hm_iter_next K V it (canon m) = option_map (fun p => (fst p, canon_node (snd p))) (hm_iter_next K V it m).
  Proof. intros. unfold hm_iter_next. cbn [Model.canon Model.hnodes]. rewrite skipn_map. apply scan_canon. Qed.

  (* removal while iterating: the flat loop follows the hashmap's loop step by step *)
  Lemma pairs_erase_flat : forall pred fuel it m r, hm_inv m ->
    hm_pairs_erase_loop K V kdflt vdflt keqb khash pred fuel it m = Ok r ->
    hm_inv (snd r) /\ fm_pairs_erase_loop K V kdflt vdflt keqb pred fuel it (canon m) = Ok (fst r, canon (snd r)).
  Proof.
    intros pred. induction fuel as [|fuel IH]; intros it m r I H; cbn [hm_pairs_erase_loop fm_pairs_erase_loop] in *; [discriminate|].
    rewrite iter_next_canon. destruct (hm_iter_next K V it m) as [[i nd]|]; cbn [option_map fst snd].
    2:{ inversion H; subst. cbn [fst snd]. auto. }
    rewrite (canon_key K V), (canon_val K V).
    destruct (pred (nkey nd) (nval nd)).
    - destruct (hm_remove_ok K V kdflt vdflt keqb khash keqb_sym keqb_trans hash_coh m (nkey nd) I) as (m1 & E & I1 & _ & _ & FM).
      rewrite E in H. rewrite FM. cbn [rbind fst] in *.
      destruct (hm_pairs_erase_loop K V kdflt vdflt keqb khash pred fuel (Some i) m1) as [r1|t] eqn:E1; [|discriminate].
      cbn [rbind] in H. inversion H; subst r. destruct (IH _ _ _ I1 E1) as (I' & ->). cbn [rbind fst snd]. auto.
    - cbn [rbind] in *.
      destruct (hm_pairs_erase_loop K V kdflt vdflt keqb khash pred fuel (Some i) m) as [r1|t] eqn:E1; [|discriminate].
      cbn [rbind] in H. inversion H; subst r. destruct (IH _ _ _ I E1) as (I' & ->). cbn [rbind fst snd]. auto.
  Qed.

  (* ---- next(m) / next(m, k) (hashmapT.__next), which is not an operation of the step relation: it answers exactly
     as the flat map's next (so its results do not depend on the hash function either), and against the
     association-list specification: an absent key is stopped by the assertion, next(m) of a non-empty map is a
     binding, every binding returned is one of the map's *)
  Theorem hm_next_flat : forall k m, hm_inv m ->
    fm_next K V keqb k (canon m) = hm_next K V keqb khash k m.
  Proof.
    intros k m I. pose proof I as (ch & fl & Iw). unfold fm_next, hm_next.
    assert (forall st, match hm_scan K V (skipn st (hnodes (canon m))) st with
                       | Some (_, nd) => Some (nkey nd, nval nd) | None => None end =
                       match hm_scan K V (skipn st (hnodes m)) st with
                       | Some (_, nd) => Some (nkey nd, nval nd) | None => None end) as SC.
    { intros st. cbn [Model.canon Model.hnodes]. rewrite skipn_map, scan_canon.
      destruct (hm_scan K V (skipn st (hnodes m)) st) as [[i nd]|]; cbn [option_map fst snd]; [|reflexivity].
      rewrite (canon_key K V), (canon_val K V). reflexivity. }
    destruct k as [k|]; [|cbn [rbind]; rewrite SC; reflexivity].
    rewrite (fm_find_canon K V keqb).
    destruct (Nat.eq_dec (length (hbuckets m)) 0) as [E|E].
    - rewrite hm_find_empty by assumption. cbn [rbind fst].
      rewrite (fm_find_miss K V keqb); [reflexivity|]. fold (hm_abs m). rewrite (abs_empty K V keqb khash _ _ _ Iw E). reflexivity.
    - destruct (hm_find_spec K V keqb khash m ch fl k Iw ltac:(lia)) as (Hb & ->). cbn [rbind fst].
      pose proof (find_abs K V keqb khash keqb_sym keqb_trans hash_coh m ch fl k Iw ltac:(lia)) as FA. cbn zeta in FA.
      destruct (find_in K V keqb (hnodes m) k (ch (hashmod (khash k) (length (hbuckets m)))) None) as [[i|] p]; cbn [fst].
      + destruct FA as (nd & l1 & l2 & Hn & F & Q & _).
        rewrite (fm_find_hit K V keqb keqb_sym keqb_trans k _ i nd (KU_of_inv K V keqb khash _ _ _ Iw) Hn F Q).
        cbn [rbind]. rewrite SC. reflexivity.
      + destruct FA as (AF & _). rewrite (fm_find_miss K V keqb _ _ AF). reflexivity.
  Qed.

  Theorem hm_next_refines_map : forall k m al, hm_R K V keqb khash m al ->
    match k with
    | None => exists o, hm_next K V keqb khash None m = Ok o /\ (o = None <-> al = []) /\ (forall kv, o = Some kv -> In kv al)
    | Some k' =>
        match al_get K V keqb k' al with
        | None => hm_next K V keqb khash (Some k') m = Trap TrapInvalidKey
        | Some _ => exists o, hm_next K V keqb khash (Some k') m = Ok o /\ (forall kv, o = Some kv -> In kv al)
        end
    end.
  Proof.
    intros k m al (I & P). destruct (hm_next_ok K V keqb khash keqb_sym keqb_trans hash_coh m I) as (N0 & NK).
    assert (forall p kv, nth_error (hm_abs m) p = Some kv -> In kv al) as IN.
    { intros p kv H. eapply Permutation_in; [exact P|]. eapply nth_error_In; eauto. }
    destruct k as [k|].
    - specialize (NK k). rewrite (al_get_find K V keqb).
      assert (keys_nodup K V keqb (hm_abs m)) as ND by (destruct I as (ch & fl & Iw); eapply abs_nodup; eauto).
      rewrite <- (al_find_perm K V keqb keqb_sym keqb_trans _ _ k ND P).
      destruct (al_find K V keqb k (hm_abs m)) as [kv|]; cbn [option_map]; [|exact NK].
      destruct NK as (p & _ & ->). eexists. split; [reflexivity|]. intros kv' H. eapply IN; eauto.
    - rewrite N0. eexists. split; [reflexivity|]. split.
      + split; intros H.
        * destruct (hm_abs m) eqn:E; [|discriminate]. apply Permutation_nil in P. assumption.
        * subst al. apply Permutation_sym, Permutation_nil in P. rewrite P. reflexivity.
      + intros kv H. eapply IN; eauto.
  Qed.

  (* ---- one operation *)
  Theorem hm_step_flat : forall o m, hm_inv m ->
    (hm_step o m = Trap TrapOverflow /\ fm_step o (canon m) = Trap TrapOverflow /\
     (2 ^ 62 < Z.of_nat (hop_request K V o (hsize m)))%Z) \/
    exists m' r, hm_step o m = Ok (m', r) /\ hm_inv m' /\ fm_step o (canon m) = Ok (canon m', r).
  Proof.
    intros o m I. destruct o; cbn [Model.hm_step Model.fm_step Model.hop_request].
    - (* set *)
      destruct (hm_set_ok K V kdflt vdflt keqb khash keqb_sym keqb_trans hash_coh m k v I) as [(-> & B & ->)|(m' & -> & I' & _ & ->)];
        [left; auto|right]. cbn [rbind]. eauto.
    - (* get *)
      destruct (hm_get_ok K V kdflt vdflt keqb khash keqb_sym keqb_trans hash_coh m k I) as [(-> & B & ->)|(m' & -> & I' & _ & ->)];
        [left; auto|right]. cbn [rbind fst snd]. eauto.
    - (* peek *)
      right. rewrite (hm_peek_ok K V keqb khash keqb_sym keqb_trans hash_coh m k I),
        (fm_peek_ok K V keqb khash keqb_sym keqb_trans m k I). cbn [rbind]. eauto.
    - (* has *)
      right. unfold hm_has. rewrite (hm_peek_ok K V keqb khash keqb_sym keqb_trans hash_coh m k I),
        (fm_peek_ok K V keqb khash keqb_sym keqb_trans m k I). cbn [rbind]. eauto.
    - (* has_and_get *)
      right. rewrite (hm_peek_ok K V keqb khash keqb_sym keqb_trans hash_coh m k I),
        (fm_peek_ok K V keqb khash keqb_sym keqb_trans m k I). cbn [rbind]. eauto.
    - (* remove *)
      right. destruct (hm_remove_ok K V kdflt vdflt keqb khash keqb_sym keqb_trans hash_coh m k I) as (m' & -> & I' & _ & _ & ->).
      cbn [rbind fst snd]. eauto.
    - (* erase *)
      right. destruct (hm_remove_ok K V kdflt vdflt keqb khash keqb_sym keqb_trans hash_coh m k I) as (m' & -> & I' & _ & _ & ->).
      cbn [rbind fst snd]. eauto.
    - (* clear *)
      right. destruct (hm_clear_ok K V kdflt vdflt keqb khash m I) as (I' & _). rewrite <- clear_canon. eauto.
    - (* reserve *)
      destruct (hm_reserve_op K V kdflt vdflt keqb khash keqb_sym n m I) as [(-> & B & ->)|(m' & -> & I' & _ & ->)];
        [left; auto|right]. cbn [rbind]. eauto.
    - (* rehash *)
      destruct (hm_rehash_op K V kdflt vdflt keqb khash keqb_sym n m I) as [(-> & B & ->)|(m' & -> & I' & _ & ->)];
        [left; auto|right]. cbn [rbind]. eauto.
    - (* removal while iterating *)
      right. destruct (hm_pairs_erase_ok K V kdflt vdflt keqb khash keqb_sym keqb_trans hash_coh p m I) as (m' & E & I' & _).
      rewrite E. unfold hm_pairs_erase in E. cbn [Model.canon Model.hnodes]. rewrite map_length. fold (canon m).
      destruct (pairs_erase_flat _ _ _ _ _ I E) as (_ & ->). cbn [rbind fst snd]. eauto.
    - (* pairs *)
      right. rewrite !(hm_pairs_ok K V), abs_canon. cbn [rbind]. eauto.
    - (* mpairs update *)
      right. destruct (hm_mapvals_ok K V keqb khash f m I) as (I' & _). rewrite <- mapvals_canon. eauto.
    - (* destroy *)
      right. destruct (hm_empty_inv K V keqb khash) as (I' & _). exists (hm_empty K V), (HUnit K V). auto.
  Qed.

  (* ---- whole histories *)
  Notation fm_run := (fm_run K V kdflt vdflt keqb).

  Theorem hm_run_flat : forall ops m, hm_inv m ->
    (hm_run ops m = Trap TrapOverflow /\ fm_run ops (canon m) = Trap TrapOverflow) \/
    exists m' rs, hm_run ops m = Ok (m', rs) /\ hm_inv m' /\ fm_run ops (canon m) = Ok (canon m', rs).
  Proof.
    induction ops as [|o tl IH]; intros m I; cbn [Model.hm_run Model.fm_run].
    - right. eauto.
    - destruct (hm_step_flat o m I) as [(-> & -> & _)|(m1 & r & -> & I1 & ->)]; [left; auto|]. cbn [rbind fst snd].
      destruct (IH m1 I1) as [(-> & ->)|(m2 & rs & -> & I2 & ->)]; [left; auto|right]. cbn [rbind fst snd]. eauto.
  Qed.

  (* below 2^50 bindings + operations (and reserve/rehash counts) there is no Overflow branch at all *)
  Theorem hm_run_flat_small : forall ops m, hm_inv m ->
    (Z.of_nat (length (hm_abs m) + length ops) < 2 ^ 50)%Z ->
    (forall o, In o ops -> (Z.of_nat (hop_count K V o) < 2 ^ 50)%Z) ->
    exists m' rs, hm_run ops m = Ok (m', rs) /\ hm_inv m' /\ fm_run ops (canon m) = Ok (canon m', rs).
  Proof.
    intros ops m I Hs Hc. destruct (hm_run_flat ops m I) as [(E & _)|R]; [|exact R]. exfalso.
    apply (hm_run_no_overflow K V kdflt vdflt keqb khash keqb_sym keqb_trans hash_coh ops m (hm_abs m)); try assumption.
    split; [assumption|apply Permutation_refl].
  Qed.

  (* what [canon] keeps: everything an operation can report *)
  Lemma canon_observables : forall m1 m2 : hmap, canon m1 = canon m2 ->
    hm_abs m1 = hm_abs m2 /\ hm_len K V m1 = hm_len K V m2 /\ hm_capacity K V m1 = hm_capacity K V m2 /\
    hm_bucketcount K V m1 = hm_bucketcount K V m2 /\ hfree m1 = hfree m2.
  Proof.
    intros m1 m2 E. unfold Model.canon in E. inversion E as [[Hb Hn Hs Hf]].
    split; [rewrite <- (abs_canon m1), <- (abs_canon m2); unfold Model.hm_abs; cbn [Model.canon Model.hnodes]; rewrite Hn; reflexivity|].
    split; [unfold hm_len; congruence|]. split.
    - unfold hm_capacity. rewrite <- (map_length canon_node (hnodes m1)), Hn, map_length. reflexivity.
    - split; [|congruence]. unfold hm_bucketcount.
      rewrite <- (repeat_length (@None nat) (length (hbuckets m1))), Hb, repeat_length. reflexivity.
  Qed.
End HM7.

(* ---- two hash functions *)
Section HM7b.
  Variables K V : Type.
  Variable kdflt : K.
  Variable vdflt : V.
  Variable keqb : K -> K -> bool.
  Variables h1 h2 : K -> Z.
  Hypothesis keqb_sym : forall a b, keqb a b = keqb b a.
  Hypothesis keqb_trans : forall a b c, keqb a b = true -> keqb b c = true -> keqb a c = true.
  Hypothesis h1_coh : forall a b, keqb a b = true -> h1 a = h1 b.
  Hypothesis h2_coh : forall a b, keqb a b = true -> h2 a = h2 b.

  Theorem hm_hash_independent_exact : forall ops m1 m2,
    hm_inv K V keqb h1 m1 -> hm_inv K V keqb h2 m2 -> canon K V m1 = canon K V m2 ->
    (hm_run K V kdflt vdflt keqb h1 ops m1 = Trap TrapOverflow /\ hm_run K V kdflt vdflt keqb h2 ops m2 = Trap TrapOverflow) \/
    exists m1' m2' rs,
      hm_run K V kdflt vdflt keqb h1 ops m1 = Ok (m1', rs) /\
      hm_run K V kdflt vdflt keqb h2 ops m2 = Ok (m2', rs) /\
      hm_inv K V keqb h1 m1' /\ hm_inv K V keqb h2 m2' /\ canon K V m1' = canon K V m2'.
  Proof.
    intros ops m1 m2 I1 I2 E.
    destruct (hm_run_flat K V kdflt vdflt keqb h1 keqb_sym keqb_trans h1_coh ops m1 I1) as [(A1 & F1)|(m1' & rs1 & A1 & I1' & F1)];
    destruct (hm_run_flat K V kdflt vdflt keqb h2 keqb_sym keqb_trans h2_coh ops m2 I2) as [(A2 & F2)|(m2' & rs2 & A2 & I2' & F2)];
    rewrite E in F1; rewrite F1 in F2; try discriminate.
    - left. auto.
    - right. assert (canon K V m1' = canon K V m2' /\ rs1 = rs2) as (Ec & ->) by (split; congruence).
      exists m1', m2', rs2. auto.
  Qed.

  Theorem hm_hash_independent_small : forall ops m1 m2,
    hm_inv K V keqb h1 m1 -> hm_inv K V keqb h2 m2 -> canon K V m1 = canon K V m2 ->
    (Z.of_nat (length (hm_abs K V m1) + length ops) < 2 ^ 50)%Z ->
    (forall o, In o ops -> (Z.of_nat (hop_count K V o) < 2 ^ 50)%Z) ->
    exists m1' m2' rs,
      hm_run K V kdflt vdflt keqb h1 ops m1 = Ok (m1', rs) /\
      hm_run K V kdflt vdflt keqb h2 ops m2 = Ok (m2', rs) /\
      hm_inv K V keqb h1 m1' /\ hm_inv K V keqb h2 m2' /\ canon K V m1' = canon K V m2'.
  Proof.
    intros ops m1 m2 I1 I2 E Hs Hc.
    destruct (hm_hash_independent_exact ops m1 m2 I1 I2 E) as [(E1 & _)|R]; [|exact R]. exfalso.
    apply (hm_run_no_overflow K V kdflt vdflt keqb h1 keqb_sym keqb_trans h1_coh ops m1 (hm_abs K V m1)); try assumption.
    split; [assumption|apply Permutation_refl].
  Qed.
End HM7b.
