(* Property C12: standard containers behave as their abstract models under any operation sequence.
   Only the property theorems, each closed by [exact] of a lemma (or of a conjunction of lemmas) and followed by
   Print Assumptions.  Every predicate and function used in the statements is defined in Model.v (Part II for the
   invariants, abstraction functions, runners and bounds). *)
From Coq Require Import ZArith List Bool Lia Arith Permutation.
From C12 Require Import Gen Model ProofsBase ProofsVec ProofsSeq ProofsAL ProofsHM1 ProofsHM2 ProofsFM ProofsHM3 ProofsHM4 ProofsHM5 ProofsHM6 ProofsHM7 ProofsHash ProofsSB ProofsSBA ProofsOOM ProofsDL ProofsIter.
Import ListNotations.

(* ---- vector: every operation of a well-formed vector returns what the list operation returns, leaves a
   well-formed vector whose observable contents are the list operation's result, and traps exactly when
   the list operation's precondition fails (with the documented check, never with a memory error). *)
Theorem C12_vector_step_refines_list : forall (T : Type) (dflt : T) (teqb : T -> T -> bool) (o : cop T) (v : vec T),
  vec_wf T v ->
  match lst_step T dflt teqb o (vec_contents T v) with
  | Ok (l', r) => exists v', vec_step T dflt teqb o v = Ok (v', r) /\ vec_wf T v' /\ vec_contents T v' = l'
  | Trap t => vec_step T dflt teqb o v = Trap t
  end.
Proof. exact vec_step_refines. Qed.
Print Assumptions C12_vector_step_refines_list.

Theorem C12_vector_history_refines_list : forall (T : Type) (dflt : T) (teqb : T -> T -> bool) (ops : list (cop T)) (v : vec T),
  vec_wf T v ->
  match lst_run T dflt teqb ops (vec_contents T v) with
  | Ok (l', rs) => exists v', vec_run T dflt teqb ops v = Ok (v', rs) /\ vec_wf T v' /\ vec_contents T v' = l'
  | Trap t => vec_run T dflt teqb ops v = Trap t
  end.
Proof. exact vec_run_refines. Qed.
Print Assumptions C12_vector_history_refines_list.

Theorem C12_vector_observers : forall (T : Type) (v : vec T),
  vec_wf T v -> vec_len T v = length (vec_contents T v).
Proof. exact (fun T v W => eq_sym (contents_length T v W)). Qed.
Print Assumptions C12_vector_observers.

(* ---- sequence: same against (slot 0, list with 1-based positions), incl. auto-append at size+1 *)
Theorem C12_sequence_step_refines_list : forall (T : Type) (dflt : T) (teqb : T -> T -> bool) (o : cop T) (s : seq T),
  seq_wf T s ->
  match sq_step T dflt teqb o (seq_abs T dflt s) with
  | Ok (st', r) => exists s', seq_step T dflt teqb o s = Ok (s', r) /\ seq_wf T s' /\ seq_abs T dflt s' = st'
  | Trap t => seq_step T dflt teqb o s = Trap t
  end.
Proof. exact seq_step_refines. Qed.
Print Assumptions C12_sequence_step_refines_list.

Theorem C12_sequence_history_refines_list : forall (T : Type) (dflt : T) (teqb : T -> T -> bool) (ops : list (cop T)) (s : seq T),
  seq_wf T s ->
  match sq_run T dflt teqb ops (seq_abs T dflt s) with
  | Ok (st', rs) => exists s', seq_run T dflt teqb ops s = Ok (s', rs) /\ seq_wf T s' /\ seq_abs T dflt s' = st'
  | Trap t => seq_run T dflt teqb ops s = Trap t
  end.
Proof. exact seq_run_refines. Qed.
Print Assumptions C12_sequence_history_refines_list.

Theorem C12_sequence_observers : forall (T : Type) (dflt : T) (s : seq T),
  seq_wf T s ->
  seq_contents T s = snd (seq_abs T dflt s) /\ seq_len T s = length (snd (seq_abs T dflt s)) /\
  seq_slot0 T dflt s = fst (seq_abs T dflt s).
Proof. exact seq_observers. Qed.
Print Assumptions C12_sequence_observers.

(* the repaired remove guard at full strength: a position outside 1..#s is stopped by the assertion *)
Theorem C12_sequence_remove_guard : forall (T : Type) (dflt : T) (pos : nat) (s : seq T),
  seq_wf T s -> (pos = 0 \/ length (snd (seq_abs T dflt s)) < pos) -> seq_remove T pos s = Trap TrapPos.
Proof. exact seq_remove_guard. Qed.
Print Assumptions C12_sequence_remove_guard.

(* ---- hashmap.  [hm_inv] (Model.hm_inv_w) is the representation invariant: every bucket heads an acyclic
   chain of filled nodes whose keys hash to that bucket, every filled node is on exactly its bucket's chain,
   the free list threads exactly the unfilled nodes, size = number of filled nodes, keys of distinct filled
   nodes are not ==, node capacity is tied to the bucket count by the load factor and one node is always free.
   [hm_R m al]: m satisfies the invariant and its bindings (in node order) are a permutation of the association
   list al.  == must be symmetric and transitive and the hash must respect it; reflexivity is NOT assumed, so
   float keys including NaN are covered (a NaN key is never found and every assignment to it adds a binding,
   in the implementation as in the association-list specification).
   Every operation of the driver, from related states, returns the association-list operation's result and
   re-establishes the relation; lookups agree exactly, iterations return a permutation of the bindings (each
   exactly once).  The only other outcome is the model-level usize overflow of roundpow2, and it is bounded: it
   needs a request of more than 2^62 buckets ([hop_request], computed from the operation and the number of
   bindings of the SPECIFICATION's state), so it is excluded for every map with fewer than 2^50 bindings
   (C12_hashmap_no_overflow_below_2p50). *)
Theorem C12_hashmap_step_refines_map :
  forall (K V : Type) (kdflt : K) (vdflt : V) (keqb : K -> K -> bool) (khash : K -> Z),
  (forall a b, keqb a b = keqb b a) ->
  (forall a b c, keqb a b = true -> keqb b c = true -> keqb a c = true) ->
  (forall a b, keqb a b = true -> khash a = khash b) ->
  forall (o : hop K V) (m : hmap K V) (al : list (K * V)),
  hm_R K V keqb khash m al ->
  (hm_step K V kdflt vdflt keqb khash o m = Trap TrapOverflow /\
   (2 ^ 62 < Z.of_nat (hop_request K V o (length al)))%Z) \/
  exists m' r al' r', hm_step K V kdflt vdflt keqb khash o m = Ok (m', r) /\
    al_step K V vdflt keqb o al = Ok (al', r') /\ hm_R K V keqb khash m' al' /\ ret_rel K V r r'.
Proof. exact hm_step_refines. Qed.
Print Assumptions C12_hashmap_step_refines_map.

Theorem C12_hashmap_history_refines_map :
  forall (K V : Type) (kdflt : K) (vdflt : V) (keqb : K -> K -> bool) (khash : K -> Z),
  (forall a b, keqb a b = keqb b a) ->
  (forall a b c, keqb a b = true -> keqb b c = true -> keqb a c = true) ->
  (forall a b, keqb a b = true -> khash a = khash b) ->
  forall (ops : list (hop K V)) (m : hmap K V) (al : list (K * V)),
  hm_R K V keqb khash m al ->
  (hm_run K V kdflt vdflt keqb khash ops m = Trap TrapOverflow /\
   exists pre o post al0 rs0, ops = pre ++ o :: post /\ al_run K V vdflt keqb pre al = Ok (al0, rs0) /\
     (2 ^ 62 < Z.of_nat (hop_request K V o (length al0)))%Z) \/
  exists m' rs al' rs', hm_run K V kdflt vdflt keqb khash ops m = Ok (m', rs) /\
    al_run K V vdflt keqb ops al = Ok (al', rs') /\ hm_R K V keqb khash m' al' /\ Forall2 (ret_rel K V) rs rs'.
Proof. exact hm_run_refines. Qed.
Print Assumptions C12_hashmap_history_refines_map.

(* the Overflow outcome is unreachable for maps of any realistic size: fewer than 2^50 bindings, counts given to
   reserve/rehash below 2^50 (for a whole history: initial bindings + number of operations below 2^50) *)
Theorem C12_hashmap_no_overflow_below_2p50 :
  forall (K V : Type) (kdflt : K) (vdflt : V) (keqb : K -> K -> bool) (khash : K -> Z),
  (forall a b, keqb a b = keqb b a) ->
  (forall a b c, keqb a b = true -> keqb b c = true -> keqb a c = true) ->
  (forall a b, keqb a b = true -> khash a = khash b) ->
  (forall (o : hop K V) (m : hmap K V) (al : list (K * V)), hm_R K V keqb khash m al ->
     (Z.of_nat (length al) < 2 ^ 50)%Z -> (Z.of_nat (hop_count K V o) < 2 ^ 50)%Z ->
     hm_step K V kdflt vdflt keqb khash o m <> Trap TrapOverflow) /\
  (forall (ops : list (hop K V)) (m : hmap K V) (al : list (K * V)), hm_R K V keqb khash m al ->
     (Z.of_nat (length al + length ops) < 2 ^ 50)%Z ->
     (forall o, In o ops -> (Z.of_nat (hop_count K V o) < 2 ^ 50)%Z) ->
     hm_run K V kdflt vdflt keqb khash ops m <> Trap TrapOverflow).
Proof.
  exact (fun K V kdflt vdflt keqb khash Hs Ht Hc =>
           conj (hm_step_no_overflow K V kdflt vdflt keqb khash Hs Ht Hc) (hm_run_no_overflow K V kdflt vdflt keqb khash Hs Ht Hc)).
Qed.
Print Assumptions C12_hashmap_no_overflow_below_2p50.

Theorem C12_hashmap_empty_related :
  forall (K V : Type) (keqb : K -> K -> bool) (khash : K -> Z), hm_R K V keqb khash (hm_empty K V) [].
Proof. exact hm_R_empty. Qed.
Print Assumptions C12_hashmap_empty_related.

(* pairs() yields every binding exactly once: the visited list has keys pairwise not ==, as many entries
   as #m, and looking any key up in it gives what peek gives. *)
Theorem C12_hashmap_iteration_each_binding_once :
  forall (K V : Type) (keqb : K -> K -> bool) (khash : K -> Z),
  (forall a b, keqb a b = keqb b a) ->
  (forall a b c, keqb a b = true -> keqb b c = true -> keqb a c = true) ->
  (forall a b, keqb a b = true -> khash a = khash b) ->
  forall m : hmap K V, hm_inv K V keqb khash m ->
  exists l, hm_pairs K V m = Ok l /\ keys_nodup K V keqb l /\ length l = hm_len K V m /\
            forall k, hm_peek K V keqb khash k m = Ok (al_get K V keqb k l).
Proof. exact hm_iteration_once. Qed.
Print Assumptions C12_hashmap_iteration_each_binding_once.

(* next(m) is the first binding in iteration order; next(m, k) is the binding that follows k's binding (so a
   traversal through next visits exactly pairs()'s sequence); an absent key is stopped by the assertion. *)
Theorem C12_hashmap_next_follows_iteration_order :
  forall (K V : Type) (keqb : K -> K -> bool) (khash : K -> Z),
  (forall a b, keqb a b = keqb b a) ->
  (forall a b c, keqb a b = true -> keqb b c = true -> keqb a c = true) ->
  (forall a b, keqb a b = true -> khash a = khash b) ->
  forall m : hmap K V, hm_inv K V keqb khash m ->
  hm_next K V keqb khash None m = Ok (nth_error (hm_abs K V m) 0) /\
  forall k, match al_find K V keqb k (hm_abs K V m) with
            | None => hm_next K V keqb khash (Some k) m = Trap TrapInvalidKey
            | Some kv => exists p, nth_error (hm_abs K V m) p = Some kv /\
                                   hm_next K V keqb khash (Some k) m = Ok (nth_error (hm_abs K V m) (S p))
            end.
Proof. exact hm_next_ok. Qed.
Print Assumptions C12_hashmap_next_follows_iteration_order.

(* removing the key just visited while iterating is safe: every original binding is visited exactly once,
   in the original order, and the resulting map is the original one minus the selected bindings whose key can be
   found ([keep]: a key that is not == to itself is never found by remove, so its binding stays). *)
Theorem C12_hashmap_erase_during_iteration :
  forall (K V : Type) (kdflt : K) (vdflt : V) (keqb : K -> K -> bool) (khash : K -> Z),
  (forall a b, keqb a b = keqb b a) ->
  (forall a b c, keqb a b = true -> keqb b c = true -> keqb a c = true) ->
  (forall a b, keqb a b = true -> khash a = khash b) ->
  forall (pred : K -> V -> bool) (m : hmap K V), hm_inv K V keqb khash m ->
  exists m', hm_pairs_erase K V kdflt vdflt keqb khash pred m = Ok (hm_abs K V m, m') /\
             hm_inv K V keqb khash m' /\ hm_abs K V m' = filter (keep K V keqb pred) (hm_abs K V m).
Proof. exact hm_pairs_erase_ok. Qed.
Print Assumptions C12_hashmap_erase_during_iteration.

(* keys that are not == to themselves (NaN): never found; remove is a no-op; every assignment adds a binding *)
Theorem C12_hashmap_irreflexive_keys :
  forall (K V : Type) (kdflt : K) (vdflt : V) (keqb : K -> K -> bool) (khash : K -> Z),
  (forall a b, keqb a b = keqb b a) ->
  (forall a b c, keqb a b = true -> keqb b c = true -> keqb a c = true) ->
  (forall a b, keqb a b = true -> khash a = khash b) ->
  forall (m : hmap K V) (k : K) (v : V), hm_inv K V keqb khash m -> keqb k k = false ->
  hm_peek K V keqb khash k m = Ok None /\
  (exists m', hm_remove K V kdflt vdflt keqb khash k m = Ok (m', None) /\ hm_abs K V m' = hm_abs K V m) /\
  ((hm_set K V kdflt vdflt keqb khash k v m = Trap TrapOverflow /\ (2 ^ 62 < Z.of_nat (at_request (hsize K V m)))%Z) \/
   exists m', hm_set K V kdflt vdflt keqb khash k v m = Ok m' /\ hm_inv K V keqb khash m' /\
              Permutation (hm_abs K V m') ((k, v) :: hm_abs K V m)).
Proof. exact hm_irrefl_key. Qed.
Print Assumptions C12_hashmap_irreflexive_keys.

(* growth or shrink rehash (incl. rehash(0) compaction) keeps exactly the bindings, in order *)
Theorem C12_hashmap_rehash_preserves_bindings :
  forall (K V : Type) (kdflt : K) (vdflt : V) (keqb : K -> K -> bool) (khash : K -> Z),
  (forall a b, keqb a b = keqb b a) ->
  forall (n : nat) (m : hmap K V), hm_inv K V keqb khash m ->
  (hm_rehash K V kdflt vdflt keqb khash n m = Trap TrapOverflow /\
   (2 ^ 62 < Z.of_nat (Nat.max n (ceilidiv (hsize K V m * 100) HM_MAXLF_n)))%Z) \/
  exists m', hm_rehash K V kdflt vdflt keqb khash n m = Ok m' /\ hm_inv K V keqb khash m' /\ hm_abs K V m' = hm_abs K V m.
Proof. exact hm_rehash_bindings. Qed.
Print Assumptions C12_hashmap_rehash_preserves_bindings.

(* ---- the hashmap is a flat map: with ANY hash function that respects ==, every operation behaves exactly as the
   hash-free reference [fm_step] (Model.v: lookup by scanning the node array; the type of fm_step has no hash
   argument) on the canonical form of the state.  [canon] forgets only the bucket heads and the next links of
   filled nodes; it keeps the node array (keys, values, flags, free-list links), the size, the free head and the
   number of buckets.  Results are EQUAL (for pairs()/erase-while-iterating: the same bindings in the same order),
   and Overflow happens in both or in neither. *)
Theorem C12_hashmap_is_flat_map :
  forall (K V : Type) (kdflt : K) (vdflt : V) (keqb : K -> K -> bool) (khash : K -> Z),
  (forall a b, keqb a b = keqb b a) ->
  (forall a b c, keqb a b = true -> keqb b c = true -> keqb a c = true) ->
  (forall a b, keqb a b = true -> khash a = khash b) ->
  (forall (o : hop K V) (m : hmap K V), hm_inv K V keqb khash m ->
     (hm_step K V kdflt vdflt keqb khash o m = Trap TrapOverflow /\
      fm_step K V kdflt vdflt keqb o (canon K V m) = Trap TrapOverflow /\
      (2 ^ 62 < Z.of_nat (hop_request K V o (hsize K V m)))%Z) \/
     exists m' r, hm_step K V kdflt vdflt keqb khash o m = Ok (m', r) /\ hm_inv K V keqb khash m' /\
                  fm_step K V kdflt vdflt keqb o (canon K V m) = Ok (canon K V m', r)) /\
  (forall (ops : list (hop K V)) (m : hmap K V), hm_inv K V keqb khash m ->
     (hm_run K V kdflt vdflt keqb khash ops m = Trap TrapOverflow /\
      fm_run K V kdflt vdflt keqb ops (canon K V m) = Trap TrapOverflow) \/
     exists m' rs, hm_run K V kdflt vdflt keqb khash ops m = Ok (m', rs) /\ hm_inv K V keqb khash m' /\
                   fm_run K V kdflt vdflt keqb ops (canon K V m) = Ok (canon K V m', rs)).
Proof.
  exact (fun K V kdflt vdflt keqb khash Hs Ht Hc =>
           conj (hm_step_flat K V kdflt vdflt keqb khash Hs Ht Hc) (hm_run_flat K V kdflt vdflt keqb khash Hs Ht Hc)).
Qed.
Print Assumptions C12_hashmap_is_flat_map.

(* next(m) / next(m, k) is not an operation of the step relation (it is the only hashmap operation with a failing
   precondition, and the step/history theorems have the shape "Overflow or the specification's result").  Stated on
   its own: it answers exactly as the flat map's hash-free next - so next does not depend on the hash function
   either -, and against the association list: an absent key is stopped by the assertion, next(m) is a binding iff
   the map is not empty, every binding returned is one of the map's. *)
Theorem C12_hashmap_next_is_flat_and_refines_map :
  forall (K V : Type) (keqb : K -> K -> bool) (khash : K -> Z),
  (forall a b, keqb a b = keqb b a) ->
  (forall a b c, keqb a b = true -> keqb b c = true -> keqb a c = true) ->
  (forall a b, keqb a b = true -> khash a = khash b) ->
  (forall (k : option K) (m : hmap K V), hm_inv K V keqb khash m ->
     fm_next K V keqb k (canon K V m) = hm_next K V keqb khash k m) /\
  (forall (k : option K) (m : hmap K V) (al : list (K * V)), hm_R K V keqb khash m al ->
     match k with
     | None => exists o, hm_next K V keqb khash None m = Ok o /\ (o = None <-> al = []) /\ (forall kv, o = Some kv -> In kv al)
     | Some k' =>
         match al_get K V keqb k' al with
         | None => hm_next K V keqb khash (Some k') m = Trap TrapInvalidKey
         | Some _ => exists o, hm_next K V keqb khash (Some k') m = Ok o /\ (forall kv, o = Some kv -> In kv al)
         end
     end).
Proof.
  exact (fun K V keqb khash Hs Ht Hc => conj (hm_next_flat K V keqb khash Hs Ht Hc) (hm_next_refines_map K V keqb khash Hs Ht Hc)).
Qed.
Print Assumptions C12_hashmap_next_is_flat_and_refines_map.

(* hence nothing observable depends on the hash function: two runs of the same history, with two hash functions
   that both respect ==, from states with the same canonical form (e.g. both empty), return EQUAL result lists
   (iteration order included) and end in states with the same canonical form - so the same bindings in the same
   order, the same #m, capacity() and bucketcount() (second part).  This is what lets the extracted model run
   with a hash on value tokens while the implementation hashes the real values. *)
Theorem C12_hashmap_hash_independent_exact :
  forall (K V : Type) (kdflt : K) (vdflt : V) (keqb : K -> K -> bool) (h1 h2 : K -> Z),
  (forall a b, keqb a b = keqb b a) ->
  (forall a b c, keqb a b = true -> keqb b c = true -> keqb a c = true) ->
  (forall a b, keqb a b = true -> h1 a = h1 b) -> (forall a b, keqb a b = true -> h2 a = h2 b) ->
  (forall (ops : list (hop K V)) (m1 m2 : hmap K V),
     hm_inv K V keqb h1 m1 -> hm_inv K V keqb h2 m2 -> canon K V m1 = canon K V m2 ->
     (hm_run K V kdflt vdflt keqb h1 ops m1 = Trap TrapOverflow /\ hm_run K V kdflt vdflt keqb h2 ops m2 = Trap TrapOverflow) \/
     exists m1' m2' rs,
       hm_run K V kdflt vdflt keqb h1 ops m1 = Ok (m1', rs) /\
       hm_run K V kdflt vdflt keqb h2 ops m2 = Ok (m2', rs) /\
       hm_inv K V keqb h1 m1' /\ hm_inv K V keqb h2 m2' /\ canon K V m1' = canon K V m2') /\
  (forall m1 m2 : hmap K V, canon K V m1 = canon K V m2 ->
     hm_abs K V m1 = hm_abs K V m2 /\ hm_len K V m1 = hm_len K V m2 /\ hm_capacity K V m1 = hm_capacity K V m2 /\
     hm_bucketcount K V m1 = hm_bucketcount K V m2 /\ hfree K V m1 = hfree K V m2).
Proof.
  exact (fun K V kdflt vdflt keqb h1 h2 Hs Ht H1 H2 =>
           conj (hm_hash_independent_exact K V kdflt vdflt keqb h1 h2 Hs Ht H1 H2) (canon_observables K V)).
Qed.
Print Assumptions C12_hashmap_hash_independent_exact.

(* the two history statements above without their Overflow branch: below 2^50 bindings + operations (and
   reserve/rehash counts) every history runs to the end, exactly as the flat map, and identically for any two hash
   functions respecting == *)
Theorem C12_hashmap_histories_below_2p50 :
  forall (K V : Type) (kdflt : K) (vdflt : V) (keqb : K -> K -> bool) (h1 h2 : K -> Z),
  (forall a b, keqb a b = keqb b a) ->
  (forall a b c, keqb a b = true -> keqb b c = true -> keqb a c = true) ->
  (forall a b, keqb a b = true -> h1 a = h1 b) -> (forall a b, keqb a b = true -> h2 a = h2 b) ->
  (forall (ops : list (hop K V)) (m : hmap K V), hm_inv K V keqb h1 m ->
     (Z.of_nat (length (hm_abs K V m) + length ops) < 2 ^ 50)%Z ->
     (forall o, In o ops -> (Z.of_nat (hop_count K V o) < 2 ^ 50)%Z) ->
     exists m' rs, hm_run K V kdflt vdflt keqb h1 ops m = Ok (m', rs) /\ hm_inv K V keqb h1 m' /\
                   fm_run K V kdflt vdflt keqb ops (canon K V m) = Ok (canon K V m', rs)) /\
  (forall (ops : list (hop K V)) (m1 m2 : hmap K V),
     hm_inv K V keqb h1 m1 -> hm_inv K V keqb h2 m2 -> canon K V m1 = canon K V m2 ->
     (Z.of_nat (length (hm_abs K V m1) + length ops) < 2 ^ 50)%Z ->
     (forall o, In o ops -> (Z.of_nat (hop_count K V o) < 2 ^ 50)%Z) ->
     exists m1' m2' rs,
       hm_run K V kdflt vdflt keqb h1 ops m1 = Ok (m1', rs) /\
       hm_run K V kdflt vdflt keqb h2 ops m2 = Ok (m2', rs) /\
       hm_inv K V keqb h1 m1' /\ hm_inv K V keqb h2 m2' /\ canon K V m1' = canon K V m2').
Proof.
  exact (fun K V kdflt vdflt keqb h1 h2 Hs Ht H1 H2 =>
           conj (hm_run_flat_small K V kdflt vdflt keqb h1 Hs Ht H1)
                (hm_hash_independent_small K V kdflt vdflt keqb h1 h2 Hs Ht H1 H2)).
Qed.
Print Assumptions C12_hashmap_histories_below_2p50.

(* the weaker form for runs that start from states related only through an association list (their node orders
   may already differ): results agree up to the order of iteration results. *)
Theorem C12_hashmap_hash_independent :
  forall (K V : Type) (kdflt : K) (vdflt : V) (keqb : K -> K -> bool) (h1 h2 : K -> Z),
  (forall a b, keqb a b = keqb b a) ->
  (forall a b c, keqb a b = true -> keqb b c = true -> keqb a c = true) ->
  (forall a b, keqb a b = true -> h1 a = h1 b) -> (forall a b, keqb a b = true -> h2 a = h2 b) ->
  forall (ops : list (hop K V)) (m1 m2 : hmap K V) (al : list (K * V)),
  hm_R K V keqb h1 m1 al -> hm_R K V keqb h2 m2 al ->
  hm_run K V kdflt vdflt keqb h1 ops m1 = Trap TrapOverflow \/
  hm_run K V kdflt vdflt keqb h2 ops m2 = Trap TrapOverflow \/
  exists m1' rs1 m2' rs2,
    hm_run K V kdflt vdflt keqb h1 ops m1 = Ok (m1', rs1) /\
    hm_run K V kdflt vdflt keqb h2 ops m2 = Ok (m2', rs2) /\
    Forall2 (ret_rel K V) rs1 rs2 /\ Permutation (hm_abs K V m1') (hm_abs K V m2') /\
    hm_len K V m1' = hm_len K V m2' /\
    (forall k, hm_peek K V keqb h1 k m1' = hm_peek K V keqb h2 k m2').
Proof. exact hm_hash_independent. Qed.
Print Assumptions C12_hashmap_hash_independent.

(* the model-level Overflow outcome of rehash (usize wrap in roundpow2) needs more than 2^62 buckets *)
Theorem C12_hashmap_overflow_only_beyond_2p62 :
  forall (K V : Type) (kdflt : K) (vdflt : V) (keqb : K -> K -> bool) (khash : K -> Z),
  (forall a b, keqb a b = keqb b a) ->
  forall (n : nat) (m : hmap K V), hm_inv K V keqb khash m ->
  hm_rehash K V kdflt vdflt keqb khash n m = Trap TrapOverflow ->
  (2 ^ 62 < Z.of_nat (Nat.max n (ceilidiv (hsize K V m * 100) HM_MAXLF_n)))%Z.
Proof. exact hm_rehash_overflow_only_huge. Qed.
Print Assumptions C12_hashmap_overflow_only_beyond_2p62.

(* ---- hash.nelua: == keys hash alike *)
Theorem C12_hash_coherent_float : forall a b : Z, f_eqb a b = true -> hash_float a = hash_float b.
Proof. exact hash_float_coherent. Qed.
Print Assumptions C12_hash_coherent_float.

Theorem C12_hash_coherent_record : forall a1 f1 a2 f2 : Z, rec_eqb a1 f1 a2 f2 = true -> hash_rec a1 f1 = hash_rec a2 f2.
Proof. exact hash_rec_coherent. Qed.
Print Assumptions C12_hash_coherent_record.

(* arrays (and records without __hash) fold the element hashes: element-wise related values hash alike whenever the
   element hash respects the element relation - in particular arrays of floats under float == ; pointers, spans and
   unions hash a function of exactly what == compares; a __hash record is coherent iff the user's method is. *)
Theorem C12_hash_coherent_aggregates :
  (forall (A : Type) (R : A -> A -> Prop) (h : A -> Z), (forall x y, R x y -> h x = h y) ->
     forall xs ys, Forall2 R xs ys -> hash_array h xs = hash_array h ys) /\
  (forall xs ys, Forall2 (fun a b => f_eqb a b = true) xs ys -> hash_array hash_float xs = hash_array hash_float ys) /\
  (forall a f, hash_rec a f = hash_fold [hash_int a; hash_float f]) /\
  (forall a b s, (a =? b)%Z = true -> hash_ptr a s = hash_ptr b s) /\
  (forall (A : Type) (ueq : A -> A -> bool) (uh : A -> Z), (forall x y, ueq x y = true -> uh x = uh y) ->
     forall x y, ueq x y = true -> hash_custom uh x = hash_custom uh y).
Proof.
  exact (conj hash_array_coherent (conj hash_float_array_coherent (conj hash_rec_is_fold (conj hash_ptr_coherent hash_custom_coherent)))).
Qed.
Print Assumptions C12_hash_coherent_aggregates.

(* the byte loop of lhash (strings, spans of bytes, raw bytes of pointers/unions) is total: for step >= 1 the fuel
   S(#data) of the model suffices and every data[len-1] read lies inside the data, so the model's fuel-exhaustion
   answer and out-of-range default are dead code and hash_short/hash_long are the loop's genuine results *)
Theorem C12_hash_byte_loop_total :
  (forall data seed step, (1 <= step)%Z -> lhash_o data seed step = Some (lhash data seed step)) /\
  (forall data, lhash_o data HASH_SEED 1 = Some (hash_short data) /\
                lhash_o data HASH_SEED (Z.shiftr (Z.of_nat (length data)) 5 + 1) = Some (hash_long data)).
Proof. exact (conj lhash_total hash_bytes_total). Qed.
Print Assumptions C12_hash_byte_loop_total.

Theorem C12_hash_coherent_integer_boolean :
  (forall a b : Z, (a =? b)%Z = true -> hash_int a = hash_int b) /\
  (forall a b : bool, Bool.eqb a b = true -> hash_bool a = hash_bool b).
Proof. exact (conj hash_int_coherent hash_bool_coherent). Qed.
Print Assumptions C12_hash_coherent_integer_boolean.

(* strings and float32 keys: string == is equality of the byte contents and hash.hash of a string is hash.long over
   those bytes, so equal strings hash alike (and == on strings is an equivalence); for float32 the only distinct bit
   patterns that are == are the two zeros, and both hash to 0 (== is symmetric and transitive, NaN is not == to itself) *)
Theorem C12_hash_coherent_string_float32 :
  (forall a b : list Z, str_eqb a b = true -> hash_string a = hash_string b) /\
  ((forall a, str_eqb a a = true) /\ (forall a b, str_eqb a b = str_eqb b a) /\
   (forall a b c, str_eqb a b = true -> str_eqb b c = true -> str_eqb a c = true)) /\
  (forall a b : Z, g_eqb a b = true -> hash_float32 a = hash_float32 b) /\
  (forall a b, g_eqb a b = g_eqb b a) /\
  (forall a b c, g_eqb a b = true -> g_eqb b c = true -> g_eqb a c = true).
Proof. exact (conj hash_string_coherent (conj str_eqb_equiv (conj hash_float32_coherent (conj g_eqb_sym g_eqb_trans)))). Qed.
Print Assumptions C12_hash_coherent_string_float32.

(* ---- stringbuilder: refinement to the byte string, for every operation used within its documented
   protocol.  One step: [sb_op_ok_at b]: the client of prepare(n) writes no more bytes than the span prepare
   returned in that state holds (capacity - size - 1 >= n).  Histories: the static sufficient condition [sb_op_ok]
   (at most the n bytes asked for), which implies the former in every well-formed state; [sb_wf] includes the NUL slot
   (size < capacity, every byte from size on is zero) and capacity >= INIT_CAPACITY once allocated.
   With the repaired commit the refinement also covers BCommitOver (it traps, as the byte-string spec says). *)
Theorem C12_stringbuilder_step_refines_bytes : forall (o : bop) (b : sb), sb_wf b -> sb_op_ok_at b o ->
  match by_step o (sb_view b) with
  | Ok (l', r) => exists b', sb_step o b = Ok (b', r) /\ sb_wf b' /\ sb_view b' = l'
  | Trap t => sb_step o b = Trap t
  end.
Proof. exact sb_step_refines_at. Qed.
Print Assumptions C12_stringbuilder_step_refines_bytes.

Theorem C12_stringbuilder_history_refines_bytes : forall (ops : list bop) (b : sb), sb_wf b -> Forall sb_op_ok ops ->
  match by_run ops (sb_view b) with
  | Ok (l', rs) => exists b', sb_run ops b = Ok (b', rs) /\ sb_wf b' /\ sb_view b' = l'
  | Trap t => sb_run ops b = Trap t
  end.
Proof. exact sb_run_refines. Qed.
Print Assumptions C12_stringbuilder_history_refines_bytes.

Theorem C12_stringbuilder_nul_slot : forall b : sb, sb_wf b -> sbdata b <> [] -> sb_nul_slot b = Some 0%Z.
Proof. exact sb_nul_slot_zero. Qed.
Print Assumptions C12_stringbuilder_nul_slot.

(* the commit guard at full strength (repaired in /repo 8abaeda): committing more than the prepared span is
   stopped; commit succeeds exactly when the NUL slot stays in place and then keeps the builder well formed. *)
Theorem C12_stringbuilder_commit_guard : forall (n d : nat) (b : sb), sb_wf b ->
  sb_step (BCommitOver n d) b = Trap TrapNoSpace.
Proof. exact sb_commit_guard. Qed.
Print Assumptions C12_stringbuilder_commit_guard.

Theorem C12_stringbuilder_commit_exact : forall (n : nat) (b : sb), sb_wf b ->
  (n = 0 \/ sbsize b + n < length (sbdata b) ->
     exists b', sb_commit n b = Ok b' /\ sb_wf b' /\ sbsize b' = sbsize b + n /\ sbdata b' = sbdata b) /\
  (n <> 0 /\ length (sbdata b) <= sbsize b + n -> sb_commit n b = Trap TrapNoSpace).
Proof. exact sb_commit_exact. Qed.
Print Assumptions C12_stringbuilder_commit_exact.

Theorem C12_stringbuilder_rollback_guard : forall (n : nat) (b : sb), sb_wf b -> sbsize b < n -> sb_rollback n b = Trap TrapNoSpace.
Proof. exact sb_rollback_guard. Qed.
Print Assumptions C12_stringbuilder_rollback_guard.

(* under an allocator that may refuse any request ([ok] arbitrary): every operation either acts on the byte string
   as specified, or reports failure (false / empty span) and leaves the contents untouched; the builder stays well
   formed ([sb_wf_a]: NUL slot and zero tail; the capacity may be below INIT_CAPACITY after a fallback allocation). *)
Theorem C12_stringbuilder_allocation_failure : forall (ok : nat -> bool) (o : bop) (b : sb), sb_wf_a b -> sb_op_ok_a o ->
  match by_step o (sb_view b) with
  | Ok (l', r) => exists b' r', sb_step_a ok o b = Ok (b', r') /\ sb_wf_a b' /\
                                ((sb_view b' = l' /\ r' = r) \/ (sb_view b' = sb_view b /\ sb_failure o r'))
  | Trap t => sb_step_a ok o b = Trap t
  end.
Proof. exact sb_step_a_refines. Qed.
Print Assumptions C12_stringbuilder_allocation_failure.

(* ---- span: the fat-pointer implementation (offset, size over some storage; s[i] = check + raw access, sub =
   check + pointer arithmetic) answers exactly as the list of the span's elements: an index outside the window is
   stopped by 'index out of range', an accepted access never leaves the window, and sub returns a span that is
   inside the storage and inside the parent window and views the expected sub-list (composes through nesting). *)
Theorem C12_span_window_refines_list : forall (T : Type) (mem : list T) (s : spanw), sp_wf mem s ->
  (forall i, spw_at T i mem s = span_at T i (sp_view T mem s)) /\
  (forall i j, match span_sub T i j (sp_view T mem s) with
               | Ok l => exists s', spw_sub i j s = Ok s' /\ sp_wf mem s' /\ sp_view T mem s' = l /\
                           (sp_size s' = 0 \/ (sp_off s <= sp_off s' /\ sp_off s' + sp_size s' <= sp_off s + sp_size s))
               | Trap t => spw_sub i j s = Trap t
               end).
Proof.
  exact (fun T mem s W => conj (fun i => span_window_at T mem s i W) (fun i j => span_window_sub T mem s i j W)).
Qed.
Print Assumptions C12_span_window_refines_list.

(* the list-level specification itself, unfolded (definitional: it restates span_at/span_sub; kept as the reading
   of the right-hand side of the theorem above) *)
Theorem C12_span_guards : forall (T : Type) (i j : nat) (s : list T),
  ((i < length s -> exists x, span_at T i s = Ok x /\ nth_error s i = Some x) /\
   (length s <= i -> span_at T i s = Trap TrapIndex)) /\
  ((i <= j /\ j <= length s -> span_sub T i j s = Ok (firstn (j - i) (skipn i s))) /\
   (~ (i <= j /\ j <= length s) -> span_sub T i j s = Trap TrapIndex)).
Proof. exact (fun T i j s => conj (span_at_guard T i s) (span_sub_guard T i j s)). Qed.
Print Assumptions C12_span_guards.

(* ---- iterators.nelua: a `for` driven by ipairs (vector, span), pairs (sequence, list, hashmap) - equally by next with the
   previous control value, which is the same function - visits exactly the elements / bindings of the container in the
   order of its abstract model: list order with the indices 0.. for vector and span and 1.. for the sequence, the nodes front to back for the
   list, node order (= the order of the hash-free flat map) for the hashmap; the container is left unchanged. *)
Theorem C12_iterators_visit_in_order :
  (forall (T : Type) (v : vec T), vec_wf T v ->
     vec_ipairs T v = Ok (v, combine (map Z.of_nat (List.seq 0 (vec_len T v))) (vec_contents T v))) /\
  (forall (T : Type) (dflt : T) (s : seq T), seq_wf T s ->
     seq_pairs T dflt s = Ok (s, combine (map (fun i => Z.of_nat (i + 1)) (List.seq 0 (seq_len T s))) (seq_contents T s))) /\
  (forall (T : Type) (mem : list T) (w : spanw), sp_wf mem w ->
     span_ipairs T mem w = Ok (w, combine (map Z.of_nat (List.seq 0 (sp_size w))) (sp_view T mem w))) /\
  (forall (T : Type) (dflt : T) (d : dlist T) (idx : list nat), dl_wf T d idx ->
     dl_pairs T d = Ok (d, combine (map Some idx) (vals T dflt (larena T d) idx))) /\
  (forall (K V : Type) (m : hmap K V), exists l, hm_for_pairs K V m = Ok (m, l) /\ map snd l = hm_abs K V m).
Proof. exact (conj vec_ipairs_ok (conj seq_pairs_ok (conj span_ipairs_ok (conj dl_pairs_ok hm_for_pairs_ok)))). Qed.
Print Assumptions C12_iterators_visit_in_order.

(* the references handed out by mipairs / mpairs / mnext alias the stored elements: &v[i] reads as v[i] and writes as
   v[i] = x; the list's
   reference is the node whose value pairs() yields; the hashmap's is the filled node whose binding pairs() yields *)
Theorem C12_iterators_references_alias :
  (forall (T : Type) (i : nat) (v : vec T) (r : nat) (v' : vec T), vec_ref T i v = Ok (v', r) ->
     v' = v /\ vec_ref_read T r v = vec_at T i v /\ forall x, vec_ref_write T r x v = vec_assign T i x v) /\
  (forall (T : Type) (d : dlist T) (node : option nat),
     match dl_next T d node with
     | Ok (d', Some (c, x)) => exists nd, dl_mnext T d node = Ok (d', Some (c, match c with Some j => j | None => 0 end)) /\
                                 match c with Some j => nth_error (larena T d) j = Some nd /\ lval T nd = x | None => False end
     | Ok (d', None) => dl_mnext T d node = Ok (d', None)
     | Trap t => dl_mnext T d node = Trap t
     end) /\
  (forall (K V : Type) (m : hmap K V) (it : option nat),
     match hm_it_next K V m it with
     | Ok (m', Some (c, kv)) => exists i nd, c = Some i /\ hm_it_mnext K V m it = Ok (m', Some (c, i)) /\
                                  nth_error (hnodes K V m) i = Some nd /\ nfilled K V nd = true /\ (nkey K V nd, nval K V nd) = kv
     | Ok (m', None) => hm_it_mnext K V m it = Ok (m', None)
     | Trap t => False
     end).
Proof. exact (conj vec_ref_alias (conj dl_mnext_alias hm_it_mnext_alias)). Qed.
Print Assumptions C12_iterators_references_alias.

(* hence updating through the references is the element-wise update of the abstract container, for the whole loop
   `for k, x in mipairs(v) / mpairs(l) / mpairs(m) do $x = f($x) end`: vector contents and list values become map f
   (capacity, links and well-formedness kept); for the hashmap the loop through the iterator object is hm_mapvals f,
   the operation HMapVals of the step relation (whose refinement is C12_hashmap_step_refines_map). *)
Theorem C12_iterators_update_through_references :
  (forall (T : Type) (f : T -> T) (v : vec T), vec_wf T v ->
     exists v', vec_mipairs_map T f v = Ok v' /\ vec_wf T v' /\ vec_contents T v' = map f (vec_contents T v) /\
                vec_cap T v' = vec_cap T v) /\
  (forall (T : Type) (dflt : T) (f : T -> T) (d : dlist T) (idx : list nat), dl_wf T d idx ->
     exists d', dl_mpairs_map T f d = Ok d' /\ dl_wf T d' idx /\
                vals T dflt (larena T d') idx = map f (vals T dflt (larena T d) idx)) /\
  (forall (K V : Type) (f : V -> V) (m : hmap K V), hm_for_mpairs K V f m = Ok (hm_mapvals K V f m)).
Proof. exact (conj vec_mipairs_map_ok (conj dl_mpairs_map_ok hm_for_mpairs_ok)). Qed.
Print Assumptions C12_iterators_update_through_references.

(* select(i, ...): all arguments from index i on (counted from the end for a negative i); select('#', ...) counts.
   The model is the specification itself (the selection happens at compile time): the statement is what the
   correspondence checks against the compiled code since /repo 6bf5a38 (before, only one value was returned). *)
Theorem C12_select_returns_suffix : forall (A : Type) (args : list A),
  (forall i, (1 <= i <= Z.of_nat (length args))%Z -> select_from i args = Some (skipn (Z.to_nat i - 1) args)) /\
  (forall i, (- Z.of_nat (length args) <= i <= -1)%Z ->
     select_from i args = Some (skipn (length args - Z.to_nat (- i)) args)) /\
  select_count args = length args.
Proof. exact (fun A args => conj (select_from_pos A args) (conj (select_from_neg A args) eq_refl)). Qed.
Print Assumptions C12_select_returns_suffix.

(* ---- list (doubly linked): [dl_wf d idx]: idx lists the node indices front to back without repetition, every
   listed node is alive and its prev/next pointers are exactly its neighbours in idx, front/back are the ends.
   Every operation returns what the list operation returns (including the value of the node returned by
   insert / following the erased node), preserves well-formedness and acts on the contents as the list operation;
   popfront/popback on an empty list and erase(nilptr) are stopped by their checks; no dangling access. *)
Theorem C12_list_step_refines_list : forall (T : Type) (dflt : T) (teqb : T -> T -> bool) (o : lop T) (d : dlist T) (idx : list nat),
  dl_wf T d idx ->
  match ll_step T teqb o (vals T dflt (larena T d) idx) with
  | Ok (l', r) => exists d' idx', dl_step T teqb o d = Ok (d', r) /\ dl_wf T d' idx' /\ vals T dflt (larena T d') idx' = l'
  | Trap t => dl_step T teqb o d = Trap t
  end.
Proof. exact dl_step_refines. Qed.
Print Assumptions C12_list_step_refines_list.

Theorem C12_list_history_refines_list : forall (T : Type) (dflt : T) (teqb : T -> T -> bool) (ops : list (lop T)) (d : dlist T) (idx : list nat),
  dl_wf T d idx ->
  match ll_run T teqb ops (vals T dflt (larena T d) idx) with
  | Ok (l', rs) => exists d' idx', dl_run T teqb ops d = Ok (d', rs) /\ dl_wf T d' idx' /\ vals T dflt (larena T d') idx' = l'
  | Trap t => dl_run T teqb ops d = Trap t
  end.
Proof. exact dl_run_refines. Qed.
Print Assumptions C12_list_history_refines_list.

Theorem C12_list_observers : forall (T : Type) (dflt : T) (d : dlist T) (idx : list nat),
  dl_wf T d idx -> dl_contents T d = Ok (vals T dflt (larena T d) idx).
Proof. exact dl_observed. Qed.
Print Assumptions C12_list_observers.

(* ---- refusing allocators for vector, sequence, hashmap, list: these containers only use the raising allocation
   entry points (xspanrealloc, xspanrealloc0, xspanalloc, new), so a refused request panics with 'out of memory'.
   Under ANY allocator oracle each operation either behaves exactly as with an allocator granting everything (to
   which all the refinement theorems above apply) or stops with the out-of-memory panic; there is no path that
   continues with a half-updated container.  For the hashmap the two sizes the oracle is asked about are exactly the
   node and bucket counts a successful rehash ends up with. *)
Theorem C12_allocation_failure_aborts :
  (forall (T : Type) (dflt : T) (teqb : T -> T -> bool) (ok : nat -> bool) (o : cop T) (v : vec T),
     vec_step_a T dflt teqb ok o v = vec_step T dflt teqb o v \/ vec_step_a T dflt teqb ok o v = Trap TrapOOM) /\
  (forall (T : Type) (dflt : T) (teqb : T -> T -> bool) (oki : bool) (ok : nat -> bool) (o : cop T) (s : seq T),
     seq_step_a T dflt teqb oki ok o s = seq_step T dflt teqb o s \/ seq_step_a T dflt teqb oki ok o s = Trap TrapOOM) /\
  (forall (K V : Type) (kdflt : K) (vdflt : V) (keqb : K -> K -> bool) (khash : K -> Z) (okn okb : nat -> bool) (o : hop K V) (m : hmap K V),
     hm_step_a K V kdflt vdflt keqb khash okn okb o m = hm_step K V kdflt vdflt keqb khash o m \/
     hm_step_a K V kdflt vdflt keqb khash okn okb o m = Trap TrapOOM) /\
  (forall (T : Type) (teqb : T -> T -> bool) (okn : bool) (o : lop T) (l : dlist T),
     dl_step_a T teqb okn o l = dl_step T teqb o l \/ dl_step_a T teqb okn o l = Trap TrapOOM).
Proof. exact (conj vec_step_a_dich (conj seq_step_a_dich (conj hm_step_a_dich dl_step_a_dich))). Qed.
Print Assumptions C12_allocation_failure_aborts.

Theorem C12_hashmap_rehash_request_sizes :
  forall (K V : Type) (kdflt : K) (vdflt : V) (keqb : K -> K -> bool) (khash : K -> Z),
  (forall a b, keqb a b = keqb b a) ->
  forall (n : nat) (m m' : hmap K V), hm_inv K V keqb khash m ->
  hm_rehash K V kdflt vdflt keqb khash n m = Ok m' ->
  hm_rehash_sizes K V n m = Some (length (hbuckets K V m'), length (hnodes K V m')).
Proof. exact hm_rehash_sizes_exact. Qed.
Print Assumptions C12_hashmap_rehash_request_sizes.

(* ---- destroy / __close: the container goes back to exactly its initial (zeroed) state, so every later operation
   behaves as on a fresh container (no use after destroy: nothing of the old storage is reachable).  For the list the
   released nodes stay in the model's arena marked dead; observably it is the fresh list and no later operation can
   reach a dead node (the list refinement theorem excludes TrapMem). *)
Theorem C12_destroy_resets :
  (forall (T : Type) (dflt : T) (teqb : T -> T -> bool) (v : vec T),
     vec_step T dflt teqb (ODestroy T) v = Ok (vec_empty T, RUnit T)) /\
  (forall (T : Type) (dflt : T) (teqb : T -> T -> bool) (s : seq T),
     seq_step T dflt teqb (ODestroy T) s = Ok (seq_empty T, RUnit T)) /\
  (forall (K V : Type) (kdflt : K) (vdflt : V) (keqb : K -> K -> bool) (khash : K -> Z) (m : hmap K V),
     hm_step K V kdflt vdflt keqb khash (HDestroy K V) m = Ok (hm_empty K V, HUnit K V)) /\
  (forall b : sb, sb_step BDestroy b = Ok (sb_empty, BUnit)) /\
  (forall (T : Type) (dflt : T) (teqb : T -> T -> bool) (d : dlist T) (idx : list nat), dl_wf T d idx ->
     exists d', dl_step T teqb (LDestroy T) d = Ok (d', LUnit T) /\ dl_wf T d' [] /\ dl_contents T d' = Ok []).
Proof.
  exact (conj (fun T dflt teqb v => eq_refl) (conj (fun T dflt teqb s => eq_refl)
          (conj (fun K V kdflt vdflt keqb khash m => eq_refl) (conj (fun b => eq_refl) dl_destroy_fresh)))).
Qed.
Print Assumptions C12_destroy_resets.

(* write(a1, a2, ...) under a refusing allocator: the arguments before the first one that cannot be stored are
   written, the returned count is exactly their total length, nothing else changes, the builder stays well formed *)
Theorem C12_stringbuilder_write_many_allocation_failure :
  forall (ok : nat -> bool) (parts : list (list Z)) (written : nat) (b : sb), sb_wf_a b ->
  exists b' r k, sb_write_parts_a ok parts written b = Ok (b', r) /\ sb_wf_a b' /\ k <= length parts /\
    sb_view b' = sb_view b ++ concat (firstn k parts) /\
    ((k = length parts /\ r = BOkN true (written + length (concat parts))) \/
     r = BOkN false (written + length (concat (firstn k parts)))).
Proof. exact sb_write_parts_a_ok. Qed.
Print Assumptions C12_stringbuilder_write_many_allocation_failure.
