(* C12 - sequence.nelua refines (reserved slot 0, mathematical list with 1-based positions),
   including auto-append at size+1, across every growth; the repaired remove guard. *)
From Coq Require Import ZArith List Bool Lia Arith.
From C12 Require Import Gen Model ProofsBase ProofsVec.
Import ListNotations.

Lemma seq_init_cap_ge2 : 2 <= SEQ_INIT_CAP_n.
Proof. vm_compute. lia. Qed.
Lemma seq_grow_mul_ge2 : 2 <= SEQ_GROW_MUL_n.
Proof. vm_compute. lia. Qed.

Ltac len_side :=
  autorewrite with nthe; cbn [length];
  repeat (rewrite length_overwrite by len_side); autorewrite with nthe; cbn [length]; lia.

Ltac pw :=
  cbn [sdata ssize sinit] in *;
  repeat (autorewrite with nthe || rewrite nthe_overwrite_in by len_side || rewrite length_overwrite by len_side);
  cbn [length]; ltb_cases; nth_close.

Ltac pw_ext := cbn [sdata ssize sinit] in *; apply nth_error_ext; intro; pw.

Section SeqProofs.
  Variable T : Type.
  Variable dflt : T.
  Variable teqb : T -> T -> bool.

  Notation seq_wf := (seq_wf T).

  Notation slot0 := (slot0 T dflt).
  Notation seq_abs := (seq_abs T dflt).

  Lemma seq_slot0_eq : forall s, seq_slot0 T dflt s = slot0 (sdata T s).
  Proof. intros [b [|x d] n]; reflexivity. Qed.

  Lemma seq_contents_eq : forall s, seq_wf s -> seq_contents T s = snd (seq_abs s).
  Proof.
    intros [b d n] [W1 W2]. unfold seq_contents, seq_len, Model.seq_abs; cbn [sinit sdata ssize snd] in *.
    destruct b; [reflexivity|]. destruct (W1 eq_refl) as [-> ->]. reflexivity.
  Qed.

  Lemma seq_len_eq : forall s, seq_wf s -> seq_len T s = length (snd (seq_abs s)).
  Proof.
    intros [b d n] [W1 W2]. unfold seq_len, Model.seq_abs; cbn [sinit sdata ssize snd] in *.
    rewrite firstn_length, skipn_length.
    destruct b.
    - destruct W2 as [[-> ->]|W2]; cbn; lia.
    - destruct (W1 eq_refl) as [-> ->]. reflexivity.
  Qed.

  Lemma seq_observers : forall s, seq_wf s ->
    seq_contents T s = snd (seq_abs s) /\ seq_len T s = length (snd (seq_abs s)) /\ seq_slot0 T dflt s = fst (seq_abs s).
  Proof. intros. split; [apply seq_contents_eq; assumption|]. split; [apply seq_len_eq; assumption|apply seq_slot0_eq]. Qed.

  Lemma seq_init_wf : forall s, seq_wf s -> seq_init T s = mkseq T true (sdata T s) (ssize T s).
  Proof.
    intros [b d n] [W1 W2]. unfold seq_init; cbn [sinit sdata ssize] in *.
    destruct b; [reflexivity|]. destruct (W1 eq_refl) as [-> ->]. reflexivity.
  Qed.

  Lemma abs_len : forall b d n, seq_wf (mkseq T b d n) -> length (firstn n (skipn 1 d)) = n.
  Proof.
    intros b d n [_ W2]; cbn in W2. rewrite firstn_length, skipn_length.
    destruct W2 as [[-> ->]|W2]; cbn; lia.
  Qed.

  Lemma abs_len' : forall s, seq_wf s -> length (snd (seq_abs s)) = ssize T s.
  Proof. intros [b d n] W. exact (abs_len b d n W). Qed.

  (* grow: the storage is extended by k > 0 zero-or-junk cells, at least 2 cells in total, slot 0 kept/zeroed *)
  Lemma seq_grow_ok : forall b d n,
    exists k, 0 < k /\ 2 <= length d + k /\ seq_grow T dflt (mkseq T b d n) = Ok (mkseq T b (d ++ repeat dflt k) n).
  Proof.
    intros b d n. unfold seq_grow, seq_capn; cbn [sdata sinit ssize].
    pose proof seq_init_cap_ge2. pose proof seq_grow_mul_ge2.
    destruct (Nat.eqb_spec (length d) 0) as [E|E]; cbn [negb andb].
    - destruct d; [|discriminate]. exists SEQ_INIT_CAP_n. cbn [length app]. split; [lia|split; [lia|]].
      rewrite sset_ok by (rewrite length_srealloc; lia). cbn [rbind]. f_equal; try (f_equal; pw_ext).
    - destruct (Nat.leb_spec (length d * SEQ_GROW_MUL_n) (length d)); [nia|].
      exists (length d * SEQ_GROW_MUL_n - length d). split; [lia|split; [lia|]].
      cbn [rbind]. rewrite srealloc_grow by lia. reflexivity.
  Qed.

  Lemma seq_maybe_grow : forall (c : bool) b d n,
    exists k, (if c then seq_grow T dflt (mkseq T b d n) else Ok (mkseq T b d n)) = Ok (mkseq T b (d ++ repeat dflt k) n) /\
              (c = true -> 0 < k /\ 2 <= length d + k).
  Proof.
    intros [|] b d n.
    - destruct (seq_grow_ok b d n) as (k & H1 & H2 & H3). exists k. auto.
    - exists 0. cbn [repeat]. rewrite app_nil_r. split; [reflexivity|discriminate].
  Qed.

  Lemma seq_scan_vec : forall x d n i, seq_scan T teqb n i x d = vec_scan T teqb n i x d.
  Proof. induction n; intros; cbn; [reflexivity|]. destruct (sget i d); cbn; [|reflexivity]. destruct (teqb a x); auto. Qed.
  Lemma seq_rif_vec : forall p d n i j, seq_rif_loop T p n i j d = vec_rif_loop T p n i j d.
  Proof.
    induction n; intros; cbn; [reflexivity|]. destruct (sget i d); cbn; [|reflexivity].
    destruct (p a); auto; destruct (sset j a d); cbn; auto.
  Qed.

  Ltac abs_simpl := unfold Model.seq_abs, Model.slot0, l_insert, l_remove, l_assign, l_resize; cbn [sdata ssize sinit fst snd].
  Ltac wf_cases W := destruct W as [W1 [[Wd Wn]|W2]]; cbn [sinit sdata ssize] in *; [subst|].

  (* ---------------- push *)
  Lemma seq_push_ok : forall x s, seq_wf s ->
    exists s', seq_push T dflt x s = Ok s' /\ seq_wf s' /\
               seq_abs s' = (fst (seq_abs s), snd (seq_abs s) ++ [x]).
  Proof.
    intros x s W. unfold seq_push. rewrite seq_init_wf by assumption. destruct s as [b d n].
    cbn [sdata ssize sinit]. unfold seq_capn; cbn [sdata].
    destruct (seq_maybe_grow (length d <=? n + 1 + 1) true d (n + 1)) as (k & -> & Hk). cbn [rbind sdata].
    assert (n + 1 < length d + k) as Hlen.
    { destruct (Nat.leb_spec (length d) (n + 1 + 1)).
      - destruct (Hk eq_refl). wf_cases W; cbn [length] in *; lia.
      - lia. }
    rewrite sset_ok by (rewrite app_length, repeat_length; lia). cbn [rbind].
    eexists; split; [reflexivity|]. split.
    - split; cbn [sinit sdata ssize]; [discriminate|]. right. len_side.
    - abs_simpl. f_equal.
      + rewrite nthe_overwrite_in by len_side. wf_cases W; cbn [length] in *; pw; try (destruct k; [lia|reflexivity]).
      + wf_cases W; cbn [length] in *; pw_ext.
  Qed.

  (* ---------------- pop *)
  Lemma seq_pop_ok : forall s, seq_wf s ->
    match nth_error (snd (seq_abs s)) (length (snd (seq_abs s)) - 1) with
    | Some x => exists s', seq_pop T s = Ok (s', x) /\ seq_wf s' /\
                           seq_abs s' = (fst (seq_abs s), firstn (length (snd (seq_abs s)) - 1) (snd (seq_abs s)))
    | None => seq_pop T s = Trap TrapPopEmpty
    end.
  Proof.
    intros [b d n] W. unfold Model.seq_abs; cbn [sdata ssize fst snd]. rewrite (abs_len b d n W).
    unfold seq_pop; cbn [sinit sdata ssize].
    destruct (Nat.eqb_spec n 0) as [->|E].
    - rewrite orb_true_r. cbn. reflexivity.
    - wf_cases W; [lia|]. destruct b; [|destruct (W1 eq_refl); lia]. cbn [negb orb].
      rewrite nthe_firstn, nthe_skipn. destruct (Nat.ltb_spec (n - 1) n); [|lia].
      replace (1 + (n - 1)) with n by lia.
      destruct (sget_ok T n d W2) as (x & Hg & Hn). rewrite Hn, Hg. cbn [rbind].
      eexists; split; [reflexivity|]. split.
      + split; cbn [sinit sdata ssize]; [discriminate|]. right; lia.
      + f_equal. pw_ext.
  Qed.

  (* ---------------- insert *)
  Lemma seq_insert_ok : forall pos x s, seq_wf s ->
    if (pos =? 0) || (length (snd (seq_abs s)) + 1 <? pos) then seq_insert T dflt pos x s = Trap TrapPos
    else exists s', seq_insert T dflt pos x s = Ok s' /\ seq_wf s' /\
                    seq_abs s' = (fst (seq_abs s), l_insert T (pos - 1) x (snd (seq_abs s))).
  Proof.
    intros pos x s W. unfold seq_insert. rewrite seq_init_wf by assumption. destruct s as [b d n].
    unfold Model.seq_abs; cbn [sdata ssize sinit fst snd]. rewrite (abs_len b d n W).
    destruct ((pos =? 0) || (n + 1 <? pos)) eqn:G; [reflexivity|].
    apply orb_false_iff in G. destruct G as [G1 G2]. apply Nat.eqb_neq in G1. apply Nat.ltb_ge in G2.
    unfold seq_capn; cbn [sdata].
    destruct (seq_maybe_grow (length d <=? n + 2) true d n) as (k & -> & Hk). cbn [rbind sdata].
    assert (n + 2 <= length d + k) as Hlen.
    { destruct (Nat.leb_spec (length d) (n + 2)).
      - destruct (Hk eq_refl). wf_cases W; cbn [length] in *; lia.
      - lia. }
    destruct (Nat.ltb_spec pos (n + 1)).
    - rewrite smove_ok by len_side. cbn [rbind].
      rewrite sset_ok by (rewrite length_overwrite; rewrite ?length_move_block; len_side). cbn [rbind].
      eexists; split; [reflexivity|]. split.
      + split; cbn [sinit sdata ssize]; [discriminate|]. right.
        rewrite !length_overwrite; rewrite ?length_move_block; try len_side;
          try (rewrite length_overwrite; rewrite ?length_move_block; len_side).
      + abs_simpl. f_equal.
        * rewrite nthe_overwrite_in by (rewrite length_overwrite; rewrite ?length_move_block; len_side).
          rewrite nthe_overwrite_in by (rewrite ?length_move_block; len_side).
          wf_cases W; cbn [length] in *; pw.
        * apply nth_error_ext; intro i.
          rewrite nthe_firstn, nthe_skipn.
          rewrite nthe_overwrite_in by (rewrite length_overwrite; rewrite ?length_move_block; len_side).
          rewrite nthe_overwrite_in by (rewrite ?length_move_block; len_side).
          rewrite length_move_block by len_side.
          wf_cases W; cbn [length] in *; pw.
    - assert (pos = n + 1) by lia. subst pos. cbn [rbind].
      rewrite sset_ok by len_side. cbn [rbind].
      eexists; split; [reflexivity|]. split.
      + split; cbn [sinit sdata ssize]; [discriminate|]. right. len_side.
      + abs_simpl. f_equal.
        * wf_cases W; cbn [length] in *; pw; try (destruct k; [lia|reflexivity]).
        * wf_cases W; cbn [length] in *; pw_ext.
  Qed.

  (* ---------------- remove (the repaired guard: position 0 is rejected) *)
  Lemma seq_remove_ok : forall pos s, seq_wf s ->
    match (if pos =? 0 then None else nth_error (snd (seq_abs s)) (pos - 1)) with
    | Some x => exists s', seq_remove T pos s = Ok (s', x) /\ seq_wf s' /\
                           seq_abs s' = (fst (seq_abs s), l_remove T (pos - 1) (snd (seq_abs s)))
    | None => seq_remove T pos s = Trap TrapPos
    end.
  Proof.
    intros pos [b d n] W. unfold Model.seq_abs; cbn [sdata ssize fst snd]. unfold seq_remove; cbn [sinit sdata ssize].
    destruct (Nat.eqb_spec pos 0) as [->|E].
    - rewrite orb_true_r. reflexivity.
    - rewrite nthe_firstn, nthe_skipn. replace (1 + (pos - 1)) with pos by lia.
      destruct (Nat.ltb_spec (pos - 1) n).
      + wf_cases W; [lia|]. destruct b; [|destruct (W1 eq_refl); lia]. cbn [negb orb].
        destruct (Nat.ltb_spec n pos); [lia|].
        destruct (sget_ok T pos d ltac:(lia)) as (x & Hg & Hn). rewrite Hn, Hg. cbn [rbind].
        destruct (Nat.ltb_spec pos n).
        * rewrite smove_ok by lia. cbn [rbind]. eexists; split; [reflexivity|]. split.
          { split; cbn [sinit sdata ssize]; [discriminate|]. right. rewrite length_overwrite; rewrite ?length_move_block; lia. }
          { abs_simpl. f_equal.
            - rewrite nthe_overwrite_in by (rewrite ?length_move_block; lia). pw.
            - apply nth_error_ext; intro i. rewrite nthe_firstn, nthe_skipn.
              rewrite nthe_overwrite_in by (rewrite ?length_move_block; lia).
              rewrite length_move_block by lia. pw. }
        * cbn [rbind]. eexists; split; [reflexivity|]. split.
          { split; cbn [sinit sdata ssize]; [discriminate|]. right. lia. }
          { abs_simpl. f_equal. pw_ext. }
      + destruct (negb b); [reflexivity|]. cbn [orb]. destruct (Nat.ltb_spec n pos); [reflexivity|lia].
  Qed.

  (* ---------------- removevalue *)
  Lemma seq_removevalue_ok : forall x s, seq_wf s ->
    match l_index T teqb x (snd (seq_abs s)) with
    | Some i => exists s', seq_removevalue T teqb x s = Ok (s', true) /\ seq_wf s' /\
                           seq_abs s' = (fst (seq_abs s), l_remove T i (snd (seq_abs s)))
    | None => seq_removevalue T teqb x s = Ok (s, false)
    end.
  Proof.
    intros x s W. unfold seq_removevalue.
    destruct (sinit T s) eqn:Ei; cbn [negb].
    - assert (ssize T s = 0 /\ sdata T s = [] \/ 1 + ssize T s <= length (sdata T s)) as [[Hn Hd]|Hb].
      { destruct s as [b d n]. wf_cases W; cbn; [left; auto|right; lia]. }
      { unfold Model.seq_abs. rewrite Hn, Hd. cbn. reflexivity. }
      rewrite seq_scan_vec, vec_scan_ok by assumption.
      change (firstn (ssize T s) (skipn 1 (sdata T s))) with (snd (seq_abs s)).
      destruct (l_index T teqb x (snd (seq_abs s))) as [i|] eqn:E; cbn [option_map rbind Nat.add]; [|reflexivity].
      pose proof (l_index_lt _ _ _ _ _ E) as Hi.
      pose proof (seq_remove_ok (1 + i) s W) as R. cbn [Nat.eqb Nat.add] in R.
      replace (S i - 1) with i in R by lia.
      destruct (nth_error (snd (seq_abs s)) i) eqn:En.
      + destruct R as (s' & -> & W' & C'). cbn [rbind fst]. eauto.
      + apply nth_error_None in En. lia.
    - destruct W as [W1 _]. destruct (W1 Ei) as [Hd Hn]. unfold Model.seq_abs. rewrite Hd, Hn. reflexivity.
  Qed.

  (* ---------------- removeif *)
  Lemma seq_removeif_ok : forall pred s, seq_wf s ->
    exists s', seq_removeif T pred s = Ok s' /\ seq_wf s' /\
               seq_abs s' = (fst (seq_abs s), filter (fun e => negb (pred e)) (snd (seq_abs s))).
  Proof.
    intros pred s W. unfold seq_removeif.
    destruct (sinit T s) eqn:Ei; cbn [negb].
    - destruct s as [b d n]. cbn [sinit sdata ssize] in *. subst b.
      wf_cases W.
      + cbn. eexists; split; [reflexivity|]. split; [|reflexivity].
        split; cbn; [discriminate|]. left; auto.
      + rewrite seq_rif_vec.
        destruct (vec_rif_ok T pred n 1 1 d ltac:(lia) ltac:(lia)) as (d' & -> & L & F). cbn [rbind fst snd].
        set (fl := filter (fun e => negb (pred e)) (firstn n (skipn 1 d))) in *.
        assert (length fl <= n) as Hfl.
        { subst fl. pose proof (filter_len_le T (fun e => negb (pred e)) (firstn n (skipn 1 d))).
          rewrite firstn_length, skipn_length in H. lia. }
        replace (1 + length fl - 1) with (length fl) by lia.
        eexists; split; [reflexivity|]. split.
        * split; cbn [sinit sdata ssize]; [discriminate|]. right. lia.
        * abs_simpl. fold fl.
          assert (forall i, i < 1 + length fl -> nth_error d' i = nth_error (firstn 1 d ++ fl) i) as Hp.
          { intros i Hi. rewrite <- F. rewrite nthe_firstn. destruct (Nat.ltb_spec i (1 + length fl)); [reflexivity|lia]. }
          f_equal.
          { rewrite Hp by lia. pw. }
          { apply nth_error_ext; intro i. rewrite nthe_firstn, nthe_skipn.
            destruct (Nat.ltb_spec i (length fl)).
            - rewrite Hp by lia. pw.
            - symmetry. apply nthe_beyond. lia. }
    - eexists; split; [reflexivity|]. split; [assumption|].
      destruct W as [W1 _]. destruct (W1 Ei) as [Hd Hn]. unfold Model.seq_abs. rewrite Hd, Hn. reflexivity.
  Qed.

  (* ---------------- reserve / resize / clear / copy *)
  Lemma seq_reserve_ok : forall n' s, seq_wf s ->
    exists k, seq_reserve T dflt n' s = Ok (mkseq T true (sdata T s ++ repeat dflt k) (ssize T s)) /\
              n' + 1 <= length (sdata T s) + k.
  Proof.
    intros n' s W. unfold seq_reserve. rewrite seq_init_wf by assumption. destruct s as [b d n].
    cbn [sdata ssize]. unfold seq_capn; cbn [sdata].
    destruct (Nat.leb_spec (n' + 1) (length d)).
    - exists 0. cbn [repeat]. rewrite app_nil_r. split; [reflexivity|lia].
    - exists (n' + 1 - length d). split; [|lia].
      destruct (Nat.eqb_spec (length d) 0) as [E|E].
      + destruct d; [|discriminate]. cbn [length app] in *.
        rewrite sset_ok by (rewrite length_srealloc; lia). cbn [rbind]. f_equal; try (f_equal; pw_ext).
      + cbn [rbind]. rewrite srealloc_grow by lia. reflexivity.
  Qed.

  Lemma seq_ext_wf : forall b d n k, seq_wf (mkseq T b d n) ->
    seq_wf (mkseq T true (d ++ repeat dflt k) n) /\ seq_abs (mkseq T true (d ++ repeat dflt k) n) = seq_abs (mkseq T b d n).
  Proof.
    intros b d n k W. split.
    - split; cbn [sinit sdata ssize]; [discriminate|].
      wf_cases W.
      + destruct k; [left; auto|right; cbn; lia].
      + right. len_side.
    - abs_simpl. f_equal.
      + wf_cases W; cbn [length] in *; pw; try (destruct k; [reflexivity|reflexivity]).
      + wf_cases W; cbn [length] in *; pw_ext.
  Qed.

  Lemma seq_resize_ok : forall n' s, seq_wf s ->
    exists s', seq_resize T dflt n' s = Ok s' /\ seq_wf s' /\
               seq_abs s' = (fst (seq_abs s), l_resize T dflt n' (snd (seq_abs s))).
  Proof.
    intros n' s W. unfold seq_resize.
    destruct (seq_reserve_ok n' s W) as (k & -> & Hk). cbn [rbind sdata ssize].
    destruct s as [b d n]. cbn [sdata ssize] in *.
    unfold Model.seq_abs at 2 3; cbn [sdata ssize fst snd]. unfold l_resize. rewrite (abs_len b d n W).
    destruct (Nat.ltb_spec n n').
    - rewrite sfill_ok by len_side. cbn [rbind]. eexists; split; [reflexivity|]. split.
      + split; cbn [sinit sdata ssize]; [discriminate|]. right. len_side.
      + abs_simpl. f_equal.
        * rewrite nthe_overwrite_in by len_side. wf_cases W; cbn [length] in *; pw; try (destruct k; [lia|reflexivity]).
        * wf_cases W; cbn [length] in *; pw_ext.
    - cbn [rbind]. eexists; split; [reflexivity|]. split.
      + split; cbn [sinit sdata ssize]; [discriminate|].
        wf_cases W.
        * assert (n' = 0) by lia; subst. destruct k; [left; auto|right; cbn; lia].
        * right. len_side.
      + abs_simpl. f_equal.
        * wf_cases W; cbn [length] in *; pw; try (destruct k; reflexivity).
        * wf_cases W; cbn [length] in *; pw_ext.
  Qed.

  Lemma seq_clear_ok : forall s, seq_wf s ->
    seq_wf (seq_clear T s) /\ seq_abs (seq_clear T s) = (fst (seq_abs s), []).
  Proof.
    intros [b d n] W. unfold seq_clear; cbn [sinit sdata]. destruct b.
    - split.
      + split; cbn [sinit sdata ssize]; [discriminate|]. wf_cases W; [left; auto|right; lia].
      + reflexivity.
    - destruct W as [W1 _]. destruct (W1 eq_refl) as [Hd Hn]; cbn in Hd, Hn; subst.
      split; [split; cbn; auto|reflexivity].
  Qed.

  Lemma seq_copy_ok : forall s, seq_wf s -> seq_wf (seq_copy T s) /\ seq_abs (seq_copy T s) = seq_abs s.
  Proof.
    intros [b d n] W. unfold seq_copy; cbn [sinit sdata ssize]. destruct b.
    - auto.
    - destruct W as [W1 _]. destruct (W1 eq_refl) as [Hd Hn]; cbn in Hd, Hn; subst.
      split; [split; cbn; auto|reflexivity].
  Qed.

  (* ---------------- __atindex, read and write *)
  Lemma seq_atindex_ok : forall pos s, seq_wf s ->
    if ssize T s + 1 <? pos then seq_atindex T dflt pos s = Trap TrapPos
    else exists s', seq_atindex T dflt pos s = Ok s' /\ seq_wf s' /\ sinit T s' = true /\ pos < length (sdata T s') /\
         seq_abs s' = (fst (seq_abs s), if pos =? ssize T s + 1 then snd (seq_abs s) ++ [dflt] else snd (seq_abs s)).
  Proof.
    intros pos s W. unfold seq_atindex. rewrite seq_init_wf by assumption. destruct s as [b d n].
    cbn [sdata ssize sinit]. unfold seq_capn; cbn [sdata].
    destruct (Nat.ltb_spec (n + 1) pos).
    - destruct (Nat.ltb_spec n pos); [|lia]. destruct (Nat.eqb_spec pos (n + 1)); [lia|]. reflexivity.
    - destruct (Nat.ltb_spec n pos).
      + assert (pos = n + 1) by lia. subst pos. rewrite Nat.eqb_refl. cbn [negb].
        destruct (seq_maybe_grow (length d <? n + 1 + 1) true d (n + 1)) as (k & -> & Hk). cbn [rbind sdata].
        assert (n + 1 < length d + k) as Hlen.
        { destruct (Nat.ltb_spec (length d) (n + 1 + 1)).
          - destruct (Hk eq_refl). wf_cases W; cbn [length] in *; lia.
          - lia. }
        rewrite sset_ok by len_side. cbn [rbind].
        eexists; split; [reflexivity|]. split; [|split; [reflexivity|split]].
        * split; cbn [sinit sdata ssize]; [discriminate|]. right. len_side.
        * cbn [sdata]. len_side.
        * abs_simpl. f_equal.
          { rewrite nthe_overwrite_in by len_side. wf_cases W; cbn [length] in *; pw; try (destruct k; [lia|reflexivity]). }
          { wf_cases W; cbn [length] in *; pw_ext. }
      + destruct (Nat.eqb_spec pos (n + 1)); [lia|].
        destruct ((length d =? 0) && (pos =? 0)) eqn:G.
        * apply andb_true_iff in G. destruct G as [G1 G2]. apply Nat.eqb_eq in G1, G2. subst pos.
          destruct d; [|discriminate].
          destruct (seq_grow_ok true [] n) as (k & H1 & H2 & ->). cbn [app length] in *.
          eexists; split; [reflexivity|]. split; [|split; [reflexivity|split]].
          { split; cbn [sinit sdata ssize]; [discriminate|]. right. wf_cases W; cbn [length] in *; [len_side|lia]. }
          { cbn [sdata]. len_side. }
          { wf_cases W; cbn [length] in *; [|lia]. abs_simpl. f_equal.
            destruct k; [lia|reflexivity]. }
        * eexists; split; [reflexivity|]. split; [|split; [reflexivity|split]].
          { split; cbn [sinit sdata ssize]; [discriminate|]. destruct W as [_ W2]. exact W2. }
          { cbn [sdata]. apply andb_false_iff in G. wf_cases W; cbn [length] in *.
            - destruct G as [G|G]; [discriminate|]. apply Nat.eqb_neq in G. lia.
            - lia. }
          { reflexivity. }
  Qed.

  Lemma seq_get_ok : forall pos s, seq_wf s ->
    match sq_step T dflt teqb (OAt T pos) (seq_abs s) with
    | Ok (st', r) => exists s', seq_get T dflt pos s = Ok (s', match r with RVal _ x => x | _ => dflt end) /\
                                (exists x, r = RVal T x) /\ seq_wf s' /\ seq_abs s' = st'
    | Trap t => seq_get T dflt pos s = Trap t
    end.
  Proof.
    intros pos s W. pose proof (seq_atindex_ok pos s W) as A.
    unfold seq_get. destruct s as [b d n].
    change (seq_abs {| sinit := b; sdata := d; ssize := n |}) with (slot0 d, firstn n (skipn 1 d)) in *.
    cbn [sdata ssize fst snd] in *. cbn [sq_step].
    rewrite (abs_len b d n W).
    destruct (Nat.eqb_spec pos 0) as [->|E0].
    - destruct (Nat.ltb_spec (n + 1) 0); [lia|]. destruct A as (s' & -> & W' & I' & L' & A'). cbn [rbind].
      destruct (sget_ok T 0 (sdata T s') L') as (x & Hg & Hn). rewrite Hg. cbn [rbind].
      destruct (Nat.eqb_spec 0 (n + 1)); [lia|].
      assert (x = slot0 d) as ->.
      { assert (fst (seq_abs s') = slot0 d) by (rewrite A'; reflexivity).
        unfold Model.seq_abs, Model.slot0 in H0; cbn [fst] in H0. rewrite Hn in H0. exact H0. }
      eexists; split; [reflexivity|]. split; [eauto|]. split; [assumption|]. rewrite A'. reflexivity.
    - destruct (Nat.eqb_spec pos (n + 1)) as [->|E1].
      + destruct (Nat.ltb_spec (n + 1) (n + 1)); [lia|]. destruct A as (s' & -> & W' & I' & L' & A'). cbn [rbind].
        destruct (sget_ok T (n + 1) (sdata T s') L') as (x & Hg & Hn). rewrite Hg. cbn [rbind].
        assert (x = dflt) as ->.
        { assert (nth_error (snd (seq_abs s')) n = Some dflt) as Hx.
          { rewrite A'. cbn [snd]. rewrite nthe_app, (abs_len b d n W).
            destruct (Nat.ltb_spec n n); [lia|]. rewrite Nat.sub_diag. reflexivity. }
          unfold Model.seq_abs in Hx; cbn [snd] in Hx. rewrite nthe_firstn, nthe_skipn in Hx.
          destruct (n <? ssize T s'); [|discriminate].
          replace (1 + n) with (n + 1) in Hx by lia. congruence. }
        eexists; split; [reflexivity|]. split; [eauto|]. split; [assumption|]. rewrite A'. reflexivity.
      + rewrite nthe_firstn, nthe_skipn. replace (1 + (pos - 1)) with pos by lia.
        destruct (Nat.ltb_spec (pos - 1) n).
        * destruct (Nat.ltb_spec (n + 1) pos); [lia|]. destruct A as (s' & -> & W' & I' & L' & A'). cbn [rbind].
          destruct (sget_ok T pos (sdata T s') L') as (x & Hg & Hn). rewrite Hg. cbn [rbind].
          assert (nth_error d pos = Some x) as ->.
          { assert (nth_error (snd (seq_abs s')) (pos - 1) = nth_error (firstn n (skipn 1 d)) (pos - 1)) as Hx by (rewrite A'; reflexivity).
            unfold Model.seq_abs in Hx; cbn [snd] in Hx. rewrite !nthe_firstn, !nthe_skipn in Hx.
            replace (1 + (pos - 1)) with pos in Hx by lia.
            destruct (Nat.ltb_spec (pos - 1) n); [|lia].
            destruct (pos - 1 <? ssize T s') eqn:Q.
            - congruence.
            - assert (length (snd (seq_abs s')) = n) as Hlen by (rewrite A'; cbn [snd]; apply (abs_len b d n W)).
              rewrite (abs_len' s' W') in Hlen.
              apply Nat.ltb_ge in Q. lia. }
          eexists; split; [reflexivity|]. split; [eauto|]. split; [assumption|]. rewrite A'. reflexivity.
        * destruct (Nat.ltb_spec (n + 1) pos); [|lia]. rewrite A. reflexivity.
  Qed.

  Lemma seq_set_ok : forall pos x s, seq_wf s ->
    match sq_step T dflt teqb (OAssign T pos x) (seq_abs s) with
    | Ok (st', r) => exists s', seq_set T dflt pos x s = Ok s' /\ r = RUnit T /\ seq_wf s' /\ seq_abs s' = st'
    | Trap t => seq_set T dflt pos x s = Trap t
    end.
  Proof.
    intros pos x s W. pose proof (seq_atindex_ok pos s W) as A.
    unfold seq_set. destruct s as [b d n].
    change (seq_abs {| sinit := b; sdata := d; ssize := n |}) with (slot0 d, firstn n (skipn 1 d)) in *.
    cbn [sdata ssize fst snd] in *. cbn [sq_step].
    rewrite (abs_len b d n W).
    assert (forall s' : seq T, seq_wf s' -> sinit T s' = true -> pos < length (sdata T s') ->
              exists s'', (d0 <- sset pos x (sdata T s');; Ok (mkseq T (sinit T s') d0 (ssize T s'))) = Ok s'' /\
                          seq_wf s'' /\
                          seq_abs s'' = (if pos =? 0 then x else fst (seq_abs s'),
                                         if pos =? 0 then snd (seq_abs s') else
                                         if pos <=? ssize T s' then l_assign T (pos - 1) x (snd (seq_abs s')) else snd (seq_abs s'))) as SET.
    { intros [b' d' n'] W' I' L'. cbn [sinit sdata ssize] in *. subst b'.
      rewrite sset_ok by assumption. cbn [rbind]. eexists; split; [reflexivity|]. split.
      - split; cbn [sinit sdata ssize]; [discriminate|]. right. wf_cases W'; cbn [length] in *; [lia|len_side].
      - abs_simpl. f_equal.
        + rewrite nthe_overwrite_in by len_side. pw.
        + wf_cases W'; cbn [length] in *; [lia|]. ltb_cases; pw_ext. }
    destruct (Nat.eqb_spec pos 0) as [->|E0].
    - destruct (Nat.ltb_spec (n + 1) 0); [lia|]. destruct A as (s' & -> & W' & I' & L' & A'). cbn [rbind].
      destruct (SET s' W' I' L') as (s'' & -> & W'' & A''). cbn [Nat.eqb] in A''.
      eexists; split; [reflexivity|]. split; [reflexivity|]. split; [assumption|].
      rewrite A'', A'. destruct (Nat.eqb_spec 0 (n + 1)); [lia|]. reflexivity.
    - destruct (Nat.eqb_spec pos (n + 1)) as [->|E1].
      + destruct (Nat.ltb_spec (n + 1) (n + 1)); [lia|]. destruct A as (s' & -> & W' & I' & L' & A'). cbn [rbind].
        destruct (SET s' W' I' L') as (s'' & -> & W'' & A'').
        destruct (Nat.eqb_spec (n + 1) 0); [lia|].
        assert (ssize T s' = n + 1) as Hs.
        { assert (length (snd (seq_abs s')) = n + 1) as Hlen by (rewrite A'; cbn [snd]; rewrite app_length, (abs_len b d n W); cbn; lia).
          rewrite (abs_len' s' W') in Hlen. exact Hlen. }
        rewrite Hs in A''. destruct (Nat.leb_spec (n + 1) (n + 1)); [|lia].
        eexists; split; [reflexivity|]. split; [reflexivity|]. split; [assumption|].
        rewrite A'', A'. cbn [fst snd]. f_equal. unfold l_assign.
        apply nth_error_ext; intro i. pose proof (abs_len b d n W) as HL.
        set (l0 := firstn n (skipn 1 d)) in *. clearbody l0.
        autorewrite with nthe. rewrite ?HL. cbn [length]. ltb_cases; nth_close.
      + destruct (Nat.leb_spec pos n).
        * destruct (Nat.ltb_spec (n + 1) pos); [lia|]. destruct A as (s' & -> & W' & I' & L' & A'). cbn [rbind].
          destruct (SET s' W' I' L') as (s'' & -> & W'' & A'').
          destruct (Nat.eqb_spec pos 0); [lia|].
          assert (ssize T s' = n) as Hs.
          { assert (length (snd (seq_abs s')) = n) as Hlen by (rewrite A'; cbn [snd]; apply (abs_len b d n W)).
            rewrite (abs_len' s' W') in Hlen. exact Hlen. }
          rewrite Hs in A''. destruct (Nat.leb_spec pos n); [|lia].
          eexists; split; [reflexivity|]. split; [reflexivity|]. split; [assumption|].
          rewrite A'', A'. reflexivity.
        * destruct (Nat.ltb_spec (n + 1) pos); [|lia]. rewrite A. reflexivity.
  Qed.

  (* ---------------- __convert / destroy / unpack *)
  Lemma seq_empty_wf' : seq_wf (seq_empty T) /\ seq_abs (seq_empty T) = (dflt, []).
  Proof. split; [split; cbn; auto|reflexivity]. Qed.

  Lemma seq_convert_ok : forall xs,
    exists s', seq_convert T dflt xs = Ok s' /\ seq_wf s' /\ seq_abs s' = (dflt, xs).
  Proof.
    intros xs. unfold seq_convert.
    destruct (seq_reserve_ok (length xs) (seq_empty T) (proj1 seq_empty_wf')) as (k & -> & Hk). cbn [rbind sdata ssize seq_empty app] in *.
    cbn [length] in Hk. rewrite fill_from_ok by (rewrite repeat_length; lia). cbn [rbind].
    eexists; split; [reflexivity|]. split.
    - split; cbn [sinit sdata ssize]; [discriminate|]. right. rewrite length_overwrite; rewrite repeat_length; lia.
    - unfold Model.seq_abs, Model.slot0; cbn [sdata ssize]. f_equal.
      + rewrite nthe_overwrite_in by (rewrite repeat_length; lia). rewrite nthe_repeat.
        destruct (Nat.ltb_spec 0 1); [|lia]. destruct (Nat.ltb_spec 0 k); [reflexivity|lia].
      + apply nth_error_ext; intro j. rewrite nthe_firstn, nthe_skipn.
        rewrite nthe_overwrite_in by (rewrite repeat_length; lia).
        ltb_cases; nth_close; try (symmetry; apply nthe_beyond; lia).
  Qed.

  Lemma seq_unpack_loop_ok : forall n k s, seq_wf s -> 1 <= k -> k + n <= length (snd (seq_abs s)) + 1 ->
    exists s', seq_unpack_loop T dflt n k s = Ok (s', firstn n (skipn (k - 1) (snd (seq_abs s)))) /\
               seq_wf s' /\ seq_abs s' = seq_abs s.
  Proof.
    induction n; intros k s W Hk Hn; cbn [seq_unpack_loop firstn].
    - eauto.
    - pose proof (seq_get_ok k s W) as G. destruct (seq_abs s) as [z l] eqn:EA. cbn [snd] in *. cbn [sq_step] in G.
      destruct (Nat.eqb_spec k 0); [lia|]. destruct (Nat.eqb_spec k (length l + 1)); [lia|].
      destruct (nth_error l (k - 1)) as [x|] eqn:Ex; [|apply nth_error_None in Ex; lia].
      destruct G as (s1 & -> & _ & W1 & A1). cbn [rbind fst snd].
      destruct (IHn (S k) s1 W1 ltac:(lia) ltac:(rewrite A1; cbn [snd]; lia)) as (s2 & -> & W2 & A2).
      cbn [rbind fst snd]. rewrite A1 in *. cbn [snd] in *. exists s2. split; [|split; [assumption|congruence]].
      f_equal. f_equal.
      assert (skipn (k - 1) l = x :: skipn (S k - 1) l) as ->.
      { apply nth_error_ext; intro j. rewrite nthe_cons, !nthe_skipn.
        destruct (Nat.eqb_spec j 0); [subst; rewrite Nat.add_0_r; assumption|f_equal; lia]. }
      reflexivity.
  Qed.

  Lemma seq_unpack_ok : forall i j s, seq_wf s ->
    if (1 <=? i) && (j <=? length (snd (seq_abs s))) && (i <=? j)
    then exists s', seq_unpack T dflt i j s = Ok (s', firstn (j - i + 1) (skipn (i - 1) (snd (seq_abs s)))) /\
                    seq_wf s' /\ seq_abs s' = seq_abs s
    else seq_unpack T dflt i j s = Trap TrapUnpack.
  Proof.
    intros i j s W. unfold seq_unpack. rewrite (seq_len_eq s W).
    destruct ((1 <=? i) && (j <=? length (snd (seq_abs s))) && (i <=? j)) eqn:G; [|reflexivity].
    apply andb_true_iff in G. destruct G as [G G3]. apply andb_true_iff in G. destruct G as [G1 G2].
    apply Nat.leb_le in G1, G2, G3. apply seq_unpack_loop_ok; [assumption|lia|lia].
  Qed.

  (* ---------------- one step, and whole histories *)
  Definition seq_refines (o : cop T) (s : seq T) : Prop :=
    match sq_step T dflt teqb o (seq_abs s) with
    | Ok (st', r) => exists s', seq_step T dflt teqb o s = Ok (s', r) /\ seq_wf s' /\ seq_abs s' = st'
    | Trap t => seq_step T dflt teqb o s = Trap t
    end.

  Theorem seq_step_refines : forall o s, seq_wf s -> seq_refines o s.
  Proof.
    intros o s W. unfold seq_refines.
    destruct o.
    1-10: destruct (seq_abs s) as [z l] eqn:EA; cbn [sq_step seq_step].
    - destruct (seq_push_ok x s W) as (s' & -> & W' & C). cbn [rbind]. rewrite EA in C. eauto.
    - pose proof (seq_pop_ok s W) as P. rewrite EA in P; cbn [fst snd] in P.
      destruct (nth_error l (length l - 1)).
      + destruct P as (s' & -> & W' & C). cbn [rbind fst snd]. eauto.
      + rewrite P. reflexivity.
    - pose proof (seq_insert_ok pos x s W) as P. rewrite EA in P; cbn [fst snd] in P.
      destruct ((pos =? 0) || (length l + 1 <? pos)).
      + rewrite P. reflexivity.
      + destruct P as (s' & -> & W' & C). cbn [rbind]. eauto.
    - pose proof (seq_remove_ok pos s W) as P. rewrite EA in P; cbn [fst snd] in P.
      destruct (pos =? 0).
      + rewrite P. reflexivity.
      + destruct (nth_error l (pos - 1)).
        * destruct P as (s' & -> & W' & C). cbn [rbind fst snd]. eauto.
        * rewrite P. reflexivity.
    - pose proof (seq_removevalue_ok x s W) as P. rewrite EA in P; cbn [fst snd] in P.
      destruct (l_index T teqb x l).
      + destruct P as (s' & -> & W' & C). cbn [rbind fst snd]. eauto.
      + rewrite P. cbn [rbind fst snd]. eauto.
    - destruct (seq_removeif_ok p s W) as (s' & -> & W' & C). cbn [rbind]. rewrite EA in C. eauto.
    - destruct (seq_resize_ok n s W) as (s' & -> & W' & C). cbn [rbind]. rewrite EA in C. eauto.
    - destruct (seq_reserve_ok n s W) as (k & -> & _). cbn [rbind].
      destruct s as [b d m]. destruct (seq_ext_wf b d m k W) as (W' & C). cbn [sdata ssize]. rewrite EA in C. eauto.
    - destruct (seq_clear_ok s W) as (W' & C). rewrite EA in C. eauto.
    - destruct (seq_copy_ok s W) as (W' & C). rewrite EA in C. eauto.
    - pose proof (seq_get_ok pos s W) as P. cbn [seq_step].
      destruct (sq_step T dflt teqb (OAt T pos) (seq_abs s)) as [[st' r]|t].
      + destruct P as (s' & -> & (x & ->) & W' & C). cbn [rbind fst snd]. eauto.
      + rewrite P. reflexivity.
    - pose proof (seq_set_ok pos x s W) as P. cbn [seq_step].
      destruct (sq_step T dflt teqb (OAssign T pos x) (seq_abs s)) as [[st' r]|t].
      + destruct P as (s' & -> & -> & W' & C). cbn [rbind]. eauto.
      + rewrite P. reflexivity.
    - destruct (seq_abs s); cbn [sq_step seq_step]. exists (seq_empty T). split; [reflexivity|]. apply seq_empty_wf'.
    - destruct (seq_abs s); cbn [sq_step seq_step]. destruct (seq_convert_ok xs) as (s' & -> & W' & C). cbn [rbind]. eauto.
    - pose proof (seq_unpack_ok i j s W) as P. destruct (seq_abs s) as [z l] eqn:EA. cbn [snd] in P. cbn [sq_step seq_step].
      destruct ((1 <=? i) && (j <=? length l) && (i <=? j)).
      + destruct P as (s' & -> & W' & C). cbn [rbind fst snd]. eauto.
      + rewrite P. reflexivity.
  Qed.

  Notation seq_run := (seq_run T dflt teqb).
  Notation sq_run := (sq_run T dflt teqb).

  Theorem seq_run_refines : forall ops s, seq_wf s ->
    match sq_run ops (seq_abs s) with
    | Ok (st', rs) => exists s', seq_run ops s = Ok (s', rs) /\ seq_wf s' /\ seq_abs s' = st'
    | Trap t => seq_run ops s = Trap t
    end.
  Proof.
    induction ops as [|o tl IH]; intros s W; cbn [Model.sq_run Model.seq_run].
    - eauto.
    - pose proof (seq_step_refines o s W) as S. unfold seq_refines in S.
      destruct (sq_step T dflt teqb o (seq_abs s)) as [[l1 r1]|t]; cbn [rbind fst snd].
      + destruct S as (s1 & -> & W1 & C1). cbn [rbind fst snd]. subst l1.
        specialize (IH s1 W1). destruct (sq_run tl (seq_abs s1)) as [[l2 rs]|t]; cbn [rbind fst snd].
        * destruct IH as (s2 & -> & W2 & C2). cbn [rbind fst snd]. eauto.
        * rewrite IH. reflexivity.
      + rewrite S. reflexivity.
  Qed.

  Lemma seq_empty_wf : seq_wf (seq_empty T) /\ seq_abs (seq_empty T) = (dflt, []).
  Proof. split; [split; cbn; auto|reflexivity]. Qed.

  (* the repaired guard, at full strength: no position outside 1..#s is ever removed *)
  Theorem seq_remove_guard : forall pos s, seq_wf s ->
    (pos = 0 \/ length (snd (seq_abs s)) < pos) -> seq_remove T pos s = Trap TrapPos.
  Proof.
    intros pos s W H. pose proof (seq_remove_ok pos s W) as P.
    destruct (Nat.eqb_spec pos 0); [exact P|].
    destruct H as [H|H]; [lia|].
    destruct (nth_error (snd (seq_abs s)) (pos - 1)) eqn:E; [|exact P].
    apply nth_error_Some_lt in E. lia.
  Qed.
End SeqProofs.
