(* C12 - hashmap.nelua, part 3: rehash re-establishes the invariant and preserves the bindings (and their order). *)
From Coq Require Import ZArith List Bool Lia Arith.
From C12 Require Import Gen Model ProofsBase ProofsVec ProofsAL ProofsHM1 ProofsHM2 ProofsFM.
Import ListNotations.

Lemma firstn_repeat_le : forall A (x : A) k n, firstn k (repeat x n) = repeat x (Nat.min k n).
Proof. induction k; intros; [reflexivity|]. destruct n; cbn; [reflexivity|]. rewrite IHk. reflexivity. Qed.

Section HM3.
  Variables K V : Type.
  Variable kdflt : K.
  Variable vdflt : V.
  Variable keqb : K -> K -> bool.
  Variable khash : K -> Z.

  Hypothesis keqb_sym : forall a b, keqb a b = keqb b a.
  Hypothesis keqb_trans : forall a b c, keqb a b = true -> keqb b c = true -> keqb a c = true.

  Notation node := (hnode K V).
  Notation hmap := (hmap K V).
  Notation nkey := (nkey K V).
  Notation nval := (nval K V).
  Notation nfilled := (nfilled K V).
  Notation nnext := (nnext K V).
  Notation hbuckets := (hbuckets K V).
  Notation hnodes := (hnodes K V).
  Notation hsize := (hsize K V).
  Notation hfree := (hfree K V).
  Notation Seg := (Seg K V).
  Notation abs_of := (abs_of K V).
  Notation kvf_eq := (kvf_eq K V).
  Notation same_kvf := (same_kvf K V).
  Notation keys_nodup := (keys_nodup K V keqb).
  Notation zero_node := (zero_node K V kdflt vdflt).

  (* distinct filled nodes hold keys that are not == *)
  Definition KU (ns : list node) : Prop :=
    forall i j ni nj, nth_error ns i = Some ni -> nth_error ns j = Some nj ->
      nfilled ni = true -> nfilled nj = true -> keqb (nkey ni) (nkey nj) = true -> i = j.

  Lemma kvf_eq_rev : forall ns ns' i x, kvf_eq ns ns' -> nth_error ns' i = Some x ->
    exists nd, nth_error ns i = Some nd /\ same_kvf nd x.
  Proof.
    intros ns ns' i x [L P] H. pose proof (nth_error_Some_lt _ _ _ _ H).
    destruct (nth_error ns i) eqn:E.
    - destruct (P i h E) as (nd' & H' & S). rewrite H in H'. inversion H'; subst. eauto.
    - apply nth_error_None in E. lia.
  Qed.

  Lemma KU_kvf : forall ns ns', kvf_eq ns ns' -> KU ns -> KU ns'.
  Proof.
    intros ns ns' E U i j xi xj Hi Hj Fi Fj Q.
    destruct (kvf_eq_rev _ _ _ _ E Hi) as (ni & Hni & S1 & S2 & S3).
    destruct (kvf_eq_rev _ _ _ _ E Hj) as (nj & Hnj & T1 & T2 & T3).
    apply (U i j ni nj); try assumption; congruence.
  Qed.

  Lemma in_abs_of : forall ns b, In b (abs_of ns) <->
    exists j nd, nth_error ns j = Some nd /\ nfilled nd = true /\ b = (nkey nd, nval nd).
  Proof.
    intros. unfold Model.abs_of. rewrite in_map_iff. split.
    - intros (nd & <- & H). apply filter_In in H. destruct H as [H1 H2].
      apply In_nth_error in H1. destruct H1 as (j & Hj). eauto.
    - intros (j & nd & Hj & F & ->). exists nd. split; [reflexivity|]. apply filter_In.
      split; [eapply nth_error_In; eauto|assumption].
  Qed.

  Lemma KU_tail : forall a ns, KU (a :: ns) -> KU ns.
  Proof. intros a ns U i j ni nj Hi Hj Fi Fj Q. assert (S i = S j) by (eapply U; eauto). lia. Qed.

  Lemma KU_abs : forall ns, KU ns -> keys_nodup (abs_of ns).
  Proof.
    induction ns as [|a ns IH]; intros U; [constructor|].
    specialize (IH (KU_tail _ _ U)). unfold Model.abs_of in *. cbn [filter].
    destruct (nfilled a) eqn:E; [|assumption]. cbn [map].
    apply keys_nodup_cons. split; [|assumption].
    intros b Hb. apply in_abs_of in Hb. destruct Hb as (j & nd & Hj & F & ->). cbn [fst].
    destruct (keqb (nkey a) (nkey nd)) eqn:Q; [|reflexivity].
    assert (0 = S j) by (eapply (U 0 (S j) a nd); eauto). lia.
  Qed.

  Lemma abs_KU : forall ns, keys_nodup (abs_of ns) -> KU ns.
  Proof.
    assert (forall ns, keys_nodup (abs_of ns) -> forall i j ni nj, i < j ->
              nth_error ns i = Some ni -> nth_error ns j = Some nj ->
              nfilled ni = true -> nfilled nj = true -> keqb (nkey ni) (nkey nj) = true -> False) as A.
    { intros ns ND i j ni nj Hlt Hi Hj Fi Fj Q.
      destruct (nth_error_split _ _ Hi) as (l1 & l2 & -> & Hl).
      rewrite abs_of_app in ND. apply keys_nodup_app in ND. destruct ND as (_ & ND & _).
      change (ni :: l2) with ([ni] ++ l2) in ND. rewrite abs_of_app in ND.
      apply keys_nodup_app in ND. destruct ND as (_ & _ & X).
      rewrite nth_error_app2 in Hj by lia.
      replace (j - length l1) with (S (j - length l1 - 1)) in Hj by lia. cbn in Hj.
      assert (keqb (nkey ni) (nkey nj) = false) as X'.
      { apply (X (nkey ni, nval ni) (nkey nj, nval nj)).
        - unfold Model.abs_of. cbn [filter]. rewrite Fi. left; reflexivity.
        - apply in_abs_of. eauto. }
      congruence. }
    intros ns ND i j ni nj Hi Hj Fi Fj Q.
    destruct (Nat.lt_trichotomy i j) as [H|[H|H]]; [exfalso; eapply A; eauto|assumption|].
    exfalso. eapply (A ns ND j i nj ni); eauto; try (rewrite keqb_sym; assumption).
  Qed.

  (* ---- the whole filling loop *)
  Lemma hm_fill_loop_ok : forall n i m ch,
    0 < length (hbuckets m) -> i + n = length (hnodes m) -> fill_inv K V khash i m ch -> KU (hnodes m) ->
    exists m' ch', hm_fill_loop K V keqb khash n i m = Ok m' /\ fill_inv K V khash (length (hnodes m)) m' ch' /\
      length (hbuckets m') = length (hbuckets m) /\ hsize m' = hsize m /\ hfree m' = hfree m /\
      kvf_eq (hnodes m) (hnodes m') /\
      (forall j nd, nth_error (hnodes m) j = Some nd -> nfilled nd = false -> nth_error (hnodes m') j = Some nd).
  Proof.
    induction n; intros i m ch HB Hn FI U; cbn [hm_fill_loop].
    - exists m, ch. replace (length (hnodes m)) with i by lia.
      split; [reflexivity|]. split; [assumption|]. split; [reflexivity|]. split; [reflexivity|]. split; [reflexivity|].
      split; [apply kvf_eq_refl|auto].
    - destruct (hm_link_ok K V keqb khash i m ch HB FI U ltac:(lia)) as (m1 & ch1 & -> & FI1 & LB & SZ & FR & KV & UN).
      cbn [rbind].
      assert (length (hnodes m1) = length (hnodes m)) as LN by (destruct KV; lia).
      destruct (IHn (S i) m1 ch1 ltac:(lia) ltac:(lia) FI1 (KU_kvf _ _ KV U)) as (m2 & ch2 & -> & FI2 & LB2 & SZ2 & FR2 & KV2 & UN2).
      exists m2, ch2. rewrite LN in FI2.
      split; [reflexivity|]. split; [assumption|]. split; [congruence|]. split; [congruence|]. split; [congruence|].
      split; [eapply kvf_eq_trans; eauto|].
      intros j nd Hj Fj. apply UN2; [apply UN; assumption|assumption].
  Qed.

  (* ---- shrinking: compaction followed by realloc keeps exactly the filled nodes, in order *)
  Lemma abs_of_repeat_zero : forall n, abs_of (repeat zero_node n) = [].
  Proof. intros. apply abs_of_unfilled. intros nd H. apply repeat_spec in H. subst. reflexivity. Qed.

  Lemma abs_of_filter : forall ns, abs_of (filter nfilled ns) = abs_of ns.
  Proof. intros. unfold Model.abs_of. rewrite filter_filter_id. reflexivity. Qed.

  Lemma filled_len_abs : forall ns, length (filter nfilled ns) = length (abs_of ns).
  Proof. intros. unfold Model.abs_of. rewrite map_length. reflexivity. Qed.

  (* ---- the in-place compaction loop computes the stable compaction *)
  Lemma cmp_move_rif : forall n i j ns,
    cmp_move K V n i j ns = vec_rif_loop node (fun e => negb (nfilled e)) n i j ns.
  Proof.
    induction n; intros; cbn [cmp_move vec_rif_loop]; [reflexivity|].
    destruct (sget i ns); cbn [rbind]; [|reflexivity].
    destruct (nfilled a); cbn [negb]; [|apply IHn].
    destruct (sset j a ns); cbn [rbind]; [apply IHn|reflexivity].
  Qed.

  Lemma cmp_skip_spec : forall rest j,
    j <= cmp_skip K V rest j /\ cmp_skip K V rest j - j <= length rest /\
    filter nfilled (firstn (cmp_skip K V rest j - j) rest) = firstn (cmp_skip K V rest j - j) rest.
  Proof.
    induction rest as [|a rest IH]; intros j; cbn [cmp_skip].
    - rewrite Nat.sub_diag. cbn. split; [lia|split; [lia|reflexivity]].
    - destruct (nfilled a) eqn:E.
      + destruct (IH (S j)) as (A & B & C). split; [lia|]. split; [cbn [length]; lia|].
        replace (cmp_skip K V rest (S j) - j) with (S (cmp_skip K V rest (S j) - S j)) by lia.
        cbn [firstn filter]. rewrite E, C. reflexivity.
      + rewrite Nat.sub_diag. cbn. split; [lia|split; [lia|reflexivity]].
  Qed.

  Lemma filter_negb_negb : forall (l : list node), filter (fun e => negb (negb (nfilled e))) l = filter nfilled l.
  Proof. intros. apply filter_ext. intros a. apply negb_involutive. Qed.

  Lemma hm_compact_loop_ok : forall ns,
    hm_compact_loop K V kdflt vdflt ns = Ok (hm_compact K V kdflt vdflt ns, length (filter nfilled ns)).
  Proof.
    intros ns. unfold hm_compact_loop.
    destruct (cmp_skip_spec ns 0) as (_ & B & C). rewrite Nat.sub_0_r in B, C.
    set (j0 := cmp_skip K V ns 0) in *.
    rewrite cmp_move_rif.
    destruct (vec_rif_ok node (fun e => negb (nfilled e)) (length ns - j0) j0 j0 ns ltac:(lia) ltac:(lia)) as (d' & -> & L & F).
    cbn [rbind fst snd]. rewrite filter_negb_negb in *.
    assert (firstn (length ns - j0) (skipn j0 ns) = skipn j0 ns) as E by (apply firstn_all2; rewrite skipn_length; lia).
    rewrite E in *.
    assert (filter nfilled ns = firstn j0 ns ++ filter nfilled (skipn j0 ns)) as EN.
    { rewrite <- C, <- filter_app, firstn_skipn. reflexivity. }
    assert (j0 + length (filter nfilled (skipn j0 ns)) = length (filter nfilled ns)) as EJ.
    { rewrite EN, app_length, firstn_length. lia. }
    rewrite EJ in *.
    assert (firstn (length (filter nfilled ns)) d' = filter nfilled ns) as EF.
    { rewrite F. symmetry. exact EN. }
    pose proof (filter_len_le node nfilled ns) as LE.
    rewrite sfill_ok by (rewrite L; lia). cbn [rbind]. f_equal. f_equal.
    unfold hm_compact, overwrite. rewrite EF, repeat_length.
    rewrite skipn_all2 by (rewrite L; lia). rewrite app_nil_r. reflexivity.
  Qed.

  Lemma rehash_nodes2 : forall ns sz nc,
    sz = length (filter nfilled ns) -> (sz < nc \/ (nc = 0 /\ sz = 0)) ->
    let n0 := length ns in
    let nodes1 := if (nc <? n0) && (0 <? n0) && (0 <? nc) then hm_compact K V kdflt vdflt ns else ns in
    let nodes2 := srealloc zero_node nc nodes1 in
    abs_of nodes2 = abs_of ns /\ length nodes2 = nc /\
    (n0 <= nc -> forall i nd, nth_error ns i = Some nd -> nth_error nodes2 i = Some nd).
  Proof.
    intros ns sz nc Hsz Hnc n0 nodes1 nodes2.
    split; [|split; [apply length_srealloc|]].
    - subst nodes2 nodes1. destruct ((nc <? n0) && (0 <? n0) && (0 <? nc)) eqn:C.
      + apply andb_true_iff in C. destruct C as [C C3]. apply andb_true_iff in C. destruct C as [C1 C2].
        apply Nat.ltb_lt in C1, C2, C3. destruct Hnc as [Hnc|[? ?]]; [|lia].
        unfold hm_compact, srealloc. fold n0.
        set (F := filter nfilled ns) in *.
        assert (length F <= n0) by (apply filter_len_le).
        rewrite app_length, repeat_length.
        replace (nc - (length F + (n0 - length F))) with 0 by lia. cbn [repeat]. rewrite app_nil_r.
        rewrite firstn_app, (firstn_all2 F) by lia.
        rewrite abs_of_app. rewrite firstn_repeat_le.
        rewrite abs_of_repeat_zero, app_nil_r. apply abs_of_filter.
      + apply andb_false_iff in C.
        assert (n0 <= nc \/ (nc = 0 /\ 0 < n0)) as [Hc|[Hc1 Hc2]].
        { destruct C as [C|C]; [apply andb_false_iff in C; destruct C as [C|C]|]; apply Nat.ltb_ge in C; lia. }
        * rewrite srealloc_grow by assumption. rewrite abs_of_app, abs_of_repeat_zero, app_nil_r. reflexivity.
        * subst nc. unfold srealloc. cbn. destruct Hnc as [?|[_ Hz]]; [lia|].
          rewrite Hz in Hsz. symmetry in Hsz. rewrite filled_len_abs in Hsz. apply length_zero_iff_nil in Hsz.
          rewrite Hsz. reflexivity.
    - intros Hle i nd Hi. subst nodes2 nodes1.
      destruct (Nat.ltb_spec nc n0); [lia|]. cbn [andb].
      rewrite nthe_srealloc. pose proof (nth_error_Some_lt _ _ _ _ Hi). fold n0 in H0.
      destruct (Nat.ltb_spec i nc); [|lia]. destruct (Nat.ltb_spec i (length ns)); [assumption|lia].
  Qed.

  Lemma nth_repeat_none : forall n b, b < n -> nth_error (repeat (@None nat) n) b = Some None.
  Proof. intros. rewrite nthe_repeat. destruct (Nat.ltb_spec b n); [reflexivity|lia]. Qed.

  (* ---- rehash *)
  Definition positional (ns ns' : list node) : Prop :=
    forall i nd, nth_error ns i = Some nd -> nfilled nd = true ->
      exists nd', nth_error ns' i = Some nd' /\ same_kvf nd nd'.

  Lemma hm_rehash_ok : forall bcount m, KU (hnodes m) -> hsize m = length (filter nfilled (hnodes m)) ->
    (hm_rehash K V kdflt vdflt keqb khash bcount m = Trap TrapOverflow /\
     (2 ^ 62 < Z.of_nat (Nat.max bcount (ceilidiv (hsize m * 100) HM_MAXLF_n)))%Z /\
     fm_rehash K V kdflt vdflt bcount (canon K V m) = Trap TrapOverflow) \/
    exists m', hm_rehash K V kdflt vdflt keqb khash bcount m = Ok m' /\ hm_inv K V keqb khash m' /\
      hm_abs K V m' = hm_abs K V m /\ hsize m' = hsize m /\ bcount <= length (hbuckets m') /\
      (0 < hsize m -> 0 < length (hbuckets m')) /\
      (length (hnodes m) <= length (hnodes m') -> positional (hnodes m) (hnodes m')) /\
      hm_rehash_sizes K V bcount m = Some (length (hbuckets m'), length (hnodes m')) /\
      fm_rehash K V kdflt vdflt bcount (canon K V m) = Ok (canon K V m').
  Proof.
    intros bcount m U0 Hsize. unfold hm_rehash.
    pose proof hm_maxlf_pos as LFpos.
    set (minb := ceilidiv (hsize m * 100) HM_MAXLF_n).
    set (bc0 := if bcount <? minb then minb else bcount).
    destruct (Z.ltb_spec (roundpow2 (Z.of_nat bc0)) (Z.of_nat bc0)) as [Hov|Hrp].
    { left. split; [reflexivity|]. split;
        [|unfold fm_rehash; cbn [canon Model.hsize]; fold minb; fold bc0;
          destruct (Z.ltb_spec (roundpow2 (Z.of_nat bc0)) (Z.of_nat bc0)); [reflexivity|lia]].
      assert (bc0 = Nat.max bcount minb) as -> by (unfold bc0; destruct (Nat.ltb_spec bcount minb); lia).
      destruct (Z_lt_le_dec (2 ^ 62) (Z.of_nat (Nat.max bcount minb))) as [|Hsm]; [assumption|].
      pose proof (roundpow2_ge (Z.of_nat (Nat.max bcount minb)) ltac:(lia)). lia. }
    right.
    set (bc := Z.to_nat (roundpow2 (Z.of_nat bc0))).
    assert (bc0 <= bc) as Hbc by (unfold bc; lia).
    assert (minb <= bc0 /\ bcount <= bc0) as [Hmin Hcnt] by (unfold bc0; destruct (Nat.ltb_spec bcount minb); lia).
    set (nc0 := ceilidiv (bc * HM_MAXLF_n) 100).
    set (nc := if (0 <? bc) && (nc0 <=? hsize m) then hsize m + 1 else nc0).
    pose proof (ceilidiv_ge (hsize m * 100) HM_MAXLF_n LFpos) as Hminb. fold minb in Hminb.
    pose proof (ceilidiv_ge (bc * HM_MAXLF_n) 100 ltac:(lia)) as Hnc0. fold nc0 in Hnc0.
    assert (hsize m <= nc0) as Hsz0 by nia.
    assert (nc0 <= nc /\ nc <= nc0 + 1 /\ (0 < bc -> hsize m < nc) /\ (bc = 0 -> nc = 0 /\ hsize m = 0)) as (Hn1 & Hn2 & Hn3 & Hn4).
    { unfold nc. destruct (Nat.ltb_spec 0 bc); cbn [andb].
      - destruct (Nat.leb_spec nc0 (hsize m)); repeat split; try lia.
      - assert (bc = 0) by lia. assert (nc0 = 0) by (unfold nc0; rewrite H0; rewrite Nat.mul_0_l; apply ceilidiv_0; lia).
        repeat split; try lia. }
    assert (hsize m < nc \/ (nc = 0 /\ hsize m = 0)) as Hcase by (destruct (Nat.eq_dec bc 0); [right; apply Hn4; assumption|left; apply Hn3; lia]).
    pose proof (rehash_nodes2 (hnodes m) (hsize m) nc Hsize Hcase) as R2. cbn zeta in R2.
    set (nodes1 := if (nc <? length (hnodes m)) && (0 <? length (hnodes m)) && (0 <? nc)
                   then hm_compact K V kdflt vdflt (hnodes m) else hnodes m) in *.
    assert ((if (nc <? length (hnodes m)) && (0 <? length (hnodes m)) && (0 <? nc)
             then (r <- hm_compact_loop K V kdflt vdflt (hnodes m) ;; if snd r =? hsize m then Ok (fst r) else Trap TrapCompact)
             else Ok (hnodes m)) = Ok nodes1) as ->.
    { unfold nodes1. destruct ((nc <? length (hnodes m)) && (0 <? length (hnodes m)) && (0 <? nc)); [|reflexivity].
      rewrite hm_compact_loop_ok. cbn [rbind fst snd]. rewrite <- Hsize, Nat.eqb_refl. reflexivity. }
    cbn [rbind].
    set (nodes2 := srealloc zero_node nc nodes1) in *.
    destruct R2 as (Habs2 & Hlen2 & Hpos2).
    pose proof (relink_free_spec K V nodes2 0) as RL. cbn zeta in RL.
    pose proof (relink_canon_out K V nodes2 0) as RCO.
    destruct (relink_free K V nodes2 0) as [nodes3 fr] eqn:ERL. cbn [fst snd] in RL, RCO.
    destruct RL as (L3 & P3 & S3). specialize (S3 [] eq_refl). cbn [app] in S3.
    assert (kvf_eq nodes2 nodes3) as KV23.
    { split; [lia|]. intros i nd H. destruct (P3 i nd H) as (nd' & A & B & _). eauto. }
    assert (KU nodes2) as U2.
    { apply abs_KU. rewrite Habs2. apply KU_abs. assumption. }
    assert (KU nodes3) as U3 by (eapply KU_kvf; eauto).
    set (m0 := mkhm K V (repeat None bc) nodes3 (hsize m) fr).
    assert (fill_inv K V khash 0 m0 (fun _ => [])) as FI0.
    { constructor; unfold m0; cbn [Model.hbuckets Model.hnodes]; rewrite ?repeat_length.
      - intros b Hb. exists None. split; [apply nth_repeat_none; assumption|constructor].
      - intros; constructor.
      - intros b j _ [].
      - intros; lia.
      - intros j nd _ Hj Fj. destruct (kvf_eq_rev _ _ _ _ KV23 Hj) as (nd2 & H2 & S1 & S2 & S3').
        destruct (P3 j nd2 H2) as (nd' & A & _ & Bn). rewrite Hj in A. inversion A; subst nd'. apply Bn. congruence. }
    assert (exists m' ch', hm_fill_loop K V keqb khash (length nodes3) 0 m0 = Ok m' /\
              fill_inv K V khash (length nodes3) m' ch' /\
              length (hbuckets m') = bc /\ hsize m' = hsize m /\ hfree m' = fr /\ kvf_eq nodes3 (hnodes m') /\
              (forall j nd, nth_error nodes3 j = Some nd -> nfilled nd = false -> nth_error (hnodes m') j = Some nd))
      as (m' & ch' & HL & FI' & LB' & SZ' & FR' & KV' & UN').
    { destruct (Nat.eq_dec bc 0) as [Ez|Ez].
      - destruct (Hn4 Ez) as [Hz _]. assert (nodes3 = []) as E3 by (apply length_zero_iff_nil; lia).
        exists m0, (fun _ => []). subst nodes3. cbn [length hm_fill_loop]. split; [reflexivity|].
        split; [exact FI0|]. unfold m0. cbn [Model.hbuckets Model.hnodes Model.hsize Model.hfree]. rewrite repeat_length.
        split; [reflexivity|]. split; [reflexivity|]. split; [reflexivity|]. split; [apply kvf_eq_refl|].
        intros i nd H. rewrite nthe_nil in H. discriminate.
      - destruct (hm_fill_loop_ok (length nodes3) 0 m0 (fun _ => [])) as (m' & ch' & A1 & A2 & A3 & A4 & A5 & A6 & A7).
        + unfold m0. cbn [Model.hbuckets]. rewrite repeat_length. lia.
        + reflexivity.
        + exact FI0.
        + exact U3.
        + unfold m0 in *. cbn [Model.hbuckets Model.hnodes Model.hsize Model.hfree] in *. rewrite repeat_length in *.
          exists m', ch'. split; [exact A1|]. split; [exact A2|]. split; [exact A3|]. split; [exact A4|].
          split; [exact A5|]. split; [exact A6|exact A7]. }
    rewrite HL. exists m'.
    assert (length (hnodes m') = nc) as LN' by (destruct KV'; lia).
    assert (kvf_eq nodes2 (hnodes m')) as KV2' by (eapply kvf_eq_trans; eauto).
    split; [reflexivity|].
    assert (hm_abs K V m' = hm_abs K V m) as HABS.
    { unfold Model.hm_abs. rewrite <- (kvf_eq_abs K V _ _ KV2'). exact Habs2. }
    split; [|split; [exact HABS|split; [exact SZ'|split; [lia|split]]]].
    - (* the invariant *)
      exists ch', (unfilled_idx K V nodes2 0).
      constructor; rewrite ?LB', ?LN', ?SZ', ?FR'.
      + intros b Hb. apply (fi_ch _ _ _ _ _ _ FI'). rewrite LB'. assumption.
      + eapply Seg_frame; [exact S3|]. intros i nd Hi Hn.
        apply unfilled_idx_spec in Hi. destruct Hi as (nd2 & _ & H2 & F2). rewrite Nat.sub_0_r in H2.
        destruct (P3 i nd2 H2) as (nd' & A & (S1 & S2 & S3') & _). rewrite Hn in A. inversion A; subst nd'.
        exists nd. split; [|reflexivity]. apply UN'; [assumption|congruence].
      + intros b Hb. apply (fi_nd _ _ _ _ _ _ FI'). rewrite LB'. assumption.
      + apply unfilled_idx_nodup.
      + intros i nd Hi. destruct (kvf_eq_rev _ _ _ _ KV2' Hi) as (nd2 & H2 & S1 & S2 & S3').
        destruct (nfilled nd) eqn:F.
        * exists (bucket_of K V khash bc nd). split.
          { apply hashmod_lt. destruct (Nat.eq_dec bc 0) as [Ez|]; [|lia].
            destruct (Hn4 Ez). pose proof (nth_error_Some_lt _ _ _ _ Hi). lia. }
          { pose proof (fi_cov _ _ _ _ _ _ FI' i nd) as C. rewrite LB' in C. apply C; try assumption.
            apply nth_error_Some_lt in H2. lia. }
        * apply unfilled_idx_spec. exists nd2. rewrite Nat.sub_0_r. split; [lia|]. split; [assumption|congruence].
      + intros b i nd Hb Hi Hn. pose proof (fi_in _ _ _ _ _ _ FI' b i) as C. rewrite LB' in C.
        destruct (C Hb Hi) as (_ & x & Hx & Fx & Bx). rewrite Hn in Hx. inversion Hx; subst x. auto.
      + intros i nd Hi Hn. apply unfilled_idx_spec in Hi. destruct Hi as (nd2 & _ & H2 & F2). rewrite Nat.sub_0_r in H2.
        destruct (proj2 KV2' i nd2 H2) as (x & Hx & S1 & S2 & S3'). rewrite Hn in Hx. inversion Hx; subst x. congruence.
      + exact (KU_kvf _ _ KV2' U2).
      + rewrite <- (kvf_eq_filled_len K V _ _ KV2'). rewrite filled_len_abs, Habs2, <- filled_len_abs. exact Hsize.
      + intros Ez. apply length_zero_iff_nil. destruct (Hn4 Ez). lia.
      + unfold Model.MAXLF. lia.
      + unfold Model.MAXLF. fold nc0. lia.
      + intros Hb. apply Hn3. assumption.
    - intros Hpos. destruct (Nat.eq_dec bc 0) as [Ez|]; [|lia]. destruct (Hn4 Ez). lia.
    - split; [|split].
      + intros Hle i nd Hi Fi. rewrite LN' in Hle.
        pose proof (Hpos2 Hle i nd Hi) as H2. destruct (proj2 KV2' i nd H2) as (x & Hx & Sx). eauto.
      + unfold hm_rehash_sizes. fold minb. fold bc0.
        destruct (Z.ltb_spec (roundpow2 (Z.of_nat bc0)) (Z.of_nat bc0)); [lia|]. fold bc. fold nc0. fold nc.
        rewrite LB', LN'. reflexivity.
      + unfold fm_rehash. cbn [canon Model.hsize Model.hnodes]. rewrite map_length. fold minb. fold bc0.
        destruct (Z.ltb_spec (roundpow2 (Z.of_nat bc0)) (Z.of_nat bc0)); [lia|]. fold bc. fold nc0. fold nc.
        assert ((if (nc <? length (hnodes m)) && (0 <? length (hnodes m)) && (0 <? nc)
                 then hm_compact K V kdflt vdflt (map (canon_node K V) (hnodes m)) else map (canon_node K V) (hnodes m))
                = map (canon_node K V) nodes1) as ->.
        { unfold nodes1. destruct ((nc <? length (hnodes m)) && (0 <? length (hnodes m)) && (0 <? nc));
            [apply compact_canon|reflexivity]. }
        rewrite srealloc_map by reflexivity. fold nodes2. rewrite relink_canon_in, ERL.
        unfold canon. rewrite LB', SZ', FR'. do 2 f_equal.
        rewrite <- RCO. apply canon_nodes_eq; assumption.
  Qed.
End HM3.
