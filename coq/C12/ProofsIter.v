(* C12 - iterators.nelua: a `for` driven by ipairs / pairs / next visits exactly the elements (bindings) of the
   container, in the order of the abstract container; the references handed out by mipairs / mpairs alias the
   stored elements, so updating through them is the element-wise update. *)
From Coq Require Import ZArith List Bool Lia Arith Permutation.
From C12 Require Import Gen Model ProofsBase ProofsVec ProofsSeq ProofsAL ProofsHM1 ProofsHM2 ProofsFM ProofsHM3 ProofsHM4 ProofsHM5 ProofsSB ProofsDL.
Import ListNotations.

Lemma skipn_nth_cons : forall A (l : list A) k x, nth_error l k = Some x -> skipn k l = x :: skipn (S k) l.
Proof.
  induction l as [|a l IH]; intros [|k] x H; cbn in *; try discriminate; [inversion H; reflexivity|]. apply IH. assumption.
Qed.

Lemma for_in_S : forall St C E f nxt s c, for_in St C E (S f) nxt s c =
  (r <- nxt s c ;; match snd r with
                   | None => Ok (fst r, [])
                   | Some (c', e) => q <- for_in St C E f nxt (fst r) c' ;; Ok (fst q, (c', e) :: snd q)
                   end).
Proof. reflexivity. Qed.
Lemma for_do_S : forall St C E f nxt body s c, for_do St C E (S f) nxt body s c =
  (r <- nxt s c ;; match snd r with
                   | None => Ok (fst r)
                   | Some (c', e) => s' <- body c' e (fst r) ;; for_do St C E f nxt body s' c'
                   end).
Proof. reflexivity. Qed.

(* the scraped stepping of impl_ipairs_next: step 1, stop at k >= bound, offsets 1 / 0, initial controls 0 / -1; a
   different policy in iterators.nelua stops these proofs (and the driver's yielded-pairs comparison) *)
Lemma ip_policy : IP_STEP = 1%Z /\ (forall b k, ip_stop b k = (b <=? k)%Z) /\ Z.to_nat IP_OFF_ZERO = 0 /\ Z.to_nat IP_OFF_ONE = 1 /\
  IP_INIT_ZERO = (-1)%Z /\ IP_INIT_ONE = 0%Z.
Proof. repeat split. Qed.
Ltac ip_norm := change IP_STEP with 1%Z in *; change (Z.to_nat IP_OFF_ZERO) with 0 in *; change (Z.to_nat IP_OFF_ONE) with 1 in *;
  change IP_INIT_ZERO with (-1)%Z in *; change IP_INIT_ONE with 0%Z in *;
  repeat match goal with |- context [ip_stop ?b ?k] => change (ip_stop b k) with (b <=? k)%Z end.

(* ---- the index-stepping loop over a container whose element access leaves it unchanged *)
Lemma for_in_ip : forall St E one (len : St -> nat) (at_ : nat -> St -> res (St * E)) s (l : list E),
  len s = length l ->
  (forall i x, nth_error l i = Some x -> at_ (i + one) s = Ok (s, x)) ->
  forall d k, d = length l - k -> k <= length l ->
  for_in St Z E (S d) (ip_next St E one len at_) s (Z.of_nat (k + one) - 1)%Z =
    Ok (s, combine (map (fun i => Z.of_nat (i + one)) (List.seq k d)) (skipn k l)).
Proof.
  intros St E one len at_ s l Hlen Hat. induction d as [|d IH]; intros k Hd Hk; rewrite for_in_S; unfold ip_next at 1; ip_norm.
  - replace (Z.of_nat (k + one) - 1 + 1)%Z with (Z.of_nat (k + one)) by lia.
    destruct (Z.leb_spec (Z.of_nat (len s + one)) (Z.of_nat (k + one))); [|lia]. reflexivity.
  - replace (Z.of_nat (k + one) - 1 + 1)%Z with (Z.of_nat (k + one)) by lia.
    destruct (Z.leb_spec (Z.of_nat (len s + one)) (Z.of_nat (k + one))); [lia|].
    rewrite Nat2Z.id. destruct (nth_error l k) as [x|] eqn:Ek; [|apply nth_error_None in Ek; lia].
    rewrite (Hat k x Ek). cbn [rbind fst snd].
    replace (Z.of_nat (k + one)) with (Z.of_nat (S k + one) - 1)%Z at 1 by lia.
    rewrite (IH (S k)) by lia. cbn [rbind fst snd List.seq map]. rewrite (skipn_nth_cons _ l k x Ek). cbn [combine].
    reflexivity.
Qed.

Section Iter.
  Variable T : Type.
  Variable dflt : T.
  Variable teqb : T -> T -> bool.

  (* ---- vector *)
  Theorem vec_ipairs_ok : forall v, vec_wf T v ->
    vec_ipairs T v = Ok (v, combine (map Z.of_nat (List.seq 0 (vec_len T v))) (vec_contents T v)).
  Proof.
    intros v W. unfold vec_ipairs, vec_ipairs_next. ip_norm.
    pose proof (contents_length T v W) as L. change (vec_len T v) with (vsize T v).
    pose proof (for_in_ip (vec T) T 0 (vec_len T) (vec_get T) v (vec_contents T v)) as G.
    rewrite L in G. specialize (G eq_refl).
    assert (forall i x, nth_error (vec_contents T v) i = Some x -> vec_get T (i + 0) v = Ok (v, x)) as A.
    { intros i x H. rewrite Nat.add_0_r. unfold vec_get. pose proof (vec_at_ok T i v W) as X. rewrite H in X. rewrite X. reflexivity. }
    specialize (G A (vsize T v) 0 ltac:(lia) ltac:(lia)). cbn [Nat.add Z.of_nat Z.sub Z.opp Z.add] in G.
    change (Z.pos_sub 1 1) with 0%Z in G. rewrite G. cbn [skipn]. do 3 f_equal. apply map_ext. intros. f_equal. lia.
  Qed.

  (* a reference &v[i] handed out by mipairs / mnext is the stored element: reading it is v[i], writing it is v[i] = x *)
  Theorem vec_ref_alias : forall i v r v', vec_ref T i v = Ok (v', r) ->
    v' = v /\ vec_ref_read T r v = vec_at T i v /\ forall x, vec_ref_write T r x v = vec_assign T i x v.
  Proof.
    intros i v r v' H. unfold vec_ref in H. destruct (Nat.leb_spec (vsize T v) i); [discriminate|]. inversion H; subst.
    unfold vec_ref_read, vec_ref_write, vec_at, vec_assign. destruct (Nat.leb_spec (vsize T v') r); [lia|]. auto.
  Qed.

  Lemma vec_mipairs_loop : forall f d0 n d k data, n <= length d0 -> d = n - k -> k <= n ->
    data = map f (firstn k d0) ++ skipn k d0 ->
    for_do (vec T) Z nat (S d) (vec_mipairs_next T)
      (fun _ r v => x <- vec_ref_read T r v ;; vec_ref_write T r (f x) v) (mkvec T data n) (Z.of_nat k - 1)%Z =
    Ok (mkvec T (map f (firstn n d0) ++ skipn n d0) n).
  Proof.
    intros f d0 n. induction d as [|d IH]; intros k data Hn Hd Hk Hdata; rewrite for_do_S; unfold vec_mipairs_next, ip_next at 1; ip_norm;
      unfold vec_len; cbn [vsize]; replace (Z.of_nat k - 1 + 1)%Z with (Z.of_nat k) by lia; rewrite Nat.add_0_r.
    - destruct (Z.leb_spec (Z.of_nat n) (Z.of_nat k)); [|lia]. cbn [rbind fst snd]. assert (k = n) by lia. subst. reflexivity.
    - destruct (Z.leb_spec (Z.of_nat n) (Z.of_nat k)); [lia|]. rewrite Nat2Z.id. unfold vec_ref; cbn [vsize].
      destruct (Nat.leb_spec n k); [lia|]. cbn [rbind fst snd]. unfold vec_ref_read, vec_ref_write; cbn [vdata vsize].
      assert (length data = length d0) as Ld.
      { subst data. rewrite app_length, map_length, firstn_length, skipn_length. lia. }
      destruct (nth_error d0 k) as [x|] eqn:E; [|apply nth_error_None in E; lia].
      assert (nth_error data k = Some x) as Ek.
      { subst data. rewrite nthe_app, map_length, firstn_length. destruct (Nat.ltb_spec k (Nat.min k (length d0))); [lia|].
        rewrite nthe_skipn. replace (k + (k - Nat.min k (length d0))) with k by lia. assumption. }
      rewrite (sget_Some _ _ _ _ Ek). cbn [rbind]. rewrite sset_ok by lia. cbn [rbind].
      replace (Z.of_nat k) with (Z.of_nat (S k) - 1)%Z by lia. apply IH; try lia.
      subst data. apply nth_error_ext; intro j.
      rewrite nthe_upd1 by (rewrite app_length, map_length, firstn_length, skipn_length; lia).
      rewrite !nthe_app, !map_length, !firstn_length, !nthe_skipn.
      replace (Nat.min k (length d0)) with k by lia. replace (Nat.min (S k) (length d0)) with (S k) by lia.
      rewrite !nth_error_map, !nthe_firstn.
      destruct (Nat.eqb_spec j k).
      + subst j. destruct (Nat.ltb_spec k (S k)); [|lia]. rewrite E. reflexivity.
      + destruct (Nat.ltb_spec j k); destruct (Nat.ltb_spec j (S k)); try lia; [reflexivity|].
        f_equal. lia.
  Qed.

  Theorem vec_mipairs_map_ok : forall f v, vec_wf T v ->
    exists v', vec_mipairs_map T f v = Ok v' /\ vec_wf T v' /\ vec_contents T v' = map f (vec_contents T v) /\
               vec_cap T v' = vec_cap T v.
  Proof.
    intros f [d0 n] W. unfold Model.vec_wf in W; cbn [vsize vdata] in W. unfold vec_mipairs_map, vec_len; cbn [vsize]. ip_norm.
    change (-1)%Z with (Z.of_nat 0 - 1)%Z.
    rewrite (vec_mipairs_loop f d0 n n 0 d0 W ltac:(lia) ltac:(lia) eq_refl).
    eexists. split; [reflexivity|]. split; [|split].
    - unfold Model.vec_wf; cbn [vsize vdata]. rewrite app_length, map_length, firstn_length, skipn_length. lia.
    - unfold vec_contents; cbn [vsize vdata]. rewrite firstn_app, map_length, firstn_length.
      replace (n - Nat.min n (length d0)) with 0 by lia. cbn [firstn]. rewrite app_nil_r.
      rewrite firstn_all2 by (rewrite map_length, firstn_length; lia). reflexivity.
    - unfold vec_cap; cbn [vdata]. rewrite app_length, map_length, firstn_length, skipn_length. lia.
  Qed.

  (* ---- span (fat pointer over a fixed storage) *)
  Theorem span_ipairs_ok : forall (mem : list T) w, sp_wf mem w ->
    span_ipairs T mem w = Ok (w, combine (map Z.of_nat (List.seq 0 (sp_size w))) (sp_view T mem w)).
  Proof.
    intros mem w W. unfold span_ipairs, span_ipairs_next. ip_norm.
    pose proof (sp_view_len T mem w W) as L.
    pose proof (for_in_ip spanw T 0 sp_size (fun i w0 => x <- spw_at T i mem w0 ;; Ok (w0, x)) w (sp_view T mem w)) as G.
    rewrite L in G. specialize (G eq_refl).
    assert (forall i x, nth_error (sp_view T mem w) i = Some x -> (x0 <- spw_at T (i + 0) mem w ;; Ok (w, x0)) = Ok (w, x)) as A.
    { intros i x H. rewrite Nat.add_0_r, (span_window_at T mem w i W). unfold span_at. rewrite H. reflexivity. }
    specialize (G A (sp_size w) 0 ltac:(lia) ltac:(lia)). cbn [Nat.add Z.of_nat Z.sub Z.opp Z.add] in G.
    change (Z.pos_sub 1 1) with 0%Z in G. rewrite G. cbn [skipn]. do 3 f_equal. apply map_ext. intros. f_equal. lia.
  Qed.

  (* ---- sequence: pairs(s) steps the indices 1..#s through sequence.__atindex, which leaves an initialised
     sequence as it is for those indices *)
  Lemma seq_get_inrange : forall s i x, seq_wf T s -> nth_error (seq_contents T s) i = Some x ->
    seq_get T dflt (i + 1) s = Ok (s, x).
  Proof.
    intros [b d n] i x (W1 & W2) H. unfold seq_contents, seq_len in H; cbn [sinit sdata ssize] in *.
    destruct b.
    2:{ rewrite nthe_firstn in H. destruct (Nat.ltb_spec i 0); [lia|discriminate]. }
    rewrite nthe_firstn, nthe_skipn in H. destruct (Nat.ltb_spec i n); [|discriminate].
    unfold seq_get, seq_atindex, seq_init, seq_capn; cbn [sinit sdata ssize].
    destruct (Nat.ltb_spec n (i + 1)); [lia|].
    destruct W2 as [[-> ->]|W2]; [lia|].
    destruct (Nat.eqb_spec (length d) 0); [lia|]. cbn [andb rbind sdata].
    replace (i + 1) with (1 + i) by lia. rewrite (sget_Some _ _ _ _ H). reflexivity.
  Qed.

  Theorem seq_pairs_ok : forall s, seq_wf T s ->
    seq_pairs T dflt s = Ok (s, combine (map (fun i => Z.of_nat (i + 1)) (List.seq 0 (seq_len T s))) (seq_contents T s)).
  Proof.
    intros s W. unfold seq_pairs, seq_ipairs_next. ip_norm.
    assert (length (seq_contents T s) = seq_len T s) as L.
    { rewrite (seq_contents_eq T dflt s W), (seq_len_eq T dflt s W). reflexivity. }
    pose proof (for_in_ip (seq T) T 1 (seq_len T) (seq_get T dflt) s (seq_contents T s)) as G.
    rewrite L in G. specialize (G eq_refl (fun i x H => seq_get_inrange s i x W H) (seq_len T s) 0 ltac:(lia) ltac:(lia)).
    change (Z.of_nat (0 + 1) - 1)%Z with 0%Z in G. rewrite G. reflexivity.
  Qed.

  (* ---- list: pairs(l) = listT.__next from nilptr visits the nodes front to back *)
  Notation dl_wf := (dl_wf T).
  Notation vals := (vals T dflt).
  Definition ctl_at (idx : list nat) (p : nat) : option nat := match p with 0 => None | S q => nth_error idx q end.

  Lemma dl_next_node_ok : forall d idx p, dl_wf d idx -> p <= length idx ->
    dl_next_node T (ctl_at idx p) d = Ok (nth_error idx p).
  Proof.
    intros d idx p (ND & F & B & N) Hp. destruct p as [|q]; cbn [ctl_at dl_next_node]; [rewrite F; reflexivity|].
    destruct (nth_error idx q) as [i|] eqn:E; [|apply nth_error_None in E; lia].
    destruct (N q i E) as (nd & Hn & Al & _ & Nx). cbn [dl_next_node]. rewrite (lget_alive T _ _ _ Hn Al). cbn [rbind]. rewrite Nx. reflexivity.
  Qed.

  Lemma dl_pairs_loop : forall d idx, dl_wf d idx -> forall rem p fuel, rem = length idx - p -> p <= length idx -> rem < fuel ->
    for_in (dlist T) (option nat) T fuel (dl_next T) d (ctl_at idx p) =
      Ok (d, combine (map Some (skipn p idx)) (vals (larena T d) (skipn p idx))).
  Proof.
    intros d idx W0. pose proof W0 as W. induction rem as [|rem IH]; intros p fuel Hr Hp Hf; (destruct fuel as [|fuel]; [lia|]); rewrite for_in_S;
      unfold dl_next at 1; rewrite (dl_next_node_ok d idx p W Hp); cbn [rbind].
    - rewrite (nthe_beyond _ idx p) by lia. cbn [fst snd]. rewrite skipn_all2 by lia. reflexivity.
    - destruct (nth_error idx p) as [j|] eqn:E; [|apply nth_error_None in E; lia].
      destruct W as (ND & F & B & N). destruct (N p j E) as (nd & Hn & Al & _ & _).
      rewrite (lget_alive T _ _ _ Hn Al). cbn [rbind fst snd].
      assert (dl_wf d idx) as W by (repeat split; assumption).
      pose proof (IH (S p) fuel ltac:(lia) ltac:(lia) ltac:(lia)) as R. cbn [ctl_at] in R. rewrite E in R. rewrite R.
      cbn [rbind fst snd].
      rewrite (skipn_nth_cons _ idx p j E). cbn [map combine Model.vals]. unfold val_at at 1. rewrite Hn. reflexivity.
  Qed.

  Theorem dl_pairs_ok : forall d idx, dl_wf d idx ->
    dl_pairs T d = Ok (d, combine (map Some idx) (vals (larena T d) idx)).
  Proof.
    intros d idx W. unfold dl_pairs. change None with (ctl_at idx 0).
    assert (length idx <= length (larena T d)) as L.
    { destruct W as (ND & _ & _ & N). apply nodup_bound; [assumption|]. intros i Hi. apply In_nth_error in Hi.
      destruct Hi as (k & Hk). destruct (N k i Hk) as (nd & Hn & _). eapply nth_error_Some_lt; eauto. }
    rewrite (dl_pairs_loop d idx W (length idx) 0) by lia. reflexivity.
  Qed.

  (* ---- list: `for node, x in mpairs(l) do $x = f($x) end` is the element-wise update; links untouched *)
  Definition amap (f : T -> T) (S0 : list nat) (a a' : list (lnode T)) : Prop :=
    length a' = length a /\
    forall i nd, nth_error a i = Some nd -> exists nd', nth_error a' i = Some nd' /\
      lprev T nd' = lprev T nd /\ lnext T nd' = lnext T nd /\ lalive T nd' = lalive T nd /\
      (In i S0 -> lval T nd' = f (lval T nd)) /\ (~ In i S0 -> lval T nd' = lval T nd).

  Lemma amap_wf : forall f S0 a a' fr bk idx, amap f S0 a a' -> dl_wf (mkdl T a fr bk) idx -> dl_wf (mkdl T a' fr bk) idx.
  Proof.
    intros f S0 a a' fr bk idx (L & P) (ND & F & B & N). repeat split; try assumption.
    intros k i Hk. destruct (N k i Hk) as (nd & Hn & Al & Pr & Nx). cbn [larena] in *.
    destruct (P i nd Hn) as (nd' & Hn' & E1 & E2 & E3 & _). exists nd'. rewrite E1, E2, E3. auto.
  Qed.

  Lemma firstn_S_snoc : forall A (l : list A) p j, nth_error l p = Some j -> firstn (S p) l = firstn p l ++ [j].
  Proof.
    induction l as [|a l IH]; intros [|p] j H; cbn in *; try discriminate; [inversion H; reflexivity|].
    f_equal. apply IH. assumption.
  Qed.

  Lemma nodup_not_in_firstn : forall (l : list nat) p j, NoDup l -> nth_error l p = Some j -> ~ In j (firstn p l).
  Proof.
    intros l p j ND H Hin. apply In_nth_error in Hin. destruct Hin as (q & Hq). rewrite nthe_firstn in Hq.
    destruct (Nat.ltb_spec q p); [|discriminate].
    assert (q = p); [|lia]. apply (proj1 (NoDup_nth_error l) ND); [eapply nth_error_Some_lt; eauto|congruence].
  Qed.

  Lemma dl_mpairs_loop : forall f a fr bk idx, dl_wf (mkdl T a fr bk) idx ->
    forall rem p fuel ap, rem = length idx - p -> p <= length idx -> rem < fuel -> amap f (firstn p idx) a ap ->
    exists a', for_do (dlist T) (option nat) nat fuel (dl_mnext T)
                 (fun _ r d => x <- lupd T r (fun nd => set_lval T (f (lval T nd)) nd) (larena T d) ;;
                               Ok (mkdl T x (lfront T d) (lback T d))) (mkdl T ap fr bk) (ctl_at idx p) = Ok (mkdl T a' fr bk) /\
               amap f idx a a'.
  Proof.
    intros f a fr bk idx W0. induction rem as [|rem IH]; intros p fuel ap Hr Hp Hf AM; (destruct fuel as [|fuel]; [lia|]);
      rewrite for_do_S; unfold dl_mnext at 1;
      pose proof (amap_wf f _ a ap fr bk idx AM W0) as Wp; rewrite (dl_next_node_ok _ idx p Wp Hp); cbn [rbind].
    - rewrite (nthe_beyond _ idx p) by lia. cbn [fst snd]. exists ap. split; [reflexivity|].
      rewrite firstn_all2 in AM by lia. assumption.
    - destruct (nth_error idx p) as [j|] eqn:E; [|apply nth_error_None in E; lia].
      destruct Wp as (ND & F & B & N). destruct (N p j E) as (ndp & Hnp & Alp & _ & _). cbn [larena] in *.
      rewrite (lget_alive T _ _ _ Hnp Alp). cbn [rbind fst snd larena lfront lback].
      rewrite (lupd_alive T _ _ _ _ Hnp Alp). cbn [rbind].
      pose proof (nth_error_Some_lt _ _ _ _ Hnp) as Lj.
      assert (amap f (firstn (S p) idx) a (overwrite j [set_lval T (f (lval T ndp)) ndp] ap)) as AM'.
      { destruct AM as (L & P). split; [rewrite length_upd by assumption; assumption|].
        intros i nd Hi. rewrite nthe_upd by assumption. rewrite (firstn_S_snoc _ idx p j E).
        destruct (P i nd Hi) as (nd' & Hn' & E1 & E2 & E3 & E4 & E5).
        destruct (Nat.eqb_spec i j) as [->|Hij].
        - rewrite Hnp in Hn'. inversion Hn'; subst nd'. eexists. split; [reflexivity|]. cbn [set_lval lprev lnext lalive lval].
          repeat split; try assumption.
          + intros _. rewrite (E5 (nodup_not_in_firstn idx p j ND E)). reflexivity.
          + intros X. exfalso. apply X. apply in_or_app. right. left. reflexivity.
        - exists nd'. repeat split; try assumption.
          + intros X. apply in_app_or in X. destruct X as [X|[X|[]]]; [auto|congruence].
          + intros X. apply E5. intros Y. apply X. apply in_or_app. left. assumption. }
      replace (Some j) with (ctl_at idx (S p)) by (cbn [ctl_at]; exact E).
      apply (IH (S p) fuel); try lia. exact AM'.
  Qed.

  Theorem dl_mpairs_map_ok : forall f d idx, dl_wf d idx ->
    exists d', dl_mpairs_map T f d = Ok d' /\ dl_wf d' idx /\ vals (larena T d') idx = map f (vals (larena T d) idx).
  Proof.
    intros f [a fr bk] idx W. unfold dl_mpairs_map. cbn [larena]. change None with (ctl_at idx 0).
    assert (length idx <= length a) as L.
    { destruct W as (ND & _ & _ & N). apply nodup_bound; [assumption|]. intros i Hi. apply In_nth_error in Hi.
      destruct Hi as (k & Hk). destruct (N k i Hk) as (nd & Hn & _). eapply nth_error_Some_lt; eauto. }
    assert (amap f (firstn 0 idx) a a) as A0.
    { split; [reflexivity|]. intros i nd H. exists nd. cbn [firstn]. repeat split; auto. intros []. }
    destruct (dl_mpairs_loop f a fr bk idx W (length idx) 0 (S (length a)) a ltac:(lia) ltac:(lia) ltac:(lia) A0) as (a' & -> & AM).
    eexists. split; [reflexivity|]. split; [eapply amap_wf; eauto|]. cbn [larena].
    unfold Model.vals. rewrite map_map. apply map_ext_in. intros i Hi.
    destruct W as (ND & _ & _ & N). apply In_nth_error in Hi. destruct Hi as (k & Hk).
    destruct (N k i Hk) as (nd & Hn & _). cbn [larena] in Hn. destruct AM as (_ & P).
    destruct (P i nd Hn) as (nd' & Hn' & _ & _ & _ & E4 & _). unfold val_at. rewrite Hn, Hn'. apply E4.
    eapply nth_error_In; eauto.
  Qed.

  (* the reference handed out by mpairs(l) / mnext is the node: its value field is what pairs yields *)
  Theorem dl_mnext_alias : forall d node, 
    match dl_next T d node with
    | Ok (d', Some (c, x)) => exists nd, dl_mnext T d node = Ok (d', Some (c, match c with Some j => j | None => 0 end)) /\
                                match c with Some j => nth_error (larena T d) j = Some nd /\ lval T nd = x | None => False end
    | Ok (d', None) => dl_mnext T d node = Ok (d', None)
    | Trap t => dl_mnext T d node = Trap t
    end.
  Proof.
    intros d node. unfold dl_next, dl_mnext. destruct (dl_next_node T node d) as [[j|]|t]; cbn [rbind]; try reflexivity.
    unfold lget. destruct (sget j (larena T d)) as [nd|t] eqn:E; cbn [rbind]; [|reflexivity].
    destruct (lalive T nd); [|reflexivity]. exists nd. split; [reflexivity|]. split; [|reflexivity].
    unfold sget in E. destruct (nth_error (larena T d) j); inversion E; reflexivity.
  Qed.
End Iter.

(* ---- hashmap: pairs(m) through the iterator object visits the bindings in node order, i.e. in the order of the
   flat map; the reference of mpairs is the node whose value next() reports *)
Section IterHM.
  Variables K V : Type.

  Lemma hm_for_pairs_loop : forall fuel it (m : hmap K V) r, hm_pairs_loop K V fuel it m = Ok r ->
    exists l, for_in (hmap K V) (option nat) (K * V) fuel (hm_it_next K V) m it = Ok (m, l) /\ map snd l = r.
  Proof.
    induction fuel as [|fuel IH]; intros it m r H; cbn [hm_pairs_loop] in H; [discriminate|]. rewrite for_in_S.
    unfold hm_it_next at 1. cbn [rbind fst snd]. destruct (hm_iter_next K V it m) as [[i nd]|].
    - destruct (hm_pairs_loop K V fuel (Some i) m) as [r1|t] eqn:E; [|discriminate]. cbn [rbind] in H. inversion H; subst r.
      destruct (IH _ _ _ E) as (l & -> & Hl). cbn [rbind fst snd]. eexists. split; [reflexivity|]. cbn [map snd]. congruence.
    - inversion H; subst. exists []. auto.
  Qed.

  Theorem hm_for_pairs_ok : forall m : hmap K V,
    exists l, hm_for_pairs K V m = Ok (m, l) /\ map snd l = hm_abs K V m.
  Proof. intros m. unfold hm_for_pairs. apply hm_for_pairs_loop. apply (hm_pairs_ok K V m). Qed.

  (* ---- `for k, v in mpairs(m) do $v = f($v) end` through the iterator object is hm_mapvals f *)
  Lemma scan_pt : forall (rest : list (hnode K V)) c,
    match hm_scan K V rest c with
    | Some (i, nd) => c <= i /\ nth_error rest (i - c) = Some nd /\ nfilled K V nd = true /\
                      forall j x, j < i - c -> nth_error rest j = Some x -> nfilled K V x = false
    | None => forall j x, nth_error rest j = Some x -> nfilled K V x = false
    end.
  Proof.
    induction rest as [|a rest IH]; intros c; cbn [hm_scan].
    - intros j x H. destruct j; discriminate.
    - destruct (nfilled K V a) eqn:F.
      + rewrite Nat.sub_diag. split; [lia|]. split; [reflexivity|]. split; [assumption|]. intros j x Hj. lia.
      + specialize (IH (S c)). destruct (hm_scan K V rest (S c)) as [[i nd]|].
        * destruct IH as (A & B & C & D). split; [lia|]. replace (i - c) with (S (i - S c)) by lia. split; [exact B|].
          split; [assumption|]. intros [|j] x Hj Hx; cbn in Hx; [inversion Hx; subst; assumption|]. apply (D j x); [lia|assumption].
        * intros [|j] x Hx; cbn in Hx; [inversion Hx; subst; assumption|]. eapply IH; eauto.
  Qed.

  Definition mapnode (f : V -> V) (nd : hnode K V) : hnode K V :=
    if nfilled K V nd then set_val K V (f (nval K V nd)) nd else nd.

  Lemma hm_for_mpairs_loop : forall f bs ns sz fr rem c fuel, length ns - c <= rem -> c <= length ns -> rem < fuel ->
    for_do (hmap K V) (option nat) nat fuel (hm_it_mnext K V)
      (fun _ r m => nd <- sget r (hnodes K V m) ;;
                    ns' <- sset r (set_val K V (f (nval K V nd)) nd) (hnodes K V m) ;;
                    Ok (mkhm K V (hbuckets K V m) ns' (hsize K V m) (hfree K V m)))
      (mkhm K V bs (map (mapnode f) (firstn c ns) ++ skipn c ns) sz fr) (it_of c) =
    Ok (mkhm K V bs (map (mapnode f) ns) sz fr).
  Proof.
    intros f bs ns sz fr. induction rem as [|rem IH]; intros c fuel Hr Hc Hf; (destruct fuel as [|fuel]; [lia|]);
      rewrite for_do_S; unfold hm_it_mnext at 1; cbn [rbind fst snd]; unfold hm_iter_next; cbn [hnodes];
      replace (match it_of c with Some i => S i | None => 0 end) with c by (destruct c; reflexivity);
      (assert (skipn c (map (mapnode f) (firstn c ns) ++ skipn c ns) = skipn c ns) as ->
         by (rewrite skipn_app, map_length, firstn_length; replace (Nat.min c (length ns)) with c by lia;
             rewrite Nat.sub_diag, skipn_all2 by (rewrite map_length, firstn_length; lia); reflexivity));
      pose proof (scan_pt (skipn c ns) c) as SP; destruct (hm_scan K V (skipn c ns) c) as [[i nd]|].
    - destruct SP as (A & B & _). apply nth_error_Some_lt in B. rewrite skipn_length in B. lia.
    - f_equal. f_equal. assert (c = length ns) by lia. subst c. rewrite firstn_all, skipn_all, app_nil_r. reflexivity.
    - destruct SP as (A & B & F & D). rewrite nthe_skipn in B. replace (c + (i - c)) with i in B by lia.
      pose proof (nth_error_Some_lt _ _ _ _ B) as Li.
      assert (length (map (mapnode f) (firstn c ns) ++ skipn c ns) = length ns) as Ln
        by (rewrite app_length, map_length, firstn_length, skipn_length; lia).
      assert (nth_error (map (mapnode f) (firstn c ns) ++ skipn c ns) i = Some nd) as Hi.
      { rewrite nthe_app, map_length, firstn_length. replace (Nat.min c (length ns)) with c by lia.
        destruct (Nat.ltb_spec i c); [lia|]. rewrite nthe_skipn. replace (c + (i - c)) with i by lia. assumption. }
      cbn [hnodes hbuckets hsize hfree]. rewrite (sget_Some _ _ _ _ Hi). cbn [rbind]. rewrite sset_ok by lia. cbn [rbind].
      change (Some i) with (it_of (S i)).
      assert (overwrite i [set_val K V (f (nval K V nd)) nd] (map (mapnode f) (firstn c ns) ++ skipn c ns) =
              map (mapnode f) (firstn (S i) ns) ++ skipn (S i) ns) as ->.
      { apply nth_error_ext; intro j. rewrite nthe_upd by lia.
        rewrite !nthe_app, !map_length, !firstn_length, !nthe_skipn, !nth_error_map, !nthe_firstn.
        replace (Nat.min c (length ns)) with c by lia. replace (Nat.min (S i) (length ns)) with (S i) by lia.
        destruct (Nat.eqb_spec j i) as [->|Hji].
        - destruct (Nat.ltb_spec i (S i)); [|lia]. rewrite B. cbn [option_map]. unfold mapnode. rewrite F. reflexivity.
        - destruct (Nat.ltb_spec j c); destruct (Nat.ltb_spec j (S i)); try lia; try reflexivity.
          + replace (c + (j - c)) with j by lia. destruct (nth_error ns j) as [x|] eqn:Ex; [|reflexivity]. cbn [option_map].
            unfold mapnode. rewrite (D (j - c) x); [reflexivity|lia|]. rewrite nthe_skipn. replace (c + (j - c)) with j by lia. assumption.
          + f_equal. lia. }
      apply (IH (S i) fuel); lia.
    - f_equal. f_equal. apply nth_error_ext; intro j.
      rewrite nthe_app, map_length, firstn_length, nthe_skipn, !nth_error_map, nthe_firstn.
      replace (Nat.min c (length ns)) with c by lia. destruct (Nat.ltb_spec j c); [reflexivity|].
      replace (c + (j - c)) with j by lia. destruct (nth_error ns j) as [x|] eqn:Ex; [|reflexivity]. cbn [option_map].
      unfold mapnode. rewrite (SP (j - c) x); [reflexivity|]. rewrite nthe_skipn. replace (c + (j - c)) with j by lia. assumption.
  Qed.

  Theorem hm_for_mpairs_ok : forall f (m : hmap K V), hm_for_mpairs K V f m = Ok (hm_mapvals K V f m).
  Proof.
    intros f [bs ns sz fr]. unfold hm_for_mpairs, hm_mapvals. cbn [hnodes hbuckets hsize hfree]. change None with (it_of 0).
    pose proof (hm_for_mpairs_loop f bs ns sz fr (length ns) 0 (S (length ns)) ltac:(lia) ltac:(lia) ltac:(lia)) as H.
    cbn [firstn map app skipn] in H. rewrite H. reflexivity.
  Qed.

  Theorem hm_it_mnext_alias : forall (m : hmap K V) it,
    match hm_it_next K V m it with
    | Ok (m', Some (c, kv)) => exists i nd, c = Some i /\ hm_it_mnext K V m it = Ok (m', Some (c, i)) /\
                                 nth_error (hnodes K V m) i = Some nd /\ nfilled K V nd = true /\ (nkey K V nd, nval K V nd) = kv
    | Ok (m', None) => hm_it_mnext K V m it = Ok (m', None)
    | Trap t => False
    end.
  Proof.
    intros m it. unfold hm_it_next, hm_it_mnext, hm_iter_next.
    set (st := match it with None => 0 | Some i => S i end).
    pose proof (scan_spec K V (skipn st (hnodes K V m)) st) as SS.
    destruct (hm_scan K V (skipn st (hnodes K V m)) st) as [[i nd]|]; [|reflexivity].
    destruct SS as (A & B & C & _). exists i, nd. split; [reflexivity|]. split; [reflexivity|].
    rewrite nthe_skipn in B. replace (st + (i - st)) with i in B by lia. auto.
  Qed.
End IterHM.

(* select: the selected suffix, and the count *)
Lemma select_from_pos : forall A (args : list A) i, (1 <= i <= Z.of_nat (length args))%Z ->
  select_from i args = Some (skipn (Z.to_nat i - 1) args).
Proof.
  intros A args i H. unfold select_from. destruct (Z.leb_spec 1 i); [|lia]. destruct (Z.leb_spec i (Z.of_nat (length args))); [|lia].
  cbn [andb]. do 2 f_equal. lia.
Qed.
Lemma select_from_neg : forall A (args : list A) i, (- Z.of_nat (length args) <= i <= -1)%Z ->
  select_from i args = Some (skipn (length args - Z.to_nat (- i)) args).
Proof.
  intros A args i H. unfold select_from. destruct (Z.leb_spec 1 i); [lia|]. cbn [andb].
  destruct (Z.leb_spec i (-1)); [|lia]. destruct (Z.leb_spec (- Z.of_nat (length args)) i); [|lia]. cbn [andb]. do 2 f_equal. lia.
Qed.

