(* C12 - iterators.nelua: a `for` driven by ipairs / pairs / next visits exactly the elements (bindings) of the
   container, in the order of the abstract container; the references handed out by mipairs / mpairs alias the
   stored elements, so updating through them is the element-wise update. *)
From Coq Require Import ZArith List Bool Lia Arith Permutation.
From C12 Require Import Gen Model ProofsBase ProofsVec ProofsSeq ProofsAL ProofsHM1 ProofsHM2 ProofsFM ProofsHM3 ProofsHM4 ProofsHM5 ProofsSB ProofsDL.
Import ListNotations.

Lemma skipn_nth_cons : forall A (l : list A) k x, nth_error l k = Some x -> skipn k l = x :: skipn (S k) l.
Proof.
  induction l as [|a l IH]; intros [|k] x H; cbn in *; try discriminate; [inversion H; reflexivity|]. apply IH. assumption.
Qed.

Lemma for_in_S : forall St C E f nxt s c, for_in St C E (S f) nxt s c =
  (r <- nxt s c ;; match snd r with
                   | None => Ok (fst r, [])
                   | Some (c', e) => q <- for_in St C E f nxt (fst r) c' ;; Ok (fst q, (c', e) :: snd q)
                   end).
Proof. reflexivity. Qed.
Lemma for_do_S : forall St C E f nxt body s c, for_do St C E (S f) nxt body s c =
  (r <- nxt s c ;; match snd r with
                   | None => Ok (fst r)
                   | Some (c', e) => s' <- body c' e (fst r) ;; for_do St C E f nxt body s' c'
                   end).
Proof. reflexivity. Qed.

(* ---- the index-stepping loop over a container whose element access leaves it unchanged *)
Lemma for_in_ip : forall St E one (len : St -> nat) (at_ : nat -> St -> res (St * E)) s (l : list E),
  len s = length l ->
  (forall i x, nth_error l i = Some x -> at_ (i + one) s = Ok (s, x)) ->
  forall d k, d = length l - k -> k <= length l ->
  for_in St Z E (S d) (ip_next St E one len at_) s (Z.of_nat (k + one) - 1)%Z =
    Ok (s, combine (map (fun i => Z.of_nat (i + one)) (List.seq k d)) (skipn k l)).
Proof.
  intros St E one len at_ s l Hlen Hat. induction d as [|d IH]; intros k Hd Hk; rewrite for_in_S; unfold ip_next at 1.
  - replace (Z.of_nat (k + one) - 1 + 1)%Z with (Z.of_nat (k + one)) by lia.
    destruct (Z.leb_spec (Z.of_nat (len s + one)) (Z.of_nat (k + one))); [|lia]. reflexivity.
  - replace (Z.of_nat (k + one) - 1 + 1)%Z with (Z.of_nat (k + one)) by lia.
    destruct (Z.leb_spec (Z.of_nat (len s + one)) (Z.of_nat (k + one))); [lia|].
    rewrite Nat2Z.id. destruct (nth_error l k) as [x|] eqn:Ek; [|apply nth_error_None in Ek; lia].
    rewrite (Hat k x Ek). cbn [rbind fst snd].
    replace (Z.of_nat (k + one)) with (Z.of_nat (S k + one) - 1)%Z at 1 by lia.
    rewrite (IH (S k)) by lia. cbn [rbind fst snd List.seq map]. rewrite (skipn_nth_cons _ l k x Ek). cbn [combine].
    reflexivity.
Qed.

Section Iter.
  Variable T : Type.
  Variable dflt : T.
  Variable teqb : T -> T -> bool.

  (* ---- vector *)
  Theorem vec_ipairs_ok : forall v, vec_wf T v ->
    vec_ipairs T v = Ok (v, combine (map Z.of_nat (List.seq 0 (vec_len T v))) (vec_contents T v)).
  Proof.
    intros v W. unfold vec_ipairs, vec_ipairs_next.
    pose proof (contents_length T v W) as L. change (vec_len T v) with (vsize T v).
    pose proof (for_in_ip (vec T) T 0 (vec_len T) (vec_get T) v (vec_contents T v)) as G.
    rewrite L in G. specialize (G eq_refl).
    assert (forall i x, nth_error (vec_contents T v) i = Some x -> vec_get T (i + 0) v = Ok (v, x)) as A.
    { intros i x H. rewrite Nat.add_0_r. unfold vec_get. pose proof (vec_at_ok T i v W) as X. rewrite H in X. rewrite X. reflexivity. }
    specialize (G A (vsize T v) 0 ltac:(lia) ltac:(lia)). cbn [Nat.add Z.of_nat Z.sub Z.opp Z.add] in G.
    change (Z.pos_sub 1 1) with 0%Z in G. rewrite G. cbn [skipn]. do 3 f_equal. apply map_ext. intros. f_equal. lia.
  Qed.

  (* a reference &v[i] handed out by mipairs / mnext is the stored element: reading it is v[i], writing it is v[i] = x *)
  Theorem vec_ref_alias : forall i v r v', vec_ref T i v = Ok (v', r) ->
    v' = v /\ vec_ref_read T r v = vec_at T i v /\ forall x, vec_ref_write T r x v = vec_assign T i x v.
  Proof.
    intros i v r v' H. unfold vec_ref in H. destruct (Nat.leb_spec (vsize T v) i); [discriminate|]. inversion H; subst.
    unfold vec_ref_read, vec_ref_write, vec_at, vec_assign. destruct (Nat.leb_spec (vsize T v') r); [lia|]. auto.
  Qed.

  Lemma vec_mipairs_loop : forall f d0 n d k data, n <= length d0 -> d = n - k -> k <= n ->
    data = map f (firstn k d0) ++ skipn k d0 ->
    for_do (vec T) Z nat (S d) (vec_mipairs_next T)
      (fun _ r v => x <- vec_ref_read T r v ;; vec_ref_write T r (f x) v) (mkvec T data n) (Z.of_nat k - 1)%Z =
    Ok (mkvec T (map f (firstn n d0) ++ skipn n d0) n).
  Proof.
    intros f d0 n. induction d as [|d IH]; intros k data Hn Hd Hk Hdata; rewrite for_do_S; unfold vec_mipairs_next, ip_next at 1;
      unfold vec_len; cbn [vsize]; replace (Z.of_nat k - 1 + 1)%Z with (Z.of_nat k) by lia; rewrite Nat.add_0_r.
    - destruct (Z.leb_spec (Z.of_nat n) (Z.of_nat k)); [|lia]. cbn [rbind fst snd]. assert (k = n) by lia. subst. reflexivity.
    - destruct (Z.leb_spec (Z.of_nat n) (Z.of_nat k)); [lia|]. rewrite Nat2Z.id. unfold vec_ref; cbn [vsize].
      destruct (Nat.leb_spec n k); [lia|]. cbn [rbind fst snd]. unfold vec_ref_read, vec_ref_write; cbn [vdata vsize].
      assert (length data = length d0) as Ld.
      { subst data. rewrite app_length, map_length, firstn_length, skipn_length. lia. }
      destruct (nth_error d0 k) as [x|] eqn:E; [|apply nth_error_None in E; lia].
      assert (nth_error data k = Some x) as Ek.
      { subst data. rewrite nthe_app, map_length, firstn_length. destruct (Nat.ltb_spec k (Nat.min k (length d0))); [lia|].
        rewrite nthe_skipn. replace (k + (k - Nat.min k (length d0))) with k by lia. assumption. }
      rewrite (sget_Some _ _ _ _ Ek). cbn [rbind]. rewrite sset_ok by lia. cbn [rbind].
      replace (Z.of_nat k) with (Z.of_nat (S k) - 1)%Z by lia. apply IH; try lia.
      subst data. apply nth_error_ext; intro j.
      rewrite nthe_upd1 by (rewrite app_length, map_length, firstn_length, skipn_length; lia).
      rewrite !nthe_app, !map_length, !firstn_length, !nthe_skipn.
      replace (Nat.min k (length d0)) with k by lia. replace (Nat.min (S k) (length d0)) with (S k) by lia.
      rewrite !nth_error_map, !nthe_firstn.
      destruct (Nat.eqb_spec j k).
      + subst j. destruct (Nat.ltb_spec k (S k)); [|lia]. rewrite E. reflexivity.
      + destruct (Nat.ltb_spec j k); destruct (Nat.ltb_spec j (S k)); try lia; [reflexivity|].
        f_equal. lia.
  Qed.

  Theorem vec_mipairs_map_ok : forall f v, vec_wf T v ->
    exists v', vec_mipairs_map T f v = Ok v' /\ vec_wf T v' /\ vec_contents T v' = map f (vec_contents T v) /\
               vec_cap T v' = vec_cap T v.
  Proof.
    intros f [d0 n] W. unfold Model.vec_wf in W; cbn [vsize vdata] in W. unfold vec_mipairs_map, vec_len; cbn [vsize].
    change (-1)%Z with (Z.of_nat 0 - 1)%Z.
    rewrite (vec_mipairs_loop f d0 n n 0 d0 W ltac:(lia) ltac:(lia) eq_refl).
    eexists. split; [reflexivity|]. split; [|split].
    - unfold Model.vec_wf; cbn [vsize vdata]. rewrite app_length, map_length, firstn_length, skipn_length. lia.
    - unfold vec_contents; cbn [vsize vdata]. rewrite firstn_app, map_length, firstn_length.
      replace (n - Nat.min n (length d0)) with 0 by lia. cbn [firstn]. rewrite app_nil_r.
      rewrite firstn_all2 by (rewrite map_length, firstn_length; lia). reflexivity.
    - unfold vec_cap; cbn [vdata]. rewrite app_length, map_length, firstn_length, skipn_length. lia.
  Qed.

  (* ---- span (fat pointer over a fixed storage) *)
  Theorem span_ipairs_ok : forall (mem : list T) w, sp_wf mem w ->
    span_ipairs T mem w = Ok (w, combine (map Z.of_nat (List.seq 0 (sp_size w))) (sp_view T mem w)).
  Proof.
    intros mem w W. unfold span_ipairs, span_ipairs_next.
    pose proof (sp_view_len T mem w W) as L.
    pose proof (for_in_ip spanw T 0 sp_size (fun i w0 => x <- spw_at T i mem w0 ;; Ok (w0, x)) w (sp_view T mem w)) as G.
    rewrite L in G. specialize (G eq_refl).
    assert (forall i x, nth_error (sp_view T mem w) i = Some x -> (x0 <- spw_at T (i + 0) mem w ;; Ok (w, x0)) = Ok (w, x)) as A.
    { intros i x H. rewrite Nat.add_0_r, (span_window_at T mem w i W). unfold span_at. rewrite H. reflexivity. }
    specialize (G A (sp_size w) 0 ltac:(lia) ltac:(lia)). cbn [Nat.add Z.of_nat Z.sub Z.opp Z.add] in G.
    change (Z.pos_sub 1 1) with 0%Z in G. rewrite G. cbn [skipn]. do 3 f_equal. apply map_ext. intros. f_equal. lia.
  Qed.

  (* ---- list: pairs(l) = listT.__next from nilptr visits the nodes front to back *)
  Notation dl_wf := (dl_wf T).
  Notation vals := (vals T dflt).
  Definition ctl_at (idx : list nat) (p : nat) : option nat := match p with 0 => None | S q => nth_error idx q end.

  Lemma dl_next_node_ok : forall d idx p, dl_wf d idx -> p <= length idx ->
    dl_next_node T (ctl_at idx p) d = Ok (nth_error idx p).
  Proof.
    intros d idx p (ND & F & B & N) Hp. destruct p as [|q]; cbn [ctl_at dl_next_node]; [rewrite F; reflexivity|].
    destruct (nth_error idx q) as [i|] eqn:E; [|apply nth_error_None in E; lia].
    destruct (N q i E) as (nd & Hn & Al & _ & Nx). cbn [dl_next_node]. rewrite (lget_alive T _ _ _ Hn Al). cbn [rbind]. rewrite Nx. reflexivity.
  Qed.

  Lemma dl_pairs_loop : forall d idx, dl_wf d idx -> forall rem p fuel, rem = length idx - p -> p <= length idx -> rem < fuel ->
    for_in (dlist T) (option nat) T fuel (dl_next T) d (ctl_at idx p) =
      Ok (d, combine (map Some (skipn p idx)) (vals (larena T d) (skipn p idx))).
  Proof.
    intros d idx W0. pose proof W0 as W. induction rem as [|rem IH]; intros p fuel Hr Hp Hf; (destruct fuel as [|fuel]; [lia|]); rewrite for_in_S;
      unfold dl_next at 1; rewrite (dl_next_node_ok d idx p W Hp); cbn [rbind].
    - rewrite (nthe_beyond _ idx p) by lia. cbn [fst snd]. rewrite skipn_all2 by lia. reflexivity.
    - destruct (nth_error idx p) as [j|] eqn:E; [|apply nth_error_None in E; lia].
      destruct W as (ND & F & B & N). destruct (N p j E) as (nd & Hn & Al & _ & _).
      rewrite (lget_alive T _ _ _ Hn Al). cbn [rbind fst snd].
      assert (dl_wf d idx) as W by (repeat split; assumption).
      pose proof (IH (S p) fuel ltac:(lia) ltac:(lia) ltac:(lia)) as R. cbn [ctl_at] in R. rewrite E in R. rewrite R.
      cbn [rbind fst snd].
      rewrite (skipn_nth_cons _ idx p j E). cbn [map combine Model.vals]. unfold val_at at 1. rewrite Hn. reflexivity.
  Qed.

  Theorem dl_pairs_ok : forall d idx, dl_wf d idx ->
    dl_pairs T d = Ok (d, combine (map Some idx) (vals (larena T d) idx)).
  Proof.
    intros d idx W. unfold dl_pairs. change None with (ctl_at idx 0).
    assert (length idx <= length (larena T d)) as L.
    { destruct W as (ND & _ & _ & N). apply nodup_bound; [assumption|]. intros i Hi. apply In_nth_error in Hi.
      destruct Hi as (k & Hk). destruct (N k i Hk) as (nd & Hn & _). eapply nth_error_Some_lt; eauto. }
    rewrite (dl_pairs_loop d idx W (length idx) 0) by lia. reflexivity.
  Qed.

  (* the reference handed out by mpairs(l) / mnext is the node: its value field is what pairs yields *)
  Theorem dl_mnext_alias : forall d node, 
    match dl_next T d node with
    | Ok (d', Some (c, x)) => exists nd, dl_mnext T d node = Ok (d', Some (c, match c with Some j => j | None => 0 end)) /\
                                match c with Some j => nth_error (larena T d) j = Some nd /\ lval T nd = x | None => False end
    | Ok (d', None) => dl_mnext T d node = Ok (d', None)
    | Trap t => dl_mnext T d node = Trap t
    end.
  Proof.
    intros d node. unfold dl_next, dl_mnext. destruct (dl_next_node T node d) as [[j|]|t]; cbn [rbind]; try reflexivity.
    unfold lget. destruct (sget j (larena T d)) as [nd|t] eqn:E; cbn [rbind]; [|reflexivity].
    destruct (lalive T nd); [|reflexivity]. exists nd. split; [reflexivity|]. split; [|reflexivity].
    unfold sget in E. destruct (nth_error (larena T d) j); inversion E; reflexivity.
  Qed.
End Iter.

(* ---- hashmap: pairs(m) through the iterator object visits the bindings in node order, i.e. in the order of the
   flat map; the reference of mpairs is the node whose value next() reports *)
Section IterHM.
  Variables K V : Type.

  Lemma hm_for_pairs_loop : forall fuel it (m : hmap K V) r, hm_pairs_loop K V fuel it m = Ok r ->
    exists l, for_in (hmap K V) (option nat) (K * V) fuel (hm_it_next K V) m it = Ok (m, l) /\ map snd l = r.
  Proof.
    induction fuel as [|fuel IH]; intros it m r H; cbn [hm_pairs_loop] in H; [discriminate|]. rewrite for_in_S.
    unfold hm_it_next at 1. cbn [rbind fst snd]. destruct (hm_iter_next K V it m) as [[i nd]|].
    - destruct (hm_pairs_loop K V fuel (Some i) m) as [r1|t] eqn:E; [|discriminate]. cbn [rbind] in H. inversion H; subst r.
      destruct (IH _ _ _ E) as (l & -> & Hl). cbn [rbind fst snd]. eexists. split; [reflexivity|]. cbn [map snd]. congruence.
    - inversion H; subst. exists []. auto.
  Qed.

  Theorem hm_for_pairs_ok : forall m : hmap K V,
    exists l, hm_for_pairs K V m = Ok (m, l) /\ map snd l = hm_abs K V m.
  Proof. intros m. unfold hm_for_pairs. apply hm_for_pairs_loop. apply (hm_pairs_ok K V m). Qed.

  Theorem hm_it_mnext_alias : forall (m : hmap K V) it,
    match hm_it_next K V m it with
    | Ok (m', Some (c, kv)) => exists i nd, c = Some i /\ hm_it_mnext K V m it = Ok (m', Some (c, i)) /\
                                 nth_error (hnodes K V m) i = Some nd /\ nfilled K V nd = true /\ (nkey K V nd, nval K V nd) = kv
    | Ok (m', None) => hm_it_mnext K V m it = Ok (m', None)
    | Trap t => False
    end.
  Proof.
    intros m it. unfold hm_it_next, hm_it_mnext, hm_iter_next.
    set (st := match it with None => 0 | Some i => S i end).
    pose proof (scan_spec K V (skipn st (hnodes K V m)) st) as SS.
    destruct (hm_scan K V (skipn st (hnodes K V m)) st) as [[i nd]|]; [|reflexivity].
    destruct SS as (A & B & C & _). exists i, nd. split; [reflexivity|]. split; [reflexivity|].
    rewrite nthe_skipn in B. replace (st + (i - st)) with i in B by lia. auto.
  Qed.
End IterHM.

(* select: the selected suffix, and the count *)
Lemma select_from_pos : forall A (args : list A) i, (1 <= i <= Z.of_nat (length args))%Z ->
  select_from i args = Some (skipn (Z.to_nat i - 1) args).
Proof.
  intros A args i H. unfold select_from. destruct (Z.leb_spec 1 i); [|lia]. destruct (Z.leb_spec i (Z.of_nat (length args))); [|lia].
  cbn [andb]. do 2 f_equal. lia.
Qed.
Lemma select_from_neg : forall A (args : list A) i, (- Z.of_nat (length args) <= i <= -1)%Z ->
  select_from i args = Some (skipn (length args - Z.to_nat (- i)) args).
Proof.
  intros A args i H. unfold select_from. destruct (Z.leb_spec 1 i); [lia|]. cbn [andb].
  destruct (Z.leb_spec i (-1)); [|lia]. destruct (Z.leb_spec (- Z.of_nat (length args)) i); [|lia]. cbn [andb]. do 2 f_equal. lia.
Qed.

