(* C12 - hashmap.nelua, part 1: chains over the node array, the representation invariant, _find. *)
From Coq Require Import ZArith List Bool Lia Arith.
From C12 Require Import Gen Model ProofsBase ProofsVec.
Import ListNotations.

(* ---- generic list helpers *)
Lemma nthe_upd : forall A i (x : A) l j, i < length l ->
  nth_error (overwrite i [x] l) j = if j =? i then Some x else nth_error l j.
Proof.
  intros. rewrite nthe_overwrite_in by (cbn; lia). cbn [length].
  destruct (Nat.eqb_spec j i).
  - subst. destruct (Nat.ltb_spec i i); [lia|]. destruct (Nat.ltb_spec i (i + 1)); [|lia].
    rewrite Nat.sub_diag. reflexivity.
  - destruct (Nat.ltb_spec j i); [reflexivity|]. destruct (Nat.ltb_spec j (i + 1)); [lia|reflexivity].
Qed.

Lemma length_upd : forall A i (x : A) l, i < length l -> length (overwrite i [x] l) = length l.
Proof. intros. apply length_overwrite. cbn; lia. Qed.

Definition last_or (prev : option nat) (l : list nat) : option nat :=
  match l with [] => prev | _ => Some (last l 0) end.

Lemma last_or_app1 : forall p l x, last_or p (l ++ [x]) = Some x.
Proof. intros. unfold last_or. destruct (l ++ [x]) eqn:E; [destruct l; discriminate|]. rewrite <- E, last_last. reflexivity. Qed.

Lemma last_or_cons : forall p x l, last_or p (x :: l) = last_or (Some x) l.
Proof. intros. destruct l; [reflexivity|]. unfold last_or. reflexivity. Qed.

(* bucket index is always in range *)
Lemma land_le_r : forall a b : Z, (0 <= b)%Z -> (0 <= Z.land a b <= b)%Z.
Proof.
  intros a b Hb. apply Z.ldiff_le; [assumption|].
  apply Z.bits_inj'. intros n Hn. rewrite Z.ldiff_spec, Z.land_spec, Z.bits_0.
  destruct (Z.testbit a n), (Z.testbit b n); reflexivity.
Qed.

Section HM1.
  Variables K V : Type.
  Variable kdflt : K.
  Variable vdflt : V.
  Variable keqb : K -> K -> bool.
  Variable khash : K -> Z.

  Notation node := (hnode K V).
  Notation hmap := (hmap K V).

  Lemma hashmod_lt : forall h n, 0 < n -> hashmod h n < n.
  Proof.
    intros h n Hn. unfold hashmod.
    assert (0 <= (Z.of_nat n - 1) mod M64 <= Z.of_nat n - 1)%Z as Hm.
    { assert (0 < M64)%Z by (vm_compute; reflexivity).
      pose proof (Z.mod_pos_bound (Z.of_nat n - 1) M64 H).
      pose proof (Z.mod_le (Z.of_nat n - 1) M64 ltac:(lia) H). lia. }
    pose proof (land_le_r h ((Z.of_nat n - 1) mod M64) ltac:(lia)). lia.
  Qed.

  (* ---- chain segments: following next from [s] visits exactly [l] and ends with pointer [e] *)
  Notation Seg := (Seg K V).

  Lemma Seg_cons_inv : forall ns s i l e, Seg ns s (i :: l) e ->
    exists nd, s = Some i /\ nth_error ns i = Some nd /\ Seg ns (nnext K V nd) l e.
  Proof. intros. inversion H; subst. eauto. Qed.
  Lemma Seg_nil_inv : forall ns s e, Seg ns s [] e -> s = e.
  Proof. intros. inversion H; subst. reflexivity. Qed.

  Lemma Seg_app : forall ns s l1 e1 l2 e2, Seg ns s l1 e1 -> Seg ns e1 l2 e2 -> Seg ns s (l1 ++ l2) e2.
  Proof. induction 1; intros; cbn; [assumption|]. econstructor; eauto. Qed.

  Lemma Seg_split : forall ns l1 s l2 e, Seg ns s (l1 ++ l2) e -> exists e1, Seg ns s l1 e1 /\ Seg ns e1 l2 e.
  Proof.
    induction l1; cbn; intros s l2 e H.
    - exists s. split; [constructor|assumption].
    - destruct (Seg_cons_inv _ _ _ _ _ H) as (nd & -> & Hn & HS).
      destruct (IHl1 _ _ _ HS) as (e1 & A & B). exists e1. split; [econstructor; eauto|assumption].
  Qed.

  Lemma Seg_in : forall ns s l e i, Seg ns s l e -> In i l -> exists nd, nth_error ns i = Some nd.
  Proof. induction 1; cbn; intros HI; [contradiction|]. destruct HI; [subst; eauto|auto]. Qed.

  Lemma Seg_frame : forall ns ns' s l e, Seg ns s l e ->
    (forall i nd, In i l -> nth_error ns i = Some nd -> exists nd', nth_error ns' i = Some nd' /\ nnext K V nd' = nnext K V nd) ->
    Seg ns' s l e.
  Proof.
    induction 1; intros F; [constructor|].
    destruct (F i nd (or_introl eq_refl) H) as (nd' & A & B).
    econstructor; [exact A|]. rewrite B. apply IHSeg. intros j ndj Hj. apply F. right; assumption.
  Qed.

  Lemma Seg_start : forall ns s l e, Seg ns s l e -> s = match l with [] => e | i :: _ => Some i end.
  Proof. destruct 1; reflexivity. Qed.

  Lemma Seg_det : forall ns s l1, Seg ns s l1 None -> forall l2, Seg ns s l2 None -> l1 = l2.
  Proof.
    intros ns s l1 H. remember None as e. induction H; intros l2 H2; subst.
    - destruct l2 as [|j l2]; [reflexivity|]. destruct (Seg_cons_inv _ _ _ _ _ H2) as (nd & Hs & _). discriminate.
    - destruct l2 as [|j l2]; [apply Seg_nil_inv in H2; discriminate|].
      destruct (Seg_cons_inv _ _ _ _ _ H2) as (nd2 & Hs & Hn & HS). inversion Hs; subst j.
      rewrite H in Hn. inversion Hn; subst nd2. f_equal. apply IHSeg; auto.
  Qed.

  (* re-pointing the last node of a non-empty segment *)
  Lemma Seg_set_last : forall ns s l e, Seg ns s l e -> l <> [] -> NoDup l ->
    forall e' nd, nth_error ns (last l 0) = Some nd ->
    Seg (overwrite (last l 0) [set_next K V e' nd] ns) s l e'.
  Proof.
    induction 1; intros NE ND e' ndl Hl; [congruence|].
    assert (forall j, exists x, nth_error ns j = Some x -> j < length ns) as _ by (intros; exists nd; intros; eapply nth_error_Some_lt; eauto).
    pose proof (nth_error_Some_lt _ _ _ _ Hl) as Hlt.
    destruct l as [|j l'].
    - cbn [last] in *. apply Seg_nil_inv in H0. rewrite H in Hl. inversion Hl; subst.
      econstructor.
      + rewrite nthe_upd by assumption. rewrite Nat.eqb_refl. reflexivity.
      + cbn. constructor.
    - change (last (i :: j :: l') 0) with (last (j :: l') 0) in *.
      inversion ND; subst.
      assert (In (last (j :: l') 0) (j :: l')) as Hin.
      { clear. generalize j. induction l'; intros; cbn; [auto|]. right. apply IHl'. }
      econstructor.
      + rewrite nthe_upd by assumption. destruct (Nat.eqb_spec i (last (j :: l') 0)); [subst; contradiction|]. exact H.
      + apply IHSeg; auto. discriminate.
  Qed.

  Lemma last_in : forall (l : list nat) d, l <> [] -> In (last l d) l.
  Proof. induction l; intros; [congruence|]. destruct l; cbn; [auto|]. right. apply IHl. discriminate. Qed.

  (* ---- _find's loop over a chain *)
  Fixpoint find_in (ns : list node) (key : K) (l : list nat) (prev : option nat) : option nat * option nat :=
    match l with
    | [] => (None, prev)
    | i :: l' => match nth_error ns i with
                 | Some nd => if keqb key (nkey K V nd) then (Some i, prev) else find_in ns key l' (Some i)
                 | None => (None, prev)
                 end
    end.

  Lemma walk_chain : forall ns key l s, Seg ns s l None -> forall fuel prev, length l < fuel ->
    hm_walk K V keqb fuel ns key s prev = Ok (find_in ns key l prev).
  Proof.
    intros ns key l s H. remember None as e. induction H; intros fuel prev Hf; subst.
    - destruct fuel; [cbn in Hf; lia|]. reflexivity.
    - destruct fuel; [cbn in Hf; lia|]. cbn [hm_walk find_in].
      rewrite (sget_Some _ _ _ _ H). cbn [rbind]. rewrite H.
      destruct (keqb key (nkey K V nd)); [reflexivity|]. apply IHSeg; [reflexivity|]. cbn in Hf. lia.
  Qed.

  Definition kmatch (ns : list node) (key : K) (i : nat) : bool :=
    match nth_error ns i with Some nd => keqb key (nkey K V nd) | None => false end.

  Lemma find_in_spec : forall ns key l prev, (forall i, In i l -> exists nd, nth_error ns i = Some nd) ->
    match find_in ns key l prev with
    | (Some i, p) => exists l1 l2, l = l1 ++ i :: l2 /\ p = last_or prev l1 /\
                                   (forall j, In j l1 -> kmatch ns key j = false) /\ kmatch ns key i = true
    | (None, p) => p = last_or prev l /\ forall j, In j l -> kmatch ns key j = false
    end.
  Proof.
    induction l as [|i l IH]; intros prev R; cbn [find_in].
    - split; [reflexivity|]. intros j [].
    - destruct (R i (or_introl eq_refl)) as (nd & Hn). rewrite Hn.
      destruct (keqb key (nkey K V nd)) eqn:E.
      + exists [], l. split; [reflexivity|]. split; [reflexivity|]. split; [intros j []|].
        unfold kmatch. rewrite Hn. exact E.
      + specialize (IH (Some i) (fun j Hj => R j (or_intror Hj))).
        destruct (find_in ns key l (Some i)) as [[r|] p].
        * destruct IH as (l1 & l2 & -> & -> & A & B). exists (i :: l1), l2.
          split; [reflexivity|]. split; [rewrite last_or_cons; reflexivity|]. split; [|exact B].
          intros j [<-|Hj]; [unfold kmatch; rewrite Hn; exact E|auto].
        * destruct IH as (-> & A). split; [rewrite last_or_cons; reflexivity|].
          intros j [<-|Hj]; [unfold kmatch; rewrite Hn; exact E|auto].
  Qed.

  (* ---- the representation invariant *)

  Notation hm_inv_w := (hm_inv_w K V keqb khash).
  Notation hm_inv := (hm_inv K V keqb khash).

  (* chains are short: fuel |nodes|+1 always suffices *)
  Lemma nodup_bound : forall (l : list nat) n, NoDup l -> (forall i, In i l -> i < n) -> length l <= n.
  Proof.
    intros l n ND B. rewrite <- (seq_length n 0). apply NoDup_incl_length; [assumption|].
    intros i Hi. apply in_seq. specialize (B i Hi). lia.
  Qed.

  Lemma chain_len : forall ns s l e, Seg ns s l e -> NoDup l -> length l <= length ns.
  Proof.
    intros. apply nodup_bound; [assumption|]. intros i Hi.
    destruct (Seg_in _ _ _ _ _ H Hi) as (nd & Hn). eapply nth_error_Some_lt; eauto.
  Qed.

  (* ---- _find *)
  Lemma hm_find_spec : forall m ch fl key, hm_inv_w m ch fl -> 0 < length (hbuckets K V m) ->
    let b := hashmod (khash key) (length (hbuckets K V m)) in
    b < length (hbuckets K V m) /\
    hm_find K V keqb khash key m = Ok (find_in (hnodes K V m) key (ch b) None, b).
  Proof.
    intros m ch fl key I HB b.
    assert (b < length (hbuckets K V m)) as Hb by (apply hashmod_lt; assumption).
    split; [assumption|].
    unfold hm_find. destruct (Nat.eqb_spec (length (hbuckets K V m)) 0); [lia|].
    fold b. destruct (inv_ch _ _ _ _ _ _ _ I b Hb) as (s & Hs & HS).
    rewrite (sget_Some _ _ _ _ Hs). cbn [rbind].
    rewrite (walk_chain _ key _ _ HS).
    - cbn [rbind]. destruct (find_in (hnodes K V m) key (ch b) None). reflexivity.
    - pose proof (chain_len _ _ _ _ HS (inv_nd _ _ _ _ _ _ _ I b Hb)). lia.
  Qed.

  Lemma hm_find_empty : forall m key, length (hbuckets K V m) = 0 ->
    hm_find K V keqb khash key m = Ok (None, None, 0).
  Proof. intros. unfold hm_find. rewrite H. reflexivity. Qed.
End HM1.
