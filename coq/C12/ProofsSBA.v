(* C12 - stringbuilder.nelua under an allocator that may refuse requests: every operation either acts on the byte
   string as specified or reports failure and leaves the contents untouched; the NUL slot survives in both cases. *)
From Coq Require Import ZArith List Bool Lia Arith.
From C12 Require Import Gen Model ProofsBase ProofsVec ProofsSeq ProofsSB.
Import ListNotations.

(* with fallback allocations the capacity may be below INIT_CAPACITY: the weaker well-formedness *)

Lemma sb_wf_wf_a : forall b, sb_wf b -> sb_wf_a b.
Proof. intros b [H|(A & _ & C)]; [left; assumption|right; auto]. Qed.

Ltac sba_cases W := unfold sb_wf_a in W; cbn [sbdata sbsize] in W; destruct W as [[Wd Ws]|(W1 & W3)]; cbn [sbdata sbsize] in *; [subst|].

Lemma sb_cap_loop_a : forall needed fuel cap, 1 <= cap -> needed - cap < fuel ->
  (exists c, sb_cap_loop fuel cap needed = Ok c /\ needed <= c /\ cap <= c) \/
  sb_cap_loop fuel cap needed = Trap TrapCapOverflow.
Proof.
  intros needed. pose proof sb_mul_ge2.
  induction fuel; intros cap Hc Hf; [lia|]. cbn [sb_cap_loop].
  destruct (Nat.ltb_spec cap needed).
  - destruct (Nat.leb_spec (cap * SB_GROW_MUL_n) SB_INIT_CAP_n); [right; reflexivity|].
    destruct (IHfuel (cap * SB_GROW_MUL_n) ltac:(nia) ltac:(nia)) as [(c & -> & A & B)| ->]; [left|right; reflexivity].
    exists c. split; [reflexivity|]. split; [assumption|nia].
  - left. exists cap. split; [reflexivity|lia].
Qed.

Lemma sb_view_len_a : forall b, sb_wf_a b -> length (sb_view b) = sbsize b.
Proof.
  intros [d s] W. unfold sb_view; cbn [sbdata sbsize]. rewrite firstn_length. sba_cases W; cbn in *; lia.
Qed.

Lemma sb_ext_wf_a : forall d s k, sb_wf_a (mksb d s) -> s < length d + k ->
  sb_wf_a (mksb (d ++ repeat 0%Z k) s) /\ sb_view (mksb (d ++ repeat 0%Z k) s) = sb_view (mksb d s).
Proof.
  intros d s k W Hs. split.
  - right. cbn [sbdata sbsize]. rewrite app_length, repeat_length. split; [assumption|].
    intros i Hi Hl. rewrite nthe_app, nthe_repeat. destruct (Nat.ltb_spec i (length d)).
    + sba_cases W; [cbn in *; lia|]. apply W3; assumption.
    + destruct (Nat.ltb_spec (i - length d) k); [reflexivity|lia].
  - unfold sb_view; cbn [sbdata sbsize]. sba_cases W; [reflexivity|]. pw_ext.
Qed.

Lemma sb_append_ok_a : forall d s xs, sb_wf_a (mksb d s) -> s + length xs < length d ->
  sb_wf_a (mksb (overwrite s xs d) (s + length xs)) /\
  sb_view (mksb (overwrite s xs d) (s + length xs)) = sb_view (mksb d s) ++ xs.
Proof.
  intros d s xs W H. split.
  - right. cbn [sbdata sbsize]. rewrite length_overwrite by lia. sba_cases W; [cbn in *; lia|].
    split; [assumption|]. intros i Hi Hl. rewrite nthe_overwrite_in by lia.
    destruct (Nat.ltb_spec i s); [lia|]. destruct (Nat.ltb_spec i (s + length xs)); [lia|]. apply W3; lia.
  - unfold sb_view; cbn [sbdata sbsize]. apply nth_error_ext; intro i.
    rewrite nthe_firstn, nthe_overwrite_in, nthe_app, nthe_firstn, firstn_length by lia.
    replace (Nat.min s (length d)) with s by lia. ltb_cases; nth_close.
Qed.

(* grow under a refusing allocator: success gives room for newsize+1 bytes, failure changes nothing *)
Lemma sb_grow_a_ok : forall ok newsize b, sb_wf_a b ->
  exists k r, sb_grow_a ok newsize b = Ok (mksb (sbdata b ++ repeat 0%Z k) (sbsize b), r) /\
              (r = true -> newsize < length (sbdata b) + k) /\ (r = false -> k = 0).
Proof.
  intros ok newsize [d s] W. unfold sb_grow_a; cbn [sbdata sbsize]. pose proof sb_init_pos.
  destruct (Nat.leb_spec (newsize + 1) (length d)).
  - exists 0, true. cbn [repeat]. rewrite app_nil_r. split; [reflexivity|]. split; [lia|discriminate].
  - set (c0 := if length d =? 0 then SB_INIT_CAP_n else length d).
    assert (1 <= c0 /\ length d <= c0) as [H1 H2] by (unfold c0; destruct (Nat.eqb_spec (length d) 0); lia).
    destruct (sb_cap_loop_a (newsize + 1) (S (newsize + 1)) c0 H1 ltac:(lia)) as [(c & -> & A & B)| ->].
    2:{ exists 0, false. cbn [repeat]. rewrite app_nil_r. split; [reflexivity|]. split; [discriminate|reflexivity]. }
    destruct (ok c).
    + rewrite length_srealloc, Nat.eqb_refl. exists (c - length d), true.
      rewrite srealloc_grow by lia. split; [|split; [intros _; lia|discriminate]].
      rewrite app_length, repeat_length. destruct (Nat.leb_spec (newsize + 1) (length d + (c - length d))); [reflexivity|lia].
    + destruct (Nat.eqb_spec (length d) c); [lia|]. destruct (ok (newsize + 1)).
      * exists (newsize + 1 - length d), true. rewrite srealloc_grow by lia.
        split; [|split; [intros _; lia|discriminate]].
        rewrite app_length, repeat_length. destruct (Nat.leb_spec (newsize + 1) (length d + (newsize + 1 - length d))); [reflexivity|lia].
      * exists 0, false. cbn [repeat]. rewrite app_nil_r. split; [|split; [discriminate|reflexivity]].
        destruct (Nat.leb_spec (newsize + 1) (length d)); [lia|reflexivity].
Qed.

Lemma sb_prepare_a_ok : forall ok n b, sb_wf_a b ->
  exists (k : nat) (r : bool), sb_prepare_a ok n b = Ok (mksb (sbdata b ++ repeat 0%Z k) (sbsize b),
                                        if r then Some (length (sbdata b) + k - sbsize b - 1) else None) /\
              (r = true -> sbsize b + n < length (sbdata b) + k) /\ (r = false -> k = 0).
Proof.
  intros ok n b W. unfold sb_prepare_a. destruct (sb_grow_a_ok ok (sbsize b + n) b W) as (k & r & -> & A & B). cbn [rbind].
  exists k, r. destruct r; cbn [sbdata sbsize]; rewrite ?app_length, ?repeat_length; auto.
Qed.



Lemma sb_write_a_ok : forall ok xs b, sb_wf_a b ->
  exists b' r, sb_write_a ok xs b = Ok (b', r) /\ sb_wf_a b' /\
               (if r then sb_view b' = sb_view b ++ xs else sb_view b' = sb_view b).
Proof.
  intros ok xs b W. unfold sb_write_a. destruct (Nat.eqb_spec (length xs) 0) as [E|E].
  - apply length_zero_iff_nil in E. subst xs. exists b, true. rewrite app_nil_r. auto.
  - destruct (sb_prepare_a_ok ok (length xs) b W) as (k & r & -> & A & B). cbn [rbind fst snd].
    destruct b as [d s]; cbn [sbdata sbsize] in *. destruct r.
    + specialize (A eq_refl). unfold sb_poke; cbn [sbdata sbsize]. rewrite app_length, repeat_length.
      destruct (Nat.leb_spec (s + length xs) (length d + k)); [|lia]. cbn [rbind sbdata sbsize].
      destruct (sb_ext_wf_a d s k W ltac:(lia)) as (W' & V').
      destruct (sb_append_ok_a (d ++ repeat 0%Z k) s xs W' ltac:(rewrite app_length, repeat_length; lia)) as (W'' & V'').
      exists (mksb (overwrite s xs (d ++ repeat 0%Z k)) (s + length xs)), true. split; [reflexivity|]. split; [assumption|]. rewrite V'', V'. reflexivity.
    + rewrite (B eq_refl). cbn [repeat]. rewrite app_nil_r. exists (mksb d s), false. auto.
Qed.

(* write(a1, a2, ...) under a refusing allocator: the arguments before the first one that cannot be stored are
   written, the count returned says how many bytes that was, and nothing else changes *)
Theorem sb_write_parts_a_ok : forall ok parts written b, sb_wf_a b ->
  exists b' r k, sb_write_parts_a ok parts written b = Ok (b', r) /\ sb_wf_a b' /\ k <= length parts /\
    sb_view b' = sb_view b ++ concat (firstn k parts) /\
    ((k = length parts /\ r = BOkN true (written + length (concat parts))) \/
     r = BOkN false (written + length (concat (firstn k parts)))).
Proof.
  intros ok. induction parts as [|xs tl IH]; intros written b W; cbn [sb_write_parts_a].
  - exists b, (BOkN true written), 0. cbn. rewrite app_nil_r, Nat.add_0_r. split; [reflexivity|]. split; [assumption|]. split; [lia|]. split; [reflexivity|left; auto].
  - destruct (sb_write_a_ok ok xs b W) as (b1 & r1 & -> & W1 & V1). cbn [rbind fst snd]. destruct r1.
    + destruct (IH (written + length xs) b1 W1) as (b' & r & k & -> & W' & Hk & V' & R).
      exists b', r, (S k). split; [reflexivity|]. split; [assumption|]. split; [cbn; lia|]. split.
      * cbn [firstn concat]. rewrite V', V1, app_assoc. reflexivity.
      * cbn [firstn concat length]. rewrite !app_length. destruct R as [(-> & ->)| ->]; [left; split; [reflexivity|f_equal; lia]|right; f_equal; lia].
    + exists b1, (BOkN false written), 0. cbn [firstn concat length]. rewrite app_nil_r, Nat.add_0_r.
      split; [reflexivity|]. split; [assumption|]. split; [lia|]. split; [assumption|right; reflexivity].
Qed.

Theorem sb_step_a_refines : forall ok o b, sb_wf_a b -> sb_op_ok_a o ->
  match by_step o (sb_view b) with
  | Ok (l', r) => exists b' r', sb_step_a ok o b = Ok (b', r') /\ sb_wf_a b' /\
                                ((sb_view b' = l' /\ r' = r) \/ (sb_view b' = sb_view b /\ sb_failure o r'))
  | Trap t => sb_step_a ok o b = Trap t
  end.
Proof.
  intros ok o b W OK. destruct o; cbn [by_step sb_step_a]; cbn [sb_op_ok_a] in OK; try contradiction.
  - (* write *)
    destruct (sb_write_a_ok ok xs b W) as (b' & r & -> & W' & V'). cbn [rbind fst snd].
    do 2 eexists. split; [reflexivity|]. split; [assumption|]. destruct r; [left; auto|right; split; [assumption|reflexivity]].
  - (* writebyte *)
    destruct (Nat.eqb_spec n 0) as [E|E].
    + subst n. cbn [repeat]. rewrite app_nil_r. do 2 eexists. split; [reflexivity|]. split; [assumption|]. left; auto.
    + destruct (sb_prepare_a_ok ok n b W) as (k & r & -> & A & B). cbn [rbind fst snd].
      destruct b as [d s]; cbn [sbdata sbsize] in *. destruct r.
      * specialize (A eq_refl). unfold sb_poke; cbn [sbdata sbsize]. rewrite app_length, !repeat_length.
        destruct (Nat.leb_spec (s + n) (length d + k)); [|lia]. cbn [rbind sbdata sbsize].
        destruct (sb_ext_wf_a d s k W ltac:(lia)) as (W' & V').
        destruct (sb_append_ok_a (d ++ repeat 0%Z k) s (repeat c n) W' ltac:(rewrite app_length, !repeat_length; lia)) as (W'' & V'').
        rewrite repeat_length in W'', V''.
        do 2 eexists. split; [reflexivity|]. split; [assumption|]. left. rewrite V'', V'. auto.
      * rewrite (B eq_refl). cbn [repeat]. rewrite app_nil_r. do 2 eexists. split; [reflexivity|]. split; [assumption|].
        right. split; reflexivity.
  - (* prepare / write into the span / commit *)
    destruct (sb_prepare_a_ok ok n b W) as (k & r & -> & A & B). cbn [rbind fst snd].
    destruct b as [d s]; cbn [sbdata sbsize] in *. destruct r.
    + specialize (A eq_refl). destruct (Nat.ltb_spec (length d + k - s - 1) (length xs)); [lia|].
      unfold sb_poke; cbn [sbdata sbsize]. rewrite app_length, repeat_length.
      destruct (Nat.leb_spec (s + length xs) (length d + k)); [|lia]. cbn [rbind].
      unfold sb_commit; cbn [sbdata sbsize]. rewrite length_overwrite by (rewrite app_length, repeat_length; lia).
      rewrite app_length, repeat_length.
      destruct (Nat.ltb_spec (s + length xs) (length d + k)); [|lia]. rewrite orb_true_r. cbn [rbind].
      destruct (sb_ext_wf_a d s k W ltac:(lia)) as (W' & V').
      destruct (sb_append_ok_a (d ++ repeat 0%Z k) s xs W' ltac:(rewrite app_length, repeat_length; lia)) as (W'' & V'').
      do 2 eexists. split; [reflexivity|]. split; [assumption|]. left. rewrite V'', V'. auto.
    + rewrite (B eq_refl). cbn [repeat]. rewrite app_nil_r. unfold sb_commit; cbn [sbdata sbsize].
      rewrite Nat.add_0_r, Nat.eqb_refl. cbn [orb rbind].
      do 2 eexists. split; [reflexivity|]. split; [assumption|]. right. split; reflexivity.
  - (* rollback: no allocation *)
    cbn [sb_step]. rewrite sb_view_len_a by assumption. unfold sb_rollback.
    destruct (Nat.eqb_spec n 0) as [E|E].
    + subst n. destruct (Nat.ltb_spec (sbsize b) 0); [lia|]. rewrite Nat.sub_0_r. cbn [rbind].
      do 2 eexists. split; [reflexivity|]. split; [assumption|]. left. split; [|reflexivity].
      symmetry. rewrite <- (sb_view_len_a b W). apply firstn_all.
    + destruct (Nat.ltb_spec (sbsize b) n); [reflexivity|].
      destruct b as [d s]; cbn [sbdata sbsize] in *. sba_cases W; [cbn in *; lia|].
      rewrite sfill_ok by lia. cbn [rbind]. do 2 eexists. split; [reflexivity|]. split.
      * right. cbn [sbdata sbsize]. rewrite length_overwrite by (rewrite repeat_length; lia).
        split; [lia|]. intros i Hi Hl. rewrite nthe_overwrite_in by (rewrite repeat_length; lia).
        rewrite repeat_length, nthe_repeat. ltb_cases; try lia; try reflexivity. apply W3; lia.
      * left. split; [|reflexivity]. unfold sb_view; cbn [sbdata sbsize]. apply nth_error_ext; intro i.
        rewrite !nthe_firstn, nthe_overwrite_in by (rewrite repeat_length; lia). ltb_cases; nth_close.
  - (* resize *)
    destruct (sb_grow_a_ok ok n b W) as (k & r & -> & A & B). cbn [rbind].
    destruct b as [d s]; cbn [sbdata sbsize] in *. destruct r; cbn [negb].
    2:{ rewrite (B eq_refl). cbn [repeat]. rewrite app_nil_r. do 2 eexists. split; [reflexivity|]. split; [assumption|].
        right. split; reflexivity. }
    specialize (A eq_refl).
    destruct (sb_ext_wf_a d s k W ltac:(sba_cases W; cbn [length] in *; lia)) as (W' & V').
    set (d' := d ++ repeat 0%Z k) in *. assert (n < length d') as Ld by (unfold d'; rewrite app_length, repeat_length; lia).
    assert (forall i, s <= i -> i < length d' -> nth_error d' i = Some 0%Z) as Z'.
    { destruct W' as [[E _]|(_ & Z')]; cbn [sbdata sbsize] in *; [rewrite E in Ld; cbn in Ld; lia|assumption]. }
    assert (s < length d') as Ls.
    { destruct W' as [[E _]|(X & _)]; cbn [sbdata sbsize] in *; [rewrite E in Ld; cbn in Ld; lia|auto]. }
    rewrite <- V'. unfold sb_view; cbn [sbdata sbsize]. rewrite firstn_length. replace (Nat.min s (length d')) with s by lia.
    destruct (Nat.ltb_spec n s).
    + rewrite sfill_ok by lia. cbn [rbind]. do 2 eexists. split; [reflexivity|]. split.
      * right. cbn [sbdata sbsize]. rewrite length_overwrite by (rewrite repeat_length; lia).
        split; [assumption|]. intros i Hi Hl. rewrite nthe_overwrite_in by (rewrite repeat_length; lia).
        rewrite repeat_length, nthe_repeat. ltb_cases; try lia; try reflexivity. apply Z'; lia.
      * left. split; [|reflexivity]. unfold sb_view; cbn [sbdata sbsize]. apply nth_error_ext; intro i.
        rewrite nthe_firstn, nthe_overwrite_in, nthe_app, !nthe_firstn, !firstn_length, nthe_repeat by (rewrite repeat_length; lia).
        replace (Nat.min n (Nat.min s (length d'))) with n by lia. rewrite ?nthe_repeat. ltb_cases; nth_close.
    + cbn [rbind]. do 2 eexists. split; [reflexivity|]. split.
      * right. cbn [sbdata sbsize]. split; [assumption|]. intros i Hi Hl. apply Z'; lia.
      * left. split; [|reflexivity]. unfold sb_view; cbn [sbdata sbsize]. apply nth_error_ext; intro i.
        rewrite nthe_firstn, nthe_app, !nthe_firstn, !firstn_length, nthe_repeat.
        replace (Nat.min n (Nat.min s (length d'))) with s by lia.
        ltb_cases; nth_close; try (apply Z'; lia).
  - (* clear: no allocation *)
    cbn [sb_step]. unfold sb_clear. destruct b as [d s]; cbn [sbdata sbsize] in *.
    destruct (Nat.ltb_spec 0 s).
    + sba_cases W; [lia|]. rewrite sfill_ok by lia. cbn [rbind]. do 2 eexists. split; [reflexivity|]. split; [|left; split; reflexivity].
      right. cbn [sbdata sbsize]. rewrite length_overwrite by (rewrite repeat_length; lia).
      split; [lia|]. intros i Hi Hl. rewrite nthe_overwrite_in by (rewrite repeat_length; lia).
      rewrite repeat_length, nthe_repeat. ltb_cases; try lia; try reflexivity. apply W3; lia.
    + cbn [rbind]. assert (s = 0) by lia. subst s. do 2 eexists. split; [reflexivity|]. split; [assumption|]. left; split; reflexivity.
  - (* promote *)
    cbn [sb_step]. do 2 eexists. split; [reflexivity|]. split; [left; auto|]. left; split; reflexivity.
  - (* prepare *)
    destruct (sb_prepare_a_ok ok n b W) as (k & r & -> & A & B). cbn [rbind fst snd].
    destruct b as [d s]; cbn [sbdata sbsize] in *. destruct r.
    + destruct (sb_ext_wf_a d s k W ltac:(specialize (A eq_refl); lia)) as (W' & V'). do 2 eexists. split; [reflexivity|]. split; [assumption|]. left; auto.
    + rewrite (B eq_refl). cbn [repeat]. rewrite app_nil_r. do 2 eexists. split; [reflexivity|]. split; [assumption|]. right; split; reflexivity.
  - (* destroy *)
    cbn [sb_step]. do 2 eexists. split; [reflexivity|]. split; [left; auto|]. left; split; reflexivity.
Qed.

(* in both outcomes the terminating NUL stays in place *)
Theorem sb_nul_slot_zero_a : forall b, sb_wf_a b -> sbdata b <> [] -> sb_nul_slot b = Some 0%Z.
Proof.
  intros b W NE. unfold sb_nul_slot. destruct W as [[E _]|(A & Z)]; [contradiction|]. apply Z; lia.
Qed.
