(* C18 - Model.v refines the documented reference semantics of Spec.v. *)
From Coq Require Import List Arith ZArith Bool String Lia.
From C18 Require Import Gen Model Spec ProofsBase ProofsStorage ProofsInv ProofsErr ProofsTrans ProofsFuel ProofsReg ProofsOps.
Import ListNotations.
Local Open Scope list_scope.

(* ------------------------------------------------------------------ the abstraction function *)
Definition absco (c : co) : sco :=
  mkS (if cstate_eqb (co_st c) Dead then SDeadF else SSusp) (storage c) (co_cap c) (co_depth c)
      (co_started c) (co_argsz c) (co_hasret c).

Definition absE (e : nat * co) : nat * sco := (fst e, absco (snd e)).

(* the prev chain from [cur], as a list (the stack of active resumes) *)
Fixpoint chain_of (fuel : nat) (l : list (nat * co)) (cur : option nat) : list nat :=
  match fuel with
  | O => []
  | S f =>
    match cur with
    | None => []
    | Some k => match get k l with None => [] | Some c => k :: chain_of f l (co_prev c) end
    end
  end.

Definition stack_of (s : state) : list nat := chain_of (S (List.length (cos s))) (cos s) (current s).

Definition absS (s : state) : sstate :=
  mkSS (map absE (cos s)) (stack_of s) (mdepth s) (gcon s) (halted s).

(* ---- association lists commute with the abstraction *)
Lemma abs_get : forall l k, sget k (map absE l) = option_map absco (get k l).
Proof.
  induction l as [|[j c] r IH]; intro k; simpl; [reflexivity|]. destruct (Nat.eqb j k); [reflexivity|apply IH].
Qed.

Lemma abs_put : forall l k c, map absE (put k c l) = sput k (absco c) (map absE l).
Proof.
  induction l as [|[j d] r IH]; intros k c; simpl; [reflexivity|].
  destruct (Nat.eqb j k); simpl; [reflexivity|]. f_equal. apply IH.
Qed.

Lemma abs_del : forall l k, map absE (del k l) = sdel k (map absE l).
Proof.
  induction l as [|[j d] r IH]; intro k; simpl; [reflexivity|].
  destruct (Nat.eqb j k); simpl; [reflexivity|]. f_equal. apply IH.
Qed.

Lemma sput_sget_id : forall l k c, sget k l = Some c -> sput k c l = l.
Proof.
  induction l as [|[j d] r IH]; intros k c H; simpl in *; [discriminate|].
  destruct (Nat.eqb j k) eqn:E; [apply Nat.eqb_eq in E; subst; congruence|]. f_equal. apply IH. assumption.
Qed.

Lemma abs_put_same : forall l k c c', get k l = Some c -> absco c' = absco c -> map absE (put k c' l) = map absE l.
Proof.
  intros l k c c' G E. rewrite abs_put, E. apply sput_sget_id. rewrite abs_get, G. reflexivity.
Qed.

(* ---- the stack is the prev chain *)
Lemma chain_of_complete : forall l cur ch, chain l cur ch -> forall fuel, List.length ch < fuel -> chain_of fuel l cur = ch.
Proof.
  induction 1; intros fuel L.
  - destruct fuel; reflexivity.
  - destruct fuel; [simpl in L; lia|]. simpl. rewrite H. f_equal. apply IHchain. simpl in L. lia.
Qed.

Lemma stack_of_chain : forall s ch, Inv s -> chain (cos s) (current s) ch -> stack_of s = ch.
Proof.
  intros s ch I C. unfold stack_of. apply chain_of_complete; [exact C|].
  pose proof (chain_length_le _ _ I C). lia.
Qed.

Lemma Inv_stack : forall s, Inv s -> chain (cos s) (current s) (stack_of s).
Proof.
  intros s I. pose proof I as (_ & _ & ch & C & _). rewrite (stack_of_chain _ _ I C). exact C.
Qed.

Lemma stack_head : forall s, Inv s -> hd_error (stack_of s) = current s.
Proof. intros s I. symmetry. eapply chain_head. apply Inv_stack. assumption. Qed.

(* membership in the stack = Running or Normal *)
Lemma stack_mem : forall s k c, Inv s -> get k (cos s) = Some c ->
  existsb (Nat.eqb k) (stack_of s) = negb (cstate_eqb (co_st c) Suspended || cstate_eqb (co_st c) Dead).
Proof.
  intros s k c I G. pose proof (Inv_stack s I) as C. pose proof I as (_ & _ & ch & C' & N & S).
  rewrite (chain_functional _ _ _ C' _ C) in *. clear C' ch.
  destruct (S k c G) as (S1 & S2 & S3).
  destruct (in_dec Nat.eq_dec k (stack_of s)) as [X|X].
  - assert (E : existsb (Nat.eqb k) (stack_of s) = true) by (apply existsb_exists; exists k; split; [exact X|apply Nat.eqb_refl]).
    rewrite E. destruct (stack_of s) as [|h t] eqn:Es; [contradiction|].
    pose proof (chain_head _ _ _ C) as Hh. simpl in Hh. destruct X as [->|X].
    + rewrite (S1 Hh). reflexivity.
    + simpl in S2. rewrite (S2 X). reflexivity.
  - assert (E : existsb (Nat.eqb k) (stack_of s) = false).
    { destruct (existsb (Nat.eqb k) (stack_of s)) eqn:E; [|reflexivity].
      apply existsb_exists in E. destruct E as (x & Ix & Ex). apply Nat.eqb_eq in Ex. subst. contradiction. }
    rewrite E. destruct (S3 X) as ([Y|Y] & _); rewrite Y; reflexivity.
Qed.

(* the resumer of k is the element below k in the stack *)
Lemma chain_below : forall l cur ch, chain l cur ch -> NoDup ch -> forall k c, get k l = Some c -> In k ch -> below k ch = co_prev c.
Proof.
  induction 1; intros N j d G I; [contradiction|].
  simpl. inversion N; subst. destruct (Nat.eqb k j) eqn:E.
  - apply Nat.eqb_eq in E. subst j. rewrite H in G. inversion G; subst. symmetry. eapply chain_head. eassumption.
  - apply Nat.eqb_neq in E. destruct I as [->|I]; [contradiction|]. apply IHchain; assumption.
Qed.

Lemma below_notin : forall st k, ~ In k st -> below k st = None.
Proof.
  induction st as [|a r IH]; intros k N; simpl; [reflexivity|].
  destruct (Nat.eqb a k) eqn:E; [apply Nat.eqb_eq in E; subst; exfalso; apply N; left; reflexivity|].
  apply IH. intro X. apply N. right. exact X.
Qed.

Lemma stack_below : forall s k c, Inv s -> get k (cos s) = Some c -> below k (stack_of s) = co_prev c.
Proof.
  intros s k c I G. pose proof (Inv_stack s I) as C. pose proof I as (_ & _ & ch & C' & N & S).
  rewrite (chain_functional _ _ _ C' _ C) in *.
  destruct (in_dec Nat.eq_dec k (stack_of s)) as [X|X].
  - eapply chain_below; eauto.
  - rewrite below_notin by assumption. destruct (S k c G) as (_ & _ & S3). symmetry. apply S3. exact X.
Qed.

(* ---- documented strings = the strings of the source *)
Lemma spec_strings :
  describe MCO_INVALID_COROUTINE = E_INVALID_CO /\ describe MCO_NOT_SUSPENDED = E_NOT_SUSPENDED /\
  describe MCO_NOT_ENOUGH_SPACE = E_NO_SPACE /\ describe MCO_INVALID_OPERATION = E_INVALID_OP /\
  PANIC_POP_ARG = P_POP_ARG /\ PANIC_PUSH_RET = P_PUSH_RET.
Proof. vm_compute. repeat split; reflexivity. Qed.

Definition abs_res (r : cres) : sres :=
  match r with COk => SOk | CErr e => SErr (describe e) | CPanic m => SPanic m end.

Lemma abs_res_fields : forall r, cres_fields r = sres_fields (abs_res r).
Proof. destruct r; reflexivity. Qed.

(* ---- the shape of the stack around a coroutine, from its state *)
Lemma stack_shape : forall s k c, Inv s -> get k (cos s) = Some c ->
  match co_st c with
  | Running => current s = Some k /\ exists rest, stack_of s = k :: rest
  | Normal => exists top rest, stack_of s = top :: rest /\ top <> k /\ existsb (Nat.eqb k) rest = true
  | _ => existsb (Nat.eqb k) (stack_of s) = false
  end.
Proof.
  intros s k c I G. pose proof (stack_mem s k c I G) as M. pose proof (stack_head s I) as Hd.
  pose proof (Inv_stack s I) as C. pose proof I as (_ & _ & ch & C' & N & S).
  rewrite (chain_functional _ _ _ C' _ C) in *. clear C' ch. destruct (S k c G) as (S1 & S2 & S3).
  destruct (co_st c) eqn:Ec; simpl in M; try exact M.
  - (* Normal *)
    destruct (stack_of s) as [|top rest] eqn:Es; [discriminate|]. exists top, rest. split; [reflexivity|].
    simpl in Hd. assert (T : top <> k) by (intro; subst; discriminate (S1 (eq_sym Hd))).
    split; [exact T|]. simpl in M. replace (Nat.eqb k top) with false in M by (symmetry; apply Nat.eqb_neq; auto). exact M.
  - (* Running *)
    destruct (stack_of s) as [|top rest] eqn:Es; [discriminate|]. simpl in Hd.
    destruct (Nat.eq_dec top k) as [->|T]; [split; [auto|eauto]|].
    exfalso. simpl in M. replace (Nat.eqb k top) with false in M by (symmetry; apply Nat.eqb_neq; auto). simpl in M.
    apply existsb_exists in M. destruct M as (x & Ix & Ex). apply Nat.eqb_eq in Ex. subst x.
    simpl in S2. discriminate (S2 Ix).
Qed.

Lemma status_agrees : forall s k, Inv s -> co_status k s = spec_status k (absS s).
Proof.
  intros s k I. unfold co_status, spec_status. simpl. rewrite abs_get.
  destruct (get k (cos s)) as [c|] eqn:G; simpl; [|vm_compute; reflexivity].
  pose proof (stack_shape s k c I G) as Sh.
  destruct (co_st c) eqn:Ec.
  - destruct (stack_of s) as [|top rest]; [vm_compute; reflexivity|]. simpl in Sh.
    destruct (Nat.eqb top k) eqn:E; [rewrite Nat.eqb_sym in E; rewrite E in Sh; discriminate|].
    rewrite Nat.eqb_sym in E. rewrite E in Sh. simpl in Sh. rewrite Sh. vm_compute. reflexivity.
  - destruct Sh as (top & rest & -> & T & Ex). replace (Nat.eqb top k) with false by (symmetry; apply Nat.eqb_neq; auto).
    rewrite Ex. vm_compute. reflexivity.
  - destruct Sh as (_ & rest & ->). rewrite Nat.eqb_refl. vm_compute. reflexivity.
  - destruct (stack_of s) as [|top rest]; [vm_compute; reflexivity|]. simpl in Sh.
    destruct (Nat.eqb top k) eqn:E; [rewrite Nat.eqb_sym in E; rewrite E in Sh; discriminate|].
    rewrite Nat.eqb_sym in E. rewrite E in Sh. simpl in Sh. rewrite Sh. vm_compute. reflexivity.
Qed.

(* ---- how the abstraction moves through the updates of the model *)
Lemma same_ctl_stack : forall s s', Inv s -> same_ctl s s' -> stack_of s' = stack_of s.
Proof.
  intros s s' I S. apply stack_of_chain; [eapply same_ctl_Inv; eauto|].
  rewrite (same_ctl_current _ _ S). eapply same_ctl_chain; [exact S|]. apply Inv_stack. assumption.
Qed.

Lemma absS_same_ctl : forall s s', Inv s -> same_ctl s s' ->
  absS s' = mkSS (map absE (cos s')) (stack_of s) (mdepth s') (gcon s') (halted s').
Proof. intros s s' I S. unfold absS. rewrite (same_ctl_stack _ _ I S). reflexivity. Qed.

Lemma absco_norm : forall c S, absco (mk_norm c S) = sc_with_store (absco c) S.
Proof. intros. unfold absco, sc_with_store. simpl. rewrite norm_storage. reflexivity. Qed.

Lemma with_st_same_ctl : forall s k c S, get k (cos s) = Some c -> List.length S <= co_cap c -> same_ctl s (with_st s k c S).
Proof.
  intros s k c S G L. unfold with_st. eapply same_ctl_put; eauto. intros _. apply norm_wf. assumption.
Qed.

Lemma abs_with_st : forall s k c S, Inv s -> get k (cos s) = Some c -> List.length S <= co_cap c ->
  absS (with_st s k c S) = ss_set_cos (absS s) (sput k (sc_with_store (absco c) S) (ss_cos (absS s))).
Proof.
  intros s k c S I G L. rewrite (absS_same_ctl s _ I (with_st_same_ctl s k c S G L)).
  unfold with_st, ss_set_cos. simpl. rewrite abs_put, absco_norm. reflexivity.
Qed.

Lemma absco_store : forall c, sc_store (absco c) = storage c.
Proof. reflexivity. Qed.

(* ---- coroutine.push *)
Lemma fit_total : forall cap vals S, List.length S <= cap ->
  snd (fit cap S vals) = if Nat.ltb cap (List.length S + List.length (List.concat vals)) then MCO_NOT_ENOUGH_SPACE else MCO_SUCCESS.
Proof.
  intros cap vals. induction vals as [|v r IH]; intros S L; simpl.
  - rewrite Nat.add_0_r. replace (Nat.ltb cap (List.length S)) with false by (symmetry; apply Nat.ltb_ge; lia). reflexivity.
  - rewrite app_length. destruct (Nat.eqb (List.length v) 0) eqn:E0.
    + apply Nat.eqb_eq in E0. rewrite E0. simpl. apply IH. assumption.
    + destruct (Nat.ltb cap (List.length S + List.length v)) eqn:E1.
      * apply Nat.ltb_lt in E1. simpl.
        replace (Nat.ltb cap (List.length S + (List.length v + List.length (List.concat r)))) with true
          by (symmetry; apply Nat.ltb_lt; lia). reflexivity.
      * apply Nat.ltb_ge in E1. rewrite IH by (rewrite app_length; lia). rewrite app_length.
        replace (List.length S + List.length v + List.length (List.concat r))
          with (List.length S + (List.length v + List.length (List.concat r))) by lia. reflexivity.
Qed.

Lemma push_refines : forall s k vals r s', Inv s -> co_push k vals s = (r, s') ->
  sp_push k vals (absS s) = (abs_res r, absS s').
Proof.
  intros s k vals r s' I H. destruct spec_strings as (X1 & X2 & X3 & X4 & X5 & X6).
  unfold sp_push. simpl ss_cos. rewrite abs_get. destruct (get k (cos s)) as [c|] eqn:G; simpl.
  - pose proof (Inv_wf _ _ _ I G) as W. pose proof (wf_cap c W) as L.
    pose proof (co_push_ws s k c vals (storage c) L) as P. rewrite (ws_id s k c G W) in P. rewrite P in H.
    rewrite (fit_total _ _ _ L) in H.
    destruct (Nat.ltb (co_cap c) (List.length (storage c) + List.length (List.concat vals))) eqn:E.
    + inversion H; subst. simpl. rewrite X3. reflexivity.
    + inversion H; subst. simpl. f_equal. apply Nat.ltb_ge in E.
      rewrite abs_with_st by (try assumption; rewrite app_length; lia). reflexivity.
  - rewrite co_push_nil in H by assumption. inversion H; subst. destruct vals; simpl; [reflexivity|]. rewrite X1. reflexivity.
Qed.

(* ---- coroutine.pop *)
Lemma pop_loop_ws_v : forall s k c rlens S acc,
  List.length S <= co_cap c ->
  pop_loop k rlens acc (with_st s k c S) =
    (let '(S', ok, vs) := spopv S rlens acc in
     ((if ok then MCO_SUCCESS else MCO_NOT_ENOUGH_SPACE), vs, with_st s k c S')).
Proof.
  intros s k c rlens. induction rlens as [|n r IH]; intros S acc H.
  - reflexivity.
  - cbn [pop_loop spopv]. rewrite mco_pop_ws by assumption.
    destruct (Nat.eqb n 0); cbn [is_success]; [apply IH; assumption|].
    destruct (Nat.ltb (List.length S) n); cbn [is_success]; [reflexivity|].
    apply IH. rewrite firstn_length. lia.
Qed.

Lemma spopv_length : forall rlens S acc, List.length (fst (fst (spopv S rlens acc))) <= List.length S.
Proof.
  induction rlens as [|n r IH]; intros S acc; simpl; [lia|].
  destruct (Nat.eqb n 0); [apply IH|]. destruct (Nat.ltb (List.length S) n); simpl; [lia|].
  eapply Nat.le_trans; [apply IH|]. rewrite firstn_length. lia.
Qed.

Lemma pop_refines : forall s k lens r vs s', Inv s -> co_pop k lens s = (r, vs, s') ->
  sp_pop k lens (absS s) = (abs_res r, vs, absS s').
Proof.
  intros s k lens r vs s' I H. destruct spec_strings as (X1 & X2 & X3 & X4 & X5 & X6).
  unfold sp_pop. simpl ss_cos. rewrite abs_get. destruct (get k (cos s)) as [c|] eqn:G; simpl.
  - pose proof (Inv_wf _ _ _ I G) as W. pose proof (wf_cap c W) as L.
    unfold co_pop in H. rewrite <- (ws_id s k c G W) in H at 1. rewrite pop_loop_ws_v in H by assumption.
    pose proof (spopv_length (rev lens) (storage c) []) as SL.
    destruct (spopv (storage c) (rev lens) []) as [[S' ok] v0] eqn:E. simpl in SL.
    destruct ok; cbn [is_success] in H; inversion H; subst; simpl; rewrite ?X3; f_equal;
      rewrite abs_with_st by (try assumption; lia); reflexivity.
  - rewrite co_pop_nil in H by assumption. inversion H; subst. destruct (rev lens); simpl; [reflexivity|]. rewrite X1. reflexivity.
Qed.

(* ---- coroutine.resume *)
Lemma absco_ctl_irrelevant : forall c x p, x <> Dead -> co_st c <> Dead ->
  absco (set_prev (set_st c x) p) = absco c.
Proof.
  intros c x p Nx Nc. unfold absco. simpl.
  destruct x; try contradiction; destruct (co_st c); try contradiction; reflexivity.
Qed.

Lemma abs_set_state_of : forall l p x, x <> Dead -> (forall c, get p l = Some c -> co_st c <> Dead) ->
  map absE (set_state_of p x l) = map absE l.
Proof.
  intros l p x Nx H. unfold set_state_of. destruct (get p l) as [c|] eqn:G; [|reflexivity].
  eapply abs_put_same; [exact G|]. specialize (H c eq_refl).
  unfold absco. simpl. destruct x; try contradiction; destruct (co_st c); try contradiction; reflexivity.
Qed.

Lemma resume_abs : forall k s s', Inv s -> mco_resume k s = (MCO_SUCCESS, s') ->
  absS s' = ss_set_stack (absS s) (k :: stack_of s).
Proof.
  intros k s s' I H. pose proof (mco_resume_Inv _ _ _ I H) as I'.
  pose proof (Inv_stack s I) as C. pose proof I as (I1 & I2 & ch & C' & N & S).
  rewrite (chain_functional _ _ _ C' _ C) in *. clear C' ch.
  unfold mco_resume in H. destruct (get k (cos s)) as [c|] eqn:G; [|discriminate].
  destruct (cstate_eqb (co_st c) Suspended) eqn:E; simpl in H; [|discriminate].
  apply cstate_eqb_eq in E. inversion H; subst s'; clear H.
  assert (Hk : ~ In k (stack_of s)) by (eapply not_in_chain; eauto).
  set (c1 := set_prev (set_st c Running) (current s)) in *.
  set (l2 := match current s with Some p => set_state_of p Normal (put k c1 (cos s)) | None => put k c1 (cos s) end) in *.
  assert (GET : forall j, j <> k -> exists f, get j l2 = option_map f (get j (cos s)) /\ forall d, co_prev (f d) = co_prev d).
  { intros j Nj. unfold l2. destruct (current s) as [p|].
    - rewrite get_set_state_of. destruct (Nat.eqb p j) eqn:Ep.
      + apply Nat.eqb_eq in Ep. subst j. rewrite get_put_other by auto.
        exists (fun d => set_st d Normal). split; [reflexivity|reflexivity].
      + rewrite get_put_other by auto. exists (fun d => d). split; [destruct (get j (cos s)); reflexivity|reflexivity].
    - rewrite get_put_other by auto. exists (fun d => d). split; [destruct (get j (cos s)); reflexivity|reflexivity]. }
  assert (Gk : get k l2 = Some c1).
  { unfold l2. destruct (current s) as [p|] eqn:Ecur; [|apply get_put_same].
    rewrite get_set_state_of. destruct (Nat.eqb p k) eqn:Ep; [|apply get_put_same].
    apply Nat.eqb_eq in Ep. subst p. exfalso. apply Hk.
    pose proof (chain_head _ _ _ C) as Hh. destruct (stack_of s); simpl in Hh; inversion Hh. left. reflexivity. }
  assert (C2 : chain l2 (Some k) (k :: stack_of s)).
  { econstructor; [exact Gk|]. simpl. eapply chain_ext; [|exact C].
    intros j d Ij Gj. assert (Nj : j <> k) by (intro; subst; contradiction).
    destruct (GET j Nj) as (f & A & B). rewrite A, Gj. simpl. eexists. split; [reflexivity|apply B]. }
  unfold absS, ss_set_stack. simpl. f_equal.
  - (* the objects look the same: only who is active changed *)
    fold l2. unfold l2. destruct (current s) as [p|] eqn:Ecur.
    + rewrite abs_set_state_of; [|discriminate|].
      * eapply abs_put_same; [exact G|]. apply absco_ctl_irrelevant; [discriminate|congruence].
      * intros d Gd. destruct (current_running s p I Ecur) as (cp & Gp & Rp).
        assert (Hpk : p <> k) by (intro; subst; rewrite G in Gp; inversion Gp; subst; congruence).
        rewrite get_put_other in Gd by auto. rewrite Gp in Gd. inversion Gd; subst. congruence.
    + eapply abs_put_same; [exact G|]. apply absco_ctl_irrelevant; [discriminate|congruence].
  - apply (stack_of_chain _ _ I'). simpl. exact C2.
Qed.

Lemma resume_refines : forall s k vals r s', Inv s -> co_resume k vals s = (r, s') ->
  sp_resume k vals (absS s) = (abs_res r, absS s').
Proof.
  intros s k vals r s' I H. destruct spec_strings as (X1 & X2 & X3 & X4 & X5 & X6).
  pose proof (co_resume_cases _ _ _ _ _ I H) as CC.
  destruct (match vals with [] => (COk, s) | _ :: _ => co_push k vals s end) as [r1 s1] eqn:P.
  assert (PS : (match vals with [] => (SOk, absS s) | _ :: _ => sp_push k vals (absS s) end) = (abs_res r1, absS s1))
    by (destruct vals; [inversion P; reflexivity|eapply push_refines; eauto]).
  assert (S1 : same_ctl s s1) by (destruct vals; [inversion P; subst; apply same_ctl_refl|eapply co_push_same; eauto]).
  pose proof (same_ctl_Inv _ _ S1 I) as I1.
  unfold sp_resume. rewrite PS. unfold co_resume, co_resume_with in H. rewrite P, resume_rolls_back in H.
  destruct r1; simpl abs_res.
  - destruct (mco_resume k s1) as [e s2] eqn:R. simpl ss_cos. rewrite abs_get.
    unfold s_active. simpl ss_stack. rewrite <- (same_ctl_stack _ _ I S1).
    pose proof R as R0. unfold mco_resume in R.
    destruct (get k (cos s1)) as [c1|] eqn:G1; simpl.
    + pose proof (stack_mem s1 k c1 I1 G1) as M. rewrite M.
      destruct (cstate_eqb (co_st c1) Suspended) eqn:E; simpl in R.
      * inversion R; subst e. simpl in H. inversion H; subst r s'. simpl.
        apply cstate_eqb_eq in E. unfold absco. simpl. rewrite E. simpl.
        f_equal. symmetry. apply (resume_abs k s1 s2 I1 R0).
      * inversion R; subst e s2. simpl in H.
        assert (Hr : r = CErr MCO_NOT_SUSPENDED) by (destruct vals; [inversion H; reflexivity|
          destruct (mco_pop k false (List.length (List.concat (l :: vals))) s1) as [[? ?] ?]; inversion H; reflexivity]).
        destruct CC as [(Y & _)|(_ & ->)]; [congruence|]. subst r. simpl. rewrite X2.
        destruct (cstate_eqb (co_st c1) Dead) eqn:Ed; simpl; reflexivity.
    + inversion R; subst e s2. simpl in H.
      assert (Hr : r = CErr MCO_INVALID_COROUTINE) by (destruct vals; [inversion H; reflexivity|
        destruct (mco_pop k false (List.length (List.concat (l :: vals))) s1) as [[? ?] ?]; inversion H; reflexivity]).
      destruct CC as [(Y & _)|(_ & ->)]; [congruence|]. subst r. simpl. rewrite X1. reflexivity.
  - inversion H; subst r s'. destruct CC as [(Y & _)|(_ & ->)]; [discriminate|]. reflexivity.
  - inversion H; subst r s'. destruct CC as [(Y & _)|((e & Y) & _)]; discriminate.
Qed.

(* ---- yield / return: the running coroutine leaves the stack *)
Lemma stack_running : forall s k, Inv s -> current s = Some k -> exists rest, stack_of s = k :: rest.
Proof.
  intros s k I E. pose proof (stack_head s I) as Hd. rewrite E in Hd.
  destruct (stack_of s) as [|a r]; simpl in Hd; inversion Hd. eauto.
Qed.

Lemma jumpout_abs : forall k c0 x s,
  Inv s -> current s = Some k -> get k (cos s) = Some c0 -> (x = Suspended \/ x = Dead) ->
  absS (jumpout k (set_st c0 x) s) =
    mkSS (sput k (absco (set_prev (set_st c0 x) None)) (map absE (cos s))) (tl (stack_of s)) (mdepth s) (gcon s) (halted s).
Proof.
  intros k c0 x s I Ecur G Hx. pose proof (jumpout_Inv k c0 x s I Ecur G Hx) as I'.
  destruct (stack_running s k I Ecur) as (rest & Es).
  pose proof (Inv_stack s I) as C. rewrite Ecur, Es in C.
  pose proof (jumpout_chain k c0 x s rest I Ecur G C) as C'.
  unfold absS. rewrite (stack_of_chain _ _ I' C'). rewrite Es. simpl tl.
  unfold jumpout. simpl. f_equal.
  destruct (co_prev c0) as [p|] eqn:P; [|apply abs_put].
  destruct (current_prev_normal _ _ _ _ I Ecur G P) as (Hpk & cp & Gp & Np).
  rewrite abs_set_state_of; [apply abs_put|discriminate|].
  intros d Gd. rewrite get_put_other in Gd by auto. rewrite Gp in Gd. inversion Gd; subst. congruence.
Qed.

Lemma stack_empty : forall s, Inv s -> current s = None -> stack_of s = [].
Proof.
  intros s I E. pose proof (stack_head s I) as Hd. rewrite E in Hd. destruct (stack_of s); [reflexivity|discriminate].
Qed.

Lemma yield_refines : forall s vals r s', Inv s -> co_yield vals s = (r, s') ->
  sp_yield vals (absS s) = (abs_res r, absS s').
Proof.
  intros s vals r s' I H. destruct spec_strings as (X1 & X2 & X3 & X4 & X5 & X6).
  unfold sp_yield, co_yield in *. simpl ss_stack.
  destruct (current s) as [k|] eqn:Ecur.
  - destruct (stack_running s k I Ecur) as (rest & Es). rewrite Es.
    destruct (match vals with [] => (COk, s) | _ :: _ => co_push k vals s end) as [r1 s1] eqn:P.
    assert (PS : (match vals with [] => (SOk, absS s) | _ :: _ => sp_push k vals (absS s) end) = (abs_res r1, absS s1))
      by (destruct vals; [inversion P; reflexivity|eapply push_refines; eauto]).
    assert (S1 : same_ctl s s1) by (destruct vals; [inversion P; subst; apply same_ctl_refl|eapply co_push_same; eauto]).
    pose proof (same_ctl_Inv _ _ S1 I) as I1. rewrite PS.
    destruct r1; simpl abs_res.
    + assert (E1 : current s1 = Some k) by (rewrite (same_ctl_current _ _ S1); assumption).
      destruct (current_running s1 k I1 E1) as (c1 & G1 & R1).
      unfold mco_yield_running in H. rewrite E1, G1, R1 in H. simpl in H. inversion H; subst r s'. simpl. f_equal.
      rewrite (jumpout_abs k c1 Suspended s1 I1 E1 G1 (or_introl eq_refl)).
      rewrite (same_ctl_stack _ _ I S1), Es. simpl tl. unfold ss_set_stack, absS. simpl.
      f_equal.
      symmetry. apply sput_sget_id. rewrite abs_get, G1. simpl. f_equal. unfold absco. simpl. rewrite R1. reflexivity.
    + inversion H; subst r s'. simpl. f_equal. f_equal. symmetry.
      destruct vals; [inversion P|]. eapply push_rollback; eauto.
    + inversion H; subst r s'. exfalso. destruct vals; [inversion P|].
      unfold co_push in P. destruct (push_loop k (l :: vals) 0 s) as [[e0 p0] s0].
      destruct (is_success e0); [inversion P|]. destruct (mco_pop k false p0 s0) as [[? ?] ?]. inversion P.
  - rewrite (stack_empty s I Ecur). inversion H; subst. simpl. rewrite X1. reflexivity.
Qed.

(* ---- destroy / close / forget *)
Lemma del_abs : forall s k c, Inv s -> get k (cos s) = Some c -> (co_st c = Suspended \/ co_st c = Dead) ->
  absS (set_cos s (del k (cos s))) = ss_set_cos (absS s) (sdel k (ss_cos (absS s))).
Proof.
  intros s k c I G Hc.
  assert (D : mco_destroy k s = (MCO_SUCCESS, set_cos s (del k (cos s)))).
  { unfold mco_destroy. rewrite G. destruct Hc as [-> | ->]; reflexivity. }
  pose proof (mco_destroy_Inv _ _ _ _ I D) as I'.
  pose proof (Inv_stack s I) as C. pose proof I as (I1 & _ & ch & C0 & N & S).
  rewrite (chain_functional _ _ _ C0 _ C) in *.
  assert (Hk : ~ In k (stack_of s)) by (eapply not_in_chain; eauto).
  assert (C' : chain (del k (cos s)) (current s) (stack_of s)).
  { eapply chain_ext; [|exact C]. intros j d Ij Gj. rewrite get_del by assumption.
    replace (Nat.eqb k j) with false by (symmetry; apply Nat.eqb_neq; intro; subst; contradiction). eauto. }
  unfold absS at 1. rewrite (stack_of_chain _ _ I' C'). unfold ss_set_cos. simpl. rewrite abs_del. reflexivity.
Qed.

Lemma destroy_refines : forall s k r s', Inv s -> regok s -> co_destroy k s = (r, s') ->
  sp_destroy k (absS s) = (abs_res r, absS s').
Proof.
  intros s k r s' I R H. destruct spec_strings as (X1 & X2 & X3 & X4 & X5 & X6).
  unfold sp_destroy, s_active. simpl ss_cos. simpl ss_stack. rewrite abs_get.
  destruct (get k (cos s)) as [c|] eqn:G; simpl.
  - rewrite (stack_mem s k c I G).
    destruct (cstate_eqb (co_st c) Suspended || cstate_eqb (co_st c) Dead) eqn:E; simpl.
    + assert (Hc : co_st c = Suspended \/ co_st c = Dead).
      { apply orb_true_iff in E. destruct E as [E|E]; apply cstate_eqb_eq in E; auto. }
      rewrite (destroy_idle s k c G Hc) in H by (intro Eg; rewrite (R k c G); exact Eg).
      inversion H; subst. simpl. f_equal. symmetry. eapply del_abs; eauto.
    + assert (Hc : co_st c = Running \/ co_st c = Normal).
      { destruct (co_st c); simpl in E; try discriminate; auto. }
      rewrite (destroy_active s k c G Hc) in H. inversion H; subst. simpl. rewrite X4. reflexivity.
  - rewrite (destroy_nil s k G) in H. inversion H; subst. simpl. rewrite X1. reflexivity.
Qed.

(* ---- small agreements used by the printed lines *)
Lemma who_agrees : forall s, Inv s -> s_running (absS s) = current s.
Proof. intros s I. unfold s_running. simpl. apply stack_head. assumption. Qed.

Lemma depth_agrees : forall s w, s_depth_of w (absS s) = depth_of w s.
Proof.
  intros s w. unfold s_depth_of, depth_of. destruct w as [k|]; [|reflexivity].
  simpl. rewrite abs_get. destruct (get k (cos s)); reflexivity.
Qed.

Lemma absS_halted : forall s b, absS (set_halted s b) = ss_set_halted (absS s) b.
Proof. reflexivity. Qed.

Lemma absS_mdepth : forall s d, absS (set_mdepth s d) = ss_set_mdepth (absS s) d.
Proof. reflexivity. Qed.

Lemma sput_sput : forall l k c d, sput k c (sput k d l) = sput k c l.
Proof.
  induction l as [|[j e] r IH]; intros k c d; simpl.
  - rewrite Nat.eqb_refl. reflexivity.
  - destruct (Nat.eqb j k) eqn:E; simpl; [rewrite Nat.eqb_refl; reflexivity|]. rewrite E. f_equal. apply IH.
Qed.

Lemma tail_zero_wf : forall c, co_wf c -> tail_zero c = true.
Proof. intros c (_ & _ & H). unfold tail_zero. rewrite H. apply forallb_repeat_zero. Qed.

Lemma status_fields_agree : forall s k, Inv s -> regok s -> status_fields k s = spec_status_fields k (absS s).
Proof.
  intros s k I R. unfold status_fields, spec_status_fields. rewrite (status_agrees s k I). simpl ss_cos. rewrite abs_get.
  destruct (get k (cos s)) as [c|] eqn:G; simpl; [|reflexivity].
  pose proof (Inv_wf _ _ _ I G) as W.
  rewrite (storage_length c W), (tail_zero_wf c W), (R k c G), (stack_below s k c I G). reflexivity.
Qed.

Lemma main_status_agrees : forall s, Inv s -> main_status s = spec_main_status (absS s).
Proof.
  intros s I. unfold main_status, spec_main_status. simpl. pose proof (stack_head s I) as Hd.
  destruct (current s); destruct (stack_of s); simpl in Hd; try discriminate; vm_compute; reflexivity.
Qed.

(* a same_ctl update of one record *)
Lemma abs_put_record : forall s k c c', Inv s -> get k (cos s) = Some c -> ctl c' = ctl c -> co_reg c' = co_reg c ->
  (co_wf c -> co_wf c') ->
  absS (set_cos s (put k c' (cos s))) = ss_set_cos (absS s) (sput k (absco c') (ss_cos (absS s))).
Proof.
  intros s k c c' I G E1 E2 W.
  rewrite (absS_same_ctl s _ I (same_ctl_put s k c c' G E1 E2 W)). unfold ss_set_cos. simpl. rewrite abs_put. reflexivity.
Qed.

(* ---- the typed wrapper *)
Lemma spush1_fit : forall cap vals S, spush1 cap S vals = (fst (fit cap S vals), is_success (snd (fit cap S vals))).
Proof.
  intros cap vals. induction vals as [|v r IH]; intro S; simpl; [reflexivity|].
  destruct (Nat.eqb (List.length v) 0); [apply IH|].
  destruct (Nat.ltb cap (List.length S + List.length v)); [reflexivity|apply IH].
Qed.

Lemma start_refines : forall s k r vs s', Inv s -> start_body k s = (r, vs, s') ->
  sp_start k (absS s) = (abs_res r, vs, absS s').
Proof.
  intros s k r vs s' I H. destruct spec_strings as (X1 & X2 & X3 & X4 & X5 & X6).
  unfold sp_start, start_body in *. simpl ss_cos. rewrite abs_get.
  destruct (get k (cos s)) as [c|] eqn:G; simpl; [|inversion H; subst; reflexivity].
  set (c0 := set_started c true) in *. set (s0 := set_cos s (put k c0 (cos s))) in *.
  pose proof (Inv_wf _ _ _ I G) as W.
  assert (S0 : same_ctl s s0) by (eapply same_ctl_put; eauto).
  pose proof (same_ctl_Inv _ _ S0 I) as I0.
  assert (G0 : get k (cos s0) = Some c0) by (unfold s0; simpl; apply get_put_same).
  assert (W0 : co_wf c0) by exact W. pose proof (wf_cap c0 W0) as L0.
  rewrite <- (ws_id s0 k c0 G0 W0) in H. rewrite pop_loop_ws_v in H by exact L0.
  pose proof (spopv_length (rev (co_argsz c0)) (storage c0) []) as SL.
  change (storage c0) with (storage c) in *. change (co_argsz c0) with (co_argsz c) in *.
  destruct (spopv (storage c) (rev (co_argsz c)) []) as [[S' ok] v0] eqn:E. simpl in SL.
  assert (A : absS (with_st s0 k c0 S') =
              ss_set_cos (absS s) (sput k (sc_with_store (sc_with_started (absco c) true) S') (map absE (cos s)))).
  { rewrite abs_with_st by (try assumption; lia).
    rewrite (absS_same_ctl s s0 I S0). unfold ss_set_cos, s0. simpl. rewrite abs_put, sput_sput. reflexivity. }
  destruct ok; cbn [is_success] in H; inversion H; subst; simpl; rewrite ?X5; rewrite A; reflexivity.
Qed.

Lemma arrive_refines : forall s k s' ls, Inv s -> arrive k s = (s', ls) -> sp_arrive k (absS s) = (absS s', ls).
Proof.
  intros s k s' ls I H. destruct spec_strings as (X1 & X2 & X3 & X4 & X5 & X6).
  unfold sp_arrive, arrive in *. simpl ss_cos. rewrite abs_get.
  destruct (get k (cos s)) as [c|] eqn:G; simpl; [|inversion H; subst; reflexivity].
  destruct (co_started c); [inversion H; subst; reflexivity|].
  destruct (start_body k s) as [[r vs] s1] eqn:B. rewrite (start_refines _ _ _ _ _ I B).
  destruct r; inversion H; subst; simpl; try reflexivity.
  - rewrite absS_halted. unfold panic_line. rewrite <- depth_agrees. rewrite X5. reflexivity.
  - rewrite absS_halted. unfold panic_line. rewrite <- depth_agrees. rewrite X5. reflexivity.
Qed.

(* ---- body return *)
Lemma back_line_agrees : forall s, Inv s -> sp_back_line (absS s) = back_line s.
Proof. intros s I. unfold sp_back_line, back_line. rewrite (who_agrees s I), depth_agrees. reflexivity. Qed.

Lemma sc_with_store_id : forall c, sc_with_store c (sc_store c) = c.
Proof. destruct c; reflexivity. Qed.

Lemma absco_dead_norm : forall c S, absco (set_prev (set_st (mk_norm c S) Dead) None) = sc_with_idle (sc_with_store (absco c) S) SDeadF.
Proof.
  intros c S. unfold absco, sc_with_idle, sc_with_store.
  change (storage (set_prev (set_st (mk_norm c S) Dead) None)) with (storage (mk_norm c S)). rewrite norm_storage. reflexivity.
Qed.

Lemma absco_dead : forall c, absco (set_prev (set_st c Dead) None) = sc_with_idle (absco c) SDeadF.
Proof. intros c. reflexivity. Qed.

Lemma return_refines : forall s k rets s' ls, Inv s -> current s = Some k -> body_return k rets s = (s', ls) ->
  sp_return k rets (absS s) = (absS s', ls).
Proof.
  intros s k rets s' ls I Ecur H. destruct spec_strings as (X1 & X2 & X3 & X4 & X5 & X6).
  destruct (current_running s k I Ecur) as (c & G & Rc).
  pose proof (Inv_wf _ _ _ I G) as W. pose proof (wf_cap c W) as L.
  destruct (stack_running s k I Ecur) as (rest & Es).
  unfold sp_return, body_return, finish_body in *. simpl ss_cos. rewrite abs_get, G in *. simpl option_map. cbv iota.
  change (sc_hasret (absco c)) with (co_hasret c). change (sc_cap (absco c)) with (co_cap c).
  change (sc_store (absco c)) with (storage c).
  destruct (co_hasret c).
  - rewrite spush1_fit.
    pose proof (push_loop_ws s k c rets (storage c) 0 L) as P. rewrite (ws_id s k c G W) in P. rewrite P in H. clear P.
    destruct (fit_spec (co_cap c) rets (storage c) L) as (t & A & B & _ & _).
    set (S' := fst (fit (co_cap c) (storage c) rets)) in *. rewrite <- A in B.
    pose proof (with_st_same_ctl s k c S' G B) as S1. pose proof (same_ctl_Inv _ _ S1 I) as I1.
    destruct (is_success (snd (fit (co_cap c) (storage c) rets))) eqn:Es'.
    + rewrite ws_get in H.
      assert (E1 : current (with_st s k c S') = Some k) by exact Ecur.
      pose proof (jumpout_Inv k (mk_norm c S') Dead _ I1 E1 (ws_get s k c S') (or_intror eq_refl)) as I2.
      inversion H; subst s' ls. f_equal.
      * rewrite (jumpout_abs k (mk_norm c S') Dead _ I1 E1 (ws_get s k c S') (or_intror eq_refl)).
        rewrite (same_ctl_stack _ _ I S1). unfold ss_set_stack, ss_set_cos, with_st. simpl.
        rewrite abs_put, sput_sput, absco_dead_norm. reflexivity.
      * f_equal. f_equal.
        match goal with |- sp_back_line ?t = _ => 
          replace t with (absS (jumpout k (set_st (mk_norm c S') Dead) (with_st s k c S'))) end; [apply back_line_agrees; exact I2|].
        rewrite (jumpout_abs k (mk_norm c S') Dead _ I1 E1 (ws_get s k c S') (or_intror eq_refl)).
        rewrite (same_ctl_stack _ _ I S1). unfold ss_set_stack, ss_set_cos, with_st. simpl.
        rewrite abs_put, sput_sput, absco_dead_norm. reflexivity.
    + inversion H; subst s' ls. rewrite absS_halted. f_equal.
      * rewrite abs_with_st by assumption. reflexivity.
      * unfold panic_line. rewrite <- depth_agrees. rewrite abs_with_st by assumption. rewrite X6. reflexivity.
  - cbn [is_success] in H. rewrite G in H.
    pose proof (jumpout_Inv k c Dead s I Ecur G (or_intror eq_refl)) as I2.
    inversion H; subst s' ls. f_equal.
    + rewrite (jumpout_abs k c Dead s I Ecur G (or_intror eq_refl)). unfold ss_set_stack, ss_set_cos. simpl.
      rewrite sc_with_store_id. reflexivity.
    + f_equal. f_equal.
      match goal with |- sp_back_line ?t = _ => replace t with (absS (jumpout k (set_st c Dead) s)) end;
        [apply back_line_agrees; exact I2|].
      rewrite (jumpout_abs k c Dead s I Ecur G (or_intror eq_refl)). unfold ss_set_stack, ss_set_cos. simpl.
      rewrite sc_with_store_id. reflexivity.
Qed.

(* ---- end of the script *)
Lemma sp_return_stack : forall k rets t t1 l, sp_return k rets t = (t1, l) -> ss_halted t1 = false ->
  ss_stack t1 = tl (ss_stack t).
Proof.
  intros k rets t t1 l H Hh. unfold sp_return in H.
  destruct (sget k (ss_cos t)) as [c|]; [|inversion H; subst; simpl in Hh; discriminate].
  destruct (if sc_hasret c then spush1 (sc_cap c) (sc_store c) rets else (sc_store c, true)) as [S' ok].
  destruct ok; inversion H; subst; [reflexivity|simpl in Hh; discriminate].
Qed.

Lemma unwind_refines : forall fuel n rets s s' ls, Inv s ->
  List.length (stack_of s) <= n -> List.length (stack_of s) < fuel ->
  unwind fuel rets s = (s', ls) -> sp_unwind n rets (absS s) = (absS s', ls).
Proof.
  induction fuel as [|f IH]; intros n rets s s' ls I Ln Lf H; [lia|]. cbn [unwind] in H.
  destruct (current s) as [k|] eqn:Ecur.
  - destruct (stack_running s k I Ecur) as (rest & Es). rewrite Es in Ln, Lf. simpl in Ln, Lf.
    destruct n as [|m]; [lia|]. cbn [sp_unwind]. simpl ss_stack. rewrite Es. simpl ss_cos. rewrite abs_get.
    destruct (current_running s k I Ecur) as (c & G & Rc). rewrite G in *. simpl option_map. cbv iota.
    set (s0 := set_cos s (put k (set_depth c 0) (cos s))) in *.
    assert (S0 : same_ctl s s0) by (apply set_depth_same; assumption).
    pose proof (same_ctl_Inv _ _ S0 I) as I0.
    assert (E0 : current s0 = Some k) by exact Ecur.
    assert (A0 : ss_set_cos (absS s) (sput k (sc_with_depth (absco c) 0) (map absE (cos s))) = absS s0).
    { symmetry. apply (abs_put_record s k c (set_depth c 0) I G); auto. }
    rewrite A0.
    destruct (body_return k rets s0) as [s1 l1] eqn:B.
    rewrite (return_refines s0 k rets s1 l1 I0 E0 B).
    pose proof (body_return_Inv _ _ _ _ _ I0 E0 B) as I1.
    change (ss_halted (absS s1)) with (halted s1).
    destruct (halted s1) eqn:Hh; [inversion H; subst; reflexivity|].
    destruct (unwind f rets s1) as [s2 l2] eqn:U. inversion H; subst s' ls.
    assert (St : stack_of s1 = rest).
    { pose proof (sp_return_stack k rets (absS s0) (absS s1) l1 (return_refines s0 k rets s1 l1 I0 E0 B) Hh) as X.
      simpl in X. rewrite (same_ctl_stack _ _ I S0), Es in X. exact X. }
    rewrite (IH m rets s1 s2 l2 I1); [reflexivity| | |exact U]; rewrite St; lia.
  - pose proof (stack_empty s I Ecur) as Se. inversion H; subst. destruct n; cbn [sp_unwind]; simpl ss_stack; rewrite ?Se; reflexivity.
Qed.

(* ---- create *)
Lemma create_abs : forall s k a h, Inv s -> get k (cos s) = None ->
  absS (co_create k a h s) = ss_set_cos (absS s) (sput k (mkS SSusp [] SPEC_CAP 0 false a h) (ss_cos (absS s))).
Proof.
  intros s k a h I G. pose proof (co_create_Inv k a h s I G) as I'.
  pose proof (Inv_stack s I) as C.
  assert (C' : chain (cos (co_create k a h s)) (current (co_create k a h s)) (stack_of s)).
  { unfold co_create. simpl. eapply chain_ext; [|exact C]. intros j d Ij Gj.
    rewrite get_put_other by (intro; subst; congruence). eauto. }
  unfold absS at 1. rewrite (stack_of_chain _ _ I' C'). unfold co_create, ss_set_cos. simpl. rewrite abs_put. reflexivity.
Qed.

(* ---- peek / drop *)
Lemma peek_refines : forall s k n e v, Inv s -> mco_peek k true n s = (e, v) ->
  sp_peek k n (absS s) = (abs_res (cres_of e), v).
Proof.
  intros s k n e v I H. destruct spec_strings as (X1 & X2 & X3 & X4 & X5 & X6).
  unfold sp_peek. simpl ss_cos. rewrite abs_get. destruct (get k (cos s)) as [c|] eqn:G; simpl.
  - pose proof (Inv_wf _ _ _ I G) as W. pose proof (wf_cap c W) as L.
    rewrite <- (ws_id s k c G W) in H. rewrite mco_peek_ws in H by assumption.
    change (sc_store (absco c)) with (storage c).
    destruct (Nat.eqb n 0); [inversion H; reflexivity|].
    destruct (Nat.ltb (List.length (storage c)) n); inversion H; subst; simpl; rewrite ?X3; reflexivity.
  - unfold mco_peek in H. rewrite G in H. inversion H; subst. simpl. rewrite X1. reflexivity.
Qed.

Lemma drop_refines : forall s k n e s1 d, Inv s -> mco_pop k false n s = (e, s1, d) ->
  sp_drop k n (absS s) = (abs_res (cres_of e), absS s1).
Proof.
  intros s k n e s1 d I H. destruct spec_strings as (X1 & X2 & X3 & X4 & X5 & X6).
  unfold sp_drop. simpl ss_cos. rewrite abs_get. destruct (get k (cos s)) as [c|] eqn:G; simpl.
  - pose proof (Inv_wf _ _ _ I G) as W. pose proof (wf_cap c W) as L.
    rewrite <- (ws_id s k c G W) in H. rewrite mco_pop_ws in H by assumption.
    change (sc_store (absco c)) with (storage c).
    destruct (Nat.eqb n 0); [inversion H; subst; rewrite (ws_id s k c G W); reflexivity|].
    destruct (Nat.ltb (List.length (storage c)) n); inversion H; subst; simpl; rewrite ?X3.
    + rewrite (ws_id s k c G W). reflexivity.
    + rewrite abs_with_st by (try assumption; rewrite firstn_length; lia). reflexivity.
  - unfold mco_pop in H. rewrite G in H. inversion H; subst. simpl. rewrite X1. reflexivity.
Qed.

Lemma regok_mdepth : forall s d, regok s -> regok (set_mdepth s d).
Proof. intros s d R k c G. exact (R k c G). Qed.

(* ------------------------------------------------------------------ the refinement *)
Theorem step_refines : forall o s, Inv s -> regok s ->
  spec_step o (absS s) = (absS (fst (step o s)), snd (step o s)).
Proof.
  intros o s I R. unfold spec_step, step. change (ss_halted (absS s)) with (halted s).
  destruct (halted s); [reflexivity|].
  rewrite (who_agrees s I), depth_agrees.
  destruct o.
  - simpl ss_cos. rewrite abs_get. destruct (get k (cos s)) eqn:G; simpl; [reflexivity|].
    rewrite create_abs by assumption. reflexivity.
  - destruct (co_resume k vals s) as [r s1] eqn:Rr. rewrite (resume_refines _ _ _ _ _ I Rr).
    pose proof (co_resume_Inv _ _ _ _ _ I Rr) as I1.
    destruct r; simpl; try reflexivity.
    destruct (arrive k s1) as [s2 ls] eqn:A. rewrite (arrive_refines _ _ _ _ I1 A). reflexivity.
  - destruct (co_yield vals s) as [r s1] eqn:Rr. rewrite (yield_refines _ _ _ _ I Rr).
    pose proof (co_yield_Inv _ _ _ _ I Rr) as I1.
    destruct r; simpl; try reflexivity. rewrite (back_line_agrees s1 I1). reflexivity.
  - destruct (co_push k vals s) as [r s1] eqn:Rr. rewrite (push_refines _ _ _ _ _ I Rr). simpl.
    rewrite abs_res_fields. reflexivity.
  - destruct (co_pop k lens s) as [[r vs] s1] eqn:Rr. rewrite (pop_refines _ _ _ _ _ _ I Rr). simpl.
    rewrite abs_res_fields. reflexivity.
  - destruct (mco_peek k true len s) as [e v] eqn:Rr. rewrite (peek_refines _ _ _ _ _ I Rr). simpl.
    rewrite abs_res_fields. destruct e; reflexivity.
  - destruct (mco_pop k false len s) as [[e s1] d0] eqn:Rr. rewrite (drop_refines _ _ _ _ _ _ I Rr). simpl.
    rewrite abs_res_fields. reflexivity.
  - simpl. rewrite (status_fields_agree s k I R). reflexivity.
  - simpl. rewrite (main_status_agrees s I). reflexivity.
  - simpl. unfold co_isyieldable. reflexivity.
  - simpl. reflexivity.
  - destruct (current s) as [k|] eqn:Ecur.
    + simpl ss_cos. rewrite abs_get. destruct (get k (cos s)) as [c|] eqn:G; simpl; [|reflexivity].
      rewrite (abs_put_record s k c (set_depth c (co_depth c + d)) I G); auto.
    + simpl. reflexivity.
  - destruct (current s) as [k|] eqn:Ecur.
    + simpl ss_cos. rewrite abs_get. destruct (get k (cos s)) as [c|] eqn:G; simpl; [|reflexivity].
      change (sc_depth (absco c)) with (co_depth c).
      destruct (Nat.eqb (co_depth c) 0).
      * destruct (body_return k rets s) as [s1 ls] eqn:B. rewrite (return_refines _ _ _ _ _ I Ecur B). reflexivity.
      * simpl. rewrite (abs_put_record s k c (set_depth c (co_depth c - 1)) I G); auto.
    + simpl. destruct (Nat.eqb (mdepth s) 0); reflexivity.
  - destruct (co_destroy k s) as [r s1] eqn:Rr. rewrite (destroy_refines _ _ _ _ I R Rr).
    destruct r; simpl; try reflexivity. exfalso. exact (destroy_no_panic s k m s1 I R Rr).
  - destruct (co_destroy k s) as [r s1] eqn:Rr. rewrite (destroy_refines _ _ _ _ I R Rr).
    destruct r; simpl; try reflexivity. exfalso. exact (destroy_no_panic s k m s1 I R Rr).
  - simpl. reflexivity.
  - pose proof (Inv_stack s I) as C. pose proof (chain_length_le _ _ I C) as Lc.
    destruct (unwind (S (List.length (cos s))) rets s) as [s1 l1] eqn:U.
    simpl ss_stack.
    rewrite (unwind_refines (S (List.length (cos s))) (List.length (stack_of s)) rets s s1 l1 I (le_n _) ltac:(lia) U).
    change (ss_halted (absS s1)) with (halted s1).
    destruct (halted s1); [reflexivity|].
    pose proof (unwind_Inv _ _ _ _ _ I U) as I1.
    assert (R1 : regok s1) by exact (reg_from_ok _ _ (unwind_reg_from _ _ _ _ _ I U) R).
    simpl. f_equal. f_equal. f_equal.
    apply map_ext. intro j. rewrite <- absS_mdepth.
    rewrite (status_fields_agree (set_mdepth s1 0) j); [reflexivity| |apply regok_mdepth; exact R1].
    eapply same_ctl_Inv; [apply same_ctl_mdepth|exact I1].
  - simpl. reflexivity.
  - simpl ss_cos. rewrite abs_get. destruct (get k (cos s)) as [c|] eqn:G; simpl; [|reflexivity].
    unfold s_active. simpl ss_stack. rewrite (stack_mem s k c I G).
    destruct (cstate_eqb (co_st c) Suspended || cstate_eqb (co_st c) Dead) eqn:E; simpl; [|reflexivity].
    assert (Hc : co_st c = Suspended \/ co_st c = Dead).
    { apply orb_true_iff in E. destruct E as [E|E]; apply cstate_eqb_eq in E; auto. }
    rewrite (del_abs s k c I G Hc). reflexivity.
Qed.

Theorem run_refines : forall ops s, Inv s -> regok s ->
  spec_run ops (absS s) = (absS (fst (run ops s)), snd (run ops s)).
Proof.
  induction ops as [|o r IH]; intros s I R; cbn [run spec_run]; [reflexivity|].
  rewrite (step_refines o s I R).
  pose proof (step_Inv o s I) as I1. pose proof (step_regok o s I R) as R1.
  destruct (step o s) as [s1 l1]. simpl in *. rewrite (IH s1 I1 R1).
  destruct (run r s1) as [s2 l2]. reflexivity.
Qed.

Lemma abs_init : forall gc, absS (init gc) = spec_init gc.
Proof. reflexivity. Qed.

(* the whole history: same abstract state, same transcript *)
Theorem refines_spec : forall gc ops,
  absS (fst (run ops (init gc))) = spec_reach gc ops /\ snd (run ops (init gc)) = snd (spec_run ops (spec_init gc)).
Proof.
  intros gc ops. unfold spec_reach. rewrite <- abs_init.
  rewrite (run_refines ops (init gc) (init_Inv gc) (init_regok gc)). split; reflexivity.
Qed.

Theorem status_agrees_with_spec : forall gc ops k,
  co_status k (fst (run ops (init gc))) = spec_status k (spec_reach gc ops).
Proof.
  intros gc ops k. destruct (refines_spec gc ops) as (A & _). rewrite <- A.
  apply status_agrees. apply run_Inv, init_Inv.
Qed.
