(* Property C18: coroutines follow the documented state machine and keep their stacks intact.
   Only the property theorems, each closed by [exact] of a lemma of Proofs*.v and followed by
   Print Assumptions.  [reach gc ops] is the state after ANY command list [ops] run from the
   initial state ([gc]: built with the garbage collector or with pragma nogc); all statements
   quantify over all such histories.  Model.v mirrors lib/coroutine.nelua and the C functions
   of lib/detail/minicoro.nelua. *)
From Coq Require Import List Arith ZArith Bool String.
From C18 Require Import Gen Model Spec ProofsStorage ProofsInv ProofsErr ProofsTrans ProofsFuel ProofsValues ProofsReg ProofsFrame ProofsOps ProofsSpec Proofs.
Import ListNotations.
Local Open Scope list_scope.

(* REFINEMENT.  Spec.v is the documented semantics as an abstract machine written from the documentation (a STACK
   of active resumes: top = running, below = normal; a suspended/dead flag and a LIFO byte storage per coroutine;
   one step per library call returning the documented result).  [absS] maps a model state to a spec state (prev chain
   -> stack, byte buffer + bytes_stored -> stored bytes, state field -> flag).  After ANY history, ANY command does
   to the abstraction of the model state exactly what the spec does, and prints exactly the same lines (results,
   error strings, statuses, popped values).  The only place where the spec itself is "what the code does" is the
   documented multi-value coroutine.pop ("the values may not be set": what was popped stays popped). *)
Theorem C18_refines_spec : forall gc ops o,
  spec_step o (absS (reach gc ops)) = (absS (fst (step o (reach gc ops))), snd (step o (reach gc ops))).
Proof. exact refines_spec_step. Qed.
Print Assumptions C18_refines_spec.

(* hence over whole histories: same abstract state, same transcript *)
Theorem C18_refines_spec_history : forall gc ops,
  absS (reach gc ops) = spec_reach gc ops /\ snd (run ops (init gc)) = snd (spec_run ops (spec_init gc)).
Proof. exact refines_spec_history. Qed.
Print Assumptions C18_refines_spec_history.

(* the status string of every handle is the one the reference semantics prescribes *)
Theorem C18_status_agrees_with_spec : forall gc ops k,
  co_status k (reach gc ops) = spec_status k (spec_reach gc ops).
Proof. exact status_agrees_with_spec_all. Qed.
Print Assumptions C18_status_agrees_with_spec.

(* at most one coroutine is Running, and it is the current one *)
Theorem C18_one_running : forall gc ops k c, get k (cos (reach gc ops)) = Some c ->
  (co_st c = Running <-> current (reach gc ops) = Some k).
Proof. exact one_running. Qed.
Print Assumptions C18_one_running.

(* the main program reports "running" exactly when no coroutine is current *)
Theorem C18_main_running_iff : forall gc ops,
  main_status (reach gc ops) = "running"%string <-> current (reach gc ops) = None.
Proof. exact main_running_iff. Qed.
Print Assumptions C18_main_running_iff.

(* the Normal coroutines are exactly the prev chain below the current one; the chain has no
   repetition and ends in the main program ([chain] only ends at prev = None) *)
Theorem C18_normal_is_prev_chain : forall gc ops, exists ch,
  chain (cos (reach gc ops)) (current (reach gc ops)) ch /\ NoDup ch /\
  forall k c, get k (cos (reach gc ops)) = Some c -> (co_st c = Normal <-> In k (tl ch)).
Proof. exact normal_is_prev_chain. Qed.
Print Assumptions C18_normal_is_prev_chain.

Theorem C18_idle_has_no_prev : forall gc ops k c, get k (cos (reach gc ops)) = Some c ->
  (co_st c = Suspended \/ co_st c = Dead) -> co_prev c = None.
Proof. exact idle_has_no_prev. Qed.
Print Assumptions C18_idle_has_no_prev.

(* bytes_stored never exceeds the storage size; the unused tail of the buffer is zero *)
Theorem C18_storage_within_capacity : forall gc ops k c, get k (cos (reach gc ops)) = Some c ->
  co_stored c <= co_cap c /\ List.length (co_buf c) = co_cap c /\
  skipn (co_stored c) (co_buf c) = repeat 0%Z (co_cap c - co_stored c).
Proof. exact storage_within_capacity. Qed.
Print Assumptions C18_storage_within_capacity.

(* every command moves every coroutine along the documented state machine [tr]; a coroutine object disappears
   only by a destroy (or the <close> of a handle, or the loss of its only handle) of that very coroutine; Normal ->
   Dead within one command happens only at the end of the script.  [tr] does not depend on the command: the
   transition table per operation is the next five theorems. *)
Theorem C18_state_machine : forall gc ops o j,
  tr (stof (reach gc ops) j) (stof (fst (step o (reach gc ops))) j) /\
  (stof (fst (step o (reach gc ops))) j = None -> stof (reach gc ops) j <> None -> o = ODestroy j \/ o = OClose j \/ o = OForget j) /\
  (stof (reach gc ops) j = Some Normal -> stof (fst (step o (reach gc ops))) j = Some Dead -> exists rets n, o = OEnd rets n).
Proof. exact state_machine. Qed.
Print Assumptions C18_state_machine.

(* coroutine.resume(k, ...): success <-> k was Suspended and is now Running and current, the resumer (if a
   coroutine) went Running -> Normal, every other coroutine keeps its state; failure: nobody changes state *)
Theorem C18_resume_transition : forall gc ops k vals r s1, let s := reach gc ops in co_resume k vals s = (r, s1) ->
  (r = COk ->
     stof s k = Some Suspended /\ stof s1 k = Some Running /\ current s1 = Some k /\
     (forall p, current s = Some p -> stof s p = Some Running /\ stof s1 p = Some Normal) /\
     (forall j, j <> k -> current s <> Some j -> stof s1 j = stof s j)) /\
  (r <> COk -> s1 = s).
Proof. exact resume_transition_all. Qed.
Print Assumptions C18_resume_transition.

(* coroutine.yield(...) by the running coroutine k: k -> Suspended, its resumer Normal -> Running and current *)
Theorem C18_yield_transition : forall gc ops k c vals r s1, let s := reach gc ops in
  current s = Some k -> get k (cos s) = Some c -> co_yield vals s = (r, s1) ->
  (r = COk ->
     stof s k = Some Running /\ stof s1 k = Some Suspended /\ current s1 = co_prev c /\
     (forall p, co_prev c = Some p -> stof s p = Some Normal /\ stof s1 p = Some Running) /\
     (forall j, j <> k -> co_prev c <> Some j -> stof s1 j = stof s j)) /\
  (r <> COk -> current s1 = current s /\ forall j, stof s1 j = stof s j).
Proof. exact yield_transition_all. Qed.
Print Assumptions C18_yield_transition.

(* the body of the running coroutine k returns: k -> Dead, its resumer Normal -> Running and current *)
Theorem C18_return_transition : forall gc ops k c rets s1, let s := reach gc ops in
  current s = Some k -> get k (cos s) = Some c -> finish_body k rets s = (COk, s1) ->
  stof s k = Some Running /\ stof s1 k = Some Dead /\ current s1 = co_prev c /\
  (forall p, co_prev c = Some p -> stof s p = Some Normal /\ stof s1 p = Some Running) /\
  (forall j, j <> k -> co_prev c <> Some j -> stof s1 j = stof s j).
Proof. exact return_transition_all. Qed.
Print Assumptions C18_return_transition.

(* push / pop / peek / drop / status / isyieldable / running / deeper frames / gc / sub never change a state or
   the current coroutine, and neither does ANY failed call of the library (create and destroy: see
   C18_state_machine and C18_destroy_behaviour) *)
Theorem C18_quiet_commands : forall gc ops o j, let s := reach gc ops in
  (ctl_neutral o -> stof (fst (step o s)) j = stof s j /\ current (fst (step o s)) = current s) /\
  (forall r s', api o s = Some (CErr r, s') -> stof s' j = stof s j /\ current s' = current s).
Proof. exact quiet_commands_all. Qed.
Print Assumptions C18_quiet_commands.

(* storage frame: a command changes the stored bytes only of the coroutine it addresses ([addressed]: the target
   of create/resume/push/pop/drop/destroy/close/forget, the running coroutine for yield and ret, everybody for
   the end of the script) - so values given to a coroutine wait there, unmodified and in order, while other
   coroutines run (second theorem: over any further command list that does not address it) *)
Theorem C18_storage_frame : forall gc ops o j, ~ addressed o (reach gc ops) j ->
  stor (fst (step o (reach gc ops))) j = stor (reach gc ops) j.
Proof. exact storage_frame. Qed.
Print Assumptions C18_storage_frame.

Theorem C18_storage_frame_run : forall gc ops more j, quiet j more (reach gc ops) ->
  stor (fst (run more (reach gc ops))) j = stor (reach gc ops) j.
Proof. exact storage_frame_run. Qed.
Print Assumptions C18_storage_frame_run.

(* coroutine.pop(co, &x1..&xn) exactly, also when it fails midway: the values are popped last argument first
   ([unfit]); success iff all of them can be popped; on a failure (always MCO_NOT_ENOUGH_SPACE) the values popped so
   far stay popped - documented: "the values may not be set", no rollback - and nothing else changes *)
Theorem C18_pop_effect : forall gc ops k c lens, let s := reach gc ops in get k (cos s) = Some c ->
  exists vs, co_pop k lens s =
    (if snd (unfit (storage c) (rev lens)) then COk else CErr MCO_NOT_ENOUGH_SPACE, vs,
     with_st s k c (fst (unfit (storage c) (rev lens)))).
Proof. exact pop_effect_all. Qed.
Print Assumptions C18_pop_effect.

Theorem C18_dead_is_absorbing : forall gc ops o j, stof (reach gc ops) j = Some Dead ->
  stof (fst (step o (reach gc ops))) j = Some Dead \/
  (stof (fst (step o (reach gc ops))) j = None /\ (o = ODestroy j \/ o = OClose j \/ o = OForget j)).
Proof. exact dead_is_absorbing. Qed.
Print Assumptions C18_dead_is_absorbing.

(* the prev chain is finite and ends in the main program: the end-of-script unwinding of the
   model (fuel = number of coroutine objects + 1) never runs out of fuel *)
Theorem C18_end_unwinds : forall gc ops rets n,
  no_fuel_line (snd (step (OEnd rets n) (reach gc ops))).
Proof. exact end_unwinds. Qed.
Print Assumptions C18_end_unwinds.

(* LIFO bytes: a pop after a push returns the same bytes and restores the coroutine record *)
Theorem C18_storage_lifo : forall gc ops k c b c1, get k (cos (reach gc ops)) = Some c ->
  mco_push_co c (Some b) (List.length b) = (MCO_SUCCESS, c1) ->
  storage c1 = storage c ++ b /\ mco_pop_co c1 true (List.length b) = (MCO_SUCCESS, c, b).
Proof. exact storage_lifo. Qed.
Print Assumptions C18_storage_lifo.

(* typed values: coroutine.pop (which pops the last argument first) after coroutine.push of a
   value list returns the same list and restores the whole state *)
Theorem C18_typed_roundtrip : forall gc ops k c vs s1, get k (cos (reach gc ops)) = Some c ->
  co_push k vs (reach gc ops) = (COk, s1) ->
  co_pop k (map (@List.length Z) vs) s1 = (COk, vs, reach gc ops).
Proof. exact typed_roundtrip_all. Qed.
Print Assumptions C18_typed_roundtrip.

(* coroutine.push is all-or-nothing: on any failure the whole state is what it was *)
Theorem C18_push_rollback : forall gc ops k vs e s',
  co_push k vs (reach gc ops) = (CErr e, s') -> s' = reach gc ops.
Proof. exact push_rollback_all. Qed.
Print Assumptions C18_push_rollback.

(* values pushed on one side of a switch are popped on the other side in order and unmodified:
   resume(co, v1..vn) -> coroutine.pop in co;  yield(v1..vn) -> coroutine.pop by the resumer *)
Theorem C18_resume_delivers_values : forall gc ops k c vals s1, let s := reach gc ops in
  get k (cos s) = Some c -> co_resume k vals s = (COk, s1) ->
  current s1 = Some k /\
  exists c1, get k (cos s1) = Some c1 /\
    co_pop k (map (@List.length Z) vals) s1 = (COk, vals, with_st s1 k c1 (storage c)).
Proof. exact resume_delivers_all. Qed.
Print Assumptions C18_resume_delivers_values.

Theorem C18_yield_delivers_values : forall gc ops k c vals s1, let s := reach gc ops in
  current s = Some k -> get k (cos s) = Some c -> co_yield vals s = (COk, s1) ->
  current s1 = co_prev c /\
  exists c1, get k (cos s1) = Some c1 /\ co_st c1 = Suspended /\
    co_pop k (map (@List.length Z) vals) s1 = (COk, vals, with_st s1 k c1 (storage c)).
Proof. exact yield_delivers_all. Qed.
Print Assumptions C18_yield_delivers_values.

(* the typed wrapper of coroutine.create: the body function receives exactly the values given to the
   first resume (popped last argument first), and what it returns is what the resumer pops *)
Theorem C18_body_receives_arguments : forall gc ops k c vals s1, let s := reach gc ops in
  get k (cos s) = Some c -> co_started c = false -> co_argsz c = map (@List.length Z) vals ->
  co_resume k vals s = (COk, s1) ->
  exists s2 c2, start_body k s1 = (COk, vals, s2) /\ get k (cos s2) = Some c2 /\ storage c2 = storage c /\
                arrive k s1 = (s2, [mkLine (Some k) 0 "start" (map FV vals)]).
Proof. exact body_receives_arguments_all. Qed.
Print Assumptions C18_body_receives_arguments.

Theorem C18_body_return_delivers_values : forall gc ops k c rets s1, let s := reach gc ops in
  current s = Some k -> get k (cos s) = Some c -> co_hasret c = true ->
  finish_body k rets s = (COk, s1) ->
  current s1 = co_prev c /\
  exists c1, get k (cos s1) = Some c1 /\ co_st c1 = Dead /\
    co_pop k (map (@List.length Z) rets) s1 = (COk, rets, with_st s1 k c1 (storage c)).
Proof. exact body_return_delivers_all. Qed.
Print Assumptions C18_body_return_delivers_values.

(* invalid transitions return the documented error and leave the whole state unchanged *)
Theorem C18_invalid_transitions : forall gc ops, let s := reach gc ops in
  (forall k c, get k (cos s) = Some c -> co_st c <> Suspended -> co_resume k [] s = (CErr MCO_NOT_SUSPENDED, s)) /\
  (forall k, get k (cos s) = None -> co_resume k [] s = (CErr MCO_INVALID_COROUTINE, s)) /\
  (forall k, current s = Some k -> co_resume k [] s = (CErr MCO_NOT_SUSPENDED, s)) /\
  (forall vals, current s = None -> co_yield vals s = (CErr MCO_INVALID_COROUTINE, s)) /\
  (forall k c, get k (cos s) = Some c ->
     (co_st c = Running \/ co_st c = Normal) -> co_destroy k s = (CErr MCO_INVALID_OPERATION, s)) /\
  (forall k c vs, get k (cos s) = Some c -> snd (fit (co_cap c) (storage c) vs) <> MCO_SUCCESS ->
     co_push k vs s = (CErr MCO_NOT_ENOUGH_SPACE, s)) /\
  (forall k c n, get k (cos s) = Some c -> co_stored c < n -> co_pop k [n] s = (CErr MCO_NOT_ENOUGH_SPACE, [], s)) /\
  (forall k c n, get k (cos s) = Some c -> co_stored c < n -> mco_peek k true n s = (MCO_NOT_ENOUGH_SPACE, [])).
Proof. exact invalid_transitions. Qed.
Print Assumptions C18_invalid_transitions.

(* every error of every call of the library (resume, yield, push, pop, peek, drop, destroy), after any history,
   leaves the WHOLE state unchanged - with exactly one exclusion ([benign]): a coroutine.pop of two or more values
   that fails midway keeps what it popped, which is documented ("the values may not be set"; the user is
   responsible for the count) and whose effect is exactly C18_pop_effect.  Since the repairs 1075c3a (destroy)
   and 6a782fc (refused resume takes its arguments back) nothing else is excluded. *)
Theorem C18_error_unchanged : forall gc ops o r s', let s := fst (run ops (init gc)) in
  benign o s -> api o s = Some (CErr r, s') -> s' = s.
Proof. exact error_unchanged_all. Qed.
Print Assumptions C18_error_unchanged.

(* GC registration (the repaired defect): every coroutine object that still exists is registered in
   the collector exactly when the program is a GC build *)
Theorem C18_registered_while_alive : forall gc ops k c, get k (cos (reach gc ops)) = Some c ->
  co_reg c = gcon (reach gc ops).
Proof. exact registered_while_alive. Qed.
Print Assumptions C18_registered_while_alive.

(* coroutine.destroy in every build: refused on a running/normal coroutine with the WHOLE state
   (GC registration included) unchanged; legal on a suspended/dead one, which is then gone (and no
   longer registered); nil is an error; the assertion of GC:unregister never fails *)
Theorem C18_destroy_behaviour : forall gc ops k, let s := reach gc ops in
  (forall c, get k (cos s) = Some c -> (co_st c = Running \/ co_st c = Normal) ->
     co_destroy k s = (CErr MCO_INVALID_OPERATION, s)) /\
  (forall c, get k (cos s) = Some c -> (co_st c = Suspended \/ co_st c = Dead) ->
     co_destroy k s = (COk, set_cos s (del k (cos s))) /\ get k (del k (cos s)) = None) /\
  (get k (cos s) = None -> co_destroy k s = (CErr MCO_INVALID_COROUTINE, s)) /\
  (forall m s', co_destroy k s <> (CPanic m, s')).
Proof. exact destroy_behaviour. Qed.
Print Assumptions C18_destroy_behaviour.

(* a refused resume WITH arguments (the repaired finding): documented error, whole state unchanged *)
Theorem C18_refused_resume_unchanged : forall gc ops k c vals, let s := reach gc ops in
  get k (cos s) = Some c -> co_st c <> Suspended -> (forall e, fst (co_push k vals s) <> CErr e) ->
  co_resume k vals s = (CErr MCO_NOT_SUSPENDED, s).
Proof. exact refused_resume_unchanged_all. Qed.
Print Assumptions C18_refused_resume_unchanged.

(* the two scraped repair flags are NEEDED by C18_error_unchanged / C18_destroy_behaviour / C18_refused_resume_unchanged:
   under the other policy ([co_destroy_with true] = unregister before destroy, [co_resume_with false] = no rollback of the
   arguments) an error changes the state (witnesses by vm_compute) *)
Theorem C18_destroy_order_needed :
  exists s k e s', co_destroy_with true k s = (CErr e, s') /\ s' <> s.
Proof. exact destroy_order_needed. Qed.
Print Assumptions C18_destroy_order_needed.

Theorem C18_resume_rollback_needed :
  exists s k vals e s', co_resume_with false k vals s = (CErr e, s') /\ s' <> s.
Proof. exact resume_rollback_needed. Qed.
Print Assumptions C18_resume_rollback_needed.

(* facts about the constants scraped from the source on this run *)
Theorem C18_gen_facts :
  DESTROY_UNREGISTERS_FIRST = false /\ RESUME_ROLLS_BACK_ARGS = true /\ GC_REGISTERS_WHOLE_CORO_BLOCK = true /\ MCO_ZERO_MEMORY = true /\ 0 < STORAGE_SIZE /\
  NoDup (map cstate_code all_cstate) /\ NoDup (map mres_code all_mres) /\ NoDup (map describe all_mres) /\
  status_of_state Suspended = "suspended"%string /\ status_of_state Running = "running"%string /\
  status_of_state Normal = "normal"%string /\ status_of_state Dead = "dead"%string /\
  STATUS_NIL = "dead"%string /\ STATUS_MAIN_RUNNING = "running"%string /\ STATUS_MAIN_NORMAL = "normal"%string.
Proof. exact gen_facts. Qed.
Print Assumptions C18_gen_facts.
