(* C18 - basic lemmas: association lists of coroutines, list surgery of the storage buffer,
   facts about the constants scraped into Gen.v. *)
From Coq Require Import List Arith ZArith Bool String Lia.
From C18 Require Import Gen Model.
Import ListNotations.
Local Open Scope list_scope.

(* ------------------------------------------------------------------ facts about Gen.v *)
Lemma zero_memory_on : MCO_ZERO_MEMORY = true.
Proof. vm_compute. reflexivity. Qed.

(* the repaired order of coroutine.destroy (minicoro.destroy first, gc:unregister on success) *)
Lemma destroy_order_fixed : DESTROY_UNREGISTERS_FIRST = false.
Proof. vm_compute. reflexivity. Qed.

(* the repaired coroutine.resume: a refused resume takes its arguments back *)
Lemma resume_rolls_back : RESUME_ROLLS_BACK_ARGS = true.
Proof. vm_compute. reflexivity. Qed.

(* coroutine.create registers the WHOLE coroutine block (header, context, storage and stack) with the collector *)
Lemma gc_registers_whole_block : GC_REGISTERS_WHOLE_CORO_BLOCK = true.
Proof. vm_compute. reflexivity. Qed.

Lemma storage_size_pos : 0 < STORAGE_SIZE.
Proof. vm_compute. lia. Qed.

(* every enumerator of the model exists in the scraped enums, with pairwise distinct values *)
Lemma state_codes_distinct :
  forallb (fun x => match cstate_code x with Some _ => true | None => false end) all_cstate = true /\
  NoDup (map cstate_code all_cstate).
Proof.
  split. vm_compute. reflexivity.
  vm_compute. repeat constructor; simpl; intuition discriminate.
Qed.

Lemma result_codes_distinct :
  forallb (fun x => match mres_code x with Some _ => true | None => false end) all_mres = true /\
  NoDup (map mres_code all_mres).
Proof.
  split. vm_compute. reflexivity.
  vm_compute. repeat constructor; simpl; intuition discriminate.
Qed.

(* different results have different descriptions: errors stay distinguishable *)
Lemma descriptions_distinct : NoDup (map describe all_mres).
Proof. vm_compute. repeat constructor; simpl; intuition discriminate. Qed.

(* the status strings are the documented ones *)
Lemma status_strings_documented :
  status_of_state Suspended = "suspended"%string /\ status_of_state Running = "running"%string /\
  status_of_state Normal = "normal"%string /\ status_of_state Dead = "dead"%string /\
  STATUS_NIL = "dead"%string /\ STATUS_MAIN_RUNNING = "running"%string /\ STATUS_MAIN_NORMAL = "normal"%string.
Proof. vm_compute. repeat split; reflexivity. Qed.

(* ------------------------------------------------------------------ association lists *)
Lemma get_put : forall l j k c, get j (put k c l) = if Nat.eqb k j then Some c else get j l.
Proof.
  induction l as [|[i d] r IH]; intros j k c; simpl.
  - destruct (Nat.eqb k j); reflexivity.
  - destruct (Nat.eqb i k) eqn:E1; simpl.
    + apply Nat.eqb_eq in E1. subst i. destruct (Nat.eqb k j); reflexivity.
    + rewrite IH. destruct (Nat.eqb k j) eqn:E2; [|reflexivity].
      apply Nat.eqb_eq in E2. subst j. rewrite E1. reflexivity.
Qed.

Lemma get_put_same : forall l k c, get k (put k c l) = Some c.
Proof. intros. rewrite get_put, Nat.eqb_refl. reflexivity. Qed.

Lemma get_put_other : forall l j k c, k <> j -> get j (put k c l) = get j l.
Proof. intros. rewrite get_put. apply Nat.eqb_neq in H. rewrite H. reflexivity. Qed.

Lemma get_None_notin : forall l k, get k l = None <-> ~ In k (map fst l).
Proof.
  induction l as [|[i d] r IH]; intros k; simpl.
  - tauto.
  - destruct (Nat.eqb i k) eqn:E.
    + apply Nat.eqb_eq in E. subst. split; [discriminate|tauto].
    + apply Nat.eqb_neq in E. rewrite IH. tauto.
Qed.

Lemma get_Some_in : forall l k c, get k l = Some c -> In k (map fst l).
Proof.
  intros l k c H. destruct (in_dec Nat.eq_dec k (map fst l)) as [i|n]; [exact i|].
  apply get_None_notin in n. congruence.
Qed.

Lemma keys_put_present : forall l k c d, get k l = Some d -> map fst (put k c l) = map fst l.
Proof.
  induction l as [|[i e] r IH]; intros k c d H; simpl in *.
  - discriminate.
  - destruct (Nat.eqb i k) eqn:E; simpl.
    + apply Nat.eqb_eq in E. subst. reflexivity.
    + f_equal. eapply IH; eauto.
Qed.

Lemma keys_put_absent : forall l k c, get k l = None -> map fst (put k c l) = map fst l ++ [k].
Proof.
  induction l as [|[i e] r IH]; intros k c H; simpl in *.
  - reflexivity.
  - destruct (Nat.eqb i k) eqn:E; [discriminate|]. simpl. f_equal. apply IH; assumption.
Qed.

Lemma NoDup_snoc : forall (l : list nat) k, NoDup l -> ~ In k l -> NoDup (l ++ [k]).
Proof.
  induction l as [|a r IH]; intros k H N; simpl.
  - constructor; [tauto|constructor].
  - inversion H; subst. constructor.
    + rewrite in_app_iff. simpl in *. intuition.
    + apply IH; [assumption|]. simpl in N. tauto.
Qed.

Lemma NoDup_keys_put : forall l k c, NoDup (map fst l) -> NoDup (map fst (put k c l)).
Proof.
  intros l k c H. destruct (get k l) eqn:E.
  - erewrite keys_put_present; eauto.
  - rewrite keys_put_absent by assumption.
    apply get_None_notin in E.
    apply NoDup_snoc; assumption.
Qed.

Lemma put_get_id : forall l k c, get k l = Some c -> put k c l = l.
Proof.
  induction l as [|[i e] r IH]; intros k c H; simpl in *.
  - discriminate.
  - destruct (Nat.eqb i k) eqn:E.
    + apply Nat.eqb_eq in E. subst. congruence.
    + f_equal. apply IH; assumption.
Qed.

Lemma put_put : forall l k c d, put k c (put k d l) = put k c l.
Proof.
  induction l as [|[i e] r IH]; intros k c d; simpl.
  - rewrite Nat.eqb_refl. reflexivity.
  - destruct (Nat.eqb i k) eqn:E; simpl.
    + rewrite Nat.eqb_refl. reflexivity.
    + rewrite E. f_equal. apply IH.
Qed.

Lemma keys_del_incl : forall l k j, In j (map fst (del k l)) -> In j (map fst l).
Proof.
  induction l as [|[i e] r IH]; intros k j H; simpl in *.
  - assumption.
  - destruct (Nat.eqb i k); simpl in *; [tauto|]. destruct H; [tauto|]. right. eapply IH; eauto.
Qed.

Lemma NoDup_keys_del : forall l k, NoDup (map fst l) -> NoDup (map fst (del k l)).
Proof.
  induction l as [|[i e] r IH]; intros k H; simpl in *.
  - constructor.
  - inversion H; subst. destruct (Nat.eqb i k); [assumption|]. simpl. constructor.
    + intro X. apply keys_del_incl in X. contradiction.
    + apply IH; assumption.
Qed.

Lemma get_del : forall l j k, NoDup (map fst l) -> get j (del k l) = if Nat.eqb k j then None else get j l.
Proof.
  induction l as [|[i e] r IH]; intros j k H; simpl in *.
  - destruct (Nat.eqb k j); reflexivity.
  - inversion H; subst. destruct (Nat.eqb i k) eqn:E1.
    + apply Nat.eqb_eq in E1. subst i. destruct (Nat.eqb k j) eqn:E2; [|reflexivity].
      apply Nat.eqb_eq in E2. subst j. apply get_None_notin. assumption.
    + simpl. rewrite IH by assumption. destruct (Nat.eqb k j) eqn:E2; [|reflexivity].
      apply Nat.eqb_eq in E2. subst j. rewrite E1. reflexivity.
Qed.

Lemma get_set_state_of : forall l j p x,
  get j (set_state_of p x l) = if Nat.eqb p j then option_map (fun c => set_st c x) (get p l) else get j l.
Proof.
  intros l j p x. unfold set_state_of. destruct (get p l) eqn:E.
  - rewrite get_put. destruct (Nat.eqb p j); reflexivity.
  - destruct (Nat.eqb p j) eqn:E2; [|reflexivity]. apply Nat.eqb_eq in E2. subst. rewrite E. reflexivity.
Qed.

Lemma NoDup_keys_set_state_of : forall l p x, NoDup (map fst l) -> NoDup (map fst (set_state_of p x l)).
Proof.
  intros. unfold set_state_of. destruct (get p l); [apply NoDup_keys_put|]; assumption.
Qed.

(* ------------------------------------------------------------------ list surgery *)
Lemma skipn_repeat : forall (A : Type) (x : A) n m, skipn n (repeat x m) = repeat x (m - n).
Proof.
  intros A x n. induction n as [|n IH]; intros m; simpl.
  - rewrite Nat.sub_0_r. reflexivity.
  - destruct m; simpl; [reflexivity|apply IH].
Qed.

Lemma firstn_repeat : forall (A : Type) (x : A) n m, firstn n (repeat x m) = repeat x (Nat.min n m).
Proof.
  intros A x n. induction n as [|n IH]; intros m; simpl.
  - reflexivity.
  - destruct m; simpl; [reflexivity|f_equal; apply IH].
Qed.

Lemma repeat_app_plus : forall (A : Type) (x : A) n m, repeat x n ++ repeat x m = repeat x (n + m).
Proof. intros. symmetry. apply repeat_app. Qed.

Lemma forallb_repeat_zero : forall n, forallb (Z.eqb 0) (repeat 0%Z n) = true.
Proof. induction n; simpl; auto. Qed.
