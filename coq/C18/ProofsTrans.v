(* C18 - the documented state machine: which state changes one command can make. *)
From Coq Require Import List Arith ZArith Bool String Lia.
From C18 Require Import Gen Model ProofsBase ProofsStorage ProofsInv ProofsErr.
Import ListNotations.
Local Open Scope list_scope.

(* state of slot j: None = no coroutine object (never created, or destroyed) *)
Definition stof (s : state) (j : nat) : option cstate := option_map co_st (get j (cos s)).

Inductive tr : option cstate -> option cstate -> Prop :=
| tr_same : forall a, tr a a
| tr_create : tr None (Some Suspended)
| tr_resume : tr (Some Suspended) (Some Running)
| tr_nest : tr (Some Running) (Some Normal)          (* it resumed another coroutine *)
| tr_yield : tr (Some Running) (Some Suspended)
| tr_return : tr (Some Running) (Some Dead)
| tr_back : tr (Some Normal) (Some Running)          (* the coroutine it resumed yielded or returned *)
| tr_unwound : tr (Some Normal) (Some Dead)          (* end of the script only: back and returned in one command *)
| tr_destroy_suspended : tr (Some Suspended) None
| tr_destroy_dead : tr (Some Dead) None.

(* a transition that does not remove the object *)
Definition trk (a b : option cstate) : Prop := tr a b /\ (b = None -> a = None).

Lemma trk_same : forall a, trk a a.
Proof. intro a. split; [constructor|auto]. Qed.

Lemma same_ctl_stof : forall s s', same_ctl s s' -> forall j, stof s' j = stof s j.
Proof.
  intros s s' (_ & A & _) j. specialize (A j). unfold stof.
  destruct (get j (cos s')), (get j (cos s)); simpl in *; try discriminate; [|reflexivity].
  inversion A. reflexivity.
Qed.

Lemma current_prev_normal : forall s k c p,
  Inv s -> current s = Some k -> get k (cos s) = Some c -> co_prev c = Some p ->
  p <> k /\ exists cp, get p (cos s) = Some cp /\ co_st cp = Normal.
Proof.
  intros s k c p (_ & _ & ch & C & N & S) E G P. rewrite E in C.
  pose proof (chain_inv _ _ _ C) as CI. simpl in CI. destruct CI as (c' & rest & -> & G' & Cr).
  rewrite G in G'. inversion G'; subst c'. rewrite P in Cr.
  pose proof (chain_inv _ _ _ Cr) as CI. simpl in CI. destruct CI as (cp & rest' & -> & Gp & _).
  inversion N as [|? ? Nk _]; subst. split.
  - intro; subst. apply Nk. left. reflexivity.
  - exists cp. split; [assumption|]. eapply S; eauto. simpl. left. reflexivity.
Qed.

Lemma mco_resume_tr : forall k s e s', Inv s -> mco_resume k s = (e, s') -> forall j, trk (stof s j) (stof s' j).
Proof.
  intros k s e s' I H j. pose proof H as H0. unfold mco_resume in H.
  destruct (get k (cos s)) as [c|] eqn:G; [|inversion H; subst; apply trk_same].
  destruct (cstate_eqb (co_st c) Suspended) eqn:E; simpl in H; [|inversion H; subst; apply trk_same].
  apply cstate_eqb_eq in E. inversion H; subst; clear H. unfold stof. simpl.
  destruct (current s) as [p|] eqn:Ecur.
  - destruct (current_running _ _ I Ecur) as (cp & Gp & Rp).
    assert (Hpk : p <> k) by (intro; subst; rewrite G in Gp; inversion Gp; subst; congruence).
    rewrite get_set_state_of, !get_put.
    destruct (Nat.eqb p j) eqn:E1.
    + apply Nat.eqb_eq in E1. subst j.
      replace (Nat.eqb k p) with false by (symmetry; apply Nat.eqb_neq; auto).
      rewrite Gp. simpl. rewrite Rp. split; [constructor|discriminate].
    + destruct (Nat.eqb k j) eqn:E2; [|apply trk_same].
      apply Nat.eqb_eq in E2. subst j. rewrite G. simpl. rewrite E. split; [constructor|discriminate].
  - rewrite get_put. destruct (Nat.eqb k j) eqn:E2; [|apply trk_same].
    apply Nat.eqb_eq in E2. subst j. rewrite G. simpl. rewrite E. split; [constructor|discriminate].
Qed.

(* yield / return: k goes from Running to x, its resumer from Normal to Running *)
Lemma jumpout_tr : forall k c0 x s,
  Inv s -> current s = Some k -> get k (cos s) = Some c0 -> (x = Suspended \/ x = Dead) ->
  forall j, trk (stof s j) (stof (jumpout k (set_st c0 x) s) j) /\
            (stof (jumpout k (set_st c0 x) s) j = stof s j \/
             (j = k /\ stof s j = Some Running /\ stof (jumpout k (set_st c0 x) s) j = Some x) \/
             (stof s j = Some Normal /\ stof (jumpout k (set_st c0 x) s) j = Some Running)).
Proof.
  intros k c0 x s I Ecur G Hx j.
  destruct (current_running _ _ I Ecur) as (c' & G' & R). rewrite G in G'. inversion G'; subst c'.
  unfold jumpout, stof. simpl.
  destruct (co_prev c0) as [p|] eqn:P.
  - destruct (current_prev_normal _ _ _ _ I Ecur G P) as (Hpk & cp & Gp & Np).
    rewrite get_set_state_of, !get_put.
    destruct (Nat.eqb p j) eqn:E1.
    + apply Nat.eqb_eq in E1. subst j.
      replace (Nat.eqb k p) with false by (symmetry; apply Nat.eqb_neq; auto).
      rewrite Gp. simpl. rewrite Np. split; [split; [constructor|discriminate]|]. right. right. auto.
    + destruct (Nat.eqb k j) eqn:E2; [|split; [apply trk_same|left; reflexivity]].
      apply Nat.eqb_eq in E2. subst j. rewrite G. simpl. rewrite R.
      split; [|right; left; auto].
      split; [|discriminate]. destruct Hx; subst; constructor.
  - rewrite get_put. destruct (Nat.eqb k j) eqn:E2; [|split; [apply trk_same|left; reflexivity]].
    apply Nat.eqb_eq in E2. subst j. rewrite G. simpl. rewrite R.
    split; [|right; left; auto].
    split; [|discriminate]. destruct Hx; subst; constructor.
Qed.

Lemma mco_destroy_tr : forall k s e s', Inv s -> mco_destroy k s = (e, s') ->
  forall j, tr (stof s j) (stof s' j) /\ (j <> k -> stof s' j = stof s j).
Proof.
  intros k s e s' (I1 & _) H j. unfold mco_destroy in H.
  destruct (get k (cos s)) as [c|] eqn:G; [|inversion H; subst; split; [constructor|reflexivity]].
  destruct (cstate_eqb (co_st c) Suspended || cstate_eqb (co_st c) Dead) eqn:E;
    [|inversion H; subst; split; [constructor|reflexivity]].
  inversion H; subst; clear H. unfold stof. simpl. rewrite get_del by assumption.
  destruct (Nat.eqb k j) eqn:E2.
  - apply Nat.eqb_eq in E2. subst j. rewrite G. simpl. split; [|congruence].
    apply orb_true_iff in E. destruct E as [E|E]; apply cstate_eqb_eq in E; rewrite E; constructor.
  - split; [constructor|reflexivity].
Qed.

Lemma trk_eq_l : forall a a' b, a' = a -> trk a b -> trk a' b.
Proof. intros; subst; assumption. Qed.

Lemma trk_eq_r : forall a b b', b' = b -> trk a b -> trk a b'.
Proof. intros; subst; assumption. Qed.

Lemma co_resume_tr : forall k vals s r s', Inv s -> co_resume k vals s = (r, s') -> forall j, trk (stof s j) (stof s' j).
Proof.
  intros k vals s r s' I H j.
  destruct (co_resume_cases _ _ _ _ _ I H) as [(-> & s1 & P & R)|(_ & ->)]; [|apply trk_same].
  assert (S1 : same_ctl s s1).
  { destruct vals; [inversion P; subst; apply same_ctl_refl|eapply co_push_same; eauto]. }
  rewrite <- (same_ctl_stof _ _ S1 j). eapply mco_resume_tr; [eapply same_ctl_Inv; eauto|exact R].
Qed.

Lemma co_yield_tr : forall vals s r s', Inv s -> co_yield vals s = (r, s') -> forall j, trk (stof s j) (stof s' j).
Proof.
  intros vals s r s' I H j. unfold co_yield in H.
  destruct (current s) as [k|] eqn:Ecur; [|inversion H; subst; apply trk_same].
  destruct (match vals with [] => (COk, s) | _ :: _ => co_push k vals s end) as [r1 s1] eqn:P.
  assert (S1 : same_ctl s s1).
  { destruct vals; [inversion P; subst; apply same_ctl_refl|eapply co_push_same; eauto]. }
  pose proof (same_ctl_Inv _ _ S1 I) as I1.
  rewrite <- (same_ctl_stof _ _ S1 j).
  destruct r1; try (inversion H; subst; apply trk_same).
  destruct (mco_yield_running s1) as [e s2] eqn:R. inversion H; subst. clear H.
  unfold mco_yield_running in R.
  assert (E1 : current s1 = Some k) by (rewrite (same_ctl_current _ _ S1); assumption).
  rewrite E1 in R.
  destruct (get k (cos s1)) as [c|] eqn:G; [|inversion R; subst; apply trk_same].
  destruct (negb (cstate_eqb (co_st c) Running)); inversion R; subst; [apply trk_same|].
  apply jumpout_tr; auto.
Qed.

(* body return: k Running -> Dead, its resumer Normal -> Running *)
Definition fb (a b : option cstate) : Prop :=
  a = b \/ (a = Some Running /\ b = Some Dead) \/ (a = Some Normal /\ b = Some Running).

Lemma finish_body_fb : forall k rets s r s', Inv s -> current s = Some k -> finish_body k rets s = (r, s') ->
  forall j, fb (stof s j) (stof s' j).
Proof.
  intros k rets s r s' I Ecur H j. unfold finish_body in H.
  destruct (get k (cos s)) as [c|] eqn:G; [|inversion H; subst; left; reflexivity].
  destruct (if co_hasret c then push_loop k rets 0 s else (MCO_SUCCESS, 0, s)) as [[e p] s1] eqn:P.
  assert (S1 : same_ctl s s1).
  { destruct (co_hasret c); [eapply push_loop_same; eauto|inversion P; subst; apply same_ctl_refl]. }
  pose proof (same_ctl_Inv _ _ S1 I) as I1.
  rewrite <- (same_ctl_stof _ _ S1 j).
  destruct (is_success e); [|inversion H; subst; left; reflexivity].
  destruct (get k (cos s1)) as [c1|] eqn:G1; inversion H; subst; [|left; reflexivity].
  assert (E1 : current s1 = Some k) by (rewrite (same_ctl_current _ _ S1); assumption).
  destruct (jumpout_tr k c1 Dead s1 I1 E1 G1 (or_intror eq_refl) j) as (_ & [X|[(X1 & X2 & X3)|(X1 & X2)]]).
  - left. symmetry. exact X.
  - right. left. auto.
  - right. right. auto.
Qed.

Lemma fb_trk : forall a b, fb a b -> trk a b.
Proof.
  intros a b [->|[(-> & ->)|(-> & ->)]]; [apply trk_same| |]; (split; [constructor|discriminate]).
Qed.

Lemma body_return_fb : forall k rets s s' ls, Inv s -> current s = Some k -> body_return k rets s = (s', ls) ->
  forall j, fb (stof s j) (stof s' j).
Proof.
  intros k rets s s' ls I Ecur H j. unfold body_return in H.
  destruct (finish_body k rets s) as [r s1] eqn:F.
  pose proof (finish_body_fb _ _ _ _ _ I Ecur F j) as X.
  destruct r; inversion H; subst; exact X.
Qed.

(* end of script: every active coroutine returns, innermost first *)
Definition tr_unw (a b : option cstate) : Prop :=
  a = b \/ (a = Some Normal /\ b = Some Running) \/ ((a = Some Normal \/ a = Some Running) /\ b = Some Dead).

Lemma fb_unw : forall a b c, fb a b -> tr_unw b c -> tr_unw a c.
Proof.
  intros a b c [->|[(-> & ->)|(-> & ->)]] U; [exact U| |].
  - destruct U as [<-|[(X & _)|([X|X] & _)]]; try discriminate. right. right. auto.
  - destruct U as [<-|[(X & _)|([X|X] & ->)]]; try discriminate.
    + right. left. auto.
    + right. right. auto.
Qed.

Lemma unwind_unw : forall fuel rets s s' ls, Inv s -> unwind fuel rets s = (s', ls) ->
  forall j, tr_unw (stof s j) (stof s' j).
Proof.
  induction fuel as [|f IH]; intros rets s s' ls I H j; cbn [unwind] in H.
  - inversion H; subst. left. reflexivity.
  - destruct (current s) as [k|] eqn:Ecur; [|inversion H; subst; left; reflexivity].
    set (s0 := match get k (cos s) with
               | Some c => set_cos s (put k (set_depth c 0) (cos s))
               | None => s end) in *.
    assert (S0 : same_ctl s s0).
    { unfold s0. destruct (get k (cos s)) eqn:G; [apply set_depth_same; assumption|apply same_ctl_refl]. }
    pose proof (same_ctl_Inv _ _ S0 I) as I0.
    assert (E0 : current s0 = Some k) by (rewrite (same_ctl_current _ _ S0); assumption).
    rewrite <- (same_ctl_stof _ _ S0 j).
    destruct (body_return k rets s0) as [s1 l1] eqn:B.
    pose proof (body_return_fb _ _ _ _ _ I0 E0 B j) as F.
    pose proof (body_return_Inv _ _ _ _ _ I0 E0 B) as I1.
    destruct (halted s1).
    + inversion H; subst. eapply fb_unw; [exact F|left; reflexivity].
    + destruct (unwind f rets s1) as [s2 l2] eqn:U. inversion H; subst.
      eapply fb_unw; [exact F|]. eapply IH; eauto.
Qed.

Lemma unw_trk : forall a b, tr_unw a b -> trk a b.
Proof.
  intros a b [->|[(-> & ->)|([->| ->] & ->)]]; [apply trk_same| | |]; (split; [constructor|discriminate]).
Qed.

(* every command moves every slot along the documented state machine, and only destroy
   removes a coroutine object *)
Lemma step_tr : forall o s j, Inv s ->
  tr (stof s j) (stof (fst (step o s)) j) /\
  (stof (fst (step o s)) j = None -> stof s j <> None -> o = ODestroy j \/ o = OClose j \/ o = OForget j).
Proof.
  intros o s j I.
  assert (K : forall s', trk (stof s j) (stof s' j) ->
              tr (stof s j) (stof s' j) /\ (stof s' j = None -> stof s j <> None -> o = ODestroy j \/ o = OClose j \/ o = OForget j)).
  { intros s' (T & N). split; [exact T|]. intros A B. exfalso. apply B. apply N. exact A. }
  assert (KS : forall s', same_ctl s s' ->
              tr (stof s j) (stof s' j) /\ (stof s' j = None -> stof s j <> None -> o = ODestroy j \/ o = OClose j \/ o = OForget j)).
  { intros s' S'. apply K. rewrite (same_ctl_stof _ _ S' j). apply trk_same. }
  assert (D : forall k r s1, co_destroy k s = (r, s1) ->
              tr (stof s j) (stof s1 j) /\ (j <> k -> stof s1 j = stof s j)).
  { intros k r s1 R. unfold co_destroy, co_destroy_with in R.
    destruct (gcon s && DESTROY_UNREGISTERS_FIRST).
    - destruct (gc_unregister k s) as [s0|] eqn:U; [|inversion R; subst; split; [constructor|reflexivity]].
      pose proof (gc_unregister_Inv _ _ _ I U) as I0.
      assert (S0 : stof s0 j = stof s j).
      { unfold gc_unregister in U. destruct (get k (cos s)) as [c|] eqn:G; [|inversion U; reflexivity].
        destruct (co_reg c); inversion U; subst. unfold stof. simpl. rewrite get_put.
        destruct (Nat.eqb k j) eqn:E; [|reflexivity]. apply Nat.eqb_eq in E. subst j. rewrite G. reflexivity. }
      destruct (mco_destroy k s0) as [e s2] eqn:Dd. inversion R; subst.
      rewrite <- S0. eapply mco_destroy_tr; eauto.
    - destruct (mco_destroy k s) as [e s2] eqn:Dd.
      pose proof (mco_destroy_tr _ _ _ _ I Dd j) as X.
      destruct (is_success e && gcon s); [|inversion R; subst; exact X].
      destruct (get k (cos s)) as [c|]; [destruct (co_reg c)|]; inversion R; subst; exact X. }
  unfold step. destruct (halted s); [apply K, trk_same|].
  destruct o.
  - destruct (get k (cos s)) eqn:G; simpl; [apply K, trk_same|].
    apply K. unfold co_create, stof. simpl. rewrite get_put.
    destruct (Nat.eqb k j) eqn:E; [|apply trk_same].
    apply Nat.eqb_eq in E. subst j. rewrite G. simpl. split; [constructor|discriminate].
  - destruct (co_resume k vals s) as [r s1] eqn:R.
    pose proof (co_resume_Inv _ _ _ _ _ I R) as I1. pose proof (co_resume_tr _ _ _ _ _ I R j) as T.
    destruct r; simpl; try (apply K; exact T).
    destruct (arrive k s1) as [s2 ls] eqn:A. simpl. apply K.
    assert (S2 : same_ctl s1 s2).
    { unfold arrive in A. destruct (get k (cos s1)); [|inversion A; subst; apply same_ctl_refl].
      destruct (co_started c); [inversion A; subst; apply same_ctl_refl|].
      destruct (start_body k s1) as [[r0 vs] s3] eqn:B.
      pose proof (start_body_same _ _ _ _ _ I1 B) as S3.
      destruct r0; inversion A; subst; try exact S3;
        (eapply same_ctl_trans; [exact S3|apply same_ctl_halted]). }
    rewrite (same_ctl_stof _ _ S2 j). exact T.
  - destruct (co_yield vals s) as [r s1] eqn:R. pose proof (co_yield_tr _ _ _ _ I R j) as T.
    destruct r; simpl; apply K; exact T.
  - destruct (co_push k vals s) as [r s1] eqn:R. simpl. apply KS. eapply co_push_same; eauto.
  - destruct (co_pop k lens s) as [[r vs] s1] eqn:R. simpl. apply KS. eapply co_pop_same; eauto.
  - destruct (mco_peek k true len s). simpl. apply K, trk_same.
  - destruct (mco_pop k false len s) as [[e s1] d] eqn:R. simpl. apply KS. eapply mco_pop_same; eauto.
  - simpl. apply K, trk_same.
  - simpl. apply K, trk_same.
  - simpl. apply K, trk_same.
  - simpl. apply K, trk_same.
  - destruct (current s) as [k|] eqn:Ecur.
    + destruct (get k (cos s)) eqn:G; simpl; [|apply K, trk_same].
      apply KS. apply set_depth_same. assumption.
    + simpl. apply KS. apply same_ctl_mdepth.
  - destruct (current s) as [k|] eqn:Ecur.
    + destruct (get k (cos s)) eqn:G; simpl; [|apply K, trk_same].
      destruct (Nat.eqb (co_depth c) 0).
      * destruct (body_return k rets s) as [s1 ls] eqn:B. simpl. apply K, fb_trk.
        eapply body_return_fb; eauto.
      * simpl. apply KS. apply set_depth_same. assumption.
    + destruct (Nat.eqb (mdepth s) 0); simpl; [apply K, trk_same|]. apply KS. apply same_ctl_mdepth.
  - (* destroy *)
    destruct (co_destroy k s) as [r s1] eqn:R. destruct (D k r s1 R) as (T & F).
    assert (X : tr (stof s j) (stof s1 j) /\ (stof s1 j = None -> stof s j <> None -> ODestroy k = ODestroy j \/ ODestroy k = OClose j \/ ODestroy k = OForget j)).
    { split; [exact T|]. intros A B. destruct (Nat.eq_dec j k) as [->|Nq]; [left; reflexivity|].
      exfalso. apply B. rewrite <- (F Nq). exact A. }
    destruct r; simpl; exact X.
  - (* close *)
    destruct (co_destroy k s) as [r s1] eqn:R. destruct (D k r s1 R) as (T & F).
    assert (X : tr (stof s j) (stof s1 j) /\ (stof s1 j = None -> stof s j <> None -> OClose k = ODestroy j \/ OClose k = OClose j \/ OClose k = OForget j)).
    { split; [exact T|]. intros A B. destruct (Nat.eq_dec j k) as [->|Nq]; [right; left; reflexivity|].
      exfalso. apply B. rewrite <- (F Nq). exact A. }
    destruct r; simpl; exact X.
  - simpl. apply K, trk_same.
  - destruct (unwind (S (List.length (cos s))) rets s) as [s1 l1] eqn:U.
    pose proof (unwind_unw _ _ _ _ _ I U j) as T.
    destruct (halted s1); simpl; apply K, unw_trk; exact T.
  - simpl. apply K, trk_same.
  - destruct (get k (cos s)) as [c|] eqn:G; simpl; [|apply K, trk_same].
    destruct (cstate_eqb (co_st c) Suspended || cstate_eqb (co_st c) Dead) eqn:E; simpl; [|apply K, trk_same].
    assert (Dd : mco_destroy k s = (MCO_SUCCESS, set_cos s (del k (cos s)))) by (unfold mco_destroy; rewrite G, E; reflexivity).
    destruct (mco_destroy_tr _ _ _ _ I Dd j) as (T & F).
    split; [exact T|]. intros A B. destruct (Nat.eq_dec j k) as [->|Nq]; [right; right; reflexivity|].
    exfalso. apply B. rewrite <- (F Nq). exact A.
Qed.

(* Dead is absorbing: a dead coroutine stays dead until destroy removes it *)
Lemma dead_absorbing : forall o s j, Inv s -> stof s j = Some Dead ->
  stof (fst (step o s)) j = Some Dead \/ (stof (fst (step o s)) j = None /\ (o = ODestroy j \/ o = OClose j \/ o = OForget j)).
Proof.
  intros o s j I D. destruct (step_tr o s j I) as (T & R). rewrite D in T, R.
  inversion T; subst.
  - left. congruence.
  - right. split; [congruence|]. apply R; [congruence|discriminate].
Qed.
