(* C18 - the documented transition table, operation by operation; exact effect of coroutine.pop. *)
From Coq Require Import List Arith ZArith Bool String Lia.
From C18 Require Import Gen Model ProofsBase ProofsStorage ProofsInv ProofsErr ProofsTrans.
Import ListNotations.
Local Open Scope list_scope.

(* ------------------------------------------------------------------ coroutine.pop, exactly *)
(* what the loop of coroutine.pop (sizes in popping order, last argument first) leaves of the contents S,
   and whether every value could be popped *)
Fixpoint unfit (S : list Z) (rlens : list nat) : list Z * bool :=
  match rlens with
  | [] => (S, true)
  | n :: r =>
    if Nat.eqb n 0 then unfit S r
    else if Nat.ltb (List.length S) n then (S, false)
    else unfit (firstn (List.length S - n) S) r
  end.

Lemma pop_loop_ws_gen : forall s k c rlens S acc,
  List.length S <= co_cap c ->
  exists vs, pop_loop k rlens acc (with_st s k c S) =
    (if snd (unfit S rlens) then MCO_SUCCESS else MCO_NOT_ENOUGH_SPACE, vs, with_st s k c (fst (unfit S rlens))).
Proof.
  intros s k c rlens. induction rlens as [|n r IH]; intros S acc H.
  - eexists. reflexivity.
  - cbn [pop_loop unfit]. rewrite mco_pop_ws by assumption.
    destruct (Nat.eqb n 0); cbn [is_success]; [apply IH; assumption|].
    destruct (Nat.ltb (List.length S) n); cbn [is_success fst snd]; [eexists; reflexivity|].
    apply IH. rewrite firstn_length. lia.
Qed.

(* coroutine.pop(co, &x1 .. &xn) on a coroutine with contents [storage c]: success iff every value can be
   popped (last argument first); on a failure the values popped so far STAY popped (no rollback): the state is
   the same with the shorter contents; the error is always MCO_NOT_ENOUGH_SPACE *)
Lemma co_pop_effect : forall s k c lens, Inv s -> get k (cos s) = Some c ->
  exists vs, co_pop k lens s =
    (if snd (unfit (storage c) (rev lens)) then COk else CErr MCO_NOT_ENOUGH_SPACE, vs,
     with_st s k c (fst (unfit (storage c) (rev lens)))).
Proof.
  intros s k c lens I G. pose proof (Inv_wf _ _ _ I G) as W.
  destruct (pop_loop_ws_gen s k c (rev lens) (storage c) [] (wf_cap _ W)) as (vs & P).
  rewrite (ws_id s k c G W) in P. unfold co_pop. rewrite P.
  destruct (snd (unfit (storage c) (rev lens))); cbn [is_success]; eexists; reflexivity.
Qed.

Lemma co_pop_nil : forall s k lens, get k (cos s) = None ->
  co_pop k lens s = (match rev lens with [] => COk | _ => CErr MCO_INVALID_COROUTINE end, [], s).
Proof.
  intros s k lens G. unfold co_pop. destruct (rev lens) as [|n r]; [reflexivity|].
  cbn [pop_loop]. unfold mco_pop. rewrite G. reflexivity.
Qed.

(* ------------------------------------------------------------------ transitions per operation *)
Lemma same_ctl_stof' : forall s s' j, same_ctl s s' -> stof s' j = stof s j.
Proof. intros. apply same_ctl_stof. assumption. Qed.

(* minicoro.resume succeeded: k Suspended -> Running, the resumer Running -> Normal, nothing else *)
Lemma mco_resume_exact : forall k s s', Inv s -> mco_resume k s = (MCO_SUCCESS, s') ->
  stof s k = Some Suspended /\ stof s' k = Some Running /\ current s' = Some k /\
  (forall p, current s = Some p -> stof s p = Some Running /\ stof s' p = Some Normal) /\
  (forall j, j <> k -> current s <> Some j -> stof s' j = stof s j).
Proof.
  intros k s s' I H. unfold mco_resume in H.
  destruct (get k (cos s)) as [c|] eqn:G; [|discriminate].
  destruct (cstate_eqb (co_st c) Suspended) eqn:E; simpl in H; [|discriminate].
  apply cstate_eqb_eq in E. inversion H; subst; clear H. unfold stof. simpl. rewrite G. simpl.
  split; [congruence|].
  destruct (current s) as [p|] eqn:Ecur.
  - destruct (current_running _ _ I Ecur) as (cp & Gp & Rp).
    assert (Hpk : p <> k) by (intro; subst; rewrite G in Gp; inversion Gp; subst; congruence).
    split; [|split; [reflexivity|split]].
    + rewrite get_set_state_of. replace (Nat.eqb p k) with false by (symmetry; apply Nat.eqb_neq; auto).
      rewrite get_put_same. reflexivity.
    + intros q Q. inversion Q; subst q. rewrite Gp. simpl. split; [congruence|].
      rewrite get_set_state_of, Nat.eqb_refl. rewrite get_put_other by auto. rewrite Gp. reflexivity.
    + intros j N1 N2. rewrite get_set_state_of.
      replace (Nat.eqb p j) with false by (symmetry; apply Nat.eqb_neq; congruence).
      rewrite get_put_other by auto. reflexivity.
  - split; [rewrite get_put_same; reflexivity|]. split; [reflexivity|]. split; [discriminate|].
    intros j N1 _. rewrite get_put_other by auto. reflexivity.
Qed.

(* yield / body return: k Running -> x, its resumer Normal -> Running, nothing else *)
Lemma jumpout_exact : forall k c0 x s,
  Inv s -> current s = Some k -> get k (cos s) = Some c0 ->
  let s' := jumpout k (set_st c0 x) s in
  stof s k = Some Running /\ stof s' k = Some x /\ current s' = co_prev c0 /\
  (forall p, co_prev c0 = Some p -> stof s p = Some Normal /\ stof s' p = Some Running) /\
  (forall j, j <> k -> co_prev c0 <> Some j -> stof s' j = stof s j).
Proof.
  intros k c0 x s I Ecur G s'.
  destruct (current_running _ _ I Ecur) as (c' & G' & R). rewrite G in G'. inversion G'; subst c'.
  unfold s', jumpout, stof. simpl. rewrite G. simpl.
  split; [congruence|].
  destruct (co_prev c0) as [p|] eqn:P.
  - destruct (current_prev_normal _ _ _ _ I Ecur G P) as (Hpk & cp & Gp & Np).
    split; [|split; [reflexivity|split]].
    + rewrite get_set_state_of. replace (Nat.eqb p k) with false by (symmetry; apply Nat.eqb_neq; auto).
      rewrite get_put_same. reflexivity.
    + intros q Q. inversion Q; subst q. rewrite Gp. simpl. split; [congruence|].
      rewrite get_set_state_of, Nat.eqb_refl. rewrite get_put_other by auto. rewrite Gp. reflexivity.
    + intros j N1 N2. rewrite get_set_state_of.
      replace (Nat.eqb p j) with false by (symmetry; apply Nat.eqb_neq; congruence).
      rewrite get_put_other by auto. reflexivity.
  - split; [rewrite get_put_same; reflexivity|]. split; [reflexivity|]. split; [discriminate|].
    intros j N1 _. rewrite get_put_other by auto. reflexivity.
Qed.

(* coroutine.resume(co, ...) *)
Lemma resume_transition : forall k vals s r s1, Inv s -> co_resume k vals s = (r, s1) ->
  (r = COk ->
     stof s k = Some Suspended /\ stof s1 k = Some Running /\ current s1 = Some k /\
     (forall p, current s = Some p -> stof s p = Some Running /\ stof s1 p = Some Normal) /\
     (forall j, j <> k -> current s <> Some j -> stof s1 j = stof s j)) /\
  (r <> COk -> s1 = s).
Proof.
  intros k vals s r s1 I H.
  destruct (co_resume_cases _ _ _ _ _ I H) as [(-> & sp & P & R)|((e & ->) & ->)].
  - split; [|intro X; contradiction]. intros _.
    assert (Sp : same_ctl s sp) by (destruct vals; [inversion P; subst; apply same_ctl_refl|eapply co_push_same; eauto]).
    pose proof (same_ctl_Inv _ _ Sp I) as Ip. pose proof (same_ctl_current _ _ Sp) as Cp.
    destruct (mco_resume_exact _ _ _ Ip R) as (A1 & A2 & A3 & A4 & A5).
    rewrite (same_ctl_stof' _ _ k Sp) in A1. rewrite Cp in A4, A5.
    split; [exact A1|]. split; [exact A2|]. split; [exact A3|]. split.
    + intros p Q. destruct (A4 p Q) as (B1 & B2). rewrite (same_ctl_stof' _ _ p Sp) in B1. auto.
    + intros j N1 N2. rewrite (A5 j N1 N2). apply same_ctl_stof'. assumption.
  - split; [discriminate|reflexivity].
Qed.

(* coroutine.yield(...) executed by the running coroutine k *)
Lemma yield_transition : forall k c vals s r s1,
  Inv s -> current s = Some k -> get k (cos s) = Some c -> co_yield vals s = (r, s1) ->
  (r = COk ->
     stof s k = Some Running /\ stof s1 k = Some Suspended /\ current s1 = co_prev c /\
     (forall p, co_prev c = Some p -> stof s p = Some Normal /\ stof s1 p = Some Running) /\
     (forall j, j <> k -> co_prev c <> Some j -> stof s1 j = stof s j)) /\
  (r <> COk -> current s1 = current s /\ forall j, stof s1 j = stof s j).
Proof.
  intros k c vals s r s1 I Ecur G H. unfold co_yield in H. rewrite Ecur in H.
  destruct (match vals with [] => (COk, s) | _ :: _ => co_push k vals s end) as [r1 sp] eqn:P.
  assert (Sp : same_ctl s sp) by (destruct vals; [inversion P; subst; apply same_ctl_refl|eapply co_push_same; eauto]).
  pose proof (same_ctl_Inv _ _ Sp I) as Ip. pose proof (same_ctl_current _ _ Sp) as Cp.
  assert (Same : r <> COk -> sp = s1 -> current s1 = current s /\ (forall j, stof s1 j = stof s j)).
  { intros _ <-. split; [exact Cp|]. intro j. apply same_ctl_stof'. assumption. }
  destruct r1.
  - destruct (mco_yield_running sp) as [e s2] eqn:R. unfold mco_yield_running in R. rewrite Cp, Ecur in R.
    destruct (get k (cos sp)) as [cp|] eqn:Gp.
    + destruct (negb (cstate_eqb (co_st cp) Running)).
      * inversion R; subst. simpl in H. inversion H; subst. split; [discriminate|]. intro X. apply Same; auto.
      * inversion R; subst e s2. simpl in H. inversion H; subst r s1. split; [|intro X; contradiction].
        intros _.
        assert (Ek : current sp = Some k) by (rewrite Cp; exact Ecur).
        pose proof (jumpout_exact k cp Suspended sp Ip Ek Gp) as J. cbv zeta in J.
        destruct J as (A1 & A2 & A3 & A4 & A5).
        destruct Sp as (_ & Sc & _). specialize (Sc k). rewrite G, Gp in Sc. simpl in Sc. inversion Sc as [[C1 C2]].
        assert (Sp' : forall j, stof sp j = stof s j).
        { intro j. unfold stof. destruct (Nat.eq_dec j k) as [->|N]; [rewrite G, Gp; simpl; congruence|].
          pose proof (co_yield_Inv) as _. clear - P I G Ecur N vals.
          assert (X : same_ctl s sp) by (destruct vals; [inversion P; subst; apply same_ctl_refl|eapply co_push_same; eauto]).
          apply (same_ctl_stof _ _ X j). }
        rewrite C2 in *. rewrite (Sp' k) in A1.
        split; [exact A1|]. split; [exact A2|]. split; [exact A3|]. split.
        { intros p Q. destruct (A4 p Q) as (B1 & B2). rewrite (Sp' p) in B1. auto. }
        { intros j N1 N2. rewrite (A5 j N1 N2). apply Sp'. }
    + inversion R; subst. simpl in H. inversion H; subst. split; [discriminate|]. intro X. apply Same; auto.
  - inversion H; subst. split; [discriminate|]. intro X. apply Same; auto.
  - inversion H; subst. split; [discriminate|]. intro X. apply Same; auto.
Qed.

(* the body of the running coroutine k returns (without a panic) *)
Lemma return_transition : forall k c rets s s1,
  Inv s -> current s = Some k -> get k (cos s) = Some c -> finish_body k rets s = (COk, s1) ->
  stof s k = Some Running /\ stof s1 k = Some Dead /\ current s1 = co_prev c /\
  (forall p, co_prev c = Some p -> stof s p = Some Normal /\ stof s1 p = Some Running) /\
  (forall j, j <> k -> co_prev c <> Some j -> stof s1 j = stof s j).
Proof.
  intros k c rets s s1 I Ecur G H. unfold finish_body in H. rewrite G in H.
  destruct (if co_hasret c then push_loop k rets 0 s else (MCO_SUCCESS, 0, s)) as [[e p] sp] eqn:P.
  assert (Sp : same_ctl s sp).
  { destruct (co_hasret c); [eapply push_loop_same; eauto|inversion P; subst; apply same_ctl_refl]. }
  pose proof (same_ctl_Inv _ _ Sp I) as Ip. pose proof (same_ctl_current _ _ Sp) as Cp.
  destruct (is_success e); [|discriminate].
  destruct (get k (cos sp)) as [cp|] eqn:Gp; [|discriminate]. inversion H; subst s1. clear H.
  assert (Ek : current sp = Some k) by (rewrite Cp; exact Ecur).
  pose proof (jumpout_exact k cp Dead sp Ip Ek Gp) as J. cbv zeta in J.
  destruct J as (A1 & A2 & A3 & A4 & A5).
  pose proof (same_ctl_stof _ _ Sp) as Sp'.
  destruct Sp as (_ & Sc & _). specialize (Sc k). rewrite G, Gp in Sc. simpl in Sc. inversion Sc as [[C1 C2]].
  rewrite C2 in *. rewrite (Sp' k) in A1.
  split; [exact A1|]. split; [exact A2|]. split; [exact A3|]. split.
  - intros q Q. destruct (A4 q Q) as (B1 & B2). rewrite (Sp' q) in B1. auto.
  - intros j N1 N2. rewrite (A5 j N1 N2). apply Sp'.
Qed.

(* commands that never change who is what: the storage commands, the queries and the harness-only ones *)
Definition ctl_neutral (o : op) : Prop :=
  match o with
  | OPush _ _ | OPop _ _ | OPeek _ _ | ODrop _ _ | OStatus _ | OStatusMain | OIsYieldable | ORunning
  | ODeeper _ | OGc | OSub _ _ => True
  | _ => False
  end.

Lemma neutral_transition : forall o s j, Inv s -> ctl_neutral o ->
  stof (fst (step o s)) j = stof s j /\ current (fst (step o s)) = current s.
Proof.
  intros o s j I N.
  assert (KS : forall s', same_ctl s s' -> stof s' j = stof s j /\ current s' = current s).
  { intros s' S'. split; [apply same_ctl_stof; assumption|apply same_ctl_current; assumption]. }
  unfold step. destruct (halted s); [auto|].
  destruct o; simpl in N; try contradiction.
  - destruct (co_push k vals s) as [r s1] eqn:R. simpl. apply KS. eapply co_push_same; eauto.
  - destruct (co_pop k lens s) as [[r vs] s1] eqn:R. simpl. apply KS. eapply co_pop_same; eauto.
  - destruct (mco_peek k true len s). simpl. auto.
  - destruct (mco_pop k false len s) as [[e s1] d] eqn:R. simpl. apply KS. eapply mco_pop_same; eauto.
  - simpl. auto.
  - simpl. auto.
  - simpl. auto.
  - simpl. auto.
  - destruct (current s) as [k|] eqn:Ecur.
    + destruct (get k (cos s)) eqn:G; [|simpl; auto].
      split; [apply same_ctl_stof, set_depth_same; assumption|simpl; congruence].
    + simpl. auto.
  - simpl. auto.
  - simpl. auto.
Qed.

(* every failed call of the library leaves every state and the current coroutine alone (also the calls that
   are allowed to change a storage on failure) *)
Lemma failed_call_transition : forall o s r s' j, Inv s -> api o s = Some (CErr r, s') ->
  stof s' j = stof s j /\ current s' = current s.
Proof.
  intros o s r s' j I H. destruct o; simpl in H; try discriminate.
  - inversion H as [H1]. destruct (resume_transition _ _ _ _ _ I H1) as (_ & F).
    rewrite (F ltac:(discriminate)). auto.
  - inversion H as [H1]. unfold co_yield in H1.
    destruct (current s) as [k|] eqn:Ecur; [|inversion H1; subst; auto].
    destruct (current_running _ _ I Ecur) as (c & G & _).
    assert (H2 : co_yield vals s = (CErr r, s')) by (unfold co_yield; rewrite Ecur; exact H1).
    destruct (yield_transition _ _ _ _ _ _ I Ecur G H2) as (_ & F).
    destruct (F ltac:(discriminate)) as (A & B). split; [apply B|congruence].
  - inversion H as [H1]. pose proof (co_push_same _ _ _ _ _ I H1) as S.
    split; [apply same_ctl_stof; assumption|apply same_ctl_current; assumption].
  - destruct (co_pop k lens s) as [[r0 vs] s1] eqn:P. inversion H; subst.
    pose proof (co_pop_same _ _ _ _ _ _ I P) as S.
    split; [apply same_ctl_stof; assumption|apply same_ctl_current; assumption].
  - destruct (mco_peek k true len s). inversion H; subst. auto.
  - destruct (mco_pop k false len s) as [[e s1] d] eqn:P. inversion H; subst.
    pose proof (mco_pop_same _ _ _ _ _ _ _ I P) as S.
    split; [apply same_ctl_stof; assumption|apply same_ctl_current; assumption].
  - inversion H as [H1]. rewrite (error_unchanged (ODestroy k) s r s' I Logic.I H). auto.
Qed.

(* [tr_unwound] (Normal -> Dead within one command) happens at the end of the script only *)
Definition nu (a b : option cstate) : Prop := ~ (a = Some Normal /\ b = Some Dead).

Lemma nu_same : forall a, nu a a.
Proof. intros a (A & B). congruence. Qed.

Lemma co_destroy_shape : forall k s r s1, co_destroy k s = (r, s1) -> s1 = s \/ s1 = set_cos s (del k (cos s)).
Proof.
  intros k s r s1 H. unfold co_destroy, co_destroy_with in H. rewrite destroy_order_fixed, andb_false_r in H.
  assert (M : forall e s2, mco_destroy k s = (e, s2) -> s2 = s \/ s2 = set_cos s (del k (cos s))).
  { intros e s2 D. unfold mco_destroy in D. destruct (get k (cos s)); [|inversion D; auto].
    destruct (cstate_eqb (co_st c) Suspended || cstate_eqb (co_st c) Dead); inversion D; auto. }
  destruct (mco_destroy k s) as [e s2] eqn:D. specialize (M e s2 eq_refl).
  destruct (is_success e && gcon s); [|inversion H; subst; exact M].
  destruct (get k (cos s)) as [c|]; [destruct (co_reg c)|]; inversion H; subst; exact M.
Qed.

Lemma del_nu : forall s k j, Inv s -> nu (stof s j) (stof (set_cos s (del k (cos s))) j).
Proof.
  intros s k j (I1 & _). unfold stof. simpl. rewrite get_del by assumption.
  destruct (Nat.eqb k j); [intros (_ & B); discriminate|apply nu_same].
Qed.

Lemma step_not_unwound : forall o s j, Inv s -> (forall rets n, o <> OEnd rets n) ->
  nu (stof s j) (stof (fst (step o s)) j).
Proof.
  intros o s j I NE.
  assert (KS : forall s', same_ctl s s' -> nu (stof s j) (stof s' j)).
  { intros s' S'. rewrite (same_ctl_stof _ _ S' j). apply nu_same. }
  assert (KN : ctl_neutral o -> nu (stof s j) (stof (fst (step o s)) j)).
  { intro N. destruct (neutral_transition o s j I N) as (A & _). rewrite A. apply nu_same. }
  assert (KD : forall k r s1, co_destroy k s = (r, s1) -> nu (stof s j) (stof s1 j)).
  { intros k r s1 R. destruct (co_destroy_shape _ _ _ _ R) as [->| ->]; [apply nu_same|apply del_nu; assumption]. }
  destruct o; try (apply KN; exact Logic.I).
  - unfold step. destruct (halted s); [apply nu_same|].
    destruct (get k (cos s)) eqn:G; simpl; [apply nu_same|].
    unfold stof at 1. destruct (Nat.eq_dec j k) as [->|N].
    + rewrite G. intros (A & _). discriminate.
    + unfold co_create, stof. simpl. rewrite get_put_other by auto. apply nu_same.
  - unfold step. destruct (halted s); [apply nu_same|].
    destruct (co_resume k vals s) as [r s1] eqn:R.
    pose proof (co_resume_Inv _ _ _ _ _ I R) as I1.
    destruct (resume_transition _ _ _ _ _ I R) as (T1 & T2).
    assert (X : nu (stof s j) (stof s1 j)).
    { destruct r.
      - destruct (T1 eq_refl) as (A1 & A2 & A3 & A4 & A5).
        destruct (Nat.eq_dec j k) as [->|N]; [intros (B & _); congruence|].
        destruct (current s) as [p|] eqn:Ecur.
        + destruct (Nat.eq_dec j p) as [->|N2].
          * destruct (A4 p eq_refl) as (_ & B2). intros (_ & B). congruence.
          * rewrite (A5 j N) by congruence. apply nu_same.
        + rewrite (A5 j N) by discriminate. apply nu_same.
      - rewrite (T2 ltac:(discriminate)). apply nu_same.
      - rewrite (T2 ltac:(discriminate)). apply nu_same. }
    destruct r; simpl; try exact X.
    destruct (arrive k s1) as [s2 ls] eqn:A. simpl.
    assert (S2 : same_ctl s1 s2).
    { unfold arrive in A. destruct (get k (cos s1)); [|inversion A; subst; apply same_ctl_refl].
      destruct (co_started c); [inversion A; subst; apply same_ctl_refl|].
      destruct (start_body k s1) as [[r0 vs] s3] eqn:B.
      pose proof (start_body_same _ _ _ _ _ I1 B) as S3.
      destruct r0; inversion A; subst; try exact S3;
        (eapply same_ctl_trans; [exact S3|apply same_ctl_halted]). }
    rewrite (same_ctl_stof _ _ S2 j). exact X.
  - unfold step. destruct (halted s); [apply nu_same|].
    destruct (co_yield vals s) as [r s1] eqn:R.
    assert (X : nu (stof s j) (stof s1 j)).
    { destruct (current s) as [k|] eqn:Ecur.
      - destruct (current_running _ _ I Ecur) as (c & G & _).
        destruct (yield_transition _ _ _ _ _ _ I Ecur G R) as (T1 & T2).
        destruct r.
        + destruct (T1 eq_refl) as (A1 & A2 & A3 & A4 & A5).
          destruct (Nat.eq_dec j k) as [->|N]; [intros (B & _); congruence|].
          destruct (co_prev c) as [p|] eqn:P.
          * destruct (Nat.eq_dec j p) as [->|N2].
            { destruct (A4 p eq_refl) as (_ & B2). intros (_ & B). congruence. }
            { rewrite (A5 j N) by congruence. apply nu_same. }
          * rewrite (A5 j N) by discriminate. apply nu_same.
        + destruct (T2 ltac:(discriminate)) as (_ & B). rewrite B. apply nu_same.
        + destruct (T2 ltac:(discriminate)) as (_ & B). rewrite B. apply nu_same.
      - unfold co_yield in R. rewrite Ecur in R. inversion R; subst. apply nu_same. }
    destruct r; simpl; exact X.
  - unfold step. destruct (halted s); [apply nu_same|].
    destruct (current s) as [k|] eqn:Ecur.
    + destruct (get k (cos s)) eqn:G; simpl; [|apply nu_same].
      destruct (Nat.eqb (co_depth c) 0).
      * destruct (body_return k rets s) as [s1 ls] eqn:B. simpl.
        pose proof (body_return_fb _ _ _ _ _ I Ecur B j) as F.
        destruct F as [F|[(F1 & F2)|(F1 & F2)]]; [rewrite F; apply nu_same| |]; intros (A & B'); congruence.
      * simpl. apply KS. apply set_depth_same. assumption.
    + destruct (Nat.eqb (mdepth s) 0); simpl; [apply nu_same|]. apply KS. apply same_ctl_mdepth.
  - unfold step. destruct (halted s); [apply nu_same|].
    destruct (co_destroy k s) as [r s1] eqn:R. pose proof (KD _ _ _ R) as X. destruct r; simpl; exact X.
  - unfold step. destruct (halted s); [apply nu_same|].
    destruct (co_destroy k s) as [r s1] eqn:R. pose proof (KD _ _ _ R) as X. destruct r; simpl; exact X.
  - exfalso. eapply NE. reflexivity.
  - unfold step. destruct (halted s); [apply nu_same|].
    destruct (get k (cos s)) as [c|] eqn:G; simpl; [|apply nu_same].
    destruct (cstate_eqb (co_st c) Suspended || cstate_eqb (co_st c) Dead); simpl; [apply del_nu; assumption|apply nu_same].
Qed.
