(* C18 - frame property of the storages: a command changes the stored bytes only of the coroutine it addresses. *)
From Coq Require Import List Arith ZArith Bool String Lia.
From C18 Require Import Gen Model ProofsBase ProofsStorage ProofsInv ProofsErr.
Import ListNotations.
Local Open Scope list_scope.

(* the bytes stored in slot j (None: no coroutine object) *)
Definition stor (s : state) (j : nat) : option (list Z) := option_map storage (get j (cos s)).

(* every slot outside K keeps its stored bytes *)
Definition frame (K : nat -> Prop) (s s' : state) : Prop := forall j, ~ K j -> stor s' j = stor s j.

Definition nobody : nat -> Prop := fun _ => False.

Lemma frame_refl : forall K s, frame K s s.
Proof. intros K s j _. reflexivity. Qed.

Lemma frame_trans : forall K a b c, frame K a b -> frame K b c -> frame K a c.
Proof. intros K a b c A B j N. rewrite (B j N). apply A. assumption. Qed.

Lemma frame_weaken : forall (K K' : nat -> Prop) s s', (forall j, K j -> K' j) -> frame K s s' -> frame K' s s'.
Proof. intros K K' s s' H F j N. apply F. intro X. apply N, H, X. Qed.

Lemma frame_put : forall s k c', frame (eq k) s (set_cos s (put k c' (cos s))).
Proof.
  intros s k c' j N. unfold stor. simpl. rewrite get_put.
  destruct (Nat.eqb k j) eqn:E; [apply Nat.eqb_eq in E; contradiction|reflexivity].
Qed.

(* replacing a record by one with the same storage changes no storage at all *)
Lemma frame_put_same : forall s k c c', get k (cos s) = Some c -> storage c' = storage c ->
  frame nobody s (set_cos s (put k c' (cos s))).
Proof.
  intros s k c c' G E j _. unfold stor. simpl. rewrite get_put.
  destruct (Nat.eqb k j) eqn:Ek; [|reflexivity]. apply Nat.eqb_eq in Ek. subst j. rewrite G. simpl. f_equal. exact E.
Qed.

Lemma frame_halted : forall K s b, frame K s (set_halted s b).
Proof. intros K s b j _. reflexivity. Qed.

Lemma mco_push_frame : forall k src len s r s', mco_push k src len s = (r, s') -> frame (eq k) s s'.
Proof.
  intros k src len s r s' H. unfold mco_push in H.
  destruct (get k (cos s)); [|inversion H; apply frame_refl].
  destruct (mco_push_co c src len) as [r0 c']. destruct (is_success r0); inversion H; [apply frame_put|apply frame_refl].
Qed.

Lemma mco_pop_frame : forall k dest len s r s' d, mco_pop k dest len s = (r, s', d) -> frame (eq k) s s'.
Proof.
  intros k dest len s r s' d H. unfold mco_pop in H.
  destruct (get k (cos s)); [|inversion H; apply frame_refl].
  destruct (mco_pop_co c dest len) as [[r0 c'] d0]. destruct (is_success r0); inversion H; [apply frame_put|apply frame_refl].
Qed.

Lemma push_loop_frame : forall k vals pushed s r p s', push_loop k vals pushed s = (r, p, s') -> frame (eq k) s s'.
Proof.
  intros k vals. induction vals as [|v rest IH]; intros pushed s r p s' H; cbn [push_loop] in H.
  - inversion H. apply frame_refl.
  - destruct (mco_push k (Some v) (List.length v) s) as [e s1] eqn:P.
    pose proof (mco_push_frame _ _ _ _ _ _ P) as F1.
    destruct (is_success e); [eapply frame_trans; [exact F1|eapply IH; eauto]|inversion H; subst; exact F1].
Qed.

Lemma pop_loop_frame : forall k rlens acc s r vs s', pop_loop k rlens acc s = (r, vs, s') -> frame (eq k) s s'.
Proof.
  intros k rlens. induction rlens as [|n rest IH]; intros acc s r vs s' H; cbn [pop_loop] in H.
  - inversion H. apply frame_refl.
  - destruct (mco_pop k true n s) as [[e s1] d] eqn:P.
    pose proof (mco_pop_frame _ _ _ _ _ _ _ P) as F1.
    destruct (is_success e); [eapply frame_trans; [exact F1|eapply IH; eauto]|inversion H; subst; exact F1].
Qed.

Lemma co_push_frame : forall k vals s r s', co_push k vals s = (r, s') -> frame (eq k) s s'.
Proof.
  intros k vals s r s' H. unfold co_push in H.
  destruct (push_loop k vals 0 s) as [[e p] s1] eqn:P. pose proof (push_loop_frame _ _ _ _ _ _ _ P) as F1.
  destruct (is_success e); [inversion H; subst; exact F1|].
  destruct (mco_pop k false p s1) as [[e2 s2] d2] eqn:Q. inversion H; subst.
  eapply frame_trans; [exact F1|eapply mco_pop_frame; eauto].
Qed.

Lemma co_pop_frame : forall k lens s r vs s', co_pop k lens s = (r, vs, s') -> frame (eq k) s s'.
Proof.
  intros k lens s r vs s' H. unfold co_pop in H.
  destruct (pop_loop k (rev lens) [] s) as [[e v] s1] eqn:P. pose proof (pop_loop_frame _ _ _ _ _ _ _ P) as F1.
  destruct (is_success e); inversion H; subst; exact F1.
Qed.

(* the switches touch no storage *)
Lemma set_state_of_frame : forall s p x, frame nobody s (set_cos s (set_state_of p x (cos s))).
Proof.
  intros s p x. unfold set_state_of. destruct (get p (cos s)) as [c|] eqn:G.
  - eapply frame_put_same; eauto.
  - intros j _. reflexivity.
Qed.

Lemma mco_resume_frame : forall k s e s', mco_resume k s = (e, s') -> frame nobody s s'.
Proof.
  intros k s e s' H. unfold mco_resume in H.
  destruct (get k (cos s)) as [c|] eqn:G; [|inversion H; apply frame_refl].
  destruct (negb (cstate_eqb (co_st c) Suspended)); inversion H; [apply frame_refl|]. clear H.
  set (s1 := set_cos s (put k (set_prev (set_st c Running) (current s)) (cos s))).
  assert (F1 : frame nobody s s1) by (eapply frame_put_same; eauto).
  destruct (current s) as [p|].
  - intros j N. pose proof (set_state_of_frame s1 p Normal j N) as X. unfold stor in *. simpl in *. rewrite X. apply F1. exact N.
  - intros j N. apply (F1 j N).
Qed.

Lemma jumpout_frame : forall k c0 x s, get k (cos s) = Some c0 -> frame nobody s (jumpout k (set_st c0 x) s).
Proof.
  intros k c0 x s G. unfold jumpout.
  set (s1 := set_cos s (put k (set_prev (set_st c0 x) None) (cos s))).
  assert (F1 : frame nobody s s1) by (eapply frame_put_same; eauto).
  simpl co_prev. destruct (co_prev c0) as [p|].
  - intros j N. pose proof (set_state_of_frame s1 p Running j N) as X. unfold stor in *. simpl in *. rewrite X. apply F1. exact N.
  - intros j N. apply (F1 j N).
Qed.

Lemma mco_destroy_frame : forall k s e s', Inv s -> mco_destroy k s = (e, s') -> frame (eq k) s s'.
Proof.
  intros k s e s' (I1 & _) H. unfold mco_destroy in H.
  destruct (get k (cos s)); [|inversion H; apply frame_refl].
  destruct (cstate_eqb (co_st c) Suspended || cstate_eqb (co_st c) Dead); inversion H; [|apply frame_refl].
  intros j N. unfold stor. simpl. rewrite get_del by assumption.
  destruct (Nat.eqb k j) eqn:E; [apply Nat.eqb_eq in E; contradiction|reflexivity].
Qed.

Lemma nobody_any : forall K s s', frame nobody s s' -> frame K s s'.
Proof. intros K s s' F. eapply frame_weaken; [|exact F]. intros j []. Qed.

Lemma co_resume_frame : forall k vals s r s', Inv s -> co_resume k vals s = (r, s') -> frame (eq k) s s'.
Proof.
  intros k vals s r s' I H.
  destruct (co_resume_cases _ _ _ _ _ I H) as [(-> & s1 & P & R)|(_ & ->)]; [|apply frame_refl].
  assert (F1 : frame (eq k) s s1) by (destruct vals; [inversion P; apply frame_refl|eapply co_push_frame; eauto]).
  eapply frame_trans; [exact F1|apply nobody_any; eapply mco_resume_frame; eauto].
Qed.

Lemma co_yield_frame : forall vals s r s', co_yield vals s = (r, s') -> frame (fun j => current s = Some j) s s'.
Proof.
  intros vals s r s' H. unfold co_yield in H.
  destruct (current s) as [k|] eqn:Ecur; [|inversion H; apply frame_refl].
  destruct (match vals with [] => (COk, s) | _ :: _ => co_push k vals s end) as [r1 s1] eqn:P.
  assert (F1 : frame (fun j => Some k = Some j) s s1).
  { eapply frame_weaken; [|destruct vals; [inversion P; apply frame_refl|eapply co_push_frame; eauto]].
    intros j ->. reflexivity. }
  destruct r1; try (inversion H; subst; exact F1).
  destruct (mco_yield_running s1) as [e s2] eqn:R. inversion H; subst.
  eapply frame_trans; [exact F1|]. apply nobody_any. unfold mco_yield_running in R.
  destruct (current s1) as [k1|]; [|inversion R; apply frame_refl].
  destruct (get k1 (cos s1)) as [c|] eqn:G; [|inversion R; apply frame_refl].
  destruct (negb (cstate_eqb (co_st c) Running)); inversion R; [apply frame_refl|apply jumpout_frame; assumption].
Qed.

Lemma start_body_frame : forall k s r vs s', start_body k s = (r, vs, s') -> frame (eq k) s s'.
Proof.
  intros k s r vs s' H. unfold start_body in H.
  destruct (get k (cos s)) as [c|] eqn:G; [|inversion H; apply frame_refl].
  destruct (pop_loop k (rev (co_argsz c)) [] (set_cos s (put k (set_started c true) (cos s)))) as [[e v] s1] eqn:P.
  pose proof (pop_loop_frame _ _ _ _ _ _ _ P) as F1.
  assert (F : frame (eq k) s s1) by (eapply frame_trans; [apply frame_put|exact F1]).
  destruct (is_success e); inversion H; subst; exact F.
Qed.

Lemma arrive_frame : forall k s s' ls, arrive k s = (s', ls) -> frame (eq k) s s'.
Proof.
  intros k s s' ls H. unfold arrive in H.
  destruct (get k (cos s)) as [c|]; [|inversion H; apply frame_refl].
  destruct (co_started c); [inversion H; apply frame_refl|].
  destruct (start_body k s) as [[r vs] s1] eqn:B. pose proof (start_body_frame _ _ _ _ _ B) as F1.
  destruct r; inversion H; subst; exact F1.
Qed.

Lemma finish_body_frame : forall k rets s r s', finish_body k rets s = (r, s') -> frame (eq k) s s'.
Proof.
  intros k rets s r s' H. unfold finish_body in H.
  destruct (get k (cos s)) as [c|] eqn:G; [|inversion H; apply frame_refl].
  destruct (if co_hasret c then push_loop k rets 0 s else (MCO_SUCCESS, 0, s)) as [[e p] s1] eqn:P.
  assert (F1 : frame (eq k) s s1).
  { destruct (co_hasret c); [eapply push_loop_frame; eauto|inversion P; apply frame_refl]. }
  destruct (is_success e); [|inversion H; subst; exact F1].
  destruct (get k (cos s1)) as [c1|] eqn:G1; inversion H; subst; [|exact F1].
  eapply frame_trans; [exact F1|apply nobody_any, jumpout_frame; assumption].
Qed.

Lemma body_return_frame : forall k rets s s' ls, body_return k rets s = (s', ls) -> frame (eq k) s s'.
Proof.
  intros k rets s s' ls H. unfold body_return in H.
  destruct (finish_body k rets s) as [r s1] eqn:F. pose proof (finish_body_frame _ _ _ _ _ F) as F1.
  destruct r; inversion H; subst; exact F1.
Qed.

Lemma co_destroy_frame : forall k s r s', Inv s -> co_destroy k s = (r, s') -> frame (eq k) s s'.
Proof.
  intros k s r s' I H. unfold co_destroy, co_destroy_with in H. rewrite destroy_order_fixed, andb_false_r in H.
  destruct (mco_destroy k s) as [e s2] eqn:D. pose proof (mco_destroy_frame _ _ _ _ I D) as F1.
  destruct (is_success e && gcon s); [|inversion H; subst; exact F1].
  destruct (get k (cos s)) as [c|]; [destruct (co_reg c)|]; inversion H; subst; exact F1.
Qed.

(* the coroutine(s) whose storage a command may change *)
Definition addressed (o : op) (s : state) (j : nat) : Prop :=
  match o with
  | OCreate k _ _ | OResume k _ | OPush k _ | OPop k _ | ODrop k _ | ODestroy k | OClose k | OForget k => j = k
  | OYield _ | ORet _ => current s = Some j     (* yield(...) pushes, a returning body pushes its results *)
  | OEnd _ _ => True                            (* every active body returns *)
  | _ => False
  end.

Lemma step_frame : forall o s, Inv s -> frame (addressed o s) s (fst (step o s)).
Proof.
  intros o s I. unfold step. destruct (halted s); [apply frame_refl|].
  destruct o; cbn [addressed].
  - destruct (get k (cos s)); simpl; [apply frame_refl|].
    eapply frame_weaken; [|apply frame_put]. intros j ->. reflexivity.
  - destruct (co_resume k vals s) as [r s1] eqn:R. pose proof (co_resume_frame _ _ _ _ _ I R) as F1.
    assert (F1' : frame (fun j => j = k) s s1) by (eapply frame_weaken; [|exact F1]; intros j ->; reflexivity).
    destruct r; simpl; try exact F1'.
    destruct (arrive k s1) as [s2 ls] eqn:A. simpl. eapply frame_trans; [exact F1'|].
    eapply frame_weaken; [|eapply arrive_frame; eauto]. intros j ->. reflexivity.
  - destruct (co_yield vals s) as [r s1] eqn:R. pose proof (co_yield_frame _ _ _ _ R) as F1.
    destruct r; simpl; exact F1.
  - destruct (co_push k vals s) as [r s1] eqn:R. simpl.
    eapply frame_weaken; [|eapply co_push_frame; eauto]. intros j ->. reflexivity.
  - destruct (co_pop k lens s) as [[r vs] s1] eqn:R. simpl.
    eapply frame_weaken; [|eapply co_pop_frame; eauto]. intros j ->. reflexivity.
  - destruct (mco_peek k true len s). simpl. apply frame_refl.
  - destruct (mco_pop k false len s) as [[e s1] d] eqn:R. simpl.
    eapply frame_weaken; [|eapply mco_pop_frame; eauto]. intros j ->. reflexivity.
  - simpl. apply frame_refl.
  - simpl. apply frame_refl.
  - simpl. apply frame_refl.
  - simpl. apply frame_refl.
  - destruct (current s) as [k|].
    + destruct (get k (cos s)) eqn:G; simpl; [|apply frame_refl].
      apply nobody_any. eapply frame_put_same; eauto.
    + simpl. intros j _. reflexivity.
  - destruct (current s) as [k|] eqn:Ecur.
    + destruct (get k (cos s)) eqn:G; simpl; [|apply frame_refl].
      destruct (Nat.eqb (co_depth c) 0).
      * destruct (body_return k rets s) as [s1 ls] eqn:B. simpl.
        eapply frame_weaken; [|eapply body_return_frame; eauto]. intros j E. congruence.
      * simpl. apply nobody_any. eapply frame_put_same; eauto.
    + destruct (Nat.eqb (mdepth s) 0); simpl; [apply frame_refl|]. intros j _. reflexivity.
  - destruct (co_destroy k s) as [r s1] eqn:R. pose proof (co_destroy_frame _ _ _ _ I R) as F1.
    assert (F1' : frame (fun j => j = k) s s1) by (eapply frame_weaken; [|exact F1]; intros j ->; reflexivity).
    destruct r; simpl; exact F1'.
  - destruct (co_destroy k s) as [r s1] eqn:R. pose proof (co_destroy_frame _ _ _ _ I R) as F1.
    assert (F1' : frame (fun j => j = k) s s1) by (eapply frame_weaken; [|exact F1]; intros j ->; reflexivity).
    destruct r; simpl; exact F1'.
  - simpl. apply frame_refl.
  - intros j N. exfalso. apply N. exact Logic.I.
  - simpl. apply frame_refl.
  - destruct (get k (cos s)) as [c|] eqn:G; simpl; [|apply frame_refl].
    destruct (cstate_eqb (co_st c) Suspended || cstate_eqb (co_st c) Dead) eqn:E; simpl; [|apply frame_refl].
    assert (Dd : mco_destroy k s = (MCO_SUCCESS, set_cos s (del k (cos s)))) by (unfold mco_destroy; rewrite G, E; reflexivity).
    eapply frame_weaken; [|eapply mco_destroy_frame; eauto]. intros j ->. reflexivity.
Qed.

(* corollary: values given to a coroutine stay in its storage, untouched and on top, while any number of commands
   that do not address it run (other coroutines resume, yield, push, pop, die, ...) *)
Fixpoint quiet (j : nat) (l : list op) (t : state) : Prop :=
  match l with
  | [] => True
  | o :: r => ~ addressed o t j /\ quiet j r (fst (step o t))
  end.

Lemma run_frame : forall ops s j, Inv s -> quiet j ops s -> stor (fst (run ops s)) j = stor s j.
Proof.
  induction ops as [|o r IH]; intros s j I Q; cbn [run].
  - reflexivity.
  - destruct Q as (N & Q). pose proof (step_frame o s I j N) as F. pose proof (step_Inv o s I) as I1.
    destruct (step o s) as [s1 l1]. simpl in *.
    specialize (IH s1 j I1 Q). destruct (run r s1) as [s2 l2]. simpl in *. congruence.
Qed.
