(* C18 - values pushed on one side of a switch are popped on the other side, in order and unmodified. *)
From Coq Require Import List Arith ZArith Bool String Lia.
From C18 Require Import Gen Model ProofsBase ProofsStorage ProofsInv ProofsErr ProofsTrans.
Import ListNotations.
Local Open Scope list_scope.

(* popping exactly what is on top *)
Lemma co_pop_exact : forall s k c S vs,
  get k (cos s) = Some c -> co_wf c -> storage c = S ++ List.concat vs ->
  co_pop k (map (@List.length Z) vs) s = (COk, vs, with_st s k c S).
Proof.
  intros s k c S vs G W E. pose proof (wf_cap c W) as L. rewrite E in L.
  rewrite <- (ws_id s k c G W) at 1. rewrite E.
  unfold co_pop. rewrite pop_loop_ws_ok by assumption. rewrite app_nil_r. reflexivity.
Qed.

Lemma ws_storage : forall s k c S, exists c', get k (cos (with_st s k c S)) = Some c' /\ storage c' = S.
Proof. intros. eexists. split; [apply ws_get|apply norm_storage]. Qed.

(* a successful coroutine.push appends the values, in order *)
Lemma co_push_storage : forall s k c vals s1, Inv s -> get k (cos s) = Some c -> co_push k vals s = (COk, s1) ->
  exists c1, get k (cos s1) = Some c1 /\ storage c1 = storage c ++ List.concat vals /\ ctl c1 = ctl c.
Proof.
  intros s k c vals s1 I G P. pose proof (Inv_wf _ _ _ I G) as W.
  pose proof (co_push_ws s k c vals (storage c) (wf_cap _ W)) as X.
  rewrite (ws_id s k c G W) in X. rewrite X in P.
  destruct (snd (fit (co_cap c) (storage c) vals)); inversion P; subst.
  exists (mk_norm c (storage c ++ List.concat vals)). split; [apply ws_get|]. split; [apply norm_storage|reflexivity].
Qed.

(* the switches do not touch any storage *)
Lemma mco_resume_storage : forall k s s1 j c, mco_resume k s = (MCO_SUCCESS, s1) -> get j (cos s) = Some c ->
  exists c1, get j (cos s1) = Some c1 /\ storage c1 = storage c.
Proof.
  intros k s s1 j c H G. unfold mco_resume in H.
  destruct (get k (cos s)) as [ck|] eqn:Gk; [|discriminate].
  destruct (negb (cstate_eqb (co_st ck) Suspended)); [discriminate|]. inversion H; subst; clear H. simpl.
  assert (X : exists c1, get j (put k (set_prev (set_st ck Running) (current s)) (cos s)) = Some c1 /\ storage c1 = storage c).
  { rewrite get_put. destruct (Nat.eqb k j) eqn:E.
    - apply Nat.eqb_eq in E. subst j. rewrite G in Gk. inversion Gk; subst. eexists; split; reflexivity.
    - eauto. }
  destruct (current s) as [p|]; [|exact X].
  destruct X as (c1 & G1 & S1). rewrite get_set_state_of.
  destruct (Nat.eqb p j) eqn:E; [|eauto].
  apply Nat.eqb_eq in E. subst j. rewrite G1. simpl. eexists; split; [reflexivity|exact S1].
Qed.

Lemma jumpout_storage : forall k c0 x s j c, get k (cos s) = Some c0 -> get j (cos s) = Some c ->
  exists c1, get j (cos (jumpout k (set_st c0 x) s)) = Some c1 /\ storage c1 = storage c.
Proof.
  intros k c0 x s j c Gk G. unfold jumpout. simpl.
  assert (X : exists c1, get j (put k (set_prev (set_st c0 x) None) (cos s)) = Some c1 /\ storage c1 = storage c).
  { rewrite get_put. destruct (Nat.eqb k j) eqn:E.
    - apply Nat.eqb_eq in E. subst j. rewrite G in Gk. inversion Gk; subst. eexists; split; reflexivity.
    - eauto. }
  destruct (co_prev c0) as [p|]; [|exact X].
  destruct X as (c1 & G1 & S1). rewrite get_set_state_of.
  destruct (Nat.eqb p j) eqn:E; [|eauto].
  apply Nat.eqb_eq in E. subst j. rewrite G1. simpl. eexists; split; [reflexivity|exact S1].
Qed.

(* resume(co, v1..vn): once control is in co, coroutine.pop(co, &x1..&xn) yields v1..vn and leaves
   the storage as it was before the resume *)
Lemma resume_delivers : forall s k c vals s1,
  Inv s -> get k (cos s) = Some c -> co_resume k vals s = (COk, s1) ->
  current s1 = Some k /\
  exists c1, get k (cos s1) = Some c1 /\
    co_pop k (map (@List.length Z) vals) s1 = (COk, vals, with_st s1 k c1 (storage c)).
Proof.
  intros s k c vals s1 I G H.
  destruct (co_resume_cases _ _ _ _ _ I H) as [(_ & sp & P & R)|((e & X) & _)]; [|discriminate].
  assert (X : Inv sp /\ exists cp, get k (cos sp) = Some cp /\ storage cp = storage c ++ List.concat vals).
  { destruct vals as [|v vr].
    - inversion P; subst. split; [assumption|]. exists c. simpl. rewrite app_nil_r. auto.
    - split; [eapply same_ctl_Inv; [eapply co_push_same; eauto|assumption]|].
      destruct (co_push_storage _ _ _ _ _ I G P) as (c1 & A & B & _). eauto. }
  destruct X as (Ip & cp & Gp & Sp).
  split.
  - unfold mco_resume in R. rewrite Gp in R. destruct (negb (cstate_eqb (co_st cp) Suspended)); inversion R. reflexivity.
  - destruct (mco_resume_storage _ _ _ _ _ R Gp) as (c1 & G1 & S1). exists c1. split; [exact G1|].
    apply co_pop_exact; [exact G1| |congruence].
    eapply Inv_wf; [|exact G1]. eapply mco_resume_Inv; eauto.
Qed.

(* yield(v1..vn): once control is back in the resumer, coroutine.pop(co, ...) on the coroutine that
   yielded returns v1..vn *)
Lemma yield_delivers : forall s k c vals s1,
  Inv s -> current s = Some k -> get k (cos s) = Some c -> co_yield vals s = (COk, s1) ->
  current s1 = co_prev c /\
  exists c1, get k (cos s1) = Some c1 /\ co_st c1 = Suspended /\
    co_pop k (map (@List.length Z) vals) s1 = (COk, vals, with_st s1 k c1 (storage c)).
Proof.
  intros s k c vals s1 I Ecur G H. pose proof (co_yield_Inv _ _ _ _ I H) as I1. unfold co_yield in H. rewrite Ecur in H.
  destruct (match vals with [] => (COk, s) | _ :: _ => co_push k vals s end) as [r1 sp] eqn:P.
  assert (X : r1 = COk /\ same_ctl s sp /\ exists cp, get k (cos sp) = Some cp /\ storage cp = storage c ++ List.concat vals /\ ctl cp = ctl c).
  { destruct vals as [|v vr].
    - inversion P; subst. split; [reflexivity|]. split; [apply same_ctl_refl|]. exists c. simpl. rewrite app_nil_r. auto.
    - destruct r1; try discriminate. split; [reflexivity|].
      split; [exact (co_push_same _ _ _ _ _ I P)|]. exact (co_push_storage _ _ _ _ _ I G P). }
  destruct X as (-> & Sp & cp & Gp & Stp & Cp).
  pose proof (same_ctl_Inv _ _ Sp I) as Ip.
  destruct (mco_yield_running sp) as [e s2] eqn:R. destruct e; simpl in H; try discriminate. inversion H; subst s2.
  unfold mco_yield_running in R. rewrite (same_ctl_current _ _ Sp), Ecur, Gp in R.
  destruct (negb (cstate_eqb (co_st cp) Running)); [discriminate|]. inversion R; subst s1. clear R H.
  inversion Cp as [[C1 C2]].
  split; [simpl; congruence|].
  assert (G1 : get k (cos (jumpout k (set_st cp Suspended) sp)) = Some (set_prev (set_st cp Suspended) None)).
  { unfold jumpout. simpl. destruct (co_prev cp) as [p|] eqn:Pp.
    - assert (Ek : current sp = Some k) by (rewrite (same_ctl_current _ _ Sp); assumption).
      destruct (current_prev_normal _ _ _ _ Ip Ek Gp Pp) as (Hpk & _).
      rewrite get_set_state_of.
      replace (Nat.eqb p k) with false by (symmetry; apply Nat.eqb_neq; auto). apply get_put_same.
    - apply get_put_same. }
  eexists. split; [exact G1|]. split; [reflexivity|].
  apply co_pop_exact; [exact G1| |].
  - eapply Inv_wf; [exact I1|exact G1].
  - change (storage (set_prev (set_st cp Suspended) None)) with (storage cp). exact Stp.
Qed.

(* ---- the typed argument / return protocol of the wrapper generated by coroutine.create *)
Definition meta (c : co) := (co_argsz c, co_hasret c, co_started c).

Lemma pop_loop_exact : forall s k c S vs,
  get k (cos s) = Some c -> co_wf c -> storage c = S ++ List.concat vs ->
  pop_loop k (rev (map (@List.length Z) vs)) [] s = (MCO_SUCCESS, vs, with_st s k c S).
Proof.
  intros s k c S vs G W E. pose proof (wf_cap c W) as L. rewrite E in L.
  rewrite <- (ws_id s k c G W) at 1. rewrite E.
  rewrite pop_loop_ws_ok by assumption. rewrite app_nil_r. reflexivity.
Qed.

Lemma co_push_meta : forall s k c vals s1, Inv s -> get k (cos s) = Some c -> co_push k vals s = (COk, s1) ->
  exists c1, get k (cos s1) = Some c1 /\ meta c1 = meta c.
Proof.
  intros s k c vals s1 I G P. pose proof (Inv_wf _ _ _ I G) as W.
  pose proof (co_push_ws s k c vals (storage c) (wf_cap _ W)) as X.
  rewrite (ws_id s k c G W) in X. rewrite X in P.
  destruct (snd (fit (co_cap c) (storage c) vals)); inversion P; subst.
  eexists. split; [apply ws_get|reflexivity].
Qed.

Lemma mco_resume_meta : forall k s s1 c, mco_resume k s = (MCO_SUCCESS, s1) -> get k (cos s) = Some c ->
  current s <> Some k ->
  exists c1, get k (cos s1) = Some c1 /\ meta c1 = meta c /\ storage c1 = storage c.
Proof.
  intros k s s1 c H G N. unfold mco_resume in H. rewrite G in H.
  destruct (negb (cstate_eqb (co_st c) Suspended)); [discriminate|]. inversion H; subst; clear H. simpl.
  destruct (current s) as [p|].
  - rewrite get_set_state_of.
    replace (Nat.eqb p k) with false by (symmetry; apply Nat.eqb_neq; congruence).
    rewrite get_put_same. eexists. split; [reflexivity|]. split; reflexivity.
  - rewrite get_put_same. eexists. split; [reflexivity|]. split; reflexivity.
Qed.

(* first resume of a coroutine whose body takes arguments of sizes [map length vals]: the wrapper
   pops exactly the values given to resume, in order, and the storage is what it was before *)
Lemma body_receives_arguments : forall s k c vals s1,
  Inv s -> get k (cos s) = Some c -> co_started c = false -> co_argsz c = map (@List.length Z) vals ->
  co_resume k vals s = (COk, s1) ->
  exists s2 c2, start_body k s1 = (COk, vals, s2) /\ get k (cos s2) = Some c2 /\ storage c2 = storage c /\
                arrive k s1 = (s2, [mkLine (Some k) 0 "start" (map FV vals)]).
Proof.
  intros s k c vals s1 I G Hst Ha H. pose proof (co_resume_Inv _ _ _ _ _ I H) as I1.
  destruct (co_resume_cases _ _ _ _ _ I H) as [(_ & sp & P & R)|((e & X) & _)]; [|discriminate].
  assert (X : same_ctl s sp /\ exists cp, get k (cos sp) = Some cp /\
              storage cp = storage c ++ List.concat vals /\ meta cp = meta c).
  { destruct vals as [|v vr].
    - inversion P; subst. split; [apply same_ctl_refl|]. exists c. simpl. rewrite app_nil_r. auto.
    - split; [exact (co_push_same _ _ _ _ _ I P)|].
      destruct (co_push_storage _ _ _ _ _ I G P) as (c1 & A & B & _).
      destruct (co_push_meta _ _ _ _ _ I G P) as (c1' & A' & B'). rewrite A in A'. inversion A'; subst. eauto. }
  destruct X as (Sp & cp & Gp & Stp & Mp).
  pose proof (same_ctl_Inv _ _ Sp I) as Ip.
  assert (Ncur : current sp <> Some k).
  { intro E. destruct (current_running _ _ Ip E) as (c' & G' & R'). rewrite Gp in G'. inversion G'; subst c'.
    unfold mco_resume in R. rewrite Gp, R' in R. simpl in R. discriminate. }
  destruct (mco_resume_meta _ _ _ _ R Gp Ncur) as (c1 & G1 & M1 & S1).
  assert (W1 : co_wf c1) by exact (Inv_wf _ _ _ I1 G1).
  unfold meta in *. inversion Mp as [[Ma Mb Mc]]. inversion M1 as [[Na Nb Nc]].
  set (s0 := set_cos s1 (put k (set_started c1 true) (cos s1))).
  assert (G0 : get k (cos s0) = Some (set_started c1 true)) by (unfold s0; simpl; apply get_put_same).
  assert (PL : pop_loop k (rev (co_argsz c1)) [] s0 = (MCO_SUCCESS, vals, with_st s0 k (set_started c1 true) (storage c))).
  { rewrite Na, Ma, Ha. apply pop_loop_exact; [exact G0|exact W1|].
    change (storage (set_started c1 true)) with (storage c1). congruence. }
  assert (SB : start_body k s1 = (COk, vals, with_st s0 k (set_started c1 true) (storage c))).
  { unfold start_body. rewrite G1. fold s0. rewrite PL. reflexivity. }
  eexists. eexists. split; [exact SB|]. split; [apply ws_get|]. split; [apply norm_storage|].
  unfold arrive. rewrite G1. rewrite Nc, Mc, Hst. rewrite SB. reflexivity.
Qed.

(* the body returns [rets]: the resumer (now current) pops exactly these values from the dead coroutine *)
Lemma body_return_delivers : forall s k c rets s1,
  Inv s -> current s = Some k -> get k (cos s) = Some c -> co_hasret c = true ->
  finish_body k rets s = (COk, s1) ->
  current s1 = co_prev c /\
  exists c1, get k (cos s1) = Some c1 /\ co_st c1 = Dead /\
    co_pop k (map (@List.length Z) rets) s1 = (COk, rets, with_st s1 k c1 (storage c)).
Proof.
  intros s k c rets s1 I Ecur G Hr H. pose proof (finish_body_Inv _ _ _ _ _ I Ecur H) as I1.
  unfold finish_body in H. rewrite G, Hr in H.
  destruct (push_loop k rets 0 s) as [[e p] sp] eqn:P.
  pose proof (push_loop_same _ _ _ _ _ _ _ I P) as Sp.
  pose proof (Inv_wf _ _ _ I G) as W.
  pose proof (push_loop_ws s k c rets (storage c) 0 (wf_cap _ W)) as X.
  rewrite (ws_id s k c G W) in X. rewrite X in P. inversion P; subst e p sp. clear P.
  destruct (fit_spec (co_cap c) rets (storage c) (wf_cap _ W)) as (t & A & B & C & D).
  destruct (snd (fit (co_cap c) (storage c) rets)) eqn:E; simpl in H; try discriminate.
  rewrite A, (C eq_refl) in *. rewrite get_put_same in H. inversion H; subst s1. clear H.
  set (sp := with_st s k c (storage c ++ List.concat rets)) in *.
  set (cp := mk_norm c (storage c ++ List.concat rets)) in *.
  assert (Gp : get k (cos sp) = Some cp) by apply ws_get.
  pose proof (same_ctl_Inv _ _ Sp I) as Ip.
  split; [reflexivity|].
  assert (G1 : get k (cos (jumpout k (set_st cp Dead) sp)) = Some (set_prev (set_st cp Dead) None)).
  { unfold jumpout. simpl. destruct (co_prev c) as [q|] eqn:Pp.
    - assert (Ek : current sp = Some k) by (rewrite (same_ctl_current _ _ Sp); assumption).
      destruct (current_prev_normal sp k cp q Ip Ek Gp Pp) as (Hpk & _).
      rewrite get_set_state_of.
      replace (Nat.eqb q k) with false by (symmetry; apply Nat.eqb_neq; auto). apply get_put_same.
    - apply get_put_same. }
  eexists. split; [exact G1|]. split; [reflexivity|].
  apply co_pop_exact; [exact G1| |].
  - eapply Inv_wf; [exact I1|exact G1].
  - change (storage (set_prev (set_st cp Dead) None)) with (storage cp). apply norm_storage.
Qed.
