(* C18 - executable model of lib/coroutine.nelua on top of the C functions of minicoro
   (lib/detail/minicoro.nelua), one function at a time.  No proofs in this file.

   A coroutine "pointer" is a slot number [k : nat]; [get k (cos s) = None] is the nil pointer
   (slot never filled, or emptied by a successful destroy: the harness clears the handle).
   [current s = None] means mco_running() == NULL, i.e. the main program is running.

   Outside the model: the context switch itself (_mco_switch), stack overflow detection,
   allocation failure.  The frames a coroutine has on its stack are abstracted to a frame
   counter [co_depth] (the schedule interpreter of harness/C18 recurses / returns on request). *)
From Coq Require Import List Arith ZArith Bool String.
From C18 Require Import Gen.
Import ListNotations.
Local Open Scope string_scope.
Local Open Scope list_scope.

(* ------------------------------------------------------------------ enums *)
Inductive cstate := Dead | Normal | Running | Suspended.

Definition cstate_name (x : cstate) : string :=
  match x with Dead => "MCO_DEAD" | Normal => "MCO_NORMAL" | Running => "MCO_RUNNING" | Suspended => "MCO_SUSPENDED" end.

Definition cstate_eqb (a b : cstate) : bool :=
  match a, b with Dead, Dead | Normal, Normal | Running, Running | Suspended, Suspended => true | _, _ => false end.

Inductive mres :=
| MCO_SUCCESS | MCO_GENERIC_ERROR | MCO_INVALID_POINTER | MCO_INVALID_COROUTINE | MCO_NOT_SUSPENDED
| MCO_NOT_RUNNING | MCO_MAKE_CONTEXT_ERROR | MCO_SWITCH_CONTEXT_ERROR | MCO_NOT_ENOUGH_SPACE
| MCO_OUT_OF_MEMORY | MCO_INVALID_ARGUMENTS | MCO_INVALID_OPERATION | MCO_STACK_OVERFLOW.

Definition mres_name (r : mres) : string :=
  match r with
  | MCO_SUCCESS => "MCO_SUCCESS" | MCO_GENERIC_ERROR => "MCO_GENERIC_ERROR"
  | MCO_INVALID_POINTER => "MCO_INVALID_POINTER" | MCO_INVALID_COROUTINE => "MCO_INVALID_COROUTINE"
  | MCO_NOT_SUSPENDED => "MCO_NOT_SUSPENDED" | MCO_NOT_RUNNING => "MCO_NOT_RUNNING"
  | MCO_MAKE_CONTEXT_ERROR => "MCO_MAKE_CONTEXT_ERROR" | MCO_SWITCH_CONTEXT_ERROR => "MCO_SWITCH_CONTEXT_ERROR"
  | MCO_NOT_ENOUGH_SPACE => "MCO_NOT_ENOUGH_SPACE" | MCO_OUT_OF_MEMORY => "MCO_OUT_OF_MEMORY"
  | MCO_INVALID_ARGUMENTS => "MCO_INVALID_ARGUMENTS" | MCO_INVALID_OPERATION => "MCO_INVALID_OPERATION"
  | MCO_STACK_OVERFLOW => "MCO_STACK_OVERFLOW"
  end.

Definition all_mres : list mres :=
  [MCO_SUCCESS; MCO_GENERIC_ERROR; MCO_INVALID_POINTER; MCO_INVALID_COROUTINE; MCO_NOT_SUSPENDED;
   MCO_NOT_RUNNING; MCO_MAKE_CONTEXT_ERROR; MCO_SWITCH_CONTEXT_ERROR; MCO_NOT_ENOUGH_SPACE;
   MCO_OUT_OF_MEMORY; MCO_INVALID_ARGUMENTS; MCO_INVALID_OPERATION; MCO_STACK_OVERFLOW].

Definition all_cstate : list cstate := [Dead; Normal; Running; Suspended].

Fixpoint assoc_s {A : Type} (k : string) (l : list (string * A)) : option A :=
  match l with
  | [] => None
  | (j, v) :: r => if String.eqb j k then Some v else assoc_s k r
  end.

(* numeric value of an enumerator as scraped from the source *)
Definition cstate_code (x : cstate) : option Z := assoc_s (cstate_name x) MCO_STATE_ENUM.
Definition mres_code (r : mres) : option Z := assoc_s (mres_name r) MCO_RESULT_ENUM.

(* mco_result_description *)
Definition describe (r : mres) : string :=
  match assoc_s (mres_name r) MCO_RESULT_DESCRIPTION with
  | Some d => d
  | None => MCO_RESULT_DESCRIPTION_DEFAULT
  end.

(* the if/elseif chain of coroutine.status on the result of mco_status *)
Definition status_of_state (x : cstate) : string :=
  match assoc_s (cstate_name x) STATUS_OF_STATE with
  | Some d => d
  | None => STATUS_ELSE
  end.

Definition STORAGE_SIZE : nat := Z.to_nat MCO_DEFAULT_STORAGE_SIZE.

(* ------------------------------------------------------------------ coroutines *)
Record co := mkCo {
  co_st : cstate;            (* co->state *)
  co_prev : option nat;      (* co->prev_co *)
  co_buf : list Z;           (* co->storage[0 .. storage_size) *)
  co_stored : nat;           (* co->bytes_stored *)
  co_cap : nat;              (* co->storage_size *)
  co_depth : nat;            (* frames of the harness interpreter on this coroutine's stack *)
  co_started : bool;         (* the body function has been entered *)
  co_reg : bool;             (* present in gc.items (GC builds only) *)
  co_argsz : list nat;       (* sizes of the body function's argument types *)
  co_hasret : bool           (* the body function returns values (sizes come with the return op) *)
}.

Definition set_st (c : co) (x : cstate) : co :=
  mkCo x (co_prev c) (co_buf c) (co_stored c) (co_cap c) (co_depth c) (co_started c) (co_reg c) (co_argsz c) (co_hasret c).
Definition set_prev (c : co) (p : option nat) : co :=
  mkCo (co_st c) p (co_buf c) (co_stored c) (co_cap c) (co_depth c) (co_started c) (co_reg c) (co_argsz c) (co_hasret c).
Definition set_storage (c : co) (b : list Z) (n : nat) : co :=
  mkCo (co_st c) (co_prev c) b n (co_cap c) (co_depth c) (co_started c) (co_reg c) (co_argsz c) (co_hasret c).
Definition set_depth (c : co) (d : nat) : co :=
  mkCo (co_st c) (co_prev c) (co_buf c) (co_stored c) (co_cap c) d (co_started c) (co_reg c) (co_argsz c) (co_hasret c).
Definition set_started (c : co) (b : bool) : co :=
  mkCo (co_st c) (co_prev c) (co_buf c) (co_stored c) (co_cap c) (co_depth c) b (co_reg c) (co_argsz c) (co_hasret c).
Definition set_reg (c : co) (b : bool) : co :=
  mkCo (co_st c) (co_prev c) (co_buf c) (co_stored c) (co_cap c) (co_depth c) (co_started c) b (co_argsz c) (co_hasret c).

(* the bytes currently stored, bottom first *)
Definition storage (c : co) : list Z := firstn (co_stored c) (co_buf c).

Record state := mkState {
  cos : list (nat * co);     (* live coroutine objects by slot *)
  current : option nat;      (* mco_current_co *)
  mdepth : nat;              (* frames of the harness interpreter on the main stack *)
  gcon : bool;               (* built with the GC (not pragmas.nogc) *)
  halted : bool              (* the program ended or panicked *)
}.

Definition set_cos (s : state) (l : list (nat * co)) : state := mkState l (current s) (mdepth s) (gcon s) (halted s).
Definition set_current (s : state) (p : option nat) : state := mkState (cos s) p (mdepth s) (gcon s) (halted s).
Definition set_mdepth (s : state) (d : nat) : state := mkState (cos s) (current s) d (gcon s) (halted s).
Definition set_halted (s : state) (b : bool) : state := mkState (cos s) (current s) (mdepth s) (gcon s) b.

Fixpoint get (k : nat) (l : list (nat * co)) : option co :=
  match l with
  | [] => None
  | (j, c) :: r => if Nat.eqb j k then Some c else get k r
  end.

Fixpoint put (k : nat) (c : co) (l : list (nat * co)) : list (nat * co) :=
  match l with
  | [] => [(k, c)]
  | (j, d) :: r => if Nat.eqb j k then (k, c) :: r else (j, d) :: put k c r
  end.

Fixpoint del (k : nat) (l : list (nat * co)) : list (nat * co) :=
  match l with
  | [] => []
  | (j, d) :: r => if Nat.eqb j k then r else (j, d) :: del k r
  end.

Definition init (gc : bool) : state := mkState [] None 0 gc false.

(* ------------------------------------------------------------------ minicoro: storage *)
(* mco_push on a non-NULL coroutine; [src = None] is a NULL source pointer; for [Some b] the C
   code reads [len] bytes from it (callers pass [len = length b]) *)
Definition mco_push_co (c : co) (src : option (list Z)) (len : nat) : mres * co :=
  if Nat.eqb len 0 then (MCO_SUCCESS, c)
  else if Nat.ltb (co_cap c) (co_stored c + len) then (MCO_NOT_ENOUGH_SPACE, c)
  else match src with
       | None => (MCO_INVALID_POINTER, c)
       | Some b =>
         (MCO_SUCCESS,
          set_storage c (firstn (co_stored c) (co_buf c) ++ firstn len b ++ skipn (co_stored c + len) (co_buf c))
                      (co_stored c + len))
       end.

(* mco_pop on a non-NULL coroutine; [dest = false] is a NULL destination; third component: the
   bytes copied to the destination *)
Definition mco_pop_co (c : co) (dest : bool) (len : nat) : mres * co * list Z :=
  if Nat.eqb len 0 then (MCO_SUCCESS, c, [])
  else if Nat.ltb (co_stored c) len then (MCO_NOT_ENOUGH_SPACE, c, [])
  else
    let n := co_stored c - len in
    let data := firstn len (skipn n (co_buf c)) in
    let buf' := if MCO_ZERO_MEMORY
                then firstn n (co_buf c) ++ repeat 0%Z len ++ skipn (co_stored c) (co_buf c)
                else co_buf c in
    (MCO_SUCCESS, set_storage c buf' n, if dest then data else []).

Definition mco_peek_co (c : co) (dest : bool) (len : nat) : mres * list Z :=
  if Nat.eqb len 0 then (MCO_SUCCESS, [])
  else if Nat.ltb (co_stored c) len then (MCO_NOT_ENOUGH_SPACE, [])
  else if negb dest then (MCO_INVALID_POINTER, [])
  else (MCO_SUCCESS, firstn len (skipn (co_stored c - len) (co_buf c))).

Definition is_success (r : mres) : bool := match r with MCO_SUCCESS => true | _ => false end.

Definition mco_push (k : nat) (src : option (list Z)) (len : nat) (s : state) : mres * state :=
  match get k (cos s) with
  | None => (MCO_INVALID_COROUTINE, s)
  | Some c =>
    let '(r, c') := mco_push_co c src len in
    if is_success r then (r, set_cos s (put k c' (cos s))) else (r, s)
  end.

Definition mco_pop (k : nat) (dest : bool) (len : nat) (s : state) : mres * state * list Z :=
  match get k (cos s) with
  | None => (MCO_INVALID_COROUTINE, s, [])
  | Some c =>
    let '(r, c', d) := mco_pop_co c dest len in
    if is_success r then (r, set_cos s (put k c' (cos s)), d) else (r, s, [])
  end.

Definition mco_peek (k : nat) (dest : bool) (len : nat) (s : state) : mres * list Z :=
  match get k (cos s) with
  | None => (MCO_INVALID_COROUTINE, [])
  | Some c => mco_peek_co c dest len
  end.

(* ------------------------------------------------------------------ minicoro: switching *)
Definition set_state_of (k : nat) (x : cstate) (l : list (nat * co)) : list (nat * co) :=
  match get k l with
  | Some c => put k (set_st c x) l
  | None => l
  end.

(* mco_resume = state check, co->state = RUNNING, _mco_prepare_jumpin *)
Definition mco_resume (k : nat) (s : state) : mres * state :=
  match get k (cos s) with
  | None => (MCO_INVALID_COROUTINE, s)
  | Some c =>
    if negb (cstate_eqb (co_st c) Suspended) then (MCO_NOT_SUSPENDED, s)
    else
      let l1 := put k (set_prev (set_st c Running) (current s)) (cos s) in
      let l2 := match current s with
                | Some p => set_state_of p Normal l1
                | None => l1
                end in
      (MCO_SUCCESS, set_current (set_cos s l2) (Some k))
  end.

(* _mco_prepare_jumpout of coroutine k whose record (with its new state) is c *)
Definition jumpout (k : nat) (c : co) (s : state) : state :=
  let l1 := put k (set_prev c None) (cos s) in
  let l2 := match co_prev c with
            | Some p => set_state_of p Running l1
            | None => l1
            end in
  set_current (set_cos s l2) (co_prev c).

(* mco_yield(mco_running()) as called by coroutine.yield *)
Definition mco_yield_running (s : state) : mres * state :=
  match current s with
  | None => (MCO_INVALID_COROUTINE, s)
  | Some k =>
    match get k (cos s) with
    | None => (MCO_INVALID_COROUTINE, s)
    | Some c =>
      if negb (cstate_eqb (co_st c) Running) then (MCO_NOT_RUNNING, s)
      else (MCO_SUCCESS, jumpout k (set_st c Suspended) s)
    end
  end.

(* mco_destroy = mco_uninit + dealloc: on success the object is gone *)
Definition mco_destroy (k : nat) (s : state) : mres * state :=
  match get k (cos s) with
  | None => (MCO_INVALID_COROUTINE, s)
  | Some c =>
    if cstate_eqb (co_st c) Suspended || cstate_eqb (co_st c) Dead
    then (MCO_SUCCESS, set_cos s (del k (cos s)))
    else (MCO_INVALID_OPERATION, s)
  end.

(* ------------------------------------------------------------------ coroutine.nelua *)
Inductive cres := COk | CErr (r : mres) | CPanic (m : string).

Definition cres_of (r : mres) : cres := if is_success r then COk else CErr r.

(* coroutine.create on an empty slot *)
Definition co_create (k : nat) (argsz : list nat) (hasret : bool) (s : state) : state :=
  set_cos s (put k (mkCo Suspended None (repeat 0%Z STORAGE_SIZE) 0 STORAGE_SIZE 0 false (gcon s) argsz hasret) (cos s)).

Fixpoint push_loop (k : nat) (vals : list (list Z)) (pushed : nat) (s : state) : mres * nat * state :=
  match vals with
  | [] => (MCO_SUCCESS, pushed, s)
  | v :: r =>
    let '(e, s') := mco_push k (Some v) (List.length v) s in
    if is_success e then push_loop k r (pushed + List.length v) s' else (e, pushed, s')
  end.

(* coroutine.push: on a failure the bytes pushed so far are popped again *)
Definition co_push (k : nat) (vals : list (list Z)) (s : state) : cres * state :=
  let '(e, pushed, s') := push_loop k vals 0 s in
  if is_success e then (COk, s')
  else let '(_, s'', _) := mco_pop k false pushed s' in (CErr e, s'').

(* coroutine.pop: the last argument is popped first; [acc] ends in argument order *)
Fixpoint pop_loop (k : nat) (rlens : list nat) (acc : list (list Z)) (s : state) : mres * list (list Z) * state :=
  match rlens with
  | [] => (MCO_SUCCESS, acc, s)
  | n :: r =>
    let '(e, s', d) := mco_pop k true n s in
    if is_success e then pop_loop k r (d :: acc) s' else (e, acc, s')
  end.

Definition co_pop (k : nat) (lens : list nat) (s : state) : cres * list (list Z) * state :=
  let '(e, vs, s') := pop_loop k (rev lens) [] s in
  if is_success e then (COk, vs, s') else (CErr e, [], s').

(* coroutine.resume(co, ...) up to the moment control is transferred.  Repaired code (RESUME_ROLLS_BACK_ARGS =
   true, 6a782fc): when minicoro.resume refuses, the bytes of the arguments are popped again
   (minicoro.pop(co, nilptr, <sum of the argument sizes>), result ignored); the old behaviour (arguments stay
   pushed) is kept under the scraped flag so that a revert changes the model and breaks the proofs. *)
Definition co_resume_with (rolls_back : bool) (k : nat) (vals : list (list Z)) (s : state) : cres * state :=
  let '(r1, s1) := match vals with [] => (COk, s) | _ => co_push k vals s end in
  match r1 with
  | COk =>
    let '(e, s2) := mco_resume k s1 in
    if is_success e then (COk, s2)
    else if rolls_back then
      match vals with
      | [] => (CErr e, s2)
      | _ => let '(_, s3, _) := mco_pop k false (List.length (List.concat vals)) s2 in (CErr e, s3)
      end
    else (CErr e, s2)
  | _ => (r1, s1)
  end.

Definition co_resume := co_resume_with RESUME_ROLLS_BACK_ARGS.

(* coroutine.yield(...): always on mco_running(); from the main program that is nil and both
   coroutine.push(nil, ...) and minicoro.yield(nil) answer MCO_INVALID_COROUTINE *)
Definition co_yield (vals : list (list Z)) (s : state) : cres * state :=
  match current s with
  | None => (CErr MCO_INVALID_COROUTINE, s)
  | Some k =>
    let '(r1, s1) := match vals with [] => (COk, s) | _ => co_push k vals s end in
    match r1 with
    | COk => let '(e, s2) := mco_yield_running s1 in (cres_of e, s2)
    | _ => (r1, s1)
    end
  end.

(* GC:unregister(ptr): nil is ignored, an unknown pointer fails the assertion (None) *)
Definition gc_unregister (k : nat) (s : state) : option state :=
  match get k (cos s) with
  | None => Some s
  | Some c => if co_reg c then Some (set_cos s (put k (set_reg c false) (cos s))) else None
  end.

(* coroutine.destroy.  Repaired code (DESTROY_UNREGISTERS_FIRST = false): minicoro.destroy first and,
   in a GC build, gc:unregister(co) only when it succeeded (the assertion of GC:unregister then needs
   the coroutine to be registered).  The old order (unregister first) is kept under the scraped flag so
   that a revert of the repair changes the model and breaks the proofs that need the repaired order. *)
Definition co_destroy_with (unregisters_first : bool) (k : nat) (s : state) : cres * state :=
  if gcon s && unregisters_first then
    match gc_unregister k s with
    | None => (CPanic PANIC_UNREGISTER, s)
    | Some s1 => let '(e, s2) := mco_destroy k s1 in (cres_of e, s2)
    end
  else
    let '(e, s2) := mco_destroy k s in
    if is_success e && gcon s then
      match get k (cos s) with
      | Some c => if co_reg c then (COk, s2) else (CPanic PANIC_UNREGISTER, s2)
      | None => (COk, s2)
      end
    else (cres_of e, s2).

Definition co_destroy := co_destroy_with DESTROY_UNREGISTERS_FIRST.

Definition co_status (k : nat) (s : state) : string :=
  match get k (cos s) with
  | None => STATUS_NIL
  | Some c => status_of_state (co_st c)
  end.

Definition main_status (s : state) : string :=
  match current s with None => STATUS_MAIN_RUNNING | Some _ => STATUS_MAIN_NORMAL end.

(* coroutine.isyieldable(coroutine.running()) *)
Definition co_isyieldable (s : state) : bool :=
  match current s with None => false | Some _ => true end.

(* the wrapper generated by coroutine.create: arguments are popped (last first) when the body
   starts; a failure is a panic *)
Definition start_body (k : nat) (s : state) : cres * list (list Z) * state :=
  match get k (cos s) with
  | None => (CPanic "no coroutine", [], s)
  | Some c =>
    let s0 := set_cos s (put k (set_started c true) (cos s)) in
    let '(e, vs, s1) := pop_loop k (rev (co_argsz c)) [] s0 in
    if is_success e then (COk, vs, s1) else (CPanic PANIC_POP_ARG, [], s1)
  end.

(* ... and the return values are pushed when it returns; then _mco_main marks it dead and jumps out *)
Definition finish_body (k : nat) (rets : list (list Z)) (s : state) : cres * state :=
  match get k (cos s) with
  | None => (CPanic "no coroutine", s)
  | Some c =>
    let '(e, _, s1) := if co_hasret c then push_loop k rets 0 s else (MCO_SUCCESS, 0, s) in
    if is_success e then
      match get k (cos s1) with
      | Some c1 => (COk, jumpout k (set_st c1 Dead) s1)
      | None => (CPanic "no coroutine", s1)
      end
    else (CPanic PANIC_PUSH_RET, s1)
  end.

(* ------------------------------------------------------------------ the schedule interpreter *)
Inductive field := FB (b : bool) | FS (t : string) | FN (n : nat) | FV (v : list Z) | FP (p : option nat).

Record line := mkLine { l_who : option nat; l_dep : nat; l_tag : string; l_fields : list field }.

Inductive op :=
| OCreate (k : nat) (argsz : list nat) (hasret : bool)
| OResume (k : nat) (vals : list (list Z))
| OYield (vals : list (list Z))
| OPush (k : nat) (vals : list (list Z))
| OPop (k : nat) (lens : list nat)
| OPeek (k : nat) (len : nat)
| ODrop (k : nat) (len : nat)
| OStatus (k : nat)
| OStatusMain
| OIsYieldable
| ORunning
| ODeeper (d : nat)
| ORet (rets : list (list Z))
| ODestroy (k : nat)
| OClose (k : nat)    (* a <close> variable holding the handle goes out of scope: coroutine:__close() *)
| OGc
| OEnd (rets : list (list Z)) (nslots : nat)
| OSub (d n : nat)
| OForget (k : nat).   (* harness: the ONLY handle of a suspended/dead coroutine is dropped, then collections run *)   (* harness: d deeper frames, n temporary coroutines held only in locals there, collections, round robin *)

Definition depth_of (w : option nat) (s : state) : nat :=
  match w with
  | None => mdepth s
  | Some k => match get k (cos s) with Some c => co_depth c | None => 0 end
  end.

Definition cres_fields (r : cres) : list field :=
  match r with
  | COk => [FB true; FS ""]
  | CErr e => [FB false; FS (describe e)]
  | CPanic m => [FS "panic"; FS m]
  end.

Definition tail_zero (c : co) : bool := forallb (Z.eqb 0) (skipn (co_stored c) (co_buf c)).

Definition status_fields (k : nat) (s : state) : list field :=
  match get k (cos s) with
  | None => [FS (co_status k s); FN 0; FB true; FB false; FP None]
  | Some c => [FS (co_status k s); FN (co_stored c); FB (tail_zero c); FB (co_reg c); FP (co_prev c)]
  end.

Definition panic_line (w : option nat) (s : state) (m : string) : line :=
  mkLine w (depth_of w s) "panic" [FS m].

(* control arrives in coroutine k: either its body starts or its pending yield returns *)
Definition arrive (k : nat) (s : state) : state * list line :=
  match get k (cos s) with
  | None => (s, [])
  | Some c =>
    if co_started c then (s, [mkLine (Some k) (co_depth c) "yield" (cres_fields COk)])
    else
      let '(r, vs, s1) := start_body k s in
      match r with
      | COk => (s1, [mkLine (Some k) 0 "start" (map FV vs)])
      | _ => (set_halted s1 true, [panic_line (Some k) s1 PANIC_POP_ARG])
      end
  end.

(* control is back in the resumer (the new current): its pending resume returns true *)
Definition back_line (s : state) : line :=
  mkLine (current s) (depth_of (current s) s) "resume" (cres_fields COk).

(* the body function of coroutine k returns *)
Definition body_return (k : nat) (rets : list (list Z)) (s : state) : state * list line :=
  let l0 := mkLine (Some k) 0 "return" [] in
  match finish_body k rets s with
  | (COk, s1) => (s1, [l0; back_line s1])
  | (_, s1) => (set_halted s1 true, [l0; panic_line (Some k) s1 PANIC_PUSH_RET])
  end.

Fixpoint unwind (fuel : nat) (rets : list (list Z)) (s : state) : state * list line :=
  match fuel with
  | O => (set_halted s true, [mkLine (current s) 0 "out-of-fuel" []])
  | S f =>
    match current s with
    | None => (s, [])
    | Some k =>
      let s0 := match get k (cos s) with
                | Some c => set_cos s (put k (set_depth c 0) (cos s))
                | None => s
                end in
      let '(s1, l1) := body_return k rets s0 in
      if halted s1 then (s1, l1)
      else let '(s2, l2) := unwind f rets s1 in (s2, l1 ++ l2)
    end
  end.

(* [OSub d n]: whoever is current calls d further (padded) frames; the deepest one creates n coroutines
   whose handles live ONLY in a local array of that frame (bodies: even i function(), odd i
   function(int64): int64), starts each, forces a collection, checks status / bytes stored / GC
   registration, resumes them round robin to completion (collecting in between) and destroys them.
   These coroutines never touch the slots or each other and every one of them is dead and destroyed when
   the command ends: the state is unchanged and the lines are a function of (who, depth, d, n, build).
   Worker i is given x = 100 d + i and produces 10 x + 1, 10 x + 2 (yields) and 10 x + 3 (at its end). *)
Definition sub_val (d i j : nat) : nat := (100 * d + i) * 10 + j + 1.

Definition sub_lines (w : option nat) (dep : nat) (gc : bool) (d n : nat) : list line :=
  let L := fun tag fs => mkLine w dep tag fs in
  let ids := seq 0 n in
  let round := fun j st => map (fun i => L "sub.r" [FN i; FN j; FB true; FB true; FN (sub_val d i j); FS (status_of_state st)]) ids in
  [L "sub" [FN d; FN n]] ++ round 0 Suspended ++ [L "sub.gc" []] ++
  map (fun i => L "sub.st" [FN i; FS (status_of_state Suspended); FN 0; FB gc]) ids ++
  round 1 Suspended ++ [L "sub.gc" []] ++ round 2 Dead ++
  map (fun i => L "sub.end" [FN i; FB true; FS ""]) ids.

Definition step (o : op) (s : state) : state * list line :=
  if halted s then (s, []) else
  let w := current s in
  let d := depth_of w s in
  match o with
  | OCreate k a h =>
    match get k (cos s) with
    | Some _ => (s, [mkLine w d "create" [FS "busy"]])
    | None => (co_create k a h s, [mkLine w d "create" [FS "ok"]])
    end
  | OResume k vals =>
    match co_resume k vals s with
    | (COk, s1) => arrive k s1
    | (r, s1) => (s1, [mkLine w d "resume" (cres_fields r)])
    end
  | OYield vals =>
    match co_yield vals s with
    | (COk, s1) => (s1, [back_line s1])
    | (r, s1) => (s1, [mkLine w d "yield" (cres_fields r)])
    end
  | OPush k vals =>
    let '(r, s1) := co_push k vals s in (s1, [mkLine w d "push" (cres_fields r)])
  | OPop k lens =>
    let '(r, vs, s1) := co_pop k lens s in (s1, [mkLine w d "pop" (cres_fields r ++ map FV vs)])
  | OPeek k len =>
    let '(e, v) := mco_peek k true len s in
    (s, [mkLine w d "peek" (cres_fields (cres_of e) ++ (if is_success e then [FV v] else []))])
  | ODrop k len =>
    let '(e, s1, _) := mco_pop k false len s in (s1, [mkLine w d "drop" (cres_fields (cres_of e))])
  | OStatus k => (s, [mkLine w d "status" (status_fields k s)])
  | OStatusMain => (s, [mkLine w d "status" [FS (main_status s); FN 0; FB true; FB false; FP None]])
  | OIsYieldable => (s, [mkLine w d "isyieldable" [FB (co_isyieldable s)]])
  | ORunning =>
    (s, [mkLine w d "running" (match w with None => [FS "main"; FB true] | Some k => [FN k; FB false] end)])
  | ODeeper n =>
    match w with
    | None => (set_mdepth s (mdepth s + n), [mkLine w (d + n) "deeper" []])
    | Some k =>
      match get k (cos s) with
      | Some c => (set_cos s (put k (set_depth c (co_depth c + n)) (cos s)), [mkLine w (d + n) "deeper" []])
      | None => (s, [])
      end
    end
  | ORet rets =>
    match w with
    | None =>
      if Nat.eqb (mdepth s) 0 then (s, [mkLine w 0 "ret-ignored" []])
      else (set_mdepth s (mdepth s - 1), [mkLine w (mdepth s - 1) "ret" []])
    | Some k =>
      match get k (cos s) with
      | Some c =>
        if Nat.eqb (co_depth c) 0 then body_return k rets s
        else (set_cos s (put k (set_depth c (co_depth c - 1)) (cos s)), [mkLine w (co_depth c - 1) "ret" []])
      | None => (s, [])
      end
    end
  | ODestroy k =>
    match co_destroy k s with
    | (CPanic m, s1) => (set_halted s1 true, [panic_line w s1 m])
    | (r, s1) => (s1, [mkLine w d "destroy" (cres_fields r)])
    end
  | OClose k =>
    (* coroutine:__close() calls self:destroy() and drops the result *)
    match co_destroy k s with
    | (CPanic m, s1) => (set_halted s1 true, [panic_line w s1 m])
    | (_, s1) => (s1, [mkLine w d "close" []])
    end
  | OGc => (s, [mkLine w d "gc" []])
  | OEnd rets n =>
    let '(s1, l1) := unwind (S (List.length (cos s))) rets s in
    if halted s1 then (s1, l1)
    else
      let s2 := set_mdepth s1 0 in
      (set_halted s2 true,
       l1 ++ [mkLine None 0 "end" []] ++ map (fun k => mkLine None 0 "status" (status_fields k s2)) (seq 0 n))
  | OSub dd n => (s, sub_lines w d (gcon s) dd n)
  | OForget k =>
    (* the object becomes unreachable: whether the collector finalizes it now (coroutine_gc -> destroy ->
       unregister inside the finalizer), later, or never (nogc: it leaks), no handle to it exists any more *)
    match get k (cos s) with
    | None => (s, [mkLine w d "forget" [FS "nil"]])
    | Some c =>
      if cstate_eqb (co_st c) Suspended || cstate_eqb (co_st c) Dead
      then (set_cos s (del k (cos s)), [mkLine w d "forget" [FS "ok"]])
      else (s, [mkLine w d "forget" [FS "active"]])
    end
  end.

Fixpoint run (ops : list op) (s : state) : state * list line :=
  match ops with
  | [] => (s, [])
  | o :: r =>
    let '(s1, l1) := step o s in
    let '(s2, l2) := run r s1 in
    (s2, l1 ++ l2)
  end.

(* the calls of the library an op makes, for the statements about errors *)
Definition api (o : op) (s : state) : option (cres * state) :=
  match o with
  | OResume k vals => Some (co_resume k vals s)
  | OYield vals => Some (co_yield vals s)
  | OPush k vals => Some (co_push k vals s)
  | OPop k lens => let '(r, _, s1) := co_pop k lens s in Some (r, s1)
  | OPeek k len => let '(e, _) := mco_peek k true len s in Some (cres_of e, s)
  | ODrop k len => let '(e, s1, _) := mco_pop k false len s in Some (cres_of e, s1)
  | ODestroy k => Some (co_destroy k s)
  | _ => None
  end.
