(* C18 - GC registration: in a GC build every live coroutine object is registered in the collector
   (so its stack is scanned and it will be finalized), over all histories; coroutine.destroy never
   fails the assertion of GC:unregister.  Needs the repaired order of coroutine.destroy. *)
From Coq Require Import List Arith ZArith Bool String Lia.
From C18 Require Import Gen Model ProofsBase ProofsStorage ProofsInv ProofsErr.
Import ListNotations.
Local Open Scope list_scope.

Definition regok (s : state) : Prop := forall k c, get k (cos s) = Some c -> co_reg c = gcon s.

(* every object of s' is an object of s with the same registration *)
Definition reg_from (s s' : state) : Prop :=
  gcon s' = gcon s /\
  forall j c', get j (cos s') = Some c' -> exists c, get j (cos s) = Some c /\ co_reg c' = co_reg c.

Lemma reg_from_refl : forall s, reg_from s s.
Proof. intro s. split; [reflexivity|]. eauto. Qed.

Lemma reg_from_trans : forall a b c, reg_from a b -> reg_from b c -> reg_from a c.
Proof.
  intros a b c (A1 & A2) (B1 & B2). split; [congruence|].
  intros j c' G. destruct (B2 j c' G) as (cb & Gb & Rb). destruct (A2 j cb Gb) as (ca & Ga & Ra).
  exists ca. split; [assumption|congruence].
Qed.

Lemma reg_from_ok : forall s s', reg_from s s' -> regok s -> regok s'.
Proof.
  intros s s' (A1 & A2) R k c' G. destruct (A2 k c' G) as (c & Gc & Rc). rewrite Rc, A1. apply R with k. assumption.
Qed.

Lemma same_ctl_reg_from : forall s s', same_ctl s s' -> reg_from s s'.
Proof.
  intros s s' (_ & _ & _ & _ & A5 & A6). split; [assumption|].
  intros j c' G. specialize (A6 j). rewrite G in A6.
  destruct (get j (cos s)) as [c|]; [|discriminate]. simpl in A6. inversion A6. eauto.
Qed.

Lemma mco_resume_reg_from : forall k s e s', mco_resume k s = (e, s') -> reg_from s s'.
Proof.
  intros k s e s' H. unfold mco_resume in H.
  destruct (get k (cos s)) as [c|] eqn:G; [|inversion H; subst; apply reg_from_refl].
  destruct (negb (cstate_eqb (co_st c) Suspended)); inversion H; subst; [apply reg_from_refl|].
  split; [reflexivity|]. simpl. intros j c'.
  assert (X : forall d, get j (put k (set_prev (set_st c Running) (current s)) (cos s)) = Some d ->
              exists c0, get j (cos s) = Some c0 /\ co_reg d = co_reg c0).
  { intro d. rewrite get_put. destruct (Nat.eqb k j) eqn:E; [|eauto].
    apply Nat.eqb_eq in E. subst j. intro Y. inversion Y; subst. eauto. }
  destruct (current s) as [p|]; [|apply X].
  rewrite get_set_state_of. destruct (Nat.eqb p j) eqn:E; [|apply X].
  apply Nat.eqb_eq in E. subst j.
  destruct (get p (put k (set_prev (set_st c Running) (Some p)) (cos s))) as [d|] eqn:Gd; [|discriminate].
  simpl. intro Y. inversion Y; subst. apply (X d eq_refl).
Qed.

Lemma jumpout_reg_from : forall k c0 x s, get k (cos s) = Some c0 -> reg_from s (jumpout k (set_st c0 x) s).
Proof.
  intros k c0 x s G. split; [reflexivity|]. unfold jumpout. simpl. intros j c'.
  assert (X : forall d, get j (put k (set_prev (set_st c0 x) None) (cos s)) = Some d ->
              exists c, get j (cos s) = Some c /\ co_reg d = co_reg c).
  { intro d. rewrite get_put. destruct (Nat.eqb k j) eqn:E; [|eauto].
    apply Nat.eqb_eq in E. subst j. intro Y. inversion Y; subst. eauto. }
  destruct (co_prev c0) as [p|]; [|apply X].
  rewrite get_set_state_of. destruct (Nat.eqb p j) eqn:E; [|apply X].
  apply Nat.eqb_eq in E. subst j.
  destruct (get p (put k (set_prev (set_st c0 x) None) (cos s))) as [d|] eqn:Gd; [|discriminate].
  simpl. intro Y. inversion Y; subst. apply (X d eq_refl).
Qed.

Lemma mco_destroy_reg_from : forall k s e s', Inv s -> mco_destroy k s = (e, s') -> reg_from s s'.
Proof.
  intros k s e s' (I1 & _) H. unfold mco_destroy in H.
  destruct (get k (cos s)) as [c|]; [|inversion H; subst; apply reg_from_refl].
  destruct (cstate_eqb (co_st c) Suspended || cstate_eqb (co_st c) Dead); inversion H; subst; [|apply reg_from_refl].
  split; [reflexivity|]. simpl. intros j c'. rewrite get_del by assumption.
  destruct (Nat.eqb k j); [discriminate|eauto].
Qed.

Lemma co_resume_reg_from : forall k vals s r s', Inv s -> co_resume k vals s = (r, s') -> reg_from s s'.
Proof.
  intros k vals s r s' I H.
  destruct (co_resume_cases _ _ _ _ _ I H) as [(-> & s1 & P & R)|(_ & ->)]; [|apply reg_from_refl].
  assert (R1 : reg_from s s1).
  { destruct vals; [inversion P; subst; apply reg_from_refl|].
    apply same_ctl_reg_from. eapply co_push_same; eauto. }
  eapply reg_from_trans; [exact R1|]. eapply mco_resume_reg_from; eauto.
Qed.

Lemma co_yield_reg_from : forall vals s r s', Inv s -> co_yield vals s = (r, s') -> reg_from s s'.
Proof.
  intros vals s r s' I H. unfold co_yield in H.
  destruct (current s) as [k|]; [|inversion H; subst; apply reg_from_refl].
  destruct (match vals with [] => (COk, s) | _ :: _ => co_push k vals s end) as [r1 s1] eqn:P.
  assert (R1 : reg_from s s1).
  { destruct vals; [inversion P; subst; apply reg_from_refl|].
    apply same_ctl_reg_from. eapply co_push_same; eauto. }
  destruct r1; try (inversion H; subst; assumption).
  destruct (mco_yield_running s1) as [e s2] eqn:R. inversion H; subst.
  eapply reg_from_trans; [exact R1|]. unfold mco_yield_running in R.
  destruct (current s1) as [k1|]; [|inversion R; subst; apply reg_from_refl].
  destruct (get k1 (cos s1)) as [c|] eqn:G; [|inversion R; subst; apply reg_from_refl].
  destruct (negb (cstate_eqb (co_st c) Running)); inversion R; subst; [apply reg_from_refl|].
  apply jumpout_reg_from. assumption.
Qed.

Lemma finish_body_reg_from : forall k rets s r s', Inv s -> finish_body k rets s = (r, s') -> reg_from s s'.
Proof.
  intros k rets s r s' I H. unfold finish_body in H.
  destruct (get k (cos s)) as [c|] eqn:G; [|inversion H; subst; apply reg_from_refl].
  destruct (if co_hasret c then push_loop k rets 0 s else (MCO_SUCCESS, 0, s)) as [[e p] s1] eqn:P.
  assert (R1 : reg_from s s1).
  { destruct (co_hasret c); [apply same_ctl_reg_from; eapply push_loop_same; eauto|inversion P; subst; apply reg_from_refl]. }
  destruct (is_success e); [|inversion H; subst; assumption].
  destruct (get k (cos s1)) as [c1|] eqn:G1; inversion H; subst; [|assumption].
  eapply reg_from_trans; [exact R1|]. apply jumpout_reg_from. assumption.
Qed.

Lemma body_return_reg_from : forall k rets s s' ls, Inv s -> body_return k rets s = (s', ls) -> reg_from s s'.
Proof.
  intros k rets s s' ls I H. unfold body_return in H.
  destruct (finish_body k rets s) as [r s1] eqn:F.
  pose proof (finish_body_reg_from _ _ _ _ _ I F) as R1.
  destruct r; inversion H; subst; exact R1.
Qed.

Lemma unwind_reg_from : forall fuel rets s s' ls, Inv s -> unwind fuel rets s = (s', ls) -> reg_from s s'.
Proof.
  induction fuel as [|f IH]; intros rets s s' ls I H; cbn [unwind] in H.
  - inversion H; subst. apply same_ctl_reg_from, same_ctl_halted.
  - destruct (current s) as [k|] eqn:Ecur; [|inversion H; subst; apply reg_from_refl].
    set (s0 := match get k (cos s) with
               | Some c => set_cos s (put k (set_depth c 0) (cos s))
               | None => s end) in *.
    assert (S0 : same_ctl s s0).
    { unfold s0. destruct (get k (cos s)) eqn:G; [apply set_depth_same; assumption|apply same_ctl_refl]. }
    pose proof (same_ctl_Inv _ _ S0 I) as I0.
    assert (E0 : current s0 = Some k) by (rewrite (same_ctl_current _ _ S0); assumption).
    destruct (body_return k rets s0) as [s1 l1] eqn:B.
    pose proof (body_return_reg_from _ _ _ _ _ I0 B) as R1.
    pose proof (body_return_Inv _ _ _ _ _ I0 E0 B) as I1.
    pose proof (reg_from_trans _ _ _ (same_ctl_reg_from _ _ S0) R1) as R01.
    destruct (halted s1); [inversion H; subst; exact R01|].
    destruct (unwind f rets s1) as [s2 l2] eqn:U. inversion H; subst.
    eapply reg_from_trans; [exact R01|]. eapply IH; eauto.
Qed.

Lemma arrive_reg_from : forall k s s' ls, Inv s -> arrive k s = (s', ls) -> reg_from s s'.
Proof.
  intros k s s' ls I H. unfold arrive in H.
  destruct (get k (cos s)) as [c|]; [|inversion H; subst; apply reg_from_refl].
  destruct (co_started c); [inversion H; subst; apply reg_from_refl|].
  destruct (start_body k s) as [[r vs] s1] eqn:B.
  pose proof (same_ctl_reg_from _ _ (start_body_same _ _ _ _ _ I B)) as R1.
  destruct r; inversion H; subst; exact R1.
Qed.

(* with the repaired order, a refused destroy changes nothing and a successful one only removes *)
Lemma co_destroy_reg_from : forall k s r s', Inv s -> co_destroy k s = (r, s') -> reg_from s s'.
Proof.
  intros k s r s' I H. unfold co_destroy, co_destroy_with in H. rewrite destroy_order_fixed, andb_false_r in H.
  destruct (mco_destroy k s) as [e s2] eqn:D.
  pose proof (mco_destroy_reg_from _ _ _ _ I D) as R1.
  destruct (is_success e && gcon s); [|inversion H; subst; exact R1].
  destruct (get k (cos s)) as [c|]; [destruct (co_reg c)|]; inversion H; subst; exact R1.
Qed.

Lemma step_regok : forall o s, Inv s -> regok s -> regok (fst (step o s)).
Proof.
  intros o s I R.
  assert (K : forall s', reg_from s s' -> regok s') by (intros; eapply reg_from_ok; eauto).
  assert (KS : forall s', same_ctl s s' -> regok s') by (intros; apply K, same_ctl_reg_from; assumption).
  unfold step. destruct (halted s); [exact R|].
  destruct o.
  - destruct (get k (cos s)) eqn:G; simpl; [exact R|].
    unfold co_create. intros j c. simpl. rewrite get_put.
    destruct (Nat.eqb k j); [intro X; inversion X; reflexivity|apply R].
  - destruct (co_resume k vals s) as [r s1] eqn:Rr.
    pose proof (co_resume_reg_from _ _ _ _ _ I Rr) as R1. pose proof (co_resume_Inv _ _ _ _ _ I Rr) as I1.
    destruct r; simpl; try (apply K; exact R1).
    destruct (arrive k s1) as [s2 ls] eqn:A. simpl. apply K.
    eapply reg_from_trans; [exact R1|]. eapply arrive_reg_from; eauto.
  - destruct (co_yield vals s) as [r s1] eqn:Rr. pose proof (co_yield_reg_from _ _ _ _ I Rr) as R1.
    destruct r; simpl; apply K; exact R1.
  - destruct (co_push k vals s) as [r s1] eqn:Rr. simpl. apply KS. eapply co_push_same; eauto.
  - destruct (co_pop k lens s) as [[r vs] s1] eqn:Rr. simpl. apply KS. eapply co_pop_same; eauto.
  - destruct (mco_peek k true len s). simpl. exact R.
  - destruct (mco_pop k false len s) as [[e s1] d] eqn:Rr. simpl. apply KS. eapply mco_pop_same; eauto.
  - simpl. exact R.
  - simpl. exact R.
  - simpl. exact R.
  - simpl. exact R.
  - destruct (current s) as [k|] eqn:Ecur.
    + destruct (get k (cos s)) eqn:G; simpl; [|exact R]. apply KS. apply set_depth_same. assumption.
    + simpl. apply KS. apply same_ctl_mdepth.
  - destruct (current s) as [k|] eqn:Ecur.
    + destruct (get k (cos s)) eqn:G; simpl; [|exact R].
      destruct (Nat.eqb (co_depth c) 0).
      * destruct (body_return k rets s) as [s1 ls] eqn:B. simpl. apply K. eapply body_return_reg_from; eauto.
      * simpl. apply KS. apply set_depth_same. assumption.
    + destruct (Nat.eqb (mdepth s) 0); simpl; [exact R|]. apply KS. apply same_ctl_mdepth.
  - destruct (co_destroy k s) as [r s1] eqn:Rr. pose proof (co_destroy_reg_from _ _ _ _ I Rr) as R1.
    destruct r; simpl; apply K; exact R1.
  - destruct (co_destroy k s) as [r s1] eqn:Rr. pose proof (co_destroy_reg_from _ _ _ _ I Rr) as R1.
    destruct r; simpl; apply K; exact R1.
  - simpl. exact R.
  - destruct (unwind (S (List.length (cos s))) rets s) as [s1 l1] eqn:U.
    pose proof (unwind_reg_from _ _ _ _ _ I U) as R1.
    destruct (halted s1); simpl; apply K; [exact R1|].
    eapply reg_from_trans; [exact R1|].
    eapply reg_from_trans; [apply same_ctl_reg_from, same_ctl_mdepth|apply same_ctl_reg_from, same_ctl_halted].
  - simpl. exact R.
  - destruct (get k (cos s)) as [c|] eqn:G; simpl; [|exact R].
    destruct (cstate_eqb (co_st c) Suspended || cstate_eqb (co_st c) Dead) eqn:E; simpl; [|exact R].
    assert (Dd : mco_destroy k s = (MCO_SUCCESS, set_cos s (del k (cos s)))) by (unfold mco_destroy; rewrite G, E; reflexivity).
    apply K. eapply mco_destroy_reg_from; eauto.
Qed.

Lemma run_regok : forall ops s, Inv s -> regok s -> regok (fst (run ops s)).
Proof.
  induction ops as [|o r IH]; intros s I R; cbn [run].
  - exact R.
  - pose proof (step_Inv o s I) as I1. pose proof (step_regok o s I R) as R1.
    destruct (step o s) as [s1 l1]. simpl in I1, R1.
    pose proof (IH s1 I1 R1) as R2. destruct (run r s1) as [s2 l2]. exact R2.
Qed.

Lemma init_regok : forall gc, regok (init gc).
Proof. intros gc k c G. discriminate. Qed.

(* coroutine.destroy never fails the assertion of GC:unregister on a reachable state *)
Lemma destroy_no_panic : forall s k m s', Inv s -> regok s -> co_destroy k s <> (CPanic m, s').
Proof.
  intros s k m s' I R H. unfold co_destroy, co_destroy_with in H. rewrite destroy_order_fixed, andb_false_r in H.
  destruct (mco_destroy k s) as [e s2].
  destruct (is_success e && gcon s) eqn:E.
  - apply andb_true_iff in E. destruct E as (_ & E).
    destruct (get k (cos s)) as [c|] eqn:G; [|discriminate].
    rewrite (R k c G), E in H. discriminate.
  - unfold cres_of in H. destruct (is_success e); discriminate.
Qed.
