(* C18 - errors: documented results and "state unchanged"; typed round trip; rollback. *)
From Coq Require Import List Arith ZArith Bool String Lia.
From C18 Require Import Gen Model ProofsBase ProofsStorage ProofsInv.
Import ListNotations.
Local Open Scope list_scope.

Lemma Inv_wf : forall s k c, Inv s -> get k (cos s) = Some c -> co_wf c.
Proof. intros s k c (_ & W & _) G. eauto. Qed.

Lemma wf_cap : forall c, co_wf c -> List.length (storage c) <= co_cap c.
Proof. intros c W. rewrite (storage_length c W). destruct W as (_ & H & _). exact H. Qed.

(* ---- storage theorems on reachable states *)
Lemma typed_roundtrip : forall s k c vs s1,
  Inv s -> get k (cos s) = Some c -> co_push k vs s = (COk, s1) ->
  co_pop k (map (@List.length Z) vs) s1 = (COk, vs, s).
Proof.
  intros s k c vs s1 I G P. pose proof (Inv_wf _ _ _ I G) as W.
  pose proof (co_push_pop_ws s k c vs (storage c) s1 (wf_cap _ W)) as X.
  rewrite (ws_id s k c G W) in X. exact (X P).
Qed.

Lemma co_push_nil : forall s k vals, get k (cos s) = None ->
  co_push k vals s = (match vals with [] => COk | _ => CErr MCO_INVALID_COROUTINE end, s).
Proof.
  intros s k vals G. unfold co_push. destruct vals as [|v r]; [reflexivity|].
  cbn [push_loop]. unfold mco_push at 1. rewrite G. cbn [is_success].
  unfold mco_pop. rewrite G. reflexivity.
Qed.

Lemma push_rollback : forall s k vs e s', Inv s -> co_push k vs s = (CErr e, s') -> s' = s.
Proof.
  intros s k vs e s' I P. destruct (get k (cos s)) as [c|] eqn:G.
  - pose proof (Inv_wf _ _ _ I G) as W.
    pose proof (co_push_ws s k c vs (storage c) (wf_cap _ W)) as X.
    rewrite (ws_id s k c G W) in X. rewrite X in P.
    destruct (snd (fit (co_cap c) (storage c) vs)); inversion P; reflexivity.
  - rewrite co_push_nil in P by assumption. inversion P. reflexivity.
Qed.

Lemma push_overflow : forall s k c vs, Inv s -> get k (cos s) = Some c ->
  snd (fit (co_cap c) (storage c) vs) <> MCO_SUCCESS ->
  co_push k vs s = (CErr MCO_NOT_ENOUGH_SPACE, s).
Proof.
  intros s k c vs I G F. pose proof (Inv_wf _ _ _ I G) as W.
  pose proof (co_push_ws s k c vs (storage c) (wf_cap _ W)) as X.
  rewrite (ws_id s k c G W) in X. rewrite X.
  destruct (fit_spec (co_cap c) vs (storage c) (wf_cap _ W)) as (_ & _ & _ & _ & [D|D]); [congruence|].
  rewrite D. reflexivity.
Qed.

(* one value that does not fit *)
Lemma push_overflow_one : forall s k c v, Inv s -> get k (cos s) = Some c ->
  0 < List.length v -> co_cap c < co_stored c + List.length v ->
  co_push k [v] s = (CErr MCO_NOT_ENOUGH_SPACE, s).
Proof.
  intros s k c v I G L O. eapply push_overflow; eauto.
  pose proof (Inv_wf _ _ _ I G) as W. cbn [fit].
  replace (Nat.eqb (List.length v) 0) with false by (symmetry; apply Nat.eqb_neq; lia).
  rewrite (storage_length c W).
  replace (Nat.ltb (co_cap c) (co_stored c + List.length v)) with true by (symmetry; apply Nat.ltb_lt; lia).
  simpl. discriminate.
Qed.

Lemma pop_underflow_one : forall s k c n, get k (cos s) = Some c -> co_stored c < n ->
  co_pop k [n] s = (CErr MCO_NOT_ENOUGH_SPACE, [], s).
Proof.
  intros s k c n G U. unfold co_pop. simpl rev. cbn [pop_loop]. unfold mco_pop. rewrite G.
  unfold mco_pop_co.
  replace (Nat.eqb n 0) with false by (symmetry; apply Nat.eqb_neq; lia).
  replace (Nat.ltb (co_stored c) n) with true by (symmetry; apply Nat.ltb_lt; lia).
  reflexivity.
Qed.

Lemma peek_underflow : forall s k c n, get k (cos s) = Some c -> co_stored c < n ->
  mco_peek k true n s = (MCO_NOT_ENOUGH_SPACE, []).
Proof.
  intros s k c n G U. unfold mco_peek. rewrite G. unfold mco_peek_co.
  replace (Nat.eqb n 0) with false by (symmetry; apply Nat.eqb_neq; lia).
  replace (Nat.ltb (co_stored c) n) with true by (symmetry; apply Nat.ltb_lt; lia).
  reflexivity.
Qed.

(* ---- invalid control transitions *)
Lemma resume_not_suspended : forall s k c, get k (cos s) = Some c -> co_st c <> Suspended ->
  co_resume k [] s = (CErr MCO_NOT_SUSPENDED, s).
Proof.
  intros s k c G N. unfold co_resume, co_resume_with, mco_resume. rewrite G.
  destruct (cstate_eqb (co_st c) Suspended) eqn:E; [apply cstate_eqb_eq in E; contradiction|].
  simpl. destruct RESUME_ROLLS_BACK_ARGS; reflexivity.
Qed.

Lemma resume_nil : forall s k, get k (cos s) = None -> co_resume k [] s = (CErr MCO_INVALID_COROUTINE, s).
Proof. intros s k G. unfold co_resume, co_resume_with, mco_resume. rewrite G. simpl. destruct RESUME_ROLLS_BACK_ARGS; reflexivity. Qed.

Lemma current_running : forall s k, Inv s -> current s = Some k ->
  exists c, get k (cos s) = Some c /\ co_st c = Running.
Proof.
  intros s k (_ & _ & ch & C & _ & S) E. rewrite E in C. inversion C; subst.
  eexists. split; [eassumption|]. eapply S; eauto.
Qed.

Lemma resume_self : forall s k, Inv s -> current s = Some k -> co_resume k [] s = (CErr MCO_NOT_SUSPENDED, s).
Proof.
  intros s k I E. destruct (current_running _ _ I E) as (c & G & R).
  eapply resume_not_suspended; eauto. congruence.
Qed.

Lemma yield_from_main : forall s vals, current s = None -> co_yield vals s = (CErr MCO_INVALID_COROUTINE, s).
Proof. intros s vals E. unfold co_yield. rewrite E. reflexivity. Qed.

(* refused destroy of an active coroutine, in EVERY build (GC or not): documented error, whole
   state - including the GC registration - unchanged.  Needs the repaired order of coroutine.destroy. *)
Lemma destroy_active : forall s k c, get k (cos s) = Some c -> (co_st c = Running \/ co_st c = Normal) ->
  co_destroy k s = (CErr MCO_INVALID_OPERATION, s).
Proof.
  intros s k c G H. unfold co_destroy, co_destroy_with. rewrite destroy_order_fixed, andb_false_r.
  unfold mco_destroy. rewrite G. destruct H as [H|H]; rewrite H; reflexivity.
Qed.

Lemma destroy_nil : forall s k, get k (cos s) = None -> co_destroy k s = (CErr MCO_INVALID_COROUTINE, s).
Proof.
  intros s k G. unfold co_destroy, co_destroy_with. rewrite destroy_order_fixed, andb_false_r.
  unfold mco_destroy. rewrite G. reflexivity.
Qed.

(* a legal destroy removes the object; in a GC build it is unregistered then (it has to be registered) *)
Lemma destroy_idle : forall s k c, get k (cos s) = Some c -> (co_st c = Suspended \/ co_st c = Dead) ->
  (gcon s = true -> co_reg c = true) ->
  co_destroy k s = (COk, set_cos s (del k (cos s))).
Proof.
  intros s k c G H R. unfold co_destroy, co_destroy_with. rewrite destroy_order_fixed, andb_false_r.
  unfold mco_destroy. rewrite G.
  replace (cstate_eqb (co_st c) Suspended || cstate_eqb (co_st c) Dead) with true
    by (destruct H as [H|H]; rewrite H; reflexivity).
  destruct (gcon s); simpl; [rewrite (R eq_refl)|]; reflexivity.
Qed.

(* ---- "an error leaves the state unchanged" *)
Definition benign (o : op) (s : state) : Prop :=
  match o with
  | OPop k lens => List.length lens <= 1
  | _ => True
  end.

Lemma mco_pop_err : forall k dest len s e s' d, mco_pop k dest len s = (e, s', d) -> e <> MCO_SUCCESS -> s' = s.
Proof.
  intros k dest len s e s' d H N. unfold mco_pop in H.
  destruct (get k (cos s)); [|inversion H; reflexivity].
  destruct (mco_pop_co c dest len) as [[r c'] d0]. destruct r; simpl in H; inversion H; subst; try reflexivity; congruence.
Qed.

Lemma mco_destroy_err : forall k s e s', mco_destroy k s = (e, s') -> e <> MCO_SUCCESS -> s' = s.
Proof.
  intros k s e s' H N. unfold mco_destroy in H.
  destruct (get k (cos s)); [|inversion H; reflexivity].
  destruct (cstate_eqb (co_st c) Suspended || cstate_eqb (co_st c) Dead); inversion H; subst; [congruence|reflexivity].
Qed.

Lemma cres_of_err : forall e r, cres_of e = CErr r -> e <> MCO_SUCCESS.
Proof. intros e r H N. subst. discriminate. Qed.

Lemma error_unchanged : forall o s r s',
  Inv s -> benign o s -> api o s = Some (CErr r, s') -> s' = s.
Proof.
  intros o s r s' I B H. destruct o; simpl in H; try discriminate.
  - (* resume: a failed push is rolled back by coroutine.push, a refused resume pops its arguments again *)
    inversion H as [H1]; clear H.
    destruct (co_resume_cases _ _ _ _ _ I H1) as [(X & _)|(_ & ->)]; [discriminate|reflexivity].
  - (* yield *)
    inversion H as [H1]; clear H. unfold co_yield in H1.
    destruct (current s) as [k|] eqn:Ecur; [|inversion H1; reflexivity].
    destruct (match vals with [] => (COk, s) | _ :: _ => co_push k vals s end) as [r1 s1] eqn:P.
    destruct r1.
    + (* the running coroutine is Running: mco_yield cannot fail *)
      exfalso. destruct (mco_yield_running s1) as [e s2] eqn:R. inversion H1 as [[H2 H3]].
      assert (S1 : same_ctl s s1).
      { destruct vals; [inversion P; subst; apply same_ctl_refl|eapply co_push_same; eauto]. }
      pose proof (same_ctl_Inv _ _ S1 I) as I1.
      assert (E1 : current s1 = Some k) by (rewrite (same_ctl_current _ _ S1); assumption).
      destruct (current_running _ _ I1 E1) as (c1 & G1 & R1).
      unfold mco_yield_running in R. rewrite E1, G1, R1 in R. simpl in R. inversion R; subst. discriminate.
    + inversion H1; subst. destruct vals; [inversion P|]. eapply push_rollback; eauto.
    + inversion H1.
  - (* push *)
    inversion H; subst. eapply push_rollback; eauto.
  - (* pop *)
    destruct (co_pop k lens s) as [[r0 vs] s1] eqn:P. inversion H; subst. simpl in B.
    unfold co_pop in P. destruct lens as [|n [|m rest]]; [| |simpl in B; lia].
    + simpl in P. inversion P.
    + simpl rev in P. cbn [pop_loop] in P.
      destruct (mco_pop k true n s) as [[e s2] d] eqn:Q.
      destruct (is_success e) eqn:Es.
      * simpl in P. inversion P.
      * simpl in P. rewrite Es in P. inversion P; subst. eapply mco_pop_err; eauto. intro; subst; discriminate.
  - (* peek *)
    destruct (mco_peek k true len s). inversion H; reflexivity.
  - (* drop *)
    destruct (mco_pop k false len s) as [[e s1] d] eqn:Q. inversion H; subst.
    eapply mco_pop_err; eauto. eapply cres_of_err; eauto.
  - (* destroy *)
    inversion H as [H1]; clear H. unfold co_destroy, co_destroy_with in H1.
    rewrite destroy_order_fixed, andb_false_r in H1.
    destruct (mco_destroy k s) as [e s2] eqn:D.
    destruct (is_success e) eqn:Es.
    + destruct (gcon s); cbn [andb] in H1.
      * destruct (get k (cos s)) as [c|]; [destruct (co_reg c)|]; inversion H1.
      * destruct e; simpl in Es; discriminate.
    + cbn [andb] in H1. inversion H1; subst. eapply mco_destroy_err; eauto. intro; subst; discriminate.
Qed.

(* why the one exclusion of [benign] is needed: a coroutine.pop of several values that fails midway keeps what it
   popped (documented: "the values may not be set"; its exact effect is co_pop_effect in ProofsOps.v) *)
Lemma multi_pop_changes_state_on_error :
  exists ops o r s', let s := fst (run ops (init false)) in api o s = Some (CErr r, s') /\ s' <> s.
Proof.
  exists [OCreate 0 [] false; OPush 0 [[7%Z]]], (OPop 0 [1; 1]), MCO_NOT_ENOUGH_SPACE.
  eexists. split; [vm_compute; reflexivity|].
  intro H. apply (f_equal (fun s => option_map co_stored (get 0 (cos s)))) in H. vm_compute in H. discriminate.
Qed.

(* every error of every call of the library, after any history, leaves the whole state unchanged - except a
   coroutine.pop of two or more values ([benign]) *)
Lemma error_unchanged_all : forall gc ops o r s', let s := fst (run ops (init gc)) in
  benign o s -> api o s = Some (CErr r, s') -> s' = s.
Proof.
  intros gc ops o r s' s B H. eapply error_unchanged; eauto. apply run_Inv, init_Inv.
Qed.

(* a refused resume WITH arguments: the documented error and the whole state unchanged *)
Lemma refused_resume_unchanged : forall s k c vals, Inv s -> get k (cos s) = Some c -> co_st c <> Suspended ->
  (forall e, fst (co_push k vals s) <> CErr e) -> co_resume k vals s = (CErr MCO_NOT_SUSPENDED, s).
Proof.
  intros s k c vals I G N P. destruct (co_resume k vals s) as [r s'] eqn:H.
  destruct (co_resume_cases _ _ _ _ _ I H) as [(-> & s1 & Pp & R)|((e & ->) & ->)].
  - (* success is impossible: the target is not suspended *)
    exfalso. assert (S1 : same_ctl s s1) by (destruct vals; [inversion Pp; subst; apply same_ctl_refl|eapply co_push_same; eauto]).
    destruct S1 as (_ & A & _). specialize (A k). rewrite G in A. unfold mco_resume in R.
    destruct (get k (cos s1)) as [c1|]; [|discriminate]. simpl in A. inversion A as [[A1 A2]].
    rewrite A1 in R. destruct (cstate_eqb (co_st c) Suspended) eqn:E; [apply cstate_eqb_eq in E; contradiction|].
    simpl in R. discriminate.
  - f_equal. f_equal.
    (* which error: the push did not fail, so it is the state check of minicoro.resume *)
    unfold co_resume, co_resume_with in H. rewrite resume_rolls_back in H.
    destruct (match vals with [] => (COk, s) | _ :: _ => co_push k vals s end) as [r1 s1] eqn:Pp.
    assert (R1 : r1 = COk).
    { destruct vals; [inversion Pp; reflexivity|]. specialize (P (match r1 with CErr x => x | _ => MCO_SUCCESS end)).
      rewrite Pp in P. simpl in P. destruct r1; [reflexivity|contradiction|].
      exfalso. unfold co_push in Pp. destruct (push_loop k (l :: vals) 0 s) as [[e0 p0] s0].
      destruct (is_success e0); [inversion Pp|]. destruct (mco_pop k false p0 s0) as [[? ?] ?]. inversion Pp. }
    subst r1.
    assert (S1 : same_ctl s s1) by (destruct vals; [inversion Pp; subst; apply same_ctl_refl|eapply co_push_same; eauto]).
    destruct S1 as (_ & A & _). specialize (A k). rewrite G in A.
    destruct (mco_resume k s1) as [e1 s2] eqn:R. unfold mco_resume in R.
    destruct (get k (cos s1)) as [c1|]; [|discriminate]. simpl in A. inversion A as [[A1 A2]].
    rewrite A1 in R. destruct (cstate_eqb (co_st c) Suspended) eqn:E; [apply cstate_eqb_eq in E; contradiction|].
    simpl in R. inversion R; subst e1 s2. simpl in H.
    destruct vals; [inversion H; reflexivity|].
    destruct (mco_pop k false (List.length (List.concat (l :: vals))) s1) as [[? ?] ?]. inversion H. reflexivity.
Qed.

(* ---- the two repairs are NEEDED: under the other policy of each scraped flag the statement is false *)
(* old order of coroutine.destroy (unregister first), GC build: the refused destroy of the running coroutine changes the state *)
Lemma destroy_order_needed :
  exists s k e s', co_destroy_with true k s = (CErr e, s') /\ s' <> s.
Proof.
  exists (fst (run [OCreate 0 [] false; OResume 0 []] (init true))), 0, MCO_INVALID_OPERATION.
  eexists. split; [vm_compute; reflexivity|].
  intro H. apply (f_equal (fun s => option_map co_reg (get 0 (cos s)))) in H. vm_compute in H. discriminate.
Qed.

(* coroutine.resume without the rollback: a refused resume WITH an argument changes the state *)
Lemma resume_rollback_needed :
  exists s k vals e s', co_resume_with false k vals s = (CErr e, s') /\ s' <> s.
Proof.
  exists (fst (run [OCreate 0 [] false; OResume 0 []] (init false))), 0, [[7%Z]], MCO_NOT_SUSPENDED.
  eexists. split; [vm_compute; reflexivity|].
  intro H. apply (f_equal (fun s => option_map co_stored (get 0 (cos s)))) in H. vm_compute in H. discriminate.
Qed.
