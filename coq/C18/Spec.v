(* C18 - the DOCUMENTED coroutine semantics as an abstract machine (reference semantics), written from the
   documentation comments of lib/coroutine.nelua, the API comments of minicoro and Lua's coroutine semantics -
   not from Model.v: the active resumes are a STACK of coroutine ids (top = the running coroutine, empty = the
   main program runs; "normal" = in the stack but not on top), a coroutine that is not in the stack is
   "suspended" or "dead" (a flag), its storage is a LIFO list of bytes with a capacity.  No prev pointers, no
   state field per coroutine, no byte buffer.  Only the TYPES of commands and of printed lines (op, line,
   field) and the harness transcript of `sub` are shared with Model.v.  ProofsSpec.v proves that Model.v
   refines this machine. *)
From Coq Require Import List Arith ZArith Bool String.
From C18 Require Import Model.
Import ListNotations.
Local Open Scope string_scope.
Local Open Scope list_scope.

Inductive sidle := SSusp | SDeadF.     (* what a coroutine that is not active is *)

Record sco := mkS {
  sc_idle : sidle;
  sc_store : list Z;       (* the stored bytes, bottom first *)
  sc_cap : nat;
  sc_depth : nat;          (* frames of the schedule interpreter on its stack *)
  sc_started : bool;
  sc_argsz : list nat;     (* sizes of the body's typed arguments *)
  sc_hasret : bool
}.

Definition sc_with_store (c : sco) (S : list Z) : sco :=
  mkS (sc_idle c) S (sc_cap c) (sc_depth c) (sc_started c) (sc_argsz c) (sc_hasret c).
Definition sc_with_idle (c : sco) (i : sidle) : sco :=
  mkS i (sc_store c) (sc_cap c) (sc_depth c) (sc_started c) (sc_argsz c) (sc_hasret c).
Definition sc_with_depth (c : sco) (d : nat) : sco :=
  mkS (sc_idle c) (sc_store c) (sc_cap c) d (sc_started c) (sc_argsz c) (sc_hasret c).
Definition sc_with_started (c : sco) (b : bool) : sco :=
  mkS (sc_idle c) (sc_store c) (sc_cap c) (sc_depth c) b (sc_argsz c) (sc_hasret c).

Record sstate := mkSS {
  ss_cos : list (nat * sco);
  ss_stack : list nat;       (* active resumes, innermost (running) first *)
  ss_mdepth : nat;
  ss_gc : bool;
  ss_halted : bool
}.

Definition ss_set_cos (t : sstate) (l : list (nat * sco)) := mkSS l (ss_stack t) (ss_mdepth t) (ss_gc t) (ss_halted t).
Definition ss_set_stack (t : sstate) (st : list nat) := mkSS (ss_cos t) st (ss_mdepth t) (ss_gc t) (ss_halted t).
Definition ss_set_mdepth (t : sstate) (d : nat) := mkSS (ss_cos t) (ss_stack t) d (ss_gc t) (ss_halted t).
Definition ss_set_halted (t : sstate) (b : bool) := mkSS (ss_cos t) (ss_stack t) (ss_mdepth t) (ss_gc t) b.

Fixpoint sget (k : nat) (l : list (nat * sco)) : option sco :=
  match l with [] => None | (j, c) :: r => if Nat.eqb j k then Some c else sget k r end.
Fixpoint sput (k : nat) (c : sco) (l : list (nat * sco)) : list (nat * sco) :=
  match l with [] => [(k, c)] | (j, d) :: r => if Nat.eqb j k then (k, c) :: r else (j, d) :: sput k c r end.
Fixpoint sdel (k : nat) (l : list (nat * sco)) : list (nat * sco) :=
  match l with [] => [] | (j, d) :: r => if Nat.eqb j k then r else (j, d) :: sdel k r end.

Definition spec_init (gc : bool) : sstate := mkSS [] [] 0 gc false.

(* ---- documented strings *)
Definition E_INVALID_CO := "Invalid coroutine".
Definition E_NOT_SUSPENDED := "Coroutine not suspended".
Definition E_NO_SPACE := "Not enough space".
Definition E_INVALID_OP := "Invalid operation".
Definition P_POP_ARG := "failed to pop a coroutine body argument".
Definition P_PUSH_RET := "failed to push a coroutine body return".
Definition SPEC_CAP : nat := STORAGE_SIZE.   (* the storage size of the build (documented default: 1024), a policy constant *)

Inductive sres := SOk | SErr (m : string) | SPanic (m : string).

Definition sres_fields (r : sres) : list field :=
  match r with SOk => [FB true; FS ""] | SErr m => [FB false; FS m] | SPanic m => [FS "panic"; FS m] end.

(* ---- who is what *)
Definition s_running (t : sstate) : option nat := hd_error (ss_stack t).
Definition s_active (k : nat) (t : sstate) : bool := existsb (Nat.eqb k) (ss_stack t).

Definition spec_status (k : nat) (t : sstate) : string :=
  match sget k (ss_cos t) with
  | None => "dead"                                    (* a nil handle *)
  | Some c =>
    match ss_stack t with
    | top :: rest =>
      if Nat.eqb top k then "running"
      else if existsb (Nat.eqb k) rest then "normal"
      else match sc_idle c with SSusp => "suspended" | SDeadF => "dead" end
    | [] => match sc_idle c with SSusp => "suspended" | SDeadF => "dead" end
    end
  end.

Definition spec_main_status (t : sstate) : string :=
  match ss_stack t with [] => "running" | _ => "normal" end.

(* the coroutine that resumed k: the one below it in the stack *)
Fixpoint below (k : nat) (st : list nat) : option nat :=
  match st with
  | a :: r => if Nat.eqb a k then hd_error r else below k r
  | [] => None
  end.

Definition s_depth_of (w : option nat) (t : sstate) : nat :=
  match w with
  | None => ss_mdepth t
  | Some k => match sget k (ss_cos t) with Some c => sc_depth c | None => 0 end
  end.

(* ---- storage: all-or-nothing typed push, typed pop (last value first) *)
Definition sp_push (k : nat) (vals : list (list Z)) (t : sstate) : sres * sstate :=
  match sget k (ss_cos t) with
  | None => (match vals with [] => SOk | _ => SErr E_INVALID_CO end, t)
  | Some c =>
    if Nat.ltb (sc_cap c) (List.length (sc_store c) + List.length (List.concat vals)) then (SErr E_NO_SPACE, t)
    else (SOk, ss_set_cos t (sput k (sc_with_store c (sc_store c ++ List.concat vals)) (ss_cos t)))
  end.

(* pops the sizes in [rlens] (popping order) from the top of S; the values popped so far are consed onto acc;
   stops at the first value that is not there: "the values may not be set" - what was popped stays popped *)
Fixpoint spopv (S : list Z) (rlens : list nat) (acc : list (list Z)) : list Z * bool * list (list Z) :=
  match rlens with
  | [] => (S, true, acc)
  | n :: r =>
    if Nat.eqb n 0 then spopv S r ([] :: acc)
    else if Nat.ltb (List.length S) n then (S, false, acc)
    else spopv (firstn (List.length S - n) S) r (skipn (List.length S - n) S :: acc)
  end.

Definition sp_pop (k : nat) (lens : list nat) (t : sstate) : sres * list (list Z) * sstate :=
  match sget k (ss_cos t) with
  | None => (match rev lens with [] => SOk | _ => SErr E_INVALID_CO end, [], t)
  | Some c =>
    let '(S', ok, vs) := spopv (sc_store c) (rev lens) [] in
    (if ok then SOk else SErr E_NO_SPACE, if ok then vs else [],
     ss_set_cos t (sput k (sc_with_store c S') (ss_cos t)))
  end.

(* minicoro.peek / minicoro.pop(co, nil, n) *)
Definition sp_peek (k : nat) (n : nat) (t : sstate) : sres * list Z :=
  match sget k (ss_cos t) with
  | None => (SErr E_INVALID_CO, [])
  | Some c =>
    if Nat.eqb n 0 then (SOk, [])
    else if Nat.ltb (List.length (sc_store c)) n then (SErr E_NO_SPACE, [])
    else (SOk, skipn (List.length (sc_store c) - n) (sc_store c))
  end.

Definition sp_drop (k : nat) (n : nat) (t : sstate) : sres * sstate :=
  match sget k (ss_cos t) with
  | None => (SErr E_INVALID_CO, t)
  | Some c =>
    if Nat.eqb n 0 then (SOk, t)
    else if Nat.ltb (List.length (sc_store c)) n then (SErr E_NO_SPACE, t)
    else (SOk, ss_set_cos t (sput k (sc_with_store c (firstn (List.length (sc_store c) - n) (sc_store c))) (ss_cos t)))
  end.

(* ---- resume / yield: an invalid transition reports its error and changes NOTHING *)
Definition sp_resume (k : nat) (vals : list (list Z)) (t : sstate) : sres * sstate :=
  let '(r1, t1) := match vals with [] => (SOk, t) | _ => sp_push k vals t end in
  match r1 with
  | SOk =>
    match sget k (ss_cos t1) with
    | None => (SErr E_INVALID_CO, t)
    | Some c =>
      if s_active k t then (SErr E_NOT_SUSPENDED, t)                 (* running or normal *)
      else match sc_idle c with
           | SDeadF => (SErr E_NOT_SUSPENDED, t)
           | SSusp => (SOk, ss_set_stack t1 (k :: ss_stack t1))
           end
    end
  | r => (r, t)
  end.

Definition sp_yield (vals : list (list Z)) (t : sstate) : sres * sstate :=
  match ss_stack t with
  | [] => (SErr E_INVALID_CO, t)                                    (* the main program cannot yield *)
  | k :: rest =>
    let '(r1, t1) := match vals with [] => (SOk, t) | _ => sp_push k vals t end in
    match r1 with
    | SOk => (SOk, ss_set_stack t1 rest)
    | r => (r, t)
    end
  end.

(* ---- destroy: only a suspended or dead coroutine; on success the object is gone *)
Definition sp_destroy (k : nat) (t : sstate) : sres * sstate :=
  match sget k (ss_cos t) with
  | None => (SErr E_INVALID_CO, t)
  | Some c => if s_active k t then (SErr E_INVALID_OP, t) else (SOk, ss_set_cos t (sdel k (ss_cos t)))
  end.

(* ---- the typed wrapper of coroutine.create *)
(* one by one, no rollback (used for the returns of a body: a failure there is a panic) *)
Fixpoint spush1 (cap : nat) (S : list Z) (vals : list (list Z)) : list Z * bool :=
  match vals with
  | [] => (S, true)
  | v :: r =>
    if Nat.eqb (List.length v) 0 then spush1 cap S r
    else if Nat.ltb cap (List.length S + List.length v) then (S, false)
    else spush1 cap (S ++ v) r
  end.

Definition sp_start (k : nat) (t : sstate) : sres * list (list Z) * sstate :=
  match sget k (ss_cos t) with
  | None => (SPanic "no coroutine", [], t)
  | Some c =>
    let c0 := sc_with_started c true in
    let '(S', ok, vs) := spopv (sc_store c0) (rev (sc_argsz c0)) [] in
    let t1 := ss_set_cos t (sput k (sc_with_store c0 S') (ss_cos t)) in
    if ok then (SOk, vs, t1) else (SPanic P_POP_ARG, [], t1)
  end.

Definition sp_arrive (k : nat) (t : sstate) : sstate * list line :=
  match sget k (ss_cos t) with
  | None => (t, [])
  | Some c =>
    if sc_started c then (t, [mkLine (Some k) (sc_depth c) "yield" (sres_fields SOk)])
    else
      let '(r, vs, t1) := sp_start k t in
      match r with
      | SOk => (t1, [mkLine (Some k) 0 "start" (map FV vs)])
      | _ => (ss_set_halted t1 true, [mkLine (Some k) (s_depth_of (Some k) t1) "panic" [FS P_POP_ARG]])
      end
  end.

Definition sp_back_line (t : sstate) : line :=
  mkLine (s_running t) (s_depth_of (s_running t) t) "resume" (sres_fields SOk).

(* the body of the running coroutine k returns: its results are pushed, it is dead, its resumer continues *)
Definition sp_return (k : nat) (rets : list (list Z)) (t : sstate) : sstate * list line :=
  let l0 := mkLine (Some k) 0 "return" [] in
  match sget k (ss_cos t) with
  | None => (ss_set_halted t true, [l0; mkLine (Some k) 0 "panic" [FS P_PUSH_RET]])
  | Some c =>
    let '(S', ok) := if sc_hasret c then spush1 (sc_cap c) (sc_store c) rets else (sc_store c, true) in
    if ok then
      let t1 := ss_set_stack (ss_set_cos t (sput k (sc_with_idle (sc_with_store c S') SDeadF) (ss_cos t))) (tl (ss_stack t)) in
      (t1, [l0; sp_back_line t1])
    else
      let t1 := ss_set_cos t (sput k (sc_with_store c S') (ss_cos t)) in
      (ss_set_halted t1 true, [l0; mkLine (Some k) (s_depth_of (Some k) t1) "panic" [FS P_PUSH_RET]])
  end.

(* end of the script: every active body returns, innermost first (structural on the stack) *)
Fixpoint sp_unwind (n : nat) (rets : list (list Z)) (t : sstate) : sstate * list line :=
  match n with
  | O => (t, [])
  | S m =>
    match ss_stack t with
    | [] => (t, [])
    | k :: _ =>
      let t0 := match sget k (ss_cos t) with
                | Some c => ss_set_cos t (sput k (sc_with_depth c 0) (ss_cos t))
                | None => t end in
      let '(t1, l1) := sp_return k rets t0 in
      if ss_halted t1 then (t1, l1)
      else let '(t2, l2) := sp_unwind m rets t1 in (t2, l1 ++ l2)
    end
  end.

Definition spec_status_fields (k : nat) (t : sstate) : list field :=
  match sget k (ss_cos t) with
  | None => [FS (spec_status k t); FN 0; FB true; FB false; FP None]
  | Some c => [FS (spec_status k t); FN (List.length (sc_store c)); FB true; FB (ss_gc t); FP (below k (ss_stack t))]
  end.

Definition spec_step (o : op) (t : sstate) : sstate * list line :=
  if ss_halted t then (t, []) else
  let w := s_running t in
  let d := s_depth_of w t in
  match o with
  | OCreate k a h =>
    match sget k (ss_cos t) with
    | Some _ => (t, [mkLine w d "create" [FS "busy"]])
    | None => (ss_set_cos t (sput k (mkS SSusp [] SPEC_CAP 0 false a h) (ss_cos t)), [mkLine w d "create" [FS "ok"]])
    end
  | OResume k vals =>
    match sp_resume k vals t with
    | (SOk, t1) => sp_arrive k t1
    | (r, t1) => (t1, [mkLine w d "resume" (sres_fields r)])
    end
  | OYield vals =>
    match sp_yield vals t with
    | (SOk, t1) => (t1, [sp_back_line t1])
    | (r, t1) => (t1, [mkLine w d "yield" (sres_fields r)])
    end
  | OPush k vals => let '(r, t1) := sp_push k vals t in (t1, [mkLine w d "push" (sres_fields r)])
  | OPop k lens => let '(r, vs, t1) := sp_pop k lens t in (t1, [mkLine w d "pop" (sres_fields r ++ map FV vs)])
  | OPeek k n =>
    let '(r, v) := sp_peek k n t in
    (t, [mkLine w d "peek" (sres_fields r ++ (match r with SOk => [FV v] | _ => [] end))])
  | ODrop k n => let '(r, t1) := sp_drop k n t in (t1, [mkLine w d "drop" (sres_fields r)])
  | OStatus k => (t, [mkLine w d "status" (spec_status_fields k t)])
  | OStatusMain => (t, [mkLine w d "status" [FS (spec_main_status t); FN 0; FB true; FB false; FP None]])
  | OIsYieldable => (t, [mkLine w d "isyieldable" [FB (match w with None => false | Some _ => true end)]])
  | ORunning => (t, [mkLine w d "running" (match w with None => [FS "main"; FB true] | Some k => [FN k; FB false] end)])
  | ODeeper n =>
    match w with
    | None => (ss_set_mdepth t (ss_mdepth t + n), [mkLine w (d + n) "deeper" []])
    | Some k =>
      match sget k (ss_cos t) with
      | Some c => (ss_set_cos t (sput k (sc_with_depth c (sc_depth c + n)) (ss_cos t)), [mkLine w (d + n) "deeper" []])
      | None => (t, [])
      end
    end
  | ORet rets =>
    match w with
    | None =>
      if Nat.eqb (ss_mdepth t) 0 then (t, [mkLine w 0 "ret-ignored" []])
      else (ss_set_mdepth t (ss_mdepth t - 1), [mkLine w (ss_mdepth t - 1) "ret" []])
    | Some k =>
      match sget k (ss_cos t) with
      | Some c =>
        if Nat.eqb (sc_depth c) 0 then sp_return k rets t
        else (ss_set_cos t (sput k (sc_with_depth c (sc_depth c - 1)) (ss_cos t)), [mkLine w (sc_depth c - 1) "ret" []])
      | None => (t, [])
      end
    end
  | ODestroy k => let '(r, t1) := sp_destroy k t in (t1, [mkLine w d "destroy" (sres_fields r)])
  | OClose k => let '(_, t1) := sp_destroy k t in (t1, [mkLine w d "close" []])
  | OGc => (t, [mkLine w d "gc" []])
  | OEnd rets n =>
    let '(t1, l1) := sp_unwind (List.length (ss_stack t)) rets t in
    if ss_halted t1 then (t1, l1)
    else
      let t2 := ss_set_mdepth t1 0 in
      (ss_set_halted t2 true,
       l1 ++ [mkLine None 0 "end" []] ++ map (fun k => mkLine None 0 "status" (spec_status_fields k t2)) (seq 0 n))
  | OSub dd n => (t, sub_lines w d (ss_gc t) dd n)       (* harness transcript, shared with Model.v *)
  | OForget k =>
    match sget k (ss_cos t) with
    | None => (t, [mkLine w d "forget" [FS "nil"]])
    | Some c => if s_active k t then (t, [mkLine w d "forget" [FS "active"]])
                else (ss_set_cos t (sdel k (ss_cos t)), [mkLine w d "forget" [FS "ok"]])
    end
  end.

Fixpoint spec_run (ops : list op) (t : sstate) : sstate * list line :=
  match ops with
  | [] => (t, [])
  | o :: r =>
    let '(t1, l1) := spec_step o t in
    let '(t2, l2) := spec_run r t1 in
    (t2, l1 ++ l2)
  end.

Definition spec_reach (gc : bool) (ops : list op) : sstate := fst (spec_run ops (spec_init gc)).
