From Coq Require Import NArith.
From C18 Require Import Model Spec.
Require Extraction.
Require Import ExtrOcamlBasic.
Extraction "model.ml" init step run current cos get depth_of halted co_st co_stored storage STORAGE_SIZE N.of_nat spec_init spec_step s_running s_depth_of ss_halted.
