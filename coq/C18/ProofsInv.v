(* C18 - the control invariant: one running coroutine, the normal ones are the prev chain. *)
From Coq Require Import List Arith ZArith Bool String Lia.
From C18 Require Import Gen Model ProofsBase ProofsStorage.
Import ListNotations.
Local Open Scope list_scope.

Definition ctl (c : co) : cstate * option nat := (co_st c, co_prev c).

(* the prev chain from [cur] down to the main program *)
Inductive chain (l : list (nat * co)) : option nat -> list nat -> Prop :=
| chain_nil : chain l None []
| chain_cons : forall k c rest, get k l = Some c -> chain l (co_prev c) rest -> chain l (Some k) (k :: rest).

Definition InvC (l : list (nat * co)) (cur : option nat) : Prop :=
  exists ch, chain l cur ch /\ NoDup ch /\
    forall k c, get k l = Some c ->
      (cur = Some k -> co_st c = Running) /\
      (In k (tl ch) -> co_st c = Normal) /\
      (~ In k ch -> (co_st c = Suspended \/ co_st c = Dead) /\ co_prev c = None).

Definition Inv (s : state) : Prop :=
  NoDup (map fst (cos s)) /\
  (forall k c, get k (cos s) = Some c -> co_wf c) /\
  InvC (cos s) (current s).

Lemma chain_keys : forall l cur ch, chain l cur ch -> forall j, In j ch -> exists c, get j l = Some c.
Proof.
  induction 1; intros j I; simpl in I.
  - contradiction.
  - destruct I as [<-|I]; eauto.
Qed.

Lemma chain_head : forall l cur ch, chain l cur ch -> cur = hd_error ch.
Proof. destruct 1; reflexivity. Qed.

Lemma chain_ext : forall l l' cur ch,
  (forall j c, In j ch -> get j l = Some c -> exists c', get j l' = Some c' /\ co_prev c' = co_prev c) ->
  chain l cur ch -> chain l' cur ch.
Proof.
  intros l l' cur ch H C. induction C.
  - constructor.
  - destruct (H k c (or_introl eq_refl) H0) as (c' & G & P).
    econstructor; [exact G|]. rewrite P. apply IHC.
    intros j d I. apply H. right. assumption.
Qed.

Lemma chain_functional : forall l cur ch, chain l cur ch -> forall ch', chain l cur ch' -> ch = ch'.
Proof.
  induction 1; intros ch' C'; inversion C'; subst.
  - reflexivity.
  - match goal with H1 : get ?k l = Some ?a, H2 : get ?k l = Some ?b |- _ =>
      rewrite H1 in H2; inversion H2; subst end.
    f_equal. apply IHchain. assumption.
Qed.

Lemma Inv_ext : forall s s', cos s' = cos s -> current s' = current s -> Inv s -> Inv s'.
Proof. intros s s' A B (I1 & I2 & I3). unfold Inv. rewrite A, B. auto. Qed.

(* ---- updates that do not touch state/prev fields *)
Definition same_ctl (s s' : state) : Prop :=
  current s' = current s /\
  (forall j, option_map ctl (get j (cos s')) = option_map ctl (get j (cos s))) /\
  (NoDup (map fst (cos s)) -> NoDup (map fst (cos s'))) /\
  ((forall k c, get k (cos s) = Some c -> co_wf c) -> (forall k c, get k (cos s') = Some c -> co_wf c)) /\
  gcon s' = gcon s /\
  (forall j, option_map co_reg (get j (cos s')) = option_map co_reg (get j (cos s))).

Lemma same_ctl_refl : forall s, same_ctl s s.
Proof. intros. split; [reflexivity|]. split; [reflexivity|]. split; [auto|]. split; [auto|]. split; reflexivity. Qed.

Lemma same_ctl_trans : forall a b c, same_ctl a b -> same_ctl b c -> same_ctl a c.
Proof.
  intros a b c (A1 & A2 & A3 & A4 & A5 & A6) (B1 & B2 & B3 & B4 & B5 & B6).
  split; [congruence|]. split; [intro j; rewrite B2; apply A2|]. split; [auto|].
  split; [intros H; apply B4; apply A4; exact H|].
  split; [congruence|]. intro j. rewrite B6. apply A6.
Qed.

Lemma InvC_ext : forall l l' cur,
  (forall j, option_map ctl (get j l') = option_map ctl (get j l)) -> InvC l cur -> InvC l' cur.
Proof.
  intros l l' cur H (ch & C & N & S). exists ch. split; [|split; [assumption|]].
  - eapply chain_ext; [|exact C]. intros j c _ G. specialize (H j). rewrite G in H.
    destruct (get j l') as [c'|]; [|discriminate]. simpl in H. inversion H. eauto.
  - intros k c' G. specialize (H k). rewrite G in H.
    destruct (get k l) as [c|] eqn:E; [|discriminate]. simpl in H. inversion H.
    destruct (S k c E) as (S1 & S2 & S3). unfold ctl in *. rewrite H1, H2. auto.
Qed.

Lemma same_ctl_Inv : forall s s', same_ctl s s' -> Inv s -> Inv s'.
Proof.
  intros s s' (A1 & A2 & A3 & A4 & _) (I1 & I2 & I3). unfold Inv.
  split; [exact (A3 I1)|]. split; [exact (A4 I2)|]. rewrite A1. eapply InvC_ext; eauto.
Qed.

Lemma same_ctl_put : forall s k c c',
  get k (cos s) = Some c -> ctl c' = ctl c -> co_reg c' = co_reg c -> (co_wf c -> co_wf c') ->
  same_ctl s (set_cos s (put k c' (cos s))).
Proof.
  intros s k c c' G E R W. split; [reflexivity|]. split; [|split; [|split; [|split]]]; simpl.
  - intro j. rewrite get_put. destruct (Nat.eqb k j) eqn:Ek; [|reflexivity].
    apply Nat.eqb_eq in Ek. subst j. rewrite G. simpl. f_equal. assumption.
  - apply NoDup_keys_put.
  - intros H j d. rewrite get_put. destruct (Nat.eqb k j) eqn:Ek.
    + intro X. inversion X; subst. apply W. eapply H; eauto.
    + apply H.
  - reflexivity.
  - intro j. rewrite get_put. destruct (Nat.eqb k j) eqn:Ek; [|reflexivity].
    apply Nat.eqb_eq in Ek. subst j. rewrite G. simpl. f_equal. assumption.
Qed.

Lemma same_ctl_halted : forall s b, same_ctl s (set_halted s b).
Proof. intros. split; [reflexivity|]. split; [reflexivity|]. split; [auto|]. split; [auto|]. split; reflexivity. Qed.

Lemma same_ctl_mdepth : forall s d, same_ctl s (set_mdepth s d).
Proof. intros. split; [reflexivity|]. split; [reflexivity|]. split; [auto|]. split; [auto|]. split; reflexivity. Qed.

(* ---- storage operations *)
Lemma push_co_wf : forall c b r c', co_wf c -> mco_push_co c (Some b) (List.length b) = (r, c') ->
  co_wf c' /\ ctl c' = ctl c /\ co_reg c' = co_reg c.
Proof.
  intros c b r c' W H. pose proof (storage_length c W) as L. pose proof W as (_ & Hc & _).
  rewrite <- (wf_norm c W) in H. rewrite push_co_norm in H by lia.
  destruct (Nat.eqb (List.length b) 0).
  - inversion H; subst. rewrite (wf_norm c W). auto.
  - destruct (Nat.ltb (co_cap c) (List.length (storage c) + List.length b)) eqn:E1.
    + inversion H; subst. rewrite (wf_norm c W). auto.
    + apply Nat.ltb_ge in E1. inversion H; subst. split; [|split; reflexivity].
      apply norm_wf. rewrite app_length. lia.
Qed.

Lemma pop_co_wf : forall c dest len r c' d, co_wf c -> mco_pop_co c dest len = (r, c', d) ->
  co_wf c' /\ ctl c' = ctl c /\ co_reg c' = co_reg c.
Proof.
  intros c dest len r c' d W H. pose proof (storage_length c W) as L. pose proof W as (_ & Hc & _).
  rewrite <- (wf_norm c W) in H. rewrite pop_co_norm in H by lia.
  destruct (Nat.eqb len 0).
  - inversion H; subst. rewrite (wf_norm c W). auto.
  - destruct (Nat.ltb (List.length (storage c)) len) eqn:E1.
    + inversion H; subst. rewrite (wf_norm c W). auto.
    + inversion H; subst. split; [|split; reflexivity].
      apply norm_wf. rewrite firstn_length. lia.
Qed.

Lemma mco_push_same : forall k b s r s', Inv s -> mco_push k (Some b) (List.length b) s = (r, s') -> same_ctl s s'.
Proof.
  intros k b s r s' (I1 & I2 & I3) H. unfold mco_push in H.
  destruct (get k (cos s)) as [c|] eqn:G.
  - destruct (mco_push_co c (Some b) (List.length b)) as [r0 c'] eqn:P.
    destruct (push_co_wf _ _ _ _ (I2 _ _ G) P) as (W & E & Rg).
    destruct (is_success r0); inversion H; subst.
    + eapply same_ctl_put; eauto.
    + apply same_ctl_refl.
  - inversion H; subst. apply same_ctl_refl.
Qed.

Lemma mco_pop_same : forall k dest len s r s' d, Inv s -> mco_pop k dest len s = (r, s', d) -> same_ctl s s'.
Proof.
  intros k dest len s r s' d (I1 & I2 & I3) H. unfold mco_pop in H.
  destruct (get k (cos s)) as [c|] eqn:G.
  - destruct (mco_pop_co c dest len) as [[r0 c'] d0] eqn:P.
    destruct (pop_co_wf _ _ _ _ _ _ (I2 _ _ G) P) as (W & E & Rg).
    destruct (is_success r0); inversion H; subst.
    + eapply same_ctl_put; eauto.
    + apply same_ctl_refl.
  - inversion H; subst. apply same_ctl_refl.
Qed.

Lemma push_loop_same : forall k vals pushed s r p s', Inv s -> push_loop k vals pushed s = (r, p, s') -> same_ctl s s'.
Proof.
  intros k vals. induction vals as [|v rest IH]; intros pushed s r p s' I H; cbn [push_loop] in H.
  - inversion H; subst. apply same_ctl_refl.
  - destruct (mco_push k (Some v) (List.length v) s) as [e s1] eqn:P.
    pose proof (mco_push_same _ _ _ _ _ I P) as S1.
    destruct (is_success e).
    + eapply same_ctl_trans; [exact S1|]. eapply IH; [|exact H]. eapply same_ctl_Inv; eauto.
    + inversion H; subst. assumption.
Qed.

Lemma pop_loop_same : forall k rlens acc s r vs s', Inv s -> pop_loop k rlens acc s = (r, vs, s') -> same_ctl s s'.
Proof.
  intros k rlens. induction rlens as [|n rest IH]; intros acc s r vs s' I H; cbn [pop_loop] in H.
  - inversion H; subst. apply same_ctl_refl.
  - destruct (mco_pop k true n s) as [[e s1] d] eqn:P.
    pose proof (mco_pop_same _ _ _ _ _ _ _ I P) as S1.
    destruct (is_success e).
    + eapply same_ctl_trans; [exact S1|]. eapply IH; [|exact H]. eapply same_ctl_Inv; eauto.
    + inversion H; subst. assumption.
Qed.

Lemma co_push_same : forall k vals s r s', Inv s -> co_push k vals s = (r, s') -> same_ctl s s'.
Proof.
  intros k vals s r s' I H. unfold co_push in H.
  destruct (push_loop k vals 0 s) as [[e p] s1] eqn:P.
  pose proof (push_loop_same _ _ _ _ _ _ _ I P) as S1.
  destruct (is_success e).
  - inversion H; subst. assumption.
  - destruct (mco_pop k false p s1) as [[e2 s2] d2] eqn:Q. inversion H; subst.
    eapply same_ctl_trans; [exact S1|]. eapply mco_pop_same; [|exact Q]. eapply same_ctl_Inv; eauto.
Qed.

Lemma co_pop_same : forall k lens s r vs s', Inv s -> co_pop k lens s = (r, vs, s') -> same_ctl s s'.
Proof.
  intros k lens s r vs s' I H. unfold co_pop in H.
  destruct (pop_loop k (rev lens) [] s) as [[e v] s1] eqn:P.
  pose proof (pop_loop_same _ _ _ _ _ _ _ I P) as S1.
  destruct (is_success e); inversion H; subst; assumption.
Qed.

(* ---- control transfers *)
Lemma chain_inv : forall l cur ch, chain l cur ch ->
  match cur with
  | None => ch = []
  | Some k => exists c rest, ch = k :: rest /\ get k l = Some c /\ chain l (co_prev c) rest
  end.
Proof. destruct 1; eauto. Qed.

Lemma cstate_eqb_eq : forall a b, cstate_eqb a b = true <-> a = b.
Proof. destruct a, b; simpl; split; intro; congruence. Qed.

Lemma not_in_chain : forall l cur ch k c,
  chain l cur ch ->
  (forall k c, get k l = Some c ->
      (cur = Some k -> co_st c = Running) /\ (In k (tl ch) -> co_st c = Normal) /\
      (~ In k ch -> (co_st c = Suspended \/ co_st c = Dead) /\ co_prev c = None)) ->
  get k l = Some c -> (co_st c = Suspended \/ co_st c = Dead) -> ~ In k ch.
Proof.
  intros l cur ch k c C S G H X. destruct (S k c G) as (S1 & S2 & _).
  destruct ch as [|h t]; [contradiction|]. pose proof (chain_head _ _ _ C) as Hh. simpl in Hh.
  destruct X as [->|X].
  - rewrite (S1 Hh) in H. destruct H; discriminate.
  - simpl in S2. rewrite (S2 X) in H. destruct H; discriminate.
Qed.

Lemma mco_resume_Inv : forall k s s', Inv s -> mco_resume k s = (MCO_SUCCESS, s') -> Inv s'.
Proof.
  intros k s s' (I1 & I2 & ch & C & N & S) H. unfold mco_resume in H.
  destruct (get k (cos s)) as [c|] eqn:G; [|discriminate].
  destruct (cstate_eqb (co_st c) Suspended) eqn:E; simpl in H; [|discriminate].
  apply cstate_eqb_eq in E. inversion H; subst s'; clear H.
  assert (Hk : ~ In k ch) by (eapply not_in_chain; eauto).
  set (c1 := set_prev (set_st c Running) (current s)).
  pose proof (chain_inv _ _ _ C) as CI.
  destruct (current s) as [p|] eqn:Ecur.
  - (* a coroutine resumes another one *)
    destruct CI as (cp & rest & -> & Gp & Crest).
    assert (Hpk : p <> k) by (intro; subst; apply Hk; left; reflexivity).
    assert (GET : forall j, get j (set_state_of p Normal (put k c1 (cos s))) =
                  if Nat.eqb p j then Some (set_st cp Normal) else if Nat.eqb k j then Some c1 else get j (cos s)).
    { intro j. rewrite get_set_state_of, !get_put.
      destruct (Nat.eqb p j) eqn:E1; [|reflexivity].
      replace (Nat.eqb k p) with false by (symmetry; apply Nat.eqb_neq; auto).
      rewrite Gp. reflexivity. }
    unfold Inv. simpl. split; [|split].
    + apply NoDup_keys_set_state_of, NoDup_keys_put. assumption.
    + intros j d. rewrite GET. destruct (Nat.eqb p j) eqn:E1.
      * intro X. inversion X; subst. apply (I2 p cp Gp).
      * destruct (Nat.eqb k j) eqn:E2; [|apply I2]. intro X. inversion X; subst. apply (I2 k c G).
    + exists (k :: p :: rest). split; [|split].
      * econstructor. { rewrite GET. replace (Nat.eqb p k) with false by (symmetry; apply Nat.eqb_neq; auto). rewrite Nat.eqb_refl. reflexivity. }
        simpl. eapply chain_ext; [|exact C].
        intros j d Ij Gj. rewrite GET. destruct (Nat.eqb p j) eqn:E1.
        { apply Nat.eqb_eq in E1. subst j. rewrite Gp in Gj. inversion Gj; subst. eexists; split; reflexivity. }
        replace (Nat.eqb k j) with false by (symmetry; apply Nat.eqb_neq; intro; subst; contradiction).
        eauto.
      * constructor; assumption.
      * intros j d. rewrite GET. destruct (Nat.eqb p j) eqn:E1.
        { apply Nat.eqb_eq in E1. subst j. intro X. inversion X; subst. simpl. split; [|split].
          - intro Y. inversion Y. congruence.
          - reflexivity.
          - intro Y. exfalso. apply Y. right. left. reflexivity. }
        destruct (Nat.eqb k j) eqn:E2.
        { apply Nat.eqb_eq in E2. subst j. intro X. inversion X; subst. simpl. split; [|split].
          - reflexivity.
          - intro Y. exfalso. apply Hk. exact Y.
          - intro Y. exfalso. apply Y. left. reflexivity. }
        apply Nat.eqb_neq in E1. apply Nat.eqb_neq in E2. intro Gj.
        destruct (S j d Gj) as (S1 & S2 & S3). simpl. split; [|split].
        { intro Y. inversion Y. congruence. }
        { intros [Y|Y]; [congruence|]. apply S2. exact Y. }
        { intro Y. apply S3. intro Z. apply Y. right. exact Z. }
  - (* the main program resumes a coroutine *)
    subst ch.
    assert (GET : forall j, get j (put k c1 (cos s)) = if Nat.eqb k j then Some c1 else get j (cos s))
      by (intro; apply get_put).
    unfold Inv. simpl. split; [|split].
    + apply NoDup_keys_put. assumption.
    + intros j d. rewrite GET. destruct (Nat.eqb k j) eqn:E2; [|apply I2]. intro X. inversion X; subst. apply (I2 k c G).
    + exists [k]. split; [|split].
      * econstructor. { rewrite GET, Nat.eqb_refl. reflexivity. } simpl. constructor.
      * constructor; [intros []|constructor].
      * intros j d. rewrite GET. destruct (Nat.eqb k j) eqn:E2.
        { apply Nat.eqb_eq in E2. subst j. intro X. inversion X; subst. simpl. split; [|split].
          - reflexivity.
          - intros [].
          - intro Y. exfalso. apply Y. left. reflexivity. }
        apply Nat.eqb_neq in E2. intro Gj. destruct (S j d Gj) as (S1 & S2 & S3). simpl. split; [|split].
        { intro Y. inversion Y. congruence. }
        { intros []. }
        { intro Y. apply S3. intros []. }
Qed.

Lemma jumpout_Inv : forall k c0 x s,
  Inv s -> current s = Some k -> get k (cos s) = Some c0 -> (x = Suspended \/ x = Dead) ->
  Inv (jumpout k (set_st c0 x) s).
Proof.
  intros k c0 x s (I1 & I2 & ch & C & N & S) Ecur G Hx.
  rewrite Ecur in C, S. pose proof (chain_inv _ _ _ C) as CI. simpl in CI.
  destruct CI as (c & rest & -> & Gk & Crest). rewrite G in Gk. inversion Gk; subst c. clear Gk.
  inversion N as [|? ? Nk Nrest]; subst.
  unfold jumpout. simpl co_prev.
  set (c2 := set_prev (set_st c0 x) None).
  pose proof (chain_inv _ _ _ Crest) as CI.
  destruct (co_prev c0) as [p|] eqn:Eprev.
  - destruct CI as (cp & rest' & -> & Gp & Crest').
    assert (Hpk : p <> k) by (intro; subst; apply Nk; left; reflexivity).
    inversion Nrest as [|? ? Np Nrest']; subst.
    assert (GET : forall j, get j (set_state_of p Running (put k c2 (cos s))) =
                  if Nat.eqb p j then Some (set_st cp Running) else if Nat.eqb k j then Some c2 else get j (cos s)).
    { intro j. rewrite get_set_state_of, !get_put.
      destruct (Nat.eqb p j) eqn:E1; [|reflexivity].
      replace (Nat.eqb k p) with false by (symmetry; apply Nat.eqb_neq; auto).
      rewrite Gp. reflexivity. }
    unfold Inv. simpl. split; [|split].
    + apply NoDup_keys_set_state_of, NoDup_keys_put. assumption.
    + intros j d. rewrite GET. destruct (Nat.eqb p j) eqn:E1.
      * intro X. inversion X; subst. apply (I2 p cp Gp).
      * destruct (Nat.eqb k j) eqn:E2; [|apply I2]. intro X. inversion X; subst. apply (I2 k c0 G).
    + exists (p :: rest'). split; [|split].
      * eapply chain_ext; [|exact Crest].
        intros j d Ij Gj. rewrite GET. destruct (Nat.eqb p j) eqn:E1.
        { apply Nat.eqb_eq in E1. subst j. rewrite Gp in Gj. inversion Gj; subst. eexists; split; reflexivity. }
        replace (Nat.eqb k j) with false by (symmetry; apply Nat.eqb_neq; intro; subst; contradiction).
        eauto.
      * assumption.
      * intros j d. rewrite GET. destruct (Nat.eqb p j) eqn:E1.
        { apply Nat.eqb_eq in E1. subst j. intro X. inversion X; subst. simpl. split; [|split].
          - reflexivity.
          - intro Y. contradiction.
          - intro Y. exfalso. apply Y. left. reflexivity. }
        destruct (Nat.eqb k j) eqn:E2.
        { apply Nat.eqb_eq in E2. subst j. intro X. inversion X; subst. simpl. split; [|split].
          - intro Y. inversion Y. congruence.
          - intro Y. exfalso. apply Nk. right. exact Y.
          - intros _. split; [exact Hx|reflexivity]. }
        apply Nat.eqb_neq in E1. apply Nat.eqb_neq in E2. intro Gj.
        destruct (S j d Gj) as (S1 & S2 & S3). simpl in *. split; [|split].
        { intro Y. inversion Y. congruence. }
        { intro Y. apply S2. right. exact Y. }
        { intro Y. apply S3. intros [Z|Z]; [congruence|]. apply Y. exact Z. }
  - subst rest.
    assert (GET : forall j, get j (put k c2 (cos s)) = if Nat.eqb k j then Some c2 else get j (cos s))
      by (intro; apply get_put).
    unfold Inv. simpl. split; [|split].
    + apply NoDup_keys_put. assumption.
    + intros j d. rewrite GET. destruct (Nat.eqb k j) eqn:E2; [|apply I2]. intro X. inversion X; subst. apply (I2 k c0 G).
    + exists []. split; [|split].
      * constructor.
      * constructor.
      * intros j d. rewrite GET. destruct (Nat.eqb k j) eqn:E2.
        { apply Nat.eqb_eq in E2. subst j. intro X. inversion X; subst. simpl. split; [|split].
          - discriminate.
          - intros [].
          - intros _. split; [exact Hx|reflexivity]. }
        apply Nat.eqb_neq in E2. intro Gj. destruct (S j d Gj) as (S1 & S2 & S3). simpl in *. split; [|split].
        { discriminate. }
        { intros []. }
        { intros _. apply S3. intros [Z|[]]. congruence. }
Qed.

Lemma mco_destroy_Inv : forall k s r s', Inv s -> mco_destroy k s = (r, s') -> Inv s'.
Proof.
  intros k s r s' I H. unfold mco_destroy in H.
  destruct (get k (cos s)) as [c|] eqn:G; [|inversion H; subst; assumption].
  destruct (cstate_eqb (co_st c) Suspended || cstate_eqb (co_st c) Dead) eqn:E; [|inversion H; subst; assumption].
  inversion H; subst; clear H.
  destruct I as (I1 & I2 & ch & C & N & S).
  assert (Hst : co_st c = Suspended \/ co_st c = Dead).
  { apply orb_true_iff in E. destruct E as [E|E]; apply cstate_eqb_eq in E; auto. }
  assert (Hk : ~ In k ch) by (eapply not_in_chain; eauto).
  assert (GET : forall j, get j (del k (cos s)) = if Nat.eqb k j then None else get j (cos s))
    by (intro; apply get_del; assumption).
  unfold Inv. simpl. split; [|split].
  - apply NoDup_keys_del. assumption.
  - intros j d. rewrite GET. destruct (Nat.eqb k j); [discriminate|apply I2].
  - exists ch. split; [|split; [assumption|]].
    + eapply chain_ext; [|exact C]. intros j d Ij Gj. rewrite GET.
      replace (Nat.eqb k j) with false by (symmetry; apply Nat.eqb_neq; intro; subst; contradiction).
      eauto.
    + intros j d. rewrite GET. destruct (Nat.eqb k j); [discriminate|apply S].
Qed.

Lemma co_create_Inv : forall k a h s, Inv s -> get k (cos s) = None -> Inv (co_create k a h s).
Proof.
  intros k a h s (I1 & I2 & ch & C & N & S) G. unfold co_create.
  set (c0 := mkCo Suspended None (repeat 0%Z STORAGE_SIZE) 0 STORAGE_SIZE 0 false (gcon s) a h).
  assert (GET : forall j, get j (put k c0 (cos s)) = if Nat.eqb k j then Some c0 else get j (cos s))
    by (intro; apply get_put).
  assert (Hk : ~ In k ch).
  { intro X. destruct (chain_keys _ _ _ C k X) as (c & Gc). congruence. }
  unfold Inv. simpl. split; [|split].
  - apply NoDup_keys_put. assumption.
  - intros j d. rewrite GET. destruct (Nat.eqb k j); [|apply I2]. intro X. inversion X; subst.
    unfold co_wf, c0. cbn [co_buf co_cap co_stored]. split; [apply repeat_length|]. split; [lia|]. rewrite Nat.sub_0_r. reflexivity.
  - exists ch. split; [|split; [assumption|]].
    + eapply chain_ext; [|exact C]. intros j d Ij Gj. rewrite GET.
      replace (Nat.eqb k j) with false by (symmetry; apply Nat.eqb_neq; intro; subst; contradiction).
      eauto.
    + intros j d. rewrite GET. destruct (Nat.eqb k j) eqn:E; [|apply S].
      apply Nat.eqb_eq in E. subst j. intro X. inversion X; subst. simpl. split; [|split].
      * intro Y. exfalso. apply Hk. pose proof (chain_head _ _ _ C) as Hh. rewrite Y in Hh.
        destruct ch; simpl in Hh; inversion Hh. left. reflexivity.
      * intro Y. exfalso. apply Hk. destruct ch; simpl in Y; [contradiction|]. right. exact Y.
      * intros _. auto.
Qed.

(* ---- the library functions *)
Lemma mco_resume_err : forall k s e s', mco_resume k s = (e, s') -> e <> MCO_SUCCESS -> s' = s.
Proof.
  intros k s e s' H N. unfold mco_resume in H.
  destruct (get k (cos s)); [|inversion H; reflexivity].
  destruct (negb (cstate_eqb (co_st c) Suspended)); inversion H; subst; [reflexivity|congruence].
Qed.

Lemma mco_resume_Inv' : forall k s e s', Inv s -> mco_resume k s = (e, s') -> Inv s'.
Proof.
  intros k s e s' I H. destruct e; try (rewrite (mco_resume_err _ _ _ _ H) by discriminate; assumption).
  eapply mco_resume_Inv; eauto.
Qed.

(* coroutine.resume, by cases: it either succeeds (the arguments are pushed, control is transferred) or it
   fails and the WHOLE state is what it was: a failed push is rolled back by coroutine.push, a refused
   minicoro.resume makes coroutine.resume pop its arguments again (needs the repaired code: resume_rolls_back) *)
Lemma co_resume_cases : forall k vals s r s', Inv s -> co_resume k vals s = (r, s') ->
  (r = COk /\ exists s1, (match vals with [] => (COk, s) | _ :: _ => co_push k vals s end) = (COk, s1) /\
                         mco_resume k s1 = (MCO_SUCCESS, s')) \/
  ((exists e, r = CErr e) /\ s' = s).
Proof.
  intros k vals s r s' (I1 & I2 & I3) H. unfold co_resume, co_resume_with in H. rewrite resume_rolls_back in H.
  destruct vals as [|v vr].
  - destruct (mco_resume k s) as [e s2] eqn:R. destruct (is_success e) eqn:Es.
    + destruct e; simpl in Es; try discriminate. inversion H; subst. left. split; [reflexivity|]. eauto.
    + inversion H; subst. right. split; [eauto|]. eapply mco_resume_err; eauto. intro; subst; discriminate.
  - destruct (get k (cos s)) as [c|] eqn:G.
    + pose proof (I2 k c G) as W.
      assert (L : List.length (storage c) <= co_cap c).
      { rewrite (storage_length c W). destruct W as (_ & X & _). exact X. }
      pose proof (co_push_ws s k c (v :: vr) (storage c) L) as X.
      rewrite (ws_id s k c G W) in X. rewrite X in H.
      destruct (fit_spec (co_cap c) (v :: vr) (storage c) L) as (t & A & B & C & D).
      destruct (snd (fit (co_cap c) (storage c) (v :: vr))) eqn:E;
        try (inversion H; subst; right; split; [eauto|reflexivity]).
      rewrite (C eq_refl) in B. clear A C D t.
      set (S1 := storage c ++ List.concat (v :: vr)) in *.
      destruct (mco_resume k (with_st s k c S1)) as [e s2] eqn:R. destruct (is_success e) eqn:Es.
      * destruct e; simpl in Es; try discriminate. inversion H; subst. left. split; [reflexivity|].
        exists (with_st s k c S1). split; [exact X|exact R].
      * assert (E2 : s2 = with_st s k c S1) by (eapply mco_resume_err; eauto; intro; subst; discriminate).
        subst s2. rewrite mco_pop_ws in H by exact B.
        right. split; [destruct (Nat.eqb _ _) in H; [|destruct (Nat.ltb _ _) in H]; inversion H; eauto|].
        unfold S1 in *. rewrite app_length in H.
        destruct (Nat.eqb (List.length (List.concat (v :: vr))) 0) eqn:E0.
        { apply Nat.eqb_eq in E0. apply length_zero_iff_nil in E0. rewrite E0 in H. rewrite app_nil_r in H.
          inversion H; subst. apply ws_id; assumption. }
        { replace (Nat.ltb (List.length (storage c) + List.length (List.concat (v :: vr))) (List.length (List.concat (v :: vr))))
            with false in H by (symmetry; apply Nat.ltb_ge; lia).
          replace (List.length (storage c) + List.length (List.concat (v :: vr)) - List.length (List.concat (v :: vr)))
            with (List.length (storage c)) in H by lia.
          rewrite firstn_app_len in H. inversion H; subst. apply ws_id; assumption. }
    + (* nil: coroutine.push fails at the first value and nothing was pushed *)
      assert (P : co_push k (v :: vr) s = (CErr MCO_INVALID_COROUTINE, s)).
      { unfold co_push. cbn [push_loop]. unfold mco_push at 1. rewrite G. cbn [is_success].
        unfold mco_pop. rewrite G. reflexivity. }
      rewrite P in H. inversion H; subst. right. split; [eauto|reflexivity].
Qed.

Lemma co_resume_Inv : forall k vals s r s', Inv s -> co_resume k vals s = (r, s') -> Inv s'.
Proof.
  intros k vals s r s' I H. destruct (co_resume_cases _ _ _ _ _ I H) as [(-> & s1 & P & R)|(_ & ->)]; [|exact I].
  eapply mco_resume_Inv; [|exact R].
  destruct vals; [inversion P; subst; assumption|].
  eapply same_ctl_Inv; [eapply co_push_same; eauto|assumption].
Qed.

Lemma mco_yield_running_Inv : forall s e s', Inv s -> mco_yield_running s = (e, s') -> Inv s'.
Proof.
  intros s e s' I H. unfold mco_yield_running in H.
  destruct (current s) as [k|] eqn:Ecur; [|inversion H; subst; assumption].
  destruct (get k (cos s)) as [c|] eqn:G; [|inversion H; subst; assumption].
  destruct (negb (cstate_eqb (co_st c) Running)); inversion H; subst; [assumption|].
  apply jumpout_Inv; auto.
Qed.

Lemma co_yield_Inv : forall vals s r s', Inv s -> co_yield vals s = (r, s') -> Inv s'.
Proof.
  intros vals s r s' I H. unfold co_yield in H.
  destruct (current s) as [k|] eqn:Ecur; [|inversion H; subst; assumption].
  destruct (match vals with [] => (COk, s) | _ :: _ => co_push k vals s end) as [r1 s1] eqn:P.
  assert (I1 : Inv s1).
  { destruct vals; [inversion P; subst; assumption|].
    eapply same_ctl_Inv; [eapply co_push_same; eauto|assumption]. }
  destruct r1; try (inversion H; subst; assumption).
  destruct (mco_yield_running s1) as [e s2] eqn:R. inversion H; subst.
  eapply mco_yield_running_Inv; eauto.
Qed.

Lemma gc_unregister_Inv : forall k s s1, Inv s -> gc_unregister k s = Some s1 -> Inv s1.
Proof.
  intros k s s1 (I1 & I2 & I3) H. unfold gc_unregister in H.
  destruct (get k (cos s)) as [c|] eqn:G; [|inversion H; subst; split; [|split]; assumption].
  destruct (co_reg c); inversion H; subst. unfold Inv. simpl. split; [|split].
  - apply NoDup_keys_put. assumption.
  - intros j d. rewrite get_put. destruct (Nat.eqb k j); [|apply I2].
    intro X. inversion X; subst. apply (I2 k c G).
  - eapply InvC_ext; [|exact I3]. intro j. rewrite get_put.
    destruct (Nat.eqb k j) eqn:E; [|reflexivity]. apply Nat.eqb_eq in E. subst j. rewrite G. reflexivity.
Qed.

Lemma co_destroy_Inv : forall k s r s', Inv s -> co_destroy k s = (r, s') -> Inv s'.
Proof.
  intros k s r s' I H. unfold co_destroy, co_destroy_with in H.
  destruct (gcon s && DESTROY_UNREGISTERS_FIRST).
  - destruct (gc_unregister k s) as [s1|] eqn:U; [|inversion H; subst; assumption].
    destruct (mco_destroy k s1) as [e s2] eqn:D. inversion H; subst.
    eapply mco_destroy_Inv; [|exact D]. eapply gc_unregister_Inv; eauto.
  - destruct (mco_destroy k s) as [e s2] eqn:D.
    pose proof (mco_destroy_Inv _ _ _ _ I D) as I2.
    destruct (is_success e && gcon s); [|inversion H; subst; assumption].
    destruct (get k (cos s)) as [c|]; [destruct (co_reg c)|]; inversion H; subst; assumption.
Qed.

(* ---- the interpreter *)
Lemma start_body_same : forall k s r vs s', Inv s -> start_body k s = (r, vs, s') -> same_ctl s s'.
Proof.
  intros k s r vs s' I H. unfold start_body in H.
  destruct (get k (cos s)) as [c|] eqn:G; [|inversion H; subst; apply same_ctl_refl].
  set (s0 := set_cos s (put k (set_started c true) (cos s))) in *.
  assert (S0 : same_ctl s s0) by (eapply same_ctl_put; eauto).
  destruct (pop_loop k (rev (co_argsz c)) [] s0) as [[e v] s1] eqn:P.
  assert (S1 : same_ctl s0 s1) by (eapply pop_loop_same; [eapply same_ctl_Inv; eauto|exact P]).
  destruct (is_success e); inversion H; subst; eapply same_ctl_trans; eauto.
Qed.

Lemma arrive_Inv : forall k s s' ls, Inv s -> arrive k s = (s', ls) -> Inv s'.
Proof.
  intros k s s' ls I H. unfold arrive in H.
  destruct (get k (cos s)) as [c|] eqn:G; [|inversion H; subst; assumption].
  destruct (co_started c); [inversion H; subst; assumption|].
  destruct (start_body k s) as [[r vs] s1] eqn:B.
  pose proof (same_ctl_Inv _ _ (start_body_same _ _ _ _ _ I B) I) as I1.
  destruct r; inversion H; subst; try assumption;
    (eapply same_ctl_Inv; [apply same_ctl_halted|assumption]).
Qed.

Lemma same_ctl_current : forall s s', same_ctl s s' -> current s' = current s.
Proof. intros s s' (A & _). exact A. Qed.

Lemma finish_body_Inv : forall k rets s r s', Inv s -> current s = Some k -> finish_body k rets s = (r, s') -> Inv s'.
Proof.
  intros k rets s r s' I Ecur H. unfold finish_body in H.
  destruct (get k (cos s)) as [c|] eqn:G; [|inversion H; subst; assumption].
  destruct (if co_hasret c then push_loop k rets 0 s else (MCO_SUCCESS, 0, s)) as [[e p] s1] eqn:P.
  assert (S1 : same_ctl s s1).
  { destruct (co_hasret c); [eapply push_loop_same; eauto|inversion P; subst; apply same_ctl_refl]. }
  pose proof (same_ctl_Inv _ _ S1 I) as I1.
  destruct (is_success e); [|inversion H; subst; assumption].
  destruct (get k (cos s1)) as [c1|] eqn:G1; inversion H; subst; [|assumption].
  apply jumpout_Inv; auto. rewrite (same_ctl_current _ _ S1). assumption.
Qed.

Lemma body_return_Inv : forall k rets s s' ls, Inv s -> current s = Some k -> body_return k rets s = (s', ls) -> Inv s'.
Proof.
  intros k rets s s' ls I Ecur H. unfold body_return in H.
  destruct (finish_body k rets s) as [r s1] eqn:F.
  pose proof (finish_body_Inv _ _ _ _ _ I Ecur F) as I1.
  destruct r; inversion H; subst; try assumption;
    (eapply same_ctl_Inv; [apply same_ctl_halted|assumption]).
Qed.

Lemma set_depth_same : forall s k c d, get k (cos s) = Some c -> same_ctl s (set_cos s (put k (set_depth c d) (cos s))).
Proof. intros. eapply same_ctl_put; eauto. Qed.

Lemma unwind_Inv : forall fuel rets s s' ls, Inv s -> unwind fuel rets s = (s', ls) -> Inv s'.
Proof.
  induction fuel as [|f IH]; intros rets s s' ls I H; cbn [unwind] in H.
  - inversion H; subst. eapply same_ctl_Inv; [apply same_ctl_halted|assumption].
  - destruct (current s) as [k|] eqn:Ecur; [|inversion H; subst; assumption].
    set (s0 := match get k (cos s) with
               | Some c => set_cos s (put k (set_depth c 0) (cos s))
               | None => s end) in *.
    assert (S0 : same_ctl s s0).
    { unfold s0. destruct (get k (cos s)) eqn:G; [apply set_depth_same; assumption|apply same_ctl_refl]. }
    destruct (body_return k rets s0) as [s1 l1] eqn:B.
    assert (I1 : Inv s1).
    { eapply body_return_Inv; [eapply same_ctl_Inv; eauto| |exact B].
      rewrite (same_ctl_current _ _ S0). assumption. }
    destruct (halted s1); [inversion H; subst; assumption|].
    destruct (unwind f rets s1) as [s2 l2] eqn:U. inversion H; subst. eapply IH; eauto.
Qed.

Lemma step_Inv : forall o s, Inv s -> Inv (fst (step o s)).
Proof.
  intros o s I. unfold step. destruct (halted s); [exact I|].
  destruct o.
  - destruct (get k (cos s)) eqn:G; simpl; [assumption|apply co_create_Inv; assumption].
  - destruct (co_resume k vals s) as [r s1] eqn:R. pose proof (co_resume_Inv _ _ _ _ _ I R) as I1.
    destruct r; simpl; try assumption.
    destruct (arrive k s1) as [s2 ls] eqn:A. simpl. eapply arrive_Inv; eauto.
  - destruct (co_yield vals s) as [r s1] eqn:R. pose proof (co_yield_Inv _ _ _ _ I R) as I1.
    destruct r; simpl; assumption.
  - destruct (co_push k vals s) as [r s1] eqn:R. simpl.
    eapply same_ctl_Inv; [eapply co_push_same; eauto|assumption].
  - destruct (co_pop k lens s) as [[r vs] s1] eqn:R. simpl.
    eapply same_ctl_Inv; [eapply co_pop_same; eauto|assumption].
  - destruct (mco_peek k true len s). simpl. assumption.
  - destruct (mco_pop k false len s) as [[e s1] d] eqn:R. simpl.
    eapply same_ctl_Inv; [eapply mco_pop_same; eauto|assumption].
  - simpl. assumption.
  - simpl. assumption.
  - simpl. assumption.
  - simpl. assumption.
  - destruct (current s) as [k|] eqn:Ecur.
    + destruct (get k (cos s)) eqn:G; simpl; [|assumption].
      eapply same_ctl_Inv; [apply set_depth_same; eassumption|assumption].
    + simpl. eapply same_ctl_Inv; [apply same_ctl_mdepth|assumption].
  - destruct (current s) as [k|] eqn:Ecur.
    + destruct (get k (cos s)) eqn:G; simpl; [|assumption].
      destruct (Nat.eqb (co_depth c) 0).
      * destruct (body_return k rets s) as [s1 ls] eqn:B. simpl. eapply body_return_Inv; eauto.
      * simpl. eapply same_ctl_Inv; [apply set_depth_same; eassumption|assumption].
    + destruct (Nat.eqb (mdepth s) 0); simpl; [assumption|].
      eapply same_ctl_Inv; [apply same_ctl_mdepth|assumption].
  - destruct (co_destroy k s) as [r s1] eqn:R. pose proof (co_destroy_Inv _ _ _ _ I R) as I1.
    destruct r; simpl; try assumption.
  - destruct (co_destroy k s) as [r s1] eqn:R. pose proof (co_destroy_Inv _ _ _ _ I R) as I1.
    destruct r; simpl; try assumption.
  - simpl. assumption.
  - destruct (unwind (S (List.length (cos s))) rets s) as [s1 l1] eqn:U.
    pose proof (unwind_Inv _ _ _ _ _ I U) as I1.
    destruct (halted s1); simpl; [assumption|].
    eapply same_ctl_Inv; [apply same_ctl_halted|].
    eapply same_ctl_Inv; [apply same_ctl_mdepth|assumption].
  - simpl. assumption.
  - destruct (get k (cos s)) as [c|] eqn:G; simpl; [|assumption].
    destruct (cstate_eqb (co_st c) Suspended || cstate_eqb (co_st c) Dead) eqn:E; simpl; [|assumption].
    assert (D : mco_destroy k s = (MCO_SUCCESS, set_cos s (del k (cos s)))) by (unfold mco_destroy; rewrite G, E; reflexivity).
    eapply mco_destroy_Inv; eauto.
Qed.

Lemma init_Inv : forall gc, Inv (init gc).
Proof.
  intro gc. unfold Inv, init. simpl. split; [constructor|]. split; [intros; discriminate|].
  exists []. split; [constructor|]. split; [constructor|]. intros; discriminate.
Qed.

Lemma run_Inv : forall ops s, Inv s -> Inv (fst (run ops s)).
Proof.
  induction ops as [|o r IH]; intros s I; cbn [run].
  - exact I.
  - pose proof (step_Inv o s I) as I1. destruct (step o s) as [s1 l1]. simpl in I1.
    pose proof (IH s1 I1) as I2. destruct (run r s1) as [s2 l2]. exact I2.
Qed.
