(* C18 - the lemmas behind Properties.v, stated over ALL histories (every state reachable from
   the initial one by any command list), and satisfiable Examples (non-vacuity). *)
From Coq Require Import List Arith ZArith Bool String Lia.
From C18 Require Import Gen Model Spec ProofsBase ProofsStorage ProofsInv ProofsErr ProofsTrans ProofsFuel ProofsValues ProofsReg ProofsFrame ProofsOps ProofsSpec.
Import ListNotations.
Local Open Scope list_scope.

Definition reach (gc : bool) (ops : list op) : state := fst (run ops (init gc)).

Lemma reach_Inv : forall gc ops, Inv (reach gc ops).
Proof. intros. apply run_Inv, init_Inv. Qed.

(* ---- the control invariant, unfolded *)
Lemma one_running : forall gc ops k c, get k (cos (reach gc ops)) = Some c ->
  (co_st c = Running <-> current (reach gc ops) = Some k).
Proof.
  intros gc ops k c G. destruct (reach_Inv gc ops) as (_ & _ & ch & C & N & S).
  destruct (S k c G) as (S1 & S2 & S3). split; [|exact S1].
  intro R. destruct (in_dec Nat.eq_dec k ch) as [I|I].
  - destruct ch as [|h t]; [contradiction|]. pose proof (chain_head _ _ _ C) as Hh. simpl in Hh.
    destruct I as [->|I]; [exact Hh|]. simpl in S2. rewrite (S2 I) in R. discriminate.
  - destruct (S3 I) as ([X|X] & _); rewrite X in R; discriminate.
Qed.

Lemma main_running_iff : forall gc ops,
  main_status (reach gc ops) = "running"%string <-> current (reach gc ops) = None.
Proof.
  intros. unfold main_status. destruct (current (reach gc ops)).
  - split; intro H; [vm_compute in H; discriminate|discriminate].
  - split; intro H; [reflexivity|vm_compute; reflexivity].
Qed.

Lemma normal_is_prev_chain : forall gc ops, exists ch,
  chain (cos (reach gc ops)) (current (reach gc ops)) ch /\ NoDup ch /\
  forall k c, get k (cos (reach gc ops)) = Some c -> (co_st c = Normal <-> In k (tl ch)).
Proof.
  intros gc ops. destruct (reach_Inv gc ops) as (_ & _ & ch & C & N & S).
  exists ch. split; [exact C|]. split; [exact N|].
  intros k c G. destruct (S k c G) as (S1 & S2 & S3). split; [|exact S2].
  intro R. destruct (in_dec Nat.eq_dec k ch) as [I|I].
  - destruct ch as [|h t]; [contradiction|]. pose proof (chain_head _ _ _ C) as Hh. simpl in Hh.
    destruct I as [->|I]; [|exact I]. rewrite (S1 Hh) in R. discriminate.
  - destruct (S3 I) as ([X|X] & _); rewrite X in R; discriminate.
Qed.

Lemma idle_has_no_prev : forall gc ops k c, get k (cos (reach gc ops)) = Some c ->
  (co_st c = Suspended \/ co_st c = Dead) -> co_prev c = None.
Proof.
  intros gc ops k c G H. destruct (reach_Inv gc ops) as (_ & _ & ch & C & N & S).
  destruct (S k c G) as (_ & _ & S3). apply S3. eapply not_in_chain; eauto.
Qed.

Lemma storage_within_capacity : forall gc ops k c, get k (cos (reach gc ops)) = Some c ->
  co_stored c <= co_cap c /\ List.length (co_buf c) = co_cap c /\
  skipn (co_stored c) (co_buf c) = repeat 0%Z (co_cap c - co_stored c).
Proof.
  intros gc ops k c G. destruct (Inv_wf _ _ _ (reach_Inv gc ops) G) as (A & B & C). auto.
Qed.

(* ---- refinement of the documented reference semantics (Spec.v) *)
Lemma refines_spec_step : forall gc ops o,
  spec_step o (absS (reach gc ops)) = (absS (fst (step o (reach gc ops))), snd (step o (reach gc ops))).
Proof.
  intros gc ops o. apply step_refines; [apply reach_Inv|].
  exact (run_regok ops (init gc) (init_Inv gc) (init_regok gc)).
Qed.

Lemma refines_spec_history : forall gc ops,
  absS (reach gc ops) = spec_reach gc ops /\ snd (run ops (init gc)) = snd (spec_run ops (spec_init gc)).
Proof. intros. apply refines_spec. Qed.

Lemma status_agrees_with_spec_all : forall gc ops k, co_status k (reach gc ops) = spec_status k (spec_reach gc ops).
Proof. intros. apply status_agrees_with_spec. Qed.

(* ---- the state machine *)
Lemma state_machine : forall gc ops o j,
  tr (stof (reach gc ops) j) (stof (fst (step o (reach gc ops))) j) /\
  (stof (fst (step o (reach gc ops))) j = None -> stof (reach gc ops) j <> None -> o = ODestroy j \/ o = OClose j \/ o = OForget j) /\
  (stof (reach gc ops) j = Some Normal -> stof (fst (step o (reach gc ops))) j = Some Dead -> exists rets n, o = OEnd rets n).
Proof.
  intros. destruct (step_tr o (reach gc ops) j (reach_Inv gc ops)) as (A & B). split; [exact A|]. split; [exact B|].
  intros X Y. destruct o; try solve [eexists; eexists; reflexivity]; exfalso;
    (refine (step_not_unwound _ _ j (reach_Inv gc ops) _ (conj X Y)); intros ? ? E; discriminate E).
Qed.

(* the documented transition table, operation by operation *)
Lemma resume_transition_all : forall gc ops k vals r s1, let s := reach gc ops in co_resume k vals s = (r, s1) ->
  (r = COk ->
     stof s k = Some Suspended /\ stof s1 k = Some Running /\ current s1 = Some k /\
     (forall p, current s = Some p -> stof s p = Some Running /\ stof s1 p = Some Normal) /\
     (forall j, j <> k -> current s <> Some j -> stof s1 j = stof s j)) /\
  (r <> COk -> s1 = s).
Proof. intros. eapply resume_transition; eauto. apply reach_Inv. Qed.

Lemma yield_transition_all : forall gc ops k c vals r s1, let s := reach gc ops in
  current s = Some k -> get k (cos s) = Some c -> co_yield vals s = (r, s1) ->
  (r = COk ->
     stof s k = Some Running /\ stof s1 k = Some Suspended /\ current s1 = co_prev c /\
     (forall p, co_prev c = Some p -> stof s p = Some Normal /\ stof s1 p = Some Running) /\
     (forall j, j <> k -> co_prev c <> Some j -> stof s1 j = stof s j)) /\
  (r <> COk -> current s1 = current s /\ forall j, stof s1 j = stof s j).
Proof. intros. eapply yield_transition; eauto. apply reach_Inv. Qed.

Lemma return_transition_all : forall gc ops k c rets s1, let s := reach gc ops in
  current s = Some k -> get k (cos s) = Some c -> finish_body k rets s = (COk, s1) ->
  stof s k = Some Running /\ stof s1 k = Some Dead /\ current s1 = co_prev c /\
  (forall p, co_prev c = Some p -> stof s p = Some Normal /\ stof s1 p = Some Running) /\
  (forall j, j <> k -> co_prev c <> Some j -> stof s1 j = stof s j).
Proof. intros. eapply return_transition; eauto. apply reach_Inv. Qed.

Lemma quiet_commands_all : forall gc ops o j, let s := reach gc ops in
  (ctl_neutral o -> stof (fst (step o s)) j = stof s j /\ current (fst (step o s)) = current s) /\
  (forall r s', api o s = Some (CErr r, s') -> stof s' j = stof s j /\ current s' = current s).
Proof.
  intros gc ops o j s. split.
  - intro N. apply neutral_transition; [apply reach_Inv|exact N].
  - intros r s' H. eapply failed_call_transition; eauto. apply reach_Inv.
Qed.

(* a command changes the stored bytes only of the coroutine it addresses *)
Lemma storage_frame : forall gc ops o j, ~ addressed o (reach gc ops) j ->
  stor (fst (step o (reach gc ops))) j = stor (reach gc ops) j.
Proof. intros gc ops o j N. exact (step_frame o (reach gc ops) (reach_Inv gc ops) j N). Qed.

Lemma storage_frame_run : forall gc ops more j, quiet j more (reach gc ops) ->
  stor (fst (run more (reach gc ops))) j = stor (reach gc ops) j.
Proof. intros. apply run_frame; [apply reach_Inv|assumption]. Qed.

(* coroutine.pop, exactly (also when it fails midway) *)
Lemma pop_effect_all : forall gc ops k c lens, let s := reach gc ops in get k (cos s) = Some c ->
  exists vs, co_pop k lens s =
    (if snd (unfit (storage c) (rev lens)) then COk else CErr MCO_NOT_ENOUGH_SPACE, vs,
     with_st s k c (fst (unfit (storage c) (rev lens)))).
Proof. intros. apply co_pop_effect; [apply reach_Inv|assumption]. Qed.

Lemma dead_is_absorbing : forall gc ops o j, stof (reach gc ops) j = Some Dead ->
  stof (fst (step o (reach gc ops))) j = Some Dead \/
  (stof (fst (step o (reach gc ops))) j = None /\ (o = ODestroy j \/ o = OClose j \/ o = OForget j)).
Proof. intros. apply dead_absorbing; [apply reach_Inv|assumption]. Qed.

Lemma end_unwinds : forall gc ops rets n, no_fuel_line (snd (step (OEnd rets n) (reach gc ops))).
Proof. intros. apply end_has_fuel, reach_Inv. Qed.

(* ---- storage *)
Lemma storage_lifo : forall gc ops k c b c1, get k (cos (reach gc ops)) = Some c ->
  mco_push_co c (Some b) (List.length b) = (MCO_SUCCESS, c1) ->
  storage c1 = storage c ++ b /\ mco_pop_co c1 true (List.length b) = (MCO_SUCCESS, c, b).
Proof.
  intros gc ops k c b c1 G P.
  destruct (push_pop_co c b c1 (Inv_wf _ _ _ (reach_Inv gc ops) G) P) as (_ & A & B). auto.
Qed.

Lemma typed_roundtrip_all : forall gc ops k c vs s1, get k (cos (reach gc ops)) = Some c ->
  co_push k vs (reach gc ops) = (COk, s1) ->
  co_pop k (map (@List.length Z) vs) s1 = (COk, vs, reach gc ops).
Proof. intros. eapply typed_roundtrip; eauto. apply reach_Inv. Qed.

Lemma push_rollback_all : forall gc ops k vs e s', co_push k vs (reach gc ops) = (CErr e, s') -> s' = reach gc ops.
Proof. intros. eapply push_rollback; eauto. apply reach_Inv. Qed.

(* ---- values cross a switch unmodified and in order *)
Lemma resume_delivers_all : forall gc ops k c vals s1, let s := reach gc ops in
  get k (cos s) = Some c -> co_resume k vals s = (COk, s1) ->
  current s1 = Some k /\
  exists c1, get k (cos s1) = Some c1 /\
    co_pop k (map (@List.length Z) vals) s1 = (COk, vals, with_st s1 k c1 (storage c)).
Proof. intros. eapply resume_delivers; eauto. apply reach_Inv. Qed.

Lemma yield_delivers_all : forall gc ops k c vals s1, let s := reach gc ops in
  current s = Some k -> get k (cos s) = Some c -> co_yield vals s = (COk, s1) ->
  current s1 = co_prev c /\
  exists c1, get k (cos s1) = Some c1 /\ co_st c1 = Suspended /\
    co_pop k (map (@List.length Z) vals) s1 = (COk, vals, with_st s1 k c1 (storage c)).
Proof. intros. eapply yield_delivers; eauto. apply reach_Inv. Qed.

Lemma body_receives_arguments_all : forall gc ops k c vals s1, let s := reach gc ops in
  get k (cos s) = Some c -> co_started c = false -> co_argsz c = map (@List.length Z) vals ->
  co_resume k vals s = (COk, s1) ->
  exists s2 c2, start_body k s1 = (COk, vals, s2) /\ get k (cos s2) = Some c2 /\ storage c2 = storage c /\
                arrive k s1 = (s2, [mkLine (Some k) 0 "start" (map FV vals)]).
Proof. intros. eapply body_receives_arguments; eauto. apply reach_Inv. Qed.

Lemma body_return_delivers_all : forall gc ops k c rets s1, let s := reach gc ops in
  current s = Some k -> get k (cos s) = Some c -> co_hasret c = true ->
  finish_body k rets s = (COk, s1) ->
  current s1 = co_prev c /\
  exists c1, get k (cos s1) = Some c1 /\ co_st c1 = Dead /\
    co_pop k (map (@List.length Z) rets) s1 = (COk, rets, with_st s1 k c1 (storage c)).
Proof. intros. eapply body_return_delivers; eauto. apply reach_Inv. Qed.

(* ---- invalid transitions: documented error, state unchanged *)
Lemma invalid_transitions : forall gc ops, let s := reach gc ops in
  (forall k c, get k (cos s) = Some c -> co_st c <> Suspended -> co_resume k [] s = (CErr MCO_NOT_SUSPENDED, s)) /\
  (forall k, get k (cos s) = None -> co_resume k [] s = (CErr MCO_INVALID_COROUTINE, s)) /\
  (forall k, current s = Some k -> co_resume k [] s = (CErr MCO_NOT_SUSPENDED, s)) /\
  (forall vals, current s = None -> co_yield vals s = (CErr MCO_INVALID_COROUTINE, s)) /\
  (forall k c, get k (cos s) = Some c ->
     (co_st c = Running \/ co_st c = Normal) -> co_destroy k s = (CErr MCO_INVALID_OPERATION, s)) /\
  (forall k c vs, get k (cos s) = Some c -> snd (fit (co_cap c) (storage c) vs) <> MCO_SUCCESS ->
     co_push k vs s = (CErr MCO_NOT_ENOUGH_SPACE, s)) /\
  (forall k c n, get k (cos s) = Some c -> co_stored c < n -> co_pop k [n] s = (CErr MCO_NOT_ENOUGH_SPACE, [], s)) /\
  (forall k c n, get k (cos s) = Some c -> co_stored c < n -> mco_peek k true n s = (MCO_NOT_ENOUGH_SPACE, [])).
Proof.
  intros gc ops s. pose proof (reach_Inv gc ops) as I. fold s in I.
  split; [intros; eapply resume_not_suspended; eauto|].
  split; [intros; eapply resume_nil; eauto|].
  split; [intros; eapply resume_self; eauto|].
  split; [intros; eapply yield_from_main; eauto|].
  split; [intros; eapply destroy_active; eauto|].
  split; [intros; eapply push_overflow; eauto|].
  split; [intros; eapply pop_underflow_one; eauto|].
  intros; eapply peek_underflow; eauto.
Qed.

(* every live coroutine object is registered in the collector exactly when the program was built with
   the GC ([gcon]): in a GC build the stack of every coroutine that still exists is scanned *)
Lemma registered_while_alive : forall gc ops k c, get k (cos (reach gc ops)) = Some c ->
  co_reg c = gcon (reach gc ops).
Proof. intros gc ops k c G. exact (run_regok ops (init gc) (init_Inv gc) (init_regok gc) k c G). Qed.

(* destroy in every build: refused on an active coroutine with the whole state (GC registration
   included) unchanged; a legal destroy removes the object; the assertion of GC:unregister never fails *)
Lemma destroy_behaviour : forall gc ops k, let s := reach gc ops in
  (forall c, get k (cos s) = Some c -> (co_st c = Running \/ co_st c = Normal) ->
     co_destroy k s = (CErr MCO_INVALID_OPERATION, s)) /\
  (forall c, get k (cos s) = Some c -> (co_st c = Suspended \/ co_st c = Dead) ->
     co_destroy k s = (COk, set_cos s (del k (cos s))) /\ get k (del k (cos s)) = None) /\
  (get k (cos s) = None -> co_destroy k s = (CErr MCO_INVALID_COROUTINE, s)) /\
  (forall m s', co_destroy k s <> (CPanic m, s')).
Proof.
  intros gc ops k s. pose proof (reach_Inv gc ops) as I. fold s in I.
  assert (R : regok s) by (intros j c G; exact (registered_while_alive gc ops j c G)).
  split; [intros; eapply destroy_active; eauto|].
  split.
  - intros c G H. split.
    + apply (destroy_idle s k c G H). intro E. rewrite (R k c G). exact E.
    + destruct I as (I1 & _). rewrite get_del by assumption. rewrite Nat.eqb_refl. reflexivity.
  - split; [apply destroy_nil|]. intros m s'. apply destroy_no_panic; assumption.
Qed.

(* a refused resume WITH arguments (that fit): the documented error, the whole state unchanged *)
Lemma refused_resume_unchanged_all : forall gc ops k c vals, let s := reach gc ops in
  get k (cos s) = Some c -> co_st c <> Suspended -> (forall e, fst (co_push k vals s) <> CErr e) ->
  co_resume k vals s = (CErr MCO_NOT_SUSPENDED, s).
Proof. intros. eapply refused_resume_unchanged; eauto. apply reach_Inv. Qed.

(* ---- facts about the constants scraped from the source *)
Lemma gen_facts :
  DESTROY_UNREGISTERS_FIRST = false /\ RESUME_ROLLS_BACK_ARGS = true /\ GC_REGISTERS_WHOLE_CORO_BLOCK = true /\ MCO_ZERO_MEMORY = true /\ 0 < STORAGE_SIZE /\
  NoDup (map cstate_code all_cstate) /\ NoDup (map mres_code all_mres) /\ NoDup (map describe all_mres) /\
  status_of_state Suspended = "suspended"%string /\ status_of_state Running = "running"%string /\
  status_of_state Normal = "normal"%string /\ status_of_state Dead = "dead"%string /\
  STATUS_NIL = "dead"%string /\ STATUS_MAIN_RUNNING = "running"%string /\ STATUS_MAIN_NORMAL = "normal"%string.
Proof.
  split; [apply destroy_order_fixed|]. split; [apply resume_rolls_back|]. split; [apply gc_registers_whole_block|]. split; [apply zero_memory_on|]. split; [apply storage_size_pos|].
  split; [apply state_codes_distinct|]. split; [apply result_codes_distinct|].
  split; [apply descriptions_distinct|]. apply status_strings_documented.
Qed.

(* ------------------------------------------------------------------ non-vacuity *)
(* main resumes 0, 0 resumes 1, 1 resumes 2; 3 is suspended, 4 is dead *)
Definition ex_ops : list op :=
  [OCreate 0 [] false; OCreate 1 [] false; OCreate 2 [8; 4; 1] true; OCreate 3 [] false; OCreate 4 [] false;
   OResume 4 []; ORet []; OResume 0 []; OResume 1 []; ODeeper 3;
   OResume 2 [[1;2;3;4;5;6;7;8]%Z; [9;9;9;9]%Z; [200]%Z]; OPush 3 [[42]%Z; [1;2]%Z]].

Example ex_chain : current (reach true ex_ops) = Some 2 /\
  chain (cos (reach true ex_ops)) (Some 2) [2; 1; 0] /\
  map (fun k => stof (reach true ex_ops) k) [0; 1; 2; 3; 4; 5] =
    [Some Normal; Some Normal; Some Running; Some Suspended; Some Dead; None].
Proof.
  split; [vm_compute; reflexivity|]. split; [|vm_compute; reflexivity].
  econstructor; [vm_compute; reflexivity|]. econstructor; [vm_compute; reflexivity|].
  econstructor; [vm_compute; reflexivity|]. vm_compute. constructor.
Qed.

(* the typed round trip is not vacuous: a three-value push succeeds on a reachable state *)
Example ex_roundtrip : exists s1,
  co_push 3 [[1;2;3;4;5;6;7;8]%Z; [9;9;9;9]%Z; [7]%Z] (reach true ex_ops) = (COk, s1) /\
  co_pop 3 [8; 4; 1] s1 = (COk, [[1;2;3;4;5;6;7;8]%Z; [9;9;9;9]%Z; [7]%Z], reach true ex_ops).
Proof. eexists. split; vm_compute; reflexivity. Qed.

(* rollback is not vacuous: the second value does not fit, the first one is taken back *)
Example ex_rollback :
  co_push 3 [repeat 5%Z 1000; repeat 6%Z 100] (reach true ex_ops) = (CErr MCO_NOT_ENOUGH_SPACE, reach true ex_ops).
Proof. vm_compute. reflexivity. Qed.

(* invalid transitions on the example state *)
Example ex_invalid :
  co_resume 4 [] (reach true ex_ops) = (CErr MCO_NOT_SUSPENDED, reach true ex_ops) /\   (* dead *)
  co_resume 2 [] (reach true ex_ops) = (CErr MCO_NOT_SUSPENDED, reach true ex_ops) /\   (* self *)
  co_resume 0 [] (reach true ex_ops) = (CErr MCO_NOT_SUSPENDED, reach true ex_ops) /\   (* normal *)
  co_resume 9 [] (reach true ex_ops) = (CErr MCO_INVALID_COROUTINE, reach true ex_ops) /\
  co_yield [] (reach true []) = (CErr MCO_INVALID_COROUTINE, reach true []) /\
  co_destroy 1 (reach false ex_ops) = (CErr MCO_INVALID_OPERATION, reach false ex_ops) /\
  co_destroy 1 (reach true ex_ops) = (CErr MCO_INVALID_OPERATION, reach true ex_ops).
Proof.
  split; [vm_compute; reflexivity|]. split; [vm_compute; reflexivity|]. split; [vm_compute; reflexivity|].
  split; [vm_compute; reflexivity|]. split; [vm_compute; reflexivity|]. split; [vm_compute; reflexivity|].
  vm_compute. reflexivity.
Qed.

(* the former defect witness on the repaired code: the refused destroy of the running coroutine leaves
   it registered (status line: reg = true) and the later legal destroy succeeds *)
Example ex_repaired :
  snd (run [OCreate 0 [] false; OResume 0 []; ODestroy 0; OStatus 0; ORet []; ODestroy 0; OStatus 0] (init true)) =
  [mkLine None 0 "create" [FS "ok"]; mkLine (Some 0) 0 "start" [];
   mkLine (Some 0) 0 "destroy" [FB false; FS "Invalid operation"];
   mkLine (Some 0) 0 "status" [FS "running"; FN 0; FB true; FB true; FP None];
   mkLine (Some 0) 0 "return" []; mkLine None 0 "resume" [FB true; FS ""];
   mkLine None 0 "destroy" [FB true; FS ""];
   mkLine None 0 "status" [FS "dead"; FN 0; FB true; FB false; FP None]]%string.
Proof. vm_compute. reflexivity. Qed.

(* values across switches: the hypotheses are satisfiable (typed body 2 started with its arguments,
   then it yields two values which the resumer pops) *)
Example ex_values :
  snd (run [OCreate 0 [8; 4; 1] true; OResume 0 [[1;0;0;0;0;0;0;0]%Z; [2;0;0;0]%Z; [3]%Z];
            OYield [[9]%Z; [7;7;7;7;7;7;7;7]%Z]; OPop 0 [1; 8]; OResume 0 []; ORet [[5]%Z; [6;0;0;0;0;0;0;0]%Z];
            OPop 0 [1; 8]; OStatus 0] (init true)) =
  [mkLine None 0 "create" [FS "ok"];
   mkLine (Some 0) 0 "start" [FV [1;0;0;0;0;0;0;0]%Z; FV [2;0;0;0]%Z; FV [3]%Z];
   mkLine None 0 "resume" [FB true; FS ""];
   mkLine None 0 "pop" [FB true; FS ""; FV [9]%Z; FV [7;7;7;7;7;7;7;7]%Z];
   mkLine (Some 0) 0 "yield" [FB true; FS ""];
   mkLine (Some 0) 0 "return" []; mkLine None 0 "resume" [FB true; FS ""];
   mkLine None 0 "pop" [FB true; FS ""; FV [5]%Z; FV [6;0;0;0;0;0;0;0]%Z];
   mkLine None 0 "status" [FS "dead"; FN 0; FB true; FB true; FP None]]%string.
Proof. vm_compute. reflexivity. Qed.

(* refused resumes with arguments on the example state: self, normal, dead - error and nothing changes *)
Example ex_refused_resume_args :
  co_resume 2 [[1;2;3]%Z] (reach true ex_ops) = (CErr MCO_NOT_SUSPENDED, reach true ex_ops) /\
  co_resume 0 [[1;2;3]%Z; [4]%Z] (reach true ex_ops) = (CErr MCO_NOT_SUSPENDED, reach true ex_ops) /\
  co_resume 4 [[9]%Z] (reach true ex_ops) = (CErr MCO_NOT_SUSPENDED, reach true ex_ops).
Proof. split; [vm_compute; reflexivity|]. split; vm_compute; reflexivity. Qed.

(* dead-is-absorbing has a dead coroutine to talk about; destroy removes it *)
Example ex_dead : stof (reach true ex_ops) 4 = Some Dead /\
  stof (fst (step (OResume 4 []) (reach true ex_ops))) 4 = Some Dead /\
  stof (fst (step (ODestroy 4) (reach true ex_ops))) 4 = None.
Proof. split; [vm_compute; reflexivity|]. split; vm_compute; reflexivity. Qed.
