(* Runs the extracted model of coroutine.nelua / minicoro on a stream of schedules.
   Input: schedules separated by lines "reset <gc01> <nslots>"; each other line is one command of
   the schedule language of harness/C18/codriver.nelua:
     create k kind | resume k | resumev k shape a b c | yield | yieldv shape a b c
     push k shape a b c | pop k shape | peek k n | drop k n | status k (k = -1: main)
     isyieldable | running | deeper d | ret a b | destroy k | close k | gc | sub d n | forget k | end
   Typed values travel as little-endian byte lists; the shapes (lists of component types) are
   fixed by the harness:  0 = (int64)  1 = (int64,int32,byte)  2 = (byte,int64)  3 = ([256]byte,int64).
   Body kind 0 = function(); kind 1 = function(int64,int32,byte): (byte,int64).
   Output: "@ reset" per schedule, then per command an echo line "> idx who dN" followed by the
   model's lines "= who dN tag|field|field..." *)
open Model
open Glue

type comp = I64 | I32 | U8 | BIG

let shapes = [| [ I64 ]; [ I64; I32; U8 ]; [ U8; I64 ]; [ BIG; I64 ] |]
let size_of = function I64 -> 8 | I32 -> 4 | U8 -> 1 | BIG -> 256

let byte_of (v : int64) (i : int) : z =
  z_of_int (Int64.to_int (Int64.logand (Int64.shift_right_logical v (8 * i)) 0xFFL))

let encode (c : comp) (v : int64) : z list =
  match c with
  | I64 -> List.init 8 (byte_of v)
  | I32 -> List.init 4 (byte_of v)
  | U8 -> [ byte_of v 0 ]
  | BIG -> List.init 256 (fun i -> z_of_int (Int64.to_int (Int64.logand (Int64.add v (Int64.of_int i)) 0xFFL)))

let rec enc_shape (cs : comp list) (vs : int64 list) : z list list =
  match cs, vs with
  | [], _ -> []
  | c :: cr, v :: vr -> encode c v :: enc_shape cr vr
  | c :: cr, [] -> encode c 0L :: enc_shape cr []

let lens_shape (cs : comp list) : nat list = List.map (fun c -> nat_of_int (size_of c)) cs

let who_str = function None -> "main" | Some k -> "c" ^ string_of_int (int_of_nat k)

let field_str = function
  | FB b -> if b then "true" else "false"
  | FS t -> coqstr t
  | FN n -> string_of_int (int_of_nat n)
  | FV v -> hexbytes_of_zlist v
  | FP None -> "nil"
  | FP (Some k) -> "c" ^ string_of_int (int_of_nat k)

let print_line (l : line) =
  print_string ("= " ^ who_str l.l_who ^ " d" ^ string_of_int (int_of_nat l.l_dep) ^ " " ^ coqstr l.l_tag);
  List.iter (fun f -> print_string ("|" ^ field_str f)) l.l_fields;
  print_newline ()

(* `codriver spec` runs the extracted reference semantics of Spec.v (spec_step) instead of the model (step) *)
let spec_mode = Array.length Sys.argv > 1 && Sys.argv.(1) = "spec"

let () =
  let st = ref (init true) in
  let sst = ref (spec_init true) in
  let idx = ref 0 in
  let nslots = ref 24 in
  iter_lines (fun line ->
    let w = Array.of_list (split_ws (String.trim line)) in
    if Array.length w = 0 then ()
    else begin
      let nat i = nat_of_int (int_of_string w.(i)) in
      let i64 i = if i < Array.length w then Int64.of_string w.(i) else 0L in
      let vals sh i = enc_shape shapes.(int_of_string w.(sh)) [ i64 i; i64 (i + 1); i64 (i + 2) ] in
      let op =
        match w.(0) with
        | "reset" ->
          st := init (w.(1) <> "0");
          sst := spec_init (w.(1) <> "0");
          nslots := int_of_string w.(2);
          idx := 0;
          print_endline "@ reset";
          None
        | "create" ->
          if w.(2) = "1" then Some (OCreate (nat 1, lens_shape shapes.(1), true))
          else Some (OCreate (nat 1, [], false))
        | "resume" -> Some (OResume (nat 1, []))
        | "resumev" -> Some (OResume (nat 1, vals 2 3))
        | "yield" -> Some (OYield [])
        | "yieldv" -> Some (OYield (vals 1 2))
        | "push" -> Some (OPush (nat 1, vals 2 3))
        | "pop" -> Some (OPop (nat 1, lens_shape shapes.(int_of_string w.(2))))
        | "peek" -> Some (OPeek (nat 1, nat 2))
        | "drop" -> Some (ODrop (nat 1, nat 2))
        | "status" -> if w.(1) = "-1" then Some OStatusMain else Some (OStatus (nat 1))
        | "isyieldable" -> Some OIsYieldable
        | "running" -> Some ORunning
        | "deeper" -> Some (ODeeper (nat 1))
        | "ret" -> Some (ORet (enc_shape shapes.(2) [ i64 1; i64 2 ]))
        | "destroy" -> Some (ODestroy (nat 1))
        | "close" -> Some (OClose (nat 1))
        | "gc" -> Some OGc
        | "sub" -> Some (OSub (nat 1, nat 2))
        | "forget" -> Some (OForget (nat 1))
        | "end" -> Some (OEnd (enc_shape shapes.(2) [ 0L; 0L ], nat_of_int !nslots))
        | x -> failwith ("bad command " ^ x)
      in
      match op with
      | None -> ()
      | Some o ->
        if spec_mode then begin
          let t = !sst in
          if not t.ss_halted then begin
            print_endline ("> " ^ string_of_int !idx ^ " " ^ who_str (s_running t) ^ " d"
                           ^ string_of_int (int_of_nat (s_depth_of (s_running t) t)));
            let t1, ls = spec_step o t in
            List.iter print_line ls;
            sst := t1
          end
        end else begin
          let s = !st in
          if not s.halted then begin
            print_endline ("> " ^ string_of_int !idx ^ " " ^ who_str s.current ^ " d"
                           ^ string_of_int (int_of_nat (depth_of s.current s)));
            let s1, ls = step o s in
            List.iter print_line ls;
            st := s1
          end
        end;
        incr idx
    end)
