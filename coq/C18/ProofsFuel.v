(* C18 - the end-of-script unwinding has enough fuel: the prev chain is finite and ends in main. *)
From Coq Require Import List Arith ZArith Bool String Lia.
From C18 Require Import Gen Model ProofsBase ProofsStorage ProofsInv ProofsErr ProofsTrans.
Import ListNotations.
Local Open Scope list_scope.

Lemma same_ctl_chain : forall s s' cur ch, same_ctl s s' -> chain (cos s) cur ch -> chain (cos s') cur ch.
Proof.
  intros s s' cur ch (_ & A & _) C. eapply chain_ext; [|exact C].
  intros j c _ G. specialize (A j). rewrite G in A.
  destruct (get j (cos s')) as [c'|]; [|discriminate]. simpl in A. inversion A. eauto.
Qed.

Lemma Inv_chain_NoDup : forall s ch, Inv s -> chain (cos s) (current s) ch -> NoDup ch.
Proof.
  intros s ch (_ & _ & ch' & C' & N & _) C. rewrite (chain_functional _ _ _ C _ C'). exact N.
Qed.

Lemma jumpout_chain : forall k c0 x s rest,
  Inv s -> current s = Some k -> get k (cos s) = Some c0 -> chain (cos s) (Some k) (k :: rest) ->
  chain (cos (jumpout k (set_st c0 x) s)) (current (jumpout k (set_st c0 x) s)) rest.
Proof.
  intros k c0 x s rest I Ecur G C.
  assert (N : NoDup (k :: rest)) by (eapply Inv_chain_NoDup; eauto; rewrite Ecur; exact C).
  inversion N as [|? ? Nk Nrest]; subst.
  inversion C as [|? c ? Gk Crest]; subst. rewrite G in Gk. inversion Gk; subst c. clear Gk.
  unfold jumpout. simpl.
  eapply chain_ext; [|exact Crest].
  intros j d Ij Gj.
  assert (Hjk : k <> j) by (intro; subst; contradiction).
  destruct (co_prev c0) as [p|].
  - rewrite get_set_state_of, !get_put.
    destruct (Nat.eqb p j) eqn:E1.
    + apply Nat.eqb_eq in E1. subst j.
      replace (Nat.eqb k p) with false by (symmetry; apply Nat.eqb_neq; auto).
      rewrite Gj. simpl. eexists; split; reflexivity.
    + replace (Nat.eqb k j) with false by (symmetry; apply Nat.eqb_neq; auto). eauto.
  - rewrite get_put. replace (Nat.eqb k j) with false by (symmetry; apply Nat.eqb_neq; auto). eauto.
Qed.

Lemma finish_body_chain : forall k rets s s1 rest,
  Inv s -> current s = Some k -> chain (cos s) (Some k) (k :: rest) ->
  finish_body k rets s = (COk, s1) -> chain (cos s1) (current s1) rest.
Proof.
  intros k rets s s1 rest I Ecur C H. unfold finish_body in H.
  destruct (get k (cos s)) as [c|] eqn:G; [|discriminate].
  destruct (if co_hasret c then push_loop k rets 0 s else (MCO_SUCCESS, 0, s)) as [[e p] s0] eqn:P.
  assert (S0 : same_ctl s s0).
  { destruct (co_hasret c); [eapply push_loop_same; eauto|inversion P; subst; apply same_ctl_refl]. }
  destruct (is_success e); [|discriminate].
  destruct (get k (cos s0)) as [c1|] eqn:G1; [|discriminate]. inversion H; subst.
  apply jumpout_chain.
  - eapply same_ctl_Inv; eauto.
  - rewrite (same_ctl_current _ _ S0). assumption.
  - assumption.
  - eapply same_ctl_chain; eauto.
Qed.

Definition no_fuel_line (ls : list line) : Prop := forall l, In l ls -> l_tag l <> "out-of-fuel"%string.

Lemma unwind_fuel : forall fuel rets s ch s' ls,
  Inv s -> chain (cos s) (current s) ch -> List.length ch < fuel ->
  unwind fuel rets s = (s', ls) -> no_fuel_line ls.
Proof.
  induction fuel as [|f IH]; intros rets s ch s' ls I C L H; [lia|]. cbn [unwind] in H.
  destruct (current s) as [k|] eqn:Ecur; [|inversion H; subst; intros l []].
  pose proof (chain_inv _ _ _ C) as CI. simpl in CI. destruct CI as (c & rest & -> & G & _).
  set (s0 := match get k (cos s) with
             | Some c => set_cos s (put k (set_depth c 0) (cos s))
             | None => s end) in *.
  assert (S0 : same_ctl s s0).
  { unfold s0. rewrite G. apply set_depth_same. assumption. }
  pose proof (same_ctl_Inv _ _ S0 I) as I0.
  assert (E0 : current s0 = Some k) by (rewrite (same_ctl_current _ _ S0); assumption).
  pose proof (same_ctl_chain _ _ _ _ S0 C) as C0.
  destruct (body_return k rets s0) as [s1 l1] eqn:B.
  unfold body_return in B. destruct (finish_body k rets s0) as [r s2] eqn:F.
  assert (NL : no_fuel_line l1).
  { destruct r; inversion B; subst; intros l [<-|[<-|[]]]; simpl; discriminate. }
  destruct (halted s1) eqn:Hh; [inversion H; subst; exact NL|].
  destruct (unwind f rets s1) as [s3 l3] eqn:U. inversion H; subst.
  assert (R : r = COk /\ s2 = s1).
  { destruct r; inversion B; subst; [auto| |]; simpl in Hh; discriminate. }
  destruct R as (-> & ->).
  pose proof (finish_body_chain _ _ _ _ _ I0 E0 C0 F) as C1.
  pose proof (finish_body_Inv _ _ _ _ _ I0 E0 F) as I1.
  assert (NL3 : no_fuel_line l3) by (eapply (IH rets s1 rest); eauto; simpl in L; lia).
  intros l Il. apply in_app_or in Il. destruct Il; [apply NL|apply NL3]; assumption.
Qed.

Lemma chain_length_le : forall s ch, Inv s -> chain (cos s) (current s) ch -> List.length ch <= List.length (cos s).
Proof.
  intros s ch I C. pose proof (Inv_chain_NoDup _ _ I C) as N.
  rewrite <- (map_length fst (cos s)). apply NoDup_incl_length; [exact N|].
  intros j Ij. destruct (chain_keys _ _ _ C j Ij) as (c & G). eapply get_Some_in; eauto.
Qed.

(* the end of the script always unwinds every active coroutine back to the main program
   (or stops at a documented panic): the fuel of [unwind] is never exhausted *)
Lemma end_has_fuel : forall rets n s, Inv s -> no_fuel_line (snd (step (OEnd rets n) s)).
Proof.
  intros rets n s I. unfold step. destruct (halted s); [intros l []|].
  destruct (unwind (S (List.length (cos s))) rets s) as [s1 l1] eqn:U.
  pose proof I as (_ & _ & ch & C & _).
  assert (NL : no_fuel_line l1).
  { eapply unwind_fuel; [exact I|exact C| |exact U]. pose proof (chain_length_le _ _ I C). lia. }
  destruct (halted s1); simpl; [exact NL|].
  intros l Il. apply in_app_or in Il. destruct Il as [Il|Il]; [apply NL; assumption|].
  simpl in Il. destruct Il as [<-|Il]; [simpl; discriminate|].
  apply in_map_iff in Il. destruct Il as (k & <- & _). simpl. discriminate.
Qed.
