(* C18 - the byte storage: LIFO, capacity, typed push/pop round trip, rollback. *)
From Coq Require Import List Arith ZArith Bool String Lia.
From C18 Require Import Gen Model ProofsBase.
Import ListNotations.
Local Open Scope list_scope.

(* well-formed storage: the buffer has the declared size, bytes_stored is within it and the
   unused tail is zero (MCO_ZERO_MEMORY) *)
Definition co_wf (c : co) : Prop :=
  List.length (co_buf c) = co_cap c /\ co_stored c <= co_cap c /\
  skipn (co_stored c) (co_buf c) = repeat 0%Z (co_cap c - co_stored c).

(* coroutine c with storage contents st *)
Definition mk_norm (c : co) (st : list Z) : co :=
  set_storage c (st ++ repeat 0%Z (co_cap c - List.length st)) (List.length st).

Lemma firstn_app_len : forall (A : Type) (a b : list A), firstn (List.length a) (a ++ b) = a.
Proof.
  intros. rewrite firstn_app, Nat.sub_diag, firstn_all. simpl. apply app_nil_r.
Qed.

Lemma skipn_app_len : forall (A : Type) (a b : list A), skipn (List.length a) (a ++ b) = b.
Proof.
  intros. rewrite skipn_app, Nat.sub_diag, skipn_all. reflexivity.
Qed.

Lemma set_storage_id : forall c, set_storage c (co_buf c) (co_stored c) = c.
Proof. destruct c; reflexivity. Qed.

Lemma set_storage_twice : forall c b n b' n', set_storage (set_storage c b n) b' n' = set_storage c b' n'.
Proof. reflexivity. Qed.

Lemma storage_length : forall c, co_wf c -> List.length (storage c) = co_stored c.
Proof.
  intros c (H1 & H2 & _). unfold storage. rewrite firstn_length. lia.
Qed.

Lemma wf_norm : forall c, co_wf c -> mk_norm c (storage c) = c.
Proof.
  intros c W. pose proof (storage_length c W) as L. destruct W as (H1 & H2 & H3).
  unfold mk_norm. rewrite L. rewrite <- H3. unfold storage. rewrite firstn_skipn. apply set_storage_id.
Qed.

Lemma norm_storage : forall c st, storage (mk_norm c st) = st.
Proof. intros. unfold storage, mk_norm. simpl. apply firstn_app_len. Qed.

Lemma norm_wf : forall c st, List.length st <= co_cap c -> co_wf (mk_norm c st).
Proof.
  intros c st H. unfold co_wf, mk_norm. simpl. repeat split.
  - rewrite app_length, repeat_length. lia.
  - assumption.
  - apply skipn_app_len.
Qed.

Lemma norm_norm : forall c a b, mk_norm (mk_norm c a) b = mk_norm c b.
Proof. reflexivity. Qed.

Lemma norm_cap : forall c st, co_cap (mk_norm c st) = co_cap c.
Proof. reflexivity. Qed.

Lemma norm_stored : forall c st, co_stored (mk_norm c st) = List.length st.
Proof. reflexivity. Qed.

Lemma norm_buf : forall c st, co_buf (mk_norm c st) = st ++ repeat 0%Z (co_cap c - List.length st).
Proof. reflexivity. Qed.

(* ---- mco_push on one coroutine *)
Lemma push_co_norm : forall c st b,
  List.length st <= co_cap c ->
  mco_push_co (mk_norm c st) (Some b) (List.length b) =
    if Nat.eqb (List.length b) 0 then (MCO_SUCCESS, mk_norm c st)
    else if Nat.ltb (co_cap c) (List.length st + List.length b) then (MCO_NOT_ENOUGH_SPACE, mk_norm c st)
    else (MCO_SUCCESS, mk_norm c (st ++ b)).
Proof.
  intros c st b H. unfold mco_push_co. rewrite norm_cap, norm_stored, norm_buf.
  destruct (Nat.eqb (List.length b) 0) eqn:E0; [reflexivity|].
  destruct (Nat.ltb (co_cap c) (List.length st + List.length b)) eqn:E1; [reflexivity|].
  apply Nat.ltb_ge in E1.
  f_equal. unfold mk_norm. rewrite set_storage_twice. rewrite app_length.
  f_equal.
  rewrite firstn_app_len, firstn_all.
  rewrite skipn_app. rewrite skipn_all2 by lia. simpl.
  replace (List.length st + List.length b - List.length st) with (List.length b) by lia.
  rewrite skipn_repeat. rewrite <- app_assoc. do 2 f_equal. f_equal. lia.
Qed.

(* ---- mco_pop on one coroutine *)
Lemma pop_co_norm : forall c st dest len,
  List.length st <= co_cap c ->
  mco_pop_co (mk_norm c st) dest len =
    if Nat.eqb len 0 then (MCO_SUCCESS, mk_norm c st, [])
    else if Nat.ltb (List.length st) len then (MCO_NOT_ENOUGH_SPACE, mk_norm c st, [])
    else (MCO_SUCCESS, mk_norm c (firstn (List.length st - len) st),
          if dest then skipn (List.length st - len) st else []).
Proof.
  intros c st dest len H. unfold mco_pop_co. rewrite norm_stored, norm_buf.
  destruct (Nat.eqb len 0) eqn:E0; [reflexivity|]. apply Nat.eqb_neq in E0.
  destruct (Nat.ltb (List.length st) len) eqn:E1; [reflexivity|].
  apply Nat.ltb_ge in E1. rewrite zero_memory_on.
  set (n := List.length st - len).
  assert (Hn : n <= List.length st) by (unfold n; lia).
  f_equal; [f_equal|].
  - unfold mk_norm. rewrite set_storage_twice.
    assert (L : List.length (firstn n st) = n) by (rewrite firstn_length; lia).
    rewrite L. f_equal.
    rewrite firstn_app. replace (n - List.length st) with 0 by lia. simpl. rewrite app_nil_r.
    rewrite skipn_app_len. rewrite repeat_app_plus. do 2 f_equal. unfold n. lia.
  - destruct dest; [|reflexivity].
    rewrite skipn_app. replace (n - List.length st) with 0 by lia. simpl.
    rewrite firstn_app. rewrite firstn_all2 by (rewrite skipn_length; unfold n; lia).
    rewrite skipn_length. replace (len - (List.length st - n)) with 0 by (unfold n; lia).
    simpl. apply app_nil_r.
Qed.

Lemma peek_co_norm : forall c st len,
  List.length st <= co_cap c ->
  mco_peek_co (mk_norm c st) true len =
    if Nat.eqb len 0 then (MCO_SUCCESS, [])
    else if Nat.ltb (List.length st) len then (MCO_NOT_ENOUGH_SPACE, [])
    else (MCO_SUCCESS, skipn (List.length st - len) st).
Proof.
  intros c st len H. unfold mco_peek_co. rewrite norm_stored, norm_buf.
  destruct (Nat.eqb len 0) eqn:E0; [reflexivity|]. apply Nat.eqb_neq in E0.
  destruct (Nat.ltb (List.length st) len) eqn:E1; [reflexivity|].
  apply Nat.ltb_ge in E1. simpl. f_equal.
  set (n := List.length st - len).
  rewrite skipn_app. replace (n - List.length st) with 0 by (unfold n; lia). simpl.
  rewrite firstn_app. rewrite firstn_all2 by (rewrite skipn_length; unfold n; lia).
  rewrite skipn_length. replace (len - (List.length st - n)) with 0 by (unfold n; lia).
  simpl. apply app_nil_r.
Qed.

(* LIFO on one coroutine: pop after push returns the same bytes and restores the coroutine *)
Lemma push_pop_co : forall c b c1,
  co_wf c -> mco_push_co c (Some b) (List.length b) = (MCO_SUCCESS, c1) ->
  co_wf c1 /\ storage c1 = storage c ++ b /\ mco_pop_co c1 true (List.length b) = (MCO_SUCCESS, c, b).
Proof.
  intros c b c1 W H.
  pose proof (storage_length c W) as L. pose proof W as (_ & Hc & _).
  rewrite <- (wf_norm c W) in H. rewrite push_co_norm in H by lia.
  destruct (Nat.eqb (List.length b) 0) eqn:E0.
  - apply Nat.eqb_eq in E0. apply length_zero_iff_nil in E0. subst b.
    inversion H; subst c1. rewrite (wf_norm c W). rewrite app_nil_r. split; [exact W|]. split; reflexivity.
  - destruct (Nat.ltb (co_cap c) (List.length (storage c) + List.length b)) eqn:E1; [discriminate|].
    apply Nat.ltb_ge in E1. inversion H; subst c1. clear H.
    split; [apply norm_wf; rewrite app_length; lia|]. split; [apply norm_storage|].
    rewrite pop_co_norm by (rewrite app_length; lia).
    rewrite E0. rewrite app_length.
    replace (Nat.ltb (List.length (storage c) + List.length b) (List.length b)) with false
      by (symmetry; apply Nat.ltb_ge; lia).
    replace (List.length (storage c) + List.length b - List.length b) with (List.length (storage c)) by lia.
    rewrite firstn_app_len, skipn_app_len. rewrite (wf_norm c W). reflexivity.
Qed.

(* ------------------------------------------------------------------ on states *)
(* state s in which the storage contents of coroutine k (record c) are S *)
Definition with_st (s : state) (k : nat) (c : co) (S : list Z) : state :=
  set_cos s (put k (mk_norm c S) (cos s)).

Lemma set_cos_id : forall s, set_cos s (cos s) = s.
Proof. destruct s; reflexivity. Qed.

Lemma ws_get : forall s k c S, get k (cos (with_st s k c S)) = Some (mk_norm c S).
Proof. intros. unfold with_st. simpl. apply get_put_same. Qed.

Lemma ws_get_other : forall s k c S j, k <> j -> get j (cos (with_st s k c S)) = get j (cos s).
Proof. intros. unfold with_st. simpl. apply get_put_other. assumption. Qed.

Lemma ws_put : forall s k c S S',
  set_cos (with_st s k c S) (put k (mk_norm c S') (cos (with_st s k c S))) = with_st s k c S'.
Proof. intros. unfold with_st. simpl. rewrite put_put. reflexivity. Qed.

Lemma ws_id : forall s k c, get k (cos s) = Some c -> co_wf c -> with_st s k c (storage c) = s.
Proof.
  intros s k c G W. unfold with_st. rewrite (wf_norm c W). rewrite put_get_id by assumption. apply set_cos_id.
Qed.

Lemma ws_self : forall s k c S, set_cos (with_st s k c S) (put k (mk_norm c S) (cos (with_st s k c S))) = with_st s k c S.
Proof. intros. apply ws_put. Qed.

Lemma mco_push_ws : forall s k c S b,
  List.length S <= co_cap c ->
  mco_push k (Some b) (List.length b) (with_st s k c S) =
    if Nat.eqb (List.length b) 0 then (MCO_SUCCESS, with_st s k c S)
    else if Nat.ltb (co_cap c) (List.length S + List.length b) then (MCO_NOT_ENOUGH_SPACE, with_st s k c S)
    else (MCO_SUCCESS, with_st s k c (S ++ b)).
Proof.
  intros s k c S b H. unfold mco_push. rewrite ws_get. rewrite push_co_norm by assumption.
  destruct (Nat.eqb (List.length b) 0).
  - simpl. rewrite ws_self. reflexivity.
  - destruct (Nat.ltb (co_cap c) (List.length S + List.length b)); simpl; [reflexivity|].
    rewrite ws_put. reflexivity.
Qed.

Lemma mco_pop_ws : forall s k c S dest len,
  List.length S <= co_cap c ->
  mco_pop k dest len (with_st s k c S) =
    if Nat.eqb len 0 then (MCO_SUCCESS, with_st s k c S, [])
    else if Nat.ltb (List.length S) len then (MCO_NOT_ENOUGH_SPACE, with_st s k c S, [])
    else (MCO_SUCCESS, with_st s k c (firstn (List.length S - len) S),
          if dest then skipn (List.length S - len) S else []).
Proof.
  intros s k c S dest len H. unfold mco_pop. rewrite ws_get. rewrite pop_co_norm by assumption.
  destruct (Nat.eqb len 0).
  - simpl. rewrite ws_self. reflexivity.
  - destruct (Nat.ltb (List.length S) len); simpl; [reflexivity|].
    rewrite ws_put. reflexivity.
Qed.

Lemma mco_peek_ws : forall s k c S len,
  List.length S <= co_cap c ->
  mco_peek k true len (with_st s k c S) =
    if Nat.eqb len 0 then (MCO_SUCCESS, [])
    else if Nat.ltb (List.length S) len then (MCO_NOT_ENOUGH_SPACE, [])
    else (MCO_SUCCESS, skipn (List.length S - len) S).
Proof.
  intros. unfold mco_peek. rewrite ws_get. apply peek_co_norm. assumption.
Qed.

(* what the loop of coroutine.push / of the return wrapper does to the contents *)
Fixpoint fit (cap : nat) (S : list Z) (vals : list (list Z)) : list Z * mres :=
  match vals with
  | [] => (S, MCO_SUCCESS)
  | v :: r =>
    if Nat.eqb (List.length v) 0 then fit cap S r
    else if Nat.ltb cap (List.length S + List.length v) then (S, MCO_NOT_ENOUGH_SPACE)
    else fit cap (S ++ v) r
  end.

Lemma fit_spec : forall cap vals S, List.length S <= cap ->
  exists t, fst (fit cap S vals) = S ++ t /\ List.length (S ++ t) <= cap /\
            (snd (fit cap S vals) = MCO_SUCCESS -> t = List.concat vals) /\
            (snd (fit cap S vals) = MCO_SUCCESS \/ snd (fit cap S vals) = MCO_NOT_ENOUGH_SPACE).
Proof.
  intros cap vals. induction vals as [|v r IH]; intros S H; simpl.
  - exists []. rewrite app_nil_r. auto.
  - destruct (Nat.eqb (List.length v) 0) eqn:E0.
    + apply Nat.eqb_eq in E0. apply length_zero_iff_nil in E0. subst v. simpl. apply IH; assumption.
    + destruct (Nat.ltb cap (List.length S + List.length v)) eqn:E1.
      * exists []. rewrite app_nil_r. simpl. repeat split; auto. discriminate.
      * apply Nat.ltb_ge in E1.
        destruct (IH (S ++ v)) as (t & A & B & C & D); [rewrite app_length; lia|].
        exists (v ++ t). rewrite app_assoc. repeat split; auto.
        intro X. rewrite (C X). reflexivity.
Qed.

Lemma push_loop_ws : forall s k c vals S pushed,
  List.length S <= co_cap c ->
  push_loop k vals pushed (with_st s k c S) =
    (snd (fit (co_cap c) S vals),
     pushed + (List.length (fst (fit (co_cap c) S vals)) - List.length S),
     with_st s k c (fst (fit (co_cap c) S vals))).
Proof.
  intros s k c vals. induction vals as [|v r IH]; intros S pushed H.
  - simpl. rewrite Nat.sub_diag, Nat.add_0_r. reflexivity.
  - cbn [push_loop fit]. rewrite mco_push_ws by assumption.
    destruct (Nat.eqb (List.length v) 0) eqn:E0.
    + cbn [is_success]. rewrite IH by assumption. apply Nat.eqb_eq in E0. rewrite E0. rewrite Nat.add_0_r. reflexivity.
    + destruct (Nat.ltb (co_cap c) (List.length S + List.length v)) eqn:E1.
      * cbn [is_success fst snd]. rewrite Nat.sub_diag, Nat.add_0_r. reflexivity.
      * cbn [is_success]. apply Nat.ltb_ge in E1. rewrite IH by (rewrite app_length; lia).
        destruct (fit_spec (co_cap c) r (S ++ v)) as (t & A & B & _); [rewrite app_length; lia|].
        rewrite A. f_equal. f_equal. rewrite !app_length. rewrite !app_length in B. lia.
Qed.

(* coroutine.push: all values or none *)
Lemma co_push_ws : forall s k c vals S,
  List.length S <= co_cap c ->
  co_push k vals (with_st s k c S) =
    match snd (fit (co_cap c) S vals) with
    | MCO_SUCCESS => (COk, with_st s k c (S ++ List.concat vals))
    | e => (CErr e, with_st s k c S)
    end.
Proof.
  intros s k c vals S H. unfold co_push. rewrite push_loop_ws by assumption.
  destruct (fit_spec (co_cap c) vals S H) as (t & A & B & C & D).
  rewrite A. destruct D as [D|D]; rewrite D in *; cbn [is_success].
  - rewrite (C eq_refl). reflexivity.
  - rewrite mco_pop_ws by assumption. rewrite !app_length.
    replace (0 + (List.length S + List.length t - List.length S)) with (List.length t) by lia.
    destruct (Nat.eqb (List.length t) 0) eqn:E0.
    + apply Nat.eqb_eq in E0. apply length_zero_iff_nil in E0. subst t. rewrite app_nil_r. reflexivity.
    + replace (Nat.ltb (List.length S + List.length t) (List.length t)) with false
        by (symmetry; apply Nat.ltb_ge; lia).
      replace (List.length S + List.length t - List.length t) with (List.length S) by lia.
      rewrite firstn_app_len. reflexivity.
Qed.

Lemma pop_loop_ws_ok : forall s k c vs S acc,
  List.length (S ++ List.concat vs) <= co_cap c ->
  pop_loop k (rev (map (@List.length Z) vs)) acc (with_st s k c (S ++ List.concat vs)) =
    (MCO_SUCCESS, vs ++ acc, with_st s k c S).
Proof.
  intros s k c vs. induction vs as [|v r IH] using rev_ind; intros S acc H.
  - simpl. rewrite app_nil_r. reflexivity.
  - rewrite map_app, rev_app_distr. simpl rev. cbn [app pop_loop].
    rewrite concat_app in *. simpl List.concat in *. rewrite app_nil_r in *.
    rewrite app_assoc in *.
    rewrite mco_pop_ws by assumption.
    destruct (Nat.eqb (List.length v) 0) eqn:E0.
    + apply Nat.eqb_eq in E0. apply length_zero_iff_nil in E0. subst v. cbn [is_success].
      rewrite app_nil_r in *. rewrite IH by assumption. rewrite <- app_assoc. reflexivity.
    + rewrite (app_length (S ++ List.concat r) v).
      replace (Nat.ltb (List.length (S ++ List.concat r) + List.length v) (List.length v)) with false
        by (symmetry; apply Nat.ltb_ge; lia).
      cbn [is_success].
      replace (List.length (S ++ List.concat r) + List.length v - List.length v) with (List.length (S ++ List.concat r)) by lia.
      rewrite firstn_app_len, skipn_app_len.
      rewrite IH by (rewrite app_length in H; lia). rewrite <- app_assoc. reflexivity.
Qed.

(* typed round trip: coroutine.pop after coroutine.push returns the same values and restores the state *)
Lemma co_push_pop_ws : forall s k c vs S s1,
  List.length S <= co_cap c ->
  co_push k vs (with_st s k c S) = (COk, s1) ->
  co_pop k (map (@List.length Z) vs) s1 = (COk, vs, with_st s k c S).
Proof.
  intros s k c vs S s1 H P. rewrite co_push_ws in P by assumption.
  destruct (fit_spec (co_cap c) vs S H) as (t & A & B & C & D).
  destruct (snd (fit (co_cap c) S vs)) eqn:E; try discriminate.
  inversion P; subst s1. rewrite (C eq_refl) in B.
  unfold co_pop. rewrite pop_loop_ws_ok by assumption. rewrite app_nil_r. reflexivity.
Qed.
