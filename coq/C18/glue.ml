(* Local replacement for ocaml/zutil.ml: the extracted model of C18 contains Coq's [string]
   inductive, which shadows OCaml's [string] after [open Model]; this file is the part of
   zutil.ml the C18 driver needs, with OCaml strings written [String.t]. *)
open Model

let rec nat_of_int (i : int) : nat = if i <= 0 then O else S (nat_of_int (i - 1))
let rec int_of_nat (x : nat) : int = match x with O -> 0 | S y -> 1 + int_of_nat y

let rec int_of_pos (p : positive) : int =
  match p with XH -> 1 | XO q -> 2 * int_of_pos q | XI q -> (2 * int_of_pos q) + 1

let int_of_z (x : z) : int = match x with Z0 -> 0 | Zpos p -> int_of_pos p | Zneg p -> -int_of_pos p

let rec pos_of_int (i : int) : positive =
  if i <= 1 then XH else if i land 1 = 0 then XO (pos_of_int (i lsr 1)) else XI (pos_of_int (i lsr 1))

let z_of_int (i : int) : z = if i = 0 then Z0 else if i > 0 then Zpos (pos_of_int i) else Zneg (pos_of_int (-i))

let hexbytes_of_zlist (l : z list) : String.t =
  String.concat "" (List.map (fun x -> Printf.sprintf "%02x" (int_of_z x land 255)) l)

let split_ws (s : String.t) : String.t list = List.filter (fun x -> x <> "") (String.split_on_char ' ' s)

let iter_lines (f : String.t -> unit) : unit =
  try
    while true do
      f (input_line stdin)
    done
  with End_of_file -> ()

let rec coqstr (s : Model.string) : String.t =
  match s with
  | EmptyString -> ""
  | String (Ascii (b0, b1, b2, b3, b4, b5, b6, b7), r) ->
    let bit b i = if b then 1 lsl i else 0 in
    let c = bit b0 0 + bit b1 1 + bit b2 2 + bit b3 3 + bit b4 4 + bit b5 5 + bit b6 6 + bit b7 7 in
    String.make 1 (Char.chr c) ^ coqstr r
