(* Base.CInt - C integer semantics over Z, shared by C04 / C02 / C01 / C03 / C09.

   STABLE INTERFACE (names other sub-projects may rely on)
   -------------------------------------------------------
   Types        ity = {| bits : Z; sgn : bool |}     sgn = true for signed
                I8 I16 I32 I64 U8 U16 U32 U64, all_ity, wf_ity / wf_ityb (bits in {8,16,32,64})
                to_signed t, to_unsigned t, ity_eqb
   Ranges       tmin t, tmax t, tmod t (= 2^bits: tmod_eq), thalf t (= 2^(bits-1): thalf_eq),
                in_range t x : Prop, in_rangeb t x : bool (reflected by in_rangeb_spec)
   Wrap         wrap t x    two's complement reduction of any integer into the range of t
   Modes        cmode = Strict | Wrapv | Gnu
                  Strict : ISO C11, signed overflow in + - * and unary - is undefined (None)
                  Wrapv  : ISO C11 + -fwrapv (what the Nelua compiler always passes: cdefs.lua
                           cflags_base): + - * unary- on signed operands wrap; everything else ISO:
                           out-of-range conversion to a signed type, >> of a negative value are
                           implementation-defined and << of a negative value / overflowing << is
                           undefined - all three are None here
                  Gnu    : Wrapv + what gcc and clang document: conversion to a signed type is
                           modular, >> on signed is arithmetic, << on signed operates on the
                           two's complement representation (wraps)
                In every mode: x/0, x%0, INT_MIN/-1, INT_MIN%-1, shift count <0 or >= width
                of the promoted left operand are None.
   Conversions  promote t                     integer promotions (int = 32 bits: everything narrower
                                              than 32 bits becomes I32)
                uac t1 t2                     usual arithmetic conversions (common type)
                c_conv m t x                  conversion of the integer value x to type t (as in
                                              assignment / argument passing / return / cast)
                c_cast = c_conv               (an explicit cast has the same semantics in C)
   Operators    all take the mode, the two operand *types* and the operand *values* (each value
                must lie in the range of its type) and return option Z, None = undefined /
                not portable in that mode.  The type of the result is given by
                  c_arith_type t1 t2 = uac (promote t1) (promote t2)   for + - * / % & | ^ < <= == ...
                  c_shift_type t1    = promote t1                      for << >>
                  c_unop_type t      = promote t                       for unary - ~
                c_add c_sub c_mul c_div c_mod c_and c_or c_xor c_shl c_shr
                c_neg c_not (unary, take one type)
                c_lt c_le c_gt c_ge c_eq c_ne  (return Some 1 / Some 0)
   Option glue  obind (x >>= f), omap
   Lemmas       wrap_range wrap_id wrap_idem wrap_mod wrap_eqm wrap_add_l/r wrap_sub_l/r
                wrap_mul_l/r wrap_neg_inner wrap_unsigned wrap_signed_nonneg
                in_range_promote in_range_uac_l/r (value preservation of the conversions when
                the common type is signed), c_conv_gnu, c_conv_inrange, c_conv_unsigned,
                c_add_modular c_sub_modular c_mul_modular (Wrapv/Gnu: result = wrap T (exact)),
                c_cmp_exact_same_sign, wf_ity_cases, all_ity_complete.

   Every lemma is stated for all well-formed types (wf_ity t) and all integers.

   MINI-C (second half of the file): abstract syntax of the C fragment the Nelua code generator
   emits in its run-time helpers, evaluated with the operators above.
     cexpr   Evar n | Elit t v | Ecast t e | Eun o e | Ebin o a b | Eland a b | Elor a b
             | Econd c a b           (variables are indices into the environment)
     cstmt   Sret e | Spanic msg | Sskip | Sif c th el | Sseq a b | Sdecl t e rest
     cfun    {| fparams : list ity; fret : ity; fbody : cstmt |}
     cexpr_ok / cstmt_ok / cfun_ok : bool               every literal lies in the range of its
                                                        (well-formed) type, every cast/decl type is
                                                        well-formed (ceval does not re-check this)
     ctypeof tys e : option ity                         static C type of an expression
     ceval m tys vals e : option Z                      value of e (variables: types tys, values vals);
                                                        None = undefined behaviour in mode m
     cexec m tys vals s : cres   (Rnormal | Rret v | Rpanic msg | Rub)
     ccall m f args : outcome (Oval v | Opanic msg | Oub)   arguments are converted to the
             parameter types, the result to the return type, as C does at a call
     cexpr_eqb / cstmt_eqb / cfun_eqb                    structural equality (for comparing a
             model-generated helper with the one scraped from the generated C) + soundness lemmas *)
From Coq Require Export ZArith List Lia Bool.
From Coq Require Import ZifyBool.
Export ListNotations.
Local Open Scope Z_scope.

Ltac Zify.zify_post_hook ::= Z.div_mod_to_equations.

(* ------------------------------------------------------------------ types *)

Record ity : Type := mkity { bits : Z; sgn : bool }.

Definition I8 := mkity 8 true.
Definition I16 := mkity 16 true.
Definition I32 := mkity 32 true.
Definition I64 := mkity 64 true.
Definition U8 := mkity 8 false.
Definition U16 := mkity 16 false.
Definition U32 := mkity 32 false.
Definition U64 := mkity 64 false.

Definition all_ity : list ity := [I8; I16; I32; I64; U8; U16; U32; U64].

Definition ity_eqb (a b : ity) : bool := (bits a =? bits b) && Bool.eqb (sgn a) (sgn b).

Definition wf_ityb (t : ity) : bool :=
  (bits t =? 8) || (bits t =? 16) || (bits t =? 32) || (bits t =? 64).
Definition wf_ity (t : ity) : Prop := wf_ityb t = true.

Definition to_signed (t : ity) : ity := mkity (bits t) true.
Definition to_unsigned (t : ity) : ity := mkity (bits t) false.

(* 2^n with the exponents of the well-formed types spelled out as numerals, so that symbolic
   evaluation (cbv with Z.pow kept opaque) still produces numerals *)
Definition pow2 (n : Z) : Z :=
  match n with
  | 8 => 256 | 16 => 65536 | 32 => 4294967296 | 64 => 18446744073709551616
  | _ => 2 ^ n
  end.
Definition pow2h (n : Z) : Z :=
  match n with
  | 8 => 128 | 16 => 32768 | 32 => 2147483648 | 64 => 9223372036854775808
  | _ => 2 ^ (n - 1)
  end.
Definition tmod (t : ity) : Z := pow2 (bits t).
Definition thalf (t : ity) : Z := pow2h (bits t).
Definition tmin (t : ity) : Z := if sgn t then - thalf t else 0.
Definition tmax (t : ity) : Z := if sgn t then thalf t - 1 else tmod t - 1.

Definition in_range (t : ity) (x : Z) : Prop := tmin t <= x <= tmax t.
Definition in_rangeb (t : ity) (x : Z) : bool := (tmin t <=? x) && (x <=? tmax t).

(* two's complement reduction *)
Definition wrap (t : ity) (x : Z) : Z :=
  if sgn t then (x + thalf t) mod tmod t - thalf t else x mod tmod t.

(* ------------------------------------------------------------------ modes, option glue *)

Inductive cmode : Type := Strict | Wrapv | Gnu.

Definition is_gnu (m : cmode) : bool := match m with Gnu => true | _ => false end.
Definition is_strict (m : cmode) : bool := match m with Strict => true | _ => false end.

Definition obind {A B} (o : option A) (f : A -> option B) : option B :=
  match o with Some x => f x | None => None end.
Definition omap {A B} (f : A -> B) (o : option A) : option B :=
  match o with Some x => Some (f x) | None => None end.

(* ------------------------------------------------------------------ conversions *)

Definition INT_BITS : Z := 32.

(* comparisons used on type widths only: defined through Z.compare so that symbolic evaluation
   which keeps Z.ltb/Z.leb opaque (they occur on symbolic values) still computes on types *)
Definition bits_ltb (a b : Z) : bool := match a ?= b with Lt => true | _ => false end.
Definition bits_leb (a b : Z) : bool := match a ?= b with Gt => false | _ => true end.
Lemma bits_ltb_spec a b : bits_ltb a b = (a <? b). Proof. reflexivity. Qed.
Lemma bits_leb_spec a b : bits_leb a b = (a <=? b). Proof. reflexivity. Qed.

(* integer promotions: types whose rank is below int are converted to int (int can represent
   all their values since they are narrower) *)
Definition promote (t : ity) : ity := if bits_ltb (bits t) INT_BITS then I32 else t.

(* usual arithmetic conversions on already promoted types.  With 32/64-bit ranks: equal
   signedness -> the wider; otherwise if the unsigned type is at least as wide it wins,
   else the (wider) signed type can represent every value of the unsigned one and wins *)
Definition uac (a b : ity) : ity :=
  if Bool.eqb (sgn a) (sgn b) then (if bits_ltb (bits a) (bits b) then b else a)
  else
    let u := if sgn a then b else a in
    let s := if sgn a then a else b in
    if bits_leb (bits s) (bits u) then u else s.

Definition c_arith_type (t1 t2 : ity) : ity := uac (promote t1) (promote t2).
Definition c_shift_type (t1 : ity) : ity := promote t1.
Definition c_unop_type (t : ity) : ity := promote t.

(* conversion of an integer value to an integer type (6.3.1.3) *)
Definition c_conv (m : cmode) (t : ity) (x : Z) : option Z :=
  if sgn t then
    if is_gnu m then Some (wrap t x)
    else if in_rangeb t x then Some x else None
  else Some (x mod tmod t).
Definition c_cast := c_conv.

(* result of a signed arithmetic operation whose exact value is r *)
Definition c_arith_result (m : cmode) (t : ity) (r : Z) : option Z :=
  if sgn t then
    if is_strict m then (if in_rangeb t r then Some r else None) else Some (wrap t r)
  else Some (r mod tmod t).

(* both operands converted to the common type; these conversions are always defined *)
Definition c_operands (t1 t2 : ity) (a b : Z) : ity * Z * Z :=
  let t := c_arith_type t1 t2 in (t, wrap t a, wrap t b).

Definition c_add (m : cmode) (t1 t2 : ity) (a b : Z) : option Z :=
  let '(t, a', b') := c_operands t1 t2 a b in c_arith_result m t (a' + b').
Definition c_sub (m : cmode) (t1 t2 : ity) (a b : Z) : option Z :=
  let '(t, a', b') := c_operands t1 t2 a b in c_arith_result m t (a' - b').
Definition c_mul (m : cmode) (t1 t2 : ity) (a b : Z) : option Z :=
  let '(t, a', b') := c_operands t1 t2 a b in c_arith_result m t (a' * b').

(* / and % truncate toward zero; division by zero and INT_MIN / -1 are undefined in all modes *)
Definition c_div (m : cmode) (t1 t2 : ity) (a b : Z) : option Z :=
  let '(t, a', b') := c_operands t1 t2 a b in
  if b' =? 0 then None
  else if sgn t && (a' =? tmin t) && (b' =? -1) then None
  else Some (Z.quot a' b').
Definition c_mod (m : cmode) (t1 t2 : ity) (a b : Z) : option Z :=
  let '(t, a', b') := c_operands t1 t2 a b in
  if b' =? 0 then None
  else if sgn t && (a' =? tmin t) && (b' =? -1) then None
  else Some (Z.rem a' b').

(* bitwise operators on the two's complement representation: Z.land/lor/lxor on (possibly
   negative) Z already are the infinite two's complement operations *)
Definition c_and (m : cmode) (t1 t2 : ity) (a b : Z) : option Z :=
  let '(t, a', b') := c_operands t1 t2 a b in Some (wrap t (Z.land a' b')).
Definition c_or (m : cmode) (t1 t2 : ity) (a b : Z) : option Z :=
  let '(t, a', b') := c_operands t1 t2 a b in Some (wrap t (Z.lor a' b')).
Definition c_xor (m : cmode) (t1 t2 : ity) (a b : Z) : option Z :=
  let '(t, a', b') := c_operands t1 t2 a b in Some (wrap t (Z.lxor a' b')).

(* shifts: each operand is promoted separately, the result has the promoted left type *)
Definition c_shl (m : cmode) (t1 t2 : ity) (a b : Z) : option Z :=
  let t := c_shift_type t1 in
  if (b <? 0) || (bits t <=? b) then None
  else if sgn t then
    if is_gnu m then Some (wrap t (a * 2 ^ b))
    else if (0 <=? a) && in_rangeb t (a * 2 ^ b) then Some (a * 2 ^ b) else None
  else Some ((a * 2 ^ b) mod tmod t).
Definition c_shr (m : cmode) (t1 t2 : ity) (a b : Z) : option Z :=
  let t := c_shift_type t1 in
  if (b <? 0) || (bits t <=? b) then None
  else if sgn t && (a <? 0) then
    if is_gnu m then Some (a / 2 ^ b) else None
  else Some (a / 2 ^ b).

Definition c_neg (m : cmode) (t : ity) (a : Z) : option Z :=
  let t' := c_unop_type t in c_arith_result m t' (- wrap t' a).
Definition c_not (m : cmode) (t : ity) (a : Z) : option Z :=
  let t' := c_unop_type t in Some (wrap t' (Z.lnot (wrap t' a))).

Definition zb (b : bool) : Z := if b then 1 else 0.

Definition c_lt (m : cmode) (t1 t2 : ity) (a b : Z) : option Z :=
  let '(t, a', b') := c_operands t1 t2 a b in Some (zb (a' <? b')).
Definition c_le (m : cmode) (t1 t2 : ity) (a b : Z) : option Z :=
  let '(t, a', b') := c_operands t1 t2 a b in Some (zb (a' <=? b')).
Definition c_gt (m : cmode) (t1 t2 : ity) (a b : Z) : option Z :=
  let '(t, a', b') := c_operands t1 t2 a b in Some (zb (b' <? a')).
Definition c_ge (m : cmode) (t1 t2 : ity) (a b : Z) : option Z :=
  let '(t, a', b') := c_operands t1 t2 a b in Some (zb (b' <=? a')).
Definition c_eq (m : cmode) (t1 t2 : ity) (a b : Z) : option Z :=
  let '(t, a', b') := c_operands t1 t2 a b in Some (zb (a' =? b')).
Definition c_ne (m : cmode) (t1 t2 : ity) (a b : Z) : option Z :=
  let '(t, a', b') := c_operands t1 t2 a b in Some (zb (negb (a' =? b'))).

(* ------------------------------------------------------------------ tactics *)

Lemma wf_ity_cases t : wf_ity t ->
  t = I8 \/ t = I16 \/ t = I32 \/ t = I64 \/ t = U8 \/ t = U16 \/ t = U32 \/ t = U64.
Proof.
  destruct t as [b s]. unfold wf_ity, wf_ityb. cbn [bits]. intros H.
  assert (b = 8 \/ b = 16 \/ b = 32 \/ b = 64) as Hb by lia.
  destruct s; unfold I8, I16, I32, I64, U8, U16, U32, U64;
    destruct Hb as [-> | [-> | [-> | ->]]]; tauto.
Qed.

Lemma all_ity_complete t : wf_ity t <-> In t all_ity.
Proof.
  split.
  - intros H. apply wf_ity_cases in H. unfold all_ity. cbn [In].
    destruct H as [-> | [-> | [-> | [-> | [-> | [-> | [-> | ->]]]]]]]; tauto.
  - unfold all_ity. cbn [In].
    intros [<- | [<- | [<- | [<- | [<- | [<- | [<- | [<- | []]]]]]]]]; reflexivity.
Qed.

(* split a goal over the eight concrete types *)
Ltac ity_cases t H :=
  let H' := fresh in
  pose proof (wf_ity_cases t H) as H';
  destruct H' as [-> | [-> | [-> | [-> | [-> | [-> | [-> | ->]]]]]]].

(* expose the numeric constants of concrete types (goal only: keep hypotheses about the
   type in the goal when calling it).  Operations on numerals are evaluated, everything
   mentioning a variable is left alone for lia. *)
Ltac is_num r := match r with Z0 => idtac | Zpos _ => idtac | Zneg _ => idtac end.
Ltac is_bool r := match r with true => idtac | false => idtac end.

(* one step: replace an arithmetic operation / comparison whose arguments are numerals by its
   value (never calls vm_compute on a term with variables: the VM's readback of a stuck
   Pos.compare against a 64-bit constant is exponential) *)
Ltac z_eval_closed_step :=
  match goal with
  | |- context [Z.ltb ?a ?b] =>
      is_num a; is_num b; let r := eval vm_compute in (Z.ltb a b) in change (Z.ltb a b) with r
  | |- context [Z.leb ?a ?b] =>
      is_num a; is_num b; let r := eval vm_compute in (Z.leb a b) in change (Z.leb a b) with r
  | |- context [Z.eqb ?a ?b] =>
      is_num a; is_num b; let r := eval vm_compute in (Z.eqb a b) in change (Z.eqb a b) with r
  | |- context [Z.opp ?a] =>
      is_num a; let r := eval vm_compute in (Z.opp a) in change (Z.opp a) with r
  | |- context [Z.sub ?a ?b] =>
      is_num a; is_num b; let r := eval vm_compute in (Z.sub a b) in change (Z.sub a b) with r
  | |- context [Z.add ?a ?b] =>
      is_num a; is_num b; let r := eval vm_compute in (Z.add a b) in change (Z.add a b) with r
  | |- context [Z.mul ?a ?b] =>
      is_num a; is_num b; let r := eval vm_compute in (Z.mul a b) in change (Z.mul a b) with r
  | |- context [Z.pow ?a ?b] =>
      is_num a; is_num b; let r := eval vm_compute in (Z.pow a b) in change (Z.pow a b) with r
  | |- context [Z.lxor ?a ?b] =>
      is_num a; is_num b; let r := eval vm_compute in (Z.lxor a b) in change (Z.lxor a b) with r
  | |- context [Z.land ?a ?b] =>
      is_num a; is_num b; let r := eval vm_compute in (Z.land a b) in change (Z.land a b) with r
  | |- context [Z.lor ?a ?b] =>
      is_num a; is_num b; let r := eval vm_compute in (Z.lor a b) in change (Z.lor a b) with r
  | |- context [Z.lnot ?a] =>
      is_num a; let r := eval vm_compute in (Z.lnot a) in change (Z.lnot a) with r
  | |- context [Z.quot ?a ?b] =>
      is_num a; is_num b; let r := eval vm_compute in (Z.quot a b) in change (Z.quot a b) with r
  | |- context [Z.rem ?a ?b] =>
      is_num a; is_num b; let r := eval vm_compute in (Z.rem a b) in change (Z.rem a b) with r
  | |- context [Z.div ?a ?b] =>
      is_num a; is_num b; let r := eval vm_compute in (Z.div a b) in change (Z.div a b) with r
  | |- context [Z.modulo ?a ?b] =>
      is_num a; is_num b; let r := eval vm_compute in (Z.modulo a b) in change (Z.modulo a b) with r
  | |- context [Z.shiftl ?a ?b] =>
      is_num a; is_num b; let r := eval vm_compute in (Z.shiftl a b) in change (Z.shiftl a b) with r
  | |- context [Z.shiftr ?a ?b] =>
      is_num a; is_num b; let r := eval vm_compute in (Z.shiftr a b) in change (Z.shiftr a b) with r
  end.
Ltac ity_eval_closed := repeat (z_eval_closed_step; cbv beta iota).

Ltac ity_norm :=
  cbv [in_range in_rangeb wrap tmin tmax tmod thalf pow2 pow2h bits sgn I8 I16 I32 I64 U8 U16 U32 U64
       promote uac c_arith_type c_shift_type c_unop_type INT_BITS to_signed to_unsigned
       Bool.eqb bits_ltb bits_leb Z.compare Pos.compare Pos.compare_cont];
  ity_eval_closed.

(* ------------------------------------------------------------------ basic facts *)

Lemma in_rangeb_spec t x : in_rangeb t x = true <-> in_range t x.
Proof. unfold in_rangeb, in_range. lia. Qed.

Lemma in_rangeb_false t x : in_rangeb t x = false <-> ~ in_range t x.
Proof. unfold in_rangeb, in_range. lia. Qed.

Lemma tmod_eq t : wf_ity t -> tmod t = 2 ^ bits t.
Proof. intros H. ity_cases t H; reflexivity. Qed.
Lemma thalf_eq t : wf_ity t -> thalf t = 2 ^ (bits t - 1).
Proof. intros H. ity_cases t H; reflexivity. Qed.

Lemma tmod_pos t : wf_ity t -> 0 < tmod t.
Proof. intros H. ity_cases t H; ity_norm; lia. Qed.

Lemma tmod_thalf t : wf_ity t -> tmod t = 2 * thalf t.
Proof. intros H. ity_cases t H; ity_norm; lia. Qed.

Lemma tmin_le_tmax t : wf_ity t -> tmin t <= 0 <= tmax t.
Proof. intros H. ity_cases t H; ity_norm; lia. Qed.

Lemma trange_size t : wf_ity t -> tmax t - tmin t + 1 = tmod t.
Proof. intros H. ity_cases t H; ity_norm; lia. Qed.

Lemma wrap_range t x : wf_ity t -> in_range t (wrap t x).
Proof. intros H. ity_cases t H; ity_norm; lia. Qed.

Lemma wrap_id t x : wf_ity t -> in_range t x -> wrap t x = x.
Proof. intros H. ity_cases t H; ity_norm; lia. Qed.

Lemma wrap_idem t x : wf_ity t -> wrap t (wrap t x) = wrap t x.
Proof. intros H. apply wrap_id; [exact H | apply wrap_range; exact H]. Qed.

Lemma wrap_mod t x : wf_ity t -> wrap t x mod tmod t = x mod tmod t.
Proof. intros H. ity_cases t H; ity_norm; lia. Qed.

Lemma wrap_eqm t x y : wf_ity t -> x mod tmod t = y mod tmod t -> wrap t x = wrap t y.
Proof. intros H. ity_cases t H; ity_norm; lia. Qed.

Lemma wrap_eqm_iff t x y : wf_ity t -> (wrap t x = wrap t y <-> x mod tmod t = y mod tmod t).
Proof.
  intros H. split; [|apply wrap_eqm; exact H].
  intros E. rewrite <- (wrap_mod t x H), <- (wrap_mod t y H), E. reflexivity.
Qed.

Lemma wrap_unsigned t x : sgn t = false -> wrap t x = x mod tmod t.
Proof. unfold wrap. intros ->. reflexivity. Qed.

Lemma wrap_inj_range t x y : wf_ity t -> in_range t x -> in_range t y ->
  x mod tmod t = y mod tmod t -> x = y.
Proof.
  intros H Hx Hy E. rewrite <- (wrap_id t x H Hx), <- (wrap_id t y H Hy).
  apply wrap_eqm; assumption.
Qed.

Lemma wrap_add_l t a b : wf_ity t -> wrap t (wrap t a + b) = wrap t (a + b).
Proof.
  intros H. apply wrap_eqm; [exact H|].
  rewrite Z.add_mod by (pose proof (tmod_pos t H); lia).
  rewrite wrap_mod by exact H.
  rewrite <- Z.add_mod by (pose proof (tmod_pos t H); lia). reflexivity.
Qed.
Lemma wrap_add_r t a b : wf_ity t -> wrap t (a + wrap t b) = wrap t (a + b).
Proof. intros H. rewrite (Z.add_comm a), wrap_add_l, Z.add_comm by exact H. reflexivity. Qed.

Lemma wrap_neg_inner t a : wf_ity t -> wrap t (- wrap t a) = wrap t (- a).
Proof.
  intros H. apply wrap_eqm; [exact H|].
  pose proof (tmod_pos t H) as Hp.
  pose proof (wrap_mod t a H) as E.
  replace (- wrap t a) with (0 - wrap t a) by lia. replace (- a) with (0 - a) by lia.
  rewrite Zminus_mod, E, <- Zminus_mod. reflexivity.
Qed.

Lemma wrap_sub_l t a b : wf_ity t -> wrap t (wrap t a - b) = wrap t (a - b).
Proof. intros H. unfold Z.sub. apply wrap_add_l; exact H. Qed.
Lemma wrap_sub_r t a b : wf_ity t -> wrap t (a - wrap t b) = wrap t (a - b).
Proof.
  intros H. unfold Z.sub. rewrite <- wrap_add_r by exact H.
  rewrite wrap_neg_inner by exact H. apply wrap_add_r; exact H.
Qed.

Lemma wrap_mul_l t a b : wf_ity t -> wrap t (wrap t a * b) = wrap t (a * b).
Proof.
  intros H. apply wrap_eqm; [exact H|].
  pose proof (tmod_pos t H) as Hp.
  rewrite Z.mul_mod by lia. rewrite wrap_mod by exact H.
  rewrite <- Z.mul_mod by lia. reflexivity.
Qed.
Lemma wrap_mul_r t a b : wf_ity t -> wrap t (a * wrap t b) = wrap t (a * b).
Proof. intros H. rewrite (Z.mul_comm a), wrap_mul_l, Z.mul_comm by exact H. reflexivity. Qed.

Lemma wrap_add_mod t a k : wf_ity t -> wrap t (a + k * tmod t) = wrap t a.
Proof.
  intros H. apply wrap_eqm; [exact H|]. pose proof (tmod_pos t H). apply Z.mod_add. lia.
Qed.

(* ------------------------------------------------------------------ promotions *)

Lemma wf_promote t : wf_ity t -> wf_ity (promote t).
Proof. intros H. ity_cases t H; reflexivity. Qed.

Lemma wf_uac a b : wf_ity a -> wf_ity b -> wf_ity (uac a b).
Proof. intros Ha Hb. ity_cases a Ha; ity_cases b Hb; reflexivity. Qed.

Lemma wf_arith_type a b : wf_ity a -> wf_ity b -> wf_ity (c_arith_type a b).
Proof. intros. apply wf_uac; apply wf_promote; assumption. Qed.

Lemma wf_to_signed t : wf_ity t -> wf_ity (to_signed t).
Proof. intros H. ity_cases t H; reflexivity. Qed.
Lemma wf_to_unsigned t : wf_ity t -> wf_ity (to_unsigned t).
Proof. intros H. ity_cases t H; reflexivity. Qed.

(* integer promotion preserves the value *)
Lemma in_range_promote t x : wf_ity t -> in_range t x -> in_range (promote t) x.
Proof. intros H. ity_cases t H; ity_norm; lia. Qed.

Lemma wrap_promote t x : wf_ity t -> in_range t x -> wrap (promote t) x = x.
Proof. intros H Hx. apply wrap_id; [apply wf_promote; exact H | apply in_range_promote; assumption]. Qed.

(* when the common type is signed both operands keep their value *)
Lemma in_range_arith_signed_l t1 t2 x : wf_ity t1 -> wf_ity t2 ->
  sgn (c_arith_type t1 t2) = true -> in_range t1 x -> in_range (c_arith_type t1 t2) x.
Proof. intros H1 H2. ity_cases t1 H1; ity_cases t2 H2; ity_norm; try discriminate; lia. Qed.
Lemma in_range_arith_signed_r t1 t2 x : wf_ity t1 -> wf_ity t2 ->
  sgn (c_arith_type t1 t2) = true -> in_range t2 x -> in_range (c_arith_type t1 t2) x.
Proof. intros H1 H2. ity_cases t1 H1; ity_cases t2 H2; ity_norm; try discriminate; lia. Qed.

(* non-negative operands always keep their value *)
Lemma in_range_arith_nonneg_l t1 t2 x : wf_ity t1 -> wf_ity t2 ->
  0 <= x -> in_range t1 x -> in_range (c_arith_type t1 t2) x.
Proof. intros H1 H2. ity_cases t1 H1; ity_cases t2 H2; ity_norm; lia. Qed.
Lemma in_range_arith_nonneg_r t1 t2 x : wf_ity t1 -> wf_ity t2 ->
  0 <= x -> in_range t2 x -> in_range (c_arith_type t1 t2) x.
Proof. intros H1 H2. ity_cases t1 H1; ity_cases t2 H2; ity_norm; lia. Qed.

Lemma arith_type_same t : wf_ity t -> c_arith_type t t = promote t.
Proof. intros H. ity_cases t H; reflexivity. Qed.

(* ------------------------------------------------------------------ conversions *)

Lemma c_conv_inrange m t x : wf_ity t -> in_range t x -> c_conv m t x = Some x.
Proof.
  intros H Hx. unfold c_conv. destruct (sgn t) eqn:S.
  - destruct (is_gnu m).
    + rewrite wrap_id by assumption. reflexivity.
    + apply in_rangeb_spec in Hx. rewrite Hx. reflexivity.
  - f_equal. rewrite <- wrap_unsigned by exact S. apply wrap_id; assumption.
Qed.

Lemma c_conv_gnu t x : wf_ity t -> c_conv Gnu t x = Some (wrap t x).
Proof.
  intros H. unfold c_conv. destruct (sgn t) eqn:S.
  - reflexivity.
  - rewrite wrap_unsigned by exact S. reflexivity.
Qed.

Lemma c_conv_unsigned m t x : sgn t = false -> c_conv m t x = Some (x mod tmod t).
Proof. unfold c_conv. intros ->. reflexivity. Qed.

(* whenever a conversion is defined, in any mode, it is the modular one *)
Lemma c_conv_some m t x v : wf_ity t -> c_conv m t x = Some v -> v = wrap t x.
Proof.
  intros H. unfold c_conv. destruct (sgn t) eqn:S.
  - destruct (is_gnu m); [intros [= <-]; reflexivity|].
    destruct (in_rangeb t x) eqn:R; [|discriminate].
    apply in_rangeb_spec in R. intros [= <-]. symmetry. apply wrap_id; assumption.
  - intros [= <-]. symmetry. apply wrap_unsigned; exact S.
Qed.

Lemma c_conv_none_iff t x : wf_ity t ->
  (c_conv Wrapv t x = None <-> sgn t = true /\ ~ in_range t x).
Proof.
  intros H. unfold c_conv. destruct (sgn t) eqn:S; cbn [is_gnu].
  - destruct (in_rangeb t x) eqn:R.
    + apply in_rangeb_spec in R. split; [discriminate | tauto].
    + apply in_rangeb_false in R. tauto.
  - split; [discriminate | intros [? _]; discriminate].
Qed.

(* ------------------------------------------------------------------ arithmetic *)

Lemma c_arith_result_modular m t r : wf_ity t -> is_strict m = false ->
  c_arith_result m t r = Some (wrap t r).
Proof.
  intros H Hm. unfold c_arith_result. destruct (sgn t) eqn:S.
  - rewrite Hm. reflexivity.
  - rewrite wrap_unsigned by exact S. reflexivity.
Qed.

Lemma c_arith_result_strict t r v : wf_ity t ->
  c_arith_result Strict t r = Some v -> v = wrap t r /\ (sgn t = true -> v = r).
Proof.
  intros H. unfold c_arith_result. destruct (sgn t) eqn:S; cbn [is_strict].
  - destruct (in_rangeb t r) eqn:R; [|discriminate].
    apply in_rangeb_spec in R. intros [= <-]. rewrite wrap_id by assumption. tauto.
  - intros [= <-]. rewrite wrap_unsigned by exact S. split; [reflexivity | discriminate].
Qed.

(* with -fwrapv (Wrapv and Gnu) + - * are the exact operation reduced into the common type *)
Lemma c_add_modular m t1 t2 a b : wf_ity t1 -> wf_ity t2 -> is_strict m = false ->
  c_add m t1 t2 a b = Some (wrap (c_arith_type t1 t2) (a + b)).
Proof.
  intros H1 H2 Hm. unfold c_add, c_operands.
  pose proof (wf_arith_type t1 t2 H1 H2) as Hw.
  rewrite c_arith_result_modular by assumption.
  rewrite wrap_add_l, wrap_add_r by exact Hw. reflexivity.
Qed.
Lemma c_sub_modular m t1 t2 a b : wf_ity t1 -> wf_ity t2 -> is_strict m = false ->
  c_sub m t1 t2 a b = Some (wrap (c_arith_type t1 t2) (a - b)).
Proof.
  intros H1 H2 Hm. unfold c_sub, c_operands.
  pose proof (wf_arith_type t1 t2 H1 H2) as Hw.
  rewrite c_arith_result_modular by assumption.
  rewrite wrap_sub_l, wrap_sub_r by exact Hw. reflexivity.
Qed.
Lemma c_mul_modular m t1 t2 a b : wf_ity t1 -> wf_ity t2 -> is_strict m = false ->
  c_mul m t1 t2 a b = Some (wrap (c_arith_type t1 t2) (a * b)).
Proof.
  intros H1 H2 Hm. unfold c_mul, c_operands.
  pose proof (wf_arith_type t1 t2 H1 H2) as Hw.
  rewrite c_arith_result_modular by assumption.
  rewrite wrap_mul_l, wrap_mul_r by exact Hw. reflexivity.
Qed.
Lemma c_neg_modular m t a : wf_ity t -> is_strict m = false ->
  c_neg m t a = Some (wrap (promote t) (- a)).
Proof.
  intros H Hm. unfold c_neg, c_unop_type.
  rewrite c_arith_result_modular by (try apply wf_promote; assumption).
  rewrite wrap_neg_inner by (apply wf_promote; exact H). reflexivity.
Qed.

(* comparisons are exact when both operands have the same signedness, or are non-negative *)
Lemma c_operands_exact_signed t1 t2 a b : wf_ity t1 -> wf_ity t2 ->
  sgn (c_arith_type t1 t2) = true -> in_range t1 a -> in_range t2 b ->
  c_operands t1 t2 a b = (c_arith_type t1 t2, a, b).
Proof.
  intros H1 H2 S Ha Hb. unfold c_operands.
  pose proof (wf_arith_type t1 t2 H1 H2) as Hw.
  rewrite !wrap_id; auto using in_range_arith_signed_l, in_range_arith_signed_r.
Qed.
Lemma c_operands_exact_nonneg t1 t2 a b : wf_ity t1 -> wf_ity t2 ->
  0 <= a -> 0 <= b -> in_range t1 a -> in_range t2 b ->
  c_operands t1 t2 a b = (c_arith_type t1 t2, a, b).
Proof.
  intros H1 H2 A B Ha Hb. unfold c_operands.
  pose proof (wf_arith_type t1 t2 H1 H2) as Hw.
  rewrite !wrap_id; auto using in_range_arith_nonneg_l, in_range_arith_nonneg_r.
Qed.

Lemma c_lt_exact_signed m t1 t2 a b : wf_ity t1 -> wf_ity t2 ->
  sgn (c_arith_type t1 t2) = true -> in_range t1 a -> in_range t2 b ->
  c_lt m t1 t2 a b = Some (zb (a <? b)).
Proof. intros. unfold c_lt. rewrite c_operands_exact_signed by assumption. reflexivity. Qed.
Lemma c_eq_exact_signed m t1 t2 a b : wf_ity t1 -> wf_ity t2 ->
  sgn (c_arith_type t1 t2) = true -> in_range t1 a -> in_range t2 b ->
  c_eq m t1 t2 a b = Some (zb (a =? b)).
Proof. intros. unfold c_eq. rewrite c_operands_exact_signed by assumption. reflexivity. Qed.
Lemma c_lt_exact_nonneg m t1 t2 a b : wf_ity t1 -> wf_ity t2 ->
  0 <= a -> 0 <= b -> in_range t1 a -> in_range t2 b ->
  c_lt m t1 t2 a b = Some (zb (a <? b)).
Proof. intros. unfold c_lt. rewrite c_operands_exact_nonneg by assumption. reflexivity. Qed.

(* the signedness of the common type: signed iff it can hold both operand types *)
Lemma arith_type_signed_same_sign t1 t2 : wf_ity t1 -> wf_ity t2 ->
  sgn t1 = true -> sgn t2 = true -> sgn (c_arith_type t1 t2) = true.
Proof. intros H1 H2. ity_cases t1 H1; ity_cases t2 H2; cbn; congruence. Qed.

(* non-vacuity / sanity examples *)
Example ex_wrap_i8 : wrap I8 200 = -56. Proof. reflexivity. Qed.
Example ex_wrap_u8 : wrap U8 (-1) = 255. Proof. reflexivity. Qed.
Example ex_add_u8 : c_add Wrapv U8 U8 255 1 = Some 256. Proof. reflexivity. Qed.   (* promoted to int *)
Example ex_add_i32_strict : c_add Strict I32 I32 2147483647 1 = None. Proof. reflexivity. Qed.
Example ex_add_i32_wrapv : c_add Wrapv I32 I32 2147483647 1 = Some (-2147483648). Proof. reflexivity. Qed.
Example ex_lt_mixed : c_lt Wrapv I32 U32 (-1) 1 = Some 0. Proof. reflexivity. Qed.  (* -1 -> UINT_MAX *)
Example ex_lt_mixed64 : c_lt Wrapv I64 U32 (-1) 1 = Some 1. Proof. reflexivity. Qed.
Example ex_div_min : c_div Gnu I32 I32 (-2147483648) (-1) = None. Proof. reflexivity. Qed.
Example ex_shr_neg_gnu : c_shr Gnu I32 I32 (-5) 1 = Some (-3). Proof. reflexivity. Qed.
Example ex_shr_neg_iso : c_shr Wrapv I32 I32 (-5) 1 = None. Proof. reflexivity. Qed.
Example ex_conv_iso : c_conv Wrapv I8 200 = None. Proof. reflexivity. Qed.
Example ex_conv_gnu : c_conv Gnu I8 200 = Some (-56). Proof. reflexivity. Qed.

(* ================================================================== mini-C *)

Inductive cbinop : Type :=
  Oadd | Osub | Omul | Odiv | Omod | Oand | Oor | Oxor | Oshl | Oshr
| Olt | Ole | Ogt | Oge | Oeq | One.
Inductive cunop : Type := Oneg | Onot (* ~ *) | Olnot (* ! *).

Inductive cexpr : Type :=
| Evar (n : nat)
| Elit (t : ity) (v : Z)
| Ecast (t : ity) (e : cexpr)
| Eun (o : cunop) (e : cexpr)
| Ebin (o : cbinop) (a b : cexpr)
| Eland (a b : cexpr)
| Elor (a b : cexpr)
| Econd (c a b : cexpr).

Inductive cstmt : Type :=
| Sret (e : cexpr)
| Spanic (msg : Z)
| Sskip
| Sif (c : cexpr) (th el : cstmt)
| Sseq (a b : cstmt)
| Sdecl (t : ity) (e : cexpr) (rest : cstmt).

Record cfun : Type := mkcfun { fparams : list ity; fret : ity; fbody : cstmt }.

Inductive cres : Type := Rnormal | Rret (v : Z) | Rpanic (msg : Z) | Rub.
Inductive outcome : Type := Oval (v : Z) | Opanic (msg : Z) | Oub.

Definition is_cmp (o : cbinop) : bool :=
  match o with Olt | Ole | Ogt | Oge | Oeq | One => true | _ => false end.
Definition is_shift (o : cbinop) : bool :=
  match o with Oshl | Oshr => true | _ => false end.

Definition cbinop_type (o : cbinop) (t1 t2 : ity) : ity :=
  if is_cmp o then I32 else if is_shift o then c_shift_type t1 else c_arith_type t1 t2.

Definition cbinop_eval (m : cmode) (o : cbinop) (t1 t2 : ity) (a b : Z) : option Z :=
  match o with
  | Oadd => c_add m t1 t2 a b | Osub => c_sub m t1 t2 a b | Omul => c_mul m t1 t2 a b
  | Odiv => c_div m t1 t2 a b | Omod => c_mod m t1 t2 a b
  | Oand => c_and m t1 t2 a b | Oor => c_or m t1 t2 a b | Oxor => c_xor m t1 t2 a b
  | Oshl => c_shl m t1 t2 a b | Oshr => c_shr m t1 t2 a b
  | Olt => c_lt m t1 t2 a b | Ole => c_le m t1 t2 a b | Ogt => c_gt m t1 t2 a b
  | Oge => c_ge m t1 t2 a b | Oeq => c_eq m t1 t2 a b | One => c_ne m t1 t2 a b
  end.

Definition cunop_type (o : cunop) (t : ity) : ity :=
  match o with Olnot => I32 | _ => c_unop_type t end.
Definition cunop_eval (m : cmode) (o : cunop) (t : ity) (a : Z) : option Z :=
  match o with
  | Oneg => c_neg m t a | Onot => c_not m t a | Olnot => Some (zb (a =? 0))
  end.

(* static type of an expression; tys = types of the variables *)
Fixpoint ctypeof (tys : list ity) (e : cexpr) : option ity :=
  match e with
  | Evar n => nth_error tys n
  | Elit t _ => Some t
  | Ecast t _ => Some t
  | Eun o a => omap (cunop_type o) (ctypeof tys a)
  | Ebin o a b =>
      obind (ctypeof tys a) (fun ta => obind (ctypeof tys b) (fun tb => Some (cbinop_type o ta tb)))
  | Eland _ _ | Elor _ _ => Some I32
  | Econd _ a b =>
      obind (ctypeof tys a) (fun ta => obind (ctypeof tys b) (fun tb => Some (c_arith_type ta tb)))
  end.

(* evaluation: types are computed statically (ctypeof), values separately, so that a concrete
   program over symbolic values never has a symbolic type *)
Fixpoint ceval (m : cmode) (tys : list ity) (vals : list Z) (e : cexpr) : option Z :=
  match e with
  | Evar n => nth_error vals n
  | Elit t v => Some v
  | Ecast t a => obind (ceval m tys vals a) (c_conv m t)
  | Eun o a =>
      match ctypeof tys a with
      | Some ta => obind (ceval m tys vals a) (cunop_eval m o ta)
      | None => None
      end
  | Ebin o a b =>
      match ctypeof tys a, ctypeof tys b with
      | Some ta, Some tb =>
          obind (ceval m tys vals a) (fun va =>
          obind (ceval m tys vals b) (fun vb => cbinop_eval m o ta tb va vb))
      | _, _ => None
      end
  | Eland a b =>
      obind (ceval m tys vals a) (fun va =>
        if va =? 0 then Some 0
        else obind (ceval m tys vals b) (fun vb => Some (zb (negb (vb =? 0)))))
  | Elor a b =>
      obind (ceval m tys vals a) (fun va =>
        if va =? 0 then obind (ceval m tys vals b) (fun vb => Some (zb (negb (vb =? 0))))
        else Some 1)
  | Econd c a b =>
      match ctypeof tys a, ctypeof tys b with
      | Some ta, Some tb =>
          obind (ceval m tys vals c) (fun vc =>
            omap (wrap (c_arith_type ta tb))
                 (if vc =? 0 then ceval m tys vals b else ceval m tys vals a))
      | _, _ => None
      end
  end.

Fixpoint cexec (m : cmode) (tys : list ity) (vals : list Z) (s : cstmt) : cres :=
  match s with
  | Sret e => match ceval m tys vals e with Some v => Rret v | None => Rub end
  | Spanic msg => Rpanic msg
  | Sskip => Rnormal
  | Sif c th el =>
      match ceval m tys vals c with
      | Some vc => if vc =? 0 then cexec m tys vals el else cexec m tys vals th
      | None => Rub
      end
  | Sseq a b =>
      match cexec m tys vals a with Rnormal => cexec m tys vals b | r => r end
  | Sdecl t e rest =>
      match obind (ceval m tys vals e) (c_conv m t) with
      | Some v' => cexec m (tys ++ [t]) (vals ++ [v']) rest
      | None => Rub
      end
  end.

(* bind arguments to parameters, converting each to the parameter type *)
Fixpoint cbind (m : cmode) (ps : list ity) (args : list Z) : option (list Z) :=
  match ps, args with
  | [], [] => Some []
  | p :: ps', a :: args' =>
      obind (c_conv m p a) (fun a' => omap (cons a') (cbind m ps' args'))
  | _, _ => None
  end.

Definition ccall (m : cmode) (f : cfun) (args : list Z) : outcome :=
  match cbind m (fparams f) args with
  | None => Oub
  | Some vals =>
      match cexec m (fparams f) vals (fbody f) with
      | Rret v => match c_conv m (fret f) v with Some v' => Oval v' | None => Oub end
      | Rpanic msg => Opanic msg
      | Rnormal | Rub => Oub
      end
  end.

(* ---- well-formedness of literals and types (checked once on tables, not during evaluation) *)

Fixpoint cexpr_ok (e : cexpr) : bool :=
  match e with
  | Evar _ => true
  | Elit t v => wf_ityb t && in_rangeb t v
  | Ecast t a => wf_ityb t && cexpr_ok a
  | Eun _ a => cexpr_ok a
  | Ebin _ a b | Eland a b | Elor a b => cexpr_ok a && cexpr_ok b
  | Econd c a b => cexpr_ok c && cexpr_ok a && cexpr_ok b
  end.
Fixpoint cstmt_ok (s : cstmt) : bool :=
  match s with
  | Sret e => cexpr_ok e
  | Spanic _ | Sskip => true
  | Sif c a b => cexpr_ok c && cstmt_ok a && cstmt_ok b
  | Sseq a b => cstmt_ok a && cstmt_ok b
  | Sdecl t e r => wf_ityb t && cexpr_ok e && cstmt_ok r
  end.
Definition cfun_ok (f : cfun) : bool :=
  forallb wf_ityb (fparams f) && wf_ityb (fret f) && cstmt_ok (fbody f).

(* ---- structural equality *)

Definition cbinop_eqb (a b : cbinop) : bool :=
  match a, b with
  | Oadd, Oadd | Osub, Osub | Omul, Omul | Odiv, Odiv | Omod, Omod | Oand, Oand | Oor, Oor
  | Oxor, Oxor | Oshl, Oshl | Oshr, Oshr | Olt, Olt | Ole, Ole | Ogt, Ogt | Oge, Oge
  | Oeq, Oeq | One, One => true
  | _, _ => false
  end.
Definition cunop_eqb (a b : cunop) : bool :=
  match a, b with Oneg, Oneg | Onot, Onot | Olnot, Olnot => true | _, _ => false end.

Fixpoint cexpr_eqb (x y : cexpr) : bool :=
  match x, y with
  | Evar n, Evar n' => Nat.eqb n n'
  | Elit t v, Elit t' v' => ity_eqb t t' && (v =? v')
  | Ecast t a, Ecast t' a' => ity_eqb t t' && cexpr_eqb a a'
  | Eun o a, Eun o' a' => cunop_eqb o o' && cexpr_eqb a a'
  | Ebin o a b, Ebin o' a' b' => cbinop_eqb o o' && cexpr_eqb a a' && cexpr_eqb b b'
  | Eland a b, Eland a' b' => cexpr_eqb a a' && cexpr_eqb b b'
  | Elor a b, Elor a' b' => cexpr_eqb a a' && cexpr_eqb b b'
  | Econd c a b, Econd c' a' b' => cexpr_eqb c c' && cexpr_eqb a a' && cexpr_eqb b b'
  | _, _ => false
  end.

Fixpoint cstmt_eqb (x y : cstmt) : bool :=
  match x, y with
  | Sret e, Sret e' => cexpr_eqb e e'
  | Spanic a, Spanic b => a =? b
  | Sskip, Sskip => true
  | Sif c a b, Sif c' a' b' => cexpr_eqb c c' && cstmt_eqb a a' && cstmt_eqb b b'
  | Sseq a b, Sseq a' b' => cstmt_eqb a a' && cstmt_eqb b b'
  | Sdecl t e r, Sdecl t' e' r' => ity_eqb t t' && cexpr_eqb e e' && cstmt_eqb r r'
  | _, _ => false
  end.

Fixpoint itys_eqb (a b : list ity) : bool :=
  match a, b with
  | [], [] => true
  | x :: a', y :: b' => ity_eqb x y && itys_eqb a' b'
  | _, _ => false
  end.

Definition cfun_eqb (f g : cfun) : bool :=
  itys_eqb (fparams f) (fparams g) && ity_eqb (fret f) (fret g) && cstmt_eqb (fbody f) (fbody g).

Lemma ity_eqb_eq a b : ity_eqb a b = true -> a = b.
Proof.
  destruct a as [ba sa], b as [bb sb]. unfold ity_eqb. cbn [bits sgn]. intros H.
  apply andb_prop in H. destruct H as [H1 H2].
  apply Z.eqb_eq in H1. apply Bool.eqb_prop in H2. subst. reflexivity.
Qed.
Lemma ity_eqb_refl a : ity_eqb a a = true.
Proof. destruct a as [b s]. unfold ity_eqb. cbn. rewrite Z.eqb_refl. destruct s; reflexivity. Qed.

Lemma cbinop_eqb_eq a b : cbinop_eqb a b = true -> a = b.
Proof. destruct a, b; cbn; congruence. Qed.
Lemma cunop_eqb_eq a b : cunop_eqb a b = true -> a = b.
Proof. destruct a, b; cbn; congruence. Qed.

Local Opaque ity_eqb.
Lemma cexpr_eqb_eq x : forall y, cexpr_eqb x y = true -> x = y.
Proof.
  induction x; intros y; destruct y; cbn [cexpr_eqb]; try discriminate; intros H;
    repeat (apply andb_prop in H; let H' := fresh "H" in destruct H as [H H']).
  - apply Nat.eqb_eq in H. congruence.
  - apply ity_eqb_eq in H. apply Z.eqb_eq in H0. congruence.
  - apply ity_eqb_eq in H. f_equal; auto.
  - apply cunop_eqb_eq in H. f_equal; auto.
  - apply cbinop_eqb_eq in H. f_equal; auto.
  - f_equal; auto.
  - f_equal; auto.
  - f_equal; auto.
Qed.

Lemma cstmt_eqb_eq x : forall y, cstmt_eqb x y = true -> x = y.
Proof.
  induction x; intros y; destruct y; cbn [cstmt_eqb]; try discriminate; intros H;
    repeat (apply andb_prop in H; let H' := fresh "H" in destruct H as [H H']).
  - apply cexpr_eqb_eq in H. congruence.
  - apply Z.eqb_eq in H. congruence.
  - reflexivity.
  - apply cexpr_eqb_eq in H. f_equal; auto.
  - f_equal; auto.
  - apply ity_eqb_eq in H. apply cexpr_eqb_eq in H1. f_equal; auto.
Qed.

Local Transparent ity_eqb.

Lemma itys_eqb_eq a : forall b, itys_eqb a b = true -> a = b.
Proof.
  induction a; intros b; destruct b; cbn [itys_eqb]; try discriminate; intros H; [reflexivity|].
  apply andb_prop in H. destruct H as [H1 H2]. apply ity_eqb_eq in H1. f_equal; auto.
Qed.

Lemma cfun_eqb_eq f g : cfun_eqb f g = true -> f = g.
Proof.
  destruct f, g. unfold cfun_eqb. cbn [fparams fret fbody]. intros H.
  apply andb_prop in H. destruct H as [H H3]. apply andb_prop in H. destruct H as [H1 H2].
  apply itys_eqb_eq in H1. apply ity_eqb_eq in H2. apply cstmt_eqb_eq in H3. congruence.
Qed.

(* a call whose arguments already lie in the parameter ranges: the argument conversions are
   the identity *)
Lemma cbind_inrange m ps : forall args, Forall wf_ity ps ->
  Forall2 in_range ps args -> cbind m ps args = Some args.
Proof.
  induction ps as [|p ps IH]; intros args Hw H; inversion H; subst; [reflexivity|].
  inversion Hw; subst. cbn [cbind].
  rewrite c_conv_inrange by assumption. cbn [obind]. rewrite IH by assumption. reflexivity.
Qed.

(* sanity: int8_t f(int8_t a) { if (a < 0) panic(7); return a + 1; } *)
Example ex_fun : cfun :=
  mkcfun [I8] I8 (Sseq (Sif (Ebin Olt (Evar 0) (Elit I32 0)) (Spanic 7) Sskip)
                       (Sret (Ebin Oadd (Evar 0) (Elit I32 1)))).
Example ex_call1 : ccall Gnu ex_fun [5] = Oval 6. Proof. reflexivity. Qed.
Example ex_call2 : ccall Gnu ex_fun [-5] = Opanic 7. Proof. reflexivity. Qed.
Example ex_call3 : ccall Gnu ex_fun [127] = Oval (-128). Proof. reflexivity. Qed.
Example ex_call4 : ccall Wrapv ex_fun [127] = Oub. Proof. reflexivity. Qed.
