(* Lua 5.4 integer semantics (lvm.c / lobject.c) over Z with the 64-bit wrap explicit.
   Used by every model that mirrors Lua code computing on lua_Integer. *)
From Coq Require Export ZArith List Lia Bool.
From Coq Require Import ZifyBool.
Export ListNotations.
Local Open Scope Z_scope.

Ltac Zify.zify_post_hook ::= Z.div_mod_to_equations.

Definition two63 : Z := 9223372036854775808.
Definition two64 : Z := 18446744073709551616.
Definition minint : Z := - two63.
Definition maxint : Z := two63 - 1.

Definition in_i64 (x : Z) : Prop := minint <= x <= maxint.
Definition in_i64b (x : Z) : bool := (minint <=? x) && (x <=? maxint).

(* two's complement reduction to the signed 64-bit range *)
Definition wrap64 (x : Z) : Z := (x + two63) mod two64 - two63.
(* unsigned reading of a Lua integer (l_castS2U) *)
Definition u64 (x : Z) : Z := x mod two64.

Definition ladd (a b : Z) : Z := wrap64 (a + b).
Definition lsub (a b : Z) : Z := wrap64 (a - b).
Definition lmul (a b : Z) : Z := wrap64 (a * b).
Definition lneg (a : Z) : Z := wrap64 (- a).

(* luaV_idiv / luaV_mod: floor division; None = "attempt to perform 'n//0'" *)
Definition lidiv (a b : Z) : option Z :=
  if b =? 0 then None else Some (wrap64 (a / b)).
Definition lmod (a b : Z) : option Z :=
  if b =? 0 then None else Some (a mod b).

Definition lband (a b : Z) : Z := Z.land a b.
Definition lbor (a b : Z) : Z := Z.lor a b.
Definition lbxor (a b : Z) : Z := Z.lxor a b.
Definition lbnot (a : Z) : Z := Z.lnot a.

(* luaV_shiftl: logical shifts, counts <= -64 or >= 64 give 0, negative count shifts the
   other way *)
Definition lshl_pos (a n : Z) : Z := if 64 <=? n then 0 else wrap64 (Z.shiftl a n).
Definition lshr_pos (a n : Z) : Z := if 64 <=? n then 0 else wrap64 (Z.shiftr (u64 a) n).
Definition lshl (a n : Z) : Z := if n <? 0 then lshr_pos a (- n) else lshl_pos a n.
Definition lshr (a n : Z) : Z := if n <? 0 then lshl_pos a (- n) else lshr_pos a n.

Definition llt (a b : Z) : bool := a <? b.
Definition lle (a b : Z) : bool := a <=? b.
(* math.ult *)
Definition lult (a b : Z) : bool := u64 a <? u64 b.

(* ---------- basic facts ---------- *)

Lemma wrap64_range x : in_i64 (wrap64 x).
Proof. unfold in_i64, wrap64, minint, maxint, two63, two64. lia. Qed.

Lemma wrap64_id x : in_i64 x -> wrap64 x = x.
Proof. unfold in_i64, wrap64, minint, maxint, two63, two64. lia. Qed.

Lemma wrap64_mod x : wrap64 x mod two64 = x mod two64.
Proof. unfold wrap64, two63, two64. lia. Qed.

Lemma wrap64_eqm x y : x mod two64 = y mod two64 -> wrap64 x = wrap64 y.
Proof. unfold wrap64, two63, two64. lia. Qed.

Lemma ladd_exact a b : in_i64 (a + b) -> ladd a b = a + b.
Proof. apply wrap64_id. Qed.
Lemma lsub_exact a b : in_i64 (a - b) -> lsub a b = a - b.
Proof. apply wrap64_id. Qed.
Lemma lmul_exact a b : in_i64 (a * b) -> lmul a b = a * b.
Proof. apply wrap64_id. Qed.

Lemma lband_ones a n : 0 <= n -> lband a (2 ^ n - 1) = a mod 2 ^ n.
Proof.
  intros Hn. unfold lband. replace (2 ^ n - 1) with (Z.ones n).
  - apply Z.land_ones; exact Hn.
  - rewrite Z.ones_equiv. lia.
Qed.

Lemma lshr_nonneg a n : 0 <= a -> in_i64 a -> 0 <= n < 64 -> lshr a n = a / 2 ^ n.
Proof.
  intros Ha Hr Hn. unfold lshr, lshr_pos.
  destruct (n <? 0) eqn:E1; [lia|].
  destruct (64 <=? n) eqn:E2; [lia|].
  unfold u64. rewrite Z.mod_small by (unfold in_i64, maxint, two63, two64 in *; lia).
  rewrite Z.shiftr_div_pow2 by lia.
  apply wrap64_id.
  assert (0 < 2 ^ n) by (apply Z.pow_pos_nonneg; lia).
  assert (0 <= a / 2 ^ n <= a).
  { split; [apply Z.div_pos; lia|]. apply Z.div_le_upper_bound; nia. }
  unfold in_i64, minint, maxint, two63 in *. lia.
Qed.

Lemma lshl_small a n : 0 <= n < 64 -> in_i64 (a * 2 ^ n) -> lshl a n = a * 2 ^ n.
Proof.
  intros Hn Hr. unfold lshl, lshl_pos.
  destruct (n <? 0) eqn:E1; [lia|].
  destruct (64 <=? n) eqn:E2; [lia|].
  rewrite Z.shiftl_mul_pow2 by lia. apply wrap64_id; exact Hr.
Qed.
