(* C14 - the integer literal reader against C17's model of bn.lua.
   C14's reader (Model.v nl_read_int / nl_read_dec) is a three-line recurrence in wrapped big-number arithmetic;
   bn.lua's frombase works on 32-bit limbs in chunks.  coq/C17 (property C17, another sub-project: imported, not
   copied) models that limb-level algorithm (Model3.bn_from_bin / bn_from_hex / bn_from_dec) and proves it exact
   (C17_literal_exact).  Here: on every string of valid digit characters the two models read the same number, and
   a decimal literal is an integer for C14 exactly when it is one for C17 (otherwise both hand it to the float
   reader). *)
From C14 Require Import Gen Model ProofsInt.
From C17 Require Model Model2 Model3 ProofsText Properties.
Local Open Scope Z_scope.

Lemma bits_agree : BN_BITS = C17.Model.BINT_BITS.
Proof. reflexivity. Qed.

Lemma dval_acc_digits base ds : forall acc, C17.ProofsText.dval_acc base ds acc = digits_value base acc ds.
Proof. induction ds as [|d r IH]; intros acc; cbn; [reflexivity|apply IH]. Qed.

Lemma dval_digits base ds : C17.ProofsText.dval base ds = digits_value base 0 ds.
Proof. apply dval_acc_digits. Qed.

(* the signed reading of a residue is C14's bn_wrap *)
Lemma sval_of_residue x v : C17.Model.uval x = v mod 2 ^ C17.Model.BINT_BITS -> C17.Model.sval x = bn_wrap v.
Proof.
  intros Hu. unfold C17.Model.sval, C17.Model.Wfull, bn_wrap. rewrite Hu. rewrite bits_agree.
  set (W := 2 ^ C17.Model.BINT_BITS).
  assert (HW : W = 2 * 2 ^ (C17.Model.BINT_BITS - 1)) by (subst W; reflexivity).
  assert (Hh : W / 2 = 2 ^ (C17.Model.BINT_BITS - 1)) by (subst W; reflexivity).
  rewrite Hh. set (h := 2 ^ (C17.Model.BINT_BITS - 1)) in *.
  assert (0 < h) by (subst h; reflexivity).
  pose proof (Z.mod_pos_bound v W ltac:(lia)) as Hb. set (u := v mod W) in *.
  assert (E : (v + h) mod W = (u + h) mod W) by (subst u; rewrite Zplus_mod_idemp_l; reflexivity).
  rewrite E. destruct (Z.ltb_spec u h).
  - rewrite Z.mod_small by lia. lia.
  - replace (u + h) with (u + h - W + 1 * W) by lia. rewrite Z_mod_plus_full. rewrite Z.mod_small by lia. lia.
Qed.

Theorem reader_is_bn_from :
  (forall cs, Forall (C17.ProofsText.char_ok 2) cs ->
     exists x, C17.Model3.bn_from_bin false cs = C17.Model2.Ok x /\ C17.Model.wf x /\
               C17.Model.sval x = nl_read_int 2 (map C17.ProofsText.cval cs)) /\
  (forall cs, cs <> [] -> Forall (C17.ProofsText.char_ok 16) cs ->
     exists x, C17.Model3.bn_from_hex false cs = C17.Model2.Ok x /\ C17.Model.wf x /\
               C17.Model.sval x = nl_read_int 16 (map C17.ProofsText.cval cs)) /\
  (forall cs, cs <> [] -> Forall (C17.ProofsText.char_ok 10) cs ->
     match nl_read_dec (map C17.ProofsText.cval cs) with
     | Some v => exists x, C17.Model3.bn_from_dec cs = C17.Model2.Ok (C17.Model3.LInt x) /\ C17.Model.wf x /\ C17.Model.sval x = v
     | None => C17.Model3.bn_from_dec cs = C17.Model2.Ok C17.Model3.LFloat
     end).
Proof.
  destruct C17.Properties.C17_literal_exact as (Hbin & Hhex & Hdec & _).
  split; [|split].
  - intros cs Hok. destruct (Hbin false cs Hok) as (x & E & Hwf & Hu). exists x. split; [exact E|]. split; [exact Hwf|].
    rewrite read_int_wrap, <- dval_digits. apply sval_of_residue. rewrite Hu. f_equal. lia.
  - intros cs Hne Hok. destruct (Hhex false cs Hne Hok) as (x & E & Hwf & Hu). exists x. split; [exact E|]. split; [exact Hwf|].
    rewrite read_int_wrap, <- dval_digits. apply sval_of_residue. rewrite Hu. f_equal. lia.
  - intros cs Hne Hok. destruct (Hdec cs Hne Hok) as [Hint Hflt]. cbv zeta in Hint, Hflt.
    set (v := C17.ProofsText.dval 10 (map C17.ProofsText.cval cs)) in *.
    assert (Hv0 : 0 <= v).
    { assert (G : forall l a, Forall (C17.ProofsText.char_ok 10) l -> 0 <= a ->
                  0 <= C17.ProofsText.dval_acc 10 (map C17.ProofsText.cval l) a).
      { induction l as [|c l IH]; intros a Hl Ha; cbn; [exact Ha|]. inversion Hl as [|? ? Hc Hl']. subst.
        apply IH; [exact Hl'|]. destruct Hc as [_ Hc]. unfold C17.ProofsText.cval. lia. }
      subst v. unfold C17.ProofsText.dval. apply G; [exact Hok|lia]. }
    assert (Hh : 2 ^ C17.Model.BINT_BITS / 2 = 2 ^ (BN_BITS - 1)) by reflexivity.
    rewrite Hh in Hint, Hflt. unfold v in *. rewrite dval_digits in *.
    destruct (Z.lt_ge_cases (digits_value 10 0 (map C17.ProofsText.cval cs)) (2 ^ (BN_BITS - 1))) as [Hlt|Hge].
    + rewrite read_dec_complete by lia. destruct (Hint Hlt) as (x & E & Hwf & _ & Hs). exists x. split; [exact E|]. split; [exact Hwf|exact Hs].
    + rewrite read_dec_float by lia. apply Hflt. exact Hge.
Qed.
