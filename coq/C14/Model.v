(* C14 - numbers survive every text <-> binary conversion: executable models (no proofs here).
   Integer side (full): literal reader, literal typing, C literal emission (cemitter.lua
   add_scalar_literal) against C's rules for integer constants, run-time int2str / str2int.
   Float side (partial): the decision logic of bn.todecsci, under a Section hypothesis (ProofsFloat.v). *)
From Base Require Export LuaInt.
From C14 Require Export Gen.
Local Open Scope Z_scope.

(* ================================================================================================
   integral types (types.lua IntegralType)
   ================================================================================================ *)
Record itype := mk_itype { it_bits : Z; it_signed : bool; it_long : Z }.

Definition it_min (T : itype) : Z := if it_signed T then - 2 ^ (it_bits T - 1) else 0.
Definition it_max (T : itype) : Z := if it_signed T then 2 ^ (it_bits T - 1) - 1 else 2 ^ it_bits T - 1.
Definition it_inrange (T : itype) (v : Z) : bool := (it_min T <=? v) && (v <=? it_max T).

(* two's complement reduction to T: the mathematical reference *)
Definition wrap_T (T : itype) (v : Z) : Z :=
  if it_signed T then (v + 2 ^ (it_bits T - 1)) mod 2 ^ it_bits T - 2 ^ (it_bits T - 1)
  else v mod 2 ^ it_bits T.

Definition mk_of (d : Z * bool * Z) : itype := mk_itype (fst (fst d)) (snd (fst d)) (snd d).
(* the integral types of typedefs.lua, by row index of Gen.int_types *)
Definition lookup_type (id : nat) : option itype :=
  match nth_error int_types id with Some d => Some (mk_of d) | None => None end.
Definition all_int_types : list itype := map mk_of int_types.
Definition cint_T : itype := mk_itype C_INT_BITS true 0.
Definition clonglong_T : itype := mk_itype C_LLONG_BITS true 2.
Definition culonglong_T : itype := mk_itype C_LLONG_BITS false 2.

(* ================================================================================================
   the compiler's big numbers: bint(BN_BITS), two's complement (property C17 proves the arithmetic)
   ================================================================================================ *)
Definition bn_wrap (v : Z) : Z := (v + 2 ^ (BN_BITS - 1)) mod 2 ^ BN_BITS - 2 ^ (BN_BITS - 1).
(* bn.bwrap(v, bits): unsigned reading of the low bits *)
Definition bwrap (v bits : Z) : Z := v mod 2 ^ bits.

(* ================================================================================================
   literal reader (bn.from for integer spellings: digits accumulated as n = n*base + d in bint)
   ================================================================================================ *)
Definition digit_of (c : Z) : option Z :=           (* character code -> digit value *)
  if (48 <=? c) && (c <=? 57) then Some (c - 48)
  else if (97 <=? c) && (c <=? 122) then Some (c - 97 + 10)
  else if (65 <=? c) && (c <=? 90) then Some (c - 65 + 10)
  else None.

(* mathematical value of a digit string *)
Fixpoint digits_value (base : Z) (acc : Z) (ds : list Z) : Z :=
  match ds with [] => acc | d :: r => digits_value base (acc * base + d) r end.

(* the reader: the same recurrence in bint arithmetic *)
Fixpoint nl_read_digits (base : Z) (acc : Z) (ds : list Z) : Z :=
  match ds with [] => acc | d :: r => nl_read_digits base (bn_wrap (bn_wrap (acc * base) + d)) r end.
Definition nl_read_int (base : Z) (ds : list Z) : Z := nl_read_digits base 0 ds.

(* bn.from, decimal branch (after 96cb9da): when the parsed big number does not print back as the digits that
   were read (bn.todecint(n) ~= digits, i.e. the value did not fit), the literal is read by tonumber as a
   float instead.  None = "read as a float" (correctly rounded by the host strtod: assumed, oracle-checked) *)
Definition nl_read_dec (ds : list Z) : option Z :=
  let n := nl_read_int 10 ds in
  if n =? digits_value 10 0 ds then Some n else None.

(* ================================================================================================
   literal typing (analyzer.lua visitors.Number, integer spellings)
   ================================================================================================ *)
Inductive lit_type := LT_int (T : itype) | LT_float | LT_reject.

(* value: what the reader produced; base: 2/10/16; suffix: the type named by a literal suffix;
   desired: the type the context asks for (only unsigned ones are honoured for integers) *)
Definition nl_literal_type (value base : Z) (suffix desired : option itype) : lit_type :=
  match suffix with
  | Some T => if it_inrange T value then LT_int T else LT_reject
  | None =>
      match desired with
      | Some D => if negb (it_signed D) && it_inrange D value then LT_int D
                  else if negb (base =? 10) then LT_int (mk_itype 64 true 0)
                  else if it_inrange (mk_itype 64 true 0) value then LT_int (mk_itype 64 true 0)
                  else LT_float
      | None => if negb (base =? 10) then LT_int (mk_itype 64 true 0)
                else if it_inrange (mk_itype 64 true 0) value then LT_int (mk_itype 64 true 0)
                else LT_float
      end
  end.

(* ================================================================================================
   emission: cemitter.lua add_scalar_literal, integral branch
   ================================================================================================ *)
(* the emitted token, kept structured; rendered to text by the driver:
   [ct_paren] "(" ... "-1)";  [ct_neg] "-";  "0x" hex digits or decimal digits of ct_mag;
   "U" if ct_u; "" / "L" / "LL" for ct_l = 0 / 1 / 2 *)
Record ctext := mk_ctext { ct_paren : bool; ct_neg : bool; ct_hex : bool; ct_mag : Z; ct_u : bool; ct_l : Z }.

(* types.lua IntegralType:wrap_value (after 59c538f): the low bits read as unsigned, then as two's complement *)
Definition nl_wrap_value (T : itype) (v : Z) : Z :=
  if it_inrange T v then v
  else
    let w := bwrap v (it_bits T) in
    if it_signed T && (it_max T <? w) then bn_wrap (w - 2 ^ it_bits T) else w.

(* the value is first forced into the type:  if unsigned and negative, or out of range: wrap_value *)
Definition nl_prewrap (T : itype) (v : Z) : Z :=
  if (negb (it_signed T) && (v <? 0)) || negb (it_inrange T v) then nl_wrap_value T v else v.

(* base: 0 = the attr has no base (value produced by folding), else 2 / 10 / 16 *)
Definition nl_emit_from (T : itype) (num0 : Z) (base : Z) : ctext :=
  let minusone := it_signed T && (num0 =? it_min T) in
  let num := if minusone then num0 + 1 else num0 in
  let usedec := ((base =? 0) && negb (num =? it_min T) && negb (num =? it_max T)) || (base =? 10) || (num <? 0) in
  let u := negb (it_signed T) in
  let l := if negb (it_inrange cint_T num) || (num =? it_min cint_T) then
             (if it_long T =? 1 then 1
              else if (it_long T =? 2) || (it_signed T && it_inrange clonglong_T num)
                      || (negb (it_signed T) && it_inrange culonglong_T num) then 2
              else 0)
           else 0 in
  mk_ctext minusone (num <? 0) (negb usedec) (Z.abs num) u l.

Definition nl_emit (T : itype) (v : Z) (base : Z) : ctext := nl_emit_from T (nl_prewrap T v) base.

(* ================================================================================================
   C: integer constants (ISO C11 6.4.4.1), unary minus, "- 1", conversion to the target type
   ================================================================================================ *)
Definition ctype := (Z * bool)%type.          (* width, signed *)
Definition ct_max (t : ctype) : Z := if snd t then 2 ^ (fst t - 1) - 1 else 2 ^ fst t - 1.
Definition ct_min (t : ctype) : Z := if snd t then - 2 ^ (fst t - 1) else 0.
Definition c_int : ctype := (C_INT_BITS, true).
Definition c_uint : ctype := (C_INT_BITS, false).
Definition c_long : ctype := (C_LONG_BITS, true).
Definition c_ulong : ctype := (C_LONG_BITS, false).
Definition c_llong : ctype := (C_LLONG_BITS, true).
Definition c_ullong : ctype := (C_LLONG_BITS, false).

(* the table of 6.4.4.1 paragraph 5: candidate types in order *)
Definition c_candidates (hex u : bool) (l : Z) : list ctype :=
  match u, l with
  | false, 0 => if hex then [c_int; c_uint; c_long; c_ulong; c_llong; c_ullong] else [c_int; c_long; c_llong]
  | true, 0 => [c_uint; c_ulong; c_ullong]
  | false, 1 => if hex then [c_long; c_ulong; c_llong; c_ullong] else [c_long; c_llong]
  | true, 1 => [c_ulong; c_ullong]
  | false, _ => if hex then [c_llong; c_ullong] else [c_llong]
  | true, _ => [c_ullong]
  end.

(* type of the constant: the first candidate that can represent its value; None = no type
   ("integer constant is too large") *)
Definition c_const_type (hex u : bool) (l : Z) (mag : Z) : option ctype :=
  find (fun t => mag <=? ct_max t) (c_candidates hex u l).

(* value and type of the emitted expression; None = no type or signed overflow (undefined) *)
Definition c_eval (c : ctext) : option (ctype * Z) :=
  match c_const_type (ct_hex c) (ct_u c) (ct_l c) (ct_mag c) with
  | None => None
  | Some t =>
      let v1 := if ct_neg c then
                  (if snd t then - ct_mag c                       (* |v| <= max: no overflow *)
                   else (2 ^ fst t - ct_mag c) mod 2 ^ fst t)     (* unsigned negation wraps *)
                else ct_mag c in
      if ct_paren c then
        (* "( ... - 1)": the type of the constant has rank >= int, so it is the result type *)
        if snd t then (if ct_min t <=? v1 - 1 then Some (t, v1 - 1) else None)
        else Some (t, (v1 - 1) mod 2 ^ fst t)
      else Some (t, v1)
  end.

(* conversion of a value to the target type (gcc/clang: modular) *)
Definition c_convert (T : itype) (v : Z) : Z := wrap_T T v.

(* ================================================================================================
   run time: lib/detail/strconv.nelua int2str / str2int (base 10), 64-bit
   ================================================================================================ *)
(* int2str for a signed 64-bit x: digits are produced from the least significant one with
   quot = x /// 10 (truncation), rema = |x - quot*10|; None = out of fuel or buffer overrun *)
Fixpoint int2str_digits (fuel : nat) (x : Z) (acc : list Z) : option (list Z) :=
  match fuel with
  | O => None
  | S f =>
      if x =? 0 then Some acc
      else
        let quot := Z.quot x 10 in
        let rema := wrap64 (x - wrap64 (quot * 10)) in
        let rema := if rema <? 0 then wrap64 (- rema) else rema in
        int2str_digits f quot ((rema + 48) :: acc)
  end.

Definition nl_int2str (x : Z) : option (list Z) :=
  match (if x =? 0 then Some [48] else int2str_digits 64 x []) with
  | None => None
  | Some ds =>
      let s := if x <? 0 then 45 :: ds else ds in
      (* the buffer: INT2STR_BUF bytes, one of them the terminator *)
      if Z.of_nat (List.length s) <=? INT2STR_BUF - 1 then Some s else None
  end.

(* unsigned 64-bit variant (tostring of usize/uint64) *)
Fixpoint uint2str_digits (fuel : nat) (x : Z) (acc : list Z) : option (list Z) :=
  match fuel with
  | O => None
  | S f => if x =? 0 then Some acc else uint2str_digits f (x / 10) ((x mod 10 + 48) :: acc)
  end.
Definition nl_uint2str (x : Z) : option (list Z) :=
  if x =? 0 then Some [48] else uint2str_digits 64 x [].

Definition isspace (c : Z) : bool := (c =? 32) || ((9 <=? c) && (c <=? 13)).
Fixpoint skip_spaces (s : list Z) : list Z :=
  match s with c :: r => if isspace c then skip_spaces r else s | [] => [] end.

(* the digit loop of str2int: n = n*base + x in uint64 (wraps), stops at the first non-digit *)
Fixpoint str2int_digits (base : Z) (n : Z) (s : list Z) : Z * list Z :=
  match s with
  | [] => (n, [])
  | c :: r =>
      match digit_of c with
      | Some x => if x <? base then str2int_digits base (u64 (u64 (n * base) + x)) r else (n, s)
      | None => (n, s)
      end
  end.

(* the digit loop of str2int moves iff the first character is a digit of the base *)
Definition first_is_digit (base : Z) (s : list Z) : bool :=
  match s with
  | c :: _ => match digit_of c with Some x => x <? base | None => false end
  | [] => false
  end.

(* str2int(s, base): None = (false, 0).  base = 0 detects a 0x / 0b prefix (only when at least one more
   character follows the '0'), otherwise base 10 *)
Definition nl_str2int (base : Z) (s : list Z) : option Z :=
  match s with
  | [] => None
  | _ =>
      match skip_spaces s with
      | [] => None
      | c :: r =>
          let neg := c =? 45 in
          let body := if neg || (c =? 43) then r else c :: r in
          let '(base, body) :=
            if base =? 0 then
              match body with
              | b0 :: bc :: r2 =>
                  if negb (b0 =? 48) then (10, body)
                  else if (bc =? 98) || (bc =? 66) then (2, r2)
                  else if (bc =? 120) || (bc =? 88) then (16, r2)
                  else (10, body)
              | _ => (10, body)
              end
            else (base, body) in
          if negb ((2 <=? base) && (base <=? 36)) then None else
          if negb (first_is_digit base body) then None else      (* 4928697: pos == init after the digit loop: no digit at all *)
          let '(n, rest) := str2int_digits base 0 body in
          match skip_spaces rest with
          | [] => Some (wrap64 (if neg then u64 (- n) else n))
          | _ => None
          end
      end
  end.
Definition nl_str2int10 (s : list Z) : option Z := nl_str2int 10 s.

(* the numerals str2int is to accept, and their value (the obligation of C14_str2int_sound): blanks, an optional sign,
   with base detection an optional 0x / 0X (base 16) or 0b / 0B (base 2) prefix, AT LEAST ONE digit of the base,
   blanks; the value is the digits' value modulo 2^64, negated for '-', read as a signed 64-bit integer *)
Definition digit_val (c : Z) : Z := match digit_of c with Some x => x | None => 0 end.
Definition valid_digit (b c : Z) : Prop := exists x, digit_of c = Some x /\ x < b.
Definition numeral_shape (base : Z) (s : list Z) (v : Z) : Prop :=
  exists sp1 sgn pre ds sp2 b,
    s = sp1 ++ sgn ++ pre ++ ds ++ sp2 /\
    Forall (fun c => isspace c = true) sp1 /\ Forall (fun c => isspace c = true) sp2 /\
    (sgn = [] \/ sgn = [45] \/ sgn = [43]) /\
    ((pre = [] /\ b = (if base =? 0 then 10 else base)) \/
     (base = 0 /\ exists x, pre = [48; x] /\ ((x = 120 \/ x = 88) /\ b = 16 \/ (x = 98 \/ x = 66) /\ b = 2))) /\
    2 <= b <= 36 /\ ds <> [] /\ Forall (valid_digit b) ds /\
    let n := u64 (digits_value b 0 (map digit_val ds)) in
    v = wrap64 (if match sgn with [45] => true | _ => false end then u64 (- n) else n).

(* ================================================================================================
   the ".0" rules (texts as lists of character codes)
   ================================================================================================ *)
Definition is_int_char (c : Z) : bool := ((48 <=? c) && (c <=? 57)) || (c =? 45).
(* lobject.c tostringbuff:  if (buff[strspn(buff, "-0123456789")] == '\0') add ".0" *)
Definition lua_add_dot0 (s : list Z) : list Z := if forallb is_int_char s then s ++ [46; 48] else s.
(* cbuiltins.lua print, float branch: scan for a char outside [0-9-]; append ".0" when none was found,
   the text is non-empty and two more bytes fit the 48-byte buffer *)
Definition PRINT_BUF : Z := 48.
Definition nl_print_dot0 (s : list Z) : list Z :=
  let fractnum := existsb (fun c => negb (is_int_char c)) s in
  if negb fractnum && (0 <? Z.of_nat (List.length s)) && (Z.of_nat (List.length s) + 2 <? PRINT_BUF) then s ++ [46; 48] else s.
(* bn.todecsci with forcefract:  if s:find('^-?[0-9]+$') then s = s .. '.0' *)
Definition is_digit_char (c : Z) : bool := (48 <=? c) && (c <=? 57).
Definition int_like (s : list Z) : bool :=
  match s with
  | [] => false
  | c :: r =>
      if c =? 45 then negb (match r with [] => true | _ => false end) && forallb is_digit_char r
      else forallb is_digit_char s
  end.
Definition nl_force_fract (s : list Z) : list Z := if int_like s then s ++ [46; 48] else s.
