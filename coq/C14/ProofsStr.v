(* C14 - run-time integer <-> text: strconv.int2str followed by strconv.str2int is the identity on every
   int64 (the minimum included), and the text fits int2str's buffer *)
From C14 Require Import Model ProofsInt.
Local Open Scope Z_scope.

Lemma u64_mod x : u64 x = x mod two64.
Proof. reflexivity. Qed.

Lemma u64_step a b : u64 (u64 (u64 a * 10) + b) = u64 (a * 10 + b).
Proof.
  unfold u64, two64.
  rewrite Z.add_mod_idemp_l by lia. rewrite <- (Z.add_mod_idemp_l (a mod _ * 10)) by lia.
  rewrite Z.mul_mod_idemp_l by lia. rewrite Z.add_mod_idemp_l by lia. reflexivity.
Qed.

Lemma digit_of_dec d : 0 <= d < 10 -> digit_of (d + 48) = Some d.
Proof.
  intros H. unfold digit_of.
  destruct (Z.leb_spec 48 (d + 48)); [|lia]. destruct (Z.leb_spec (d + 48) 57); [|lia]. cbn [andb]. f_equal. lia.
Qed.

(* reading back what uint2str_digits wrote: the accumulator becomes n * 10^k + m (modulo 2^64) *)
Lemma read_written f : forall m acc ds, 0 <= m -> uint2str_digits f m acc = Some ds ->
  exists k, 0 <= k /\ forall n, str2int_digits 10 (u64 n) ds = str2int_digits 10 (u64 (n * 10 ^ k + m)) acc.
Proof.
  induction f as [|f IH]; intros m acc ds Hm; [discriminate|].
  cbn [uint2str_digits]. destruct (Z.eqb_spec m 0) as [->|Hne].
  - intros [= <-]. exists 0. split; [lia|]. intros n. f_equal. f_equal. lia.
  - intros H. apply IH in H; [|apply Z.div_pos; lia]. destruct H as (k & Hk & H).
    exists (k + 1). split; [lia|]. intros n. rewrite H.
    cbn [str2int_digits]. rewrite digit_of_dec by (apply Z.mod_pos_bound; lia).
    destruct (Z.ltb_spec (m mod 10) 10) as [_|Hc]; [|pose proof (Z.mod_pos_bound m 10 ltac:(lia)); lia].
    rewrite u64_step. f_equal. f_equal.
    rewrite Z.pow_add_r by lia. change (10 ^ 1) with 10.
    pose proof (Z.div_mod m 10 ltac:(lia)). lia.
Qed.

Lemma written_some f : forall m acc, 0 <= m < 10 ^ Z.of_nat f -> exists ds, uint2str_digits (S f) m acc = Some ds.
Proof.
  induction f as [|f IH]; intros m acc Hm.
  - cbn in Hm. assert (m = 0) by lia. subst. eexists. reflexivity.
  - cbn [uint2str_digits]. destruct (Z.eqb_spec m 0); [eexists; reflexivity|].
    apply IH. rewrite Nat2Z.inj_succ, Z.pow_succ_r in Hm by lia.
    split; [apply Z.div_pos; lia|]. apply Z.div_lt_upper_bound; lia.
Qed.

Lemma written_length f : forall m acc ds j, 0 <= m < 10 ^ Z.of_nat j ->
  uint2str_digits f m acc = Some ds -> (length ds <= j + length acc)%nat.
Proof.
  induction f as [|f IH]; intros m acc ds j Hm; [discriminate|].
  cbn [uint2str_digits]. destruct (Z.eqb_spec m 0).
  - intros [= <-]. lia.
  - intros H. destruct j as [|j]; [cbn in Hm; lia|].
    rewrite Nat2Z.inj_succ, Z.pow_succ_r in Hm by lia.
    apply (IH _ _ _ j) in H.
    + cbn [length] in H. lia.
    + split; [apply Z.div_pos; lia|]. apply Z.div_lt_upper_bound; lia.
Qed.

Lemma written_digits f : forall m acc ds, 0 <= m -> uint2str_digits f m acc = Some ds ->
  exists pre, ds = pre ++ acc /\ Forall (fun c => 48 <= c <= 57) pre.
Proof.
  induction f as [|f IH]; intros m acc ds Hm; [discriminate|].
  cbn [uint2str_digits]. destruct (Z.eqb_spec m 0).
  - intros [= <-]. exists []. split; [reflexivity|constructor].
  - intros H. apply IH in H; [|apply Z.div_pos; lia]. destruct H as (pre & -> & Hp).
    exists (pre ++ [m mod 10 + 48]). split; [rewrite <- app_assoc; reflexivity|].
    apply Forall_app. split; [exact Hp|]. constructor; [|constructor].
    pose proof (Z.mod_pos_bound m 10 ltac:(lia)). lia.
Qed.

Lemma written_nonempty f m acc ds : 0 < m -> uint2str_digits f m acc = Some ds -> ds <> [].
Proof.
  intros Hm. destruct f as [|f]; [discriminate|]. cbn [uint2str_digits].
  destruct (Z.eqb_spec m 0); [lia|]. intros H.
  destruct (written_digits f (m / 10) ((m mod 10 + 48) :: acc) ds ltac:(apply Z.div_pos; lia) H) as (pre & -> & _).
  destruct pre; discriminate.
Qed.

(* the signed digit loop produces the digits of |x| *)
Lemma int2str_abs f : forall x acc, Z.abs x <= two63 ->
  int2str_digits f x acc = uint2str_digits f (Z.abs x) acc.
Proof.
  induction f as [|f IH]; intros x acc Hx; [reflexivity|].
  cbn [int2str_digits uint2str_digits].
  destruct (Z.eqb_spec x 0) as [->|Hne]; [reflexivity|].
  destruct (Z.eqb_spec (Z.abs x) 0); [lia|].
  assert (Hq : Z.abs (Z.quot x 10) = Z.abs x / 10).
  { destruct (Z.le_ge_cases 0 x).
    - rewrite Z.quot_div_nonneg by lia. rewrite (Z.abs_eq x) by lia. apply Z.abs_eq. apply Z.div_pos; lia.
    - rewrite <- (Z.opp_involutive x) at 1. rewrite Z.quot_opp_l by lia.
      rewrite Z.quot_div_nonneg by lia. rewrite Z.abs_opp. rewrite (Z.abs_eq ((- x) / 10)) by (apply Z.div_pos; lia).
      rewrite Z.abs_neq by lia. reflexivity. }
  assert (Hr : x - Z.quot x 10 * 10 = Z.rem x 10) by (pose proof (Z.quot_rem' x 10); lia).
  assert (Hrb : Z.abs (Z.rem x 10) = Z.abs x mod 10).
  { destruct (Z.le_ge_cases 0 x).
    - rewrite Z.rem_mod_nonneg by lia. rewrite (Z.abs_eq x) by lia. apply Z.abs_eq. apply Z.mod_pos_bound. lia.
    - rewrite <- (Z.opp_involutive x) at 1. rewrite Z.rem_opp_l by lia. rewrite Z.abs_opp.
      rewrite Z.rem_mod_nonneg by lia. rewrite (Z.abs_eq ((- x) mod 10)) by (apply Z.mod_pos_bound; lia).
      rewrite Z.abs_neq by lia. reflexivity. }
  assert (Hqb : Z.abs (Z.quot x 10 * 10) <= Z.abs x).
  { rewrite Z.abs_mul, Hq. change (Z.abs 10) with 10. pose proof (Z.mul_div_le (Z.abs x) 10 ltac:(lia)). lia. }
  rewrite (wrap64_id (Z.quot x 10 * 10)) by (unfold in_i64, minint, maxint, two63 in *; lia).
  rewrite Hr.
  pose proof (Z.mod_pos_bound (Z.abs x) 10 ltac:(lia)) as Hmb.
  rewrite (wrap64_id (Z.rem x 10)) by (unfold in_i64, minint, maxint, two63; lia).
  assert (Hrema : (if Z.rem x 10 <? 0 then wrap64 (- Z.rem x 10) else Z.rem x 10) = Z.abs x mod 10).
  { rewrite <- Hrb. destruct (Z.ltb_spec (Z.rem x 10) 0).
    - rewrite wrap64_id by (unfold in_i64, minint, maxint, two63; lia). lia.
    - lia. }
  rewrite Hrema. rewrite IH by (rewrite Hq; pose proof (Z.div_le_upper_bound (Z.abs x) 10 two63 ltac:(lia)); unfold two63 in *; lia).
  rewrite Hq. reflexivity.
Qed.

Lemma skip_spaces_digit c r : 45 <= c <= 57 -> skip_spaces (c :: r) = c :: r.
Proof.
  intros H. cbn [skip_spaces]. unfold isspace.
  destruct (Z.eqb_spec c 32); [lia|]. destruct (Z.leb_spec 9 c); destruct (Z.leb_spec c 13); try lia; reflexivity.
Qed.

Lemma first_is_digit_dec c r : 48 <= c <= 57 -> first_is_digit 10 (c :: r) = true.
Proof.
  intros H. unfold first_is_digit, digit_of.
  destruct (Z.leb_spec 48 c); [|lia]. destruct (Z.leb_spec c 57); [|lia]. cbn [andb]. apply Z.ltb_lt. lia.
Qed.

(* str2int(int2str(x)) = x for every 64-bit integer, and the text fits the buffer *)
Theorem int2str_str2int_roundtrip x : in_i64 x ->
  exists s, nl_int2str x = Some s /\ nl_str2int10 s = Some x /\ Z.of_nat (length s) <= 21.
Proof.
  intros Hx. unfold nl_int2str.
  destruct (Z.eqb_spec x 0) as [->|Hne].
  { exists [48]. split; [reflexivity|split; [reflexivity|cbn; lia]]. }
  assert (Habs : 0 < Z.abs x <= two63) by (unfold in_i64, minint, maxint, two63 in *; lia).
  rewrite int2str_abs by lia.
  assert (Hlt : 0 <= Z.abs x < 10 ^ Z.of_nat 20) by (unfold two63 in *; change (10 ^ Z.of_nat 20) with 100000000000000000000; lia).
  destruct (written_some 63 (Z.abs x) []) as [ds Hds].
  { unfold two63 in *. split; [lia|]. apply Z.le_lt_trans with 9223372036854775808; [lia|]. vm_compute. reflexivity. }
  rewrite Hds.
  pose proof (written_length _ _ _ _ 20%nat Hlt Hds) as Hlen. cbn [length] in Hlen.
  destruct (written_digits _ (Z.abs x) [] ds ltac:(lia) Hds) as (pre & Hpre & Hdig). rewrite app_nil_r in Hpre. subst pre.
  destruct (read_written _ (Z.abs x) [] ds ltac:(lia) Hds) as (k & Hk & Hread).
  specialize (Hread 0). change (u64 0) with 0 in Hread. rewrite Z.mul_0_l, Z.add_0_l in Hread.
  rewrite (u64_mod (Z.abs x)), Z.mod_small in Hread by (unfold two63, two64 in *; lia).
  cbn [str2int_digits] in Hread.
  assert (Hnonempty : ds <> []) by (eapply written_nonempty; [|exact Hds]; lia).
  destruct (Z.ltb_spec x 0) as [Hneg|Hpos].
  - exists (45 :: ds). split.
    + destruct (Z.leb_spec (Z.of_nat (length (45 :: ds))) (INT2STR_BUF - 1)); [reflexivity|].
      cbn [length] in *. change INT2STR_BUF with 48 in *. lia.
    + split; [|cbn [length]; lia].
      unfold nl_str2int10, nl_str2int. rewrite skip_spaces_digit by lia.
      change (45 =? 45) with true. cbn [orb]. change (10 =? 0) with false. cbn iota.
      change ((2 <=? 10) && (10 <=? 36)) with true. cbn [negb].
      assert (Hfd : first_is_digit 10 ds = true).
      { destruct ds as [|c0 r0]; [contradiction|]. inversion Hdig as [|? ? Hc0 Hr0]; subst. apply first_is_digit_dec. lia. }
      rewrite Hfd. cbn [negb].
      rewrite Hread. cbn [skip_spaces]. f_equal.
      unfold wrap64, u64, two63, two64 in *. lia.
  - exists ds. split.
    + destruct (Z.leb_spec (Z.of_nat (length ds)) (INT2STR_BUF - 1)); [reflexivity|].
      change INT2STR_BUF with 48 in *. lia.
    + split; [|lia].
      destruct ds as [|c r]; [contradiction|]. inversion Hdig as [|? ? Hc Hr]; subst.
      unfold nl_str2int10, nl_str2int. rewrite skip_spaces_digit by lia.
      destruct (Z.eqb_spec c 45); [lia|]. destruct (Z.eqb_spec c 43); [lia|]. cbn [orb].
      change (10 =? 0) with false. cbn iota. change ((2 <=? 10) && (10 <=? 36)) with true. cbn [negb].
      rewrite (first_is_digit_dec c r) by lia. cbn [negb].
      rewrite Hread. cbn [skip_spaces]. f_equal.
      unfold wrap64, two63, two64 in *. rewrite Z.abs_eq by lia. unfold in_i64, minint, maxint, two63 in Hx. lia.
Qed.

(* ------------------------------------------------------------------ which strings str2int accepts *)
(* Lua's l_str2int / luaB_tonumber accept a numeral only if it has at least one digit *)
Definition has_digit (s : list Z) : Prop := exists c x, In c s /\ digit_of c = Some x.
Definition str2int_sound : Prop := forall base s v, nl_str2int base s = Some v -> has_digit s.

Lemma skip_spaces_in c s : In c (skip_spaces s) -> In c s.
Proof.
  induction s as [|d r IH]; cbn [skip_spaces]; [tauto|]. destruct (isspace d); [intros H; right; apply IH; exact H|tauto].
Qed.

Lemma str2int_digits_moved base n0 s n rest : str2int_digits base n0 s = (n, rest) -> n <> n0 -> has_digit s.
Proof.
  destruct s as [|c r]; cbn [str2int_digits]; [intros [= <- _] H; contradiction|].
  destruct (digit_of c) as [x|] eqn:E; [|intros [= <- _] H; contradiction].
  intros _ _. exists c, x. split; [left; reflexivity|exact E].
Qed.

(* after 4928697 the digit loop must move: whatever str2int accepts contains a digit *)
Lemma str2int_sound_holds : str2int_sound.
Proof.
  intros base s v. unfold nl_str2int. destruct s as [|c0 s0]; [discriminate|]. set (s := c0 :: s0).
  destruct (skip_spaces s) as [|c r] eqn:Esk; [discriminate|].
  assert (Hin : forall y, In y (c :: r) -> In y s) by (intros y Hy; apply skip_spaces_in; rewrite Esk; exact Hy).
  set (body := if (c =? 45) || (c =? 43) then r else c :: r).
  assert (Hb : forall y, In y body -> In y s).
  { intros y Hy. apply Hin. subst body. destruct ((c =? 45) || (c =? 43)); [right; exact Hy|exact Hy]. }
  set (pb := if base =? 0
             then match body with
                  | b0 :: bc :: r2 =>
                      if negb (b0 =? 48) then (10, body)
                      else if (bc =? 98) || (bc =? 66) then (2, r2) else if (bc =? 120) || (bc =? 88) then (16, r2) else (10, body)
                  | _ => (10, body)
                  end
             else (base, body)).
  assert (Hp : forall y, In y (snd pb) -> In y body).
  { subst pb. destruct (base =? 0); [|tauto]. destruct body as [|b0 [|bc r2]]; try tauto.
    destruct (negb (b0 =? 48)); [tauto|].
    destruct ((bc =? 98) || (bc =? 66)); [intros y Hy; right; right; exact Hy|].
    destruct ((bc =? 120) || (bc =? 88)); [intros y Hy; right; right; exact Hy|tauto]. }
  destruct pb as [b body'] eqn:Epb. cbn [snd] in Hp.
  destruct (negb ((2 <=? b) && (b <=? 36))); [discriminate|].
  destruct (first_is_digit b body') eqn:Efd; cbn [negb]; [|discriminate].
  intros _. unfold first_is_digit in Efd. destruct body' as [|y t]; [discriminate|].
  destruct (digit_of y) as [x|] eqn:Ed; [|discriminate].
  exists y, x. split; [apply Hb, Hp; left; reflexivity|exact Ed].
Qed.
