(* C14 - run-time integer <-> text: strconv.int2str followed by strconv.str2int is the identity on every
   int64 (the minimum included), and the text fits int2str's buffer *)
From C14 Require Import Model ProofsInt.
Local Open Scope Z_scope.

Lemma u64_mod x : u64 x = x mod two64.
Proof. reflexivity. Qed.

Lemma u64_step a b : u64 (u64 (u64 a * 10) + b) = u64 (a * 10 + b).
Proof.
  unfold u64, two64.
  rewrite Z.add_mod_idemp_l by lia. rewrite <- (Z.add_mod_idemp_l (a mod _ * 10)) by lia.
  rewrite Z.mul_mod_idemp_l by lia. rewrite Z.add_mod_idemp_l by lia. reflexivity.
Qed.

Lemma digit_of_dec d : 0 <= d < 10 -> digit_of (d + 48) = Some d.
Proof.
  intros H. unfold digit_of.
  destruct (Z.leb_spec 48 (d + 48)); [|lia]. destruct (Z.leb_spec (d + 48) 57); [|lia]. cbn [andb]. f_equal. lia.
Qed.

(* reading back what uint2str_digits wrote: the accumulator becomes n * 10^k + m (modulo 2^64) *)
Lemma read_written f : forall m acc ds, 0 <= m -> uint2str_digits f m acc = Some ds ->
  exists k, 0 <= k /\ forall n, str2int_digits 10 (u64 n) ds = str2int_digits 10 (u64 (n * 10 ^ k + m)) acc.
Proof.
  induction f as [|f IH]; intros m acc ds Hm; [discriminate|].
  cbn [uint2str_digits]. destruct (Z.eqb_spec m 0) as [->|Hne].
  - intros [= <-]. exists 0. split; [lia|]. intros n. f_equal. f_equal. lia.
  - intros H. apply IH in H; [|apply Z.div_pos; lia]. destruct H as (k & Hk & H).
    exists (k + 1). split; [lia|]. intros n. rewrite H.
    cbn [str2int_digits]. rewrite digit_of_dec by (apply Z.mod_pos_bound; lia).
    destruct (Z.ltb_spec (m mod 10) 10) as [_|Hc]; [|pose proof (Z.mod_pos_bound m 10 ltac:(lia)); lia].
    rewrite u64_step. f_equal. f_equal.
    rewrite Z.pow_add_r by lia. change (10 ^ 1) with 10.
    pose proof (Z.div_mod m 10 ltac:(lia)). lia.
Qed.

Lemma written_some f : forall m acc, 0 <= m < 10 ^ Z.of_nat f -> exists ds, uint2str_digits (S f) m acc = Some ds.
Proof.
  induction f as [|f IH]; intros m acc Hm.
  - cbn in Hm. assert (m = 0) by lia. subst. eexists. reflexivity.
  - cbn [uint2str_digits]. destruct (Z.eqb_spec m 0); [eexists; reflexivity|].
    apply IH. rewrite Nat2Z.inj_succ, Z.pow_succ_r in Hm by lia.
    split; [apply Z.div_pos; lia|]. apply Z.div_lt_upper_bound; lia.
Qed.

Lemma written_length f : forall m acc ds j, 0 <= m < 10 ^ Z.of_nat j ->
  uint2str_digits f m acc = Some ds -> (length ds <= j + length acc)%nat.
Proof.
  induction f as [|f IH]; intros m acc ds j Hm; [discriminate|].
  cbn [uint2str_digits]. destruct (Z.eqb_spec m 0).
  - intros [= <-]. lia.
  - intros H. destruct j as [|j]; [cbn in Hm; lia|].
    rewrite Nat2Z.inj_succ, Z.pow_succ_r in Hm by lia.
    apply (IH _ _ _ j) in H.
    + cbn [length] in H. lia.
    + split; [apply Z.div_pos; lia|]. apply Z.div_lt_upper_bound; lia.
Qed.

Lemma written_digits f : forall m acc ds, 0 <= m -> uint2str_digits f m acc = Some ds ->
  exists pre, ds = pre ++ acc /\ Forall (fun c => 48 <= c <= 57) pre.
Proof.
  induction f as [|f IH]; intros m acc ds Hm; [discriminate|].
  cbn [uint2str_digits]. destruct (Z.eqb_spec m 0).
  - intros [= <-]. exists []. split; [reflexivity|constructor].
  - intros H. apply IH in H; [|apply Z.div_pos; lia]. destruct H as (pre & -> & Hp).
    exists (pre ++ [m mod 10 + 48]). split; [rewrite <- app_assoc; reflexivity|].
    apply Forall_app. split; [exact Hp|]. constructor; [|constructor].
    pose proof (Z.mod_pos_bound m 10 ltac:(lia)). lia.
Qed.

Lemma written_nonempty f m acc ds : 0 < m -> uint2str_digits f m acc = Some ds -> ds <> [].
Proof.
  intros Hm. destruct f as [|f]; [discriminate|]. cbn [uint2str_digits].
  destruct (Z.eqb_spec m 0); [lia|]. intros H.
  destruct (written_digits f (m / 10) ((m mod 10 + 48) :: acc) ds ltac:(apply Z.div_pos; lia) H) as (pre & -> & _).
  destruct pre; discriminate.
Qed.

(* the signed digit loop produces the digits of |x| *)
Lemma int2str_abs f : forall x acc, Z.abs x <= two63 ->
  int2str_digits f x acc = uint2str_digits f (Z.abs x) acc.
Proof.
  induction f as [|f IH]; intros x acc Hx; [reflexivity|].
  cbn [int2str_digits uint2str_digits].
  destruct (Z.eqb_spec x 0) as [->|Hne]; [reflexivity|].
  destruct (Z.eqb_spec (Z.abs x) 0); [lia|].
  assert (Hq : Z.abs (Z.quot x 10) = Z.abs x / 10).
  { destruct (Z.le_ge_cases 0 x).
    - rewrite Z.quot_div_nonneg by lia. rewrite (Z.abs_eq x) by lia. apply Z.abs_eq. apply Z.div_pos; lia.
    - rewrite <- (Z.opp_involutive x) at 1. rewrite Z.quot_opp_l by lia.
      rewrite Z.quot_div_nonneg by lia. rewrite Z.abs_opp. rewrite (Z.abs_eq ((- x) / 10)) by (apply Z.div_pos; lia).
      rewrite Z.abs_neq by lia. reflexivity. }
  assert (Hr : x - Z.quot x 10 * 10 = Z.rem x 10) by (pose proof (Z.quot_rem' x 10); lia).
  assert (Hrb : Z.abs (Z.rem x 10) = Z.abs x mod 10).
  { destruct (Z.le_ge_cases 0 x).
    - rewrite Z.rem_mod_nonneg by lia. rewrite (Z.abs_eq x) by lia. apply Z.abs_eq. apply Z.mod_pos_bound. lia.
    - rewrite <- (Z.opp_involutive x) at 1. rewrite Z.rem_opp_l by lia. rewrite Z.abs_opp.
      rewrite Z.rem_mod_nonneg by lia. rewrite (Z.abs_eq ((- x) mod 10)) by (apply Z.mod_pos_bound; lia).
      rewrite Z.abs_neq by lia. reflexivity. }
  assert (Hqb : Z.abs (Z.quot x 10 * 10) <= Z.abs x).
  { rewrite Z.abs_mul, Hq. change (Z.abs 10) with 10. pose proof (Z.mul_div_le (Z.abs x) 10 ltac:(lia)). lia. }
  rewrite (wrap64_id (Z.quot x 10 * 10)) by (unfold in_i64, minint, maxint, two63 in *; lia).
  rewrite Hr.
  pose proof (Z.mod_pos_bound (Z.abs x) 10 ltac:(lia)) as Hmb.
  rewrite (wrap64_id (Z.rem x 10)) by (unfold in_i64, minint, maxint, two63; lia).
  assert (Hrema : (if Z.rem x 10 <? 0 then wrap64 (- Z.rem x 10) else Z.rem x 10) = Z.abs x mod 10).
  { rewrite <- Hrb. destruct (Z.ltb_spec (Z.rem x 10) 0).
    - rewrite wrap64_id by (unfold in_i64, minint, maxint, two63; lia). lia.
    - lia. }
  rewrite Hrema. rewrite IH by (rewrite Hq; pose proof (Z.div_le_upper_bound (Z.abs x) 10 two63 ltac:(lia)); unfold two63 in *; lia).
  rewrite Hq. reflexivity.
Qed.

Lemma skip_spaces_digit c r : 45 <= c <= 57 -> skip_spaces (c :: r) = c :: r.
Proof.
  intros H. cbn [skip_spaces]. unfold isspace.
  destruct (Z.eqb_spec c 32); [lia|]. destruct (Z.leb_spec 9 c); destruct (Z.leb_spec c 13); try lia; reflexivity.
Qed.

Lemma first_is_digit_dec c r : 48 <= c <= 57 -> first_is_digit 10 (c :: r) = true.
Proof.
  intros H. unfold first_is_digit, digit_of.
  destruct (Z.leb_spec 48 c); [|lia]. destruct (Z.leb_spec c 57); [|lia]. cbn [andb]. apply Z.ltb_lt. lia.
Qed.

(* str2int(int2str(x)) = x for every 64-bit integer, and the text fits the buffer *)
Theorem int2str_str2int_roundtrip x : in_i64 x ->
  exists s, nl_int2str x = Some s /\ nl_str2int10 s = Some x /\ Z.of_nat (length s) <= 21.
Proof.
  intros Hx. unfold nl_int2str.
  destruct (Z.eqb_spec x 0) as [->|Hne].
  { exists [48]. split; [reflexivity|split; [reflexivity|cbn; lia]]. }
  assert (Habs : 0 < Z.abs x <= two63) by (unfold in_i64, minint, maxint, two63 in *; lia).
  rewrite int2str_abs by lia.
  assert (Hlt : 0 <= Z.abs x < 10 ^ Z.of_nat 20) by (unfold two63 in *; change (10 ^ Z.of_nat 20) with 100000000000000000000; lia).
  destruct (written_some 63 (Z.abs x) []) as [ds Hds].
  { unfold two63 in *. split; [lia|]. apply Z.le_lt_trans with 9223372036854775808; [lia|]. vm_compute. reflexivity. }
  rewrite Hds.
  pose proof (written_length _ _ _ _ 20%nat Hlt Hds) as Hlen. cbn [length] in Hlen.
  destruct (written_digits _ (Z.abs x) [] ds ltac:(lia) Hds) as (pre & Hpre & Hdig). rewrite app_nil_r in Hpre. subst pre.
  destruct (read_written _ (Z.abs x) [] ds ltac:(lia) Hds) as (k & Hk & Hread).
  specialize (Hread 0). change (u64 0) with 0 in Hread. rewrite Z.mul_0_l, Z.add_0_l in Hread.
  rewrite (u64_mod (Z.abs x)), Z.mod_small in Hread by (unfold two63, two64 in *; lia).
  cbn [str2int_digits] in Hread.
  assert (Hnonempty : ds <> []) by (eapply written_nonempty; [|exact Hds]; lia).
  destruct (Z.ltb_spec x 0) as [Hneg|Hpos].
  - exists (45 :: ds). split.
    + destruct (Z.leb_spec (Z.of_nat (length (45 :: ds))) (INT2STR_BUF - 1)); [reflexivity|].
      cbn [length] in *. change INT2STR_BUF with 48 in *. lia.
    + split; [|cbn [length]; lia].
      unfold nl_str2int10, nl_str2int. rewrite skip_spaces_digit by lia.
      change (45 =? 45) with true. cbn [orb]. change (10 =? 0) with false. cbn iota.
      change ((2 <=? 10) && (10 <=? 36)) with true. cbn [negb].
      assert (Hfd : first_is_digit 10 ds = true).
      { destruct ds as [|c0 r0]; [contradiction|]. inversion Hdig as [|? ? Hc0 Hr0]; subst. apply first_is_digit_dec. lia. }
      rewrite Hfd. cbn [negb].
      rewrite Hread. cbn [skip_spaces]. f_equal.
      unfold wrap64, u64, two63, two64 in *. lia.
  - exists ds. split.
    + destruct (Z.leb_spec (Z.of_nat (length ds)) (INT2STR_BUF - 1)); [reflexivity|].
      change INT2STR_BUF with 48 in *. lia.
    + split; [|lia].
      destruct ds as [|c r]; [contradiction|]. inversion Hdig as [|? ? Hc Hr]; subst.
      unfold nl_str2int10, nl_str2int. rewrite skip_spaces_digit by lia.
      destruct (Z.eqb_spec c 45); [lia|]. destruct (Z.eqb_spec c 43); [lia|]. cbn [orb].
      change (10 =? 0) with false. cbn iota. change ((2 <=? 10) && (10 <=? 36)) with true. cbn [negb].
      rewrite (first_is_digit_dec c r) by lia. cbn [negb].
      rewrite Hread. cbn [skip_spaces]. f_equal.
      unfold wrap64, two63, two64 in *. rewrite Z.abs_eq by lia. unfold in_i64, minint, maxint, two63 in Hx. lia.
Qed.

(* ------------------------------------------------------------------ which strings str2int accepts *)
Lemma skip_spaces_split s : exists sp, s = sp ++ skip_spaces s /\ Forall (fun c => isspace c = true) sp.
Proof.
  induction s as [|c r IH]; [exists []; split; [reflexivity|constructor]|].
  cbn [skip_spaces]. destruct (isspace c) eqn:E.
  - destruct IH as (sp & E1 & F1). exists (c :: sp). split; [cbn; f_equal; exact E1|constructor; assumption].
  - exists []. split; [reflexivity|constructor].
Qed.

Lemma skip_spaces_nil s : skip_spaces s = [] -> Forall (fun c => isspace c = true) s.
Proof.
  intros H. destruct (skip_spaces_split s) as (sp & E & F). rewrite H, app_nil_r in E. subst. exact F.
Qed.

Lemma u64_step_gen m b x : u64 (u64 (u64 m * b) + x) = u64 (m * b + x).
Proof.
  unfold u64. rewrite Zplus_mod_idemp_l. rewrite (Z.add_mod (m mod two64 * b) x two64) by (unfold two64; lia).
  rewrite Zmult_mod_idemp_l. rewrite <- Z.add_mod by (unfold two64; lia). reflexivity.
Qed.

(* the digit loop: the longest prefix of digits of the base, its value modulo 2^64 *)
Lemma str2int_digits_split b : forall s m n rest, str2int_digits b (u64 m) s = (n, rest) ->
  exists ds, s = ds ++ rest /\ Forall (valid_digit b) ds /\ n = u64 (digits_value b m (map digit_val ds)).
Proof.
  induction s as [|c r IH]; intros m n rest; cbn [str2int_digits].
  - intros [= <- <-]. exists []. split; [reflexivity|]. split; [constructor|reflexivity].
  - destruct (digit_of c) as [x|] eqn:Ed.
    + destruct (Z.ltb_spec x b) as [Hx|Hx].
      * rewrite u64_step_gen. intros E. destruct (IH _ _ _ E) as (ds & E1 & F1 & V1).
        exists (c :: ds). split; [cbn; f_equal; exact E1|]. split; [constructor; [exists x; split; assumption|exact F1]|].
        cbn [map digits_value]. unfold digit_val at 1. rewrite Ed. exact V1.
      * intros [= <- <-]. exists []. split; [reflexivity|]. split; [constructor|reflexivity].
    + intros [= <- <-]. exists []. split; [reflexivity|]. split; [constructor|reflexivity].
Qed.

Lemma str2int_digits_len b : forall s m n rest, str2int_digits b m s = (n, rest) -> (length rest <= length s)%nat.
Proof.
  induction s as [|c r IH]; intros m n rest; cbn [str2int_digits]; [intros [= _ <-]; apply le_n|].
  destruct (digit_of c) as [z|]; [destruct (z <? b)|]; try (intros [= _ <-]; apply le_n).
  intros E. apply IH in E. cbn [length]. lia.
Qed.

(* after 4928697: whatever str2int accepts is a numeral of that shape, with that value *)
Lemma str2int_sound_holds base s v : nl_str2int base s = Some v -> numeral_shape base s v.
Proof.
  unfold nl_str2int. destruct s as [|c0 s0]; [discriminate|]. set (s := c0 :: s0).
  destruct (skip_spaces_split s) as (sp1 & Es & Fsp1).
  destruct (skip_spaces s) as [|c r] eqn:Esk; [discriminate|].
  set (neg := c =? 45).
  set (body := if neg || (c =? 43) then r else c :: r).
  set (sgn := if neg then [45] else if c =? 43 then [43] else []).
  assert (Ecr : c :: r = sgn ++ body).
  { subst sgn body neg. destruct (Z.eqb_spec c 45) as [->|]; [reflexivity|]. destruct (Z.eqb_spec c 43) as [->|]; reflexivity. }
  assert (Hsgn : (sgn = [] \/ sgn = [45] \/ sgn = [43]) /\ match sgn with [45] => true | _ => false end = neg).
  { subst sgn neg. destruct (Z.eqb_spec c 45); [tauto|]. destruct (c =? 43); tauto. }
  destruct Hsgn as [Hsg Hneg].
  set (pb := if base =? 0
             then match body with
                  | b0 :: bc :: r2 =>
                      if negb (b0 =? 48) then (10, body)
                      else if (bc =? 98) || (bc =? 66) then (2, r2) else if (bc =? 120) || (bc =? 88) then (16, r2) else (10, body)
                  | _ => (10, body)
                  end
             else (base, body)).
  assert (Hp : exists pre, body = pre ++ snd pb /\
                ((pre = [] /\ fst pb = (if base =? 0 then 10 else base)) \/
                 (base = 0 /\ exists x, pre = [48; x] /\ ((x = 120 \/ x = 88) /\ fst pb = 16 \/ (x = 98 \/ x = 66) /\ fst pb = 2)))).
  { subst pb. destruct (Z.eqb_spec base 0) as [E0|N0].
    2:{ exists []. split; [reflexivity|]. left. split; reflexivity. }
    destruct body as [|b0 [|bc r2]]; try (exists []; split; [reflexivity|left; split; reflexivity]).
    destruct (Z.eqb_spec b0 48) as [->|]; cbn [negb]; [|exists []; split; [reflexivity|left; split; reflexivity]].
    destruct ((bc =? 98) || (bc =? 66)) eqn:Eb.
    { exists [48; bc]. split; [reflexivity|]. right. split; [exact E0|]. exists bc. split; [reflexivity|]. right. split; [lia|reflexivity]. }
    destruct ((bc =? 120) || (bc =? 88)) eqn:Ex.
    { exists [48; bc]. split; [reflexivity|]. right. split; [exact E0|]. exists bc. split; [reflexivity|]. left. split; [lia|reflexivity]. }
    exists []. split; [reflexivity|left; split; reflexivity]. }
  destruct pb as [b body'] eqn:Epb. cbn [fst snd] in Hp. destruct Hp as (pre & Ebody & Hpre).
  destruct (Z.leb_spec 2 b); cbn [andb negb]; [|discriminate].
  destruct (Z.leb_spec b 36); cbn [negb]; [|discriminate].
  destruct (first_is_digit b body') eqn:Efd; cbn [negb]; [|discriminate].
  destruct (str2int_digits b 0 body') as [n rest] eqn:Ed.
  destruct (skip_spaces rest) eqn:Er; [|discriminate].
  intros [= <-].
  change 0 with (u64 0) in Ed. destruct (str2int_digits_split b _ _ _ _ Ed) as (ds & Eds & Fds & Vn).
  exists sp1, sgn, pre, ds, rest, b.
  split; [rewrite Es at 1; rewrite Ecr, Ebody, Eds; try rewrite <- !app_assoc; reflexivity|].
  split; [exact Fsp1|]. split; [apply skip_spaces_nil; exact Er|]. split; [exact Hsg|]. split; [exact Hpre|].
  split; [lia|]. split.
  - intros ->. cbn [app] in Eds. subst body'. unfold first_is_digit in Efd.
    destruct rest as [|y t]; [discriminate|]. cbn [str2int_digits] in Ed.
    destruct (digit_of y) as [x|]; [|discriminate]. rewrite Efd in Ed.
    (* the loop would have consumed y *)
    apply str2int_digits_len in Ed. cbn [length] in Ed. lia.
  - split; [exact Fds|]. cbv zeta. rewrite Hneg. rewrite <- Vn. reflexivity.
Qed.

(* the shape does separate: a prefix alone, or a sign alone, is no numeral *)
Lemma shape_rejects_prefix_only v : ~ numeral_shape 0 [48; 120] v.
Proof.
  intros (sp1 & sgn & pre & ds & sp2 & b & E & F1 & F2 & Hs & Hp & Hb & Hne & Fd & _).
  destruct sp1 as [|a sp1'].
  2:{ inversion F1 as [|? ? Ha _]. subst. cbn in E. inversion E. subst a. discriminate Ha. }
  cbn [app] in E.
  assert (sgn = []) by (destruct Hs as [-> | [-> | ->]]; [reflexivity|discriminate E|discriminate E]). subst sgn. cbn [app] in E.
  destruct Hp as [[-> Hb10] | (_ & y & -> & _)].
  2:{ cbn [app] in E. inversion E. destruct ds; [contradiction|discriminate]. }
  cbn [app] in E. cbn in Hb10. subst b.
  assert (Fall : Forall (fun c => valid_digit 10 c \/ isspace c = true) (ds ++ sp2)).
  { apply Forall_app. split; [eapply Forall_impl; [|exact Fd]; intros c Hc; left; exact Hc|
                              eapply Forall_impl; [|exact F2]; intros c Hc; right; exact Hc]. }
  rewrite <- E in Fall. inversion Fall as [|? ? _ Fall']. inversion Fall' as [|? ? H120 _].
  destruct H120 as [(dv & Hdv & Hlt)|Hsp]; [cbn in Hdv; inversion Hdv; subst dv; lia|discriminate Hsp].
Qed.

(* ------------------------------------------------------------------ completeness: every numeral is accepted *)
Lemma valid_digit_not_space b c : valid_digit b c -> isspace c = false.
Proof.
  intros (x & Hx & _). unfold digit_of in Hx. unfold isspace.
  destruct ((48 <=? c) && (c <=? 57)) eqn:E1; [lia|]. destruct ((97 <=? c) && (c <=? 122)) eqn:E2; [lia|].
  destruct ((65 <=? c) && (c <=? 90)) eqn:E3; [lia|discriminate].
Qed.

Lemma skip_spaces_app sp r : Forall (fun c => isspace c = true) sp -> skip_spaces (sp ++ r) = skip_spaces r.
Proof. induction 1 as [|c l Hc _ IH]; [reflexivity|]. cbn [app skip_spaces]. rewrite Hc. exact IH. Qed.

Lemma skip_spaces_all sp : Forall (fun c => isspace c = true) sp -> skip_spaces sp = [].
Proof. intros H. rewrite <- (app_nil_r sp). rewrite skip_spaces_app by exact H. reflexivity. Qed.

Lemma str2int_digits_run b ds : Forall (valid_digit b) ds -> forall m sp2,
  match sp2 with c :: _ => isspace c = true | [] => True end ->
  str2int_digits b (u64 m) (ds ++ sp2) = (u64 (digits_value b m (map digit_val ds)), sp2).
Proof.
  induction 1 as [|c l (x & Hx & Hlt) _ IH]; intros m sp2 Hs; cbn [app map digits_value].
  - destruct sp2 as [|c r]; [reflexivity|]. cbn [str2int_digits].
    destruct (digit_of c) as [x|] eqn:E; [|reflexivity].
    exfalso. assert (Hv : valid_digit (x + 1) c) by (exists x; split; [exact E|lia]). apply valid_digit_not_space in Hv. congruence.
  - cbn [str2int_digits]. rewrite Hx. destruct (Z.ltb_spec x b); [|lia]. rewrite u64_step_gen.
    unfold digit_val at 1. rewrite Hx. apply IH. exact Hs.
Qed.

Lemma str2int_complete base s v : numeral_shape base s v -> nl_str2int base s = Some v.
Proof.
  intros (sp1 & sgn & pre & ds & sp2 & b & Es & F1 & F2 & Hsg & Hpre & Hb & Hne & Fd & Hv). cbv zeta in Hv.
  destruct ds as [|d0 ds']; [contradiction|]. inversion Fd as [|? ? Hd0 Fd']. subst.
  pose proof (valid_digit_not_space _ _ Hd0) as Hsp0. destruct Hd0 as (x0 & Hx0 & Hlt0).
  (* the body after blanks and sign *)
  set (body := pre ++ (d0 :: ds') ++ sp2).
  assert (Hbody0 : exists c r, body = c :: r /\ isspace c = false /\ c <> 45 /\ c <> 43).
  { destruct Hpre as [[-> _]|(_ & y & -> & _)]; subst body; cbn [app].
    - exists d0, (ds' ++ sp2). split; [reflexivity|]. split; [exact Hsp0|]. split; intros ->; cbn in Hx0; discriminate.
    - exists 48, (y :: (d0 :: ds') ++ sp2). split; [reflexivity|]. split; [reflexivity|]. split; discriminate. }
  destruct Hbody0 as (c0 & r0 & Eb & Hc0 & H45 & H43).
  unfold nl_str2int.
  assert (Hnil : sp1 ++ sgn ++ body <> []).
  { rewrite Eb. destruct sp1; [destruct sgn; discriminate|discriminate]. }
  destruct (sp1 ++ sgn ++ body) as [|z zs] eqn:Ez; [contradiction|]. rewrite <- Ez. clear Ez z zs Hnil.
  rewrite skip_spaces_app by exact F1.
  assert (Hskip : skip_spaces (sgn ++ body) = sgn ++ body).
  { destruct Hsg as [-> | [-> | ->]]; cbn [app]; [rewrite Eb; cbn [skip_spaces]; rewrite Hc0; reflexivity|reflexivity|reflexivity]. }
  rewrite Hskip.
  assert (Hsel : exists c r, sgn ++ body = c :: r /\
            (if (c =? 45) || (c =? 43) then r else c :: r) = body /\ (c =? 45) = match sgn with [45] => true | _ => false end).
  { destruct Hsg as [-> | [-> | ->]]; cbn [app].
    - rewrite Eb. exists c0, r0. split; [reflexivity|]. destruct (Z.eqb_spec c0 45); [contradiction|]. destruct (Z.eqb_spec c0 43); [contradiction|].
      split; reflexivity.
    - exists 45, body. repeat split.
    - exists 43, body. repeat split. }
  destruct Hsel as (c & r & Ecr & Ebd & Eneg). rewrite Ecr. rewrite Ebd. rewrite Eneg.
  (* base detection *)
  assert (Hdet : (if base =? 0
                  then match body with
                       | b0 :: bc :: r2 => if negb (b0 =? 48) then (10, body)
                                           else if (bc =? 98) || (bc =? 66) then (2, r2) else if (bc =? 120) || (bc =? 88) then (16, r2) else (10, body)
                       | _ => (10, body)
                       end
                  else (base, body)) = (b, (d0 :: ds') ++ sp2)).
  { destruct Hpre as [[-> Hb0]|(Hb0 & y & -> & Hy)]; subst body; cbn [app] in *.
    - destruct (Z.eqb_spec base 0) as [E0|N0]; [|subst b; reflexivity]. subst b.
      destruct (ds' ++ sp2) as [|bc r2] eqn:Er; [reflexivity|].
      destruct (Z.eqb_spec d0 48) as [->|]; cbn [negb]; [|reflexivity].
      (* the character after a leading 0 is a decimal digit or a blank: never b, B, x, X *)
      assert (Hbc : (bc =? 98) || (bc =? 66) = false /\ (bc =? 120) || (bc =? 88) = false).
      { destruct ds' as [|d1 ds'']; cbn [app] in Er.
        - subst sp2. inversion F2 as [|? ? Hs _]. subst. unfold isspace in Hs. lia.
        - inversion Er. subst. inversion Fd' as [|? ? (x1 & Hx1 & Hl1) _]. subst. unfold digit_of in Hx1.
          destruct ((48 <=? bc) && (bc <=? 57)) eqn:E1; [lia|]. destruct ((97 <=? bc) && (bc <=? 122)) eqn:E2; [inversion Hx1; lia|].
          destruct ((65 <=? bc) && (bc <=? 90)) eqn:E3; [inversion Hx1; lia|discriminate]. }
      destruct Hbc as [-> ->]. reflexivity.
    - subst base. cbn [Z.eqb negb]. destruct Hy as [[Hy ->]|[Hy ->]]; destruct Hy as [-> | ->]; reflexivity. }
  rewrite Hdet.
  destruct (Z.leb_spec 2 b); [|lia]. destruct (Z.leb_spec b 36); [|lia]. cbn [andb negb].
  cbn [app first_is_digit]. rewrite Hx0. destruct (Z.ltb_spec x0 b); [|lia]. cbn [negb].
  change 0 with (u64 0). change (d0 :: ds' ++ sp2) with ((d0 :: ds') ++ sp2).
  rewrite (str2int_digits_run b (d0 :: ds') Fd 0 sp2) by (destruct sp2 as [|y t]; [exact I|inversion F2; assumption]).
  rewrite (skip_spaces_all sp2 F2). reflexivity.
Qed.
