(* C14 - float side (partial): the decision logic of bn.todecsci.
   Everything about binary floating point itself is ASSUMED, as Section hypotheses that stay visible as
   premises of the closed theorems: [fmt n v] stands for string.format('%.<n>g', v), [rd] for the
   correctly rounded reader (tonumber / the C compiler's strtod). *)
From Coq Require Import List ZArith.
Import ListNotations.
From C14 Require Import Gen.

Section Todecsci.
  Variable F : Type.                       (* floats of one format *)
  Variable text : Type.
  Variable fmt : Z -> F -> text.           (* %.<n>g *)
  Variable rd : text -> F.                 (* tonumber *)
  (* Lua's == on numbers, the test of the code (tonumber(s) ~= v, negated): NOT bit identity - it identifies
     -0.0 with 0.0 (and with the integer 0 that tonumber('-0') returns) and never holds on a NaN *)
  Variable eqv : F -> F -> Prop.
  Variable feq : F -> F -> bool.
  Hypothesis feq_spec : forall a b, feq a b = true <-> eqv a b.

  (* bn.todecsci for decimaldigits >= 16: the ladder of digit counts scraped into TODECSCI_DIGITS *)
  Fixpoint ladder (ds : list Z) (last : Z) (v : F) : text :=
    match ds with
    | [] => fmt last v
    | d :: r => if feq (rd (fmt d v)) v then fmt d v else ladder r last v
    end.
  Definition todecsci64 (v : F) : text :=
    ladder (removelast TODECSCI_DIGITS) (last TODECSCI_DIGITS 17%Z) v.

  (* the classical fact, assumed, for the values [dom] it is claimed of (the finite ones): 17 significant digits
     read back as a number == to the original *)
  Variable dom : F -> Prop.
  Hypothesis roundtrip17 : forall v, dom v -> eqv (rd (fmt 17 v)) v.

  Lemma ladder_reads_back ds v : dom v -> eqv (rd (ladder ds 17%Z v)) v.
  Proof.
    intros Hd. induction ds as [|d r IH]; cbn [ladder]; [apply roundtrip17; exact Hd|].
    destruct (feq (rd (fmt d v)) v) eqn:E; [apply feq_spec; exact E|exact IH].
  Qed.

  Theorem todecsci_reads_back v : dom v -> eqv (rd (todecsci64 v)) v.
  Proof. unfold todecsci64. change (last TODECSCI_DIGITS 17%Z) with 17%Z. apply ladder_reads_back. Qed.

  (* ... and it is the FIRST rung of the ladder that reads back (no assumption on the floats is needed here) *)
  Theorem todecsci_first v :
    (eqv (rd (fmt 15%Z v)) v -> todecsci64 v = fmt 15%Z v) /\
    (~ eqv (rd (fmt 15%Z v)) v -> eqv (rd (fmt 16%Z v)) v -> todecsci64 v = fmt 16%Z v) /\
    (~ eqv (rd (fmt 15%Z v)) v -> ~ eqv (rd (fmt 16%Z v)) v -> todecsci64 v = fmt 17%Z v).
  Proof.
    unfold todecsci64. change (removelast TODECSCI_DIGITS) with [15%Z; 16%Z].
    change (last TODECSCI_DIGITS 17%Z) with 17%Z. cbn [ladder].
    repeat split.
    - intros E. apply (proj2 (feq_spec _ _)) in E. rewrite E. reflexivity.
    - intros N E. destruct (feq (rd (fmt 15%Z v)) v) eqn:E15; [apply feq_spec in E15; contradiction|].
      apply (proj2 (feq_spec _ _)) in E. rewrite E. reflexivity.
    - intros N15 N16. destruct (feq (rd (fmt 15%Z v)) v) eqn:E15; [apply feq_spec in E15; contradiction|].
      destruct (feq (rd (fmt 16%Z v)) v) eqn:E16; [apply feq_spec in E16; contradiction|]. reflexivity.
  Qed.
End Todecsci.

(* The premises are satisfiable on a type with two zeros and a NaN, which bit identity would not allow: a toy
   format (zeros, one NaN, nonzero numbers) whose reader loses the sign of zero, as tonumber('-0') does. *)
Module ToyInstance.
  Inductive tf := PZero | NZero | NaN | Num (q : Z).
  Definition teqv (a b : tf) : Prop :=
    match a, b with
    | (PZero | NZero), (PZero | NZero) => True
    | Num x, Num y => x = y
    | _, _ => False
    end.
  Definition tfeq (a b : tf) : bool :=
    match a, b with
    | (PZero | NZero), (PZero | NZero) => true
    | Num x, Num y => Z.eqb x y
    | _, _ => false
    end.
  Definition tfmt (_ : Z) (v : tf) : tf := v.
  Definition trd (t : tf) : tf := match t with NZero => PZero | x => x end.
  Definition tdom (v : tf) : Prop := v <> NaN.
  Lemma tfeq_spec a b : tfeq a b = true <-> teqv a b.
  Proof. destruct a, b; cbn; try tauto; try (split; [discriminate|tauto]). apply Z.eqb_eq. Qed.
  Lemma troundtrip v : tdom v -> teqv (trd (tfmt 17 v)) v.
  Proof. destruct v; cbn; try tauto. intros H. apply H. reflexivity. Qed.
  Lemma toy_reads_back v : tdom v -> teqv (trd (todecsci64 tf tf tfmt trd tfeq v)) v.
  Proof. apply (todecsci_reads_back tf tf tfmt trd teqv tfeq tfeq_spec tdom troundtrip). Qed.
End ToyInstance.

(* ---- the ".0" rules ---- *)
From C14 Require Import Model.
Local Open Scope Z_scope.

(* print's rule is Lua's rule for every text that %.14g can produce (non-empty, shorter than the buffer) *)
Lemma print_dot0_eq_lua s : (0 < length s)%nat -> Z.of_nat (length s) + 2 < PRINT_BUF ->
  nl_print_dot0 s = lua_add_dot0 s.
Proof.
  intros Hn Hb. unfold nl_print_dot0, lua_add_dot0.
  assert (E : existsb (fun c => negb (is_int_char c)) s = negb (forallb is_int_char s)).
  { clear. induction s as [|c r IH]; [reflexivity|]. cbn [existsb forallb]. rewrite IH.
    destruct (is_int_char c); reflexivity. }
  rewrite E, Bool.negb_involutive.
  destruct (Z.ltb_spec 0 (Z.of_nat (length s))); [|lia].
  destruct (Z.ltb_spec (Z.of_nat (length s) + 2) PRINT_BUF); [|lia].
  rewrite !Bool.andb_true_r. reflexivity.
Qed.

(* after the forced fraction the emitted float literal never looks like a C integer constant
   (which a following 'f' suffix would turn into a syntax error) *)
Lemma force_fract_not_int_like s : int_like (nl_force_fract s) = false.
Proof.
  unfold nl_force_fract. destruct (int_like s) eqn:E; [|exact E].
  assert (H : forall r, forallb is_digit_char (r ++ [46; 48]) = false).
  { induction r as [|c r IH]; [reflexivity|]. cbn [app forallb]. rewrite IH. apply Bool.andb_false_r. }
  destruct s as [|c r]; [discriminate|].
  change ((c :: r) ++ [46; 48]) with (c :: (r ++ [46; 48])). unfold int_like.
  destruct (c =? 45).
  - rewrite H. apply Bool.andb_false_r.
  - change (c :: r ++ [46; 48]) with ((c :: r) ++ [46; 48]). apply H.
Qed.

(* scraped fact (trip-wire): the infinity branch of the float literal printer is guarded by bn.isinfinite(num) alone (a finite
   float32 constant >= FLT_MAX + half ulp is made infinite by the pre-rounding block before it, on purpose) *)
Lemma emit_inf_guard : EMIT_INF_GUARD_IS_ISINFINITE = true.
Proof. reflexivity. Qed.

(* scraped fact (trip-wire, 2e78fcf): a float32 constant is rounded to the nearest float32 - overflow threshold
   FLT_MAX + half ulp included - before its 9 digit text is printed *)
Lemma emit_f32_rounded_first : EMIT_F32_ROUNDED_BEFORE_PRINTING = true.
Proof. reflexivity. Qed.

(* ---- the overflow decision of the pre-rounding block, as a policy ----
   Magnitudes at the top of the float32 range in units of 1/16 ulp of the last binade (ulp = 2^104): FLT_MAX is
   F32_TOP = 16 * (2^24 - 1) units, FLT_MAX + half ulp is F32_TOP + 8.  [f32_correct]: round to nearest, ties to even,
   infinity when the rounded significand reaches 2^24.  [f32_block half]: what the block does with the threshold
   FLT_MAX + half ulp ([half] = true, the scraped policy) or with the threshold FLT_MAX (the seeded change C14-D). *)
Inductive f32top := TopInf | TopVal (k : Z).          (* infinity, or the significand k (value k * ulp) *)
Definition F32_TOP : Z := 16 * (2 ^ 24 - 1).
Definition f32_correct (x : Z) : f32top :=
  let k := x / 16 in let r := x mod 16 in
  let k' := if r <? 8 then k else if 8 <? r then k + 1 else if Z.even k then k else k + 1 in
  if 2 ^ 24 <=? k' then TopInf else TopVal k'.
Definition f32_block (half : bool) (x : Z) : f32top :=
  if (if half then F32_TOP + 8 <=? x else F32_TOP <? x) then TopInf
  else if F32_TOP <? x then TopVal (2 ^ 24 - 1)
  else f32_correct x.                                   (* below FLT_MAX: the C conversion, correct by assumption *)

Lemma f32_block_iff_policy half :
  (forall x, F32_TOP - 16 <= x -> f32_block half x = f32_correct x) <-> half = true.
Proof.
  split.
  - intros H. destruct half; [reflexivity|]. specialize (H (F32_TOP + 1) ltac:(unfold F32_TOP; lia)). vm_compute in H. discriminate H.
  - intros -> x Hx. unfold f32_block, f32_correct.
    destruct (Z.leb_spec (F32_TOP + 8) x) as [Hh|Hh].
    + unfold F32_TOP in *. assert (2 ^ 24 - 1 <= x / 16) by (apply Z.div_le_lower_bound; lia).
      pose proof (Z.div_mod x 16 ltac:(lia)) as D. pose proof (Z.mod_pos_bound x 16 ltac:(lia)) as B.
      destruct (Z.eq_dec (x / 16) (2 ^ 24 - 1)) as [E|N].
      * rewrite E. assert (8 <= x mod 16) by lia. destruct (Z.ltb_spec (x mod 16) 8); [lia|].
        destruct (Z.ltb_spec 8 (x mod 16)); [reflexivity|]. change (Z.even (2 ^ 24 - 1)) with false. reflexivity.
      * assert (2 ^ 24 <= x / 16) by lia.
        destruct (x mod 16 <? 8); [|destruct (8 <? x mod 16); [|destruct (Z.even (x / 16))]];
          match goal with |- TopInf = (if ?c then _ else _) => destruct (Z.leb_spec (2 ^ 24) ltac:(match c with _ <=? ?e => exact e end)) end; try reflexivity; lia.
    + destruct (Z.ltb_spec F32_TOP x) as [Hm|Hm]; [|reflexivity].
      unfold F32_TOP in *. pose proof (Z.div_mod x 16 ltac:(lia)) as D. pose proof (Z.mod_pos_bound x 16 ltac:(lia)) as B.
      assert (E : x / 16 = 2 ^ 24 - 1) by lia.
      rewrite E. assert (x mod 16 < 8) by lia. destruct (Z.ltb_spec (x mod 16) 8); [reflexivity|lia].
Qed.

(* with the scraped policy *)
Lemma f32_block_correct : forall x, F32_TOP - 16 <= x -> f32_block EMIT_F32_ROUNDED_BEFORE_PRINTING x = f32_correct x.
Proof. apply (proj2 (f32_block_iff_policy EMIT_F32_ROUNDED_BEFORE_PRINTING)). reflexivity. Qed.
