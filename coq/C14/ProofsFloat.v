(* C14 - float side (partial): the decision logic of bn.todecsci.
   Everything about binary floating point itself is ASSUMED, as Section hypotheses that stay visible as
   premises of the closed theorems: [fmt n v] stands for string.format('%.<n>g', v), [rd] for the
   correctly rounded reader (tonumber / the C compiler's strtod). *)
From Coq Require Import List ZArith.
Import ListNotations.
From C14 Require Import Gen.

Section Todecsci.
  Variable F : Type.                       (* finite floats of one format *)
  Variable text : Type.
  Variable fmt : Z -> F -> text.           (* %.<n>g *)
  Variable rd : text -> F.                 (* correctly rounded reading *)
  Variable feq : F -> F -> bool.           (* tonumber(s) ~= v  test of the code, negated *)
  Hypothesis feq_spec : forall a b, feq a b = true <-> a = b.

  (* bn.todecsci for decimaldigits >= 16: the ladder of digit counts scraped into TODECSCI_DIGITS *)
  Fixpoint ladder (ds : list Z) (last : Z) (v : F) : text :=
    match ds with
    | [] => fmt last v
    | d :: r => if feq (rd (fmt d v)) v then fmt d v else ladder r last v
    end.
  Definition todecsci64 (v : F) : text :=
    ladder (removelast TODECSCI_DIGITS) (last TODECSCI_DIGITS 17%Z) v.

  (* the classical fact, assumed: 17 significant digits identify a binary64 *)
  Hypothesis roundtrip17 : forall v, rd (fmt 17 v) = v.

  Lemma ladder_reads_back ds v : rd (ladder ds 17%Z v) = v.
  Proof.
    induction ds as [|d r IH]; cbn [ladder]; [apply roundtrip17|].
    destruct (feq (rd (fmt d v)) v) eqn:E; [apply feq_spec; exact E|exact IH].
  Qed.

  Theorem todecsci_reads_back v : rd (todecsci64 v) = v.
  Proof. unfold todecsci64. change (last TODECSCI_DIGITS 17%Z) with 17%Z. apply ladder_reads_back. Qed.

  (* ... and it is the FIRST rung of the ladder that reads back *)
  Theorem todecsci_first v :
    (rd (fmt 15%Z v) = v -> todecsci64 v = fmt 15%Z v) /\
    (rd (fmt 15%Z v) <> v -> rd (fmt 16%Z v) = v -> todecsci64 v = fmt 16%Z v) /\
    (rd (fmt 15%Z v) <> v -> rd (fmt 16%Z v) <> v -> todecsci64 v = fmt 17%Z v).
  Proof.
    unfold todecsci64. change (removelast TODECSCI_DIGITS) with [15%Z; 16%Z].
    change (last TODECSCI_DIGITS 17%Z) with 17%Z. cbn [ladder].
    repeat split.
    - intros E. apply (proj2 (feq_spec _ _)) in E. rewrite E. reflexivity.
    - intros N E. destruct (feq (rd (fmt 15%Z v)) v) eqn:E15; [apply feq_spec in E15; contradiction|].
      apply (proj2 (feq_spec _ _)) in E. rewrite E. reflexivity.
    - intros N15 N16. destruct (feq (rd (fmt 15%Z v)) v) eqn:E15; [apply feq_spec in E15; contradiction|].
      destruct (feq (rd (fmt 16%Z v)) v) eqn:E16; [apply feq_spec in E16; contradiction|]. reflexivity.
  Qed.
End Todecsci.
