(* Property C14: numbers survive every text <-> binary conversion. Only the property theorems. *)
From C14 Require Import Model ProofsInt.
Local Open Scope Z_scope.

(* the literal reader computes the mathematical value of the digit string modulo 2^BN_BITS ... *)
Theorem C14_reader_value_mod : forall base ds, nl_read_int base ds = bn_wrap (digits_value base 0 ds).
Proof. exact read_int_wrap. Qed.
Print Assumptions C14_reader_value_mod.

(* ... exact for every value the big-number type can hold *)
Theorem C14_reader_exact_partial : forall base ds,
  - 2 ^ (BN_BITS - 1) <= digits_value base 0 ds < 2 ^ (BN_BITS - 1) ->
  nl_read_int base ds = digits_value base 0 ds.
Proof. exact read_int_exact. Qed.
Print Assumptions C14_reader_exact_partial.

(* full statement [reader_exact] is false today: 2^160 written in decimal reads as 0 *)
Theorem C14_reader_exact_refuted : ~ reader_exact.
Proof. exact reader_exact_refuted. Qed.
Print Assumptions C14_reader_exact_refuted.
