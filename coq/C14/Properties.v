(* Property C14: numbers survive every text <-> binary conversion. Only the property theorems. *)
From C14 Require Import Model ProofsInt ProofsEmit ProofsStr ProofsFloat.
Local Open Scope Z_scope.

(* the literal reader computes the mathematical value of the digit string modulo 2^BN_BITS ... *)
Theorem C14_reader_value_mod : forall base ds, nl_read_int base ds = bn_wrap (digits_value base 0 ds).
Proof. exact read_int_wrap. Qed.
Print Assumptions C14_reader_value_mod.

(* ... exact for every value the big-number type can hold *)
Theorem C14_reader_exact_partial : forall base ds,
  - 2 ^ (BN_BITS - 1) <= digits_value base 0 ds < 2 ^ (BN_BITS - 1) ->
  nl_read_int base ds = digits_value base 0 ds.
Proof. exact read_int_exact. Qed.
Print Assumptions C14_reader_exact_partial.

(* full statement [reader_exact] is false today: 2^160 written in decimal reads as 0 *)
Theorem C14_reader_exact_refuted : ~ reader_exact.
Proof. exact reader_exact_refuted. Qed.
Print Assumptions C14_reader_exact_refuted.

(* ---- the C literal printer against ISO C's typing of integer constants ---- *)
(* full statement [literal_roundtrip] (every type up to 64 bits, every value in [-2^159, 2^159), every
   base) is false today: IntegralType:wrap_value is wrong beyond one wrap on the signed side *)
Theorem C14_literal_roundtrip_refuted : ~ literal_roundtrip.
Proof. exact literal_roundtrip_refuted. Qed.
Print Assumptions C14_literal_roundtrip_refuted.

Theorem C14_literal_roundtrip_partial : forall T v base, In T all_int_types -> it_bits T <= 64 ->
  - 2 ^ (BN_BITS - 1) <= v < 2 ^ (BN_BITS - 1) ->
  it_bits T < 64 \/ it_signed T = false \/ it_inrange T (nl_prewrap T v) = true ->
  exists w val, c_eval (nl_emit T v base) = Some ((w, it_signed T), val) /\ c_convert T val = wrap_T T v.
Proof. exact literal_roundtrip_partial. Qed.
Print Assumptions C14_literal_roundtrip_partial.

(* ---- run time ---- *)
Theorem C14_int2str_str2int_roundtrip : forall x, in_i64 x ->
  exists s, nl_int2str x = Some s /\ nl_str2int10 s = Some x /\ Z.of_nat (length s) <= 21.
Proof. exact int2str_str2int_roundtrip. Qed.
Print Assumptions C14_int2str_str2int_roundtrip.

(* ---- floats (partial): decision logic of bn.todecsci; the 17-digit fact is a premise ---- *)
Theorem C14_todecsci_reads_back_partial :
  forall (F text : Type) (fmt : Z -> F -> text) (rd : text -> F) (feq : F -> F -> bool),
    (forall a b, feq a b = true <-> a = b) ->
    (forall v, rd (fmt 17 v) = v) ->
    forall v, rd (todecsci64 F text fmt rd feq v) = v.
Proof. exact todecsci_reads_back. Qed.
Print Assumptions C14_todecsci_reads_back_partial.

Theorem C14_todecsci_first_partial :
  forall (F text : Type) (fmt : Z -> F -> text) (rd : text -> F) (feq : F -> F -> bool),
    (forall a b, feq a b = true <-> a = b) ->
    forall v,
    (rd (fmt 15 v) = v -> todecsci64 F text fmt rd feq v = fmt 15 v) /\
    (rd (fmt 15 v) <> v -> rd (fmt 16 v) = v -> todecsci64 F text fmt rd feq v = fmt 16 v) /\
    (rd (fmt 15 v) <> v -> rd (fmt 16 v) <> v -> todecsci64 F text fmt rd feq v = fmt 17 v).
Proof. exact todecsci_first. Qed.
Print Assumptions C14_todecsci_first_partial.

(* ---- the ".0" rules ---- *)
Theorem C14_print_dot0_eq_lua : forall s, (0 < length s)%nat -> Z.of_nat (length s) + 2 < PRINT_BUF ->
  nl_print_dot0 s = lua_add_dot0 s.
Proof. exact print_dot0_eq_lua. Qed.
Print Assumptions C14_print_dot0_eq_lua.

Theorem C14_force_fract_not_int_like : forall s, int_like (nl_force_fract s) = false.
Proof. exact force_fract_not_int_like. Qed.
Print Assumptions C14_force_fract_not_int_like.
