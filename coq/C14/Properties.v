(* Property C14: numbers survive every text <-> binary conversion. Only the property theorems. *)
From C14 Require Import Model ProofsInt ProofsEmit ProofsStr ProofsFloat.
Local Open Scope Z_scope.

(* the literal reader computes the mathematical value of the digit string modulo 2^BN_BITS ... *)
Theorem C14_reader_value_mod : forall base ds, nl_read_int base ds = bn_wrap (digits_value base 0 ds).
Proof. exact read_int_wrap. Qed.
Print Assumptions C14_reader_value_mod.

(* ... exact for every value the big-number type can hold *)
Theorem C14_reader_exact_partial : forall base ds,
  - 2 ^ (BN_BITS - 1) <= digits_value base 0 ds < 2 ^ (BN_BITS - 1) ->
  nl_read_int base ds = digits_value base 0 ds.
Proof. exact read_int_exact. Qed.
Print Assumptions C14_reader_exact_partial.

(* decimal literals (after 96cb9da): the reader produces an integer only when it is the exact value of the
   digits; values the big numbers cannot hold are handed to the float reader (like Lua), never wrapped *)
Theorem C14_reader_dec_exact : forall ds v, nl_read_dec ds = Some v -> v = digits_value 10 0 ds.
Proof. exact read_dec_exact. Qed.
Print Assumptions C14_reader_dec_exact.

Theorem C14_reader_dec_complete : forall ds,
  - 2 ^ (BN_BITS - 1) <= digits_value 10 0 ds < 2 ^ (BN_BITS - 1) -> nl_read_dec ds = Some (digits_value 10 0 ds).
Proof. exact read_dec_complete. Qed.
Print Assumptions C14_reader_dec_complete.

Theorem C14_reader_dec_float : forall ds, 2 ^ (BN_BITS - 1) <= digits_value 10 0 ds -> nl_read_dec ds = None.
Proof. exact read_dec_float. Qed.
Print Assumptions C14_reader_dec_float.

(* hexadecimal / binary integer spellings of any length: the same value as Lua's reader, which wraps them
   modulo 2^64 *)
Theorem C14_reader_eq_lua_mod64 : forall base ds, wrap64 (nl_read_int base ds) = wrap64 (digits_value base 0 ds).
Proof. exact read_int_eq_lua_mod64. Qed.
Print Assumptions C14_reader_eq_lua_mod64.

(* ---- the C literal printer against ISO C's typing of integer constants ---- *)
(* full strength (after 59c538f): every scraped integral type up to 64 bits, every value in [-2^159, 2^159),
   every base: the emitted token has a C type of T's signedness and denotes wrap_T(v) itself *)
Theorem C14_literal_roundtrip : forall T v base, In T all_int_types -> it_bits T <= 64 ->
  - 2 ^ (BN_BITS - 1) <= v < 2 ^ (BN_BITS - 1) ->
  exists w val, c_eval (nl_emit T v base) = Some ((w, it_signed T), val) /\ val = wrap_T T v /\ c_convert T val = wrap_T T v.
Proof. exact literal_roundtrip. Qed.
Print Assumptions C14_literal_roundtrip.

(* ---- run time ---- *)
Theorem C14_int2str_str2int_roundtrip : forall x, in_i64 x ->
  exists s, nl_int2str x = Some s /\ nl_str2int10 s = Some x /\ Z.of_nat (length s) <= 21.
Proof. exact int2str_str2int_roundtrip. Qed.
Print Assumptions C14_int2str_str2int_roundtrip.

(* ---- floats (partial): decision logic of bn.todecsci; the 17-digit fact is a premise ---- *)
Theorem C14_todecsci_reads_back_partial :
  forall (F text : Type) (fmt : Z -> F -> text) (rd : text -> F) (feq : F -> F -> bool),
    (forall a b, feq a b = true <-> a = b) ->
    (forall v, rd (fmt 17 v) = v) ->
    forall v, rd (todecsci64 F text fmt rd feq v) = v.
Proof. exact todecsci_reads_back. Qed.
Print Assumptions C14_todecsci_reads_back_partial.

Theorem C14_todecsci_first_partial :
  forall (F text : Type) (fmt : Z -> F -> text) (rd : text -> F) (feq : F -> F -> bool),
    (forall a b, feq a b = true <-> a = b) ->
    forall v,
    (rd (fmt 15 v) = v -> todecsci64 F text fmt rd feq v = fmt 15 v) /\
    (rd (fmt 15 v) <> v -> rd (fmt 16 v) = v -> todecsci64 F text fmt rd feq v = fmt 16 v) /\
    (rd (fmt 15 v) <> v -> rd (fmt 16 v) <> v -> todecsci64 F text fmt rd feq v = fmt 17 v).
Proof. exact todecsci_first. Qed.
Print Assumptions C14_todecsci_first_partial.

(* ---- the ".0" rules ---- *)
Theorem C14_print_dot0_eq_lua : forall s, (0 < length s)%nat -> Z.of_nat (length s) + 2 < PRINT_BUF ->
  nl_print_dot0 s = lua_add_dot0 s.
Proof. exact print_dot0_eq_lua. Qed.
Print Assumptions C14_print_dot0_eq_lua.

Theorem C14_force_fract_not_int_like : forall s, int_like (nl_force_fract s) = false.
Proof. exact force_fract_not_int_like. Qed.
Print Assumptions C14_force_fract_not_int_like.
