(* Property C14: numbers survive every text <-> binary conversion. Only the property theorems. *)
From C14 Require Import ProofsBn Model ProofsInt ProofsEmit ProofsStr ProofsFloat.
Local Open Scope Z_scope.

(* the literal reader computes the mathematical value of the digit string modulo 2^BN_BITS ... *)
Theorem C14_reader_value_mod : forall base ds, nl_read_int base ds = bn_wrap (digits_value base 0 ds).
Proof. exact read_int_wrap. Qed.
Print Assumptions C14_reader_value_mod.

(* ... exact for every value the big-number type can hold *)
Theorem C14_reader_exact_partial : forall base ds,
  - 2 ^ (BN_BITS - 1) <= digits_value base 0 ds < 2 ^ (BN_BITS - 1) ->
  nl_read_int base ds = digits_value base 0 ds.
Proof. exact read_int_exact. Qed.
Print Assumptions C14_reader_exact_partial.

(* decimal literals (after 96cb9da): values the big numbers cannot hold are handed to the float reader (like Lua),
   never wrapped.  (The former C14_reader_dec_exact restated the guard of the model and is gone: the content is
   C14_reader_is_bn_from below, against C17's limb-level model of bn.lua.) *)
Theorem C14_reader_dec_complete : forall ds,
  - 2 ^ (BN_BITS - 1) <= digits_value 10 0 ds < 2 ^ (BN_BITS - 1) -> nl_read_dec ds = Some (digits_value 10 0 ds).
Proof. exact read_dec_complete. Qed.
Print Assumptions C14_reader_dec_complete.

Theorem C14_reader_dec_float : forall ds, 2 ^ (BN_BITS - 1) <= digits_value 10 0 ds -> nl_read_dec ds = None.
Proof. exact read_dec_float. Qed.
Print Assumptions C14_reader_dec_float.

(* hexadecimal / binary integer spellings of any length: the same value as Lua's reader, which wraps them
   modulo 2^64 *)
Theorem C14_reader_eq_lua_mod64 : forall base ds, wrap64 (nl_read_int base ds) = wrap64 (digits_value base 0 ds).
Proof. exact read_int_eq_lua_mod64. Qed.
Print Assumptions C14_reader_eq_lua_mod64.

(* ---- the C literal printer against ISO C's typing of integer constants ---- *)
(* _partial: the 128-bit types (int128 / uint128, for which C has no constant syntax) are excluded by the hypothesis
   it_bits T <= 64.  After 59c538f: every scraped integral type up to 64 bits, every value in [-2^159, 2^159),
   every base: the emitted token has a C type of T's signedness and denotes wrap_T(v) itself *)
Theorem C14_literal_roundtrip_partial : forall T v base, In T all_int_types -> it_bits T <= 64 ->
  - 2 ^ (BN_BITS - 1) <= v < 2 ^ (BN_BITS - 1) ->
  exists w val, c_eval (nl_emit T v base) = Some ((w, it_signed T), val) /\ val = wrap_T T v /\ c_convert T val = wrap_T T v.
Proof. exact literal_roundtrip. Qed.
Print Assumptions C14_literal_roundtrip_partial.

(* ---- run time ---- *)
Theorem C14_int2str_str2int_roundtrip : forall x, in_i64 x ->
  exists s, nl_int2str x = Some s /\ nl_str2int10 s = Some x /\ Z.of_nat (length s) <= 21.
Proof. exact int2str_str2int_roundtrip. Qed.
Print Assumptions C14_int2str_str2int_roundtrip.

(* ---- floats (partial): decision logic of bn.todecsci; the 17-digit fact is a premise, stated up to the
   comparison the code uses (Lua's ==, which identifies the two zeros and never holds on a NaN) and for the values
   [dom] it is assumed of; ProofsFloat.ToyInstance shows the premises satisfiable on a type with -0 and NaN.  The
   exponent clean-up and the forced ".0" applied afterwards are not part of this statement. ---- *)
Theorem C14_todecsci_reads_back_partial :
  forall (F text : Type) (fmt : Z -> F -> text) (rd : text -> F) (eqv : F -> F -> Prop) (feq : F -> F -> bool),
    (forall a b, feq a b = true <-> eqv a b) ->
    forall dom : F -> Prop, (forall v, dom v -> eqv (rd (fmt 17 v)) v) ->
    forall v, dom v -> eqv (rd (todecsci64 F text fmt rd feq v)) v.
Proof. exact todecsci_reads_back. Qed.
Print Assumptions C14_todecsci_reads_back_partial.

Theorem C14_todecsci_first_partial :
  forall (F text : Type) (fmt : Z -> F -> text) (rd : text -> F) (eqv : F -> F -> Prop) (feq : F -> F -> bool),
    (forall a b, feq a b = true <-> eqv a b) ->
    forall v,
    (eqv (rd (fmt 15 v)) v -> todecsci64 F text fmt rd feq v = fmt 15 v) /\
    (~ eqv (rd (fmt 15 v)) v -> eqv (rd (fmt 16 v)) v -> todecsci64 F text fmt rd feq v = fmt 16 v) /\
    (~ eqv (rd (fmt 15 v)) v -> ~ eqv (rd (fmt 16 v)) v -> todecsci64 F text fmt rd feq v = fmt 17 v).
Proof. exact todecsci_first. Qed.
Print Assumptions C14_todecsci_first_partial.

(* ---- the ".0" rules ---- *)
Theorem C14_print_dot0_eq_lua : forall s, (0 < length s)%nat -> Z.of_nat (length s) + 2 < PRINT_BUF ->
  nl_print_dot0 s = lua_add_dot0 s.
Proof. exact print_dot0_eq_lua. Qed.
Print Assumptions C14_print_dot0_eq_lua.

Theorem C14_force_fract_not_int_like : forall s, int_like (nl_force_fract s) = false.
Proof. exact force_fract_not_int_like. Qed.
Print Assumptions C14_force_fract_not_int_like.

(* ---- the reader against the verified model of bn.lua (sub-project C17, imported) ----
   C14's reader is a three-line recurrence in wrapped big-number arithmetic; bn.lua's frombase works in chunks on
   32-bit limbs.  On every string of valid digit characters the limb-level model of C17 (proved exact there:
   C17_literal_exact) reads the number C14's reader reads; a decimal literal is an integer for one exactly when it
   is for the other, and is handed to the float reader otherwise. *)
Theorem C14_reader_is_bn_from :
  (forall cs, Forall (C17.ProofsText.char_ok 2) cs ->
     exists x, C17.Model3.bn_from_bin false cs = C17.Model2.Ok x /\ C17.Model.wf x /\
               C17.Model.sval x = nl_read_int 2 (map C17.ProofsText.cval cs)) /\
  (forall cs, cs <> [] -> Forall (C17.ProofsText.char_ok 16) cs ->
     exists x, C17.Model3.bn_from_hex false cs = C17.Model2.Ok x /\ C17.Model.wf x /\
               C17.Model.sval x = nl_read_int 16 (map C17.ProofsText.cval cs)) /\
  (forall cs, cs <> [] -> Forall (C17.ProofsText.char_ok 10) cs ->
     match nl_read_dec (map C17.ProofsText.cval cs) with
     | Some v => exists x, C17.Model3.bn_from_dec cs = C17.Model2.Ok (C17.Model3.LInt x) /\ C17.Model.wf x /\ C17.Model.sval x = v
     | None => C17.Model3.bn_from_dec cs = C17.Model2.Ok C17.Model3.LFloat
     end).
Proof. exact reader_is_bn_from. Qed.
Print Assumptions C14_reader_is_bn_from.

(* ---- which strings strconv.str2int accepts, and with which value (after 4928697) ----
   [numeral_shape] (Model.v): blanks, an optional sign, with base detection an optional 0x/0X or 0b/0B prefix, AT LEAST
   ONE digit of the base, blanks; the value is the digits' value modulo 2^64, negated for '-', as a signed 64-bit
   integer.  Whatever str2int accepts has that shape and that value.  The statement is false of the code before the
   repair (it accepted "-", "0x", " - " as 0) and separates: "0x" is no numeral. *)
Theorem C14_str2int_sound : forall base s v, nl_str2int base s = Some v -> numeral_shape base s v.
Proof. exact str2int_sound_holds. Qed.
Print Assumptions C14_str2int_sound.

Theorem C14_str2int_shape_separates : forall v, ~ numeral_shape 0 [48; 120] v.
Proof. exact shape_rejects_prefix_only. Qed.
Print Assumptions C14_str2int_shape_separates.

(* scraped fact the float streams rely on (trip-wire): the infinity BRANCH of CEmitter:add_scalar_literal is guarded by
   bn.isinfinite(num) alone.  That does not mean that only infinite constants are emitted as infinity: since 2e78fcf the
   pre-rounding block in front of it deliberately turns a FINITE float32 constant of magnitude >= 0x1.ffffffp+127
   (FLT_MAX + half ulp) into math.huge, which this branch then emits (C14_emit_f32_rounded_first).  What the guard
   excludes is any OTHER finite constant, of any float width, reaching the infinity builtin (the seeded change C14-D of the
   pre-repair tree widened exactly this guard).  The real guarantee is the emitf-boundary stream (bit-exact). *)
Theorem C14_emit_inf_guard : EMIT_INF_GUARD_IS_ISINFINITE = true.
Proof. exact emit_inf_guard. Qed.
Print Assumptions C14_emit_inf_guard.

(* scraped fact the float32 streams rely on (trip-wire, 2e78fcf): CEmitter:add_scalar_literal rounds a float32 constant to
   the nearest float32 before printing its 9 digits - to infinity exactly from FLT_MAX + half ulp (0x1.ffffffp+127) on,
   to FLT_MAX between FLT_MAX and that threshold, by the C conversion below - so the text is that of a float32 value and
   the C compiler's reading of it is exact.  Removing the block, or moving the threshold (the seeded change C14-D), makes
   this false.  That the rounding itself is to nearest-even is tested bit for bit on the boundary streams, not proved. *)
Theorem C14_emit_f32_rounded_first : EMIT_F32_ROUNDED_BEFORE_PRINTING = true.
Proof. exact emit_f32_rounded_first. Qed.
Print Assumptions C14_emit_f32_rounded_first.

(* _iff_policy companion of C14_emit_f32_rounded_first, on a model of the OVERFLOW DECISION of the pre-rounding block only
   (magnitudes at the top of the float32 range in units of 1/16 ulp; below FLT_MAX the C conversion is taken as correct):
   the block agrees with round-to-nearest-even-with-overflow on every magnitude from FLT_MAX - ulp up exactly when its
   infinity threshold is FLT_MAX + half ulp; with the threshold FLT_MAX (the seeded change C14-D) it is wrong at
   FLT_MAX + 1/16 ulp.  The model is not extracted; the code is tied to it by the scraped flag and by the emitf-boundary
   stream. *)
Theorem C14_emit_f32_block_iff_policy : forall half,
  (forall x, F32_TOP - 16 <= x -> f32_block half x = f32_correct x) <-> half = true.
Proof. exact f32_block_iff_policy. Qed.
Print Assumptions C14_emit_f32_block_iff_policy.

Theorem C14_emit_f32_block_correct : forall x, F32_TOP - 16 <= x -> f32_block EMIT_F32_ROUNDED_BEFORE_PRINTING x = f32_correct x.
Proof. exact f32_block_correct. Qed.
Print Assumptions C14_emit_f32_block_correct.

(* completeness of str2int: every numeral of that shape (for that base, with that value) is accepted with that value.
   With C14_str2int_sound: str2int base s = Some v exactly when [numeral_shape base s v].  (That the shape is Lua's own -
   l_str2int / luaB_tonumber - is covered by the numeral stream with Lua as oracle; '0b' is a documented extension.) *)
Theorem C14_str2int_complete : forall base s v, numeral_shape base s v -> nl_str2int base s = Some v.
Proof. exact str2int_complete. Qed.
Print Assumptions C14_str2int_complete.
